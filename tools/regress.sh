#!/bin/bash
# tools/regress.sh [jobs]  - re-run every stored seeded change (must be reported: VIOLATION) and every stored harmless
# rewrite (must stay silent) against /repo's HEAD with the current checks. Prints one line per item.
J=${1:-3}
cd /verif
one() {
  d=$1; kind=$2; id=$(basename $d); prop=${id%-*}
  if grep -q '"obsolete": true' $d/meta.json 2>/dev/null; then echo "$kind $id: skipped (marked obsolete in its meta.json)"; return; fi
  if ! git -C /repo apply --check /verif/$d/patch.diff 2>/dev/null; then echo "$kind $id: skipped (patch does not apply to HEAD any more; see its meta.json)"; return; fi
  if [ $kind = seeded ]; then
    out=$(SEED_SKIP_TESTS=1 tools/seedtest.sh $d/patch.diff $d/demo.py $prop 2>&1)
    if echo "$out" | grep -q "^VIOLATION.*no-failing-input-found"; then r="reported(no-failing-input-found)"
    elif echo "$out" | grep -q "^VIOLATION"; then r="CAUGHT(replay)"; else r="MISSED"; fi
  else
    out=$(tools/harmlesstest.sh $d/patch.diff $d/demo.py $prop 2>&1)
    if echo "$out" | grep -q "^VIOLATION.*no-failing-input-found"; then r="ALARM(no-failing-input-found)"
    elif echo "$out" | grep -q "^VIOLATION"; then r="FALSE-ALARM(replay)"; elif echo "$out" | grep -q "vcheck exit 0"; then r="silent"; else r="?? $(echo "$out" | tail -1)"; fi
  fi
  echo "$kind $id: $r"
}
export -f one
( for d in seeded/*; do echo "$d seeded"; done; for d in harmless/*; do echo "$d harmless"; done ) | { if [ -n "$ONLY" ]; then grep -E "/($(echo $ONLY | tr ' ' '|'))-"; else cat; fi; } | xargs -P $J -L 1 bash -c 'one $0 $1'
