#!/usr/bin/env python3
"""tools/store_round.py <kind> <srcroot> <offset> [rebased-dir]
kind = seeded | harmless. Copies <srcroot>/<P>/{patch,demo,meta}<i>.* (or <srcroot>/<P>/out/...) to
/verif/<kind>/<P>-<i+offset>/. The verdict fields of meta.json are filled in later by tools/record_regress.py."""
import json, os, shutil, sys, glob
kind, src, off = sys.argv[1], sys.argv[2], int(sys.argv[3])
for n in range(1, 21):
    p = 'C%02d' % n
    base = os.path.join(src, p, 'out') if os.path.isdir(os.path.join(src, p, 'out')) else os.path.join(src, p)
    for i in (1, 2):
        pf = os.path.join(base, 'patch%d.diff' % i)
        if not os.path.exists(pf):
            print('missing', pf); continue
        d = '/verif/%s/%s-%d' % (kind, p, i + off)
        os.makedirs(d, exist_ok=True)
        shutil.copy(pf, d + '/patch.diff')
        shutil.copy(os.path.join(base, 'demo%d.py' % i), d + '/demo.py')
        try:
            m = json.load(open(os.path.join(base, 'meta%d.json' % i)))
        except Exception as e:
            m = {'property': p, 'note': 'meta unreadable: %r' % e}
        m['round'] = os.path.basename(src.rstrip('/'))
        json.dump(m, open(d + '/meta.json', 'w'), indent=1)
