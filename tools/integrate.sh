#!/bin/bash
# tools/integrate.sh <group> : merge wk-<group> into /verif main, cherry-pick its fix commits into /repo main
g=$1
cd /verif
git merge -q --no-edit wk-$g >/dev/null 2>&1
if git status --short | grep -q "^UU lean/Proofs.lean"; then
python3 - <<'PY'
s=open('/verif/lean/Proofs.lean').read()
lines=sorted(set(l for l in s.split('\n') if l.startswith('import ')))
open('/verif/lean/Proofs.lean','w').write("-- root of the proof library: one module per property (theorems only) + helper lemmas\n"+'\n'.join(lines)+'\n')
PY
git add lean/Proofs.lean
fi
for f in $(git status --short | grep "^UU evidence" | awk '{print $2}'); do git checkout --theirs $f; git add $f; done
if git status --short | grep -q "^UU\|^AA"; then echo "UNRESOLVED verif conflicts:"; git status --short | grep "^UU\|^AA"; exit 1; fi
git commit -qm "merge wk-$g" 2>/dev/null
echo "verif merged: $(git log --oneline | head -1)"
cd /repo
for c in $(git rev-list --reverse main..wk-$g 2>/dev/null); do
  out=$(git cherry-pick $c 2>&1)
  if echo "$out" | grep -q "nothing to commit\|previous cherry-pick is now empty"; then git cherry-pick --skip; echo "skipped (already present) $(git log --format=%s -1 $c)";
  elif git status --short | grep -q "^UU"; then echo "CONFLICT picking $c: $(git log --format=%s -1 $c)"; git status --short | grep "^UU"; exit 1;
  else echo "picked $(git log --format='%h %s' -1)"; fi
done
/venv/bin/python -m pytest -q -p no:cacheprovider --timeout=900 2>&1 | grep -E "passed|failed" | tail -1
