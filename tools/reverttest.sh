#!/bin/bash
# tools/reverttest.sh : for every repaired defect in KNOWN_FINDINGS.json revert its fix commit(s) in a scratch worktree
# of /repo's HEAD and run the owning property's check: the old defect must be reported again (fixed entries suppress nothing).
cd /verif
python3 - <<'PY' > /tmp/revert_list.txt
import json
d=json.load(open('/verif/KNOWN_FINDINGS.json'))
for e in d['findings']:
    if e.get('status')=='fixed' and e.get('commit'):
        print(e['property'], e['key'], ' '.join(e['commit'].split()))
PY
while read prop key commits; do
  R=/tmp/reverttest.$$/repo; rm -rf /tmp/reverttest.$$; mkdir -p /tmp/reverttest.$$
  git -C /repo worktree add -q --detach $R HEAD || continue
  ok=1
  for c in $commits; do ( cd $R && git revert --no-commit $c >/dev/null 2>&1 ) || ok=0; done
  if [ $ok = 0 ]; then echo "$prop $key ($commits): REVERT-CONFLICTS (later commits touch the same lines) - skipped"; git -C /repo worktree remove --force $R; continue; fi
  cp -f evidence/$prop.json /tmp/reverttest.$$/ev.json 2>/dev/null
  out=$(EMD_REPO=$R timeout 3000 ./vcheck $prop --tier quick 2>&1)
  cp -f /tmp/reverttest.$$/ev.json evidence/$prop.json 2>/dev/null
  if echo "$out" | grep -q "^VIOLATION.*no-failing-input-found"; then r="reported(no-failing-input-found)";
  elif echo "$out" | grep -q "^VIOLATION"; then r="REPORTED(replay)"; else r="NOT-REPORTED: $(echo "$out" | tail -1 | cut -c1-120)"; fi
  echo "$prop $key ($commits): $r"
  git -C /repo worktree remove --force $R; rm -rf /tmp/reverttest.$$
done < /tmp/revert_list.txt
