#!/usr/bin/env python3
"""Regenerate MANIFEST.json from the table below (run from /verif)."""
import json
import os

HERE = os.path.dirname(os.path.dirname(os.path.abspath(__file__)))
BASELINE = ("cd /repo && /venv/bin/python -m pytest -ra -q -p no:cacheprovider --timeout=900 "
            "--continue-on-collection-errors")

# id -> (built?, what the theorems cover, level note / trusted base, technique, design ref)
P = {
 'C12': (True,
         "Lean 4 theorems over the executable model of get_cycle_vector (EmdModel/Cycles.lean), for every sample type, wrap predicate, "
         "acceptance test and input of any length: the labelled runs partition the series in temporal order, no run is empty or contains "
         "an internal wrap, consecutive runs are separated by a wrap, labels are 0..K-1 in order, each label is one contiguous block, "
         "full cover when all cycles are requested, no cycles without a wrap. The model is tied to /repo by a correspondence run "
         "(exhaustive over all 5-letter phase sequences up to length 6/8 x return_good, plus random multi-column phases) and the "
         "property's own words are evaluated on the implementation for the same cases (failing-input search).",
         "Trusted: Lean kernel + propext/Classical.choice/Quot.sound; the hand-written model and the correspondence harness; "
         "wrap_phase (x % 2pi) treated as an oracle; float |diff| > step compared with exact arithmetic (near-ties skipped and counted).",
         "Lean 4 proof over hand-written model + differential correspondence with the implementation", "5 C12"),
 'C13': (True,
         "Lean 4 theorems over the same model: the acceptance test is exactly the conjunction of the documented criteria (non-empty, "
         "strictly increasing, start within edge above 0, end within edge below 2pi); with at least one wrap a segment is labelled iff it "
         "passes the criteria and no sample is masked (soundness and completeness); the partition does not depend on which cycles are "
         "requested and good labels are the rank among accepted segments (order-preserving renumbering); the container's is_good flag "
         "agrees with good-cycle detection. Correspondence: exhaustive alphabet sequences x 4 edge values x single-sample masks, random "
         "phases x random/block masks, direct is_good calls, Cycles(...).metrics['is_good']; instance check re-evaluates the criteria per segment.",
         "Trusted: Lean kernel + standard axioms; model + harness; the float constant 2*pi - phase_edge is computed by the harness "
         "with the documented expression and passed to the model exactly; masks are boolean arrays.",
         "Lean 4 proof over hand-written model + differential correspondence with the implementation", "5 C13"),
 'C10': (True,
         'Lean 4 theorems over the executable model of hilberthuang (dense + COO) and hilberthuang_1d (EmdModel/Spectra.lean), for every non-decreasing edge vector, every frequency array (NaN, negative, on-edge, out of range), every amplitude array, both modes, all sizes: digitize characterisation; every sample in exactly one bin iff in range; dense = indicator-sum spec; sparse entries in shape with one per in-range sample; dense = per-cell sums of the sparse entries with equal totals; 1-D = spec; time-marginal of dense = IMF-marginal of 1-D; total = in-range weight; energy = amplitude spectrum of squares. Tied to /repo by an exact (==) correspondence on an exhaustive edge-hitting alphabet x linear/log bins from the real define_hist_bins x modes x dense/sparse/1-D, plus random and malformed streams and a brute-force per-sample histogram instance check.',
         'Trusted: Lean kernel + propext/Classical.choice/Quot.sound; hand-written model + harness; np.digitize / coo->dense modelled by their index semantics (digitize cross-checked against numpy every run); edges from the real bin constructors (non-decreasing validated); finite amplitudes. Defect D8 repaired in /repo, witness kept in corpus and as theorem hht_below_range_pinned.',
         "Lean 4 proof over hand-written model + differential correspondence with the implementation", '5 C10'),
 'C11': (True,
         'Lean 4 theorems over the model of holospectrum (digitise, fold d1+d2(L1+1), scatter-add, sum/mean over time, C-order reshape, trim [1:-1,1:-1]): fold/unfold inverse; all entries in shape; full output = joint indicator-sum spec; shapes; time-summed and time-averaged outputs = sum and mean over time of the full output cell by cell; total = weight of samples with both frequencies in range; energy = squares. Correspondence: exhaustive alphabets over small (T,M,K) x independent bin sets x modes x 3 squash_time settings, random larger arrays, malformed shapes and edges; instance check is a quadruple-loop histogram.',
         'Same trusted base as C10; sparse sum/mean and reshape modelled by index semantics; mean compared within 1e-9 (scipy multiplies by 1/T), everything else exact.',
         "Lean 4 proof over hand-written model + differential correspondence with the implementation", '5 C11'),
 'C14': (True,
         "Lean 4 theorems (EmdModel/CycleStats.lean) for every reducing function f, every labelling (with -1 gaps) and every value vector: entry k = f of exactly the values labelled k; the projection to samples is constant on cycles and missing elsewhere; phase alignment under scipy's linear-extrapolate interp1d model is exact for quantities affine in phase for any cycle length; every phase bin (the last included) holds the mean / variance / weighted mean of exactly the samples in [e_b, e_b+1). Correspondence: exact on integer/dyadic data with reducers {mean,max,sum,len,first,last,lambda}, gapped labels, out='samples', phase_align with default and explicit cycles, bin_by_phase with 2..64 bins; exhaustive-small plus random streams.",
         "Trusted: Lean kernel + standard axioms; model + harness; interp1d(linear, extrapolate) and np.digitize are modelled and re-validated against the real libraries on every case; bin centres/edges and default cycles come from the real public functions. Instance-only (partial): interpolation error for non-affine quantities and non-linear interpolation kinds (tolerance from max|g''|); weighted variance / std / sem metrics are outside the property.",
         "Lean 4 proof over hand-written model + differential correspondence with the implementation", '5 C14'),
 'C16': (True,
         'Lean 4 theorems (EmdModel/Maps.lean) over all selection vectors and all well-formed cycle vectors: subset vector = rank among selected, chain vector = maximal runs of consecutive selected cycles numbered in order; all 12 index maps are total on every existing index; the six round trips contain the origin; forward maps answer none exactly for unlabelled samples / unselected cycles; the six projections place each value on exactly the items that map to it; every output of the C12 cycle-detector model is well-formed. Correspondence: exhaustive over every well-formed label vector of length <= 6/8 x every selection of its cycles and every selection vector of length <= 8/12 x fixed recordings, every function on every index (incl. one past the end), exact comparison; random larger and malformed streams.',
         'Trusted: Lean kernel + standard axioms; model + harness (np.where lookups modelled as whereEq, v[i] as v[i]? with IndexError); a set-theoretic Python oracle is the instance check. Defects D12a/D12b repaired in /repo.',
         "Lean 4 proof over hand-written model + differential correspondence with the implementation", '5 C16'),
 'C17': (True,
         "Lean 4 theorems (EmdModel/Kdt.lean) for every query table (D, inds): equal lengths; x indices strictly increasing and < nx; y indices < ny; y indices pairwise distinct (loop invariant: marks are a partial injection rows <-> selected values, proved by induction over columns with no hypothesis on the query); pairs one-to-one; at most one mark per row. Under the validated cKDTree contract WFQuery: each pair lies in the K-neighbour list of its row at a finite distance <= bound; the marker matrix equals its greedy specification. The pinned _unique_inds is proved non-injective on a witness. Correspondence: (x_inds, y_inds) exact against the real kdt_match with the real cKDTree.query table fed to the model: 1-4 features, 1-200 rows, ties/duplicates, K 1..15 and K>ny, three bounds, plus an exhaustive 1-D integer grid; brute-force instance checks of the property's own words.",
         "Trusted: Lean kernel + standard axioms; model + harness; the KD-tree query is an oracle whose contract (row shape, (inf, ny) padding, sorted distances, distinct neighbours, distances <= bound) is Kdt.wfCheck, proved equivalent to WFQuery and evaluated on every real query result; that the rows really are the K nearest points is scipy's contract (the instance check recomputes it by brute force). Closest-claimant / first-neighbour checks evaluate the anchored mechanism, not the property text: they count as correspondence, never as a property violation. Defects D13, D21 repaired in /repo.",
         "Lean 4 proof over hand-written model + differential correspondence with the implementation", '5 C17'),
 'C05': (True,
         "Lean 4 theorems over the executable model EmdModel/Extrema.lean, for every signal, pad width, mode, refinement flag and every interpolant: extrema are exactly the strict interior maxima/minima, sorted and never adjacent; None is returned exactly with fewer than two extrema; parabolic refinement stays within +-1/2 sample and strictly ordered; padding leaves the interior untouched, adds equally many odd-reflected locations beyond both ends (incl. numpy's multi-chunk case), strictly ordered, with edge-replicated magnitudes, covers [0,n), and the re-padding loop terminates within n+1 rounds; the evaluation grid is the sample grid 0..n-1 (also for fractional locations), the envelope has n values equal to the interpolant at integer times, and passes through unrefined peaks/troughs under the interpolation contract. Tied to /repo by exhaustive correspondence (all 3-level sequences of length <= 7/9 x pad 0..5 x 3 modes, exact) plus random signals with ties and an envelope stream (parabolic on/off x 3 interpolants x 3 modes).",
         'Trusted: Lean kernel + propext/Classical.choice/Quot.sound; model + harness; the scipy interpolant is an oracle (rebuilt by the harness with the same constructor from the returned extrema; knot interpolation validated each run); the np.pad model is itself checked against real np.pad. Parabolic-mode floats compared within 1e-9 with ill-conditioned/near-tie cases skipped and counted; custom np.pad option dicts are outside the model. Defect D17 repaired in /repo.',
         "Lean 4 proof over hand-written model + differential correspondence with the implementation", '5 C05'),
}
ALL = ['C%02d' % i for i in range(1, 21)]


def main():
    checks = []
    na = []
    for pid in ALL:
        if pid in P and P[pid][0]:
            _, text, note, tech, ref = P[pid]
            checks.append({
                'property_id': pid,
                'quick_cmd': './vcheck %s --tier quick' % pid,
                'thorough_cmd': './vcheck %s --tier thorough' % pid,
                'evidence_file': 'evidence/%s.json' % pid,
                'replay_cmd_template': './vcheck %s --replay {path}' % pid,
                'engine': 'lean4-model+correspondence',
                'level_claimed': {'category': 'proof', 'text': text, 'design_ref': 'DESIGN.md section ' + ref},
                'level_note': note,
                'technique': tech,
            })
        else:
            na.append({'property_id': pid,
                       'reason': 'check not built yet in this round (planned: Lean model + theorems + correspondence, see DESIGN.md section 5); not claimed'})
    m = {
        'version': 1,
        'setup_cmd': 'cd lean && lake build',
        'hooks': {
            'guard': 'EMD_VERIF',
            'enable': 'no source hooks: the harness wraps public module attributes from outside (EMD_VERIF=1 is set by ./vcheck and read only by the harness)',
            'baseline_off_cmd': BASELINE,
            'source_commits': [],
            'add_only': True,
        },
        'engines': [{
            'name': 'lean4-model+correspondence',
            'path': 'lean/ (model EmdModel/*, theorems Proofs/Cxx.lean), harness/ (correspondence + instance checks), vcheck',
            'serves_properties': [c['property_id'] for c in checks],
            'kind_free_text': 'machine-checked proof in Lean 4 about a hand-written executable model; model tied to /repo by a differential correspondence check run on every invocation',
        }],
        'checks': checks,
        'not_applicable': na,
        'notes': 'Fixes committed to /repo and open findings are listed in KNOWN_FINDINGS.json; see DESIGN.md.',
    }
    with open(os.path.join(HERE, 'MANIFEST.json'), 'w') as f:
        json.dump(m, f, indent=1)
    print('MANIFEST.json: %d checks, %d not claimed' % (len(checks), len(na)))


if __name__ == '__main__':
    main()
