#!/usr/bin/env python3
"""Regenerate MANIFEST.json from the table below (run from /verif)."""
import json
import os

HERE = os.path.dirname(os.path.dirname(os.path.abspath(__file__)))
BASELINE = ("cd /repo && /venv/bin/python -m pytest -ra -q -p no:cacheprovider --timeout=900 "
            "--continue-on-collection-errors")

# id -> (built?, what the theorems cover, level note / trusted base, technique, design ref)
P = {
 'C12': (True,
         "Lean 4 theorems over the executable model of get_cycle_vector (EmdModel/Cycles.lean), for every sample type, wrap predicate, "
         "acceptance test and input of any length: the labelled runs partition the series in temporal order, no run is empty or contains "
         "an internal wrap, consecutive runs are separated by a wrap, labels are 0..K-1 in order, each label is one contiguous block, "
         "full cover when all cycles are requested, no cycles without a wrap. The model is tied to /repo by a correspondence run "
         "(exhaustive over all 5-letter phase sequences up to length 6/8 x return_good, plus random multi-column phases) and the "
         "property's own words are evaluated on the implementation for the same cases (failing-input search).",
         "Trusted: Lean kernel + propext/Classical.choice/Quot.sound; the hand-written model and the correspondence harness; "
         "wrap_phase (x % 2pi) treated as an oracle; float |diff| > step compared with exact arithmetic (near-ties skipped and counted).",
         "Lean 4 proof over hand-written model + differential correspondence with the implementation", "5 C12"),
 'C13': (True,
         "Lean 4 theorems over the same model: the acceptance test is exactly the conjunction of the documented criteria (non-empty, "
         "strictly increasing, start within edge above 0, end within edge below 2pi); with at least one wrap a segment is labelled iff it "
         "passes the criteria and no sample is masked (soundness and completeness); the partition does not depend on which cycles are "
         "requested and good labels are the rank among accepted segments (order-preserving renumbering); the container's is_good flag "
         "agrees with good-cycle detection. Correspondence: exhaustive alphabet sequences x 4 edge values x single-sample masks, random "
         "phases x random/block masks, direct is_good calls, Cycles(...).metrics['is_good']; instance check re-evaluates the criteria per segment.",
         "Trusted: Lean kernel + standard axioms; model + harness; the float constant 2*pi - phase_edge is computed by the harness "
         "with the documented expression and passed to the model exactly; masks are boolean arrays.",
         "Lean 4 proof over hand-written model + differential correspondence with the implementation", "5 C13"),
}
ALL = ['C%02d' % i for i in range(1, 21)]


def main():
    checks = []
    na = []
    for pid in ALL:
        if pid in P and P[pid][0]:
            _, text, note, tech, ref = P[pid]
            checks.append({
                'property_id': pid,
                'quick_cmd': './vcheck %s --tier quick' % pid,
                'thorough_cmd': './vcheck %s --tier thorough' % pid,
                'evidence_file': 'evidence/%s.json' % pid,
                'replay_cmd_template': './vcheck %s --replay {path}' % pid,
                'engine': 'lean4-model+correspondence',
                'level_claimed': {'category': 'proof', 'text': text, 'design_ref': 'DESIGN.md section ' + ref},
                'level_note': note,
                'technique': tech,
            })
        else:
            na.append({'property_id': pid,
                       'reason': 'check not built yet in this round (planned: Lean model + theorems + correspondence, see DESIGN.md section 5); not claimed'})
    m = {
        'version': 1,
        'setup_cmd': 'cd lean && lake build',
        'hooks': {
            'guard': 'EMD_VERIF',
            'enable': 'no source hooks: the harness wraps public module attributes from outside (EMD_VERIF=1 is set by ./vcheck and read only by the harness)',
            'baseline_off_cmd': BASELINE,
            'source_commits': [],
            'add_only': True,
        },
        'engines': [{
            'name': 'lean4-model+correspondence',
            'path': 'lean/ (model EmdModel/*, theorems Proofs/Cxx.lean), harness/ (correspondence + instance checks), vcheck',
            'serves_properties': [c['property_id'] for c in checks],
            'kind_free_text': 'machine-checked proof in Lean 4 about a hand-written executable model; model tied to /repo by a differential correspondence check run on every invocation',
        }],
        'checks': checks,
        'not_applicable': na,
        'notes': 'Fixes committed to /repo and open findings are listed in KNOWN_FINDINGS.json; see DESIGN.md.',
    }
    with open(os.path.join(HERE, 'MANIFEST.json'), 'w') as f:
        json.dump(m, f, indent=1)
    print('MANIFEST.json: %d checks, %d not claimed' % (len(checks), len(na)))


if __name__ == '__main__':
    main()
