#!/usr/bin/env python3
"""Regenerate MANIFEST.json from the table below (run from /verif)."""
import json
import os

HERE = os.path.dirname(os.path.dirname(os.path.abspath(__file__)))
BASELINE = ("cd /repo && /venv/bin/python -m pytest -ra -q -p no:cacheprovider --timeout=900 "
            "--continue-on-collection-errors")

# id -> (built?, what the theorems cover, level note / trusted base, technique, design ref)
P = {
 'C12': (True,
         "Lean 4 theorems over the executable model of get_cycle_vector (EmdModel/Cycles.lean), for every sample type, wrap predicate, "
         "acceptance test and input of any length: the labelled runs partition the series in temporal order, no run is empty or contains "
         "an internal wrap, consecutive runs are separated by a wrap, labels are 0..K-1 in order, each label is one contiguous block, "
         "full cover when all cycles are requested, no cycles without a wrap. The model is tied to /repo by a correspondence run "
         "(exhaustive over all 5-letter phase sequences up to length 6/8 x return_good, plus random multi-column phases) and the "
         "property's own words are evaluated on the implementation for the same cases (failing-input search).",
         "Trusted: Lean kernel + propext/Classical.choice/Quot.sound; the hand-written model and the correspondence harness; "
         "wrap_phase (x % 2pi) treated as an oracle; float |diff| > step compared with exact arithmetic (near-ties skipped and counted).",
         "Lean 4 proof over hand-written model + differential correspondence with the implementation", "5 C12"),
 'C13': (True,
         "Lean 4 theorems over the same model: the acceptance test is exactly the conjunction of the documented criteria (non-empty, "
         "strictly increasing, start within edge above 0, end within edge below 2pi); with at least one wrap a segment is labelled iff it "
         "passes the criteria and no sample is masked (soundness and completeness); the partition does not depend on which cycles are "
         "requested and good labels are the rank among accepted segments (order-preserving renumbering); the container's is_good flag "
         "agrees with good-cycle detection. Correspondence: exhaustive alphabet sequences x 4 edge values x single-sample masks, random "
         "phases x random/block masks, direct is_good calls, Cycles(...).metrics['is_good']; instance check re-evaluates the criteria per segment.",
         "Trusted: Lean kernel + standard axioms; model + harness; the float constant 2*pi - phase_edge is computed by the harness "
         "with the documented expression and passed to the model exactly; masks are boolean arrays.",
         "Lean 4 proof over hand-written model + differential correspondence with the implementation", "5 C13"),
 'C10': (True,
         'Lean 4 theorems over the executable model of hilberthuang (dense + COO) and hilberthuang_1d (EmdModel/Spectra.lean), for every non-decreasing edge vector, every frequency array (NaN, negative, on-edge, out of range), every amplitude array, both modes, all sizes: digitize characterisation; every sample in exactly one bin iff in range; dense = indicator-sum spec; sparse entries in shape with one per in-range sample; dense = per-cell sums of the sparse entries with equal totals; 1-D = spec; time-marginal of dense = IMF-marginal of 1-D; total = in-range weight; energy = amplitude spectrum of squares. Tied to /repo by an exact (==) correspondence on an exhaustive edge-hitting alphabet x linear/log bins from the real define_hist_bins x modes x dense/sparse/1-D, plus random and malformed streams and a brute-force per-sample histogram instance check.',
         'Trusted: Lean kernel + propext/Classical.choice/Quot.sound; hand-written model + harness; np.digitize / coo->dense modelled by their index semantics (digitize cross-checked against numpy every run); edges from the real bin constructors (non-decreasing validated); finite amplitudes. Defect D8 repaired in /repo, witness kept in corpus and as theorem hht_below_range_pinned.',
         "Lean 4 proof over hand-written model + differential correspondence with the implementation", '5 C10'),
 'C11': (True,
         'Lean 4 theorems over the model of holospectrum (digitise, fold d1+d2(L1+1), scatter-add, sum/mean over time, C-order reshape, trim [1:-1,1:-1]): fold/unfold inverse; all entries in shape; full output = joint indicator-sum spec; shapes; time-summed and time-averaged outputs = sum and mean over time of the full output cell by cell; total = weight of samples with both frequencies in range; energy = squares. Correspondence: exhaustive alphabets over small (T,M,K) x independent bin sets x modes x 3 squash_time settings, random larger arrays, malformed shapes and edges; instance check is a quadruple-loop histogram.',
         'Same trusted base as C10; sparse sum/mean and reshape modelled by index semantics; mean compared within 1e-9 (scipy multiplies by 1/T), everything else exact.',
         "Lean 4 proof over hand-written model + differential correspondence with the implementation", '5 C11'),
 'C14': (True,
         "Lean 4 theorems (EmdModel/CycleStats.lean) for every reducing function f, every labelling (with -1 gaps) and every value vector: entry k = f of exactly the values labelled k; the projection to samples is constant on cycles and missing elsewhere; phase alignment under scipy's linear-extrapolate interp1d model is exact for quantities affine in phase for any cycle length; every phase bin (the last included) holds the mean / variance / weighted mean of exactly the samples in [e_b, e_b+1). Correspondence: exact on integer/dyadic data with reducers {mean,max,sum,len,first,last,lambda}, gapped labels, out='samples', phase_align with default and explicit cycles, bin_by_phase with 2..64 bins; exhaustive-small plus random streams.",
         "Trusted: Lean kernel + standard axioms; model + harness; interp1d(linear, extrapolate) and np.digitize are modelled and re-validated against the real libraries on every case; bin centres/edges and default cycles come from the real public functions. Instance-only (partial): interpolation error for non-affine quantities and non-linear interpolation kinds (tolerance from max|g''|); weighted variance / std / sem metrics are outside the property.",
         "Lean 4 proof over hand-written model + differential correspondence with the implementation", '5 C14'),
 'C16': (True,
         'Lean 4 theorems (EmdModel/Maps.lean) over all selection vectors and all well-formed cycle vectors: subset vector = rank among selected, chain vector = maximal runs of consecutive selected cycles numbered in order; all 12 index maps are total on every existing index; the six round trips contain the origin; forward maps answer none exactly for unlabelled samples / unselected cycles; the six projections place each value on exactly the items that map to it; every output of the C12 cycle-detector model is well-formed. Correspondence: exhaustive over every well-formed label vector of length <= 6/8 x every selection of its cycles and every selection vector of length <= 8/12 x fixed recordings, every function on every index (incl. one past the end), exact comparison; random larger and malformed streams.',
         'Trusted: Lean kernel + standard axioms; model + harness (np.where lookups modelled as whereEq, v[i] as v[i]? with IndexError); a set-theoretic Python oracle is the instance check. Defects D12a/D12b repaired in /repo.',
         "Lean 4 proof over hand-written model + differential correspondence with the implementation", '5 C16'),
 'C17': (True,
         "Lean 4 theorems (EmdModel/Kdt.lean) for every query table (D, inds): equal lengths; x indices strictly increasing and < nx; y indices < ny; y indices pairwise distinct (loop invariant: marks are a partial injection rows <-> selected values, proved by induction over columns with no hypothesis on the query); pairs one-to-one; at most one mark per row. Under the validated cKDTree contract WFQuery: each pair lies in the K-neighbour list of its row at a finite distance <= bound; the marker matrix equals its greedy specification. The pinned _unique_inds is proved non-injective on a witness. Correspondence: (x_inds, y_inds) exact against the real kdt_match with the real cKDTree.query table fed to the model: 1-4 features, 1-200 rows, ties/duplicates, K 1..15 and K>ny, three bounds, plus an exhaustive 1-D integer grid; brute-force instance checks of the property's own words.",
         "Trusted: Lean kernel + standard axioms; model + harness; the KD-tree query is an oracle whose contract (row shape, (inf, ny) padding, sorted distances, distinct neighbours, distances <= bound) is Kdt.wfCheck, proved equivalent to WFQuery and evaluated on every real query result; that the rows really are the K nearest points is scipy's contract (the instance check recomputes it by brute force). Closest-claimant / first-neighbour checks evaluate the anchored mechanism, not the property text: they count as correspondence, never as a property violation. Defects D13, D21 repaired in /repo.",
         "Lean 4 proof over hand-written model + differential correspondence with the implementation", '5 C17'),
 'C05': (True,
         "Lean 4 theorems over the executable model EmdModel/Extrema.lean, for every signal, pad width, mode, refinement flag and every interpolant: extrema are exactly the strict interior maxima/minima, sorted and never adjacent; None is returned exactly with fewer than two extrema; parabolic refinement stays within +-1/2 sample and strictly ordered; padding leaves the interior untouched, adds equally many odd-reflected locations beyond both ends (incl. numpy's multi-chunk case), strictly ordered, with edge-replicated magnitudes, covers [0,n), and the re-padding loop terminates within n+1 rounds; the evaluation grid is the sample grid 0..n-1 (also for fractional locations), the envelope has n values equal to the interpolant at integer times, and passes through unrefined peaks/troughs under the interpolation contract. Tied to /repo by exhaustive correspondence (all 3-level sequences of length <= 7/9 x pad 0..5 x 3 modes, exact) plus random signals with ties and an envelope stream (parabolic on/off x 3 interpolants x 3 modes).",
         'Trusted: Lean kernel + propext/Classical.choice/Quot.sound; model + harness; the scipy interpolant is an oracle (rebuilt by the harness with the same constructor from the returned extrema; knot interpolation validated each run); the np.pad model is itself checked against real np.pad. Parabolic-mode floats compared within 1e-9 with ill-conditioned/near-tie cases skipped and counted; custom np.pad option dicts are outside the model. Defect D17 repaired in /repo.',
         "Lean 4 proof over hand-written model + differential correspondence with the implementation", '5 C05'),
 'C06': (True,
         "Lean 4 theorems over a call-binding model of the sift family (EmdModel/Options.lean) that emits one record per stage call: on every delivery route (keyword dicts, get_config unpacked, SiftConfig.get_func partial) and in every variant (sift, ensemble, complete ensemble incl. its noise-only sifts, mask sift and its two helpers, second layer), including pool jobs, each stage call's options are the supplied value or the signature default (stage_opts_effective); routes are indistinguishable (route_independent); every stage is reached; resolve is idempotent; the code's special-case literals equal the signature defaults. Correspondence: the three public stage functions are wrapped from outside before pools fork (per-pid trace files), and the set of distinct effective option records per stage is compared with the model's over variant x stop rule/step/thresholds x interpolation x padding/parabolic/custom pad dicts x route x nprocesses {1,2}; the instance check replays every observed call with user-derived options and checks output equality with an explicitly assembled pipeline and option sensitivity.",
         'Trusted: Lean kernel + standard axioms; model + harness; live signatures are compared with the model constants on every run; the numerical effect of options is instance-checked only; sets of distinct records are compared, not call counts; real worker processes are traced, not modelled. Defects D5 (mask sift / get_mask_freqs / complete-ensemble noise sifts dropping options) repaired in /repo.',
         "Lean 4 proof over hand-written model + differential correspondence with the implementation", '5 C06'),
 'C09': (True,
         "Lean 4 theorems on an exact-rational model (EmdModel/Phase.lean): wrapped phase lies in [0,m); wrap is the unique representative; the returned frequency is sr/(2pi) * np.gradient of the very phase that is wrapped for output, and equals the scaled gradient of np.unwrap(IP) wherever the phase moves by less than pi per sample (numpy's unwrap algorithm proved to invert wrap); shapes preserved; phase and frequency invariant and amplitude equivariant under positive rescaling for hilbert/nht/quad given hilbert linearity, angle/abs scaling, envelope homogeneity and the (proved) scale-free sign-preserving amplitude normalisation; quadrature signal has unit modulus; frequency->phase->frequency is the two-sample mean at interior samples 1..n-2, f[1] and f[n-1] at the ends, exact on constant stretches. Correspondence over 10 streams drives the real public functions with oracle tables from the next-lower public functions (exact where float arithmetic is exact, 1e-9 elsewhere).",
         'PARTIAL: sinusoid recovery accuracy (frequency / amplitude / phase on the interior of the record) and the ulp-level case x % 2pi == 2pi are decided by the instance check only, against a per method x cycles-per-record x samples-per-cycle tolerance table calibrated on the clean tree with x3 margin (for quad only mean frequency, mean phase and amplitude are tight); bit-exactness under 2^k rescaling is an instance check. scipy hilbert, np.angle/abs, medfilt, interpolants are oracles validated each run; np.gradient, cumsum, %, np.unwrap are modelled exactly and compared with numpy on every run. A 1-D input comes back as (n,1) (documented ensure_2d behaviour).',
         "Lean 4 proof over hand-written model + differential correspondence with the implementation", '5 C09'),
 'C15': (True,
         'Lean 4 theorems over the executable state-machine model of emd.cycles.Cycles (EmdModel/Container.lean), for every phase, reducing function, value vector, float() oracle and operation history: the invariant (one entry per cycle in every metric, unique names, subset = order-preserving rank vector, chains = chain vector of the subset) holds after every operation sequence (Inv_init/Inv_step/Inv_run); a computed metric equals f on exactly the samples of each cycle (augmented segment or NaN in augmented mode); the condition parser satisfies parse(print) = id for all names, comparators and literals, the six comparators mean what they say and matching is the conjunction; chains are the maximal runs of consecutive selected cycles; chain_ind, chain metrics and the three exports agree with the store and the selection; slice-cache and label-lookup results are equal in both modes over whole lifetimes. Correspondence compares the full observable state after every step with cache on and off: exhaustive op sequences up to length 3/4 over a 10-op alphabet, random sequences up to length 12, all comparators x 16 literal spellings x malformed forms.',
         "Trusted: Lean kernel + standard axioms; model + harness; float() and pandas table construction are oracles. chain_ind and 'subset = currently matching cycles' are proved for histories that do not overwrite the metrics they derive from (staleness stated, not hidden); chain timings are proved at computation time. Assumptions: integer-valued data, finite literals. Six defects (augmented statistics, slice cache, empty selection, rejected pick, subset export) repaired in /repo.",
         "Lean 4 proof over hand-written model + differential correspondence with the implementation", '5 C15'),
 'C18': (True,
         "Lean 4 theorems (EmdModel/Config.lean): key-path get/set/delete equal nested indexing along split('/') for every key string and every store (too-deep keys raise); write/read-back, frame and delete laws (delete keeps the parent, set under a missing parent errors); toYamlSafe is idempotent, array-free and keeps the options; both YAML routes (file: two documents, text: one two-element list) invert the dump up to tuple->list under the codec law, also through get_func; dumping leaves the live configuration untouched; the default config equals the signature defaults. Correspondence: random edit histories (set/get/del at depth 1-3 with scalars, None, lists, tuples, arrays, missing parents, too-deep keys) mirrored on the model and a real SiftConfig, both YAML routes, foreign YAML, default configs for all variants; instance: config-driven calls are bit-identical to plain calls (seeded).",
         'Trusted: Lean kernel + standard axioms; model + harness; PyYAML (load(dump(t)) = t on yaml-safe trees) and inspect.signature tables are oracles validated each run; assumptions: no object stored under two keys, the three stage entries are dicts. Defects D14a/D14b repaired in /repo.',
         "Lean 4 proof over hand-written model + differential correspondence with the implementation", '5 C18'),
 'C19': (True,
         'Lean 4 theorems (EmdModel/Support.lean) characterising exactly which shapes the four ensure_* routines accept, reject and how they normalise: ensure_1d_with_singleton accepts exactly (n), (n,1), (n,1,..,1) -> (n,1) and raises ValueError exactly for rank >= 2 with a trailing dimension != 1; ensure_vector / ensure_2d specs; ensure_equal_dims ok / ValueError / IndexError characterised per axis and for all axes; multi-array calls accepted iff every array is; element count preserved. Correspondence: exhaustive over all shapes of rank <= 4 over {1,2,3,5} and all pairs of shapes of rank <= 3 x dim in {None,0,1,2}, error kinds compared.',
         'PARTIAL by nature: non-mutation of inputs and option dicts, layout value-equality, read-only acceptance, repeatability and the per-entry-point accept/reject tables have no counterpart in a pure functional model and are decided by the instance check only (byte snapshots and output digests of 53 public entry-point variants x layouts x read-only arrays x reused option dicts, in resource-limited children). Defects D15a/b/c and three related shape defects repaired in /repo.',
         "Lean 4 proof over hand-written model + differential correspondence with the implementation", '5 C19'),
 'C20': (True,
         "Lean 4 theorems over the logger state machine (EmdModel/Logger.lean; wrapVerbose mirrors wrap_verbose line by line): after every decorated call (returning or raising, any verbosity, from any state including never-set-up) the full logger state is restored; results and errors are the call's own, never a wrapper error; an override is in force during the call; lifted by induction to all histories (the level trajectory does not move across a call, the final state equals that of the history with calls removed, results depend on the calls alone). Correspondence enumerates every history of length 3 (quick) / 4 (thorough) over 21 operations from both start states as a fork tree (each history in its own process), plus random longer histories with file logging, all sift variants and non-convergence raises; compared per step: get_level(), error kind, console visibility of INFO/DEBUG records, output digest.",
         'Trusted: Lean kernel + standard axioms; model + harness; the wrapped function body is abstracted to returns/raises and python logging is an oracle; independence of real sift outputs from logger state is decided by bitwise digest comparison in the correspondence run. Defect D16 repaired in /repo.',
         "Lean 4 proof over hand-written model + differential correspondence with the implementation", '5 C20'),
 'C07': (True,
         'Lean 4 theorems over EmdModel/Mask.lean and the pool model of EmdModel/Ensemble.lean, for every extractor, mask table, signal, nphases, worker count and schedule: masked IMF = phase average of (extract(x+m_i) - m_i), flag = any; zero amplitude = unmasked extraction; frequency ladder z/s^k or the user list with the cap lowered; amplitude modes abs / ratio_sig / ratio_imf with scalar or array amplitude; peeling (column k = masked extraction of x - sum of previous columns with f_k, a_k*sd_k) with the returned frequencies being the ones used; Pool.starmap of a pure job = map under every execution order x worker assignment, hence get_next_imf_mask / mask_sift are independent of nprocesses. Correspondence: real get_next_imf_mask and mask_sift(ret_mask_freq=True) vs the model with extraction / std / cos tables from the same run; bitwise equality of outputs across nprocesses 1..8 with random worker delays.',
         "Trusted: Lean kernel + standard axioms; model + harness; get_next_imf, cos, np.std, get_mask_freqs('zc'/'if') are oracles; multiprocessing.Pool is modelled as a schedule (the real OS scheduling is sampled); purity of jobs and starmap argument order are validated per run; envelope/extrema options of the masked variants belong to C06.",
         "Lean 4 proof over hand-written model + differential correspondence with the implementation", '5 C07'),
 'C08': (True,
         'Lean 4 theorems over EmdModel/Ensemble.lean (abstract RNG stream, fork-semantics worker pool), for every schedule: member i receives the i-th parent draw, members are pairwise distinct under injective draws, the result is the per-IMF mean over members (absent columns count as zero), a flip member is the mean of the +noise and -noise decompositions, zero noise gives exactly the classic capped sift, the complete-ensemble member i uses column i of the parent matrix at every stage; a negation witness shows that the pinned in-worker draw shares noise between workers. Correspondence on the grid nensembles 1..8 x nprocesses 1..8 x {single, flip} x noise {0, small, large}: noise traced from outside per pid (wrappers on numpy.random and the public sift inherited by forked workers), sharing pattern vs the model under the observed schedule, output vs the model mean recomputed with the public sift.',
         "PARTIAL: the real OS scheduler is sampled, not enumerated; the theorems cover every schedule of the fork-pool model. RNG distinctness is an assumption validated per run; sift is an oracle (tabulated per member); complete-ensemble stage count is taken from the output (stop logic is C03's). Defects D7 (forked workers shared RNG state) and D7b (flip mode with ragged +/- runs) repaired in /repo.",
         "Lean 4 proof over hand-written model + differential correspondence with the implementation", '5 C08'),
 'C01': (True,
         'Lean 4 theorems over the executable model of the classic sift loop (EmdModel/Sift.lean), for every extractor meeting the contract (length preserved; continue flag cleared => input returned unchanged), every threshold, cap, input and fuel: the running residual is always input minus the sum of the columns so far; on the natural exit (flag cleared) the columns sum to the input exactly in Q, and so on any exit that is not cut short; the cut-short causes (cap reached / energy flag / last column abs-sum below threshold) are exhaustive and accurate; get_next_imf satisfies the extractor contract; on the natural exit the last component has fewer than two strict interior maxima or minima. Correspondence: op SIFT replays the outer loop on a table of real get_next_imf outputs over 9 signal families incl. an engineered few-extrema family (extrema vanishing after k mean removals) x stop rules x steps x interpolants x pad widths; the instance check evaluates sum and last-column extrema on the real sift.',
         "Trusted: Lean kernel + standard axioms; model + harness; get_next_imf outputs tabulated from the real code (oracle for the outer loop; its own model is C04); float rounding of the sum bounded by the instance check (1e-9*max(1,|x|)); the outer loop takes fuel (EMD has no termination proof) and every theorem holds for every fuel; 'envelope is None iff fewer than 2 extrema' validated by stream env_none. Defect D2 repaired in /repo.",
         "Lean 4 proof over hand-written model + differential correspondence with the implementation", '5 C01'),
 'C03': (True,
         "Lean 4 theorems (EmdModel/Sift.lean: peelLoop shared by sift and mask sift, ensembleCols, ceemdLoop, secondLayer): component k = extraction of x minus the first k components; capped run = prefix of the uncapped run for every cap >= 1 and caps are nested (classic and masked sift, cap lowered to the number of mask frequencies); column count <= cap for classic, masked, ensemble (widest member) and complete-ensemble (1 <= K <= cap) sifts; second-layer output has shape n x first-layer x cap with zero padding and each block is that IMF's sift. Correspondence ops SIFT / MASKSIFT-PEEL / ENS-SHAPE / CEEMD-SHAPE / L2-SHAPE; instance: exact prefix equality across caps 1..K+2, manual peeling with the public get_next_imf / get_next_imf_mask, shapes, caps, np.isfinite.",
         'PARTIAL: finiteness of outputs is decided by the instance check only (Q has no inf/NaN); input shape normalisation is not modelled here (C19); randomised variants are seeded and compared for shapes/caps only. Trusted: Lean kernel + standard axioms; model + harness. Defects D3a/b/c (ensemble IndexError, complete-ensemble cap+2 columns, second-layer shape/loop defects) repaired in /repo.',
         "Lean 4 proof over hand-written model + differential correspondence with the implementation", '5 C03'),
 'C04': (True,
         'Lean 4 theorems over the executable model of get_next_imf (EmdModel/Sift.lean), for every envelope oracle, energy oracle, option record and signal: the outcome is exactly characterised (run_spec + spec_unique) as the least iterate at which the stop rule fires with its FULL envelope mean removed, or the least iterate with an undefined envelope (flag cleared iff that is the unmodified input), or the convergence error only after max_iters+1 non-firing iterates; iterates obey h_{k+1} = h_k - step*mean; the fixed rule stops in iteration n exactly and never errors; the energy flag only ever clears. Correspondence: op GNI with reference iterate/envelope tables from the real interp_envelope, op STOP for direct stop-function calls, 9 signal families incl. rejection-sampled extrema-vanishing cases, max_iters 1..50, thresholds over their ranges, steps in (0,1]; the instance check recomputes the documented iterate sequence independently.',
         "Trusted: Lean kernel + standard axioms; model + harness; envelope values and log10 are oracles; decisions within 1e-7 of their threshold are skipped and counted; non-fixed rules may perform max_iters+1 mean removals before the error (observed, harmless, modelled as is); 'fixed' with max_iters=0 is excluded by hypothesis (the code does not terminate there; outside the documented range). Defect D20 (zero-energy log10) repaired in /repo.",
         "Lean 4 proof over hand-written model + differential correspondence with the implementation", '5 C04'),
}
ALL = ['C%02d' % i for i in range(1, 21)]


def main():
    checks = []
    na = []
    for pid in ALL:
        if pid in P and P[pid][0]:
            _, text, note, tech, ref = P[pid]
            checks.append({
                'property_id': pid,
                'quick_cmd': './vcheck %s --tier quick' % pid,
                'thorough_cmd': './vcheck %s --tier thorough' % pid,
                'evidence_file': 'evidence/%s.json' % pid,
                'replay_cmd_template': './vcheck %s --replay {path}' % pid,
                'engine': 'lean4-model+correspondence',
                'level_claimed': {'category': 'proof', 'text': text, 'design_ref': 'DESIGN.md section ' + ref},
                'level_note': note,
                'technique': tech,
            })
        else:
            na.append({'property_id': pid,
                       'reason': 'check not built yet in this round (planned: Lean model + theorems + correspondence, see DESIGN.md section 5); not claimed'})
    m = {
        'version': 1,
        'setup_cmd': 'cd lean && lake build',
        'hooks': {
            'guard': 'EMD_VERIF',
            'enable': 'no source hooks: the harness wraps public module attributes from outside (EMD_VERIF=1 is set by ./vcheck and read only by the harness)',
            'baseline_off_cmd': BASELINE,
            'source_commits': [],
            'add_only': True,
        },
        'engines': [{
            'name': 'lean4-model+correspondence',
            'path': 'lean/ (model EmdModel/*, theorems Proofs/Cxx.lean), harness/ (correspondence + instance checks), vcheck',
            'serves_properties': [c['property_id'] for c in checks],
            'kind_free_text': 'machine-checked proof in Lean 4 about a hand-written executable model; model tied to /repo by a differential correspondence check run on every invocation',
        }],
        'checks': checks,
        'not_applicable': na,
        'notes': 'Fixes committed to /repo and open findings are listed in KNOWN_FINDINGS.json; see DESIGN.md.',
    }
    with open(os.path.join(HERE, 'MANIFEST.json'), 'w') as f:
        json.dump(m, f, indent=1)
    print('MANIFEST.json: %d checks, %d not claimed' % (len(checks), len(na)))


if __name__ == '__main__':
    main()
