#!/usr/bin/env python3
"""Print the prompt for a seeding sub-agent: only the property text and a scratch worktree."""
import json, sys
pid = sys.argv[1]
hints = sys.argv[2] if len(sys.argv) > 2 else ''
for l in open('/verif/properties.jsonl'):
    p = json.loads(l)
    if p['id'] == pid:
        break
files = ', '.join(p['anchors']['files'])
mech = '; '.join(m['where'] for m in p['anchors']['mechanism'])
print(f"""You are testing how well a semantic property of a Python library is protected. Work ONLY inside the scratch git worktree /tmp/seed/{pid}/repo (a checkout of the library `emd`, AJQuinn/emd-mirror; Python interpreter: /venv/bin/python; run scripts with `cd /tmp/seed/{pid}/repo && PYTHONPATH=/tmp/seed/{pid}/repo /venv/bin/python script.py` so that the worktree's code is imported — verify with `print(emd.__file__)`). Do not read or touch /verif or /repo. No network.

Property (must hold for the library):
"{pid} — {p['title']}. {p['statement']}"
Quantified over: {p['quantifier']['text']}
The relevant code is in: {files} ({mech}).

Your job: produce TWO independent, realistic changes to the library source (the kind of regression a maintainer could plausibly introduce during a refactor, clean-up or "optimisation"), each of which BREAKS this property while (a) the package still imports, and (b) the existing test suite still passes exactly as before: `cd /tmp/seed/{pid}/repo && /venv/bin/python -m pytest -q -p no:cacheprovider --timeout=900` (38 tests pass on the unchanged tree). Prefer changes that need something specific to manifest — an unusual input, a particular option combination, a multi-step sequence of operations, a particular worker/process count, or two cooperating sites that each look fine alone — NOT ones any ordinary call would expose at once. The two changes should be of different character and touch different mechanisms. {hints}

For each change i in {{1,2}} deliver in /tmp/seed/{pid}/out/: `patch<i>.diff` (output of `git diff` in the worktree, applicable with `git apply` to the unchanged tree), `demo<i>.py` (a small standalone program that exits 0 with the unchanged library and exits non-zero, printing what is wrong, with the change applied; it must check the property's own words on a concrete input and must not depend on anything outside the worktree), and `meta<i>.json` with keys: property ("{pid}"), summary, what_it_needs_to_manifest, files_changed, commands_run (the exact commands you ran and their outcome: test suite result with the patch, demo result with and without the patch). After producing each patch, restore the worktree with `git checkout -- .` and verify the demo passes again on the unchanged tree. Leave the worktree clean at the end. Final message: a 10-line summary of the two changes.""")
