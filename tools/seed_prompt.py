#!/usr/bin/env python3
"""Print the prompt for a seeding sub-agent: only the property text and a scratch worktree."""
import json, sys
pid = sys.argv[1]
mode = sys.argv[2] if len(sys.argv) > 2 else 'break'      # break | break2 | harmless
root = {'break': '/tmp/seed', 'break2': '/tmp/seed2', 'break3': '/tmp/seed3', 'break4': '/tmp/seed4', 'break5': '/tmp/seed5', 'break6': '/tmp/seed6', 'harmless': '/tmp/harmless', 'harmless2': '/tmp/harmless2', 'harmless3': '/tmp/harmless3'}[mode]
hints = ''
for l in open('/verif/properties.jsonl'):
    p = json.loads(l)
    if p['id'] == pid:
        break
import glob, os
if mode in ('break2', 'break3', 'break4', 'break5', 'break6'):
    used = []
    for d in sorted(glob.glob('/verif/seeded/%s-*' % pid)):
        try:
            m = json.load(open(os.path.join(d, 'meta.json')))
            sm = m.get('summary')
            used.append('- ' + (' '.join(sm) if isinstance(sm, list) else str(sm))[:300])
        except Exception:
            pass
    for f in []:   # (round 3 is stored under /verif/seeded now)
        try:
            sm = json.load(open(f)).get('summary')
            used.append('- ' + (' '.join(sm) if isinstance(sm, list) else str(sm))[:300])
        except Exception:
            pass
    hints = ('Other people have already tried the following ideas; do NOT repeat them or close variants, go for a different '
             'mechanism, a different function or a different clause of the property:\n' + '\n'.join(used) +
             '\nAim for subtle changes: ones that need a multi-step sequence of calls, state carried between calls, a rare branch, '
             'a particular combination of three or more options, a specific worker count or scheduling, or two or three '
             'cooperating edits that are each harmless alone.')
    if mode in ('break4', 'break5', 'break6'):
        hints = hints.split('\nAim for subtle changes')[0] + (
            '\nThis time aim for the MOST REALISTIC regressions, the kind that actually show up in commits: an off-by-one, a wrong '
            'comparison operator, a wrong default, swapped or dropped arguments, a dropped or merged branch, the wrong axis, a '
            'copy/paste of a sibling function, an "optimisation" that is not quite equivalent, a tolerance introduced where exactness '
            'was needed (or the reverse) - in a function, code path or clause of the property that the ideas above did not touch. '
            'The failing inputs must lie inside the quantifier given above.')
files = ', '.join(p['anchors']['files'])
mech = '; '.join(m['where'] for m in p['anchors']['mechanism'])
hused = ''
if mode in ('harmless2', 'harmless3'):
    hu = []
    for d in sorted(glob.glob('/verif/harmless/%s-*' % pid)):
        try:
            hu.append('- ' + str(json.load(open(os.path.join(d, 'meta.json'))).get('summary'))[:300])
        except Exception:
            pass
    hused = ('Rewrites already tried by others (do NOT repeat them; pick other functions / other kinds of rewrite):\n' + '\n'.join(hu) +
             '\nThis time prefer rewrites that change things a behaviour-only check must tolerate while the property (read its words '
             'carefully) still holds: floating-point reassociation whose effect stays at rounding level (1e-12 relative), a different '
             'but still appropriate exception class or message for INVALID inputs that the property does not talk about, renamed / '
             'inlined / split PRIVATE helpers and changed internal call structure, reworded or added log messages, a different order '
             'of dictionary keys, extra defensive copies, caching that is correctly invalidated, numpy idioms replaced by equivalent ones.\n'
             + ('Also welcome this time: changes of input handling that keep the property (accepting more input kinds, e.g. lists or other '
                'dtypes, converting to float64 early, taking defensive copies, None-defaults resolved in a helper), a different but valid '
                'convention where the property leaves a choice open (say which clause leaves it open), and rewrites of functions that the '
                'anchored code CALLS (shared helpers in emd/support.py, emd/utils.py, emd/_cycles_support.py).\n' if mode == 'harmless3' else ''))
if mode in ('harmless', 'harmless2', 'harmless3'):
    print(f"""You are helping to test a verification tool for FALSE ALARMS. Work ONLY inside the scratch git worktree {root}/{pid}/repo (a checkout of the Python library `emd`, AJQuinn/emd-mirror; Python interpreter: /venv/bin/python; run scripts with `cd {root}/{pid}/repo && PYTHONPATH={root}/{pid}/repo /venv/bin/python script.py` so that the worktree's code is imported — verify with `print(emd.__file__)`). Do not read or touch /verif or /repo. No network.

Property (it holds for the library as it is, and must STILL hold after your changes):
"{pid} — {p['title']}. {p['statement']}"
Quantified over: {p['quantifier']['text']}
The relevant code is in: {files} ({mech}).

Your job: produce TWO independent, realistic HARMLESS rewrites of the code this property is anchored in — the kind of refactoring a maintainer does: restructure or vectorise a loop, replace an internal algorithm by an equivalent one, rename or split internal helpers, reorder independent statements, change how intermediate values are stored, tidy option handling — such that the library's observable behaviour relevant to the property is preserved (same results for valid inputs up to floating-point rounding at the 1e-12 level at most, same accepted/rejected inputs, same exception types where the property speaks about them). Do NOT change public function names, signatures or documented defaults. The rewrites should be substantial enough that a checker tied too closely to the current code text, to internal call sequences, to internal helper functions or to exact bit patterns could be confused, but they must not break the property. The existing test suite must still pass: `cd {root}/{pid}/repo && /venv/bin/python -m pytest -q -p no:cacheprovider --timeout=900` (38 tests pass on the unchanged tree).

{hused}
For each rewrite i in {{1,2}} deliver in {root}/{pid}/out/: `patch<i>.diff` (output of `git diff`, applicable with `git apply` to the unchanged tree), `demo<i>.py` (a small standalone program that checks the property's own words on several concrete inputs, including unusual ones, and exits 0 both with and without the rewrite), and `meta<i>.json` with keys: property ("{pid}"), summary, why_it_is_harmless, files_changed, commands_run. After producing each patch, restore the worktree with `git checkout -- .`. Leave the worktree clean at the end. Final message: a 10-line summary.""")
    sys.exit(0)
print(f"""You are testing how well a semantic property of a Python library is protected. Work ONLY inside the scratch git worktree {root}/{pid}/repo (a checkout of the library `emd`, AJQuinn/emd-mirror; Python interpreter: /venv/bin/python; run scripts with `cd {root}/{pid}/repo && PYTHONPATH={root}/{pid}/repo /venv/bin/python script.py` so that the worktree's code is imported — verify with `print(emd.__file__)`). Do not read or touch /verif or /repo. No network.

Property (must hold for the library):
"{pid} — {p['title']}. {p['statement']}"
Quantified over: {p['quantifier']['text']}
The relevant code is in: {files} ({mech}).

Your job: produce TWO independent, realistic changes to the library source (the kind of regression a maintainer could plausibly introduce during a refactor, clean-up or "optimisation"), each of which BREAKS this property while (a) the package still imports, and (b) the existing test suite still passes exactly as before: `cd {root}/{pid}/repo && /venv/bin/python -m pytest -q -p no:cacheprovider --timeout=900` (38 tests pass on the unchanged tree). Prefer changes that need something specific to manifest — an unusual input, a particular option combination, a multi-step sequence of operations, a particular worker/process count, or two cooperating sites that each look fine alone — NOT ones any ordinary call would expose at once. The two changes should be of different character and touch different mechanisms. {hints}

For each change i in {{1,2}} deliver in {root}/{pid}/out/: `patch<i>.diff` (output of `git diff` in the worktree, applicable with `git apply` to the unchanged tree), `demo<i>.py` (a small standalone program that exits 0 with the unchanged library and exits non-zero, printing what is wrong, with the change applied; it must check the property's own words on a concrete input and must not depend on anything outside the worktree), and `meta<i>.json` with keys: property ("{pid}"), summary, what_it_needs_to_manifest, files_changed, commands_run (the exact commands you ran and their outcome: test suite result with the patch, demo result with and without the patch). After producing each patch, restore the worktree with `git checkout -- .` and verify the demo passes again on the unchanged tree. Leave the worktree clean at the end. Final message: a 10-line summary of the two changes.""")
