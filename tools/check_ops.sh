#!/bin/bash
# fails if two model modules claim the same protocol op name
d=$(grep -ho '| "[A-Z][A-Z0-9_-]*"' /verif/lean/EmdModel/*.lean | tr -d '|" ' | sort | uniq -d)
[ -z "$d" ] && echo "op names unique" || { echo "DUPLICATE op names: $d"; exit 1; }
