#!/usr/bin/env python3
"""tools/record_regress.py <regress.log> [...] : write the outcome lines of tools/regress.sh into the meta.json of every
stored seeded change / harmless rewrite (field `regress`: outcome against which /repo HEAD and /verif HEAD)."""
import json, os, re, subprocess, sys
V = '/verif'
rhead = subprocess.check_output(['git', '-C', '/repo', 'log', '--format=%h', '-1']).decode().strip()
vhead = subprocess.check_output(['git', '-C', V, 'log', '--format=%h', '-1']).decode().strip()
n = 0
for f in sys.argv[1:]:
    for l in open(f):
        m = re.match(r'(seeded|harmless) (C\d\d-\d+): (.*)', l.strip())
        if not m:
            continue
        kind, ident, outcome = m.groups()
        p = os.path.join(V, kind, ident, 'meta.json')
        if not os.path.exists(p):
            continue
        meta = json.load(open(p))
        if outcome.startswith('skipped') and meta.get('regress') and not meta['regress']['outcome'].startswith('skipped'):
            # keep the last real verdict (on the tree before the fix that made the patch inapplicable)
            meta['regress_latest'] = {'outcome': outcome, 'repo_head': rhead, 'verif_head': vhead}
        else:
            meta['regress'] = {'outcome': outcome, 'repo_head': rhead, 'verif_head': vhead}
            meta.pop('regress_latest', None)
        json.dump(meta, open(p, 'w'), indent=1)
        n += 1
print('recorded', n)
