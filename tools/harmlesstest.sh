#!/bin/bash
# tools/harmlesstest.sh <patch.diff> <demo.py> <PROP> [tier]
# A harmless (property-preserving) rewrite of the code must NOT raise an alarm: applies it to a scratch worktree
# of /repo's HEAD, runs demo (must exit 0), baseline suite, and ./vcheck PROP (expected: exit 0).
patch="$(readlink -f "$1")"; demo="$(readlink -f "$2")"; prop="$3"; tier="${4:-quick}"
# VERIF_DIR / TEST_SCRATCH let a sub-agent run this from its own verif worktree with a private scratch worktree
cd "${VERIF_DIR:-/verif}" || exit 2
SCR="${TEST_SCRATCH:-/tmp/harmlesstest.$$}"
R=$SCR/repo
git -C /repo worktree remove --force $R >/dev/null 2>&1; rm -rf $R; mkdir -p $SCR
git -C /repo worktree add -q --detach $R HEAD || exit 2
git -C $R apply "$patch" || { echo "patch does not apply"; git -C /repo worktree remove --force $R; exit 2; }
trap 'git -C /repo worktree remove --force $R' EXIT
( cd $R && PYTHONPATH=$R timeout 900 /venv/bin/python "$demo" >$SCR/demo.out 2>&1 ); echo "demo with rewrite: exit $?"
( cd $R && /venv/bin/python -m pytest -q -p no:cacheprovider --timeout=900 2>&1 | grep -E "passed|failed" | tail -1 )
cp -f evidence/$prop.json $SCR/ev_backup_$prop.json 2>/dev/null
EMD_REPO=$R ./vcheck "$prop" --tier "$tier" 2>&1 | grep -E "VIOLATION|KNOWN-FINDING|$prop $tier|error" | head -6
echo "vcheck exit ${PIPESTATUS[0]}"
cp -f $SCR/ev_backup_$prop.json evidence/$prop.json 2>/dev/null
