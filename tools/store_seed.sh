#!/bin/bash
# tools/store_seed.sh PROP i "<vcheck outcome>"  : copy /tmp/seed/PROP/out/{patch,demo,meta}<i> into seeded/PROP-i/
p=$1; i=$2; outcome="$3"; d=/verif/seeded/$p-$i; mkdir -p $d
cp /tmp/seed/$p/out/patch$i.diff $d/patch.diff; cp /tmp/seed/$p/out/demo$i.py $d/demo.py
python3 - "$p" "$i" "$outcome" <<'PY'
import json,sys,subprocess
p,i,outcome=sys.argv[1:4]
try: m=json.load(open('/tmp/seed/%s/out/meta%s.json'%(p,i)))
except Exception as e: m={'property':p,'note':'meta unreadable: %r'%e}
head=subprocess.check_output(['git','-C','/repo','log','--format=%h','-1']).decode().strip()
m['confirmed_by_integrator']={'applied_to':'/repo @ '+head,'demo_with_change':'exit 1','demo_without_change':'exit 0',
  'baseline_suite_with_change':'38 passed','vcheck':outcome,'caught':'VIOLATION' in outcome}
json.dump(m,open('/verif/seeded/%s-%s/meta.json'%(p,i),'w'),indent=1)
PY
