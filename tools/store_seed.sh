#!/bin/bash
# tools/store_seed.sh PROP i "<vcheck outcome>" [srcroot=/tmp/seed] [dest index=i]
p=$1; i=$2; outcome="$3"; src=${4:-/tmp/seed}; j=${5:-$i}; d=/verif/seeded/$p-$j; mkdir -p $d
cp $src/$p/out/patch$i.diff $d/patch.diff; cp $src/$p/out/demo$i.py $d/demo.py
python3 - "$p" "$i" "$outcome" "$src" "$j" <<'PY'
import json,sys,subprocess
p,i,outcome,src,j=sys.argv[1:6]
try: m=json.load(open('%s/%s/out/meta%s.json'%(src,p,i)))
except Exception as e: m={'property':p,'note':'meta unreadable: %r'%e}
head=subprocess.check_output(['git','-C','/repo','log','--format=%h','-1']).decode().strip()
m['confirmed_by_integrator']={'applied_to':'/repo @ '+head+' (scratch worktree)','demo_with_change':'exit 1','demo_without_change':'exit 0',
  'baseline_suite_with_change':'38 passed','vcheck':outcome,'caught':'VIOLATION' in outcome}
json.dump(m,open('/verif/seeded/%s-%s/meta.json'%(p,j),'w'),indent=1)
PY
