#!/bin/bash
# tools/seedtest.sh <patch.diff> <demo.py> <PROP> [tier]
# Applies a seeded change to a scratch worktree of /repo's HEAD (so that background sweeps reading /repo are
# not disturbed; SEED_IN_REPO=1 applies it to /repo itself instead), confirms (a) the demo fails with it,
# (b) the baseline test suite still passes, (c) what ./vcheck PROP reports; then removes the change and
# confirms the demo passes. Evidence of the unchanged tree is preserved.
patch="$(readlink -f "$1")"; demo="$(readlink -f "$2")"; prop="$3"; tier="${4:-quick}"
# VERIF_DIR / TEST_SCRATCH let a sub-agent run this from its own verif worktree with a private scratch worktree
cd "${VERIF_DIR:-/verif}" || exit 2
SCR="${TEST_SCRATCH:-/tmp/seedtest.$$}"   # private per invocation: concurrent runs must not share a scratch worktree
if [ "${SEED_IN_REPO:-0}" = 1 ]; then R=/repo; else
  R=$SCR/repo
  git -C /repo worktree remove --force $R >/dev/null 2>&1; rm -rf $R; mkdir -p $SCR
  git -C /repo worktree add -q --detach $R HEAD || exit 2
fi
if [ -n "$(git -C $R status --porcelain)" ]; then echo "$R not clean"; exit 2; fi
git -C $R apply "$patch" || { echo "patch does not apply"; [ $R != /repo ] && git -C /repo worktree remove --force $R; exit 2; }
cleanup() { git -C $R checkout -- . ; [ $R != /repo ] && git -C /repo worktree remove --force $R; }
trap cleanup EXIT
( cd $R && PYTHONPATH=$R /venv/bin/python "$demo" >$SCR/demo.out 2>&1 ); d1=$?
echo "demo with change: exit $d1"
if [ "${SEED_SKIP_TESTS:-0}" != 1 ]; then
  ( cd $R && /venv/bin/python -m pytest -q -p no:cacheprovider --timeout=900 2>&1 | grep -E "passed|failed" | tail -1 )
fi
cp -f evidence/$prop.json $SCR/ev_backup_$prop.json 2>/dev/null
EMD_REPO=$R ./vcheck "$prop" --tier "$tier" 2>&1 | grep -E "VIOLATION|KNOWN-FINDING|$prop $tier|error" | head -8
echo "vcheck exit ${PIPESTATUS[0]}"
cp -f $SCR/ev_backup_$prop.json evidence/$prop.json 2>/dev/null  # evidence must come from the unchanged tree
git -C $R checkout -- .
( cd $R && PYTHONPATH=$R /venv/bin/python "$demo" >/dev/null 2>&1 ); echo "demo without change: exit $?"
