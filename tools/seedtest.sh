#!/bin/bash
# tools/seedtest.sh <patch.diff> <demo.py> <PROP> [tier]
# Applies a seeded change to /repo, confirms (a) the demo fails with it, (b) the baseline test suite
# still passes, (c) what ./vcheck PROP reports; then undoes the change and confirms the demo passes.
patch="$1"; demo="$2"; prop="$3"; tier="${4:-quick}"
cd /verif || exit 2
if [ -n "$(git -C /repo status --porcelain)" ]; then echo "/repo not clean"; exit 2; fi
git -C /repo apply "$patch" || { echo "patch does not apply"; exit 2; }
trap 'git -C /repo checkout -- . ' EXIT
( cd /repo && PYTHONPATH=/repo /venv/bin/python "$demo" >/tmp/seed_demo.out 2>&1 ); d1=$?
echo "demo with change: exit $d1"
if [ "${SEED_SKIP_TESTS:-0}" != 1 ]; then
  ( cd /repo && /venv/bin/python -m pytest -q -p no:cacheprovider --timeout=900 2>&1 | grep -E "passed|failed" | tail -1 )
fi
cp -f evidence/$prop.json /tmp/seed_ev_backup.json 2>/dev/null
./vcheck "$prop" --tier "$tier" 2>&1 | grep -E "VIOLATION|KNOWN-FINDING|$prop $tier|error" | head -8
echo "vcheck exit ${PIPESTATUS[0]}"
cp -f /tmp/seed_ev_backup.json evidence/$prop.json 2>/dev/null  # evidence must come from the unchanged tree
git -C /repo checkout -- .
trap - EXIT
( cd /repo && PYTHONPATH=/repo /venv/bin/python "$demo" >/dev/null 2>&1 ); echo "demo without change: exit $?"
