/- EmdModel.Extrema — (stub; filled in by the property that owns it) -/
import EmdModel.Protocol

namespace Extrema

def handle (_o : Protocol.Op) : Option String := none

end Extrema
