/-
  EmdModel.Extrema — model of emd/sift.py: `_find_extrema`, `compute_parabolic_extrema`,
  `get_padded_extrema`, `interp_envelope` (C05).

  * `findPeaks`      scipy `argrelextrema(x, np.greater, order=1)` (mode='clip'): an index is an
                     extremum iff the sample is strictly greater than both neighbours; the two end
                     samples are compared with themselves and never qualify; plateaus never qualify.
  * `parabolic`      the 3-point vertex refinement: a rational function of the three samples,
                     modelled exactly (not an oracle).
  * `padOddOnce`     one chunk of numpy's `np.pad(mode='reflect', reflect_type='odd')`;
    `padOdd`         numpy ≥ 2 iterates chunks while the pad width exceeds what one reflection can
                     deliver (the code clips `pad_width` to the number of extrema, so width = length occurs).
  * `padEdge`        `np.pad(mode='median', stat_length=1)` = replicate the edge value.
  * `padLoop`        the `while max(locs) < len(X) or min(locs) >= 0` re-padding (fuel: `len(X)+1`
                     rounds always suffice — theorem `C05.paddedExtrema_terminates`).
  * `envGrid`        the points at which `interp_envelope` evaluates the interpolant:
                     `np.arange(ceil(locs[0]), locs[-1])` restricted to `[0, n)`.
    `envGridPinned`  the grid of the pinned tree, `np.arange(locs[0], locs[-1])` (defect D17:
                     fractional whenever `locs[0]` is, i.e. with parabolic refinement).
  * `interpEnvelope` takes the interpolant as an oracle `I : Interp`.

  Locations and magnitudes are `Rat` throughout (integer sample indices are embedded).
-/
import EmdModel.Protocol

namespace Extrema

/-! ### extrema detection -/

/-- strict interior local maxima of the list whose head has index `i` -/
def peaksFrom : Nat → List Rat → List Nat
  | i, a :: b :: c :: t =>
    if a < b ∧ c < b then (i + 1) :: peaksFrom (i + 1) (b :: c :: t)
    else peaksFrom (i + 1) (b :: c :: t)
  | _, _ => []

def findPeaks (x : Sig) : List Nat := peaksFrom 0 x
def findTroughs (x : Sig) : List Nat := findPeaks (Sig.neg x)

/-- `x[i]` (0 outside; only used at indices of detected extrema and their neighbours) -/
def at' (x : Sig) (i : Nat) : Rat := x.getD i 0

/-- `compute_parabolic_extrema` on one triple: (offset of the vertex from the middle sample,
    height of the vertex).  `abc = w_inv · y`, `tp = -b/(2a)`, `t = tp - 2 + loc`, `ŷ = tp·b/2 + c`. -/
def parabolic (y0 y1 y2 : Rat) : Rat × Rat :=
  let a := y0 / 2 - y1 + y2 / 2
  let b := -(5 / 2) * y0 + 4 * y1 - (3 / 2) * y2
  let c := 3 * y0 - 3 * y1 + y2
  let tp := -b / (2 * a)
  (tp - 2, tp * b / 2 + c)

def refinedLoc (y : Sig) (i : Nat) : Rat := (parabolic (at' y (i - 1)) (at' y i) (at' y (i + 1))).1 + (i : Rat)
def refinedMag (y : Sig) (i : Nat) : Rat := (parabolic (at' y (i - 1)) (at' y i) (at' y (i + 1))).2

/-- `_find_extrema(y, parabolic_extrema=parab)`: (locations, magnitudes) -/
def rawExtrema (parab : Bool) (y : Sig) : List Rat × List Rat :=
  let p := findPeaks y
  if parab then (p.map (refinedLoc y), p.map (refinedMag y))
  else (p.map (fun (i : Nat) => (i : Rat)), p.map (at' y))

inductive Mode | peaks | troughs | absPeaks
  deriving DecidableEq, Repr

/-- the mode switch of `get_padded_extrema` -/
def extrema (m : Mode) (parab : Bool) (x : Sig) : List Rat × List Rat :=
  match m with
  | .peaks => rawExtrema parab x
  | .troughs => ((rawExtrema parab (Sig.neg x)).1, Sig.neg (rawExtrema parab (Sig.neg x)).2)
  | .absPeaks => rawExtrema parab (x.map Rat.abs')

/-! ### padding -/

/-- the `c` values after the first one, odd-reflected about the first: `2·l[0] - l[c], …, 2·l[0] - l[1]` -/
def leftRefl (c : Nat) : List Rat → List Rat
  | [] => []
  | a :: t => (t.take c).reverse.map fun v => 2 * a - v

/-- the `c` values before the last one, odd-reflected about the last: `2·l[-1] - l[-2], …, 2·l[-1] - l[-1-c]` -/
def rightRefl (c : Nat) (l : List Rat) : List Rat :=
  match l.reverse with
  | [] => []
  | z :: r => (r.take c).map fun v => 2 * z - v

/-- one reflection chunk of `np.pad(l, c, 'reflect', reflect_type='odd')` (`c ≤ len - 1`) -/
def padOddOnce (c : Nat) (l : List Rat) : List Rat := leftRefl c l ++ l ++ rightRefl c l

/-- numpy's loop: `rem` values are still missing on either side; one iteration delivers
    `min(period, rem)` with `period = ((len-1) div (m-1))·(m-1)`, `m` the original length -/
def padOddAux (m : Nat) : Nat → Nat → List Rat → List Rat
  | 0, _, l => l
  | f + 1, rem, l =>
    if rem = 0 then l
    else
      let c := min (((l.length - 1) / (m - 1)) * (m - 1)) rem
      padOddAux m f (rem - c) (padOddOnce c l)

/-- `np.pad(l, w, 'reflect', reflect_type='odd')` (numpy ≥ 2).  A singleton is edge-replicated
    (numpy's legacy branch); the empty array (numpy raises) never reaches this function. -/
def padOdd (w : Nat) (l : List Rat) : List Rat :=
  match l with
  | [] => []
  | [a] => List.replicate w a ++ [a] ++ List.replicate w a
  | _ => padOddAux l.length w w l

/-- `np.pad(m, w, 'median', stat_length=1)`: replicate the edge values -/
def padEdge (w : Nat) (m : List Rat) : List Rat :=
  match m.head?, m.getLast? with
  | some a, some z => List.replicate w a ++ m ++ List.replicate w z
  | _, _ => m

/-- `min(l)` / `max(l)` of a non-empty array (0 for the empty one, never used) -/
def lmin : List Rat → Rat
  | [] => 0
  | [a] => a
  | a :: t => if a ≤ lmin t then a else lmin t
def lmax : List Rat → Rat
  | [] => 0
  | [a] => a
  | a :: t => if lmax t ≤ a then a else lmax t

/-- the loop condition `max(locs) < len(X) or min(locs) >= 0` -/
def needsMore (n : Nat) (l : List Rat) : Bool := decide (lmax l < (n : Rat)) || decide (0 ≤ lmin l)

/-- the re-padding loop; `none` = out of fuel -/
def padLoop (w n : Nat) : Nat → List Rat → List Rat → Option (List Rat × List Rat)
  | 0, _, _ => none
  | f + 1, l, m =>
    if needsMore n l then padLoop w n f (padOdd w l) (padEdge w m) else some (l, m)

inductive PadResult
  | none                               -- fewer than two extrema: the code returns (None, None)
  | fuel                               -- the model's loop bound was hit (proved impossible)
  | ok (locs mags : List Rat)
  deriving Repr, DecidableEq

/-- `get_padded_extrema(x, pad_width=w, mode, parabolic_extrema=parab)` with the default pad options -/
def paddedExtrema (w : Nat) (m : Mode) (parab : Bool) (x : Sig) : PadResult :=
  let l := (extrema m parab x).1
  let e := (extrema m parab x).2
  if l.length ≤ 1 then .none
  else
    let w := if l.length < w then l.length else w
    if w = 0 then .ok l e
    else
      match padLoop w x.length (x.length + 1) (padOdd w l) (padEdge w e) with
      | some r => .ok r.1 r.2
      | none => .fuel

/-! ### envelope -/

/-- the interpolant (splrep/splev, PchipInterpolator, pchip) is an oracle -/
structure Interp where
  eval : List Rat → List Rat → Rat → Rat

/-- the contract of the oracle used by the pass-through theorems (validated against scipy on every run):
    through strictly increasing knots the interpolant takes the knot values -/
def Interp.Interpolates (I : Interp) : Prop :=
  ∀ (locs mags : List Rat) (i : Nat) (t v : Rat), locs.Pairwise (· < ·) → locs.length = mags.length →
    locs[i]? = some t → mags[i]? = some v → I.eval locs mags t = v

/-- `np.arange(start, stop)` (step 1): `ceil(stop - start)` values `start + k` -/
def arange (start stop : Rat) : List Rat :=
  (List.range (stop - start).ceil.toNat).map fun (k : Nat) => start + (k : Rat)

def onSamples (n : Nat) (t : Rat) : Bool := decide (0 ≤ t) && decide (t < (n : Rat))

/-- evaluation points of `interp_envelope`: the integers from `ceil(locs[0])` below `locs[-1]`, kept in `[0, n)` -/
def envGrid (locs : List Rat) (n : Nat) : List Rat :=
  match locs.head?, locs.getLast? with
  | some a, some z => (arange ((a.ceil : Int) : Rat) z).filter (onSamples n)
  | _, _ => []

/-- evaluation points on the pinned tree (before the D17 repair): `arange(locs[0], locs[-1])` kept in `[0, n)` -/
def envGridPinned (locs : List Rat) (n : Nat) : List Rat :=
  match locs.head?, locs.getLast? with
  | some a, some z => (arange a z).filter (onSamples n)
  | _, _ => []

inductive EMode | upper | lower | combined
  deriving DecidableEq, Repr

def EMode.toMode : EMode → Mode
  | .upper => .peaks
  | .lower => .troughs
  | .combined => .absPeaks

inductive EnvResult
  | none                                  -- no envelope (fewer than two extrema)
  | valueError                            -- 'Envelope length does not match input data'
  | fuel
  | ok (env locs mags : List Rat)
  deriving Repr, DecidableEq

/-- `interp_envelope(x, mode, interp_method, extrema_opts={pad_width: w, parabolic_extrema: parab}, ret_extrema=True)` -/
def interpEnvelope (I : Interp) (em : EMode) (w : Nat) (parab : Bool) (x : Sig) : EnvResult :=
  match paddedExtrema w em.toMode parab x with
  | .none => .none
  | .fuel => .fuel
  | .ok l e =>
    let env := (envGrid l x.length).map (I.eval l e)
    if env.length ≠ x.length then .valueError else .ok env l e

/-! ### protocol -/

/-- the oracle as a table of the interpolant's values at the sample indices 0..n-1 -/
def tableInterp (tab : List Rat) : Interp :=
  { eval := fun _ _ t => if t.den = 1 ∧ 0 ≤ t.num then tab.getD t.num.toNat 0 else 0 }

def onTable (n : Nat) (t : Rat) : Bool := t.den = 1 && decide (0 ≤ t.num) && decide (t.num.toNat < n)

def parseMode? : String → Option Mode
  | "peaks" => some .peaks
  | "troughs" => some .troughs
  | "abs_peaks" => some .absPeaks
  | _ => none

def parseEMode? : String → Option EMode
  | "upper" => some .upper
  | "lower" => some .lower
  | "combined" => some .combined
  | _ => none

def parseBool? : String → Option Bool
  | "0" => some false
  | "1" => some true
  | _ => none

/-- smallest distance of a loop decision (`max < n`, `min ≥ 0`) from its threshold, over all rounds -/
def loopMargin (w n : Nat) : Nat → List Rat → Rat → Rat
  | 0, _, acc => acc
  | f + 1, l, acc =>
    let d1 := Rat.abs' (lmax l - (n : Rat))
    let d2 := Rat.abs' (lmin l)
    let acc := if d1 < acc then d1 else acc
    let acc := if d2 < acc then d2 else acc
    if needsMore n l then loopMargin w n f (padOdd w l) acc else acc

open Protocol in
def handle (o : Op) : Option String :=
  match o.name with
  | "PEAKS" => some <| Id.run do
      let some x := o.vec? 0 | return "bad-op"
      return s!"ok | {fmtNats (findPeaks x)} | {fmtNats (findTroughs x)}"
  | "PADODD" => some <| Id.run do
      let some w := o.nat? "w" | return "bad-op"
      let some l := o.vec? 0 | return "bad-op"
      if l.isEmpty then return (if w = 0 then "ok | " else "err ValueError")
      return s!"ok | {fmtVec (padOdd w l)} | {fmtVec (padEdge w l)}"
  | "PADEXT" => some <| Id.run do
      let some w := o.nat? "pad" | return "bad-op"
      let some m := (o.str? "mode") >>= parseMode? | return "bad-op"
      let some parab := (o.str? "parab") >>= parseBool? | return "bad-op"
      let some x := o.vec? 0 | return "bad-op"
      match paddedExtrema w m parab x with
      | .none => return "none"
      | .fuel => return "err Fuel"
      | .ok l e =>
        let l0 := (extrema m parab x).1
        let w' := if l0.length < w then l0.length else w
        let margin := if w' = 0 then (1 : Rat) else loopMargin w' x.length (x.length + 1) (padOdd w' l0) 1
        return s!"ok margin={fmtRat margin} | {fmtVec l} | {fmtVec e}"
  | "GRID" => some <| Id.run do
      let some n := o.nat? "n" | return "bad-op"
      let some pinned := (o.str? "pinned") >>= parseBool? | return "bad-op"
      let some l := o.vec? 0 | return "bad-op"
      return s!"ok | {fmtVec (if pinned then envGridPinned l n else envGrid l n)}"
  | "ENV" => some <| Id.run do
      let some w := o.nat? "pad" | return "bad-op"
      let some em := (o.str? "emode") >>= parseEMode? | return "bad-op"
      let some parab := (o.str? "parab") >>= parseBool? | return "bad-op"
      let some x := o.vec? 0 | return "bad-op"
      let some tabs := o.slot? 1 | return "bad-op"
      let tab := tabs.getD []
      match interpEnvelope (tableInterp tab) em w parab x with
      | .none => return "none"
      | .fuel => return "err Fuel"
      | .valueError => return "err ValueError"
      | .ok env l e =>
        -- the oracle table must cover every evaluation point of the model
        if tab.length ≠ x.length ∨ !(envGrid l x.length).all (onTable x.length) then
          return "oracle-desync table does not cover the model's evaluation grid"
        return s!"ok | {fmtVec env} | {fmtVec l} | {fmtVec e}"
  | _ => none

end Extrema
