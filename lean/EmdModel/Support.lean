/- EmdModel.Support — (stub; filled in by the property that owns it) -/
import EmdModel.Protocol

namespace Support

def handle (_o : Protocol.Op) : Option String := none

end Support
