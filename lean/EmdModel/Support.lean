/-
  EmdModel.Support — the array-shape "ensurance" routines of `emd/support.py` (C19), on shapes.

  A shape is the `ndarray.shape` tuple as a `List Nat` (`[]` is a 0-d array).  Each routine
  mirrors the branch structure of the Python function for ONE array; the `…All` versions are the
  loop over `to_check` (first failure raises).  `ensureVector` / `ensure1d` are the repaired
  code (DESIGN §9-D15); `…Pinned` is the code as pinned, kept for the `…_current` witnesses.
-/
import EmdModel.Protocol

namespace Support

abbrev Shape := List Nat

inductive Err | valueError | indexError
  deriving DecidableEq, Repr

def Err.name : Err → String
  | .valueError => "ValueError"
  | .indexError => "IndexError"

/-- `np.all(xx.shape[1:] == np.ones_like(xx.shape[1:]))` -/
def trailingOnes (s : Shape) : Bool := (s.drop 1).all (· == 1)

/-- number of elements of an array of this shape -/
def numel (s : Shape) : Nat := s.foldr (· * ·) 1

/-! ### ensure_vector -/

/-- repaired:
      if   ndim == 2 and shape[1] == 1: out = xx[:, 0]
      elif ndim == 2 and shape[1] != 1: raise ValueError
      elif ndim > 2:                    raise ValueError -/
def ensureVector (s : Shape) : Except Err Shape :=
  if s.length == 2 && s[1]? == some 1 then .ok (s.take 1)
  else if s.length == 2 then .error .valueError
  else if s.length > 2 then .error .valueError
  else .ok s

/-- pinned: the first two tests say `ndim > 1`, so the `ndim > 2` branch is dead and
    `xx[:, 0]` is applied to (n,1,k,…) giving (n,k,…) -/
def ensureVectorPinned (s : Shape) : Except Err Shape :=
  if s.length > 1 && s[1]? == some 1 then .ok (s.take 1 ++ s.drop 2)
  else if s.length > 1 then .error .valueError
  else if s.length > 2 then .error .valueError
  else .ok s

/-! ### ensure_1d_with_singleton -/

/-- repaired:
      if ndim > 2 and trailing dims all 1:  out = xx.reshape(shape[0], 1)
      if ndim > 1 and not (trailing dims all 1): raise ValueError
      elif ndim == 1: out = out[:, newaxis] -/
def ensure1d (s : Shape) : Except Err Shape :=
  let out : Shape := if s.length > 2 && trailingOnes s then s.take 1 ++ [1] else s
  if s.length > 1 && !trailingOnes s then .error .valueError
  else if s.length == 1 then .ok (out ++ [1])
  else .ok out

/-- `np.squeeze(xx)[:, np.newaxis]`: drop every axis of length 1, then index the first axis -/
def squeezeNewaxis (s : Shape) : Except Err Shape :=
  match s.filter (· != 1) with
  | [] => .error .indexError                 -- 0-d after squeeze: too many indices
  | n :: rest => .ok (n :: 1 :: rest)

/-- pinned: only `ndim > 2` is validated, so (n,2) and (1,n) pass untouched; trailing
    singletons are removed with `np.squeeze`, which also removes a leading axis of length 1 -/
def ensure1dPinned (s : Shape) : Except Err Shape :=
  if s.length > 2 && trailingOnes s then squeezeNewaxis s
  else if s.length > 2 then .error .valueError
  else if s.length == 1 then .ok (s ++ [1])
  else .ok s

/-! ### ensure_2d -/

/-- `if ndim == 1: out = xx[:, newaxis]` — nothing else is touched, nothing is rejected -/
def ensure2d (s : Shape) : Shape :=
  if s.length == 1 then s ++ [1] else s

/-! ### ensure_equal_dims -/

/-- `tuple(np.array(x.shape)[dim])` for the list of axes `dims`: IndexError on a missing axis -/
def pick (s : Shape) : List Nat → Except Err (List Nat)
  | [] => .ok []
  | d :: ds =>
    match s[d]? with
    | none => .error .indexError
    | some v =>
      match pick s ds with
      | .ok vs => .ok (v :: vs)
      | .error e => .error e

/-- the list comprehension `[tuple(np.array(x.shape)[dim]) for x in to_check]` -/
def pickAll (dims : List Nat) : List Shape → Except Err (List (List Nat))
  | [] => .ok []
  | s :: ss =>
    match pick s dims with
    | .error e => .error e
    | .ok p =>
      match pickAll dims ss with
      | .ok ps => .ok (p :: ps)
      | .error e => .error e

/-- `dim = np.arange(to_check[0].ndim) if dim is None else [dim]` -/
def dimsOf (s0 : Shape) : Option Nat → List Nat
  | none => List.range s0.length
  | some d => [d]

/-- `ensure_equal_dims(to_check, names, func_name, dim)`:
      dim = arange(to_check[0].ndim) if dim is None else [dim]
      all_dims = [tuple(np.array(x.shape)[dim]) for x in to_check]
      ValueError unless every entry equals the first -/
def ensureEqualDims (shapes : List Shape) (dim : Option Nat) : Except Err Unit :=
  match shapes with
  | [] =>
    match dim with
    | none => .error .indexError             -- to_check[0].ndim
    | some _ => .ok ()                       -- all_dims = [], check = [True]: passes silently
  | s0 :: rest =>
    let dims := dimsOf s0 dim
    match pick s0 dims with
    | .error e => .error e
    | .ok p0 =>
      match pickAll dims rest with
      | .error e => .error e
      | .ok ps => if ps.all (· == p0) then .ok () else .error .valueError

/-! ### the loops over `to_check` -/

/-- `for idx, xx in enumerate(to_check): …` — every array in turn, the first failure raises -/
def allOk (f : Shape → Except Err Shape) : List Shape → Except Err (List Shape)
  | [] => .ok []
  | s :: ss =>
    match f s with
    | .error e => .error e
    | .ok t =>
      match allOk f ss with
      | .ok ts => .ok (t :: ts)
      | .error e => .error e

def ensureVectorAll (ss : List Shape) : Except Err (List Shape) := allOk ensureVector ss
def ensure1dAll (ss : List Shape) : Except Err (List Shape) := allOk ensure1d ss
def ensure2dAll (ss : List Shape) : List Shape := ss.map ensure2d

/-! ### protocol -/

open Protocol in
def handle (o : Protocol.Op) : Option String :=
  match o.name with
  | "ENSURE" => some <| Id.run do
      let some fn := o.str? "fn" | return "bad-op"
      let some variant := o.str? "variant" | return "bad-op"
      let some vs := o.vecs.mapM id | return "bad-op"
      let some shapes := vs.mapM toNats? | return "bad-op"
      let f : Option (Shape → Except Err Shape) := match fn, variant with
        | "vec", "fixed" => some ensureVector
        | "vec", "pinned" => some ensureVectorPinned
        | "1d", "fixed" => some ensure1d
        | "1d", "pinned" => some ensure1dPinned
        | "2d", _ => some fun s => .ok (ensure2d s)
        | _, _ => none
      let some f := f | return "bad-op"
      match allOk f shapes with
      | .error e => return s!"err {e.name}"
      | .ok ts => return "ok" ++ String.join (ts.map fun t => " | " ++ fmtNats t)
  | "ENSEQ" => some <| Id.run do
      let some ds := o.str? "dim" | return "bad-op"
      let dim ← match ds with
        | "none" => pure none
        | d => match d.toNat? with
          | some k => pure (some k)
          | none => return "bad-op"
      let some vs := o.vecs.mapM id | return "bad-op"
      let some shapes := vs.mapM toNats? | return "bad-op"
      match ensureEqualDims shapes dim with
      | .error e => return s!"err {e.name}"
      | .ok () => return "ok"
  | _ => none

end Support
