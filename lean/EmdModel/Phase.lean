/- EmdModel.Phase — (stub; filled in by the property that owns it) -/
import EmdModel.Protocol

namespace Phase

def handle (_o : Protocol.Op) : Option String := none

end Phase
