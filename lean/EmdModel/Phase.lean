/-
  EmdModel.Phase — model of the phase / frequency conversions of emd (C09).

    emd/utils.py    wrap_phase, amplitude_normalise
    emd/spectra.py  freq_from_phase, phase_from_freq, quadrature_transform,
                    phase_from_complex_signal, frequency_transform

  Everything is exact rational arithmetic on one column (the implementation
  works column by column along axis 0).  Float constants (`2π`, `π/2`) are
  parameters holding the exact value of the double.  Library numerics are
  oracle parameters:

    * `H : Sig → Sig × Amp` — analytic-signal phase and amplitude of one IMF
      (`scipy.signal.hilbert`, `np.angle`, `np.unwrap`, `scipy.signal.medfilt`,
      `np.abs`, the envelope interpolation used for the nht / quad amplitude);
      an amplitude sample is `Option Rat`, `none` standing for NaN;
    * `E : Nat → Sig → Option Sig` — the combined envelope used by
      `amplitude_normalise` (iteration index, iterate ↦ envelope or `None`);
    * `envU : Sig → Option Sig` — the upper envelope `interp_envelope(mode='upper')`
      of the nht / quad amplitude (`None` on a column with too few peaks);
    * the table `s = sqrt(1 − nX²)` of the quadrature transform.

  `np.gradient`, `np.cumsum`, `%` and `np.unwrap` are modelled exactly (their
  algorithms are index arithmetic) and compared with numpy on every run.
-/
import EmdModel.Protocol

namespace Phase

/-! ## wrap: numpy's `x % m` -/

/-- `x % m` for `m > 0` (sign of the divisor): `x − m·⌊x/m⌋` -/
def wrap (m x : Rat) : Rat := x - m * ((x / m).floor : Rat)

/-- `wrap_phase(mode='-pi2pi')`: `(x + h) % m − h` -/
def wrapCentered (m h x : Rat) : Rat := wrap m (x + h) - h

/-! ## gradient, cumulative sum -/

def getR (x : List Rat) (i : Nat) : Rat := x[i]?.getD 0

/-- `np.gradient(x)` at index `i` (unit spacing, `edge_order=1`): one-sided first
    differences at the two ends, central differences in the interior -/
def gradAt (x : List Rat) (i : Nat) : Rat :=
  if i = 0 then getR x 1 - getR x 0
  else if i + 1 = x.length then getR x i - getR x (i - 1)
  else (getR x (i + 1) - getR x (i - 1)) / 2

def gradient (x : List Rat) : List Rat := (List.range x.length).map (gradAt x)

/-- `np.gradient` raises `ValueError` on fewer than 2 samples -/
def gradient? (x : List Rat) : Option (List Rat) :=
  if x.length < 2 then none else some (gradient x)

/-- running sum started at `acc` -/
def cumsumFrom (acc : Rat) : List Rat → List Rat
  | [] => []
  | a :: t => (acc + a) :: cumsumFrom (acc + a) t

def cumsum (x : List Rat) : List Rat := cumsumFrom 0 x

/-- `np.diff` -/
def diff : List Rat → List Rat
  | a :: b :: t => (b - a) :: diff (b :: t)
  | _ => []

/-! ## freq_from_phase / phase_from_freq -/

/-- `np.gradient(iphase) / (2π) * sample_rate` -/
def freqFromPhase (twoPi sr : Rat) (p : List Rat) : List Rat :=
  (gradient p).map fun g => g / twoPi * sr

/-- `phase_start + np.cumsum(ifrequency / sample_rate * 2π)` -/
def phaseFromFreq (twoPi sr start : Rat) (f : List Rat) : List Rat :=
  (cumsum (f.map fun v => v / sr * twoPi)).map fun c => start + c

/-! ## phase_from_complex_signal after its library part -/

/-- `phase_from_complex_signal` given `U` = unwrapped (and median-smoothed) angle of the complex
    signal: add the phase-jump offset (`π/2` ascending, `0` peak, `-π/2` descending, `π` trough)
    and wrap on request -/
def phaseFromComplex (off twoPi : Rat) (wrapped : Bool) (U : List Rat) : List Rat :=
  let P := U.map fun u => u + off
  if wrapped then P.map (wrap twoPi) else P

/-! ## frequency_transform around the analytic-signal oracle -/

/-- `frequency_transform` on one column.  `H imf = (U, A)`: `U` the smoothed
    unwrapped angle of the analytic signal, `A` the instantaneous amplitude
    (`none` = NaN sample).  The implementation adds the quarter cycle
    (`phase_jump='ascending'`), differentiates, and wraps the very same phase for output. -/
def frequencyTransform (H : List Rat → List Rat × List (Option Rat)) (halfPi twoPi sr : Rat)
    (x : List Rat) : List Rat × List Rat × List (Option Rat) :=
  let UA := H x
  let P := UA.1.map fun u => u + halfPi
  (P.map (wrap twoPi), freqFromPhase twoPi sr P, UA.2)

/-- `frequency_transform` with its failure on short input: on fewer than 2 samples the
    implementation raises (`np.gradient`: ValueError; `quadrature_transform`: IndexError) -/
def frequencyTransform? (H : List Rat → List Rat × List (Option Rat)) (halfPi twoPi sr : Rat)
    (x : List Rat) : Option (List Rat × List Rat × List (Option Rat)) :=
  if x.length < 2 then none else some (frequencyTransform H halfPi twoPi sr x)

/-- analytic-signal pipeline of the `hilbert` branch with its library pieces as oracles -/
structure Analytic where
  hilbert : List Rat → List (Rat × Rat)   -- scipy.signal.hilbert: (re, im) per sample
  angle : Rat × Rat → Rat                 -- np.angle
  abs : Rat × Rat → Rat                   -- np.abs
  post : List Rat → List Rat              -- np.unwrap followed by medfilt(·, 5)

/-- `hilbert` branch: phase and amplitude both from the analytic signal -/
def Analytic.hilbertH (O : Analytic) (x : List Rat) : List Rat × List (Option Rat) :=
  let z := O.hilbert x
  (O.post (z.map O.angle), z.map fun w => some (O.abs w))

/-- amplitude column of the `nht` / `quad` branches from the result of
    `interp_envelope(imf, mode='upper')`: on a column with too few peaks that function returns
    `None`, and `iamp[:, ii, jj] = None` stores NaN at each of the `n` samples -/
def ampOfEnv (n : Nat) : Option (List Rat) → List (Option Rat)
  | none => List.replicate n none
  | some e => e.map some

/-- `nht` branch: phase from the analytic signal of the amplitude-normalised IMF,
    amplitude from the upper envelope `envU` of the IMF itself (NaN where there is none) -/
def Analytic.nhtH (O : Analytic) (norm : List Rat → List Rat) (envU : List Rat → Option (List Rat))
    (x : List Rat) : List Rat × List (Option Rat) :=
  (O.post ((O.hilbert (norm x)).map O.angle), ampOfEnv x.length (envU x))

/-! ## np.unwrap (period `m`, default discontinuity `m/2`) -/

def absR (v : Rat) : Rat := if v < 0 then -v else v

/-- correction added from one sample on, given the raw difference `dd` to the previous sample -/
def unwrapCorr (m dd : Rat) : Rat :=
  let h := m / 2
  let ddmod0 := wrap m (dd + h) - h
  let ddmod := if ddmod0 = -h ∧ 0 < dd then h else ddmod0
  if absR dd < h then 0 else ddmod - dd

def unwrap (m : Rat) : List Rat → List Rat
  | [] => []
  | a :: t => a :: List.zipWith (· + ·) t (cumsum ((diff (a :: t)).map (unwrapCorr m)))

/-! ## quadrature_transform -/

/-- `((np.diff(nX) > 0) * -2) + 1`, last entry repeated -/
def quadMask (nX : List Rat) : List Rat :=
  let d := (diff nX).map fun v => if 0 < v then (-1 : Rat) else 1
  match d.getLast? with
  | some l => d ++ [l]
  | none => []

/-- imaginary part of the quadrature signal: `sqrt(1 − nX²) * mask` with `s` the sqrt table;
    `none` where the implementation raises `IndexError` (fewer than 2 samples) -/
def quadImag? (nX s : List Rat) : Option (List Rat) :=
  if nX.length < 2 then none else some (List.zipWith (· * ·) s (quadMask nX))

/-! ## amplitude_normalise -/

def clip1 (v : Rat) : Rat := if v < -1 then -1 else if 1 < v then 1 else v

def sumR (x : List Rat) : Rat := x.foldr (· + ·) 0

/-- the `while continue_norm and iters < max_iters` loop: `k` iterations already done,
    `fuel` iterations left; `env` is the envelope of the current iterate `x` -/
def anLoop (E : Nat → List Rat → Option (List Rat)) (thresh : Rat) :
    Nat → Nat → List Rat → List Rat → List Rat
  | 0, _, x, _ => x
  | fuel + 1, k, x, env =>
    let x' := List.zipWith (· / ·) x env
    match E (k + 1) x' with
    | none => x'
    | some env' =>
      if absR (sumR env' - (env'.length : Rat)) < thresh then x'
      else anLoop E thresh fuel (k + 1) x' env'

/-- `amplitude_normalise` on one column (without the final clip) -/
def amplitudeNormalise (E : Nat → List Rat → Option (List Rat)) (thresh : Rat) (maxIters : Nat)
    (x : List Rat) : List Rat :=
  match E 0 x with
  | none => x
  | some env => anLoop E thresh maxIters 0 x env

/-- number of divisions performed and the margin `| |Σenv − n| − thresh |` of the closest
    stop decision (for the near-tie guard of the harness) -/
def anTrace (E : Nat → List Rat → Option (List Rat)) (thresh : Rat) :
    Nat → Nat → List Rat → List Rat → Nat × Option Rat
  | 0, k, _, _ => (k, none)
  | fuel + 1, k, x, env =>
    let x' := List.zipWith (· / ·) x env
    match E (k + 1) x' with
    | none => (k + 1, none)
    | some env' =>
      let v := absR (sumR env' - (env'.length : Rat))
      let mg := absR (v - thresh)
      if v < thresh then (k + 1, some mg)
      else
        let r := anTrace E thresh fuel (k + 1) x' env'
        (r.1, match r.2 with | none => some mg | some m2 => some (if m2 < mg then m2 else mg))

/-- `quad` branch: phase from the quadrature signal `nX + i·q` of the clipped amplitude-normalised
    IMF (`sqrtT` the `sqrt(1 − nX²)` table), amplitude from the upper envelope of the IMF itself
    (NaN where there is none) -/
def Analytic.quadH (O : Analytic) (norm : List Rat → List Rat) (envU : List Rat → Option (List Rat))
    (sqrtT : List Rat → List Rat) (x : List Rat) : List Rat × List (Option Rat) :=
  let nX := (norm x).map clip1
  let q := (quadImag? nX (sqrtT nX)).getD []
  (O.post ((nX.zip q).map O.angle), ampOfEnv x.length (envU x))

/-! ## protocol -/

open Protocol in
def handle (o : Op) : Option String :=
  match o.name with
  | "WRAP" => some <| Id.run do
      let some m := o.rat? "m" | return "bad-op"
      let some h := o.rat? "h" | return "bad-op"
      let some mode := o.str? "mode" | return "bad-op"
      let some xs := o.vec? 0 | return "bad-op"
      if m ≤ 0 then return "bad-op"
      if mode = "2pi" then return s!"ok | {fmtVec (xs.map (wrap m))}"
      else if mode = "-pi2pi" then return s!"ok | {fmtVec (xs.map (wrapCentered m h))}"
      else return "err ValueError"
  | "GRAD" => some <| Id.run do
      let some xs := o.vec? 0 | return "bad-op"
      match gradient? xs with
      | none => return "err ValueError"
      | some g => return s!"ok | {fmtVec g}"
  | "CUMSUM" => some <| Id.run do
      let some xs := o.vec? 0 | return "bad-op"
      return s!"ok | {fmtVec (cumsum xs)}"
  | "FFP" => some <| Id.run do
      let some twoPi := o.rat? "twopi" | return "bad-op"
      let some sr := o.rat? "sr" | return "bad-op"
      let some p := o.vec? 0 | return "bad-op"
      if twoPi = 0 then return "bad-op"
      if p.length < 2 then return "err ValueError"
      return s!"ok | {fmtVec (freqFromPhase twoPi sr p)}"
  | "PFF" => some <| Id.run do
      let some twoPi := o.rat? "twopi" | return "bad-op"
      let some sr := o.rat? "sr" | return "bad-op"
      let some start := o.rat? "start" | return "bad-op"
      let some f := o.vec? 0 | return "bad-op"
      if sr = 0 then return "bad-op"
      return s!"ok | {fmtVec (phaseFromFreq twoPi sr start f)}"
  | "FT" => some <| Id.run do
      let some halfPi := o.rat? "halfpi" | return "bad-op"
      let some twoPi := o.rat? "twopi" | return "bad-op"
      let some sr := o.rat? "sr" | return "bad-op"
      let some x := o.vec? 0 | return "bad-op"
      let some u := o.vec? 1 | return "bad-op"
      -- amplitude table: |analytic signal| (hilbert) or the upper envelope (nht / quad), `none` when
      -- interp_envelope returned None
      let some a := o.slot? 2 | return "bad-op"
      if twoPi ≤ 0 then return "bad-op"
      if u.length ≠ x.length then return "oracle-desync table lengths"
      if (match a with | some av => av.length != x.length | none => false) then
        return "oracle-desync table lengths"
      match frequencyTransform? (fun y => (u, ampOfEnv y.length a)) halfPi twoPi sr x with
      | none => return "err ValueError"
      | some r => return s!"ok | {fmtVec r.1} | {fmtVec r.2.1} | {fmtOptRats r.2.2}"
  | "PCS" => some <| Id.run do
      let some off := o.rat? "off" | return "bad-op"
      let some twoPi := o.rat? "twopi" | return "bad-op"
      let some w := o.nat? "wrapped" | return "bad-op"
      let some u := o.vec? 0 | return "bad-op"
      if twoPi ≤ 0 then return "bad-op"
      return s!"ok | {fmtVec (phaseFromComplex off twoPi (w != 0) u)}"
  | "UNWRAP" => some <| Id.run do
      let some m := o.rat? "m" | return "bad-op"
      let some p := o.vec? 0 | return "bad-op"
      if m ≤ 0 then return "bad-op"
      -- smallest distance of `dd + m/2` from a multiple of `m` (all float/exact decision boundaries)
      let mg := (diff p).foldl (fun acc d =>
        let w := wrap m (d + m / 2)
        let g := if w < m - w then w else m - w
        match acc with | none => some g | some a => some (if g < a then g else a)) (none : Option Rat)
      let mgs := match mg with | none => "none" | some g => fmtRat g
      return s!"ok margin={mgs} | {fmtVec (unwrap m p)}"
  | "QUAD" => some <| Id.run do
      let some nX := o.vec? 0 | return "bad-op"
      let some s := o.vec? 1 | return "bad-op"
      if s.length ≠ nX.length then return "oracle-desync table lengths"
      match quadImag? nX s with
      | none => return "err IndexError"
      | some q => return s!"ok | {fmtVec q}"
  | "AN" => some <| Id.run do
      let some thresh := o.rat? "thresh" | return "bad-op"
      let some maxIters := o.nat? "maxit" | return "bad-op"
      let some clip := o.nat? "clip" | return "bad-op"
      let some x := o.vec? 0 | return "bad-op"
      let table := o.vecs.drop 1
      if table.any (fun e => match e with | some v => v.length ≠ x.length | none => false) then
        return "oracle-desync table lengths"
      let E : Nat → List Rat → Option (List Rat) := fun k _ => (table[k]?).join
      if table.length = 0 then return "bad-op"
      let y := amplitudeNormalise E thresh maxIters x
      let y := if clip != 0 then y.map clip1 else y
      let tr := match E 0 x with
        | none => ((0 : Nat), (none : Option Rat))
        | some env => anTrace E thresh maxIters 0 x env
      if tr.1 + 1 > table.length then return "oracle-desync table too short"
      let mgs := match tr.2 with | none => "none" | some g => fmtRat g
      return s!"ok iters={tr.1} margin={mgs} | {fmtVec y}"
  | _ => none

end Phase
