/-
  EmdModel.Basic — shared vocabulary of the executable model.

  Signals are lists of exact rationals (`Sig`).  A float64 handed over by the
  harness is a dyadic rational and is transmitted exactly, so every arithmetic
  step of the model is exact; the comparison with the float implementation is
  done by the harness under the tolerance policy of DESIGN.md §3.

  No Mathlib import anywhere under `EmdModel/` (the driver is a native exe).
-/

abbrev Sig := List Rat

namespace Sig

def add (a b : Sig) : Sig := List.zipWith (· + ·) a b
def sub (a b : Sig) : Sig := List.zipWith (· - ·) a b
def smul (c : Rat) (a : Sig) : Sig := a.map (c * ·)
def neg (a : Sig) : Sig := a.map (- ·)
def zeros (n : Nat) : Sig := List.replicate n 0
def sum (a : Sig) : Rat := a.foldr (· + ·) 0
def absSum (a : Sig) : Rat := sum (a.map fun v => if v < 0 then -v else v)
def sumSq (a : Sig) : Rat := sum (a.map fun v => v * v)
def mean2 (a b : Sig) : Sig := List.zipWith (fun u l => (u + l) / 2) a b

/-- column-wise sum of a list of equally long signals, starting from `zeros n` -/
def vsum (n : Nat) (cols : List Sig) : Sig := cols.foldl add (zeros n)

end Sig

def Rat.abs' (v : Rat) : Rat := if v < 0 then -v else v

/-- `List.range` shifted: `[a, a+1, …, a+n-1]` as integers -/
def intRange (a : Int) (n : Nat) : List Int := (List.range n).map fun (k : Nat) => a + Int.ofNat k
