/-
  EmdModel.Logger — the console-level state machine of `emd/logger.py` (C20).

  State: the level of the handler named 'console' of logger 'emd' (`none` until `set_up` has run:
  there is no such handler and `get_level()` returns `None`) and the process-global
  `logging.disable` switch.  Operations: `set_up(level=…)`, `set_level`, `disable`, `enable`, and a
  call of a `@wrap_verbose`-decorated sift function with `verbose=…` whose body returns or raises.

  `wrapVerbose` mirrors `wrap_verbose.inner_verbose` line by line (after the D16 repair:
  try/finally, restore skipped when there was no console handler); `wrapVerbosePinned` is the
  pinned code (no `finally`, `logging._levelToName[None]`), kept for the `…_current` witnesses.

  What the model reads of the call: its verbosity argument and whether the body (the
  `@sift_logger`-decorated sift, which formats `args[0].shape` eagerly whatever the level — so
  `sift(X=x)` raises IndexError in EVERY logger state — and then runs the numerics) returns or raises.
  The body's outcome is an INPUT of the model: that it does not depend on the logger state is not
  provable here (instance check, bitwise).  A verbosity that is not a level name of `logging`
  (`verbose='debug'`, `verbose=10`, …; outside the documented values) is the operation `callBad`:
  `set_level` raises (TypeError / AttributeError / ValueError from `getattr(logging, v)` /
  `handler.setLevel`) when a console handler exists and is never evaluated when none exists.
-/
import EmdModel.Protocol

namespace Logger

inductive Level | critical | error | warning | info | debug
  deriving DecidableEq, Repr

/-- numeric values of the `logging` module -/
def Level.num : Level → Nat
  | .critical => 50 | .error => 40 | .warning => 30 | .info => 20 | .debug => 10

structure LogState where
  console : Option Level      -- level of the 'console' handler; none = handler absent
  disabled : Bool             -- logging.disable(sys.maxsize) in force
  deriving DecidableEq, Repr

/-- state right after `import emd`: NullHandler only -/
def init : LogState := { console := none, disabled := false }

/-- how the body of the decorated function is left: it returns, it raises an `Exception` (ValueError,
    EMDSiftCovergeError, …), or it is left through a `BaseException` that is NOT an `Exception`
    (KeyboardInterrupt — Ctrl-C during a long verbose sift —, SystemExit, GeneratorExit): an
    `except Exception` handler does not see the third kind, a `finally` clause runs on all three -/
inductive Outcome | returns | raises | interrupts
  deriving DecidableEq, Repr

/-- what the caller of the decorated function sees -/
inductive CallResult
  | returned          -- the body's value comes back
  | raisedOwn         -- the body's own exception propagates
  | raisedKeyError    -- the wrapper itself fails (`logging._levelToName[None]`)
  | raisedWrapper     -- the wrapper's `set_level(verbose)` rejects an undocumented verbosity; the body never runs
  deriving DecidableEq, Repr

inductive Op
  | setUp (lvl : Option Level)
  | setLevel (lvl : Level)
  | disable
  | enable
  | call (verbose : Option Level) (o : Outcome)
  | callBad (o : Outcome)       -- a decorated call with a verbosity that is not a `logging` level name
  deriving DecidableEq, Repr

def Op.isCall : Op → Bool
  | .call _ _ => true
  | .callBad _ => true
  | _ => false

/-- the call uses one of the documented verbosity values (None or a level name) -/
def Op.documented : Op → Bool
  | .callBad _ => false
  | _ => true

/-- `set_level`: loops over the handlers and sets the one named 'console'; no handler, no effect -/
def setLevel (s : LogState) (l : Level) : LogState :=
  match s.console with
  | none => s
  | some _ => { s with console := some l }

/-- `set_up`: `dictConfig` installs a fresh console handler at INFO (it does not touch
    `logging.disable`), then `set_level(level)` when a level is given -/
def setUp (s : LogState) (l : Option Level) : LogState :=
  let s1 : LogState := { s with console := some .info }
  match l with
  | none => s1
  | some l => setLevel s1 l

def ownResult : Outcome → CallResult
  | .returns => .returned
  | .raises => .raisedOwn
  | .interrupts => .raisedOwn      -- the body's own KeyboardInterrupt / SystemExit propagates

/-- what a decorated call shows: its result and the console level in force while the body ran -/
structure CallObs where
  result : CallResult
  during : Option Level
  deriving DecidableEq, Repr

/-- `wrap_verbose.inner_verbose` (repaired):
      if verbose is not None: current = get_level(); set_level(verbose)
      try: out = func(...)
      finally: if verbose is not None and current is not None: set_level(name(current))
      return out -/
def wrapVerbose (s : LogState) (v : Option Level) (o : Outcome) : LogState × CallObs :=
  match v with
  | none => (s, { result := ownResult o, during := s.console })
  | some tmp =>
    let current := s.console            -- get_level()
    let s1 := setLevel s tmp            -- set_level(level=tmp_level)
    -- body runs in s1; the `finally` clause runs on both outcomes
    let s2 := match current with
      | some c => setLevel s1 c
      | none => s1
    (s2, { result := ownResult o, during := s1.console })

/-- `inner_verbose` with a verbosity `v` that is not a level name (not None):
      current = get_level(); set_level(v)     -- for the handler named 'console': getattr(logging, v) / setLevel raise;
                                               -- no such handler: the loop body is never entered
      try: out = func(...)
      finally: if current is not None: set_level(name(current)) -/
def wrapVerboseBad (s : LogState) (o : Outcome) : LogState × CallObs :=
  match s.console with
  | some c => (s, { result := .raisedWrapper, during := some c })   -- raised before the `try`: nothing was changed
  | none => (s, { result := ownResult o, during := none })          -- accepted silently; nothing to restore

/-- the pinned `inner_verbose`: the restore is skipped when the body raises and indexes
    `logging._levelToName[None]` when there was no console handler -/
def wrapVerbosePinned (s : LogState) (v : Option Level) (o : Outcome) : LogState × CallObs :=
  match v with
  | none => (s, { result := ownResult o, during := s.console })
  | some tmp =>
    let current := s.console
    let s1 := setLevel s tmp
    match o with
    | .raises | .interrupts => (s1, { result := .raisedOwn, during := s1.console })
    | .returns =>
      match current with
      | some c => (setLevel s1 c, { result := .returned, during := s1.console })
      | none => (s1, { result := .raisedKeyError, during := s1.console })

/-- a `wrap_verbose` that puts the level back after a normal return and inside an `except Exception:`
    handler (re-raising), instead of in a `finally` clause (seeded change C20-5): an exit that is not an
    `Exception` bypasses the handler and leaves the per-call level in force.  Kept as a witness that the
    third outcome matters (`C20.except_only_restore_leaks_on_interrupt`). -/
def wrapVerboseExceptOnly (s : LogState) (v : Option Level) (o : Outcome) : LogState × CallObs :=
  match v with
  | none => (s, { result := ownResult o, during := s.console })
  | some tmp =>
    let current := s.console
    let s1 := setLevel s tmp
    let restored := match current with
      | some c => setLevel s1 c
      | none => s1
    match o with
    | .interrupts => (s1, { result := .raisedOwn, during := s1.console })
    | _ => (restored, { result := ownResult o, during := s1.console })

/-- one operation, parameterised by the wrapper in use -/
def stepWith (w : LogState → Option Level → Outcome → LogState × CallObs)
    (s : LogState) : Op → LogState × Option CallObs
  | .setUp l => (setUp s l, none)
  | .setLevel l => (setLevel s l, none)
  | .disable => ({ s with disabled := true }, none)
  | .enable => ({ s with disabled := false }, none)
  | .call v o => let r := w s v o; (r.1, some r.2)
  | .callBad o => let r := wrapVerboseBad s o; (r.1, some r.2)

def step : LogState → Op → LogState × Option CallObs := stepWith wrapVerbose
def stepPinned : LogState → Op → LogState × Option CallObs := stepWith wrapVerbosePinned
def stepExceptOnly : LogState → Op → LogState × Option CallObs := stepWith wrapVerboseExceptOnly

/-- final state of a history -/
def run (s : LogState) (ops : List Op) : LogState := ops.foldl (fun s op => (step s op).1) s

/-- the states of a history: the start state followed by the state after each operation -/
def traj (s : LogState) : List Op → List LogState
  | [] => [s]
  | op :: ops => s :: traj (step s op).1 ops

/-- what each operation of a history shows (none for non-call operations) -/
def observe (s : LogState) : List Op → List (Option CallObs)
  | [] => []
  | op :: ops => (step s op).2 :: observe (step s op).1 ops

/-- is a record of level `r` written to the console while the level in force is `during`? -/
def shown (s : LogState) (during : Option Level) (r : Level) : Bool :=
  !s.disabled && match during with
    | none => false
    | some l => decide (l.num ≤ r.num)

/-! ### protocol -/

/-- generic trace used by the driver: for each operation the state after it, the call observation
    and the `disabled` flag in force during it -/
def trace (st : LogState → Op → LogState × Option CallObs) (s : LogState) :
    List Op → List (LogState × Option CallObs × Bool)
  | [] => []
  | op :: ops => let r := st s op; (r.1, r.2, s.disabled) :: trace st r.1 ops

def parseLevel? : String → Option Level
  | "C" => some .critical | "E" => some .error | "W" => some .warning | "I" => some .info | "D" => some .debug
  | _ => none

def parseOptLevel? : String → Option (Option Level)
  | "N" => some none
  | s => (parseLevel? s).map some

def parseOpTok? (t : String) : Option Op :=
  match t.splitOn ":" with
  | ["su", l] => (parseOptLevel? l).map .setUp
  | ["sl", l] => (parseLevel? l).map .setLevel
  | ["dis"] => some .disable
  | ["en"] => some .enable
  | ["c", v, "r"] => (parseOptLevel? v).map (.call · .returns)
  | ["c", v, "x"] => (parseOptLevel? v).map (.call · .raises)
  | ["c", v, "i"] => (parseOptLevel? v).map (.call · .interrupts)
  | ["cb", "r"] => some (.callBad .returns)
  | ["cb", "x"] => some (.callBad .raises)
  | ["cb", "i"] => some (.callBad .interrupts)
  | _ => none

def fmtLevel : Option Level → String
  | none => "-1"
  | some l => toString l.num

def fmtResult : Option CallObs → String
  | none => "0"
  | some { result := .returned, .. } => "1"
  | some { result := .raisedOwn, .. } => "2"
  | some { result := .raisedKeyError, .. } => "3"
  | some { result := .raisedWrapper, .. } => "4"

def handle (o : Protocol.Op) : Option String :=
  match o.name with
  | "LOGRUN" => some <| Id.run do
      let some start := o.nat? "start" | return "bad-op"
      let some variant := o.str? "variant" | return "bad-op"
      let some opsStr := o.str? "ops" | return "bad-op"
      let toks := if opsStr = "-" then [] else opsStr.splitOn ","
      let some ops := toks.mapM parseOpTok? | return "bad-op"
      let s0 ← match start with
        | 0 => pure init
        | 1 => pure (setUp init none)
        | _ => return "bad-op"
      let st ← match variant with
        | "fixed" => pure step
        | "pinned" => pure stepPinned
        | "exceptonly" => pure stepExceptOnly
        | _ => return "bad-op"
      let tr := trace st s0 ops
      let levels := tr.map fun x => fmtLevel x.1.console
      let results := tr.map fun x => fmtResult x.2.1
      -- during a call: is the INFO record 'STARTED: …' / the DEBUG record 'Input data size' shown?
      let vis (r : Level) := tr.map fun x => match x.2.1 with
        | none => "0"
        | some c =>
          if c.result = .raisedWrapper then "0"      -- rejected before the body: no record of the call at all
          else Protocol.fmtBool (shown { console := none, disabled := x.2.2 } c.during r)
      let sp := " ".intercalate
      return s!"ok | {sp levels} | {sp results} | {sp (vis .info)} | {sp (vis .debug)}"
  | _ => none

end Logger
