/- EmdModel.Logger — (stub; filled in by the property that owns it) -/
import EmdModel.Protocol

namespace Logger

def handle (_o : Protocol.Op) : Option String := none

end Logger
