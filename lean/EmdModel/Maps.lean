/- EmdModel.Maps — (stub; filled in by the property that owns it) -/
import EmdModel.Protocol

namespace Maps

def handle (_o : Protocol.Op) : Option String := none

end Maps
