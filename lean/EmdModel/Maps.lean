/-
  EmdModel.Maps — model of the index maps of emd/_cycles_support.py and of the two
  constructors emd/cycles.py:get_subset_vector / get_chain_vector (C16).

  Four levels: samples, cycles, subset cycles, chains.  Three label vectors tie them
  together (`List Int`, -1 = "none"):

    cv : one entry per sample   -> cycle index
    sv : one entry per cycle    -> subset index
    ch : one entry per subset cycle -> chain index

  Lookups of the form `np.where(v == k)[0]` are `whereEq`; lookups of the form `v[i]`
  are `v[i]?` with the missing case reported as IndexError.  Functions that return
  `None` in Python return `Option`; functions that can raise return `Except Err`.
  Indices handed to the model are natural numbers (Python's negative indexing is not
  part of the modelled interface).
-/
import EmdModel.Protocol

namespace Maps

inductive Err where
  | indexError
  | typeError
  | valueError
  deriving DecidableEq, Repr

def Err.name : Err → String
  | .indexError => "IndexError"
  | .typeError => "TypeError"
  | .valueError => "ValueError"

/-! ## constructors -/

/-- get_subset_vector: running count of selected cycles, -1 for the others -/
def subsetFrom : Nat → List Bool → List Int
  | _, [] => []
  | c, true :: t => (c : Int) :: subsetFrom (c + 1) t
  | c, false :: t => -1 :: subsetFrom c t

def subsetVector (valids : List Bool) : List Int := subsetFrom 0 valids

/-- get_subset_vector on NUMERIC selection flags, as the loop reads them: `valids[ii] == 0` leaves -1,
    every other value (1 for the library's own 0/1 integer metrics such as `is_good`) takes the next
    subset index -/
def subsetFromFlags : Nat → List Int → List Int
  | _, [] => []
  | c, x :: t => if x = 0 then -1 :: subsetFromFlags c t else (c : Int) :: subsetFromFlags (c + 1) t

def subsetVectorFlags (flags : List Int) : List Int := subsetFromFlags 0 flags

/-- `np.where(v > -1)[0]`, positions counted from `off` -/
def selectedFrom : Nat → List Int → List Nat
  | _, [] => []
  | off, x :: t => if -1 < x then off :: selectedFrom (off + 1) t else selectedFrom (off + 1) t

def selected (sv : List Int) : List Nat := selectedFrom 0 sv

/-- the counting loop of get_chain_vector over the cycle indices of the subset;
    `prev` is the previous index, `count` the current chain number.  The third branch
    (difference ≤ 0) leaves the initial -1 in place, as the implementation would. -/
def chainFrom (count : Nat) (prev : Nat) : List Nat → List Int
  | [] => []
  | i :: t =>
    if i = prev + 1 then (count : Int) :: chainFrom count i t
    else if prev + 1 < i then ((count + 1 : Nat) : Int) :: chainFrom (count + 1) i t
    else -1 :: chainFrom count i t

/-- get_chain_vector: the first difference is defined to be 1, so the first subset cycle
    opens chain 0 -/
def chainVector (sv : List Int) : List Int :=
  match selected sv with
  | [] => []
  | i :: t => 0 :: chainFrom 0 i t

/-! ## lookups -/

/-- `np.where(v == k)[0]`, positions counted from `off` -/
def whereFrom (k : Int) : Nat → List Int → List Nat
  | _, [] => []
  | off, x :: t => if x = k then off :: whereFrom k (off + 1) t else whereFrom k (off + 1) t

def whereEq (v : List Int) (k : Nat) : List Nat := whereFrom (k : Int) 0 v

/-- `x if x > -1 else None` -/
def label? (l : Int) : Option Nat := if -1 < l then some l.toNat else none

/-- `v[i]`, then `x if x > -1 else None` -/
def lookupLabel (v : List Int) (i : Nat) : Except Err (Option Nat) :=
  match v[i]? with
  | none => .error .indexError
  | some l => .ok (label? l)

/-! ## the twelve maps -/

def mapCycleToSamples (cv : List Int) (k : Nat) : List Nat := whereEq cv k

def mapSampleToCycle (cv : List Int) (i : Nat) : Except Err (Option Nat) := lookupLabel cv i

def mapSubsetToCycle (sv : List Int) (j : Nat) : List Nat := whereEq sv j

def mapCycleToSubset (sv : List Int) (k : Nat) : Except Err (Option Nat) := lookupLabel sv k

/-- `cycle_vect == all_cycle_ind` compares against the array of cycles carrying subset index j.
    One cycle: an ordinary lookup.  No cycle (index beyond the subset): numpy broadcasts an
    empty array against recordings of length ≤ 1 (empty result) and refuses longer ones.
    Several cycles cannot happen for a subset vector (every index names at most one cycle);
    reported as ValueError. -/
def mapSubsetToSample (sv cv : List Int) (j : Nat) : Except Err (List Nat) :=
  match mapSubsetToCycle sv j with
  | [k] => .ok (mapCycleToSamples cv k)
  | [] => if cv.length ≤ 1 then .ok [] else .error .valueError
  | _ :: _ :: _ => .error .valueError

def mapSampleToSubset (sv cv : List Int) (i : Nat) : Except Err (Option Nat) :=
  match mapSampleToCycle cv i with
  | .error e => .error e
  | .ok none => .ok none
  | .ok (some k) => mapCycleToSubset sv k

def mapChainToSubset (ch : List Int) (c : Nat) : List Nat := whereEq ch c

/-- returns the raw entry of the chain vector -/
def mapSubsetToChain (ch : List Int) (j : Nat) : Except Err Int :=
  match ch[j]? with
  | none => .error .indexError
  | some l => .ok l

def mapCycleToChain (ch sv : List Int) (k : Nat) : Except Err (Option Int) :=
  match mapCycleToSubset sv k with
  | .error e => .error e
  | .ok none => .ok none
  | .ok (some j) =>
    match mapSubsetToChain ch j with
    | .error e => .error e
    | .ok c => .ok (some c)

/-- `np.squeeze` of a list of one-element arrays, made 1-d again -/
def singletons? : List (List Nat) → Option (List Nat)
  | [] => some []
  | [k] :: t => (singletons? t).map (k :: ·)
  | _ :: _ => none

def mapChainToCycle (ch sv : List Int) (c : Nat) : Except Err (List Nat) :=
  match singletons? ((mapChainToSubset ch c).map (mapSubsetToCycle sv)) with
  | some ks => .ok ks
  | none => .error .valueError

/-- concatenation of per-subset results, first error wins -/
def collect : List (Except Err (List Nat)) → Except Err (List Nat)
  | [] => .ok []
  | .error e :: _ => .error e
  | .ok a :: t =>
    match collect t with
    | .ok r => .ok (a ++ r)
    | .error e => .error e

/-- `np.hstack` of an empty list raises -/
def mapChainToSamples (ch sv cv : List Int) (c : Nat) : Except Err (List Nat) :=
  match mapChainToSubset ch c with
  | [] => .error .valueError
  | js => collect (js.map (mapSubsetToSample sv cv))

def mapSampleToChain (ch sv cv : List Int) (i : Nat) : Except Err (Option Int) :=
  match mapSampleToSubset sv cv i with
  | .error e => .error e
  | .ok none => .ok none
  | .ok (some j) =>
    match mapSubsetToChain ch j with
    | .error e => .error e
    | .ok c => .ok (some c)

/-! ## the six projections (values may be NaN = `none`) -/

abbrev Vals := List (Option Rat)

/-- `out[inds] = v` -/
def assignAt (out : Vals) (inds : List Nat) (v : Option Rat) : Vals :=
  inds.foldl (fun o i => o.set i v) out

/-- `out = nan(n); for ii in range(len(vals)): out[lookup(ii)] = vals[ii]` -/
def projectLoop (lookup : Nat → List Nat) (n : Nat) (vals : Vals) : Vals :=
  (List.range vals.length).foldl (fun out k => assignAt out (lookup k) (vals[k]?).join)
    (List.replicate n none)

def projectCyclesToSamples (vals : Vals) (cv : List Int) : Vals :=
  projectLoop (mapCycleToSamples cv) cv.length vals

def projectSubsetToCycles (vals : Vals) (sv : List Int) : Vals :=
  projectLoop (mapSubsetToCycle sv) sv.length vals

def projectSubsetToSamples (vals : Vals) (sv cv : List Int) : Vals :=
  projectLoop (mapCycleToSamples cv) cv.length (projectSubsetToCycles vals sv)

def projectChainToSubset (vals : Vals) (ch : List Int) : Vals :=
  projectLoop (mapChainToSubset ch) ch.length vals

def projectChainToCycles (vals : Vals) (ch sv : List Int) : Vals :=
  projectSubsetToCycles (projectChainToSubset vals ch) sv

def projectChainToSamples (vals : Vals) (ch sv cv : List Int) : Vals :=
  projectCyclesToSamples (projectChainToCycles vals ch sv) cv

/-! ## sizes, as the implementation computes them (`max + 1`) -/

def maxLabel (v : List Int) : Int := v.foldl max (-1)

/-- `np.max(v) + 1` for a label vector (0 when nothing is labelled) -/
def nLabels (v : List Int) : Nat := (maxLabel v + 1).toNat


/-! ## protocol -/

open Protocol

def fmtNatList (l : List Nat) : String :=
  if l.isEmpty then "-" else ",".intercalate (l.map toString)

def fmtExList : Except Err (List Nat) → String
  | .ok l => fmtNatList l
  | .error e => "E:" ++ e.name

def fmtExOptNat : Except Err (Option Nat) → String
  | .ok (some k) => toString k
  | .ok none => "none"
  | .error e => "E:" ++ e.name

def fmtExOptInt : Except Err (Option Int) → String
  | .ok (some k) => toString k
  | .ok none => "none"
  | .error e => "E:" ++ e.name

def fmtExInt : Except Err Int → String
  | .ok k => toString k
  | .error e => "E:" ++ e.name

def joinW (l : List String) : String := " ".intercalate l

def optVals (v : List Rat) : Vals := v.map some

/-- MAPS [flags=int] | cv | valids | vals per cycle | vals per subset cycle | vals per chain
    answers every map on every index 0..size (one past the end included) and the six
    projections. -/
def handle (o : Op) : Option String :=
  match o.name with
  | "MAPS" => some <| Id.run do
      let some cvr := o.vec? 0 | return "bad-op"
      let some cv := toInts? cvr | return "bad-op"
      let some vr := o.vec? 1 | return "bad-op"
      -- `flags=int`: the selection is a vector of integer flags (0 = unselected), read by `subsetVectorFlags`
      let some sv := (match o.str? "flags" with
        | none => (toBools? vr).map subsetVector
        | some "int" => (toInts? vr).map subsetVectorFlags
        | some _ => none) | return "bad-op"
      let some vc := o.vec? 2 | return "bad-op"
      let some vs := o.vec? 3 | return "bad-op"
      let some vh := o.vec? 4 | return "bad-op"
      let ch := chainVector sv
      let n := cv.length
      let K := sv.length
      let S := nLabels sv
      let C := nLabels ch
      let upto (m : Nat) := List.range (m + 1)
      let parts : List String := [
        fmtInts sv, fmtInts ch,
        joinW ((upto n).map fun i => fmtExOptNat (mapSampleToCycle cv i)),
        joinW ((upto K).map fun k => fmtNatList (mapCycleToSamples cv k)),
        joinW ((upto S).map fun j => fmtNatList (mapSubsetToCycle sv j)),
        joinW ((upto K).map fun k => fmtExOptNat (mapCycleToSubset sv k)),
        joinW ((upto S).map fun j => fmtExList (mapSubsetToSample sv cv j)),
        joinW ((upto n).map fun i => fmtExOptNat (mapSampleToSubset sv cv i)),
        joinW ((upto C).map fun c => fmtNatList (mapChainToSubset ch c)),
        joinW ((upto S).map fun j => fmtExInt (mapSubsetToChain ch j)),
        joinW ((upto K).map fun k => fmtExOptInt (mapCycleToChain ch sv k)),
        joinW ((upto C).map fun c => fmtExList (mapChainToCycle ch sv c)),
        joinW ((upto C).map fun c => fmtExList (mapChainToSamples ch sv cv c)),
        joinW ((upto n).map fun i => fmtExOptInt (mapSampleToChain ch sv cv i)),
        fmtOptRats (projectCyclesToSamples (optVals vc) cv),
        fmtOptRats (projectSubsetToCycles (optVals vs) sv),
        fmtOptRats (projectSubsetToSamples (optVals vs) sv cv),
        fmtOptRats (projectChainToSubset (optVals vh) ch),
        fmtOptRats (projectChainToCycles (optVals vh) ch sv),
        fmtOptRats (projectChainToSamples (optVals vh) ch sv cv)]
      return s!"ok S={S} C={C} | " ++ " | ".intercalate parts
  | _ => none

end Maps
