/-
  EmdModel.Spectra — model of emd/spectra.py: hilberthuang (dense + sparse),
  hilberthuang_1d, holospectrum, and the bin bookkeeping around them (C10, C11).

  What the code does, and how it is mirrored here:

  * `np.digitize(v, edges)` for increasing edges and `right=False` is the number
    of edges ≤ v (`digitize`); a NaN frequency sorts after every edge
    (`digitizeF none = edges.length`).  Frequencies are `Option Rat`
    (`none` = NaN); amplitudes are finite rationals.
  * `hilberthuang`: `yinds = digitize − 1`, samples with `yinds < 0` or
    `yinds ≥ len(edges) − 1` are dropped (`binIdx`; the pinned tree clamped
    negative indices into bin 0 instead — `binIdxPinned`, DESIGN.md §9-D8),
    the survivors become COO triplets `(bin, t, weight)` in C order
    (`hhtCoo`), and `toarray()` scatter-adds them into a zero matrix, duplicates
    accumulating (`toDense`).
  * `hilberthuang_1d`: out-of-range frequencies are overwritten with NaN
    (`nanOut`), everything is digitised, and for each bin `ii = b+1` and each IMF
    column the weights of the samples with `finds == ii` are summed (`hht1d`).
  * `holospectrum`: both frequencies are digitised *without* subtracting one
    (0 = below, len = at/above the last edge), folded into one sparse column
    `d1 + d2·(L1+1)`, scatter-added into a `[T × (L1+1)(L2+1)]` matrix, optionally
    summed / averaged over time, reshaped C-order to `(L2+1, L1+1)` and trimmed
    `[1:-1, 1:-1]`.

  scipy's `coo_matrix → toarray / sum(axis=0) / mean(axis=0)` and numpy's
  `reshape` are modelled by what they do to indices (scatter-add, column sums,
  C-order chunking); no numeric library routine is re-implemented.
-/
import EmdModel.Protocol

namespace Spectra

/-- an instantaneous frequency: `none` is NaN -/
abbrev Freq := Option Rat

/-- `np.digitize(v, edges)` for increasing `edges`, `right=False` -/
def digitize (e : List Rat) (v : Rat) : Nat := e.countP (· ≤ v)

/-- NaN sorts after every edge -/
def digitizeF (e : List Rat) : Freq → Nat
  | none => e.length
  | some v => digitize e v

def sortedLe : List Rat → Bool
  | a :: b :: t => decide (a ≤ b) && sortedLe (b :: t)
  | _ => true

def sortedGe : List Rat → Bool
  | a :: b :: t => decide (b ≤ a) && sortedGe (b :: t)
  | _ => true

/-- `np.digitize(v, edges)` for DEcreasing `edges`, `right=False`: the number of edges > v
    (`edges[i-1] > v ≥ edges[i]`; numpy computes `len − searchsorted(edges[::-1], v, 'right')`) -/
def digitizeDec (e : List Rat) (v : Rat) : Nat := e.countP (v < ·)

/-- on decreasing edges NaN goes to index 0 (it sorts after every edge of the reversed vector) -/
def digitizeDecF (e : List Rat) : Freq → Nat
  | none => 0
  | some v => digitizeDec e v

/-- `np.digitize` on a monotonic edge vector of either orientation; numpy tests for non-decreasing
    first, so a constant vector counts as increasing.  (Non-monotonic edges: ValueError, see `handle`.) -/
def digitizeM (e : List Rat) (f : Freq) : Nat := if sortedLe e then digitizeF e f else digitizeDecF e f

/-- amplitude, squared in energy mode -/
def weight (energy : Bool) (a : Rat) : Rat := if energy then a * a else a

/-- one COO entry -/
structure Trip where
  row : Nat
  col : Nat
  val : Rat

/-- triplets of all time rows in C order; `mk t r` are the triplets of time row `t` -/
def cooFrom {ρ : Type} (mk : Nat → ρ → List Trip) : Nat → List ρ → List Trip
  | _, [] => []
  | t, r :: rs => mk t r ++ cooFrom mk (t + 1) rs

def zerosMat (nr nc : Nat) : List (List Rat) := List.replicate nr (List.replicate nc 0)

/-- `M[row, col] += val` (a no-op outside the matrix; scipy raises there, see `inShape`) -/
def addAt (m : List (List Rat)) (x : Trip) : List (List Rat) :=
  m.modify x.row fun r => r.modify x.col (· + x.val)

/-- `coo_matrix(...).toarray()`: scatter-add, duplicates accumulate -/
def toDense (nr nc : Nat) (ts : List Trip) : List (List Rat) := ts.foldl addAt (zerosMat nr nc)

/-- `coo_matrix` rejects entries outside its shape with ValueError -/
def inShape (nr nc : Nat) (ts : List Trip) : Bool := ts.all fun x => x.row < nr && x.col < nc

/-! ### hilberthuang -/

/-- the bin of one sample in `hilberthuang`: `digitize − 1`, kept iff `0 ≤ · < len(edges) − 1` -/
def binIdx (e : List Rat) (f : Freq) : Option Nat :=
  let y : Int := (digitizeF e f : Int) - 1
  if 0 ≤ y ∧ y < (e.length : Int) - 1 then some y.toNat else none

/-- the pinned tree (before the D8 repair): `yinds[yinds < 0] = 0`, kept iff
    `yinds < len(edges) − 1  or  yinds == 0` -/
def binIdxPinned (e : List Rat) (f : Freq) : Option Nat :=
  let y0 : Int := (digitizeF e f : Int) - 1
  let y : Int := if y0 < 0 then 0 else y0
  if y < (e.length : Int) - 1 ∨ y = 0 then some y.toNat else none

/-- one time row: frequencies and amplitudes of all IMFs -/
abbrev HRow := List Freq × List Rat

def hhtRowTripsWith (bin : Freq → Option Nat) (energy : Bool) (t : Nat) (r : HRow) : List Trip :=
  (List.zip r.1 r.2).filterMap fun fa => (bin fa.1).map fun b => ⟨b, t, weight energy fa.2⟩

def hhtRowTrips (e : List Rat) := hhtRowTripsWith (binIdx e)

/-- the sparse (COO) form returned with `return_sparse=True`: entries in C order of the samples -/
def hhtCoo (e : List Rat) (energy : Bool) (F : List (List Freq)) (A : List (List Rat)) : List Trip :=
  cooFrom (hhtRowTrips e energy) 0 (List.zip F A)

/-- the dense form `[bins × time]` -/
def hhtDense (e : List Rat) (energy : Bool) (F : List (List Freq)) (A : List (List Rat)) : List (List Rat) :=
  toDense (e.length - 1) F.length (hhtCoo e energy F A)

def hhtCooPinned (e : List Rat) (energy : Bool) (F : List (List Freq)) (A : List (List Rat)) : List Trip :=
  cooFrom (hhtRowTripsWith (binIdxPinned e) energy) 0 (List.zip F A)

def hhtDensePinned (e : List Rat) (energy : Bool) (F : List (List Freq)) (A : List (List Rat)) :=
  toDense (e.length - 1) F.length (hhtCooPinned e energy F A)

/-! ### hilberthuang_1d -/

/-- `infr[(infr < edges[0]) + (infr > edges[-1])] = nan` -/
def nanOut (e : List Rat) : Freq → Freq
  | none => none
  | some f =>
    match e.head?, e.getLast? with
    | some lo, some hi => if f < lo ∨ hi < f then none else some f
    | _, _ => some f

/-- `nansum(w[finds[:, j] == b+1, j])` -/
def hht1dCell (e : List Rat) (energy : Bool) (rows : List HRow) (b j : Nat) : Rat :=
  (rows.map fun r =>
    match (List.zip r.1 r.2)[j]? with
    | some fa => if digitizeF e (nanOut e fa.1) = b + 1 then weight energy fa.2 else 0
    | none => 0).sum

/-- the 1-D spectrum `[bins × IMFs]` -/
def hht1d (e : List Rat) (energy : Bool) (ncols : Nat) (F : List (List Freq)) (A : List (List Rat)) :
    List (List Rat) :=
  (List.range (e.length - 1)).map fun b =>
    (List.range ncols).map fun j => hht1dCell e energy (List.zip F A) b j

/-! ### holospectrum -/

/-- one time row: first-level frequencies `[M]`, second-level frequencies and amplitudes `[M][K]` -/
structure HoloRow where
  f1 : List Freq
  f2 : List (List Freq)
  a2 : List (List Rat)

/-- `infr_inds + IA_inds * fold_dim1` with `fold_dim1 = len(freq_edges) + 1` -/
def foldIdx (L1 d1 d2 : Nat) : Nat := d1 + d2 * (L1 + 1)

def holoRowTrips (e1 e2 : List Rat) (energy : Bool) (t : Nat) (r : HoloRow) : List Trip :=
  (List.zip r.f1 (List.zip r.f2 r.a2)).flatMap fun x =>
    (List.zip x.2.1 x.2.2).map fun fa =>
      ⟨t, foldIdx e1.length (digitizeM e1 x.1) (digitizeM e2 fa.1), weight energy fa.2⟩

def holoCoo (e1 e2 : List Rat) (energy : Bool) (rows : List HoloRow) : List Trip :=
  cooFrom (holoRowTrips e1 e2 energy) 0 rows

def holoCols (e1 e2 : List Rat) : Nat := (e1.length + 1) * (e2.length + 1)

/-- the `[T × (L1+1)(L2+1)]` matrix -/
def holoFlat (e1 e2 : List Rat) (energy : Bool) (rows : List HoloRow) : List (List Rat) :=
  toDense rows.length (holoCols e1 e2) (holoCoo e1 e2 energy rows)

/-- C-order `reshape(nr, nc)` of a vector -/
def reshape2 (nr nc : Nat) (v : List Rat) : List (List Rat) :=
  (List.range nr).map fun i => (v.drop (i * nc)).take nc

/-- `x[1:-1]` -/
def trim {α : Type} (l : List α) : List α := (l.drop 1).dropLast

/-- `x[1:-1, 1:-1]` -/
def trim2 (m : List (List Rat)) : List (List Rat) := trim (m.map trim)

def unfoldTrim (e1 e2 : List Rat) (v : List Rat) : List (List Rat) :=
  trim2 (reshape2 (e2.length + 1) (e1.length + 1) v)

/-- `squash_time=False`: `[time × AM bins × carrier bins]` -/
def holo3d (e1 e2 : List Rat) (energy : Bool) (rows : List HoloRow) : List (List (List Rat)) :=
  (holoFlat e1 e2 energy rows).map (unfoldTrim e1 e2)

/-- `sparse.sum(axis=0)` -/
def colSums (nc : Nat) (m : List (List Rat)) : List Rat :=
  (List.range nc).map fun c => (m.map fun r => r[c]?.getD 0).sum

/-- `squash_time='sum'` -/
def holoSum (e1 e2 : List Rat) (energy : Bool) (rows : List HoloRow) : List (List Rat) :=
  unfoldTrim e1 e2 (colSums (holoCols e1 e2) (holoFlat e1 e2 energy rows))

/-- `squash_time='mean'` -/
def holoMean (e1 e2 : List Rat) (energy : Bool) (rows : List HoloRow) : List (List Rat) :=
  unfoldTrim e1 e2 ((colSums (holoCols e1 e2) (holoFlat e1 e2 energy rows)).map (· / (rows.length : Rat)))

/-- the value of `squash_time`: `False`, `'sum'`, `'mean'`, or anything else (`True`, `0`, `None`,
    `np.False_`, `'Sum'`, …: the code tests `squash_time is False`, `== 'mean'`, `== 'sum'`) -/
inductive Squash where
  | full | sum | mean | other
  deriving DecidableEq, Repr

inductive HoloOut where
  | full (m : List (List (List Rat)))
  | flat (m : List (List Rat))

inductive HoloErr where
  | typeError | zeroDivision
  deriving DecidableEq, Repr

/-- the `squash_time` dispatch of `holospectrum` once the sparse matrix is built: an unrecognised value
    falls through every branch and the final `holo[1:-1, 1:-1]` subscripts a `coo_matrix` (TypeError);
    the sparse mean over an empty time axis divides by zero (ZeroDivisionError). -/
def holoOut (sq : Squash) (e1 e2 : List Rat) (energy : Bool) (rows : List HoloRow) : Except HoloErr HoloOut :=
  match sq with
  | .full => .ok (.full (holo3d e1 e2 energy rows))
  | .sum => .ok (.flat (holoSum e1 e2 energy rows))
  | .mean => if rows.length = 0 then .error .zeroDivision else .ok (.flat (holoMean e1 e2 energy rows))
  | .other => .error .typeError

/-! ### bin bookkeeping -/

/-- `define_hist_bins`: centre of each bin -/
def centres : List Rat → List Rat
  | a :: b :: t => (a + b) / 2 :: centres (b :: t)
  | _ => []

/-- `define_hist_bins_from_data(nbins=None, mode='sqrt')`: `int(sqrt(n))` -/
def sqrtBins (n : Nat) : Nat := Nat.sqrt n

/-! ### shapes (emd.support.ensure_2d / ensure_equal_dims as used by the spectra) -/

/-- `ensure_2d`: a vector gets a trailing singleton dimension; anything else is untouched -/
def ensure2d (s : List Nat) : List Nat := if s.length = 1 then s ++ [1] else s

/-- `ensure_equal_dims(dim=None)`: compare the leading `ndim(first)` dimensions of all inputs;
    `none` = IndexError (an input with fewer dimensions than the first) -/
def equalDimsAll (ss : List (List Nat)) : Option Bool :=
  match ss with
  | [] => none                               -- to_check[0].ndim raises IndexError
  | s0 :: rest =>
    if rest.any (·.length < s0.length) then none
    else some (rest.all fun s => s.take s0.length == s0)

/-- `ensure_equal_dims(dim=d)`; `none` = IndexError -/
def equalDimsAt (ss : List (List Nat)) (d : Nat) : Option Bool :=
  match ss.mapM (·[d]?) with
  | none => none
  | some [] => some true
  | some (a :: rest) => some (rest.all (· == a))

/-! ### protocol -/

open Protocol

def chunk (n : Nat) : Nat → List α → List (List α)
  | 0, _ => []
  | k + 1, l => l.take n :: chunk n k (l.drop n)

/-- values + NaN mask → frequencies -/
def mkFreqs (vals : List Rat) (nan : List Rat) : Option (List Freq) :=
  if vals.length ≠ nan.length then none
  else (List.zip vals nan).mapM fun (v, m) =>
    if m = 0 then some (some v) else if m = 1 then some none else none

def fmtMat (m : List (List Rat)) : String := fmtVec m.flatten

def parseMode (o : Op) : Option Bool :=
  match o.str? "mode" with
  | some "energy" => some true
  | some "amplitude" => some false
  | _ => none

/-- `np.digitize` accepts both orientations (holospectrum is modelled on both: `digitizeM`) -/
def edgesProblemM (e : List Rat) : Option String :=
  if sortedLe e || sortedGe e then none else some "err ValueError"

def parseSquash : String → Option Squash
  | "none" => some .full | "sum" => some .sum | "mean" => some .mean | "other" => some .other
  | _ => none

/-- classification of an edge vector for `np.digitize`: `ok`, or the answer to give -/
def edgesProblem (e : List Rat) : Option String :=
  if sortedLe e then none
  else if sortedGe e then some "bad-op"      -- decreasing bins: outside this model
  else some "err ValueError"

def handle (o : Op) : Option String :=
  match o.name with
  | "DIGITIZE" => some <| Id.run do
      let some e := o.vec? 0 | return "bad-op"
      let some v := o.vec? 1 | return "bad-op"
      let some n := o.vec? 2 | return "bad-op"
      let some fs := mkFreqs v n | return "bad-op"
      if let some p := edgesProblem e then return p
      return s!"ok | {fmtNats (fs.map (digitizeF e))}"
  | "HHT" | "HHTPIN" => some <| Id.run do
      -- | edges | shape(infr) | shape(inam) | infr values | infr NaN mask | inam values
      let some energy := parseMode o | return "bad-op"
      let some e := o.vec? 0 | return "bad-op"
      let some sf := (o.vec? 1) >>= toNats? | return "bad-op"
      let some sa := (o.vec? 2) >>= toNats? | return "bad-op"
      let some fv := o.vec? 3 | return "bad-op"
      let some fn := o.vec? 4 | return "bad-op"
      let some av := o.vec? 5 | return "bad-op"
      let some fs := mkFreqs fv fn | return "bad-op"
      if sf.length = 0 ∨ sf.length > 2 ∨ sa.length = 0 ∨ sa.length > 2 then return "bad-op"
      if fs.length ≠ sf.foldl (· * ·) 1 ∨ av.length ≠ sa.foldl (· * ·) 1 then return "bad-op"
      let sf := ensure2d sf
      let sa := ensure2d sa
      match equalDimsAll [sf, sa] with
      | none => return "err IndexError"
      | some false => return "err ValueError"
      | some true => pure ()
      if e.length = 0 then return "err IndexError"      -- freq_edges[0]
      if let some p := edgesProblem e then return p
      let T := sf[0]!
      let M := sf[1]!
      let F := chunk M T fs
      let A := chunk M T av
      let coo := if o.name = "HHT" then hhtCoo e energy F A else hhtCooPinned e energy F A
      let nb := e.length - 1
      if !inShape nb T coo then return "err ValueError"
      let dense := toDense nb T coo
      return s!"ok nb={nb} T={T} nnz={coo.length} | {fmtMat dense} | {fmtNats (coo.map (·.row))} | {fmtNats (coo.map (·.col))} | {fmtVec (coo.map (·.val))}"
  | "HHT1D" => some <| Id.run do
      -- | edges | shape(infr) | infr values | infr NaN mask | inam values   (inam has the shape of infr)
      let some energy := parseMode o | return "bad-op"
      let some e := o.vec? 0 | return "bad-op"
      let some sf := (o.vec? 1) >>= toNats? | return "bad-op"
      let some fv := o.vec? 2 | return "bad-op"
      let some fn := o.vec? 3 | return "bad-op"
      let some av := o.vec? 4 | return "bad-op"
      let some fs := mkFreqs fv fn | return "bad-op"
      if sf.length = 0 ∨ sf.length > 2 then return "bad-op"
      if fs.length ≠ sf.foldl (· * ·) 1 ∨ av.length ≠ fs.length then return "bad-op"
      if sf.length = 1 then return "err IndexError"     -- infr.shape[1]
      if e.length = 0 then return "err ValueError"      -- np.zeros((-1, M))
      if let some p := edgesProblem e then return p
      let T := sf[0]!
      let M := sf[1]!
      let spec := hht1d e energy M (chunk M T fs) (chunk M T av)
      return s!"ok nb={e.length - 1} M={M} | {fmtMat spec}"
  | "HOLO" | "HOLOCOO" => some <| Id.run do
      -- | e1 | e2 | shape(infr) | shape(infr2) | shape(inam2) | infr | nan | infr2 | nan | inam2
      -- HOLOCOO answers with the sparse entries `holoCoo` (one per sample: time row, folded column, weight)
      -- instead of the unfolded array: the compact form for bin sets whose full output has ~10^5 cells.
      -- By `holo3d_eq` / `C11.holo_sum_eq` / `C11.holo_mean_eq` cell [t][a][c] of the full output is the sum of the
      -- entries with row t and column `foldIdx L1 (c+1) (a+1)`, and the squashed outputs are its time sum / mean.
      let some energy := parseMode o | return "bad-op"
      let some squash := o.str? "squash" | return "bad-op"
      let some e1 := o.vec? 0 | return "bad-op"
      let some e2 := o.vec? 1 | return "bad-op"
      let some s1 := (o.vec? 2) >>= toNats? | return "bad-op"
      let some s2 := (o.vec? 3) >>= toNats? | return "bad-op"
      let some s3 := (o.vec? 4) >>= toNats? | return "bad-op"
      let some f1v := o.vec? 5 | return "bad-op"
      let some f1n := o.vec? 6 | return "bad-op"
      let some f2v := o.vec? 7 | return "bad-op"
      let some f2n := o.vec? 8 | return "bad-op"
      let some a2 := o.vec? 9 | return "bad-op"
      let some f1 := mkFreqs f1v f1n | return "bad-op"
      let some f2 := mkFreqs f2v f2n | return "bad-op"
      let some sq := parseSquash squash | return "bad-op"
      if s1.length = 0 ∨ s1.length > 2 ∨ s2.length = 0 ∨ s2.length > 3 ∨ s3.length = 0 ∨ s3.length > 3 then
        return "bad-op"
      if f1.length ≠ s1.foldl (· * ·) 1 ∨ f2.length ≠ s2.foldl (· * ·) 1 ∨ a2.length ≠ s3.foldl (· * ·) 1 then
        return "bad-op"
      let s1 := ensure2d s1
      let s2 := ensure2d s2
      let s3 := ensure2d s3
      match equalDimsAt [s1, s2, s3] 0 with
      | none => return "err IndexError"
      | some false => return "err ValueError"
      | some true => pure ()
      match equalDimsAt [s1, s2, s3] 1 with
      | none => return "err IndexError"
      | some false => return "err ValueError"
      | some true => pure ()
      if s2.length < 3 then return "err IndexError"      -- infr2.shape[2]
      if e1.length = 0 ∨ e2.length = 0 then return "err IndexError"   -- freq_edges[0]
      if let some p := edgesProblemM e2 then return p
      if let some p := edgesProblemM e1 then return p
      let T := s1[0]!
      let M := s1[1]!
      let K := s2[2]!
      -- coo_matrix: data (inam2.reshape(-1)) and coordinates (T*M*K) must have the same length
      if a2.length ≠ T * M * K then return "err ValueError"
      let F1 := chunk M T f1
      let F2 := (chunk (M * K) T f2).map (chunk K M)
      let A2 := (chunk (M * K) T a2).map (chunk K M)
      let rows := (List.zip F1 (List.zip F2 A2)).map fun x => (⟨x.1, x.2.1, x.2.2⟩ : HoloRow)
      let na := e2.length - 1
      let nc := e1.length - 1
      if o.name = "HOLOCOO" then
        let coo := holoCoo e1 e2 energy rows
        if !inShape T (holoCols e1 e2) coo then return "err ValueError"
        return s!"ok T={T} na={na} nc={nc} L1={e1.length} nnz={coo.length} | {fmtNats (coo.map (·.row))} | {fmtNats (coo.map (·.col))} | {fmtVec (coo.map (·.val))}"
      -- (every sparse entry is inside the matrix: C11.holo_sparse_in_shape; rows.length = T here: `chunk M T` has T entries)
      match holoOut sq e1 e2 energy rows with
      | .error .typeError => return "err TypeError"
      | .error .zeroDivision => return "err ZeroDivisionError"
      | .ok (.full m) => return s!"ok T={T} na={na} nc={nc} | {fmtVec (m.map List.flatten).flatten}"
      | .ok (.flat m) => return s!"ok na={na} nc={nc} | {fmtMat m}"
  | "CENTRES" => some <| Id.run do
      let some e := o.vec? 0 | return "bad-op"
      return s!"ok n={(centres e).length} | {fmtVec (centres e)}"
  | "SQRTBINS" => some <| Id.run do
      let some n := o.nat? "n" | return "bad-op"
      return s!"ok nbins={sqrtBins n}"
  | _ => none

end Spectra
