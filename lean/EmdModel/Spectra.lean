/- EmdModel.Spectra — (stub; filled in by the property that owns it) -/
import EmdModel.Protocol

namespace Spectra

def handle (_o : Protocol.Op) : Option String := none

end Spectra
