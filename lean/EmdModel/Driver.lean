/-
  EmdModel.Driver — dispatch one protocol line to the model.
  Each model module contributes `handle : Protocol.Op → Option String`
  (returns `none` when the op name is not its own).
-/
import EmdModel.Protocol
import EmdModel.Cycles
import EmdModel.Extrema
import EmdModel.Sift
import EmdModel.Mask
import EmdModel.Ensemble
import EmdModel.Options
import EmdModel.Phase
import EmdModel.Spectra
import EmdModel.CycleStats
import EmdModel.Container
import EmdModel.Maps
import EmdModel.Kdt
import EmdModel.Config
import EmdModel.Support
import EmdModel.Logger

namespace Driver
open Protocol

def handlers : List (Op → Option String) :=
  [Cycles.handle, Extrema.handle, Sift.handle, Mask.handle, Ensemble.handle, Options.handle, Phase.handle, Spectra.handle, CycleStats.handle, Container.handle, Maps.handle, Kdt.handle, Config.handle, Support.handle, Logger.handle]

def answer (line : String) : String :=
  match parseOp? line with
  | none => "bad-op"
  | some op =>
    match handlers.findSome? (· op) with
    | some r => r
    | none => "bad-op"

end Driver
