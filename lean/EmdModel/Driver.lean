/-
  EmdModel.Driver — dispatch one protocol line to the model.
  Each model module contributes `handle : Protocol.Op → Option String`
  (returns `none` when the op name is not its own).
-/
import EmdModel.Protocol
import EmdModel.Cycles

namespace Driver
open Protocol

def handlers : List (Op → Option String) :=
  [Cycles.handle]

def answer (line : String) : String :=
  match parseOp? line with
  | none => "bad-op"
  | some op =>
    match handlers.findSome? (· op) with
    | some r => r
    | none => "bad-op"

end Driver
