/- EmdModel.Config — (stub; filled in by the property that owns it) -/
import EmdModel.Protocol

namespace Config

def handle (_o : Protocol.Op) : Option String := none

end Config
