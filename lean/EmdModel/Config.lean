/-
  EmdModel.Config — model of `emd.sift.SiftConfig`, `get_config`, `_get_function_opts`,
  `_array_or_tuple_to_list` (property C18).

  * `Tree`            : a Python option value — scalar | list/tuple/ndarray | dict (ordered, str keys)
  * `keyTransform`    : `SiftConfig.__keytransform__` (split on '/', at most three levels)
  * `cfgGet/Set/Del`  : `SiftConfig.__getitem__/__setitem__/__delitem__` written out level by level
                        exactly like the code; `getPath/setPath/delPath` are plain nested indexing
  * `Scalar`          : None | bool | int | float | str, and numpy scalars (`npbool`, `npint dtype`, `npnum dtype`)
  * `toSafe`          : `_array_or_tuple_to_list` (ndarray → tolist(), tuple → list, through dicts only; numpy
                        scalars → `.item()`, also inside lists / tuples / dicts therein: `itemize`);
                        `toSafeV1` is the routine before that repair (D38)
  * `yamlSafe`        : no ndarray and no numpy scalar anywhere = what PyYAML's FullLoader reads back
  * `Alias`           : a two-level heap stating what `get_func()`'s shallow copy shares with the live config
  * `Codec`           : the YAML library as an oracle (`dump/load`, `dump_all/load_all`)
  * `toYamlFile/fromYamlFile`, `toYamlText/fromYamlStream`, `getFunc`, `getConfig`

  Keys and strings are `List Char` so that `str.split('/')` is a structural function we can reason about.
  Python aliasing (two keys holding the *same* dict object) has no counterpart in this functional
  model; the harness never stores one object under two keys.
-/
import EmdModel.Protocol

namespace Config

abbrev Key := List Char

inductive Scalar
  | none
  | bool (b : Bool)
  | int (i : Int)
  | num (r : Rat)          -- a Python float (exact value)
  | str (s : Key)
  -- numpy scalars stored directly as option values (`np.bool_`, `np.int64`/`np.uint8`/…, `np.float64`/`np.float32`/…):
  -- `dt` is the dtype name, the value is exact
  | npbool (b : Bool)
  | npint (dt : Key) (i : Int)
  | npnum (dt : Key) (r : Rat)
  deriving DecidableEq

/-- is the scalar a numpy scalar (`isinstance(v, np.generic)`)? -/
def Scalar.isNp : Scalar → Bool
  | .npbool _ => true
  | .npint _ _ => true
  | .npnum _ _ => true
  | _ => false

/-- `v.item()` for numpy scalars (the Python scalar of the same value); Python scalars as they are -/
def Scalar.item : Scalar → Scalar
  | .npbool b => .bool b
  | .npint _ i => .int i
  | .npnum _ r => .num r
  | s => s

inductive Kind
  | list | tuple | array
  deriving DecidableEq

mutual
  inductive Tree
    | scalar (s : Scalar)
    | seq (k : Kind) (xs : TreeList)
    | dict (kvs : Assoc)
  inductive TreeList
    | nil
    | cons (t : Tree) (ts : TreeList)
  inductive Assoc
    | nil
    | cons (k : Key) (v : Tree) (rest : Assoc)
end

/-- the exception classes the modelled code can raise -/
inductive Err
  | keyError | typeError | indexError | valueError | attributeError
  | constructorError      -- yaml.constructor.ConstructorError (FullLoader refuses python/object tags)
  deriving DecidableEq

def Err.name : Err → String
  | .keyError => "KeyError"
  | .typeError => "TypeError"
  | .indexError => "IndexError"
  | .valueError => "ValueError"
  | .attributeError => "AttributeError"
  | .constructorError => "Other:ConstructorError"

/-! ### ordered dictionaries -/

namespace Assoc

/-- `d.get(k)` -/
def lookup (k : Key) : Assoc → Option Tree
  | .nil => none
  | .cons k' v r => if k' = k then some v else lookup k r

/-- `d[k] = v` : replace in place, or append at the end -/
def insert (k : Key) (v : Tree) : Assoc → Assoc
  | .nil => .cons k v .nil
  | .cons k' v' r => if k' = k then .cons k' v r else .cons k' v' (insert k v r)

/-- `del d[k]` (for a present key) -/
def erase (k : Key) : Assoc → Assoc
  | .nil => .nil
  | .cons k' v' r => if k' = k then erase k r else .cons k' v' (erase k r)

def keys : Assoc → List Key
  | .nil => []
  | .cons k _ r => k :: keys r

def contains (k : Key) (a : Assoc) : Bool := (a.lookup k).isSome

def append : Assoc → Assoc → Assoc
  | .nil, b => b
  | .cons k v r, b => .cons k v (append r b)

end Assoc

namespace TreeList
def toList : TreeList → List Tree
  | .nil => []
  | .cons t ts => t :: toList ts
def ofList : List Tree → TreeList
  | [] => .nil
  | t :: ts => .cons t (ofList ts)
def length : TreeList → Nat
  | .nil => 0
  | .cons _ ts => length ts + 1
end TreeList

def Tree.str (s : String) : Tree := .scalar (.str s.toList)
def Tree.none : Tree := .scalar .none

/-! ### Python item access with a string key -/

/-- `t[k]` -/
def getItem (t : Tree) (k : Key) : Except Err Tree :=
  match t with
  | .dict a => match a.lookup k with
    | some v => .ok v
    | none => .error .keyError
  | .seq .array _ => .error .indexError
  | .scalar s => if s.isNp then .error .indexError else .error .typeError   -- "invalid index to scalar variable"
  | _ => .error .typeError

/-- `t[k] = v` (the updated object) -/
def setItem (t : Tree) (k : Key) (v : Tree) : Except Err Tree :=
  match t with
  | .dict a => .ok (.dict (a.insert k v))
  | .seq .array _ => .error .indexError
  | _ => .error .typeError

/-- `del t[k]` (the updated object) -/
def delItem (t : Tree) (k : Key) : Except Err Tree :=
  match t with
  | .dict a => if a.contains k then .ok (.dict (a.erase k)) else .error .keyError
  | .seq .array _ => .error .valueError
  | _ => .error .typeError

/-! ### plain nested indexing (the reference semantics of a key path) -/

/-- `t[k0][k1]…[kn]` -/
def getPath : Tree → List Key → Except Err Tree
  | t, [] => .ok t
  | t, k :: ks => do
      let c ← getItem t k
      getPath c ks

/-- `t[k0][k1]…[kn] = v` -/
def setPath : Tree → List Key → Tree → Except Err Tree
  | _, [], v => .ok v
  | t, [k], v => setItem t k v
  | t, k :: k' :: ks, v => do
      let c ← getItem t k
      let c' ← setPath c (k' :: ks) v
      setItem t k c'

/-- `del t[k0][k1]…[kn]` -/
def delPath : Tree → List Key → Except Err Tree
  | t, [] => .ok t
  | t, [k] => delItem t k
  | t, k :: k' :: ks => do
      let c ← getItem t k
      let c' ← delPath c (k' :: ks)
      setItem t k c'

/-! ### key paths -/

/-- Python `key.split('/')` -/
def splitSlash : Key → List Key
  | [] => [[]]
  | c :: cs =>
    if c = '/' then [] :: splitSlash cs
    else match splitSlash cs with
      | [] => [[c]]
      | s :: r => (c :: s) :: r

/-- `'/'.join(segs)` -/
def joinSlash : List Key → Key
  | [] => []
  | [s] => s
  | s :: t :: r => s ++ '/' :: joinSlash (t :: r)

/-- `SiftConfig.__keytransform__`: the list of levels (a one-element list stands for the plain key) -/
def keyTransform (key : Key) : Except Err (List Key) :=
  let parts := splitSlash key
  if parts.length > 3 then .error .valueError else .ok parts

/-- `SiftConfig.__getitem__` -/
def cfgGet (store : Tree) (key : Key) : Except Err Tree := do
  let p ← keyTransform key
  match p with
  | [a] => getItem store a
  | [a, b] => do
      let x ← getItem store a
      getItem x b
  | [a, b, c] => do
      let x ← getItem store a
      let y ← getItem x b
      getItem y c
  | _ => .ok Tree.none

/-- `SiftConfig.__setitem__` (the store afterwards) -/
def cfgSet (store : Tree) (key : Key) (v : Tree) : Except Err Tree := do
  let p ← keyTransform key
  match p with
  | [a] => setItem store a v
  | [a, b] => do
      let x ← getItem store a
      let x' ← setItem x b v
      setItem store a x'
  | [a, b, c] => do
      let x ← getItem store a
      let y ← getItem x b
      let y' ← setItem y c v
      let x' ← setItem x b y'
      setItem store a x'
  | _ => .ok store

/-- `SiftConfig.__delitem__` (the store afterwards) -/
def cfgDel (store : Tree) (key : Key) : Except Err Tree := do
  let p ← keyTransform key
  match p with
  | [a] => delItem store a
  | [a, b] => do
      let x ← getItem store a
      let x' ← delItem x b
      setItem store a x'
  | [a, b, c] => do
      let x ← getItem store a
      let y ← getItem x b
      let y' ← delItem y c
      let x' ← setItem x b y'
      setItem store a x'
  | _ => .ok store

/-! ### yaml-safe conversion -/

mutual
  /-- `ndarray.tolist()` -/
  def arrToList : Tree → Tree
    | .seq .array xs => .seq .list (arrToListL xs)
    | .seq .list xs => .seq .list xs
    | .seq .tuple xs => .seq .tuple xs
    | .scalar s => .scalar s
    | .dict a => .dict a
  def arrToListL : TreeList → TreeList
    | .nil => .nil
    | .cons t ts => .cons (arrToList t) (arrToListL ts)
end

mutual
  /-- `_numpy_scalars_to_python(val)`: numpy scalars → `.item()`, through lists, tuples and dicts
      (sequence kinds kept; ndarrays are not entered) -/
  def itemize : Tree → Tree
    | .scalar s => .scalar s.item
    | .seq .list xs => .seq .list (itemizeL xs)
    | .seq .tuple xs => .seq .tuple (itemizeL xs)
    | .seq .array xs => .seq .array xs
    | .dict a => .dict (itemizeA a)
  def itemizeL : TreeList → TreeList
    | .nil => .nil
    | .cons t ts => .cons (itemize t) (itemizeL ts)
  def itemizeA : Assoc → Assoc
    | .nil => .nil
    | .cons k v r => .cons k (itemize v) (itemizeA r)
end

mutual
  /-- what `_array_or_tuple_to_list` stores for one dictionary value: ndarray → `tolist()`,
      dict → recursion, tuple → list; numpy scalars (also inside lists / tuples) → Python scalars -/
  def toSafe : Tree → Tree
    | .seq .array xs => .seq .list (arrToListL xs)
    | .seq .tuple xs => .seq .list (itemizeL xs)
    | .seq .list xs => .seq .list (itemizeL xs)
    | .scalar s => .scalar s.item
    | .dict a => .dict (toSafeA a)
  /-- `_array_or_tuple_to_list(conf)` -/
  def toSafeA : Assoc → Assoc
    | .nil => .nil
    | .cons k v r => .cons k (toSafe v) (toSafeA r)
end

mutual
  /-- `_array_or_tuple_to_list` BEFORE the numpy-scalar repair (D38): numpy scalars were left in place -/
  def toSafeV1 : Tree → Tree
    | .seq .array xs => .seq .list (arrToListL xs)
    | .seq .tuple xs => .seq .list xs
    | .seq .list xs => .seq .list xs
    | .scalar s => .scalar s
    | .dict a => .dict (toSafeV1A a)
  def toSafeV1A : Assoc → Assoc
    | .nil => .nil
    | .cons k v r => .cons k (toSafeV1 v) (toSafeV1A r)
end

mutual
  /-- no ndarray anywhere (numpy scalars allowed) -/
  def arrayFree : Tree → Bool
    | .scalar _ => true
    | .seq .array _ => false
    | .seq .list xs => arrayFreeL xs
    | .seq .tuple xs => arrayFreeL xs
    | .dict a => arrayFreeA a
  def arrayFreeL : TreeList → Bool
    | .nil => true
    | .cons t ts => arrayFree t && arrayFreeL ts
  def arrayFreeA : Assoc → Bool
    | .nil => true
    | .cons _ v r => arrayFree v && arrayFreeA r
end

mutual
  /-- neither an ndarray nor a numpy scalar anywhere: what PyYAML dumps with standard tags only, i.e.
      the domain on which the YAML codec is assumed to round-trip (FullLoader refuses the
      `python/object/apply:numpy…` tags that the others are dumped with) -/
  def yamlSafe : Tree → Bool
    | .scalar s => !s.isNp
    | .seq .array _ => false
    | .seq .list xs => yamlSafeL xs
    | .seq .tuple xs => yamlSafeL xs
    | .dict a => yamlSafeA a
  def yamlSafeL : TreeList → Bool
    | .nil => true
    | .cons t ts => yamlSafe t && yamlSafeL ts
  def yamlSafeA : Assoc → Bool
    | .nil => true
    | .cons _ v r => yamlSafe v && yamlSafeA r
end

mutual
  /-- a (possibly multi-dimensional) numeric / boolean / string ndarray: its elements are written as the
      Python scalars `tolist()` yields -/
  def pureArray : Tree → Bool
    | .scalar s => !s.isNp
    | .seq .array xs => pureArrayL xs
    | .seq _ _ => false
    | .dict _ => false
  def pureArrayL : TreeList → Bool
    | .nil => true
    | .cons t ts => pureArray t && pureArrayL ts
end

mutual
  /-- option values as the property describes them: scalars (Python or numpy), None, lists, tuples
      (array-free contents, numpy scalars allowed), arrays of scalars, and dictionaries of such values -/
  def plain : Tree → Bool
    | .scalar _ => true
    | .seq .array xs => pureArrayL xs
    | .seq .list xs => arrayFreeL xs
    | .seq .tuple xs => arrayFreeL xs
    | .dict a => plainA a
  def plainA : Assoc → Bool
    | .nil => true
    | .cons _ v r => plain v && plainA r
end

mutual
  /-- forget whether a sequence is a list, a tuple or an array ("tuples may become lists") and whether
      a scalar is a numpy or a Python scalar of the same value -/
  def eraseKinds : Tree → Tree
    | .scalar s => .scalar s.item
    | .seq _ xs => .seq .list (eraseKindsL xs)
    | .dict a => .dict (eraseKindsA a)
  def eraseKindsL : TreeList → TreeList
    | .nil => .nil
    | .cons t ts => .cons (eraseKinds t) (eraseKindsL ts)
  def eraseKindsA : Assoc → Assoc
    | .nil => .nil
    | .cons k v r => .cons k (eraseKinds v) (eraseKindsA r)
end

/-! ### configurations and the two YAML routes -/

structure Cfg where
  siftType : Tree
  store : Tree

def siftTypeKey : Key := "sift_type".toList

/-- `SiftConfig._get_yamlsafe_dict` : `[{'sift_type': …}, converted deep copy of the store]`.
    `self.store` must offer `.copy()` and `.items()` (a dict), otherwise `AttributeError`. -/
def yamlSafeDocs (c : Cfg) : Except Err TreeList :=
  match c.store with
  | .dict a => .ok (.cons (.dict (.cons siftTypeKey c.siftType .nil)) (.cons (.dict (toSafeA a)) .nil))
  | _ => .error .attributeError

/-- `_get_yamlsafe_dict` before the numpy-scalar repair (D38) -/
def yamlSafeDocsV1 (c : Cfg) : Except Err TreeList :=
  match c.store with
  | .dict a => .ok (.cons (.dict (.cons siftTypeKey c.siftType .nil)) (.cons (.dict (toSafeV1A a)) .nil))
  | _ => .error .attributeError

/-- The live configuration after `to_yaml_text()` / `to_yaml_file()`: untouched (the conversion
    works on a deep copy). -/
def storeAfterDump (c : Cfg) : Tree := c.store

def lowerLevel : List Key := ["imf_opts".toList, "envelope_opts".toList, "extrema_opts".toList]

/-- `SiftConfig.__str__` runs without raising: the store is a dict and each of the three stage
    entries (when present) is a dict.  `to_yaml_file` / `from_yaml_file` evaluate `str(config)`
    for their log line, whatever the log level. -/
def strOkA : Assoc → Bool
  | .nil => true
  | .cons key v r =>
    (if key ∈ lowerLevel then (match v with | .dict _ => true | _ => false) else true) && strOkA r

def strOk : Tree → Bool
  | .dict a => strOkA a
  | _ => false

/-- PyYAML as an oracle. -/
structure Codec (Text : Type) where
  dump : Tree → Text                      -- yaml.dump(obj, sort_keys=False)
  load : Text → Except Err Tree           -- yaml.load(text, Loader=FullLoader)
  dumpAll : TreeList → Text               -- yaml.dump_all(docs, sort_keys=False)
  loadAll : Text → Except Err TreeList    -- list(yaml.load_all(text, Loader=FullLoader))

/-- the assumption made about the codec (validated against the real library on every run) -/
structure Codec.Lawful {Text : Type} (C : Codec Text) : Prop where
  load_dump : ∀ t, yamlSafe t = true → C.load (C.dump t) = .ok t
  loadAll_dumpAll : ∀ ts, yamlSafeL ts = true → C.loadAll (C.dumpAll ts) = .ok ts

variable {Text : Type}

/-- `to_yaml_file` : the text written to the file (the method then formats a log line with
    `str(self)`, which fails unless the stage entries are dictionaries) -/
def toYamlFile (C : Codec Text) (c : Cfg) : Except Err Text := do
  let docs ← yamlSafeDocs c
  if strOk c.store then pure (C.dumpAll docs) else .error .attributeError

/-- `to_yaml_text` : ONE document holding the two-element list -/
def toYamlText (C : Codec Text) (c : Cfg) : Except Err Text := do
  let docs ← yamlSafeDocs c
  pure (C.dump (.seq .list docs))

/-- `to_yaml_text` / `to_yaml_file` before the numpy-scalar repair (D38) -/
def toYamlTextV1 (C : Codec Text) (c : Cfg) : Except Err Text := do
  let docs ← yamlSafeDocsV1 c
  pure (C.dump (.seq .list docs))

def toYamlFileV1 (C : Codec Text) (c : Cfg) : Except Err Text := do
  let docs ← yamlSafeDocsV1 c
  if strOk c.store then pure (C.dumpAll docs) else .error .attributeError

def defaultName : Tree := Tree.str "sift"
def unknownName : Tree := Tree.str "Unknown"

/-- `SiftConfig.from_yaml_file` -/
def fromYamlFile (C : Codec Text) (text : Text) : Except Err Cfg := do
  let docs ← C.loadAll text
  let ret : Cfg ← match docs with
    | .cons d .nil => pure { siftType := unknownName, store := d }
    | .nil => .error .indexError
    | .cons d0 rest => do
        let st ← getItem d0 siftTypeKey
        match rest with
        | .nil => .error .indexError
        | .cons d1 _ => pure { siftType := st, store := d1 }
  if strOk ret.store then pure ret else .error .attributeError

/-- `SiftConfig.from_yaml_stream` : accepts the two-element list written by `to_yaml_text`
    (anything else becomes the store of a default-typed configuration, as before). -/
def fromYamlStream (C : Codec Text) (text : Text) : Except Err Cfg := do
  let obj ← C.load text
  match obj with
  | .seq .list (.cons d0 (.cons d1 .nil)) => do
      let st ← getItem d0 siftTypeKey
      pure { siftType := st, store := d1 }
  | _ => pure { siftType := defaultName, store := obj }

/-- `from_yaml_stream` as pinned (before the D14 repair): the loaded object becomes the store. -/
def fromYamlStreamLegacy (C : Codec Text) (text : Text) : Except Err Cfg := do
  let obj ← C.load text
  pure { siftType := defaultName, store := obj }

/-- `_get_yamlsafe_dict` as pinned: shallow `store.copy()`, so nested dictionaries are converted in
    the LIVE configuration while top-level values are not. -/
def storeAfterDumpLegacy (c : Cfg) : Tree :=
  let rec go : Assoc → Assoc
    | .nil => .nil
    | .cons k (.dict a) r => .cons k (.dict (toSafeA a)) (go r)
    | .cons k v r => .cons k v (go r)
  match c.store with
  | .dict a => .dict (go a)
  | t => t

/-- `SiftConfig.get_func` : the function named by `sift_type` and the keyword arguments bound
    into the partial (`known` = which names exist in `emd.sift`). -/
def getFunc (known : Key → Bool) (c : Cfg) : Except Err (Key × Assoc) :=
  match c.siftType with
  | .scalar (.str s) =>
    if known s then
      match c.store with
      | .dict a => .ok (s, a)
      | _ => .error .typeError
    else .error .attributeError
  | _ => .error .typeError

/-! ### object sharing (Python aliasing) — what the functional model above does NOT express

  `get_func` builds `functools.partial(func, **self.store)`: a NEW top-level keyword dict holding the
  SAME nested dict objects as the live configuration (`SiftConfig(name, **other)`, `dict(cfg)` and
  `SiftConfig(name, other.store)` copy the same way).  The two-level heap below states what that
  means; the `Tree` model (`getFunc` returns a value) is the special case in which the configuration
  is not edited after the partial / copy was taken.  Observed on the real code on every run (stream
  `aliasing` of C18), not claimed by the property. -/
namespace Alias

/-- a top-level entry holds a plain value or the ADDRESS of a nested dict object -/
inductive Slot
  | val (t : Tree)
  | ref (addr : Nat)

/-- the nested dict objects -/
abbrev Heap := Nat → Assoc
/-- a top-level dict (the configuration's `store`, or a partial's `keywords`) -/
abbrev Top := List (Key × Slot)

def resolveSlot (h : Heap) : Slot → Tree
  | .val t => t
  | .ref a => .dict (h a)

/-- the options a top-level dict denotes in a given heap -/
def resolve (h : Heap) : Top → Assoc
  | [] => .nil
  | (key, s) :: r => .cons key (resolveSlot h s) (resolve h r)

/-- `functools.partial(func, **store).keywords` / `dict(store)`: new top level, same objects -/
def shallowCopy (top : Top) : Top := top

/-- `cfg[key] = v` with a one-level key: rebinds an entry of the configuration's OWN top-level dict -/
def setTop (top : Top) (key : Key) (v : Tree) : Top :=
  match top with
  | [] => [(key, .val v)]
  | (k', s) :: r => if k' = key then (k', .val v) :: r else (k', s) :: setTop r key v

/-- `cfg['parent/key'] = v`: mutates the nested dict OBJECT the parent entry refers to -/
def setNested (h : Heap) (addr : Nat) (key : Key) (v : Tree) : Heap :=
  fun a => if a = addr then (h a).insert key v else h a

def slotOf (top : Top) (key : Key) : Option Slot :=
  match top with
  | [] => none
  | (k', s) :: r => if k' = key then some s else slotOf r key

end Alias

/-! ### `get_config` -/

/-- `_get_function_opts(func, ignore)` on a signature given as (parameter, default) in order -/
def functionOpts (ignore : List Key) : Assoc → Assoc
  | .nil => .nil
  | .cons p d r =>
    if p ∈ ignore then functionOpts ignore r
    else .cons p d (functionOpts (p :: ignore) r)

/-- the live signatures `get_config` inspects -/
structure Sigs where
  gpe : Assoc                       -- get_padded_extrema
  ie : Assoc                        -- interp_envelope
  gni : Assoc                       -- get_next_imf
  variant : Key → Option Assoc      -- getattr(emd.sift, name), if it exists

def k (s : String) : Key := s.toList

def siftTypes : List Key :=
  [k "sift", k "ensemble_sift", k "complete_ensemble_sift", k "mask_sift",
   k "mask_sift_adaptive", k "mask_sift_specified"]

def magPadOpts : Tree :=
  .dict (.cons (k "mode") (Tree.str "median") (.cons (k "stat_length") (.scalar (.int 1)) .nil))
def locPadOpts : Tree :=
  .dict (.cons (k "mode") (Tree.str "reflect") (.cons (k "reflect_type") (Tree.str "odd") .nil))

def gpeIgnore : List Key := [k "X", k "mag_pad_opts", k "loc_pad_opts", k "mode"]
def ieIgnore : List Key := [k "X", k "extrema_opts", k "mode", k "ret_extrema"]
def gniIgnore : List Key := [k "X", k "envelope_opts", k "extrema_opts"]
/-- as written in the code: a comma is missing, so two names fuse into one (harmless: both
    keys are overwritten afterwards) -/
def variantIgnore : List Key := [k "X", k "imf_optsenvelope_opts", k "extrema_opts"]

/-- `for key in opts: out[key] = opts[key]` through `SiftConfig.__setitem__` -/
def assignAll : Tree → Assoc → Except Err Tree
  | store, .nil => .ok store
  | store, .cons p d r => do
      let s ← cfgSet store p d
      assignAll s r

/-- `get_config(siftname)` -/
def getConfig (S : Sigs) (name : Key) : Except Err Cfg := do
  let extremaOpts := functionOpts gpeIgnore S.gpe
  let envelopeOpts := functionOpts ieIgnore S.ie
  let imfOpts := functionOpts gniIgnore S.gni
  if name ∈ siftTypes then
    match S.variant name with
    | none => .error .attributeError
    | some sig => do
        let siftOpts := functionOpts variantIgnore sig
        let s ← assignAll (.dict .nil) siftOpts
        let s ← cfgSet s (k "imf_opts") (.dict imfOpts)
        let s ← cfgSet s (k "envelope_opts") (.dict envelopeOpts)
        let s ← cfgSet s (k "extrema_opts") (.dict extremaOpts)
        let s ← cfgSet s (k "extrema_opts/mag_pad_opts") magPadOpts
        let s ← cfgSet s (k "extrema_opts/loc_pad_opts") locPadOpts
        pure { siftType := .scalar (.str name), store := s }
  else .error .attributeError

/-! ### wire format

  A tree is a comma-separated prefix code:
    N | B0 | B1 | I<int> | R<num>[:<den>] | S<cp>.<cp>… | L<n> t… | U<n> t… | A<n> t… | D<n> (S… t)…
    | Jb0 | Jb1 | Ji<dtype>:<int> | Jf<dtype>:<num>[:<den>]        (numpy scalars)
  (`U` tuple, `A` ndarray; strings are lists of code points so that no protocol
  delimiter can appear inside a token). -/

def fmtKeyBody (s : Key) : String := ".".intercalate (s.map fun c => toString c.toNat)

def fmtScalar : Scalar → String
  | .none => "N"
  | .bool b => if b then "B1" else "B0"
  | .int i => s!"I{i}"
  | .num r => if r.den = 1 then s!"R{r.num}" else s!"R{r.num}:{r.den}"
  | .str s => "S" ++ fmtKeyBody s
  | .npbool b => if b then "Jb1" else "Jb0"
  | .npint dt i => s!"Ji{String.ofList dt}:{i}"
  | .npnum dt r => if r.den = 1 then s!"Jf{String.ofList dt}:{r.num}" else s!"Jf{String.ofList dt}:{r.num}:{r.den}"

def kindLetter : Kind → String
  | .list => "L" | .tuple => "U" | .array => "A"

mutual
  def fmtToks : Tree → List String
    | .scalar s => [fmtScalar s]
    | .seq kd xs => (kindLetter kd ++ toString xs.length) :: fmtToksL xs
    | .dict a => ("D" ++ toString a.keys.length) :: fmtToksA a
  def fmtToksL : TreeList → List String
    | .nil => []
    | .cons t ts => fmtToks t ++ fmtToksL ts
  def fmtToksA : Assoc → List String
    | .nil => []
    | .cons key v r => ("S" ++ fmtKeyBody key) :: (fmtToks v ++ fmtToksA r)
end

def fmtTree (t : Tree) : String := ",".intercalate (fmtToks t)

def parseKeyBody? (cs : List Char) : Option Key :=
  if cs = [] then some []
  else ((String.ofList cs).splitOn ".").mapM fun w => w.toNat?.map Char.ofNat

def parseRatBody? (cs : List Char) : Option Rat :=
  match (String.ofList cs).splitOn ":" with
  | [n] => n.toInt?.map fun i => (i : Rat)
  | [n, d] => do
      let i ← n.toInt?
      let m ← d.toNat?
      if m = 0 then none else some (mkRat i m)
  | _ => none

def parseNatBody? (cs : List Char) : Option Nat := (String.ofList cs).toNat?

/-- `<dtype>:<int>` / `<dtype>:<num>[:<den>]` of a numpy scalar token -/
def parseNpBody? (isInt : Bool) (cs : List Char) : Option Scalar :=
  match (String.ofList cs).splitOn ":" with
  | [dt, n] => n.toInt?.map fun i => if isInt then .npint dt.toList i else .npnum dt.toList (i : Rat)
  | [dt, n, d] =>
    if isInt then none else do
      let i ← n.toInt?
      let m ← d.toNat?
      if m = 0 then none else some (.npnum dt.toList (mkRat i m))
  | _ => none

mutual
  def parseTree : Nat → List String → Option (Tree × List String)
    | 0, _ => none
    | _, [] => none
    | fuel + 1, tok :: rest =>
      match tok.toList with
      | ['N'] => some (.scalar .none, rest)
      | ['B', '0'] => some (.scalar (.bool false), rest)
      | ['B', '1'] => some (.scalar (.bool true), rest)
      | ['J', 'b', '0'] => some (.scalar (.npbool false), rest)
      | ['J', 'b', '1'] => some (.scalar (.npbool true), rest)
      | 'J' :: 'i' :: ds => (parseNpBody? true ds).map fun s => (.scalar s, rest)
      | 'J' :: 'f' :: ds => (parseNpBody? false ds).map fun s => (.scalar s, rest)
      | 'I' :: ds => (String.ofList ds).toInt?.map fun i => (.scalar (.int i), rest)
      | 'R' :: ds => (parseRatBody? ds).map fun r => (.scalar (.num r), rest)
      | 'S' :: ds => (parseKeyBody? ds).map fun s => (.scalar (.str s), rest)
      | 'L' :: ds => do
          let n ← parseNatBody? ds
          let (xs, r) ← parseList fuel n rest
          some (.seq .list xs, r)
      | 'U' :: ds => do
          let n ← parseNatBody? ds
          let (xs, r) ← parseList fuel n rest
          some (.seq .tuple xs, r)
      | 'A' :: ds => do
          let n ← parseNatBody? ds
          let (xs, r) ← parseList fuel n rest
          some (.seq .array xs, r)
      | 'D' :: ds => do
          let n ← parseNatBody? ds
          let (a, r) ← parseAssoc fuel n rest
          some (.dict a, r)
      | _ => none
  def parseList : Nat → Nat → List String → Option (TreeList × List String)
    | 0, _, _ => none
    | _ + 1, 0, toks => some (.nil, toks)
    | fuel + 1, n + 1, toks => do
        let (t, r) ← parseTree fuel toks
        let (ts, r') ← parseList fuel n r
        some (.cons t ts, r')
  def parseAssoc : Nat → Nat → List String → Option (Assoc × List String)
    | 0, _, _ => none
    | _ + 1, 0, toks => some (.nil, toks)
    | _ + 1, _ + 1, [] => none
    | fuel + 1, n + 1, tok :: toks =>
      match tok.toList with
      | 'S' :: ds => do
          let key ← parseKeyBody? ds
          let (t, r) ← parseTree fuel toks
          let (a, r') ← parseAssoc fuel n r
          some (.cons key t a, r')
      | _ => none
end

def parseTree? (s : String) : Option Tree :=
  let toks := s.splitOn ","
  match parseTree (2 * toks.length + 4) toks with
  | some (t, []) => some t
  | _ => none

def parseKey? (s : String) : Option Key :=
  match s.toList with
  | 'S' :: ds => parseKeyBody? ds
  | _ => none

/-- the ideal codec used by the executable driver: documents are the trees themselves; like PyYAML's
    FullLoader it refuses (ConstructorError) every document that holds an ndarray or a numpy scalar
    (it satisfies `Codec.Lawful`; the real PyYAML is validated against the same law, and against the
    refusal, by the harness) -/
inductive IdealText
  | one (t : Tree)
  | many (ts : TreeList)

def idealCodec : Codec IdealText where
  dump t := .one t
  load
    | .one t => if yamlSafe t then .ok t else .error .constructorError
    | .many (.cons t .nil) => if yamlSafe t then .ok t else .error .constructorError
    | .many _ => .error .valueError     -- yaml.composer.ComposerError (not produced by the modelled routes)
  dumpAll ts := .many ts
  loadAll
    | .many ts => if yamlSafeL ts then .ok ts else .error .constructorError
    | .one t => if yamlSafe t then .ok (.cons t .nil) else .error .constructorError

open Protocol in
def fmtExcept (r : Except Err Tree) : String :=
  match r with
  | .ok t => "v:" ++ fmtTree t
  | .error e => "e:" ++ e.name

def fmtCfg (r : Except Err Cfg) : String :=
  match r with
  | .ok c => s!"ok stype={fmtTree c.siftType} store={fmtTree c.store}"
  | .error e => s!"err {e.name}"

/-- run a sequence of edits; failing operations leave the store untouched -/
def runEdits (o : Protocol.Op) (n : Nat) : Nat → Tree → List String → Option (Tree × List String)
  | i, store, acc =>
    if h : i < n then
      match o.str? s!"o{i}", (o.str? s!"k{i}") >>= parseKey? with
      | some "get", some key => runEdits o n (i + 1) store (acc ++ [s!"r{i}={fmtExcept (cfgGet store key)}"])
      | some "set", some key =>
        match (o.str? s!"v{i}") >>= parseTree? with
        | none => none
        | some v =>
          match cfgSet store key v with
          | .ok s => runEdits o n (i + 1) s (acc ++ [s!"r{i}=ok"])
          | .error e => runEdits o n (i + 1) store (acc ++ [s!"r{i}=e:{e.name}"])
      | some "del", some key =>
        match cfgDel store key with
        | .ok s => runEdits o n (i + 1) s (acc ++ [s!"r{i}=ok"])
        | .error e => runEdits o n (i + 1) store (acc ++ [s!"r{i}=e:{e.name}"])
      | _, _ => none
    else some (store, acc)
termination_by i _ _ => n - i

open Protocol in
def handle (o : Op) : Option String :=
  match o.name with
  | "KEYT" => some <| Id.run do
      let some key := (o.str? "key") >>= parseKey? | return "bad-op"
      match keyTransform key with
      | .error e => return s!"err {e.name}"
      | .ok ps => return s!"ok n={ps.length} parts={fmtTree (.seq .list (TreeList.ofList (ps.map fun p => .scalar (.str p))))}"
  | "CFGSEQ" => some <| Id.run do
      let some store := (o.str? "store") >>= parseTree? | return "bad-op"
      let some n := o.nat? "n" | return "bad-op"
      match runEdits o n 0 store [] with
      | none => return "bad-op"
      | some (s, acc) => return s!"ok {" ".intercalate acc} store={fmtTree s}"
  | "CFGYAML" => some <| Id.run do
      let some store := (o.str? "store") >>= parseTree? | return "bad-op"
      let some stype := (o.str? "stype") >>= parseTree? | return "bad-op"
      let some route := o.str? "route" | return "bad-op"
      let some legacy := o.nat? "legacy" | return "bad-op"
      let c : Cfg := { siftType := stype, store := store }
      let docs := match yamlSafeDocs c with
        | .ok d => "v:" ++ fmtTree (.seq .list d)
        | .error e => "e:" ++ e.name
      let docs := if legacy = 2 then (match yamlSafeDocsV1 c with
        | .ok d => "v:" ++ fmtTree (.seq .list d)
        | .error e => "e:" ++ e.name) else docs
      let back : Except Err Cfg ← match route with
        | "file" =>
          if legacy = 2 then pure (toYamlFileV1 idealCodec c >>= fromYamlFile idealCodec)
          else pure (toYamlFile idealCodec c >>= fromYamlFile idealCodec)
        | "text" =>
          if legacy = 2 then pure (toYamlTextV1 idealCodec c >>= fromYamlStream idealCodec)
          else if legacy != 0 then pure (toYamlText idealCodec c >>= fromYamlStreamLegacy idealCodec)
          else pure (toYamlText idealCodec c >>= fromYamlStream idealCodec)
        | _ => return "bad-op"
      let live := if legacy = 1 then storeAfterDumpLegacy c else storeAfterDump c
      match back with
      | .error e => return s!"err {e.name} docs={docs} live={fmtTree live}"
      | .ok b => return s!"ok stype={fmtTree b.siftType} store={fmtTree b.store} docs={docs} live={fmtTree live}"
  | "CFGLOAD" => some <| Id.run do
      -- load a given document list through either loader (hand-written / foreign YAML)
      let some docs := (o.str? "docs") >>= parseTree? | return "bad-op"
      let some route := o.str? "route" | return "bad-op"
      match route, docs with
      | "file", .seq .list ds => return fmtCfg (fromYamlFile idealCodec (.many ds))
      | "text", t => return fmtCfg (fromYamlStream idealCodec (.one t))
      | _, _ => return "bad-op"
  | "CFGFUNC" => some <| Id.run do
      let some store := (o.str? "store") >>= parseTree? | return "bad-op"
      let some stype := (o.str? "stype") >>= parseTree? | return "bad-op"
      let some known := o.nat? "known" | return "bad-op"
      match getFunc (fun _ => known != 0) { siftType := stype, store := store } with
      | .error e => return s!"err {e.name}"
      | .ok (f, kw) => return s!"ok fn={fmtTree (.scalar (.str f))} kw={fmtTree (.dict kw)}"
  | "CFGDEFAULT" => some <| Id.run do
      let some name := (o.str? "name") >>= parseKey? | return "bad-op"
      let some (.dict gpe) := (o.str? "gpe") >>= parseTree? | return "bad-op"
      let some (.dict ie) := (o.str? "ie") >>= parseTree? | return "bad-op"
      let some (.dict gni) := (o.str? "gni") >>= parseTree? | return "bad-op"
      let some var := (o.str? "var") >>= parseTree? | return "bad-op"
      let variant : Key → Option Assoc := fun nm =>
        if nm = name then (match var with | .dict a => some a | _ => none) else none
      return fmtCfg (getConfig { gpe, ie, gni, variant } name)
  | _ => none

end Config
