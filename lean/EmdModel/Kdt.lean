/-
  EmdModel.Kdt — model of `emd.cycles.kdt_match` / `_unique_inds` (property C17).

  The KD-tree query is an ORACLE: the model starts from the query result
  `(D, inds)` (one row per point of `x`, `K` columns; a missing neighbour is padded with
  distance `inf` — here `none` — and index `ny`).  Everything after the query is modelled
  step by step:

    for ii in range(K):
        uni, uni_inds = _unique_inds(inds[:, ii])            -- `U col`
        ix = [argmin(D[uni_inds[jj], ii]) ...]               -- `closest`
        closest_uni_inds = [uni_inds[jj][ix[jj]] ...]        -- `closestRows`
        uni = uni[uni not in selected]                       -- `freeVals`
        uni_matches[closest_uni_inds] = (inds[closest_uni_inds, ii] in uni)
        uni_matches[II[:, :ii].sum(axis=1) > 0] = 0          -- `earlier`
        II[where(uni_matches), ii] = 1                       -- new column of `cols`
        selected.extend(inds[where(uni_matches), ii])
    winner = argmax(II, axis=1)
    final[r] = inds[r, winner[r]] if sum(II[r]) == 1 and winner[r] < ny and inds[r, winner[r]] < ny else -1
    x_inds = where(final > -1);  y_inds = final[x_inds]

  The per-value occurrence lookup `_unique_inds` is a parameter `U` of the loop so that both the
  repaired lookup (`uniqueInds`: occurrence ROW NUMBERS) and the lookup of the pinned code
  (`uniqueIndsSortedPos`: positions in the SORTED COPY, defect D13) are instances.
-/
import EmdModel.Protocol

namespace Kdt

/-- a distance; `none` is `+inf` (missing neighbour) -/
abbrev Dist := Option Rat

/-- strict `<` on distances, `inf` largest -/
def dlt : Dist → Dist → Bool
  | some a, some b => decide (a < b)
  | some _, none => true
  | none, _ => false

/-- `≤` on distances -/
def dle (a b : Dist) : Bool := !(dlt b a)

/-! ### `_unique_inds` -/

def insertSorted (v : Nat) : List Nat → List Nat
  | [] => [v]
  | a :: as => if v ≤ a then v :: a :: as else a :: insertSorted v as

/-- `ar.sort()` -/
def isort : List Nat → List Nat
  | [] => []
  | a :: as => insertSorted a (isort as)

/-- `ar[mask]` with `mask[0] = True, mask[1:] = ar[1:] != ar[:-1]` -/
def dedupAdj : List Nat → List Nat
  | [] => []
  | [a] => [a]
  | a :: b :: rest => if a = b then dedupAdj (b :: rest) else a :: dedupAdj (b :: rest)

/-- positions of `v` in a list: `np.where(ar == v)[0]` -/
def positionsOf (ar : List Nat) (v : Nat) : List Nat :=
  ar.zipIdx.filterMap fun (a, p) => if a == v then some p else none

/-- the distinct values of a column, ascending -/
def uniqueVals (col : List Nat) : List Nat := dedupAdj (isort col)

/-- repaired `_unique_inds`: each distinct value with the ROWS of the column that hold it -/
def uniqueInds (col : List Nat) : List (Nat × List Nat) :=
  (uniqueVals col).map fun v => (v, positionsOf col v)

/-- pinned `_unique_inds` (D13): each distinct value with its positions in the SORTED COPY -/
def uniqueIndsSortedPos (col : List Nat) : List (Nat × List Nat) :=
  (uniqueVals col).map fun v => (v, positionsOf (isort col) v)

/-! ### closest claimant (`np.argmin` = first minimum) -/

def closestFrom (d : Nat → Dist) (best : Nat) : List Nat → Nat
  | [] => best
  | r :: rs => closestFrom d (if dlt (d r) (d best) then r else best) rs

def closest (d : Nat → Dist) : List Nat → Option Nat
  | [] => none
  | r :: rs => some (closestFrom d r rs)

/-! ### the column loop -/

structure St where
  /-- processed columns of the marker matrix `II`, left to right; each has `nx` entries -/
  cols : List (List Bool)
  selected : List Nat

/-- `II[:, :ii].sum(axis=1) > 0` at row `r` -/
def earlier (cols : List (List Bool)) (r : Nat) : Bool := cols.any fun c => c[r]!

/-- rows given by `closest_uni_inds` -/
def closestRows (U : List Nat → List (Nat × List Nat)) (nx : Nat) (col : Nat → Nat) (d : Nat → Dist) : List Nat :=
  (U ((List.range nx).map col)).filterMap fun p => closest d p.2

/-- `uni` after removing previously selected values -/
def freeVals (U : List Nat → List (Nat × List Nat)) (nx : Nat) (col : Nat → Nat) (selected : List Nat) : List Nat :=
  ((U ((List.range nx).map col)).map (·.1)).filter fun v => !(selected.contains v)

/-- is row `r` marked in the column being processed?  `cr` = `closest_uni_inds`, `fv` = remaining `uni` -/
def markNow (cr fv : List Nat) (cols : List (List Bool)) (col : Nat → Nat) (r : Nat) : Bool :=
  cr.contains r && fv.contains (col r) && !(earlier cols r)

def stepCol (U : List Nat → List (Nat × List Nat)) (nx : Nat) (col : Nat → Nat) (d : Nat → Dist) (s : St) : St :=
  let cr := closestRows U nx col d
  let fv := freeVals U nx col s.selected
  { cols := s.cols ++ [(List.range nx).map (markNow cr fv s.cols col)],
    selected := s.selected ++ ((List.range nx).filter (markNow cr fv s.cols col)).map col }

def runCols (U : List Nat → List (Nat × List Nat)) (nx : Nat) (indsAt : Nat → Nat → Nat) (dAt : Nat → Nat → Dist) (K : Nat) : St :=
  (List.range K).foldl (fun s c => stepCol U nx (fun r => indsAt r c) (fun r => dAt r c) s) ⟨[], []⟩

/-! ### winner extraction -/

/-- `II[r, :]` -/
def rowMarks (cols : List (List Bool)) (r : Nat) : List Bool := cols.map fun c => c[r]!

/-- `np.argmax` of a 0/1 row: first 1, or 0 when there is none -/
def winner (m : List Bool) : Nat := if m.contains true then m.idxOf true else 0

/-- `final[r]` (`none` = -1) -/
def finalOf (ny : Nat) (indsAt : Nat → Nat → Nat) (cols : List (List Bool)) (r : Nat) : Option Nat :=
  let m := rowMarks cols r
  let w := winner m
  if m.count true == 1 && decide (w < ny) && decide (indsAt r w < ny) then some (indsAt r w) else none

def matchWith (U : List Nat → List (Nat × List Nat)) (nx ny K : Nat) (indsAt : Nat → Nat → Nat) (dAt : Nat → Nat → Dist) :
    List Nat × List Nat :=
  let cols := (runCols U nx indsAt dAt K).cols
  let xs := (List.range nx).filter fun r => (finalOf ny indsAt cols r).isSome
  (xs, xs.filterMap (finalOf ny indsAt cols))

/-! ### list-level entry points -/

def indsAt (inds : List (List Nat)) (r c : Nat) : Nat := (inds[r]!)[c]!
def dAt (D : List (List Dist)) (r c : Nat) : Dist := (D[r]!)[c]!

/-- `kdt_match` after the query, with occurrence lookup `U` -/
def kdtMatchWith (U : List Nat → List (Nat × List Nat)) (D : List (List Dist)) (inds : List (List Nat)) (ny K : Nat) :
    List Nat × List Nat :=
  matchWith U inds.length ny K (indsAt inds) (dAt D)

/-- the repaired code -/
def kdtMatch (D : List (List Dist)) (inds : List (List Nat)) (ny K : Nat) : List Nat × List Nat :=
  kdtMatchWith uniqueInds D inds ny K

/-- the pinned code (D13) -/
def kdtMatchSortedPos (D : List (List Dist)) (inds : List (List Nat)) (ny K : Nat) : List Nat × List Nat :=
  kdtMatchWith uniqueIndsSortedPos D inds ny K

/-! ### the contract of the query oracle, as an executable check

`cKDTree(y).query(x, k=K, distance_upper_bound=b)`: `nx` rows of `K` entries; an entry is either a
real neighbour (index `< ny`, finite distance `≥ 0` and `≤ b`) or padding (index `ny`, distance `inf`);
distances are non-decreasing along a row (so padding comes last); real neighbours of a row are distinct. -/

def rowOk (ny K : Nat) (bound : Dist) (drow : List Dist) (irow : List Nat) : Bool :=
  drow.length == K && irow.length == K &&
  (List.range K).all (fun c =>
    decide (irow[c]! ≤ ny) &&
    (decide (irow[c]! < ny) == (drow[c]!).isSome) &&
    dle (some 0) (drow[c]!) &&
    ((drow[c]!).isNone || dle (drow[c]!) bound) &&
    (decide (c + 1 < K) → dle (drow[c]!) (drow[c + 1]!)) &&
    (List.range c).all fun c' => decide (irow[c']! < ny) → irow[c']! != irow[c]!)

def wfCheck (D : List (List Dist)) (inds : List (List Nat)) (ny K : Nat) (bound : Dist) : Bool :=
  D.length == inds.length &&
  (List.range inds.length).all fun r => rowOk ny K bound (D[r]!) (inds[r]!)

/-! ### protocol -/
open Protocol

/-- split a flat row-major vector into rows of width `k` (`k > 0`) -/
def chunk {α : Type} (k : Nat) (xs : List α) : List (List α) :=
  if _h : k = 0 ∨ xs = [] then [] else
    xs.take k :: chunk k (xs.drop k)
termination_by xs.length
decreasing_by
  have : xs ≠ [] := fun e => _h (Or.inr e)
  have : 0 < xs.length := List.length_pos_iff.mpr this
  simp only [List.length_drop]; omega

/-- distances arrive as non-negative rationals; `-1` stands for `inf` -/
def toDist? (r : Rat) : Option Dist :=
  if r = -1 then some none else if 0 ≤ r then some (some r) else none

/--
  `KDT uniq=rows|sortedpos nx=.. ny=.. k=.. bound=<rat>|inf | D row-major (inf as -1) | inds row-major`
  → `ok wf=0|1 n=<matches> | x_inds | y_inds`, `err ValueError` for `k = 0` (the query itself raises).
-/
def handle (o : Op) : Option String :=
  match o.name with
  | "KDT" => some <| Id.run do
      let some uq := o.str? "uniq" | return "bad-op"
      let some nx := o.nat? "nx" | return "bad-op"
      let some ny := o.nat? "ny" | return "bad-op"
      let some k := o.nat? "k" | return "bad-op"
      let some bs := o.str? "bound" | return "bad-op"
      let bound : Dist ← if bs = "inf" then pure none else
        match parseRat? bs with
        | some b => pure (some b)
        | none => return "bad-op"
      let some dv := o.vec? 0 | return "bad-op"
      let some iv := o.vec? 1 | return "bad-op"
      let some iflat := toNats? iv | return "bad-op"
      let some dflat := dv.mapM toDist? | return "bad-op"
      if nx = 0 ∨ ny = 0 then return "bad-op"
      if k = 0 then return "err ValueError"
      if dflat.length ≠ nx * k ∨ iflat.length ≠ nx * k then return "bad-op"
      let D := chunk k dflat
      let inds := chunk k iflat
      if D.length ≠ nx ∨ inds.length ≠ nx then return "bad-op"
      let U ← match uq with
        | "rows" => pure uniqueInds
        | "sortedpos" => pure uniqueIndsSortedPos
        | _ => return "bad-op"
      let (xs, ys) := kdtMatchWith U D inds ny k
      return s!"ok wf={fmtBool (wfCheck D inds ny k bound)} n={xs.length} | {fmtNats xs} | {fmtNats ys}"
  | _ => none

end Kdt
