/- EmdModel.Kdt — (stub; filled in by the property that owns it) -/
import EmdModel.Protocol

namespace Kdt

def handle (_o : Protocol.Op) : Option String := none

end Kdt
