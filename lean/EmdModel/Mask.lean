/-
  EmdModel.Mask — model of emd/sift.py: get_next_imf_mask, get_mask_freqs (explicit sources) and
  mask_sift (C07).

  Oracles (library numerics, never re-implemented):
    X       : Sig → Sig × Bool    single-IMF extraction `get_next_imf` (IMF, continue flag)
    cosTurn : Rat → Rat           cos(2π·x), x in turns — the ONLY numerical ingredient of a mask
    std     : Sig → Rat           np.std
  The waveform is a definition of the model (`maskPhase`, `unitOf`, `waveMask`): phase i of p is the fraction
  i/p of a turn, sample t of the unit mask of frequency f is cosTurn (f·t + i/p), the mask is the amplitude
  times the unit mask.  The loops stay generic in the mask table (`mask : Nat → Sig`,
  `unit : Rat → Nat → Nat → Sig`); the driver instantiates them with `waveMask` / `unitOf`.
  The worker pool is `Pool.runPool` (EmdModel.Ensemble): `get_next_imf_mask` maps `X` over the
  masked signals with `starmap`, then subtracts the mask matrix and averages over the phases.
-/
import EmdModel.Ensemble

namespace Mask
open Pool

/-- `get_next_imf_mask` on `nprocesses` workers under schedule σ -/
def getNextImfMaskPool (σ : Schedule) (X : Sig → Sig × Bool) (mask : Nat → Sig) (p : Nat) (x : Sig) :
    Sig × Bool :=
  let m := (List.range p).map mask                       -- the columns of the mask matrix
  let res := runPool σ X (m.map (Sig.add x))             -- p.starmap(get_next_imf, [X + m[:, i]])
  (Ensemble.meanOver x.length (List.zipWith Sig.sub (res.map (·.1)) m),   -- (concatenate(imfs) - m).mean(axis=1)
   (res.map (·.2)).any id)                               -- np.any(continue_flags)

/-- one worker, jobs in order -/
def getNextImfMask (X : Sig → Sig × Bool) (mask : Nat → Sig) (p : Nat) (x : Sig) : Sig × Bool :=
  getNextImfMaskPool (Schedule.roundRobin p 1) X mask p x

/-! ## the documented waveform -/

/-- phase i of `nphases = p` equally spaced phases, as a fraction of a turn: `linspace(0, 2π, p+1)[:p][i] = 2π·i/p` -/
def maskPhase (p i : Nat) : Rat := (i : Rat) / (p : Rat)

/-- unit-amplitude mask of frequency `f` (cycles per sample), phase `i` of `p`, on `n` samples:
    sample `t` is `cos(2π·f·t + 2π·i/p) = cosTurn (f·t + i/p)` -/
def unitOf (cosTurn : Rat → Rat) (n : Nat) (f : Rat) (p i : Nat) : Sig :=
  (List.range n).map fun (t : Nat) => cosTurn (f * (t : Rat) + maskPhase p i)

/-- the i-th mask of `get_next_imf_mask(X, z, amp, nphases=p)`: `amp · cos(2π z t + 2π i / p)` -/
def waveMask (cosTurn : Rat → Rat) (n : Nat) (z amp : Rat) (p i : Nat) : Sig :=
  Sig.smul amp (unitOf cosTurn n z p i)

inductive AmpMode | abs | ratioSig | ratioImf
  deriving DecidableEq

inductive Amp
  | scalar (a : Rat)
  | array (as : List Rat)

inductive FreqSrc
  /-- first frequency `z` (a float, or what `get_mask_freqs` found for 'zc' / 'if') and the step factor -/
  | first (z s : Rat)
  /-- user supplied list -/
  | list (fs : List Rat)

inductive Err | indexError | valueError | unboundLocalError
  deriving DecidableEq

def Err.toString : Err → String
  | .indexError => "IndexError"
  | .valueError => "ValueError"
  | .unboundLocalError => "Other:UnboundLocalError"

/-- `get_mask_freqs` with a float first frequency: must lie in (0, 1/2) -/
def checkFirstFreq (z : Rat) : Except Err Rat :=
  if z ≤ 0 then .error .valueError
  else if z < 1 / 2 then .ok z
  else .error .unboundLocalError

/-- the mask frequencies and the effective cap -/
def maskFreqs (src : FreqSrc) (cap : Nat) : List Rat × Nat :=
  match src with
  | .first z s => ((List.range cap).map fun k => z / s ^ k, cap)
  | .list fs => (fs, if fs.length < cap then fs.length else cap)

/-- reference deviation the amplitude is a ratio of -/
def sdFor (std : Sig → Rat) (mode : AmpMode) (x : Sig) (prev : Option Sig) : Rat :=
  match mode, prev with
  | .abs, _ => 1
  | .ratioSig, _ => std x
  | .ratioImf, none => std x
  | .ratioImf, some c => std c

def ampAt (amp : Amp) (k : Nat) : Option Rat :=
  match amp with
  | .scalar a => some a
  | .array as => as[k]?

structure Cfg where
  mode : AmpMode
  amp : Amp
  p : Nat
  thresh : Rat

/-- mask `i` of layer with frequency `f` and amplitude `a` -/
def layerMask (unit : Rat → Nat → Nat → Sig) (f a : Rat) (p : Nat) (i : Nat) : Sig :=
  Sig.smul a (unit f p i)

/-- the `while continue_sift` loop of `mask_sift`; `k` = imf_layer, `cols` = columns so far,
    third argument = mask frequencies not yet used -/
def maskSiftLoop (σ : Nat → Schedule) (X : Sig → Sig × Bool) (unit : Rat → Nat → Nat → Sig)
    (std : Sig → Rat) (cfg : Cfg) (cap : Nat) (x : Sig) :
    Nat → List Sig → List Rat → Except Err (List Sig)
  | _, _, [] => .error .indexError
  | k, cols, f :: rest =>
    match ampAt cfg.amp k with
    | none => .error .indexError
    | some a =>
      if cfg.p = 0 then .error .valueError
      else
        let amp := a * sdFor std cfg.mode x cols.getLast?
        let r := getNextImfMaskPool (σ k) X (layerMask unit f amp cfg.p) cfg.p
                   (Sig.sub x (Sig.vsum x.length cols))
        if r.2 && !(k + 1 == cap) && !(decide (Sig.absSum r.1 < cfg.thresh)) then
          maskSiftLoop σ X unit std cfg cap x (k + 1) (cols ++ [r.1]) rest
        else .ok (cols ++ [r.1])

/-- `mask_sift(..., ret_mask_freq=True)`: (columns, mask frequencies) -/
def maskSift (σ : Nat → Schedule) (X : Sig → Sig × Bool) (unit : Rat → Nat → Nat → Sig)
    (std : Sig → Rat) (cfg : Cfg) (src : FreqSrc) (cap : Nat) (x : Sig) : Except Err (List Sig × List Rat) :=
  let fc := maskFreqs src cap
  match maskSiftLoop σ X unit std cfg fc.2 x 0 [] fc.1 with
  | .ok cols => .ok (cols, fc.1)
  | .error e => .error e

/-! ## protocol -/
open Ensemble (lookupTbl close)

def absR (v : Rat) : Rat := if v < 0 then -v else v

/-- value returned by the driver's cosine oracle for an argument the table does not cover (no cosine is 2) -/
def cosMiss : Rat := 2

/-- The recorded cosine table as points of the oracle: entry `(f, i, v)` holds `v[t] = cos(2π(f·t + i/p))`, i.e. the
    value of `cosTurn` at the point `f·t + i/p`.  Sorted by argument. -/
def cosPoints (p : Nat) (tbl : List (Rat × Nat × Sig)) : Array (Rat × Rat) :=
  let pts : Array (Rat × Rat) := tbl.foldl (fun acc e =>
    let ph := maskPhase p e.2.1
    e.2.2.zipIdx.foldl (fun acc (vt : Rat × Nat) => acc.push (e.1 * (vt.2 : Rat) + ph, vt.1)) acc) #[]
  pts.qsort (fun a b => a.1 < b.1)

/-- smallest index whose argument is ≥ `y` (binary search on the sorted points) -/
def lowerBound (pts : Array (Rat × Rat)) (y : Rat) : Nat → Nat → Nat → Nat
  | 0, lo, _ => lo
  | fuel + 1, lo, hi =>
    if lo < hi then
      let mid := (lo + hi) / 2
      match pts[mid]? with
      | some e => if e.1 < y then lowerBound pts y fuel (mid + 1) hi else lowerBound pts y fuel lo mid
      | none => lo
    else lo

/-- The cosine oracle of the driver: `cosTurn x` is the recorded value at a point within `xtol` of `x` (the model
    computes the frequency ladder in exact rationals, the code in floats: the points differ by rounding; `xtol = 0`
    where the frequency is given) — a single function of the argument, whatever mask asks. -/
def cosLookup (xtol : Rat) (pts : Array (Rat × Rat)) (x : Rat) : Rat :=
  let k := lowerBound pts (x - xtol) (pts.size + 1) 0 pts.size
  match pts[k]? with
  | some e => if e.1 ≤ x + xtol then e.2 else cosMiss
  | none => cosMiss

/-- does the table hold the masks of frequency `f` (within `ftol`) for all `p` phases on `n` samples? -/
def coversFreq (ftol : Rat) (tbl : List (Rat × Nat × Sig)) (n p : Nat) (f : Rat) : Bool :=
  (List.range p).all fun i => tbl.any fun e => decide (absR (e.1 - f) ≤ ftol) && e.2.1 == i && e.2.2.length == n

def parseUnits (vs : List (Option (List Rat))) : Nat → Nat → Option (List (Rat × Nat × Sig))
  | _, 0 => some []
  | a, k + 1 => do
    let key ← (vs[a]?).join
    let m ← (vs[a + 1]?).join
    let rest ← parseUnits vs (a + 2) k
    match key with
    | [f, i] => if i.den = 1 ∧ 0 ≤ i.num then some ((f, i.num.toNat, m) :: rest) else none
    | _ => none

def parseStd (vs : List (Option (List Rat))) : Nat → Nat → Option (List (Sig × Rat))
  | _, 0 => some []
  | a, k + 1 => do
    let arg ← (vs[a]?).join
    let v ← (vs[a + 1]?).join
    let rest ← parseStd vs (a + 2) k
    match v with
    | [s] => some ((arg, s) :: rest)
    | _ => none

def parseX (vs : List (Option (List Rat))) : Nat → Nat → Option (List (Sig × (Sig × Bool)))
  | _, 0 => some []
  | a, k + 1 => do
    let arg ← (vs[a]?).join
    let res ← (vs[a + 1]?).join
    let fl ← (vs[a + 2]?).join
    let rest ← parseX vs (a + 3) k
    match fl with
    | [b] => if b = 0 then some ((arg, (res, false)) :: rest)
             else if b = 1 then some ((arg, (res, true)) :: rest) else none
    | _ => none

/-- schedule used by the driver for call number `c`: execution order rotated by `rot + c`,
    `rot + 1` workers (the proved result does not depend on it) -/
def rotSchedule (N rot c : Nat) : Schedule :=
  { order := (List.range N).map (fun j => (j + rot + c) % N), worker := fun j => (j + c) % (rot + 1) }

def smallestMargin (thresh : Rat) (cols : List Sig) : Rat :=
  cols.foldl (fun m c =>
    let d := absR (Sig.absSum c - thresh)
    if d < m then d else m) 1

open Protocol in
def handle (o : Op) : Option String :=
  match o.name with
  | "GNIM" => some <| Id.run do
      let some p := o.nat? "p" | return "bad-op"
      let some tol := o.rat? "tol" | return "bad-op"
      let some rot := o.nat? "rot" | return "bad-op"
      let some z := o.rat? "z" | return "bad-op"
      let some amp := o.rat? "amp" | return "bad-op"
      let some x := o.vec? 0 | return "bad-op"
      -- the cosine table of this call: vector i holds cos(2π(z·t + i/p)), t = 0 … n-1
      let some cosv := Ensemble.takeVecs o.vecs 1 p | return "bad-op"
      let some tbl := parseX o.vecs (1 + p) p | return "bad-op"
      if p = 0 then return "err ValueError"
      if cosv.any (fun m => m.length ≠ x.length) then return "bad-op"
      let cosTurn := cosLookup 0 (cosPoints p ((List.range p).zip cosv |>.map fun (i, v) => (z, i, v)))
      let mask := waveMask cosTurn x.length z amp p
      if (List.range p).any (fun i => (unitOf cosTurn x.length z p i).contains cosMiss) then
        return "oracle-desync cos-table-misses-a-point"
      if (List.range p).any (fun i => !Ensemble.hasEntry tol tbl (Sig.add x (mask i))) then
        return "oracle-desync extraction-table-misses-a-masked-signal"
      let X := lookupTbl tol tbl (([] : Sig), false)
      let r := getNextImfMaskPool (rotSchedule p rot 0) X mask p x
      return s!"ok flag={fmtBool r.2} | {fmtVec r.1}"
  | "MASKFREQS" => some <| Id.run do
      let some cap := o.nat? "cap" | return "bad-op"
      let some src := o.str? "src" | return "bad-op"
      match src with
      | "list" =>
        let some fs := o.vec? 0 | return "bad-op"
        let fc := maskFreqs (.list fs) cap
        return s!"ok cap={fc.2} | {fmtVec fc.1}"
      | "float" | "oracle" =>
        let some z := o.rat? "z" | return "bad-op"
        let some s := o.rat? "step" | return "bad-op"
        if s = 0 then return "bad-op"
        match (if src = "float" then checkFirstFreq z else .ok z) with
        | .error e => return s!"err {e.toString}"
        | .ok z =>
          let fc := maskFreqs (.first z s) cap
          return s!"ok cap={fc.2} | {fmtVec fc.1}"
      | _ => return "bad-op"
  | "MASKSIFT" => some <| Id.run do
      let some cap := o.nat? "cap" | return "bad-op"
      let some src := o.str? "src" | return "bad-op"
      let some p := o.nat? "p" | return "bad-op"
      let some thresh := o.rat? "thresh" | return "bad-op"
      let some tol := o.rat? "tol" | return "bad-op"
      let some ftol := o.rat? "ftol" | return "bad-op"
      let some rot := o.nat? "rot" | return "bad-op"
      let some modeS := o.str? "mode" | return "bad-op"
      let mode ← match modeS with
        | "abs" => pure AmpMode.abs
        | "ratio_sig" => pure AmpMode.ratioSig
        | "ratio_imf" => pure AmpMode.ratioImf
        | _ => return "bad-op"
      let some ampS := o.str? "amp" | return "bad-op"
      let some nu := o.nat? "nu" | return "bad-op"
      let some ns := o.nat? "ns" | return "bad-op"
      let some nx := o.nat? "nx" | return "bad-op"
      let some x := o.vec? 0 | return "bad-op"
      let some fs := o.vec? 1 | return "bad-op"        -- user list (src=list), else empty
      let some as := o.vec? 2 | return "bad-op"        -- amplitude array (amp=array), else [a]
      let amp ← match ampS, as with
        | "scalar", [a] => pure (Amp.scalar a)
        | "array", l => pure (Amp.array l)
        | _, _ => return "bad-op"
      let some units := parseUnits o.vecs 3 nu | return "bad-op"
      let some stds := parseStd o.vecs (3 + 2 * nu) ns | return "bad-op"
      let some xs := parseX o.vecs (3 + 2 * nu + 2 * ns) nx | return "bad-op"
      let fsrc ← match src with
        | "list" => pure (FreqSrc.list fs)
        | "float" | "oracle" =>
          let some z := o.rat? "z" | return "bad-op"
          let some s := o.rat? "step" | return "bad-op"
          if s = 0 then return "bad-op"
          match (if src = "float" then checkFirstFreq z else .ok z) with
          | .error e => return s!"err {e.toString}"
          | .ok z => pure (FreqSrc.first z s)
        | _ => return "bad-op"
      let X := lookupTbl tol xs (([] : Sig), false)
      let std := lookupTbl tol stds (-1)
      -- the masks are the model's own waveform over the recorded cosine values
      let unit := unitOf (cosLookup ftol (cosPoints p units)) x.length
      let cfg : Cfg := { mode, amp, p, thresh }
      match maskSift (rotSchedule p rot) X unit std cfg fsrc cap x with
      | .error e => return s!"err {e.toString}"
      | .ok (cols, freqs) =>
        if (freqs.take cols.length).any (fun f => !coversFreq ftol units x.length p f) then
          return "oracle-desync cos-table-misses-a-mask-frequency"
        if cols.any (fun c => c.length ≠ x.length) then
          return "oracle-desync mask-or-extraction-table-misses-an-input"
        let needStd := match mode with
          | .abs => []
          | .ratioSig => [x]
          | .ratioImf => x :: cols.dropLast
        if needStd.any (fun a => !Ensemble.hasEntry tol stds a) then
          return "oracle-desync std-table-misses-an-input"
        return s!"ok k={cols.length} cap={(maskFreqs fsrc cap).2} margin={fmtRat (smallestMargin thresh cols)} | {fmtVec freqs}"
          ++ String.join (cols.map fun c => " | " ++ fmtVec c)
  | _ => none

end Mask
