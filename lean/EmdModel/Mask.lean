/- EmdModel.Mask — (stub; filled in by the property that owns it) -/
import EmdModel.Protocol

namespace Mask

def handle (_o : Protocol.Op) : Option String := none

end Mask
