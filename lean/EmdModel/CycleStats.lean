/-
  EmdModel.CycleStats — model of per-cycle statistics, their projection back to samples,
  phase alignment and phase binning (C14):

    emd/_cycles_support.py: get_cycle_stat_from_samples, project_cycles_to_samples
    emd/cycles.py:          get_cycle_stat (mode='cycle'), phase_align (mode='cycle', linear),
                            bin_by_phase (unweighted mean / variance)

  The reducing function of `cycleStat` is an arbitrary parameter.  Interpolation is scipy's
  linear `interp1d(..., bounds_error=False, fill_value='extrapolate')`: stable sort by abscissa,
  `searchsorted` clipped to [1, n-1], straight line through the two neighbours (so the two end
  segments extrapolate), computed exactly in ℚ.  Bin centres / edges are inputs (they come
  from the real `spectra.define_hist_bins`).
-/
import EmdModel.Maps
import EmdModel.Cycles

namespace CycleStats
open Maps

/-- `vals[inds]` for an index array -/
def gather {α : Type} (vals : List α) (inds : List Nat) : List α := inds.filterMap (vals[·]?)

/-- get_cycle_stat_from_samples: `ncycles = max(cycle_vect) + 1`, entry k = func(vals[cycle k's samples]) -/
def cycleStat {β : Type} (f : List Rat → β) (vals : List Rat) (cv : List Int) : List β :=
  (List.range (nLabels cv)).map fun k => f (gather vals (mapCycleToSamples cv k))

/-- the values whose label is k, in recording order (the specification side) -/
def valuesWithLabel (vals : List Rat) (cv : List Int) (k : Nat) : List Rat :=
  ((vals.zip cv).filter fun p => p.2 = (k : Int)).map (·.1)

/-! ## reducing functions known to the driver (NaN = none) -/

def mean? (l : List Rat) : Option Rat := if l.isEmpty then none else some (Sig.sum l / l.length)

def maxOf : List Rat → Option Rat
  | [] => none
  | a :: t => some (t.foldl (fun m v => if m < v then v else m) a)

abbrev Reducer := List Rat → Except Err (Option Rat)

def reducer? : String → Option Reducer
  | "mean" => some fun l => .ok (mean? l)
  | "max" => some fun l => match maxOf l with | some m => .ok (some m) | none => .error .valueError
  | "sum" => some fun l => .ok (some (Sig.sum l))
  | "len" => some fun l => .ok (some (l.length : Rat))
  | "first" => some fun l => match l.head? with | some a => .ok (some a) | none => .error .indexError
  | "last" => some fun l => match l.getLast? with | some a => .ok (some a) | none => .error .indexError
  -- lambda v: float(np.sum(v * v) - 3 * v[0])
  | "lambda" => some fun l => match l.head? with
      | some a => .ok (some (Sig.sumSq l - 3 * a))
      | none => .error .indexError
  | _ => none

/-- results in cycle order; the first raising cycle aborts the call -/
def sequence {α : Type} : List (Except Err α) → Except Err (List α)
  | [] => .ok []
  | .error e :: _ => .error e
  | .ok a :: t => match sequence t with
    | .ok r => .ok (a :: r)
    | .error e => .error e

/-- emd.cycles.get_cycle_stat(cycles, values, out=..., func=f), mode='cycle' -/
def getCycleStat (f : Reducer) (vals : List Rat) (cv : List Int) (samples : Bool) :
    Except Err (List (Option Rat)) :=
  if cv.isEmpty then .error .valueError            -- max of an empty array
  else if cv.length ≠ vals.length then .error .valueError
  else match sequence (cycleStat f vals cv) with
    | .error e => .error e
    | .ok stats => .ok (if samples then projectCyclesToSamples stats cv else stats)

/-! ## phase alignment -/

/-- insertion keeping earlier-equal elements first (stable) -/
def insertPt (p : Rat × Rat) : List (Rat × Rat) → List (Rat × Rat)
  | [] => [p]
  | q :: t => if p.1 ≤ q.1 then p :: q :: t else q :: insertPt p t

/-- `np.argsort(x, kind='mergesort')` applied to the (x, y) pairs -/
def sortPts (l : List (Rat × Rat)) : List (Rat × Rat) := l.foldr insertPt []

/-- `searchsorted(xs, t)` (side='left') on sorted abscissae: how many lie strictly below t -/
def searchLeft (pts : List (Rat × Rat)) (t : Rat) : Nat := pts.countP (·.1 < t)

/-- scipy `interp1d._call_linear` at one point, on sorted points; NaN (`none`) when fewer than
    two points or when the bracketing segment has zero width -/
def linInterp (pts : List (Rat × Rat)) (t : Rat) : Option Rat :=
  if pts.length < 2 then none
  else
    let idx := min (max (searchLeft pts t) 1) (pts.length - 1)
    match pts[idx - 1]?, pts[idx]? with
    | some lo, some hi =>
      if hi.1 = lo.1 then none
      else some ((hi.2 - lo.2) / (hi.1 - lo.1) * (t - lo.1) + lo.2)
    | _, _ => none

/-- one column of phase_align: interpolate x over phase within one cycle, evaluate on the bins;
    an empty cycle makes interp1d raise -/
def alignCycle (ip x : List Rat) (inds : List Nat) (bins : List Rat) : Except Err (List (Option Rat)) :=
  let pts := sortPts ((gather ip inds).zip (gather x inds))
  if pts.isEmpty then .error .valueError else .ok (bins.map (linInterp pts))

/-- phase_align(ip, x, cycles=cv, npoints=|bins|), mode='cycle', linear: one column per cycle -/
def phaseAlign (ip x : List Rat) (cv : List Int) (bins : List Rat) : Except Err (List (List (Option Rat))) :=
  if cv.isEmpty then .error .valueError
  else if cv.length ≠ ip.length ∨ ip.length ≠ x.length then .error .valueError
  else sequence ((List.range (nLabels cv)).map fun k => alignCycle ip x (mapCycleToSamples cv k) bins)

/-- phase_align(ip, x) with `cycles=None`: `cycles = get_cycle_vector(ip, return_good=False)` — all cycles
    of the phase SUPPLIED, default `phase_step` (`dstep`, the double 1.5*pi), no mask.  A function of the
    phase VALUES: nothing of an earlier call (on the same array object or any other) enters. -/
def phaseAlignDefault (g : Cycles.GoodCfg) (dstep : Rat) (ip x : List Rat) (bins : List Rat) :
    Except Err (List (List (Option Rat))) :=
  phaseAlign ip x (Cycles.getCycleVectorOpt g dstep none false ip (List.replicate ip.length true)) bins

/-! ## phase binning -/

/-- `np.digitize(v, edges)` for increasing edges: number of edges ≤ v -/
def digitize (edges : List Rat) (v : Rat) : Nat := edges.countP (· ≤ v)

/-- population variance about the mean, NaN when empty -/
def var? (l : List Rat) : Option Rat :=
  match mean? l with
  | none => none
  | some m => mean? (l.map fun v => (v - m) * (v - m))

/-- the observations whose phase falls in bin b (digitize index b+1) -/
def binValues (edges ip x : List Rat) (b : Nat) : List Rat :=
  ((ip.zip x).filter fun p => digitize edges p.1 = b + 1).map (·.2)

/-- bin_by_phase, unweighted: per bin the mean and the variance of its observations -/
def binByPhase (edges ip x : List Rat) : List (Option Rat × Option Rat) :=
  (List.range (edges.length - 1)).map fun b =>
    let s := binValues edges ip x b
    (mean? s, var? s)

/-- `np.average(values, weights=w)` on (weight, value) pairs: Σ w·v / Σ w; NaN when the bin is
    empty (the weighted branch skips empty bins and leaves the initial NaN) -/
def wmean? (l : List (Rat × Rat)) : Option Rat :=
  if l.isEmpty then none
  else some (Sig.sum (l.map fun p => p.1 * p.2) / Sig.sum (l.map (·.1)))

/-- the (weight, observation) pairs whose phase falls in bin b -/
def binPairs (edges ip w x : List Rat) (b : Nat) : List (Rat × Rat) :=
  ((ip.zip (w.zip x)).filter fun p => digitize edges p.1 = b + 1).map (·.2)

/-- bin_by_phase with `weights=`: per bin the weighted mean of its observations (positive weights) -/
def binByPhaseW (edges ip w x : List Rat) : List (Option Rat) :=
  (List.range (edges.length - 1)).map fun b => wmean? (binPairs edges ip w x b)

/-! ## protocol -/

open Protocol

def fmtEx (r : Except Err (List (Option Rat))) : String :=
  match r with
  | .ok v => "ok | " ++ fmtOptRats v
  | .error e => "err " ++ e.name

def handle (o : Op) : Option String :=
  match o.name with
  | "CSTAT" => some <| Id.run do
      let some fname := o.str? "f" | return "bad-op"
      let some f := reducer? fname | return "bad-op"
      let some outm := o.str? "out" | return "bad-op"
      let samples ← match outm with
        | "cycles" => pure false
        | "samples" => pure true
        | _ => return "bad-op"
      let some vals := o.vec? 0 | return "bad-op"
      let some cvr := o.vec? 1 | return "bad-op"
      let some cv := toInts? cvr | return "bad-op"
      return fmtEx (getCycleStat f vals cv samples)
  | "PALIGN" => some <| Id.run do
      let some ip := o.vec? 0 | return "bad-op"
      let some x := o.vec? 1 | return "bad-op"
      let some cvr := o.vec? 2 | return "bad-op"
      let some cv := toInts? cvr | return "bad-op"
      let some bins := o.vec? 3 | return "bad-op"
      match phaseAlign ip x cv bins with
      | .error e => return "err " ++ e.name
      | .ok cols => return s!"ok n={cols.length}" ++ String.join (cols.map fun c => " | " ++ fmtOptRats c)
  | "PALIGND" => some <| Id.run do
      -- cycles=None: the model detects the cycles itself (`Cycles.getCycleVectorOpt` with the argument omitted)
      let some dstep := o.rat? "dstep" | return "bad-op"
      let some edge := o.rat? "edge" | return "bad-op"
      let some twopi := o.rat? "twopi" | return "bad-op"
      let some endlo := o.rat? "endlo" | return "bad-op"
      let some ip := o.vec? 0 | return "bad-op"
      let some x := o.vec? 1 | return "bad-op"
      let some bins := o.vec? 2 | return "bad-op"
      match phaseAlignDefault { edge, twopi, endlo } dstep ip x bins with
      | .error e => return "err " ++ e.name
      | .ok cols => return s!"ok n={cols.length}" ++ String.join (cols.map fun c => " | " ++ fmtOptRats c)
  | "BINPH" => some <| Id.run do
      let some edges := o.vec? 0 | return "bad-op"
      let some ip := o.vec? 1 | return "bad-op"
      let some x := o.vec? 2 | return "bad-op"
      if ip.length ≠ x.length then return "bad-op"
      let r := binByPhase edges ip x
      return "ok | " ++ fmtOptRats (r.map (·.1)) ++ " | " ++ fmtOptRats (r.map (·.2))
  | "BINPHW" => some <| Id.run do
      let some edges := o.vec? 0 | return "bad-op"
      let some ip := o.vec? 1 | return "bad-op"
      let some w := o.vec? 2 | return "bad-op"
      let some x := o.vec? 3 | return "bad-op"
      if ip.length ≠ x.length ∨ ip.length ≠ w.length then return "bad-op"
      -- only positive weights are modelled (np.average raises ZeroDivisionError on a zero weight sum)
      if w.any (· ≤ 0) then return "bad-op"
      return "ok | " ++ fmtOptRats (binByPhaseW edges ip w x)
  | _ => none

end CycleStats
