/- EmdModel.CycleStats — (stub; filled in by the property that owns it) -/
import EmdModel.Protocol

namespace CycleStats

def handle (_o : Protocol.Op) : Option String := none

end CycleStats
