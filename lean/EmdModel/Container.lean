/-
  EmdModel.Container — model of emd/cycles.py:Cycles (the cycle container, C15) and of the
  slice-cache / label-lookup statistics in emd/_cycles_support.py.

  The container is a state machine.  Its state is the per-sample label vector `cv`
  (from `get_cycle_vector(return_good=False)`, model: `Cycles.cvSegs`), the number of
  cycles `K`, the ordered metric store (a Python dict: insertion ordered, overwriting keeps the
  position), the current selection (condition strings, subset vector, chain vector — set
  together by `pick_cycle_subset`) and the `use_cache` flag.

  Library numerics are parameters: the reducing function `f : List Rat → Rat` is arbitrary, and
  Python's `float(text)` is the oracle `F : List Char → Option Rat` (`none` = ValueError).
  A metric entry is `Val = Option Rat`, `none` standing for NaN.

  The model follows the code as repaired by the `fix:` commits of this property
  (see harness/props/c15.py, corpus): slice cache built per labelled run, augmented slices
  built with the same rule as `map_cycle_to_samples_augmented`, NaN where no augmented segment
  exists, `add_cycle_metric` raising on a length mismatch, atomic `pick_cycle_subset` that
  accepts an empty selection, subset export driven by the stored subset vector.

  `compute_cycle_metric` does not check the length of the per-sample vector: the label-lookup
  route (`use_cache=False`) indexes with integer arrays and raises IndexError on a too short
  vector, the slice-cache route computes on clipped slices.  The model keeps that difference
  (`fancy` vs `sliceVals`); C15's cache theorems assume one value per sample.
-/
import EmdModel.Protocol
import EmdModel.Cycles

namespace Container

abbrev Val := Option Rat
abbrev Name := List Char
abbrev Cond := List Char
abbrev Store := List (Name × List Val)

/-! ### metric store -/

def sget : Store → Name → Option (List Val)
  | [], _ => none
  | (n, v) :: t, k => if n = k then some v else sget t k

def sset : Store → Name → List Val → Store
  | [], k, v => [(k, v)]
  | (n, w) :: t, k, v => if n = k then (n, v) :: t else (n, w) :: sset t k v

/-! ### condition strings (`Cycles._parse_condition`) -/

inductive Cmp where
  | eq | ne | le | ge | lt | gt
  deriving DecidableEq, Repr

/-- `np.equal / not_equal / less_equal / greater_equal / less / greater` on one metric entry and
    the literal; every comparison with NaN is false except `!=` -/
def Cmp.eval : Cmp → Val → Rat → Bool
  | .ne, none, _ => true
  | _, none, _ => false
  | .eq, some a, b => decide (a = b)
  | .ne, some a, b => !decide (a = b)
  | .le, some a, b => decide (a ≤ b)
  | .ge, some a, b => decide (b ≤ a)
  | .lt, some a, b => decide (a < b)
  | .gt, some a, b => decide (b < a)

def Cmp.sym : Cmp → List Char
  | .eq => ['=', '='] | .ne => ['!', '='] | .le => ['<', '='] | .ge => ['>', '=']
  | .lt => ['<'] | .gt => ['>']

inductive Err where
  | value | index | key | unbound
  deriving DecidableEq, Repr

def Err.kind : Err → String
  | .value => "ValueError" | .index => "IndexError" | .key => "KeyError"
  | .unbound => "Other:UnboundLocalError"

/-- the character class of `re.split(r'[=<>!]', cond)` and of `comp.lstrip('!=<>')` -/
def isCmpChar (c : Char) : Bool := c == '=' || c == '<' || c == '>' || c == '!'

/-- the if/elif chain: two-character comparators first, then the one-character ones -/
def recogniseCmp : List Char → Option Cmp
  | '=' :: '=' :: _ => some .eq
  | '!' :: '=' :: _ => some .ne
  | '<' :: '=' :: _ => some .le
  | '>' :: '=' :: _ => some .ge
  | '<' :: _ => some .lt
  | '>' :: _ => some .gt
  | _ => none

/-- `_parse_condition`: name = text before the first comparator character; comp = the rest;
    empty comp → `comp[0]` raises IndexError; literal = comp without leading comparator
    characters, converted by `float` (oracle `F`, ValueError when it does not parse); an
    unrecognised comparator leaves `func` unbound → UnboundLocalError at the return. -/
def parseCondition (F : List Char → Option Rat) (s : Cond) : Except Err (Name × Cmp × Rat) :=
  let name := s.takeWhile (fun c => !isCmpChar c)
  let comp := s.dropWhile (fun c => !isCmpChar c)
  match comp with
  | [] => .error .index
  | _ :: _ =>
    match recogniseCmp comp, F (comp.dropWhile isCmpChar) with
    | _, none => .error .value
    | none, some _ => .error .unbound
    | some c, some v => .ok (name, c, v)

def evalCond (F : List Char → Option Rat) (m : Store) (c : Cond) : Except Err (List Bool) :=
  match parseCondition F c with
  | .error e => .error e
  | .ok (name, cmp, v) =>
    match sget m name with
    | none => .error .key
    | some col => .ok (col.map fun x => cmp.eval x v)

def evalConds (F : List Char → Option Rat) (m : Store) : List Cond → Except Err (List (List Bool))
  | [] => .ok []
  | c :: t =>
    match evalCond F m c with
    | .error e => .error e
    | .ok col =>
      match evalConds F m t with
      | .error e => .error e
      | .ok cols => .ok (col :: cols)

def isGoodName : Name := "is_good".toList
def chainIndName : Name := "chain_ind".toList
def indexName : Name := "index".toList
def level0Name : Name := "level_0".toList

/-- `get_matching_cycles`: one row per entry of `metrics['is_good']`, one column per condition,
    `np.all(axis=1)` -/
def matching (F : List Char → Option Rat) (m : Store) (conds : List Cond) : Except Err (List Bool) :=
  match sget m isGoodName with
  | none => .error .key
  | some g =>
    match evalConds F m conds with
    | .error e => .error e
    | .ok cols => .ok ((List.range g.length).map fun k => cols.all fun col => col[k]?.getD false)

/-! ### subset and chain vectors (`get_subset_vector`, `get_chain_vector`) -/

def subsetFrom : Nat → List Bool → List Int
  | _, [] => []
  | c, true :: t => (c : Int) :: subsetFrom (c + 1) t
  | c, false :: t => -1 :: subsetFrom c t

def subsetVector (valids : List Bool) : List Int := subsetFrom 0 valids

/-- `np.where(p)[0]`, positions counted from `i` -/
def indicesFrom {α : Type} (p : α → Bool) : Nat → List α → List Nat
  | _, [] => []
  | i, a :: t => if p a then i :: indicesFrom p (i + 1) t else indicesFrom p (i + 1) t

def selected (subset : List Int) : List Nat := indicesFrom (fun l => decide (-1 < l)) 0 subset

/-- the loop of `get_chain_vector`: previous selected cycle index `p`, running chain number `c`;
    a difference of one continues the chain, a larger one starts the next
    (the selected indices are strictly increasing, so the difference is never below one) -/
def chainFrom : Nat → Nat → List Nat → List Nat
  | _, _, [] => []
  | p, c, i :: t => if i = p + 1 then c :: chainFrom i c t else (c + 1) :: chainFrom i (c + 1) t

def chainOfSel : List Nat → List Nat
  | [] => []
  | i :: t => 0 :: chainFrom i 0 t

def chainVector (subset : List Int) : List Nat := chainOfSel (selected subset)

/-- number of chains: `chain_vect.max() + 1`, zero for an empty selection -/
def nChains (chain : List Nat) : Nat :=
  match chain with
  | [] => 0
  | c :: t => t.foldl max c + 1

/-- `project_chain_to_subset` -/
def projChainToSubset (cvals : List Val) (chain : List Nat) : List Val :=
  chain.map fun c => (cvals[c]?).join

/-- `project_subset_to_cycles` -/
def projSubsetToCycles (svals : List Val) (subset : List Int) : List Val :=
  subset.map fun j => if 0 ≤ j then (svals[j.toNat]?).join else none

def projChainToCycles (cvals : List Val) (chain : List Nat) (subset : List Int) : List Val :=
  projSubsetToCycles (projChainToSubset cvals chain) subset

/-- `vals[np.isnan(vals)] = -1` (then `astype(int)`, the identity on the integral values it is used for) -/
def nanToMinusOne (v : List Val) : List Val := v.map fun | none => some (-1) | some x => some x

/-- `float.astype(int)`: truncation toward zero -/
def truncR (x : Rat) : Rat := ((x.num.tdiv (x.den : Int) : Int) : Rat)

/-- the dtype=int route of `compute_chain_metric`: NaN becomes -1, then `astype(int)` -/
def toIntVals (v : List Val) : List Val := v.map fun | none => some (-1) | some x => some (truncR x)

/-- the `chain_ind` metric written by `pick_cycle_subset` -/
def chainInd (subset : List Int) (chain : List Nat) : List Val :=
  nanToMinusOne (projChainToCycles ((List.range (nChains chain)).map fun (c : Nat) => some (c : Rat)) chain subset)

/-! ### per-cycle statistics: label lookup and slice cache -/

/-- `vals[np.where(cycle_vect == k)[0]]` -/
def samplesOf (cv : List Int) (vals : List Rat) (k : Int) : List Rat :=
  ((cv.zip vals).filter fun p => decide (p.1 = k)).map (·.2)

def maxLabel (cv : List Int) : Int := cv.foldl max (-1)

/-- `np.max(cycle_vect) + 1` (labels are ≥ -1) -/
def nLabels (cv : List Int) : Nat := (maxLabel cv + 1).toNat

/-- the result of `get_cycle_stat_from_samples` when no index is out of range (every sample has a
    value): entry k is `f` on the values of the samples labelled k.  The code-shaped routine, which
    raises IndexError on a too short value vector, is `lookupStatE` below. -/
def lookupStat (f : List Rat → Rat) (cv : List Int) (vals : List Rat) : List Val :=
  (List.range (nLabels cv)).map fun (k : Nat) => some (f (samplesOf cv vals (k : Int)))

/-- `vals[inds]` with an integer index array (NumPy fancy indexing): IndexError as soon as one index
    is out of bounds — unlike `vals[start:stop]` (`sliceVals`), which clips silently. -/
def fancy (vals : List Rat) (inds : List Nat) : Except Err (List Rat) :=
  if inds.all (fun i => decide (i < vals.length)) then .ok (inds.map fun i => vals[i]?.getD 0) else .error .index

/-- the `for ii in range(ncycles)` loops: the first failing iteration aborts the whole call -/
def collect : List (Except Err Val) → Except Err (List Val)
  | [] => .ok []
  | .error e :: _ => .error e
  | .ok v :: t =>
    match collect t with
    | .error e => .error e
    | .ok r => .ok (v :: r)

/-- run-length encoding of the label vector: (label, length) of every maximal constant run -/
def rle : List Int → List (Int × Nat)
  | [] => []
  | a :: t =>
    match rle t with
    | (b, n) :: r => if a = b then (b, n + 1) :: r else (a, 1) :: (b, n) :: r
    | [] => [(a, 1)]

/-- one `slice(start, stop)` per labelled run, in temporal order -/
def sliceFrom : Nat → List (Int × Nat) → List (Nat × Nat)
  | _, [] => []
  | off, (l, n) :: t =>
    if 0 ≤ l then (off, off + n) :: sliceFrom (off + n) t else sliceFrom (off + n) t

/-- `make_slice_cache` -/
def sliceCache (cv : List Int) : List (Nat × Nat) := sliceFrom 0 (rle cv)

/-- `vals[start:stop]` -/
def sliceVals (vals : List Rat) (s : Nat × Nat) : List Rat := (vals.drop s.1).take (s.2 - s.1)

/-- `get_slice_stat_from_samples` (`None` slices give NaN) -/
def sliceStat (f : List Rat → Rat) (vals : List Rat) (sl : List (Option (Nat × Nat))) : List Val :=
  sl.map fun | none => none | some s => some (f (sliceVals vals s))

/-- first index of `idx` whose phase exceeds the threshold (`np.where(phase[idx] > 1.5*pi)[0][0]`) -/
def firstAbove (thr : Rat) (ph : List Rat) (idx : List Nat) : Option Nat :=
  idx.find? fun i => decide (thr < ph[i]?.getD 0)

def indicesOf (cv : List Int) (k : Int) : List Nat := indicesFrom (fun l => decide (l = k)) 0 cv

/-- `map_cycle_to_samples_augmented` as a half-open range: from the first sample of cycle k-1
    past the trough to the last sample of cycle k; `none` without such a sample -/
def augInds (thr : Rat) (ph : List Rat) (cv : List Int) (k : Nat) : Option (Nat × Nat) :=
  match firstAbove thr ph (indicesOf cv ((k : Int) - 1)) with
  | none => none
  | some t =>
    match (indicesOf cv (k : Int)).getLast? with
    | none => none
    | some e => some (t, e + 1)

/-- the result of `get_augmented_cycle_stat_from_samples` when no index is out of range
    (code-shaped routine with the IndexError: `lookupAugStatE`) -/
def lookupAugStat (f : List Rat → Rat) (thr : Rat) (ph : List Rat) (cv : List Int) (vals : List Rat) : List Val :=
  (List.range (nLabels cv)).map fun k =>
    match augInds thr ph cv k with
    | none => none
    | some s => some (f (sliceVals vals s))

/-- `make_aug_slice_cache`: every slice is extended into its predecessor, the first has none -/
def augSlices (thr : Rat) (ph : List Rat) : Option (Nat × Nat) → List (Nat × Nat) → List (Option (Nat × Nat))
  | _, [] => []
  | prev, s :: t =>
    (match prev with
      | none => none
      | some p => (firstAbove thr ph (List.range' p.1 (p.2 - p.1))).map fun i => (i, s.2))
      :: augSlices thr ph (some s) t

inductive Mode where
  | cycle | augmented
  deriving DecidableEq, Repr

/-- `get_cycle_stat_from_samples` as the code runs it: `vals[map_cycle_to_samples(cv, k)]` is an
    integer-array lookup and raises IndexError when a sample of cycle k has no value -/
def lookupStatE (f : List Rat → Rat) (cv : List Int) (vals : List Rat) : Except Err (List Val) :=
  collect ((List.range (nLabels cv)).map fun (k : Nat) =>
    (fancy vals (indicesOf cv (k : Int))).map fun seg => some (f seg))

/-- `get_augmented_cycle_stat_from_samples` as the code runs it: `vals[np.arange(trough, stop)]` -/
def lookupAugStatE (f : List Rat → Rat) (thr : Rat) (ph : List Rat) (cv : List Int) (vals : List Rat) :
    Except Err (List Val) :=
  collect ((List.range (nLabels cv)).map fun k =>
    match augInds thr ph cv k with
    | none => .ok none
    | some s => (fancy vals (List.range' s.1 (s.2 - s.1))).map fun seg => some (f seg))

/-- the four branches of `compute_cycle_metric`.  There is no length check on `vals`: the two
    label-lookup branches raise IndexError on a too short vector, the two slice-cache branches
    compute on the clipped slices. -/
def cycleStat (cache : Bool) (mode : Mode) (f : List Rat → Rat) (thr : Rat) (ph : List Rat)
    (cv : List Int) (vals : List Rat) : Except Err (List Val) :=
  match cache, mode with
  | false, .cycle => lookupStatE f cv vals
  | true, .cycle => .ok (sliceStat f vals ((sliceCache cv).map some))
  | false, .augmented => lookupAugStatE f thr ph cv vals
  | true, .augmented => .ok (sliceStat f vals (augSlices thr ph none (sliceCache cv)))

/-! ### chain statistics (`get_chain_stat_from_samples`, always by lookup) -/

/-- `map_chain_to_samples`: chain → subset indices → cycle → samples -/
def chainSamples (cv : List Int) (subset : List Int) (chain : List Nat) (vals : List Rat) (c : Nat) : List Rat :=
  (indicesFrom (fun x => decide (x = c)) 0 chain).flatMap fun (jj : Nat) =>
    (indicesFrom (fun l => decide (l = (jj : Int))) 0 subset).flatMap fun (k : Nat) => samplesOf cv vals (k : Int)

def chainStat (f : List Rat → Rat) (cv : List Int) (subset : List Int) (chain : List Nat) (vals : List Rat) : List Val :=
  (List.range (nChains chain)).map fun c => some (f (chainSamples cv subset chain vals c))

/-- position of every subset cycle inside its chain (`compute_position_in_chain`) -/
def posInChainFrom : List Nat → List Nat → List Nat
  | _, [] => []
  | seen, c :: t => (seen.filter (· = c)).length :: posInChainFrom (c :: seen) t

def posInChain (chain : List Nat) : List Nat := posInChainFrom [] chain

/-! ### state machine -/

structure Sel where
  conds : List Cond
  subset : List Int
  chain : List Nat

structure State where
  cv : List Int
  K : Nat
  phase : List Rat
  thr : Rat
  cache : Bool
  metrics : Store
  sel : Option Sel

structure Table where
  cols : List Name
  rows : List (List Val)

inductive ExportMode where
  | all | subset | conds (c : List Cond)

inductive Op where
  | computeMetric (name : Name) (vals : List Rat) (f : List Rat → Rat) (mode : Mode)
  | addMetric (name : Name) (vals : List Val)
  | addFromInt (name src : Name)
  | computeTimings
  | pickSubset (conds : List Cond)
  | computeChainMetric (name : Name) (vals : List Rat) (f : List Rat → Rat) (asInt : Bool)
  | computeChainTimings
  | export (m : ExportMode)
  | matching (conds : List Cond)

inductive Out where
  | done
  | table (t : Table)
  | bools (b : List Bool)

/-- `add_cycle_metric` / `_safe_add_metric`: the length guard -/
def addMetric (s : State) (name : Name) (v : List Val) : State × Except Err Out :=
  if v.length = s.K then ({ s with metrics := sset s.metrics name v }, .ok .done)
  else (s, .error .value)

/-- `C.add_cycle_metric(name, C.metrics[src], dtype=int)`: a STORED metric handed back as the values of a new
    integer metric.  `C.metrics[src]` raises KeyError for an unknown name; otherwise the int branch works on a COPY
    (NaN -> -1, truncation) and stores it under `name` — the metric `src` is left as it was (unless `name = src`). -/
def addFromInt (s : State) (name src : Name) : State × Except Err Out :=
  match sget s.metrics src with
  | none => (s, .error .key)
  | some v => addMetric s name (toIntVals v)

def computeMetric (s : State) (name : Name) (vals : List Rat) (f : List Rat → Rat) (mode : Mode) :
    State × Except Err Out :=
  match cycleStat s.cache mode f s.thr s.phase s.cv vals with
  | .error e => (s, .error e)
  | .ok v => addMetric s name v

def fFirst (l : List Rat) : Rat := l.head?.getD 0
def fLast (l : List Rat) : Rat := l.getLast?.getD 0
def fLen (l : List Rat) : Rat := (l.length : Rat)
def fNunique (l : List Rat) : Rat := (l.eraseDups.length : Rat)

def arange (n : Nat) : List Rat := (List.range n).map fun (i : Nat) => (i : Rat)
def cvRat (cv : List Int) : List Rat := cv.map fun (l : Int) => (l : Rat)

/-- run operations in order, stopping at the first that raises -/
def seqOps (s : State) : List (State → State × Except Err Out) → State × Except Err Out
  | [] => (s, .ok .done)
  | o :: t =>
    match o s with
    | (s', .ok _) => seqOps s' t
    | (s', .error e) => (s', .error e)

def computeTimings (s : State) : State × Except Err Out :=
  seqOps s [
    fun s => computeMetric s "start_sample".toList (arange s.cv.length) fFirst .cycle,
    fun s => computeMetric s "stop_sample".toList (arange s.cv.length) fLast .cycle,
    fun s => computeMetric s "duration".toList (cvRat s.cv) fLen .cycle]

/-- `pick_cycle_subset`: evaluate the conditions first; nothing changes when they are rejected -/
def pickSubset (F : List Char → Option Rat) (s : State) (conds : List Cond) : State × Except Err Out :=
  match matching F s.metrics conds with
  | .error e => (s, .error e)
  | .ok valids =>
    let subset := subsetVector valids
    let chain := chainVector subset
    addMetric { s with sel := some { conds, subset, chain } } chainIndName (chainInd subset chain)

def computeChainMetric (s : State) (name : Name) (vals : List Rat) (f : List Rat → Rat) (asInt : Bool) :
    State × Except Err Out :=
  match s.sel with
  | none => (s, .error .value)
  | some sel =>
    let v := projChainToCycles (chainStat f s.cv sel.subset sel.chain vals) sel.chain sel.subset
    addMetric s name (if asInt then toIntVals v else v)

def computePositionInChain (s : State) : State × Except Err Out :=
  match s.sel with
  | none => (s, .error .value)
  | some sel =>
    let v := nanToMinusOne (projSubsetToCycles ((posInChain sel.chain).map fun (p : Nat) => some (p : Rat)) sel.subset)
    ({ s with metrics := sset s.metrics "chain_position".toList v }, .ok .done)

def computeChainTimings (s : State) : State × Except Err Out :=
  seqOps s [
    fun s => computeChainMetric s "chain_start".toList (arange s.cv.length) fFirst true,
    fun s => computeChainMetric s "chain_end".toList (arange s.cv.length) fLast true,
    fun s => computeChainMetric s "chain_len_samples".toList (cvRat s.cv) fLen true,
    fun s => computeChainMetric s "chain_len_cycles".toList (cvRat s.cv) fNunique true,
    computePositionInChain]

def rowOf (m : Store) (k : Nat) : List Val := m.map fun e => (e.2[k]?).join

/-- `pd.DataFrame.from_dict(metrics)`: one column per metric in insertion order, one row per cycle -/
def tableAll (s : State) : Table := { cols := s.metrics.map (·.1), rows := (List.range s.K).map (rowOf s.metrics) }

/-- the name pandas' `reset_index` gives the column holding the old row numbers: `index`,
    `level_0` when a metric is already called `index`, ValueError when both are taken -/
def indexColumn (names : List Name) : Except Err Name :=
  if indexName ∉ names then .ok indexName
  else if level0Name ∉ names then .ok level0Name
  else .error .value

/-- `d.drop(rows not kept).reset_index()`: a leading column with the cycle numbers -/
def tableKeep (s : State) (keep : List Bool) : Except Err Table :=
  match indexColumn (s.metrics.map (·.1)) with
  | .error e => .error e
  | .ok ic =>
    .ok { cols := ic :: s.metrics.map (·.1),
          rows := ((List.range s.K).filter fun k => keep[k]?.getD false).map
                     fun (k : Nat) => some (k : Rat) :: rowOf s.metrics k }

def exportTable (F : List Char → Option Rat) (s : State) : ExportMode → Except Err Table
  | .all => .ok (tableAll s)
  | .subset =>
    match s.sel with
    | none => .ok (tableAll s)
    | some sel => tableKeep s (sel.subset.map fun j => decide (0 ≤ j))
  | .conds c =>
    match matching F s.metrics c with
    | .error e => .error e
    | .ok keep => tableKeep s keep

def step (F : List Char → Option Rat) (s : State) : Op → State × Except Err Out
  | .computeMetric name vals f mode => computeMetric s name vals f mode
  | .addMetric name vals => addMetric s name vals
  | .addFromInt name src => addFromInt s name src
  | .computeTimings => computeTimings s
  | .pickSubset conds => pickSubset F s conds
  | .computeChainMetric name vals f asInt => computeChainMetric s name vals f asInt
  | .computeChainTimings => computeChainTimings s
  | .export m =>
    match exportTable F s m with
    | .error e => (s, .error e)
    | .ok t => (s, .ok (.table t))
  | .matching conds =>
    match matching F s.metrics conds with
    | .error e => (s, .error e)
    | .ok b => (s, .ok (.bools b))

def run (F : List Char → Option Rat) (s : State) (ops : List Op) : State :=
  ops.foldl (fun s o => (step F s o).1) s

def isGoodF (g : Cycles.GoodCfg) (seg : List Rat) : Rat := if Cycles.isGood g seg then 1 else 0

/-- `Cycles.__init__`: all-cycles label vector, cycle count, empty store, then the `is_good` metric
    through `compute_cycle_metric` (so through the cache when it is on) -/
def init (g : Cycles.GoodCfg) (pstep thr : Rat) (cache : Bool) (ph : List Rat) : State × Except Err Out :=
  let cv := Cycles.paint (Cycles.cvSegs (Cycles.wrapAt pstep) (fun _ => true) ph)
  computeMetric { cv, K := nLabels cv, phase := ph, thr, cache, metrics := [], sel := none }
    isGoodName ph (isGoodF g) .cycle

/-- `Cycles(IP, phase_step, phase_edge, compute_timings, mode, use_cache)` with ALL its options.  The
    constructor accepts `mode` and does not use it: the quality flag is always `compute_cycle_metric('is_good',
    phase, is_good)` in its default mode 'cycle' (the wrap-delimited cycle), whatever `mode` says;
    `compute_timings=True` runs `compute_cycle_timings()` after the flag has been stored. -/
def initOpts (g : Cycles.GoodCfg) (pstep thr : Rat) (cache : Bool) (_mode : Mode) (timings : Bool)
    (ph : List Rat) : State × Except Err Out :=
  let r := init g pstep thr cache ph
  match r.2 with
  | .error _ => r
  | .ok _ => if timings then computeTimings r.1 else r

/-- `Cycles(...).metrics['is_good']` as 0/1 flags (`none`: the metric is missing or holds something else) -/
def isGoodFlags (s : State) : Option (List Bool) :=
  match sget s.metrics isGoodName with
  | none => none
  | some v => v.mapM fun
    | some r => if r = 1 then some true else if r = 0 then some false else none
    | none => none

/-! ### line protocol

  `CONT step= edge= twopi= endlo= thr= cache= | phase | [nprobe] | (cond chars | float table)* | ops…`
  A condition is sent as its code points; its float table has, for every suffix start `i`,
  the pair `(1, float(cond[i:]))` or `(0, 0)` when Python's `float` rejects that suffix.
  An operation is a header slot `[code, …]` followed by its operands. -/

open Protocol

def fMean (l : List Rat) : Rat := if l.length = 0 then 0 else Sig.sum l / (l.length : Rat)
def fMax (l : List Rat) : Rat := match l with | [] => 0 | a :: t => t.foldl max a
def fSum (l : List Rat) : Rat := Sig.sum l

def namedF : Nat → Option (List Rat → Rat)
  | 0 => some fMean | 1 => some fMax | 2 => some fSum | 3 => some fLen
  | 4 => some fFirst | 5 => some fLast | 6 => some fNunique
  | _ => none

def toChars? (v : List Rat) : Option (List Char) := (toNats? v).map fun l => l.map Char.ofNat

abbrev FTable := List (List Char × Option Rat)

def tableOf (chars : List Char) : List Rat → Option FTable
  | fl :: v :: rest =>
    (tableOf (chars.drop 1) rest).bind fun t =>
      if fl = 1 then some ((chars, some v) :: t) else if fl = 0 then some ((chars, none) :: t) else none
  | [] => some []
  | _ => none

def lookupF (t : FTable) (lit : List Char) : Option Rat :=
  match t.find? (·.1 = lit) with
  | some e => e.2
  | none => none

/-- read `n` conditions (two slots each) -/
def readConds : Nat → List (List Rat) → Option (List Cond × FTable × List (List Rat))
  | 0, rest => some ([], [], rest)
  | n + 1, cs :: tb :: rest => do
    let chars ← toChars? cs
    let t ← tableOf chars tb
    if t.length ≠ chars.length + 1 then none
    let (cs', t', rest') ← readConds n rest
    some (chars :: cs', t ++ t', rest')
  | _, _ => none

def readOps : Nat → Nat → List (List Rat) → Option (List Op × FTable)
  | _, _, [] => some ([], [])
  | 0, _, _ => none
  | fuel + 1, nsamp, hd :: rest => do
    let h ← toNats? hd
    match h with
    | [1, fc, md] =>
      match rest with
      | nm :: vals :: rest' => do
        let name ← toChars? nm
        let f ← namedF fc
        -- no length check here: `compute_cycle_metric` has none either (see `cycleStat`)
        let mode ← (if md = 0 then some Mode.cycle else if md = 1 then some Mode.augmented else none)
        let (ops, t) ← readOps fuel nsamp rest'
        some (Op.computeMetric name vals f mode :: ops, t)
      | _ => none
    | [2] =>
      match rest with
      | nm :: vals :: rest' => do
        let name ← toChars? nm
        let (ops, t) ← readOps fuel nsamp rest'
        some (Op.addMetric name (vals.map some) :: ops, t)
      | _ => none
    | [9] =>
      match rest with
      | nm :: sr :: rest' => do
        let name ← toChars? nm
        let src ← toChars? sr
        let (ops, t) ← readOps fuel nsamp rest'
        some (Op.addFromInt name src :: ops, t)
      | _ => none
    | [3] => do
      let (ops, t) ← readOps fuel nsamp rest
      some (Op.computeTimings :: ops, t)
    | [4, nc] => do
      let (cs, t0, rest') ← readConds nc rest
      let (ops, t) ← readOps fuel nsamp rest'
      some (Op.pickSubset cs :: ops, t0 ++ t)
    | [5] => do
      let (ops, t) ← readOps fuel nsamp rest
      some (Op.computeChainTimings :: ops, t)
    | [6, fc, ai] =>
      match rest with
      | nm :: vals :: rest' => do
        let name ← toChars? nm
        let f ← namedF fc
        if vals.length ≠ nsamp then none
        let (ops, t) ← readOps fuel nsamp rest'
        some (Op.computeChainMetric name vals f (ai != 0) :: ops, t)
      | _ => none
    | [7, 0] => do
      let (ops, t) ← readOps fuel nsamp rest
      some (Op.export .all :: ops, t)
    | [7, 1] => do
      let (ops, t) ← readOps fuel nsamp rest
      some (Op.export .subset :: ops, t)
    | [7, 2, nc] => do
      let (cs, t0, rest') ← readConds nc rest
      let (ops, t) ← readOps fuel nsamp rest'
      some (Op.export (.conds cs) :: ops, t0 ++ t)
    | [8, nc] => do
      let (cs, t0, rest') ← readConds nc rest
      let (ops, t) ← readOps fuel nsamp rest'
      some (Op.matching cs :: ops, t0 ++ t)
    | _ => none

def fmtName (n : List Char) : String := "n:" ++ ".".intercalate (n.map fun c => toString c.toNat)
def fmtVal : Val → String
  | none => "nan"
  | some r => fmtRat r
def fmtVals (v : List Val) : String := " ".intercalate (v.map fmtVal)

def fmtTable (tag : String) : Except Err Table → String
  | .error e => s!" | {tag} err {e.kind}"
  | .ok t =>
    s!" | {tag} ok {t.cols.length} {t.rows.length} | COLS {" ".intercalate (t.cols.map fmtName)}" ++
      String.join (t.rows.map fun r => s!" | ROW {fmtVals r}")

def fmtBools (tag : String) : Except Err (List Bool) → String
  | .error e => s!" | {tag} err {e.kind}"
  | .ok b => s!" | {tag} ok {" ".intercalate (b.map fmtBool)}"

def fmtStatus : Except Err Out → String
  | .error e => s!" | ST {e.kind}"
  | .ok .done => " | ST ok"
  | .ok (.table t) => " | ST ok" ++ fmtTable "RT" (.ok t)
  | .ok (.bools b) => " | ST ok" ++ fmtBools "RB" (.ok b)

def fmtState (s : State) : String :=
  s!" | K {s.K}" ++ String.join (s.metrics.map fun e => s!" | M {fmtName e.1} {fmtVals e.2}") ++
  (match s.sel with
   | none => " | SEL 0"
   | some sel => s!" | SEL 1 | SUB {fmtInts sel.subset} | CH {fmtNats sel.chain} | CONDS {" ".intercalate (sel.conds.map fmtName)}")

/-- what the harness observes after every step: the state, the three exports and the probe match -/
def fmtObs (F : List Char → Option Rat) (probe : List Cond) (s : State) : String :=
  fmtState s ++ fmtTable "TA" (exportTable F s .all) ++ fmtTable "TS" (exportTable F s .subset) ++
  fmtTable "TC" (exportTable F s (.conds probe)) ++ fmtBools "PM" (matching F s.metrics probe) ++ " | END"

def runAndPrint (F : List Char → Option Rat) (probe : List Cond) : State → List Op → String
  | _, [] => ""
  | s, o :: t =>
    let r := step F s o
    fmtStatus r.2 ++ fmtObs F probe r.1 ++ runAndPrint F probe r.1 t

def handle (o : Protocol.Op) : Option String :=
  match o.name with
  | "CONT" => some <| Id.run do
      let some pstep := o.rat? "step" | return "bad-op"
      let some edge := o.rat? "edge" | return "bad-op"
      let some twopi := o.rat? "twopi" | return "bad-op"
      let some endlo := o.rat? "endlo" | return "bad-op"
      let some thr := o.rat? "thr" | return "bad-op"
      let some cache := o.nat? "cache" | return "bad-op"
      let some slots := o.vecs.mapM id | return "bad-op"
      match slots with
      | ph :: np :: rest =>
        if ph.length = 0 then return "err ValueError"
        let some [nprobe] := toNats? np | return "bad-op"
        let some (probe, t0, rest') := readConds nprobe rest | return "bad-op"
        let some (ops, t1) := readOps (rest'.length + 1) ph.length rest' | return "bad-op"
        let F := lookupF (t0 ++ t1)
        let r := init { edge, twopi, endlo } pstep thr (cache != 0) ph
        return "ok" ++ fmtStatus r.2 ++ fmtObs F probe r.1 ++ runAndPrint F probe r.1 ops
      | _ => return "bad-op"
  | "CYGOODC" => some <| Id.run do
      -- the container's quality flag THROUGH THE CONSTRUCTOR with all its options:
      -- `CYGOODC step= edge= twopi= endlo= thr= cache=0|1 mode=0|1 timings=0|1 | phase` → `ok | flags`
      let some pstep := o.rat? "step" | return "bad-op"
      let some edge := o.rat? "edge" | return "bad-op"
      let some twopi := o.rat? "twopi" | return "bad-op"
      let some endlo := o.rat? "endlo" | return "bad-op"
      let some thr := o.rat? "thr" | return "bad-op"
      let some cache := o.nat? "cache" | return "bad-op"
      let some md := o.nat? "mode" | return "bad-op"
      let some tm := o.nat? "timings" | return "bad-op"
      let some ph := o.vec? 0 | return "bad-op"
      if ph.length = 0 then return "err ValueError"
      let some mode := (if md = 0 then some Mode.cycle else if md = 1 then some Mode.augmented else none) | return "bad-op"
      let r := initOpts { edge, twopi, endlo } pstep thr (cache != 0) mode (tm != 0) ph
      match r.2 with
      | .error e => return s!"err {e.kind}"
      | .ok _ =>
        match isGoodFlags r.1 with
        | none => return "err NoFlag"
        | some flags => return s!"ok K={r.1.K} | {" ".intercalate (flags.map fmtBool)}"
  | _ => none

end Container
