/- EmdModel.Container — (stub; filled in by the property that owns it) -/
import EmdModel.Protocol

namespace Container

def handle (_o : Protocol.Op) : Option String := none

end Container
