/-
  EmdModel.Protocol — the line protocol between the Python harness and the model.

    op     ::= NAME ( key=value )* ( '|' vector )*
    vector ::= rat*  |  'none'
    rat    ::= ['-'] digits [ '/' digits ]
    result ::= 'ok' …  |  'err' KIND  |  'bad-op'

  Malformed input is answered `bad-op`; nothing is defaulted.
-/
import EmdModel.Basic

namespace Protocol

def parseRat? (s : String) : Option Rat :=
  match s.splitOn "/" with
  | [n] => n.toInt?.map fun i => (i : Rat)
  | [n, d] => do
      let i ← n.toInt?
      let k ← d.toNat?
      if k = 0 then none else some (mkRat i k)
  | _ => none

def words (s : String) : List String := (s.splitOn " ").filter (· ≠ "")

def parseVec? (s : String) : Option (Option (List Rat)) :=
  let ws := words s
  if ws = ["none"] then some none
  else (ws.mapM parseRat?).map some

structure Op where
  name : String
  args : List (String × String)
  vecs : List (Option (List Rat))

def parseOp? (line : String) : Option Op := do
  match line.splitOn "|" with
  | [] => none
  | head :: rest =>
    match words head with
    | [] => none
    | name :: kvs =>
      let args ← kvs.mapM fun kv =>
        match kv.splitOn "=" with
        | [k, v] => some (k, v)
        | _ => none
      let vecs ← rest.mapM parseVec?
      some { name, args, vecs }

namespace Op
def str? (o : Op) (k : String) : Option String := (o.args.find? (·.1 = k)).map (·.2)
def nat? (o : Op) (k : String) : Option Nat := o.str? k >>= String.toNat?
def int? (o : Op) (k : String) : Option Int := o.str? k >>= String.toInt?
def rat? (o : Op) (k : String) : Option Rat := o.str? k >>= parseRat?
/-- the i-th vector, which must be present and not `none` -/
def vec? (o : Op) (i : Nat) : Option (List Rat) := (o.vecs[i]?).join
/-- the i-th vector slot (may legitimately be `none`) -/
def slot? (o : Op) (i : Nat) : Option (Option (List Rat)) := o.vecs[i]?
end Op

def fmtRat (r : Rat) : String :=
  if r.den = 1 then toString r.num else s!"{r.num}/{r.den}"

def fmtVec (v : List Rat) : String := " ".intercalate (v.map fmtRat)
def fmtInts (v : List Int) : String := " ".intercalate (v.map toString)
def fmtNats (v : List Nat) : String := " ".intercalate (v.map toString)
def fmtOptVec : Option (List Rat) → String
  | none => "none"
  | some v => fmtVec v
def fmtOptRats (v : List (Option Rat)) : String :=
  " ".intercalate (v.map fun | none => "nan" | some r => fmtRat r)
def fmtOptInts (v : List (Option Int)) : String :=
  " ".intercalate (v.map fun | none => "none" | some r => toString r)
def fmtBool (b : Bool) : String := if b then "1" else "0"

/-- integers sent as rationals: all denominators must be 1 -/
def toInts? (v : List Rat) : Option (List Int) :=
  v.mapM fun r => if r.den = 1 then some r.num else none

def toNats? (v : List Rat) : Option (List Nat) :=
  v.mapM fun r => if r.den = 1 ∧ 0 ≤ r.num then some r.num.toNat else none

def toBools? (v : List Rat) : Option (List Bool) :=
  v.mapM fun r => if r = 0 then some false else if r = 1 then some true else none

end Protocol
