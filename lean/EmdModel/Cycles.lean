/-
  EmdModel.Cycles — model of emd/cycles.py:get_cycle_vector and is_good (C12, C13).

  The implementation thresholds |diff(phase)| to find wraps, completes the
  boundary list with the two ends of the recording, walks the segments in
  order and gives every accepted segment the next integer label.

  The model splits the series into its maximal wrap-free runs (`runsBy`), which
  is the same partition, and labels accepted runs sequentially (`labelRuns`).
  Samples carry their validity-mask bit so that the mask veto is part of the
  acceptance test of a run.
-/
import EmdModel.Protocol

namespace Cycles

def absR (v : Rat) : Rat := if v < 0 then -v else v

/-- `np.abs(np.diff(phase)) > phase_step` between two consecutive samples -/
def wrapAt (step a b : Rat) : Bool := decide (step < absR (b - a))

/-- maximal runs of consecutive elements with no wrap between neighbours -/
def runsBy {α : Type} (w : α → α → Bool) : List α → List (List α)
  | [] => []
  | [a] => [[a]]
  | a :: b :: t =>
    if w a b then [a] :: runsBy w (b :: t)
    else match runsBy w (b :: t) with
      | r :: rs => (a :: r) :: rs
      | [] => [[a]]

/-- sequential labelling of accepted runs, counter starting at `c` -/
def labelRuns {α : Type} (accept : List α → Bool) : Nat → List (List α) → List (List α × Option Nat)
  | _, [] => []
  | c, r :: rs =>
    if accept r then (r, some c) :: labelRuns accept (c + 1) rs
    else (r, none) :: labelRuns accept c rs

/-- the labelled partition; a series without any wrap has no cycles at all -/
def cvSegs {α : Type} (w : α → α → Bool) (accept : List α → Bool) (xs : List α) :
    List (List α × Option Nat) :=
  let rs := runsBy w xs
  if rs.length ≤ 1 then rs.map fun r => (r, none) else labelRuns accept 0 rs

def labelInt : Option Nat → Int
  | some k => (k : Int)
  | none => -1

/-- per-sample label vector -/
def paint {α : Type} (segs : List (List α × Option Nat)) : List Int :=
  segs.flatMap fun s => List.replicate s.1.length (labelInt s.2)

def strictInc : List Rat → Bool
  | a :: b :: t => decide (a < b) && strictInc (b :: t)
  | _ => true

/-- float constants of the acceptance test, as computed by the implementation -/
structure GoodCfg where
  edge : Rat    -- phase_edge
  twopi : Rat   -- the double 2*pi
  endlo : Rat   -- the double 2*pi - phase_edge

/-- is_good(ret_all_checks=True) on one segment (checks 0..2; check 3 is True without waveform);
    `none` on an empty segment, where the implementation raises IndexError -/
def isGoodChecks (g : GoodCfg) (ph : List Rat) : Option (Bool × Bool × Bool) :=
  match ph.head?, ph.getLast? with
  | some a, some z =>
    some (strictInc ph, decide (0 ≤ a) && decide (a ≤ g.edge), decide (z ≤ g.twopi) && decide (g.endlo ≤ z))
  | _, _ => none

def isGood (g : GoodCfg) (ph : List Rat) : Bool :=
  match isGoodChecks g ph with
  | some (a, b, c) => a && b && c
  | none => false

/-- acceptance of one run of (phase, mask-bit) samples -/
def accept (g : GoodCfg) (good : Bool) (r : List (Rat × Bool)) : Bool :=
  r.all (·.2) && (!good || isGood g (r.map (·.1)))

def wrapP (step : Rat) (a b : Rat × Bool) : Bool := wrapAt step a.1 b.1

/-- get_cycle_vector on one column -/
def getCycleVector (g : GoodCfg) (step : Rat) (good : Bool) (ph : List Rat) (mask : List Bool) : List Int :=
  paint (cvSegs (wrapP step) (accept g good) (ph.zip mask))

/-- Resolution of the `phase_step` option of `get_cycle_vector` / `Cycles`: the documented default
    (`1.5*pi`, handed over as the double the implementation uses) applies ONLY when the caller passes
    nothing; every explicit value — 0, 0.0, negative, huge — is the threshold, as given. -/
def resolveStep (dflt : Rat) : Option Rat → Rat
  | none => dflt
  | some s => s

/-- get_cycle_vector on one column with the `phase_step` argument as the caller wrote it
    (`none` = argument omitted) -/
def getCycleVectorOpt (g : GoodCfg) (dflt : Rat) (step? : Option Rat) (good : Bool) (ph : List Rat)
    (mask : List Bool) : List Int :=
  getCycleVector g (resolveStep dflt step?) good ph mask

/-- number of labelled cycles -/
def nCycles {α : Type} (segs : List (List α × Option Nat)) : Nat := (segs.filterMap (·.2)).length

/-- the container's per-cycle quality flag: is_good on every cycle of the all-cycles partition -/
def containerIsGood (g : GoodCfg) (step : Rat) (ph : List Rat) : List Bool :=
  let segs := cvSegs (wrapAt step) (fun _ => true) ph
  (segs.filter (·.2.isSome)).map fun s => isGood g s.1

/-! ### Code-shaped model (index arithmetic as in the implementation)

`cvIdx` mirrors emd/cycles.py:get_cycle_vector line by line: wrap positions
`where(|diff| > step)[0] + 1`, boundary list `0 :: inds ++ [n]`, the segment
loop with its running counter, and the slice assignment `cycles[a:b] = count`.
`Proofs/Lemmas/CyclesIdx.lean` proves `cvIdx = paint ∘ cvSegs`, so every theorem
about the run-shaped model holds for the code-shaped one; the driver runs `cvIdx`. -/

/-- positions (i+1) of the wraps, as the code computes them -/
def wrapIdx {α : Type} (w : α → α → Bool) : List α → Nat → List Nat
  | a :: b :: t, i => if w a b then (i + 1) :: wrapIdx w (b :: t) (i + 1) else wrapIdx w (b :: t) (i + 1)
  | _, _ => []

/-- `cycles[a:b] = v` -/
def fill (l : List Int) (a b : Nat) (v : Int) : List Int :=
  l.take a ++ List.replicate (min b l.length - a) v ++ l.drop b

/-- the segment loop over the boundary list, with the running counter -/
def segLoop {α : Type} (accept : List α → Bool) (xs : List α) : List Nat → Nat → List Int → List Int
  | a :: b :: t, count, lab =>
    if accept ((xs.drop a).take (b - a)) then
      segLoop accept xs (b :: t) (count + 1) (fill lab a b (count : Int))
    else segLoop accept xs (b :: t) count lab
  | _, _, lab => lab

/-- code-shaped model of get_cycle_vector on one column -/
def cvIdx {α : Type} (w : α → α → Bool) (accept : List α → Bool) (xs : List α) : List Int :=
  let inds := wrapIdx w xs 0
  let lab := List.replicate xs.length (-1 : Int)
  if inds = [] then lab
  else segLoop accept xs (0 :: inds ++ [xs.length]) 0 lab

open Protocol in
def handle (o : Op) : Option String :=
  match o.name with
  | "CV" => some <| Id.run do
      -- `step=` is the explicit phase_step; with `dstep=` (the default) present it may be omitted (= argument omitted)
      let some stepArg := (match o.str? "step" with
        | none => some (none : Option Rat)
        | some t => (parseRat? t).map some) | return "bad-op"
      let some step := (match o.rat? "dstep" with
        | some d => some (resolveStep d stepArg)
        | none => stepArg) | return "bad-op"
      let some good := o.nat? "good" | return "bad-op"
      let some edge := o.rat? "edge" | return "bad-op"
      let some twopi := o.rat? "twopi" | return "bad-op"
      let some endlo := o.rat? "endlo" | return "bad-op"
      let some ph := o.vec? 0 | return "bad-op"
      let some ms := o.slot? 1 | return "bad-op"
      let mask ← match ms with
        | none => pure (List.replicate ph.length true)
        | some m => match toBools? m with
          | some b => pure b
          | none => return "bad-op"
      if mask.length ≠ ph.length then return "bad-op"
      let g : GoodCfg := { edge, twopi, endlo }
      let segs := cvSegs (wrapP step) (accept g (good != 0)) (ph.zip mask)
      let labels := cvIdx (wrapP step) (accept g (good != 0)) (ph.zip mask)
      return s!"ok k={nCycles segs} | {fmtInts labels}"
  | "ISGOOD" => some <| Id.run do
      let some edge := o.rat? "edge" | return "bad-op"
      let some twopi := o.rat? "twopi" | return "bad-op"
      let some endlo := o.rat? "endlo" | return "bad-op"
      let some ph := o.vec? 0 | return "bad-op"
      match isGoodChecks { edge, twopi, endlo } ph with
      | none => return "err IndexError"
      | some (a, b, c) => return s!"ok | {fmtBool a} {fmtBool b} {fmtBool c} 1"
  | "CYGOOD" => some <| Id.run do
      let some step := o.rat? "step" | return "bad-op"
      let some edge := o.rat? "edge" | return "bad-op"
      let some twopi := o.rat? "twopi" | return "bad-op"
      let some endlo := o.rat? "endlo" | return "bad-op"
      let some ph := o.vec? 0 | return "bad-op"
      let flags := containerIsGood { edge, twopi, endlo } step ph
      return s!"ok | {" ".intercalate (flags.map fmtBool)}"
  | _ => none

end Cycles
