/- EmdModel.Ensemble — (stub; filled in by the property that owns it) -/
import EmdModel.Protocol

namespace Ensemble

def handle (_o : Protocol.Op) : Option String := none

end Ensemble
