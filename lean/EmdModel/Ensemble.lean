/-
  EmdModel.Ensemble — worker pool, random stream and the ensemble sifts (C08; the pool is also
  what C07's schedule independence is about).

  * `Pool`: a `multiprocessing.Pool.starmap` call.  A *schedule* is the global order in which the
    jobs get executed plus the job → worker assignment.  Workers are created by `fork`: every
    worker starts from a private copy of the parent's state (`s0`), and a job that changes state
    (draws from the random generator) changes only the copy of the worker it runs on.  Results are
    collected by job index (`starmap` returns them in argument order).
  * the random generator is an abstract stream `draw : ρ → Sig × ρ`.
  * `ensembleTraceForkDraw` is the pinned code (`_sift_with_noise` draws inside the worker);
    `ensembleTrace` is the repaired code (the parent draws one array per member and ships it in
    the job arguments).  Both return, per member, the noise actually used next to the member's
    decomposition, which is what the harness observes from outside.
  * the classic sift is a parameter `S : Sig → List Sig` (cap and options fixed by the caller);
    the complete-ensemble variant uses `F`/`Fn : Sig → Sig` (first IMF of a signal / of a noise column).
-/
import EmdModel.Protocol

namespace Pool

structure Schedule where
  /-- global execution order of the job indices -/
  order : List Nat
  /-- job index ↦ worker that executes it -/
  worker : Nat → Nat

/-- σ schedules `N` jobs on `p` workers: every job is executed exactly once, by one of the workers -/
def Schedule.Valid (σ : Schedule) (N p : Nat) : Prop :=
  σ.order.Perm (List.range N) ∧ ∀ j, j < N → σ.worker j < p

/-- identity schedule: jobs in order, round-robin over `p` workers -/
def Schedule.roundRobin (N p : Nat) : Schedule := { order := List.range N, worker := fun j => j % p }

def upd {S : Type} (st : Nat → S) (w : Nat) (s : S) : Nat → S := fun w' => if w' = w then s else st w'

/-- run the jobs in the given order; `st w` is the private state of worker `w`;
    the log lists (job index, output) in execution order -/
def exec {S α β : Type} (job : S → α → β × S) (args : List α) (worker : Nat → Nat) :
    (Nat → S) → List Nat → List (Nat × β)
  | _, [] => []
  | st, j :: rest =>
    match args[j]? with
    | none => exec job args worker st rest
    | some a =>
      (j, (job (st (worker j)) a).1) ::
        exec job args worker (upd st (worker j) (job (st (worker j)) a).2) rest

/-- results by job index -/
def collect {β : Type} (N : Nat) (done : List (Nat × β)) : List β :=
  (List.range N).filterMap fun i => done.lookup i

/-- `starmap` of a job that reads and advances worker-private (forked) state -/
def runPoolFork {S α β : Type} (σ : Schedule) (job : S → α → β × S) (s0 : S) (args : List α) : List β :=
  collect args.length (exec job args σ.worker (fun _ => s0) σ.order)

/-- `starmap` of a pure job -/
def runPool {α β : Type} (σ : Schedule) (f : α → β) (args : List α) : List β :=
  runPoolFork σ (fun (_ : Unit) a => (f a, ())) () args

end Pool

namespace Ensemble
open Pool

inductive Mode | single | flip
  deriving DecidableEq

/-- the k-th array a generator in state `g` hands out -/
def nthDraw {ρ : Type} (draw : ρ → Sig × ρ) (g : ρ) : Nat → Sig
  | 0 => (draw g).1
  | k + 1 => nthDraw draw (draw g).2 k

/-- `N` successive draws -/
def drawN {ρ : Type} (draw : ρ → Sig × ρ) : Nat → ρ → List Sig
  | 0, _ => []
  | k + 1, g => (draw g).1 :: drawN draw k (draw g).2

/-- column `j` of a decomposition; a column the decomposition does not have counts as zero -/
def colOr (n : Nat) (r : List Sig) (j : Nat) : Sig := (r[j]?).getD (Sig.zeros n)

def half (a : Sig) : Sig := a.map (· / 2)

/-- `(a + b) / 2` column by column, the narrower decomposition zero-padded -/
def flipMean (n : Nat) (a b : List Sig) : List Sig :=
  (List.range (max a.length b.length)).map fun j => half (Sig.add (colOr n a j) (colOr n b j))

/-- `_sift_with_noise` with the noise array given -/
def siftWithNoise (S : Sig → List Sig) (mode : Mode) (scale : Option Rat) (x ν : Sig) : List Sig :=
  let ν' := match scale with
    | some c => Sig.smul c ν
    | none => ν
  match mode with
  | .single => S (Sig.add x ν')
  | .flip => flipMean x.length (S (Sig.add x ν')) (S (Sig.sub x ν'))

/-- `np.array(cols).mean(axis=0)` -/
def meanOver (n : Nat) (cs : List Sig) : Sig := (Sig.vsum n cs).map (· / (cs.length : Rat))

def maxWidth (members : List (List Sig)) : Nat := members.foldr (fun r m => max r.length m) 0

/-- per-IMF mean over the members; as many columns as the widest member has (every member is already
    capped by the sift it runs), narrower members zero-padded -/
def ensembleMean (n : Nat) (members : List (List Sig)) : List Sig :=
  (List.range (maxWidth members)).map fun j => meanOver n (members.map fun r => colOr n r j)

/-- repaired `ensemble_sift`: the parent draws, jobs are pure; per member (noise used, decomposition) -/
def ensembleTrace {ρ : Type} (σ : Schedule) (draw : ρ → Sig × ρ) (g : ρ) (S : Sig → List Sig)
    (mode : Mode) (N : Nat) (scale : Rat) (x : Sig) : List (Sig × List Sig) :=
  runPool σ (fun ν => (ν, siftWithNoise S mode (some scale) x ν)) (drawN draw N g)

/-- pinned `ensemble_sift`: every job draws from the forked copy of the generator of its worker -/
def ensembleTraceForkDraw {ρ : Type} (σ : Schedule) (draw : ρ → Sig × ρ) (g : ρ) (S : Sig → List Sig)
    (mode : Mode) (N : Nat) (scale : Rat) (x : Sig) : List (Sig × List Sig) :=
  runPoolFork σ (fun gw (_ : Nat) => (((draw gw).1, siftWithNoise S mode (some scale) x (draw gw).1), (draw gw).2))
    g (List.range N)

def ensembleSift {ρ : Type} (σ : Schedule) (draw : ρ → Sig × ρ) (g : ρ) (S : Sig → List Sig)
    (mode : Mode) (N : Nat) (scale : Rat) (x : Sig) : List Sig :=
  ensembleMean x.length ((ensembleTrace σ draw g S mode N scale x).map (·.2))

def ensembleSiftForkDraw {ρ : Type} (σ : Schedule) (draw : ρ → Sig × ρ) (g : ρ) (S : Sig → List Sig)
    (mode : Mode) (N : Nat) (scale : Rat) (x : Sig) : List Sig :=
  ensembleMean x.length ((ensembleTraceForkDraw σ draw g S mode N scale x).map (·.2))

/-! complete ensemble: the parent holds a noise matrix (one column per member); every stage adds
    column `i` to the current residual for member `i`, averages the members' first IMFs, then
    removes the first IMF of every noise column from that column. -/

/-- one fan-out of `_sift_with_noise(…, max_imfs=1)`: per member (noise used, [first IMF]) -/
def ceemdMembers (σ : Schedule) (F : Sig → Sig) (mode : Mode) (scale : Option Rat) (proto : Sig)
    (noise : List Sig) : List (Sig × List Sig) :=
  runPool σ (fun ν => (ν, siftWithNoise (fun y => [F y]) mode scale proto ν)) noise

def ceemdImf (σ : Schedule) (F : Sig → Sig) (mode : Mode) (scale : Option Rat) (proto : Sig)
    (noise : List Sig) : Sig :=
  meanOver proto.length ((ceemdMembers σ F mode scale proto noise).map fun m => colOr proto.length m.2 0)

/-- `noise = noise - first IMF of each noise column` -/
def ceemdNoiseStep (σ : Schedule) (Fn : Sig → Sig) (noise : List Sig) : List Sig :=
  List.zipWith Sig.sub noise (runPool σ Fn noise)

/-- the while loop, `stages` iterations; `c` counts the `starmap` calls made so far (two per stage) -/
def ceemdLoop (σ : Nat → Schedule) (F Fn : Sig → Sig) (mode : Mode) (x : Sig) :
    Nat → Nat → List Sig → List Sig → List Sig × List Sig
  | 0, _, imf, noise => (imf, noise)
  | s + 1, c, imf, noise =>
    let proto := Sig.sub x (Sig.vsum x.length imf)
    let next := ceemdImf (σ c) F mode none proto noise
    ceemdLoop σ F Fn mode x s (c + 2) (imf ++ [next]) (ceemdNoiseStep (σ (c + 1)) Fn noise)

/-- `complete_ensemble_sift` with the parent matrix `M` (columns) and `stages` loop iterations.
    As in the (repaired) code the first fan-out receives the already scaled matrix and NO further scale
    (`noise_scaling=None`), like every later fan-out.  (The pinned code passed the scale once more: the
    first-stage noise was `scale²·M_i`.) -/
def ceemd (σ : Nat → Schedule) (F Fn : Sig → Sig) (mode : Mode) (scale : Rat) (M : List Sig) (x : Sig)
    (stages : Nat) : List Sig × List Sig :=
  let noise0 := M.map (Sig.smul scale)
  let imf0 := ceemdImf (σ 0) F mode none x noise0
  ceemdLoop σ F Fn mode x stages 2 [imf0] (ceemdNoiseStep (σ 1) Fn noise0)

/-! ### the noise amplitude as the code computes it: `noise_scaling = X.std() * ensemble_noise`

  `std` is an oracle (`np.std`).  The amplitude is the PRODUCT and nothing else: there is no threshold below
  which a non-zero product is treated as "no noise" (a member is sifted with `x ± (std x · level)·ν` at any
  amplitude of `x`). -/

def noiseScale (std : Sig → Rat) (level : Rat) (x : Sig) : Rat := std x * level

/-- the array actually added to (subtracted from) the signal for member `i` -/
def memberNoise {ρ : Type} (draw : ρ → Sig × ρ) (g : ρ) (std : Sig → Rat) (level : Rat) (x : Sig) (i : Nat) : Sig :=
  Sig.smul (noiseScale std level x) (nthDraw draw g i)

/-- `ensemble_sift(X, nensembles=N, ensemble_noise=level, noise_mode=mode)`: trace and result -/
def ensembleTraceLevel {ρ : Type} (σ : Schedule) (draw : ρ → Sig × ρ) (g : ρ) (S : Sig → List Sig)
    (mode : Mode) (N : Nat) (std : Sig → Rat) (level : Rat) (x : Sig) : List (Sig × List Sig) :=
  ensembleTrace σ draw g S mode N (noiseScale std level x) x

def ensembleSiftLevel {ρ : Type} (σ : Schedule) (draw : ρ → Sig × ρ) (g : ρ) (S : Sig → List Sig)
    (mode : Mode) (N : Nat) (std : Sig → Rat) (level : Rat) (x : Sig) : List Sig :=
  ensembleSift σ draw g S mode N (noiseScale std level x) x

/-- `complete_ensemble_sift(X, nensembles, ensemble_noise=level, …)` with the drawn matrix `M` -/
def ceemdLevel (σ : Nat → Schedule) (F Fn : Sig → Sig) (mode : Mode) (std : Sig → Rat) (level : Rat)
    (M : List Sig) (x : Sig) (stages : Nat) : List Sig × List Sig :=
  ceemd σ F Fn mode (noiseScale std level x) M x stages

/-! ## protocol -/

/-- the noise scale of an op: either given (`scale=`) or computed by the model from the oracle value of
    `np.std(x)` and the requested level (`std=`, `level=`) -/
def opScale (o : Protocol.Op) (x : Sig) : Option Rat :=
  match o.rat? "std", o.rat? "level" with
  | some sd, some lv => some (noiseScale (fun _ => sd) lv x)
  | _, _ => o.rat? "scale"

/-- oracle table lookup by argument (∞-norm tolerance) -/
def close (tol : Rat) : Sig → Sig → Bool
  | [], [] => true
  | a :: as, b :: bs => decide (Rat.abs' (a - b) ≤ tol) && close tol as bs
  | _, _ => false

def lookupTbl {β : Type} (tol : Rat) (tbl : List (Sig × β)) (dflt : β) (arg : Sig) : β :=
  match tbl.find? (fun e => close tol e.1 arg) with
  | some e => e.2
  | none => dflt

def hasEntry {β : Type} (tol : Rat) (tbl : List (Sig × β)) (arg : Sig) : Bool :=
  (tbl.find? (fun e => close tol e.1 arg)).isSome

/-- generator used by the driver: state = remaining arrays -/
def listDraw (n : Nat) : List Sig → Sig × List Sig
  | [] => (Sig.zeros n, [])
  | ν :: rest => (ν, rest)

/-- generator whose k-th array is `[k]` (used to print which draw a member received) -/
def counterDraw (g : Nat) : Sig × Nat := ([(g : Rat)], g + 1)

def takeVecs (vs : List (Option (List Rat))) (a k : Nat) : Option (List Sig) :=
  ((vs.drop a).take k).mapM id |>.bind fun l => if l.length = k then some l else none

/-- parse `count` table entries (arg followed by `widths[i]` columns) starting at slot `a` -/
def parseTbl (vs : List (Option (List Rat))) : Nat → List Nat → Option (List (Sig × List Sig))
  | _, [] => some []
  | a, w :: ws => do
    let arg ← (vs[a]?).join
    let cols ← takeVecs vs (a + 1) w
    let rest ← parseTbl vs (a + 1 + w) ws
    some ((arg, cols) :: rest)

def parsePairs (vs : List (Option (List Rat))) : Nat → Nat → Option (List (Sig × Sig))
  | _, 0 => some []
  | a, k + 1 => do
    let arg ← (vs[a]?).join
    let res ← (vs[a + 1]?).join
    let rest ← parsePairs vs (a + 2) k
    some ((arg, res) :: rest)

def parseSchedule (N p : Nat) (order workers : List Rat) : Option Schedule := do
  let ord ← Protocol.toNats? order
  let wk ← Protocol.toNats? workers
  if wk.length ≠ N then none
  else if ord.length ≠ N then none
  else if !(List.range N).all (fun j => ord.contains j) then none
  else if !wk.all (fun w => decide (w < p)) then none
  else some { order := ord, worker := fun j => wk[j]?.getD 0 }

def parseMode (flip : Nat) : Option Mode :=
  if flip = 0 then some .single else if flip = 1 then some .flip else none

open Protocol in
def handle (o : Op) : Option String :=
  match o.name with
  | "POOLMAP" => some <| Id.run do
      -- a pure job (a ↦ a² + 1) mapped under an observed schedule
      let some N := o.nat? "n" | return "bad-op"
      let some p := o.nat? "p" | return "bad-op"
      let some order := o.vec? 0 | return "bad-op"
      let some workers := o.vec? 1 | return "bad-op"
      let some args := o.vec? 2 | return "bad-op"
      if p = 0 then return "err ValueError"
      if args.length ≠ N then return "bad-op"
      let some σ := parseSchedule N p order workers | return "bad-op"
      return s!"ok | {fmtVec (runPool σ (fun a => a * a + 1) args)}"
  | "POOLNOISE" => some <| Id.run do
      -- which draw does each member receive under the given schedule?
      let some N := o.nat? "n" | return "bad-op"
      let some p := o.nat? "p" | return "bad-op"
      let some model := o.str? "model" | return "bad-op"
      let some order := o.vec? 0 | return "bad-op"
      let some workers := o.vec? 1 | return "bad-op"
      if p = 0 then return "err ValueError"
      let some σ := parseSchedule N p order workers | return "bad-op"
      let tr ← match model with
        | "parent" => pure (ensembleTrace σ counterDraw 0 (fun _ => []) .single N 1 [])
        | "fork" => pure (ensembleTraceForkDraw σ counterDraw 0 (fun _ => []) .single N 1 [])
        | _ => return "bad-op"
      return s!"ok | {fmtVec (tr.map fun m => m.1.headD (-1))}"
  | "ENS" => some <| Id.run do
      let some N := o.nat? "n" | return "bad-op"
      let some flip := o.nat? "flip" | return "bad-op"
      let some mode := parseMode flip | return "bad-op"
      let some tol := o.rat? "tol" | return "bad-op"
      let some p := o.nat? "p" | return "bad-op"
      let some x := o.vec? 0 | return "bad-op"
      let some scale := opScale o x | return "bad-op"
      let some order := o.vec? 1 | return "bad-op"
      let some workers := o.vec? 2 | return "bad-op"
      let some noises := takeVecs o.vecs 3 N | return "bad-op"
      let some widths := (o.vec? (3 + N)).bind toNats? | return "bad-op"
      let some tbl := parseTbl o.vecs (4 + N) widths | return "bad-op"
      if p = 0 then return "err ValueError"
      if N = 0 then return "bad-op"
      let some σ := parseSchedule N p order workers | return "bad-op"
      if noises.any (fun ν => ν.length ≠ x.length) then return "bad-op"
      -- every point the model evaluates the sift at must be in the oracle table
      let pts := noises.flatMap fun ν =>
        match mode with
        | .single => [Sig.add x (Sig.smul scale ν)]
        | .flip => [Sig.add x (Sig.smul scale ν), Sig.sub x (Sig.smul scale ν)]
      if pts.any (fun a => !hasEntry tol tbl a) then return "oracle-desync sift-table-misses-a-member-input"
      let S := lookupTbl tol tbl []
      let out := ensembleSift σ (listDraw x.length) noises S mode N scale x
      return s!"ok k={out.length}" ++ String.join (out.map fun c => " | " ++ fmtVec c)
  | "CEEMD" => some <| Id.run do
      let some N := o.nat? "n" | return "bad-op"
      let some flip := o.nat? "flip" | return "bad-op"
      let some mode := parseMode flip | return "bad-op"
      let some tol := o.rat? "tol" | return "bad-op"
      let some stages := o.nat? "stages" | return "bad-op"
      let some nf := o.nat? "nf" | return "bad-op"
      let some nn := o.nat? "nn" | return "bad-op"
      let some rot := o.nat? "rot" | return "bad-op"
      let some x := o.vec? 0 | return "bad-op"
      let some scale := opScale o x | return "bad-op"
      let some M := takeVecs o.vecs 1 N | return "bad-op"
      let some tf := parsePairs o.vecs (1 + N) nf | return "bad-op"
      let some tn := parsePairs o.vecs (1 + N + 2 * nf) nn | return "bad-op"
      if N = 0 then return "bad-op"
      if M.any (fun ν => ν.length ≠ x.length) then return "bad-op"
      -- the result does not depend on the schedule; the driver rotates the execution order by `rot`
      let σ : Nat → Schedule := fun c =>
        { order := (List.range N).map (fun j => (j + rot + c) % N), worker := fun j => (j + c) % (rot + 1) }
      let miss : Sig := []
      let F := lookupTbl tol tf miss
      let Fn := lookupTbl tol tn miss
      let (imf, noise) := ceemd σ F Fn mode scale M x stages
      if imf.any (fun c => c.length ≠ x.length) || noise.any (fun c => c.length ≠ x.length) then
        return "oracle-desync first-imf-table-misses-a-member-input"
      return s!"ok k={imf.length}" ++ String.join (imf.map fun c => " | " ++ fmtVec c)
        ++ String.join (noise.map fun c => " | " ++ fmtVec c)
  | _ => none

end Ensemble
