/-
  EmdModel.Sift — model of emd/sift.py: get_next_imf (C04), sift (C01, C03) and the
  counter / cap logic of mask_sift, ensemble_sift, complete_ensemble_sift,
  sift_second_layer and mask_sift_second_layer (C03).

  Library numerics are oracle parameters:
    * the envelope interpolant `I` (splrep/splev, pchip) — values only; *whether* an envelope
      exists is modelled here (`envOf`): `get_padded_extrema` returns None iff the signal has
      fewer than two strict interior maxima (upper) / minima (lower);
    * `D : Sig → Sig → Rat`, the energy difference in dB (`log10`).
  Oracles take the iteration / layer index as an extra argument.  The code's oracles do not
  depend on it (`getNextImf`, `sift` instantiate with `fun _ => E`); the generality lets the
  correspondence driver answer oracle queries from the table recorded on the real code.

  Everything is exact rational arithmetic; float comparisons `a/b < t` are written
  cross-multiplied (`a < t*b`), which also reproduces numpy's inf/nan outcomes for `b = 0`.
-/
import EmdModel.Protocol

namespace Sift

/-! ## single-IMF extraction (emd.sift.get_next_imf) -/

inductive StopRule where
  | sd (thr : Rat)
  | rilling (sd1 sd2 tol : Rat)
  | fixed
  deriving DecidableEq

structure ImfOpts where
  stop : StopRule
  step : Rat                      -- env_step_size
  maxIters : Nat                  -- max_iters
  energyThresh : Option Rat       -- energy_thresh

/-- (upper, lower) envelope; `none` = `interp_envelope` returned None -/
abbrev Env := Option Sig × Option Sig

/-- `sd_stop(proto_imf, x1)`: `sum((proto-x1)**2)/sum(proto**2) < sd` -/
def sdStop (thr : Rat) (h x1 : Sig) : Bool :=
  decide (Sig.sumSq (Sig.sub h x1) < thr * Sig.sumSq h)

/-- per sample: `abs(avg_env)/amp > sd` with `avg_env=(u+l)/2`, `amp=abs(u-l)/2` -/
def rillingBig (sd : Rat) (U L : Sig) : List Bool :=
  List.zipWith (fun u l => decide (sd * (Rat.abs' (u - l) / 2) < Rat.abs' ((u + l) / 2))) U L

/-- `rilling_stop(upper, lower, sd1, sd2, tol)` -/
def rillingStop (sd1 sd2 tol : Rat) (U L : Sig) : Bool :=
  let big1 := rillingBig sd1 U L
  let continue1 := decide (tol * (big1.length : Rat) < ((big1.count true : Nat) : Rat))   -- mean(eval > sd1) > tol
  let continue2 := (rillingBig sd2 U L).any id                                          -- any(eval > sd2)
  !(continue1 || continue2)

/-- the stop test evaluated in iteration number `niters` (1-based, as in the code) -/
def stopTest (r : StopRule) (niters maxIters : Nat) (h x1 U L : Sig) : Bool :=
  match r with
  | .sd thr => sdStop thr h x1
  | .rilling a b t => rillingStop a b t U L
  | .fixed => niters == maxIters                       -- fixed_stop

/-- how the `while` loop was left -/
inductive Outcome where
  | stopped (k : Nat) (c : Sig)      -- the rule fired on iterate h_k; c = h_k - mean envelope
  | noExtrema (k : Nat) (h : Sig)    -- iterate h_k has an undefined envelope; h = h_k
  | noConverge                       -- EMDSiftCovergeError
  deriving DecidableEq

/-- The `while continue_imf` loop.  `k` = completed iterations (`niters` before the increment),
    `h` = current proto-IMF.  The first argument is the number of iterations still allowed:
    the code tests `niters > max_iters` *before* incrementing (non-fixed rules), so iterations
    k = 0 … max_iters are performed and the error is raised when k = max_iters+1. -/
def loop (E : Nat → Sig → Env) (o : ImfOpts) : Nat → Nat → Sig → Outcome
  | 0, _, _ => .noConverge
  | fuel + 1, k, h =>
    match E k h with
    | (some U, some L) =>
      let avg := Sig.mean2 U L
      let x1 := Sig.sub h avg
      if stopTest o.stop (k + 1) o.maxIters h x1 U L then .stopped k x1
      else loop E o fuel (k + 1) (Sig.sub h (Sig.smul o.step avg))
    | _ => .noExtrema k h

/-- iterations the loop can perform: max_iters+1 for sd/rilling (limit test before the increment);
    for `fixed` the rule fires in iteration max_iters (max_iters = 0 never terminates in the code —
    outside the documented range `max_iters > 0`, excluded by hypothesis in the theorems). -/
def budget (o : ImfOpts) : Nat :=
  match o.stop with
  | .fixed => o.maxIters
  | _ => o.maxIters + 1

def run (E : Nat → Sig → Env) (o : ImfOpts) (x : Sig) : Outcome := loop E o (budget o) 0 x

inductive ImfResult where
  | imf (c : Sig) (flag : Bool)      -- (proto_imf, continue_flag)
  | convergeError
  deriving DecidableEq

/-- `energy_thresh` handling after the loop: `_energy_difference(X, X - imf) > energy_thresh`
    clears the flag -/
def energyFlag (D : Sig → Sig → Rat) (o : ImfOpts) (x c : Sig) (flag : Bool) : Bool :=
  match o.energyThresh with
  | none => flag
  | some t => flag && !(decide (t < D x (Sig.sub x c)))

/-- Flag of the no-extrema exit: cleared only when no mean removal has happened (k = 0),
    i.e. the input is returned unmodified as the final residual. -/
def finish (D : Sig → Sig → Rat) (o : ImfOpts) (x : Sig) : Outcome → ImfResult
  | .noConverge => .convergeError
  | .stopped _ c => .imf c (energyFlag D o x c true)
  | .noExtrema k h => .imf h (energyFlag D o x h (k != 0))

def getNextImfIx (E : Nat → Sig → Env) (D : Sig → Sig → Rat) (o : ImfOpts) (x : Sig) : ImfResult :=
  finish D o x (run E o x)

/-- get_next_imf with an envelope oracle that (like the code's) does not depend on the iteration -/
def getNextImf (E : Sig → Env) (D : Sig → Sig → Rat) (o : ImfOpts) (x : Sig) : ImfResult :=
  getNextImfIx (fun _ => E) D o x

/-- spec sequence: h₀ = x, h_{k+1} = h_k − step·mean(U h_k, L h_k); `none` once an envelope is missing -/
def iter (E : Nat → Sig → Env) (step : Rat) : Nat → Sig → Option Sig
  | 0, x => some x
  | k + 1, x =>
    match iter E step k x with
    | none => none
    | some h =>
      match E k h with
      | (some U, some L) => some (Sig.sub h (Sig.smul step (Sig.mean2 U L)))
      | _ => none

/-! ## when does an envelope exist (get_padded_extrema → None) -/

/-- number of strict interior maxima (`argrelextrema(X, np.greater, order=1)`; end points never count) -/
def peaks : Sig → Nat
  | a :: b :: c :: t => (if a < b ∧ c < b then 1 else 0) + peaks (b :: c :: t)
  | _ => 0

/-- troughs are the peaks of `-X` -/
def troughs (h : Sig) : Nat := peaks (Sig.neg h)

/-- envelopes from an interpolation oracle: an envelope is None iff fewer than two extrema of its kind -/
def envOf (I : Nat → Sig → Sig × Sig) : Nat → Sig → Env := fun k h =>
  (if peaks h < 2 then none else some (I k h).1, if troughs h < 2 then none else some (I k h).2)

/-! ## classic sift (emd.sift.sift) -/

inductive SiftEnd where
  | done (flagCleared capHit thrHit : Bool)   -- which of the three terminators fired in the last layer
  | raised                                    -- the extraction raised (error propagates)
  | outOfFuel                                 -- model artefact: the outer loop has no termination proof
  deriving DecidableEq

/-- The `while continue_sift` loop shared by `sift` and `mask_sift`; state = (columns so far,
    running residual `proto_imf`).  `X cols proto` is the single-IMF extraction of the layer
    (`none` = it raised); it may depend on the columns extracted so far (mask amplitude / frequency
    of the layer), the classic sift only uses their number. -/
def peelLoop (X : List Sig → Sig → Option (Sig × Bool)) (thr : Rat) (cap : Option Nat) (x : Sig) :
    Nat → List Sig → Sig → List Sig × SiftEnd
  | 0, cols, _ => (cols, .outOfFuel)
  | fuel + 1, cols, proto =>
    match X cols proto with
    | none => (cols, .raised)
    | some (c, cont) =>
      let cols' := cols ++ [c]                                    -- imf = concatenate((imf, next_imf))
      let proto' := Sig.sub x (Sig.vsum x.length cols')           -- proto_imf = X - imf.sum(axis=1)
      let capHit := cap == some cols'.length                      -- layer == max_imfs
      let thrHit := decide (Sig.absSum c < thr)                   -- abs(next_imf).sum() < sift_thresh
      if cont && !capHit && !thrHit then peelLoop X thr cap x fuel cols' proto'
      else (cols', .done (!cont) capHit thrHit)

/-- classic sift: the extraction of layer k is `X k` -/
def siftLoop (X : Nat → Sig → Option (Sig × Bool)) (thr : Rat) (cap : Option Nat) (x : Sig) :
    Nat → List Sig → Sig → List Sig × SiftEnd :=
  peelLoop (fun cols p => X cols.length p) thr cap x

def siftIx (X : Nat → Sig → Option (Sig × Bool)) (thr : Rat) (cap : Option Nat) (x : Sig) (fuel : Nat) :
    List Sig × SiftEnd :=
  siftLoop X thr cap x fuel [] x

def sift (X : Sig → Option (Sig × Bool)) (thr : Rat) (cap : Option Nat) (x : Sig) (fuel : Nat) :
    List Sig × SiftEnd :=
  siftIx (fun _ => X) thr cap x fuel

/-- `get_next_imf` as the extractor of `sift` (a convergence error propagates: `none`) -/
def extractorIx (E : Nat → Sig → Env) (D : Sig → Sig → Rat) (o : ImfOpts) : Sig → Option (Sig × Bool) := fun p =>
  match getNextImfIx E D o p with
  | .imf c f => some (c, f)
  | .convergeError => none

def extractor (E : Sig → Env) (D : Sig → Sig → Rat) (o : ImfOpts) : Sig → Option (Sig × Bool) :=
  extractorIx (fun _ => E) D o

/-! ## counter / cap logic of the other sift variants (C03) -/

/-- mask_sift: `if len(mask_freqs) < max_imfs: max_imfs = len(mask_freqs)` (user supplied frequencies) -/
def effCap (cap : Nat) (nfreqs : Option Nat) : Nat :=
  match nfreqs with
  | some m => if m < cap then m else cap
  | none => cap

/-- mask_sift: the same peeling loop (`imf_layer == max_imfs-1` before the increment is
    `layer == max_imfs` after it); `M cols proto` = get_next_imf_mask with the layer's mask -/
def maskSift (M : List Sig → Sig → Option (Sig × Bool)) (thr : Rat) (cap : Nat) (nfreqs : Option Nat)
    (x : Sig) (fuel : Nat) : List Sig × SiftEnd :=
  peelLoop M thr (some (effCap cap nfreqs)) x fuel [] x

def colOr (n : Nat) (m : List Sig) (j : Nat) : Sig := (m[j]?).getD (Sig.zeros n)

/-- mean over the members, column by column -/
def meanOf (n : Nat) (vs : List Sig) : Sig := Sig.smul (1 / (vs.length : Rat)) (Sig.vsum n vs)

def maxWidth (members : List (List Sig)) : Nat := members.foldl (fun w m => if w < m.length then m.length else w) 0

/-- ensemble_sift averaging: as many columns as the widest member; a member contributes zeros beyond
    its own last component -/
def ensembleCols (n : Nat) (members : List (List Sig)) : List Sig :=
  (List.range (maxWidth members)).map fun j => meanOf n (members.map fun m => colOr n m j)

/-- ensemble_sift: every member is a capped classic sift of the input plus its noise -/
def ensembleSift (X : Nat → Sig → Option (Sig × Bool)) (thr : Rat) (cap : Option Nat) (x : Sig) (fuel : Nat)
    (noises : List Sig) : List Sig :=
  ensembleCols x.length (noises.map fun nz => (siftIx X thr cap (Sig.add x nz) fuel).1)

inductive CeemdEnd where
  | done (pkStop capStop thrStop : Bool)
  | outOfFuel
  deriving DecidableEq

/-- complete_ensemble_sift main loop: `Nx cols proto` = ensemble mean of the first IMFs of
    proto ± noise_k (abstract); `layer` counts the components computed so far. -/
def ceemdLoop (Nx : List Sig → Sig → Sig) (thr : Rat) (cap : Option Nat) (x : Sig) :
    Nat → List Sig → List Sig × CeemdEnd
  | 0, cols => (cols, .outOfFuel)
  | fuel + 1, cols =>
    let proto := Sig.sub x (Sig.vsum x.length cols)
    let c := Nx cols proto
    let cols' := cols ++ [c]
    let pkStop := decide (peaks c < 2)                                       -- len(pks) < 2
    let capStop := cap == some cols'.length                                  -- layer == max_imfs
    let thrStop := decide (Sig.absSum c < thr * (c.length : Rat))            -- abs(next_imf).mean() < sift_thresh
    if pkStop || capStop || thrStop then (cols', .done pkStop capStop thrStop)
    else ceemdLoop Nx thr cap x fuel cols'

/-- complete_ensemble_sift: the first component comes from a plain ensemble step; the loop is entered
    unless the cap is already reached -/
def ceemd (Nx : List Sig → Sig → Sig) (thr : Rat) (cap : Option Nat) (x : Sig) (fuel : Nat) :
    List Sig × CeemdEnd :=
  let c0 := Nx [] x
  match cap with
  | some k => if k ≤ 1 then ([c0], .done false true false) else ceemdLoop Nx thr cap x fuel [c0]
  | none => ceemdLoop Nx thr cap x fuel [c0]

/-- pad / keep the first `k` columns: `imf2[:, ii, :tmp.shape[1]] = tmp` into zeros of width `k` -/
def padCols (n k : Nat) (cols : List Sig) : List Sig := (List.range k).map fun j => colOr n cols j

/-- sift_second_layer: one capped sift per first-layer column, stored in a [n × first × k] array,
    k = max_imfs of sift_args, default: number of first-layer columns -/
def secondLayer (S : Nat → Sig → List Sig) (n : Nat) (ia : List Sig) (cap : Option Nat) : List (List Sig) :=
  let k := cap.getD ia.length
  ia.map fun col => padCols n k (S k col)

/-- how `mask_sift_second_layer` ends -/
inductive L2Result where
  | ok (blocks : List (List Sig))
  | indexError (col : Nat)      -- `mask_freqs[col:]` is empty: `mask_sift` reads `mask_freqs[0]` → IndexError
  | raised (col : Nat)          -- the mask sift of first-layer column `col` raised (error propagates)
  deriving DecidableEq

/-- The `for ii in range(IA.shape[1])` loop of `mask_sift_second_layer`.  `ii` = index of the first-layer
    column, `nfreqs = len(mask_freqs)`; `MS ii k col` = `mask_sift(col, mask_freqs=mask_freqs[ii:], max_imfs=k,
    **sift_args)` (`none` = it raised).  The highest-frequency mask is dropped for each successive column, so
    column `ii` has `nfreqs - ii` masks left; with none left `mask_sift` raises IndexError on `mask_freqs[0]`.
    Every result is stored in a zero block of width `k` (`imf2[:, ii, :tmp.shape[1]] = tmp`). -/
def maskSecondLoop (MS : Nat → Nat → Sig → Option (List Sig)) (n k nfreqs : Nat) : Nat → List Sig → L2Result
  | _, [] => .ok []
  | ii, col :: rest =>
    if nfreqs ≤ ii then .indexError ii
    else match MS ii k col with
      | none => .raised ii
      | some cols =>
        match maskSecondLoop MS n k nfreqs (ii + 1) rest with
        | .ok bs => .ok (padCols n k cols :: bs)
        | e => e

/-- mask_sift_second_layer: one capped mask sift per first-layer column (ALL of them), stored in a
    [n × first × k] array, k = max_imfs of sift_args, default: number of first-layer columns -/
def maskSecondLayer (MS : Nat → Nat → Sig → Option (List Sig)) (n : Nat) (ia : List Sig) (nfreqs : Nat)
    (cap : Option Nat) : L2Result :=
  maskSecondLoop MS n (cap.getD ia.length) nfreqs 0 ia

/-- `mask_sift` of this model as the per-column sift of `mask_sift_second_layer`: column `ii` is sifted with the
    masks `mask_freqs[ii:]` (`M ii` = masked extraction with that shortened list), so its cap is lowered to
    `nfreqs - ii` (`effCap`) -/
def maskSiftCol (M : Nat → List Sig → Sig → Option (Sig × Bool)) (thr : Rat) (nfreqs fuel : Nat) :
    Nat → Nat → Sig → Option (List Sig) := fun ii k col =>
  match maskSift (M ii) thr k (some (nfreqs - ii)) col fuel with
  | (_, .raised) => none
  | (cols, _) => some cols

/-! ## driver ops -/

open Protocol

def absR (v : Rat) : Rat := if v < 0 then -v else v
def minR (a b : Rat) : Rat := if b < a then b else a
def maxR (a b : Rat) : Rat := if a < b then b else a
def maxAbs (v : Sig) : Rat := v.foldl (fun m a => maxR m (absR a)) 0
def dist (a b : Sig) : Rat := maxAbs (Sig.sub a b)
def relMargin (a b : Rat) : Rat :=
  let d := maxR (absR a) (absR b)
  if d = 0 then 1 else absR (a - b) / d
def minList (l : List Rat) : Rat := l.foldl minR 1

/-- relative margin of the stop decision taken on (h, U, L) -/
def stopMargin (r : StopRule) (h U L : Sig) : Rat :=
  match r with
  | .sd thr =>
    let avg := Sig.mean2 U L
    relMargin (Sig.sumSq (Sig.sub h (Sig.sub h avg))) (thr * Sig.sumSq h)
  | .rilling a b t =>
    let per (sd : Rat) := minList (List.zipWith (fun u l => relMargin (sd * (absR (u - l) / 2)) (absR ((u + l) / 2))) U L)
    let big1 := rillingBig a U L
    minR (minR (per a) (per b)) (relMargin (t * (big1.length : Rat)) ((big1.count true : Nat) : Rat))
  | .fixed => 1

/-- smallest neighbour difference of an iterate (extrema detection near-ties) -/
def minStep (skipZero : Bool) : Sig → Rat
  | a :: b :: t =>
    let d := absR (b - a)
    let r := minStep skipZero (b :: t)
    if skipZero && d == 0 then r else if r < 0 then d else minR d r
  | _ => -1

def parseStop (o : Op) : Option StopRule :=
  match o.str? "stop" with
  | some "sd" => (o.rat? "thr").map .sd
  | some "rilling" => do
      let a ← o.rat? "sd1"; let b ← o.rat? "sd2"; let t ← o.rat? "rtol"
      pure (.rilling a b t)
  | some "fixed" => some .fixed
  | _ => none

def parseOptRat (o : Op) (k : String) : Option (Option Rat) :=
  match o.str? k with
  | some "none" => some none
  | some s => (parseRat? s).map some
  | none => none

def parseOptNat (o : Op) (k : String) : Option (Option Nat) :=
  match o.str? k with
  | some "none" => some none
  | some s => s.toNat?.map some
  | none => none

/-- split the vector slots after position `i` into rows of `w` slots -/
def rows (w : Nat) (l : List (Option (List Rat))) : Nat → List (List (Option (List Rat)))
  | 0 => []
  | f + 1 => if l.length < w ∨ w = 0 then [] else l.take w :: rows w (l.drop w) f

structure GniRow where
  R : Sig
  U : Option Sig
  L : Option Sig

def gniRows (n : Nat) (slots : List (Option (List Rat))) : Option (List GniRow) :=
  if slots.length % 3 ≠ 0 then none else
  (rows 3 slots slots.length).mapM fun r =>
    match r with
    | [some R, U, L] =>
      if R.length = n ∧ (U.map (·.length)).getD n = n ∧ (L.map (·.length)).getD n = n then some { R, U, L } else none
    | _ => none

/-- the iterates h_0 … visited by the loop (at most `m+1`), driver-side trace -/
def trace (E : Nat → Sig → Env) (step : Rat) : Nat → Nat → Sig → List Sig
  | 0, _, h => [h]
  | m + 1, k, h =>
    match E k h with
    | (some U, some L) => h :: trace E step m (k + 1) (Sig.sub h (Sig.smul step (Sig.mean2 U L)))
    | _ => [h]

def handleGni (o : Op) : String := Id.run do
  let some stop := parseStop o | return "bad-op"
  let some step := o.rat? "step" | return "bad-op"
  let some maxIters := o.nat? "maxit" | return "bad-op"
  let some ethr := parseOptRat o "ethr" | return "bad-op"
  let some tol := o.rat? "tol" | return "bad-op"
  let some x := o.vec? 0 | return "bad-op"
  let some edb := o.vec? 1 | return "bad-op"
  let some tbl := gniRows x.length (o.vecs.drop 2) | return "bad-op"
  let opts : ImfOpts := { stop, step, maxIters, energyThresh := ethr }
  if stop matches .fixed then
    if maxIters = 0 then return "bad-op"      -- the code does not terminate; outside the documented range
  let I : Nat → Sig → Sig × Sig := fun k _ =>
    match tbl[k]? with
    | some r => (r.U.getD [], r.L.getD [])
    | none => ([], [])
  let E := envOf I
  let out := run E opts x
  let (exit, k) := match out with
    | .stopped k _ => ("stop", k)
    | .noExtrema k _ => ("noext", k)
    | .noConverge => ("err", budget opts - 1)
  -- consistency of the oracle table with the model's own iterates
  let hs := trace E step k 0 x
  if tbl.length < hs.length then return s!"oracle-desync table-too-short need={hs.length} have={tbl.length}"
  let mut envdis : Int := -1
  let mut margin : Rat := 1
  let mut extm : Rat := -1
  let mut j := 0
  for (h, r) in hs.zip tbl do
    if tol < dist h r.R then return s!"oracle-desync iterate={j} dist={fmtRat (dist h r.R)}"
    let pn := decide (peaks h < 2)
    let tn := decide (troughs h < 2)
    if envdis < 0 ∧ (pn != r.U.isNone ∨ tn != r.L.isNone) then envdis := j
    let ms := minStep (j == 0) h
    if 0 ≤ ms ∧ (extm < 0 ∨ ms < extm) then extm := ms
    match r.U, r.L with
    | some U, some L => margin := minR margin (stopMargin stop h U L)
    | _, _ => pure ()
    j := j + 1
  let D : Sig → Sig → Rat := fun _ _ => (edb[k]?).getD 0
  if ethr.isSome ∧ edb.length ≤ k ∧ !(exit == "err") then return "oracle-desync energy-table-too-short"
  let tail := s!"iters={k} margin={fmtRat margin} extm={fmtRat extm} envdis={envdis}"
  match finish D opts x out with
  | .convergeError => return s!"err EMDSiftCovergeError {tail}"
  | .imf c flag => return s!"ok exit={exit} flag={fmtBool flag} {tail} | {fmtVec c}"

def handleStop (o : Op) : String := Id.run do
  let some stop := parseStop o | return "bad-op"
  let some niters := o.nat? "niters" | return "bad-op"
  let some maxIters := o.nat? "maxit" | return "bad-op"
  let some h := o.vec? 0 | return "bad-op"
  let some x1 := o.vec? 1 | return "bad-op"
  let some U := o.vec? 2 | return "bad-op"
  let some L := o.vec? 3 | return "bad-op"
  if h.length ≠ x1.length ∨ U.length ≠ L.length then return "bad-op"
  let m := match stop with
    | .sd thr => relMargin (Sig.sumSq (Sig.sub h x1)) (thr * Sig.sumSq h)
    | _ => stopMargin stop h U L
  return s!"ok stop={fmtBool (stopTest stop niters maxIters h x1 U L)} margin={fmtRat m}"

def handlePeaks (o : Op) : String :=
  match o.vec? 0 with
  | some h => s!"ok peaks={peaks h} troughs={troughs h}"
  | none => "bad-op"

structure SiftRow where
  R : Sig                       -- residual the real extraction was applied to
  c : Option Sig                -- its output (none = it raised)
  flag : Bool

def siftRows (n : Nat) (flags : List Rat) (slots : List (Option (List Rat))) : Option (List SiftRow) :=
  if slots.length ≠ 2 * flags.length then none else
  ((rows 2 slots slots.length).zip flags).mapM fun (r, f) =>
    match r with
    | [some R, c] =>
      if R.length = n ∧ (c.map (·.length)).getD n = n ∧ (f = 0 ∨ f = 1) ∧ (c.isNone → f = 0)
      then some { R, c, flag := decide (f = 1) } else none
    | _ => none

/-- residuals x − Σ first k columns, k = 0 … cols.length − 1 (driver-side trace) -/
def residuals (x : Sig) (cols : List Sig) : List Sig :=
  (List.range cols.length).map fun k => if k = 0 then x else Sig.sub x (Sig.vsum x.length (cols.take k))

def handleSift (mask : Bool) (o : Op) : String := Id.run do
  let some thr := o.rat? "thr" | return "bad-op"
  let some cap0 := parseOptNat o "cap" | return "bad-op"
  let some tol := o.rat? "tol" | return "bad-op"
  let some x := o.vec? 0 | return "bad-op"
  let some flags := o.vec? 1 | return "bad-op"
  let some tbl := siftRows x.length flags (o.vecs.drop 2) | return "bad-op"
  let X : Nat → Sig → Option (Sig × Bool) := fun k _ =>
    match tbl[k]? with
    | some r => r.c.map fun c => (c, r.flag)
    | none => none
  -- mask_sift: integer cap required, lowered to the number of user supplied frequencies
  let mut res : List Sig × SiftEnd := ([], .outOfFuel)
  if mask then
    let some nf := parseOptNat o "nfreqs" | return "bad-op"
    let some c := cap0 | return "bad-op"
    if effCap c nf = 0 then return "bad-op"
    res := maskSift (fun cols p => X cols.length p) thr c nf x tbl.length
  else
    res := siftIx X thr cap0 x tbl.length
  let (cols, e) := res
  -- the table rows must have been produced on the residuals the model computes itself
  let nvisit := match e with | .raised => cols.length + 1 | _ => cols.length
  let mut j := 0
  for (p, r) in ((residuals x (cols ++ [[]])).take nvisit).zip tbl do
    if tol < dist p r.R then return s!"oracle-desync layer={j} dist={fmtRat (dist p r.R)}"
    j := j + 1
  let margin := minList (cols.map fun c => relMargin (Sig.absSum c) thr)
  let resid := Sig.sub (Sig.vsum x.length cols) x
  match e with
  | .raised => return s!"err EMDSiftCovergeError ncols={cols.length}"
  | .outOfFuel => return s!"ok ncols={cols.length} exit=fuel margin={fmtRat margin} | {fmtVec resid}"
  | .done f c t =>
    return s!"ok ncols={cols.length} exit=done flag={fmtBool f} cap={fmtBool c} thr={fmtBool t} margin={fmtRat margin} | {fmtVec resid}"

/-- ENS-SHAPE: column count of the ensemble mean from the members' widths -/
def handleEns (o : Op) : String := Id.run do
  let some n := o.nat? "n" | return "bad-op"
  let some ws := (o.vec? 0) >>= toNats? | return "bad-op"
  if ws.isEmpty then return "bad-op"
  let members := ws.map fun w => List.replicate w (Sig.zeros n)
  let out := ensembleCols n members
  return s!"ok ncols={out.length} rows={if out.all (·.length == n) then n else 0}"

/-- CEEMD-SHAPE: replay of the counter logic on the stop causes observed per loop column -/
def handleCeemd (o : Op) : String := Id.run do
  let some cap := parseOptNat o "cap" | return "bad-op"
  let some pk := (o.vec? 0) >>= toBools? | return "bad-op"
  let some th := (o.vec? 1) >>= toBools? | return "bad-op"
  if pk.length ≠ th.length then return "bad-op"
  let synth (p t : Bool) : Sig :=
    match p, t with
    | true, true => [0, 0, 0, 0, 0]          -- < 2 maxima, mean abs below threshold 1
    | true, false => [10, 10, 10, 10, 10]
    | false, true => [0, 1, 0, 1, 0]         -- 2 maxima, mean abs 2/5 < 1
    | false, false => [0, 10, 0, 10, 0]
  let Nx : List Sig → Sig → Sig := fun cols _ =>
    if cols.length = 0 then [0, 10, 0, 10, 0]
    else synth ((pk[cols.length - 1]?).getD false) ((th[cols.length - 1]?).getD false)
  let (cols, e) := ceemd Nx 1 cap [0, 0, 0, 0, 0] pk.length
  match e with
  | .outOfFuel => return s!"ok ncols={cols.length} exit=fuel"
  | .done a b c => return s!"ok ncols={cols.length} exit=done pk={fmtBool a} cap={fmtBool b} thr={fmtBool c}"

/-- L2-SHAPE: shape and zero padding of the second-layer array from the widths of the inner sifts -/
def handleL2 (o : Op) : String := Id.run do
  let some cap := parseOptNat o "cap" | return "bad-op"
  let some ws := (o.vec? 0) >>= toNats? | return "bad-op"
  let ia : List Sig := (List.range ws.length).map fun (i : Nat) => [((i : Nat) : Rat)]
  let S : Nat → Sig → List Sig := fun k col =>
    let i := match col with | [v] => v.num.toNat | _ => 0
    (List.replicate ((ws[i]?).getD 0) [1]).take k
  let out := secondLayer S 1 ia cap
  let d2 := match out with | b :: _ => b.length | [] => cap.getD ia.length
  let uniform := out.all (·.length == d2)
  let filled := out.map fun b => (b.filter (· != [0])).length
  return s!"ok d1={out.length} d2={d2} uniform={fmtBool uniform} | {fmtNats filled}"

/-- ML2-SHAPE: shape, zero padding and frequency exhaustion of mask_sift_second_layer from the widths of the
    inner mask sifts (width 0 = that mask sift raised) -/
def handleML2 (o : Op) : String := Id.run do
  let some cap := parseOptNat o "cap" | return "bad-op"
  let some nfreqs := o.nat? "nfreqs" | return "bad-op"
  let some ws := (o.vec? 0) >>= toNats? | return "bad-op"
  if cap == some 0 then return "bad-op"
  let ia : List Sig := (List.range ws.length).map fun (i : Nat) => [((i : Nat) : Rat)]
  -- the inner sift of column ii: `ws[ii]` columns, cut by the model's own cap logic (max_imfs, masks left)
  let M : Nat → List Sig → Sig → Option (Sig × Bool) := fun ii cols _ =>
    let w := (ws[ii]?).getD 0
    if w = 0 then none else some ([1], decide (cols.length + 1 < w))
  let out := maskSecondLayer (maskSiftCol M 0 nfreqs (ws.foldl max 0 + 1)) 1 ia nfreqs cap
  match out with
  | .indexError c => return s!"err IndexError col={c}"
  | .raised c => return s!"err Raised col={c}"
  | .ok blocks =>
    let d2 := match blocks with | b :: _ => b.length | [] => cap.getD ia.length
    let uniform := blocks.all (·.length == d2)
    let filled := blocks.map fun b => (b.filter (· != [0])).length
    return s!"ok d1={blocks.length} d2={d2} uniform={fmtBool uniform} | {fmtNats filled}"

def handle (o : Op) : Option String :=
  match o.name with
  | "GNI" => some (handleGni o)
  | "STOP" => some (handleStop o)
  | "SIFT-PEAKS" => some (handlePeaks o)
  | "SIFT" => some (handleSift false o)
  | "MASKSIFT-PEEL" => some (handleSift true o)
  | "ENS-SHAPE" => some (handleEns o)
  | "CEEMD-SHAPE" => some (handleCeemd o)
  | "L2-SHAPE" => some (handleL2 o)
  | "ML2-SHAPE" => some (handleML2 o)
  | _ => none

end Sift
