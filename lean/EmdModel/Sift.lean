/- EmdModel.Sift — (stub; filled in by the property that owns it) -/
import EmdModel.Protocol

namespace Sift

def handle (_o : Protocol.Op) : Option String := none

end Sift
