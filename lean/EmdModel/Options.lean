/-
  EmdModel.Options — how option dictionaries travel down the call chains of the sift variants
  (property C06).

  Every function of the chain is modelled by (1) Python argument binding against its signature
  (`call`: positional slots, keywords, defaults, `TypeError` on unknown / duplicate names) and
  (2) the code's special cases (`if not imf_opts` in `sift`, `if imf_opts is None` in the mask
  helpers, `envelope_opts is None` in `get_next_imf`, `if not extrema_opts` in `interp_envelope`,
  `if not loc_pad_opts` / `if not mag_pad_opts` in `get_padded_extrema`), and emits — writer style —
  the list of `StageCall`s it makes: one record of the fully bound arguments for every call of the
  three stage functions `get_next_imf`, `interp_envelope`, `get_padded_extrema`, including the calls
  made inside pool jobs and the noise-only sifts of the complete-ensemble variant.  How many times a
  record repeats depends on the data; *which* records occur does not.

  Values that are data (signals, noise, amplitudes) are the opaque placeholder `data`.
-/
import EmdModel.Config
import EmdModel.Sift

namespace Options
open Config

/-! ### Python call binding -/

/-- marker default of a parameter without default -/
def required : Tree := Tree.str "<required>"
/-- placeholder for array data / computed numbers passed along the chain -/
def data : Tree := Tree.str "<data>"

def isNone : Tree → Bool
  | .scalar .none => true
  | _ => false

/-- Python truthiness of an option value (`not x`) -/
def falsy : Tree → Bool
  | .scalar .none => true
  | .scalar (.bool b) => !b
  | .scalar (.int i) => i == 0
  | .scalar (.num r) => r == 0
  | .scalar (.str s) => s.isEmpty
  | .scalar (.npbool b) => !b       -- numpy scalars: same truth value as their `.item()`
  | .scalar (.npint _ i) => i == 0
  | .scalar (.npnum _ r) => r == 0
  | .seq .array _ => false          -- `not ndarray` is not a plain truth test; never reached with option dicts
  | .seq _ .nil => true
  | .seq _ _ => false
  | .dict .nil => true
  | .dict _ => false

/-- `**t` : the mapping's items -/
def unpack : Tree → Except Err Assoc
  | .dict a => .ok a
  | _ => .error .typeError

/-- defaults overridden by the supplied keywords, in signature order -/
def resolve : Assoc → Assoc → Assoc
  | .nil, _ => .nil
  | .cons p d r, kw => .cons p (match kw.lookup p with | some v => v | none => d) (resolve r kw)

/-- positional arguments bound to the leading parameters -/
def zipPos : Assoc → List Tree → Option Assoc
  | _, [] => some .nil
  | .nil, _ :: _ => none
  | .cons p _ r, v :: vs => (zipPos r vs).map (.cons p v ·)

def noDup : List Key → Bool
  | [] => true
  | x :: xs => !(xs.contains x) && noDup xs

def isRequired : Tree → Bool
  | .scalar (.str s) => s == "<required>".toList
  | _ => false

/-- every parameter without default is bound -/
def noMissing : Assoc → Assoc → Bool
  | .nil, _ => true
  | .cons p d r, all => (!isRequired d || all.contains p) && noMissing r all

/-- all names known, no name bound twice, nothing required left unbound -/
def validCall (sig all : Assoc) : Bool :=
  all.keys.all (fun q => sig.contains q) && noDup all.keys && noMissing sig all

def callWith (sig all : Assoc) : Except Err Assoc :=
  if validCall sig all then .ok (resolve sig all) else .error .typeError

/-- `f(*pos, **kw)` against the signature `sig` (without the leading data parameter): the bound
    arguments with defaults applied, or `TypeError` (too many positionals, unknown keyword,
    multiple values for one parameter, missing required parameter). -/
def call (sig : Assoc) (pos : List Tree) (kw : Assoc) : Except Err Assoc :=
  match zipPos sig pos with
  | none => .error .typeError
  | some b => callWith sig (b.append kw)

/-- the bound value of parameter `p` -/
def arg (a : Assoc) (p : String) : Tree := (a.lookup p.toList).getD Tree.none

/-! ### signatures (constants of the model; compared with the live signatures on every run) -/

def f (n d : Nat) : Tree := .scalar (.num (mkRat n d))
def i (n : Int) : Tree := .scalar (.int n)
def s (x : String) : Tree := Tree.str x
def b (x : Bool) : Tree := .scalar (.bool x)
def none' : Tree := Tree.none

def mk : List (String × Tree) → Assoc
  | [] => .nil
  | (p, d) :: r => .cons p.toList d (mk r)

def f0_1 : Tree := f 3602879701896397 36028797018963968       -- 0.1
def f0_05 : Tree := f 3602879701896397 72057594037927936      -- 0.05
def f0_2 : Tree := f 3602879701896397 18014398509481984       -- 0.2
def f1em8 : Tree := f 3022314549036573 302231454903657293676544  -- 1e-08

def rillingDefault : Tree := .seq .tuple (.cons f0_05 (.cons (f 1 2) (.cons f0_05 .nil)))

def gniSig : Assoc := mk [("env_step_size", i 1), ("max_iters", i 1000), ("energy_thresh", none'),
  ("stop_method", s "sd"), ("sd_thresh", f0_1), ("rilling_thresh", rillingDefault),
  ("envelope_opts", none'), ("extrema_opts", none')]
def ieSig : Assoc := mk [("mode", s "upper"), ("interp_method", s "splrep"), ("extrema_opts", none'),
  ("ret_extrema", b false)]
def gpeSig : Assoc := mk [("pad_width", i 2), ("mode", s "peaks"), ("parabolic_extrema", b false),
  ("loc_pad_opts", none'), ("mag_pad_opts", none')]
def siftSig : Assoc := mk [("sift_thresh", f1em8), ("max_imfs", none'), ("verbose", none'),
  ("imf_opts", none'), ("envelope_opts", none'), ("extrema_opts", none')]
def swnSig : Assoc := mk [("noise_scaling", none'), ("noise", none'), ("noise_mode", s "single"),
  ("sift_thresh", f1em8), ("max_imfs", none'), ("job_ind", i 1),
  ("imf_opts", none'), ("envelope_opts", none'), ("extrema_opts", none')]
def ensSig : Assoc := mk [("nensembles", i 4), ("ensemble_noise", f0_2), ("noise_mode", s "single"),
  ("nprocesses", i 1), ("sift_thresh", f1em8), ("max_imfs", none'), ("verbose", none'),
  ("imf_opts", none'), ("envelope_opts", none'), ("extrema_opts", none')]
def gnimSig : Assoc := mk [("z", required), ("amp", required), ("nphases", i 4), ("nprocesses", i 1),
  ("imf_opts", none'), ("envelope_opts", none'), ("extrema_opts", none')]
def gmfSig : Assoc := mk [("first_mask_mode", s "zc"), ("imf_opts", none'),
  ("envelope_opts", none'), ("extrema_opts", none')]
def gmfSigLegacy : Assoc := mk [("first_mask_mode", s "zc"), ("imf_opts", none')]
def maskSig : Assoc := mk [("mask_amp", i 1), ("mask_amp_mode", s "ratio_imf"), ("mask_freqs", s "zc"),
  ("mask_step_factor", i 2), ("ret_mask_freq", b false), ("max_imfs", i 9), ("sift_thresh", f1em8),
  ("nphases", i 4), ("nprocesses", i 1), ("verbose", none'),
  ("imf_opts", none'), ("envelope_opts", none'), ("extrema_opts", none')]

/-- the special-case literals written inside the functions -/
def siftImfLiteral : Tree := .dict (mk [("env_step_size", i 1), ("sd_thresh", f0_1)])
def ieExtremaLiteral : Tree := .dict (mk [("pad_width", i 2), ("loc_pad_opts", none'), ("mag_pad_opts", none')])
def gpeLocLiteral : Tree := .dict (mk [("mode", s "reflect"), ("reflect_type", s "odd")])
def gpeMagLiteral : Tree := .dict (mk [("mode", s "median"), ("stat_length", i 1)])

/-! ### stage calls -/

inductive Stage
  | gni | ie | gpe
  deriving DecidableEq

structure StageCall where
  stage : Stage
  args : Assoc        -- every parameter (except the data) with its bound value, signature order

/-- `get_padded_extrema(X, **kw)` -/
def gpeM (kw : Assoc) : Except Err (List StageCall) := do
  let a ← call gpeSig [] kw
  pure [⟨.gpe, a⟩]

def interpMethods : List Key := ["splrep".toList, "mono_pchip".toList, "pchip".toList]

def okMethod : Tree → Bool
  | .scalar (.str m) => interpMethods.contains m
  | _ => false

/-- which extrema an envelope mode asks for -/
def gpeMode : Tree → Except Err Tree
  | .scalar (.str m) =>
    if m = "upper".toList then .ok (s "peaks")
    else if m = "lower".toList then .ok (s "troughs")
    else if m = "combined".toList then .ok (s "abs_peaks")
    else .error .valueError
  | _ => .error .valueError

/-- `if not extrema_opts: extrema_opts = {literal}` -/
def extremaOrLiteral (xo : Tree) : Tree := if falsy xo then ieExtremaLiteral else xo
/-- `if envelope_opts is None: envelope_opts = {}` -/
def noneToEmpty (t : Tree) : Tree := if isNone t then Tree.dict .nil else t
/-- `if not imf_opts: imf_opts = {literal}` -/
def imfOrLiteral (io : Tree) : Tree := if falsy io then siftImfLiteral else io

/-- `interp_envelope(X, **kw)` -/
def ieM (kw : Assoc) : Except Err (List StageCall) := do
  let a ← call ieSig [] kw
  if !okMethod (arg a "interp_method") then .error .valueError else
  let mode ← gpeMode (arg a "mode")
  let xoKw ← unpack (extremaOrLiteral (arg a "extrema_opts"))
  let g ← call gpeSig [] (.cons "mode".toList mode xoKw)
  pure [⟨.ie, a⟩, ⟨.gpe, g⟩]

/-- the keywords of `interp_envelope(proto_imf, mode=m, **envelope_opts, extrema_opts=extrema_opts)` -/
def ieKw (m : String) (eoKw : Assoc) (xo : Tree) : Assoc :=
  .cons "mode".toList (s m) (eoKw.append (.cons "extrema_opts".toList xo .nil))

/-- `get_next_imf(X, *pos, **kw)` -/
def gniM (pos : List Tree) (kw : Assoc) : Except Err (List StageCall) := do
  let a ← call gniSig pos kw
  let eoKw ← unpack (noneToEmpty (arg a "envelope_opts"))
  let up ← ieM (ieKw "upper" eoKw (arg a "extrema_opts"))
  let lo ← ieM (ieKw "lower" eoKw (arg a "extrema_opts"))
  pure (⟨.gni, a⟩ :: up ++ lo)

/-- `get_next_imf(X, envelope_opts=eo, extrema_opts=xo, **ioKw)` : how every variant reaches the stages -/
def chain (ioKw : Assoc) (eo xo : Tree) : Except Err (List StageCall) :=
  gniM [] (.cons "envelope_opts".toList eo (.cons "extrema_opts".toList xo ioKw))

/-- `sift(X, *pos, **kw)` -/
def siftM (pos : List Tree) (kw : Assoc) : Except Err (List StageCall) := do
  let a ← call siftSig pos kw
  let ioKw ← unpack (imfOrLiteral (arg a "imf_opts"))
  chain ioKw (arg a "envelope_opts") (arg a "extrema_opts")

/-- `_sift_with_noise(X, *pos, **kw)`: one sift (`single`) or two sifts with the same options (`flip`) -/
def swnM (pos : List Tree) (kw : Assoc) : Except Err (List StageCall) := do
  let a ← call swnSig pos kw
  siftM [] (mk [("sift_thresh", arg a "sift_thresh"), ("max_imfs", arg a "max_imfs"),
    ("imf_opts", arg a "imf_opts"), ("envelope_opts", arg a "envelope_opts"),
    ("extrema_opts", arg a "extrema_opts")])

def noiseModes : List Key := ["single".toList, "flip".toList]

def okNoiseMode : Tree → Bool
  | .scalar (.str m) => noiseModes.contains m
  | _ => false

/-- `ensemble_sift(X, **kw)`: every pool job is `_sift_with_noise(*args)` with ten positionals -/
def ensM (kw : Assoc) : Except Err (List StageCall) := do
  let a ← call ensSig [] kw
  if !okNoiseMode (arg a "noise_mode") then .error .valueError else
  swnM [data, none', arg a "noise_mode", arg a "sift_thresh", arg a "max_imfs", data,
        arg a "imf_opts", arg a "envelope_opts", arg a "extrema_opts"] .nil

/-- `complete_ensemble_sift(X, **kw)`: the ensemble jobs, then the noise-only sifts, which receive the
    three option dictionaries in their own slots (`verbose` is passed as `None`). -/
def cesM (kw : Assoc) : Except Err (List StageCall) := do
  let a ← call ensSig [] kw
  let jobs ← swnM [data, data, arg a "noise_mode", arg a "sift_thresh", i 1, data,
        arg a "imf_opts", arg a "envelope_opts", arg a "extrema_opts"] .nil
  let noise ← siftM [arg a "sift_thresh", i 1, none', arg a "imf_opts", arg a "envelope_opts",
        arg a "extrema_opts"] .nil
  pure (jobs ++ noise)

/-- as pinned (D5): the noise-only sifts were called `sift(noise, sift_thresh, 1, imf_opts)` -/
def cesMLegacy (kw : Assoc) : Except Err (List StageCall) := do
  let a ← call ensSig [] kw
  let jobs ← swnM [data, data, arg a "noise_mode", arg a "sift_thresh", i 1, data,
        arg a "imf_opts", arg a "envelope_opts", arg a "extrema_opts"] .nil
  let noise ← siftM [arg a "sift_thresh", i 1, arg a "imf_opts"] .nil
  pure (jobs ++ noise)

/-- `get_next_imf_mask(X, *pos, **kw)`: each pool job is
    `partial(get_next_imf, envelope_opts=…, extrema_opts=…, **imf_opts)(X + mask)` -/
def gnimM (pos : List Tree) (kw : Assoc) : Except Err (List StageCall) := do
  let a ← call gnimSig pos kw
  let ioKw ← unpack (noneToEmpty (arg a "imf_opts"))
  chain ioKw (arg a "envelope_opts") (arg a "extrema_opts")

/-- as pinned (D5): `partial(get_next_imf, **imf_opts)` -/
def gnimMLegacy (pos : List Tree) (kw : Assoc) : Except Err (List StageCall) := do
  let a ← call gnimSig pos kw
  let ioKw ← unpack (noneToEmpty (arg a "imf_opts"))
  gniM [] ioKw

def usesFirstImf (mode : Tree) : Bool :=
  match mode with
  | .scalar (.str m) => m = "zc".toList || m = "if".toList
  | _ => false

/-- `get_mask_freqs(X, *pos, **kw)`: a first IMF is extracted only for the 'zc' / 'if' modes -/
def gmfM (pos : List Tree) (kw : Assoc) : Except Err (List StageCall) := do
  let a ← call gmfSig pos kw
  let ioKw ← unpack (noneToEmpty (arg a "imf_opts"))
  if usesFirstImf (arg a "first_mask_mode") then chain ioKw (arg a "envelope_opts") (arg a "extrema_opts")
  else pure []

/-- as pinned (D5): `get_next_imf(X, **imf_opts)` -/
def gmfMLegacy (pos : List Tree) (kw : Assoc) : Except Err (List StageCall) := do
  let a ← call gmfSigLegacy pos kw
  let ioKw ← unpack (noneToEmpty (arg a "imf_opts"))
  if usesFirstImf (arg a "first_mask_mode") then gniM [] ioKw else pure []

/-- does `mask_sift` derive the mask frequencies itself (string method or float)? -/
def derivesMaskFreqs (mf : Tree) : Bool :=
  match mf with
  | .seq _ _ => false
  | .scalar (.str m) => m = "zc".toList || m = "if".toList
  | .scalar (.num _) => true
  | _ => false

/-- `mask_sift(X, **kw)` -/
def maskFirst (mf io eo xo : Tree) : Except Err (List StageCall) :=
  if derivesMaskFreqs mf then
    gmfM [mf] (mk [("imf_opts", io), ("envelope_opts", eo), ("extrema_opts", xo)])
  else pure []

def maskM (kw : Assoc) : Except Err (List StageCall) := do
  let a ← call maskSig [] kw
  let first ← maskFirst (arg a "mask_freqs") (arg a "imf_opts") (arg a "envelope_opts") (arg a "extrema_opts")
  let rest ← gnimM [data, data] (mk [("nphases", arg a "nphases"), ("nprocesses", arg a "nprocesses"),
        ("imf_opts", arg a "imf_opts"), ("envelope_opts", arg a "envelope_opts"),
        ("extrema_opts", arg a "extrema_opts")])
  pure (first ++ rest)

def maskMLegacy (kw : Assoc) : Except Err (List StageCall) := do
  let a ← call maskSig [] kw
  let first ← if derivesMaskFreqs (arg a "mask_freqs") then
      gmfMLegacy [arg a "mask_freqs"] (mk [("imf_opts", arg a "imf_opts")])
    else pure []
  let rest ← gnimMLegacy [data, data] (mk [("nphases", arg a "nphases"), ("nprocesses", arg a "nprocesses"),
        ("imf_opts", arg a "imf_opts"), ("envelope_opts", arg a "envelope_opts"),
        ("extrema_opts", arg a "extrema_opts")])
  pure (first ++ rest)

/-! ### variants, delivery routes -/

inductive Variant
  | sift | ensemble | complete | mask
  | nextImfMask           -- get_next_imf_mask(X, z, amp, …)
  | maskFreqs             -- get_mask_freqs(X, …)
  | nextImf               -- get_next_imf(X, …) itself
  | second (inner : Variant)      -- sift_second_layer(IA, sift_func=inner, sift_args=kw)
  | maskSecond                    -- mask_sift_second_layer(IA, mask_freqs, sift_args=kw)
  deriving DecidableEq

def Variant.name : Variant → String
  | .sift => "sift" | .ensemble => "ensemble_sift" | .complete => "complete_ensemble_sift"
  | .mask => "mask_sift" | .nextImfMask => "get_next_imf_mask" | .maskFreqs => "get_mask_freqs"
  | .nextImf => "get_next_imf" | .second _ => "sift_second_layer" | .maskSecond => "mask_sift_second_layer"

/-- `mask_sift_second_layer` forwards a copy of `sift_args` to `mask_sift` after
    `if 'max_imfs' not in sift_args: sift_args['max_imfs'] = IA.shape[1]` and, per first-layer column,
    `sift_args['mask_freqs'] = mask_freqs[ii:]` (an array slice: a `mask_freqs` entry of the caller is overwritten) -/
def maskSecondArgs (kw : Assoc) : Assoc :=
  let kw1 := if kw.contains "max_imfs".toList then kw else kw.insert "max_imfs".toList data
  kw1.insert "mask_freqs".toList (.seq .array .nil)

/-- `variant(X, **kw)` (for the two helpers the data positionals are supplied) -/
def runVariant (legacy : Bool) : Variant → Assoc → Except Err (List StageCall)
  | .sift, kw => siftM [] kw
  | .ensemble, kw => ensM kw
  | .complete, kw => if legacy then cesMLegacy kw else cesM kw
  | .mask, kw => if legacy then maskMLegacy kw else maskM kw
  | .nextImfMask, kw => if legacy then gnimMLegacy [data, data] kw else gnimM [data, data] kw
  | .maskFreqs, kw => if legacy then gmfMLegacy [] kw else gmfM [] kw
  | .nextImf, kw => gniM [] kw
  | .second inner, kw => runVariant legacy inner kw      -- `sift_func(IA[:, ii], **sift_args)`
  | .maskSecond, kw => if legacy then maskMLegacy (maskSecondArgs kw) else maskM (maskSecondArgs kw)   -- `mask_sift(IA[:, ii], **sift_args)`

/-- what the user supplies: some top-level keywords and, per stage, a partial dictionary or nothing -/
structure User where
  top : Assoc
  imf : Option Assoc
  env : Option Assoc
  ext : Option Assoc

def optEntry (name : String) : Option Assoc → Assoc
  | none => .nil
  | some a => .cons name.toList (.dict a) .nil

/-- route A — keyword dictionaries: `variant(X, **top, imf_opts={…}, envelope_opts={…}, extrema_opts={…})` -/
def kwargsDirect (u : User) : Assoc :=
  u.top.append ((optEntry "imf_opts" u.imf).append ((optEntry "envelope_opts" u.env).append (optEntry "extrema_opts" u.ext)))

/-- the signatures `get_config` inspects, as the model knows them -/
def modelSigs : Sigs where
  gpe := gpeSig
  ie := ieSig
  gni := gniSig
  variant nm :=
    if nm = "sift".toList then some siftSig
    else if nm = "ensemble_sift".toList then some ensSig
    else if nm = "complete_ensemble_sift".toList then some ensSig
    else if nm = "mask_sift".toList then some maskSig
    else none

/-- `for key, v in opts.items(): cfg[prefix + key] = v` -/
def editAll (prefix_ : Key) : Tree → Assoc → Except Err Tree
  | store, .nil => .ok store
  | store, .cons p v r => do
      let st ← cfgSet store (prefix_ ++ p) v
      editAll prefix_ st r

def editStage (store : Tree) (name : String) : Option Assoc → Except Err Tree
  | none => .ok store
  | some a => editAll (name.toList ++ ['/']) store a

/-- routes B and C — `cfg = get_config(variant)`, edited through key paths, then
    `variant(X, **cfg)` or `cfg.get_func()(X)`: the keyword arguments are the edited store -/
def kwargsConfig (v : Variant) (u : User) : Except Err Assoc := do
  let cfg ← getConfig modelSigs v.name.toList
  let st ← editAll [] cfg.store u.top
  let st ← editStage st "imf_opts" u.imf
  let st ← editStage st "envelope_opts" u.env
  let st ← editStage st "extrema_opts" u.ext
  unpack st

inductive Route
  | direct | unpackCfg | getFunc
  deriving DecidableEq

/-- `functools.partial(func, **store)(X)` : the partial's keywords followed by the call's (none) -/
def partialCall (kw : Assoc) : Assoc := kw.append .nil

/-- the sift function whose configuration (`get_config(name)`) a variant's options are written into -/
def baseVariant : Variant → Variant
  | .second inner => baseVariant inner
  | .maskSecond => .mask
  | v => v

/-- can a ready-made callable be handed over?  `sift_second_layer` takes `sift_func`; `mask_sift_second_layer` has no such
    parameter (`mask_sift_second_layer(IA, freqs, sift_func=cfg.get_func())` is a TypeError) -/
def takesFunc : Variant → Bool
  | .maskSecond => false
  | .second inner => takesFunc inner
  | _ => true

/-- the stage calls made by one top-level call of `v` with the user's options delivered by route `r` -/
def emit (legacy : Bool) (r : Route) (v : Variant) (u : User) : Except Err (List StageCall) := do
  let kw ← match r with
    | .direct => pure (kwargsDirect u)
    | .unpackCfg => kwargsConfig (baseVariant v) u
    | .getFunc => if takesFunc v then (kwargsConfig (baseVariant v) u).map partialCall else .error .typeError
  runVariant legacy v kw

/-- `functools.partial(f, **frozen)(x, **call)` binds `{**frozen, **call}`: a keyword given at call time REPLACES the
    frozen one (whole value — an option dictionary is not merged key by key); frozen keywords the call does not
    repeat stay -/
def mergeKw : Assoc → Assoc → Assoc
  | frozen, .nil => frozen
  | frozen, .cons k v r => mergeKw (frozen.insert k v) r

/-- route D — both deliveries combined (second layer): `cfg = get_config(inner)` edited with the top-level keywords,
    `sift_second_layer(IA, sift_func=cfg.get_func(), sift_args={'imf_opts': …, 'envelope_opts': …, 'extrema_opts': …})`,
    i.e. `partial(inner, **cfg)(IA[:, ii], **sift_args)` -/
def emitFuncArgs (legacy : Bool) (inner : Variant) (u : User) : Except Err (List StageCall) := do
  let frozen ← kwargsConfig (baseVariant inner) { top := u.top, imf := none, env := none, ext := none }
  runVariant legacy (.second inner) (mergeKw frozen (kwargsDirect { top := .nil, imf := u.imf, env := u.env, ext := u.ext }))

/-! ### the options a stage actually works with -/

def eraseKeys (ks : List String) (a : Assoc) : Assoc := ks.foldl (fun acc p => acc.erase p.toList) a

def normPad (lit : Tree) (v : Tree) : Tree := if falsy v then lit else v

/-- `get_padded_extrema` replaces falsy `loc_pad_opts` / `mag_pad_opts` by its literals -/
def gpeEffective : Assoc → Assoc
  | .nil => .nil
  | .cons p v r =>
    if p = "loc_pad_opts".toList then .cons p (normPad gpeLocLiteral v) (gpeEffective r)
    else if p = "mag_pad_opts".toList then .cons p (normPad gpeMagLiteral v) (gpeEffective r)
    else .cons p v (gpeEffective r)

/-- the stage's OWN options as it uses them: pass-through dictionaries removed, in-function
    special cases applied -/
def effective (c : StageCall) : StageCall :=
  match c.stage with
  | .gni => ⟨.gni, eraseKeys ["envelope_opts", "extrema_opts"] c.args⟩
  | .ie => ⟨.ie, eraseKeys ["extrema_opts"] c.args⟩
  | .gpe => ⟨.gpe, gpeEffective c.args⟩

/-! ### from the bound arguments of `get_next_imf` to the rule it evaluates (link to `EmdModel.Sift`)

  `get_next_imf` reads its own options as follows (emd/sift.py): `stop_method == 'sd'` → `sd_stop(…, sd=sd_thresh)`;
  `'rilling'` → `rilling_stop(upper, lower, sd1=rilling_thresh[0], sd2=rilling_thresh[1], tol=rilling_thresh[2])`;
  `'fixed'` → `fixed_stop(niters, max_iters)`; `env_step_size` scales the mean that is removed; `max_iters`
  bounds the loop; the energy test runs `if energy_thresh is not None`. -/

/-- the number an option value denotes -/
def numOf : Tree → Option Rat
  | .scalar (.num r) => some r
  | .scalar (.int n) => some (n : Rat)
  | .scalar (.npnum _ r) => some r
  | .scalar (.npint _ n) => some (n : Rat)
  | _ => none

def natOf : Tree → Option Nat
  | .scalar (.int n) => if 0 ≤ n then some n.toNat else none
  | .scalar (.npint _ n) => if 0 ≤ n then some n.toNat else none
  | _ => none

/-- `t[j]` with an integer index (list / tuple / ndarray) -/
def seqGet (t : Tree) (j : Nat) : Except Err Tree :=
  match t with
  | .seq _ xs =>
    match xs.toList[j]? with
    | some v => .ok v
    | none => .error .indexError
  | _ => .error .typeError

def numAt (t : Tree) (j : Nat) : Except Err Rat := do
  let v ← seqGet t j
  match numOf v with
  | some r => .ok r
  | none => .error .typeError

/-- the stop rule `get_next_imf` evaluates with the bound arguments `a`: every threshold in its own place -/
def stopRuleOf (a : Assoc) : Except Err Sift.StopRule :=
  match arg a "stop_method" with
  | .scalar (.str m) =>
    if m = "sd".toList then
      match numOf (arg a "sd_thresh") with
      | some t => .ok (.sd t)
      | none => .error .typeError
    else if m = "rilling".toList then do
      let sd1 ← numAt (arg a "rilling_thresh") 0
      let sd2 ← numAt (arg a "rilling_thresh") 1
      let tol ← numAt (arg a "rilling_thresh") 2
      .ok (.rilling sd1 sd2 tol)
    else if m = "fixed".toList then .ok .fixed
    else .error .valueError          -- no branch assigns `stop` (UnboundLocalError in the code)
  | _ => .error .valueError

/-- `energy_thresh`: `None` = no energy test -/
def energyOf (t : Tree) : Except Err (Option Rat) :=
  if isNone t then .ok none
  else match numOf t with
    | some r => .ok (some r)
    | none => .error .typeError

/-- the options of the Sift model's `get_next_imf` that the bound arguments `a` stand for -/
def imfOptsOf (a : Assoc) : Except Err Sift.ImfOpts := do
  let stop ← stopRuleOf a
  let step ← match numOf (arg a "env_step_size") with
    | some r => (.ok r : Except Err Rat)
    | none => .error .typeError
  let mi ← match natOf (arg a "max_iters") with
    | some n => (.ok n : Except Err Nat)
    | none => .error .typeError
  let et ← energyOf (arg a "energy_thresh")
  .ok { stop := stop, step := step, maxIters := mi, energyThresh := et }

/-- numeric record of a rule: `[kind, p1, p2, p3, step, max_iters, has_energy, energy]` with kind 0 = sd (p1 = sd_thresh),
    1 = rilling (p1, p2, p3 = sd1, sd2, tol as handed to `rilling_stop`), 2 = fixed; `none` where the code raises -/
def fmtImfOpts : Except Err Sift.ImfOpts → String
  | .error _ => "none"
  | .ok o =>
    let stop : List Rat := match o.stop with
      | .sd t => [0, t, 0, 0]
      | .rilling a b t => [1, a, b, t]
      | .fixed => [2, 0, 0, 0]
    let et : List Rat := match o.energyThresh with
      | none => [0, 0]
      | some r => [1, r]
    Protocol.fmtVec (stop ++ [o.step, (o.maxIters : Rat)] ++ et)

/-! ### protocol -/

def parseVariant? : String → Option Variant
  | "sift" => some .sift
  | "ensemble_sift" => some .ensemble
  | "complete_ensemble_sift" => some .complete
  | "mask_sift" => some .mask
  | "get_next_imf_mask" => some .nextImfMask
  | "get_mask_freqs" => some .maskFreqs
  | "get_next_imf" => some .nextImf
  | _ => none

def parseOpt? (o : Protocol.Op) (key : String) : Option (Option Assoc) :=
  match (o.str? key) >>= parseTree? with
  | some (.scalar .none) => some none
  | some (.dict a) => some (some a)
  | _ => none

def stageRecords (st : Stage) (cs : List StageCall) : Tree :=
  .seq .list (TreeList.ofList ((cs.filter (·.stage = st)).map fun c => .dict c.args))

def allSigs : Tree :=
  .dict (mk [("get_next_imf", .dict gniSig), ("interp_envelope", .dict ieSig), ("get_padded_extrema", .dict gpeSig),
    ("sift", .dict siftSig), ("_sift_with_noise", .dict swnSig), ("ensemble_sift", .dict ensSig),
    ("complete_ensemble_sift", .dict ensSig), ("get_next_imf_mask", .dict gnimSig),
    ("get_mask_freqs", .dict gmfSig), ("mask_sift", .dict maskSig)])

open Protocol in
def handle (o : Op) : Option String :=
  match o.name with
  | "OPTS" => some <| Id.run do
      let some vn := o.str? "variant" | return "bad-op"
      let some v0 := parseVariant? vn | return "bad-op"
      let some second := o.nat? "second" | return "bad-op"
      let some legacy := o.nat? "legacy" | return "bad-op"
      let some rt := o.str? "route" | return "bad-op"
      let some (.dict top) := (o.str? "top") >>= parseTree? | return "bad-op"
      let some imf := parseOpt? o "imf" | return "bad-op"
      let some env := parseOpt? o "env" | return "bad-op"
      let some ext := parseOpt? o "ext" | return "bad-op"
      let r ← match rt with
        | "direct" => pure Route.direct
        | "unpack" => pure Route.unpackCfg
        | "get_func" => pure Route.getFunc
        | "get_func+args" => pure Route.getFunc      -- handled below (`emitFuncArgs`)
        | _ => return "bad-op"
      if second = 2 ∧ vn ≠ "mask_sift" then return "bad-op"
      let v := if second = 2 then Variant.maskSecond else if second != 0 then Variant.second v0 else v0
      let res := if rt = "get_func+args" then
          (if second = 1 then emitFuncArgs (legacy != 0) v0 { top, imf, env, ext } else .error .typeError)
        else emit (legacy != 0) r v { top, imf, env, ext }
      match res with
      | .error e => return s!"err {e.name}"
      | .ok cs =>
        let eff := cs.map effective
        if (o.nat? "rules").getD 0 != 0 then
          -- the rule every `get_next_imf` call of the run evaluates (distinct values, in order of first occurrence)
          let rs := ((cs.filter (·.stage = .gni)).map fun c => fmtImfOpts (imfOptsOf c.args)).eraseDups
          return s!"ok n={rs.length} | " ++ " | ".intercalate rs
        return s!"ok gni={fmtTree (stageRecords .gni cs)} ie={fmtTree (stageRecords .ie cs)} gpe={fmtTree (stageRecords .gpe cs)} egni={fmtTree (stageRecords .gni eff)} eie={fmtTree (stageRecords .ie eff)} egpe={fmtTree (stageRecords .gpe eff)}"
  | "OPTSIGS" => some s!"ok sigs={fmtTree allSigs} lits={fmtTree (.seq .list (TreeList.ofList [siftImfLiteral, ieExtremaLiteral, gpeLocLiteral, gpeMagLiteral]))}"
  | _ => none

end Options
