/- EmdModel.Options — (stub; filled in by the property that owns it) -/
import EmdModel.Protocol

namespace Options

def handle (_o : Protocol.Op) : Option String := none

end Options
