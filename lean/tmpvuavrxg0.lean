import Proofs.C11
#print axioms C11.unfold_fold
#print axioms C11.holo_sparse_in_shape
#print axioms C11.holo_eq_spec
#print axioms C11.holo_shape
#print axioms C11.holo_sum_eq
#print axioms C11.holo_mean_eq
#print axioms C11.holo_total
#print axioms C11.holo_energy_is_square
#print axioms C11.holo_sparse_one_per_sample
#print axioms C11.holo_nnz
#print axioms C11.decreasing_edges_digitize
#print axioms C11.increasing_edges_digitize
#print axioms C11.squash_other_raises
#print axioms C11.mean_empty_raises
