-- root of the proof library: one module per property (theorems only) + helper lemmas
import Proofs.C04
import Proofs.C01
import Proofs.C03
