-- root of the proof library: one module per property (theorems only) + helper lemmas
import Proofs.C05
import Proofs.C06
import Proofs.C07
import Proofs.C08
import Proofs.C09
import Proofs.C10
import Proofs.C11
import Proofs.C12
import Proofs.C13
import Proofs.C14
import Proofs.C15
import Proofs.C16
import Proofs.C17
import Proofs.C18
import Proofs.C19
import Proofs.C20
