-- root of the proof library: one module per property (theorems only) + helper lemmas
import Proofs.C12
import Proofs.C13
