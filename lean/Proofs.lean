-- root of the proof library: one module per property (theorems only) + helper lemmas
import Proofs.C20
import Proofs.C19
