-- root of the proof library: one module per property (theorems only) + helper lemmas
import Proofs.C02
import Proofs.C05
import Proofs.C10
import Proofs.C11
import Proofs.C12
import Proofs.C13
import Proofs.C14
import Proofs.C16
import Proofs.C17
