import EmdModel.Driver

partial def loop (h : IO.FS.Stream) (out : IO.FS.Stream) : IO Unit := do
  let line ← h.getLine
  if line.isEmpty then return ()
  let l := line.trimAscii.toString
  if l.isEmpty || l.startsWith "#" then
    out.putStrLn "skip"
  else
    out.putStrLn (Driver.answer l)
  loop h out

def main : IO Unit := do
  let stdin ← IO.getStdin
  let stdout ← IO.getStdout
  loop stdin stdout
  stdout.flush
