/-
  C19 — array inputs are layout-insensitive, validated and never modified.
  Property theorems only (helper lemmas: Proofs/Lemmas/Support.lean).

  Model: EmdModel/Support.lean — the four `ensure_*` routines of emd/support.py on shapes.
  PARTIAL by nature: the theorems cover the accept / reject / normalise logic that every public
  entry point delegates to.  "No routine modifies its inputs", "accepted layouts give identical
  values", "read-only arrays are accepted" and "a repeated call is identical" are statements
  about Python objects with no counterpart in a pure model; they are decided by the
  `entry_points` instance check of harness/props/c19.py only.

  Clause by clause (review B, item 8):
  1. "(n,), (n,1), (n,1,…) give identical results" — THEOREM for the normalised SHAPE
     (`ensure1d_accepts_iff`, `ensure1d_layout_insensitive`, `ensureVector_accepts_iff`,
     `ensure_preserves_size`); INSTANCE-ONLY for the identity of the VALUES the entry points return.
  2. "multi-column input to a single-signal routine is rejected" — THEOREM for the two validating
     normalisers (`ensure1d_rejects_iff`, `ensureVector_rejects_iff`); WHICH entry point applies WHICH
     normaliser to which argument is not modelled: the accept / reject verdict per public entry point is
     INSTANCE-ONLY (stream `entry_points`).  As read from the code (validated by that stream, not proved):
       ensure_1d_with_singleton: get_next_imf, sift, ensemble_sift, complete_ensemble_sift,
                                 get_next_imf_mask, mask_sift (X); get_cycle_vector_from_waveform (imf);
                                 bin_by_phase (weights)
       ensure_vector:            get_cycle_stat (values), phase_align (ip, x), bin_by_phase (ip),
                                 get_control_points (x), phase_from_control_points (cycles), Cycles (IP),
                                 every label vector passed as `cycles` (_ensure_cycle_inputs)
       ensure_2d only (rejects nothing, `ensure2d_spec`): frequency_transform, is_imf, normalised_waveform,
                                 sift_second_layer / mask_sift_second_layer (IA), hilberthuang, holospectrum,
                                 get_cycle_vector (phase, mask) — for these the rank is decided by downstream
                                 numpy errors, not by a theorem
       no normaliser at all:     interp_envelope, get_padded_extrema, compute_parabolic_extrema, emd.utils.*
       ensure_equal_dims:        hilberthuang and phase_align (dim=None: the prefix test below), holospectrum
                                 (dim=0 and dim=1), get_cycle_vector with a mask and bin_by_phase (dim=0)
  3. "mismatched array lengths are rejected" — THEOREM for the routine (`ensureEqualDims_axis_iff`,
     `ensureEqualDims_iff`, `ensureAll_iff`), with the caveat proved in `ensureEqualDims_is_prefix_test` /
     `ensureEqualDims_not_symmetric`: with `dim=None` the test is a prefix test relative to the FIRST array.
  4. "no routine modifies the arrays or option dictionaries", "read-only arrays accepted", "a repeated
     deterministic call is identical" — INSTANCE-ONLY (byte-level before/after comparison; DESIGN §12.4).
-/
import Proofs.Lemmas.Support
import Proofs.Lemmas.ComposeShapes

namespace C19
open Support

/-- `ensure_1d_with_singleton` accepts exactly a vector (n), a column (n,1) and a column with
    further trailing singletons (n,1,…,1), and normalises every one of them to (n,1).
    (A 0-d array is passed through untouched: it is not an array of samples.) -/
theorem ensure1d_accepts_iff (s t : Shape) :
    ensure1d s = .ok t ↔ (s = [] ∧ t = []) ∨ ∃ n k, s = n :: List.replicate k 1 ∧ t = [n, 1] := by
  match s with
  | [] =>
    rw [ensure1d_nil]
    constructor
    · intro h; cases h; exact Or.inl ⟨rfl, rfl⟩
    · rintro (⟨_, rfl⟩ | ⟨n, k, h, _⟩)
      · rfl
      · cases h
  | [n] =>
    rw [ensure1d_single]
    constructor
    · intro h; cases h; exact Or.inr ⟨n, 0, rfl, rfl⟩
    · rintro (⟨h, _⟩ | ⟨n', k, h, rfl⟩)
      · cases h
      · cases k with
        | zero => cases h; rfl
        | succ k => simp [List.replicate_succ] at h
  | n :: m :: rest =>
    rw [ensure1d_cons2]
    cases hall : (m :: rest).all (· == 1) with
    | false =>
      obtain ⟨d, hd, hne⟩ := (all_one_false_iff (m :: rest)).1 hall
      constructor
      · intro h; simp at h
      · rintro (⟨h, _⟩ | ⟨n', k, h, _⟩)
        · cases h
        · exfalso
          have h2 : m :: rest = List.replicate (k - 1 + 1) 1 := by
            cases k with
            | zero => simp at h
            | succ k => simpa [List.replicate_succ] using (List.cons.inj h).2
          rw [h2] at hd
          exact hne (List.eq_of_mem_replicate hd)
    | true =>
      have hrep := (all_one_iff (m :: rest)).1 hall
      constructor
      · intro h
        simp only [ite_true] at h; cases h
        exact Or.inr ⟨n, (m :: rest).length, by rw [← hrep], rfl⟩
      · rintro (⟨h, _⟩ | ⟨n', k, h, rfl⟩)
        · cases h
        · cases (List.cons.inj h).1; rfl

/-- … and rejects every other shape with `ValueError`: rank ≥ 2 with some trailing dimension
    other than 1 — in particular two genuine columns (n,2) and a row (1,n). -/
theorem ensure1d_rejects_iff (s : Shape) (e : Err) :
    ensure1d s = .error e ↔ e = .valueError ∧ 2 ≤ s.length ∧ ∃ d ∈ s.drop 1, d ≠ 1 := by
  match s with
  | [] => rw [ensure1d_nil]; simp
  | [n] => rw [ensure1d_single]; simp
  | n :: m :: rest =>
    rw [ensure1d_cons2]
    cases hall : (m :: rest).all (· == 1) with
    | false =>
      have hex := (all_one_false_iff (m :: rest)).1 hall
      constructor
      · intro h; simp at h; exact ⟨h.symm, by simp, hex⟩
      · rintro ⟨rfl, _, _⟩; rfl
    | true =>
      have hno : ¬ ∃ d ∈ m :: rest, d ≠ 1 := by
        rw [← all_one_false_iff, hall]; simp
      constructor
      · intro h; simp at h
      · rintro ⟨_, _, hd⟩; exact absurd hd hno

/-- Layout-insensitivity of the normaliser: every accepted layout of an n-sample signal gives
    the same (n,1) column; two genuine columns, a row, and any n-d array with a non-singleton
    trailing dimension are rejected. -/
theorem ensure1d_layout_insensitive (n k : Nat) :
    ensure1d (n :: List.replicate k 1) = .ok [n, 1] ∧
    (∀ c, c ≠ 1 → ensure1d [n, c] = .error .valueError) ∧
    (∀ c rest, c ≠ 1 → ensure1d (n :: c :: rest) = .error .valueError) := by
  refine ⟨(ensure1d_accepts_iff _ _).2 (Or.inr ⟨n, k, rfl, rfl⟩), ?_, ?_⟩
  · intro c hc
    exact (ensure1d_rejects_iff _ _).2 ⟨rfl, by simp, c, by simp, hc⟩
  · intro c rest hc
    exact (ensure1d_rejects_iff _ _).2 ⟨rfl, by simp, c, by simp, hc⟩

/-- `ensure_vector` accepts exactly a vector (n) (unchanged) and a single column (n,1)
    (trimmed to (n)); 0-d arrays pass through. -/
theorem ensureVector_accepts_iff (s t : Shape) :
    ensureVector s = .ok t ↔ (s.length ≤ 1 ∧ t = s) ∨ ∃ n, s = [n, 1] ∧ t = [n] := by
  match s with
  | [] =>
    rw [ensureVector_nil]
    constructor
    · intro h; cases h; exact Or.inl ⟨by simp, rfl⟩
    · rintro (⟨_, rfl⟩ | ⟨n, h, _⟩)
      · rfl
      · cases h
  | [n] =>
    rw [ensureVector_single]
    constructor
    · intro h; cases h; exact Or.inl ⟨by simp, rfl⟩
    · rintro (⟨_, rfl⟩ | ⟨n', h, _⟩)
      · rfl
      · cases h
  | [n, m] =>
    rw [ensureVector_pair]
    by_cases hm : m = 1
    · subst hm
      constructor
      · intro h; simp at h; exact Or.inr ⟨n, rfl, h.symm⟩
      · rintro (⟨h, _⟩ | ⟨n', h, rfl⟩)
        · simp at h
        · cases h; rfl
    · simp only [hm, ite_false]
      constructor
      · intro h; cases h
      · rintro (⟨h, _⟩ | ⟨n', h, _⟩)
        · simp at h
        · cases h; exact absurd rfl hm
  | n :: m :: r :: rest =>
    rw [ensureVector_nd]
    constructor
    · intro h; cases h
    · rintro (⟨h, _⟩ | ⟨n', h, _⟩)
      · simp at h
      · cases h

/-- … and rejects with `ValueError` exactly the 2-D arrays with more than one column and
    everything of rank 3 and above. -/
theorem ensureVector_rejects_iff (s : Shape) (e : Err) :
    ensureVector s = .error e ↔ e = .valueError ∧ ((∃ n m, s = [n, m] ∧ m ≠ 1) ∨ 3 ≤ s.length) := by
  match s with
  | [] => rw [ensureVector_nil]; simp
  | [n] => rw [ensureVector_single]; simp
  | [n, m] =>
    rw [ensureVector_pair]
    by_cases hm : m = 1
    · subst hm; simp
    · simp only [hm, ite_false]
      constructor
      · intro h; cases h; exact ⟨rfl, Or.inl ⟨n, m, rfl, hm⟩⟩
      · rintro ⟨rfl, _⟩; rfl
  | n :: m :: r :: rest =>
    rw [ensureVector_nd]
    constructor
    · intro h; cases h; exact ⟨rfl, Or.inr (by simp)⟩
    · rintro ⟨rfl, _⟩; rfl

/-- `ensure_2d` rejects nothing: a vector gains a singleton second axis, everything else is
    returned as is; the result has rank ≥ 2 (unless 0-d) and the routine is idempotent. -/
theorem ensure2d_spec (s : Shape) :
    (s.length = 1 → ensure2d s = s ++ [1]) ∧ (s.length ≠ 1 → ensure2d s = s) ∧
    (s ≠ [] → 2 ≤ (ensure2d s).length) ∧ ensure2d (ensure2d s) = ensure2d s := by
  match s with
  | [] => simp [ensure2d]
  | [n] => simp [ensure2d]
  | n :: m :: rest => simp [ensure2d]

/-- `ensure_equal_dims(..., dim=d)`: accepted exactly when every array has axis `d` and all the
    lengths along it agree; `ValueError` exactly when every array has the axis and some length
    differs from the first array's (a missing axis is an `IndexError`). -/
theorem ensureEqualDims_axis_iff (s0 : Shape) (rest : List Shape) (d : Nat) :
    (ensureEqualDims (s0 :: rest) (some d) = .ok () ↔
      ∃ v, s0[d]? = some v ∧ ∀ s ∈ rest, s[d]? = some v) ∧
    (ensureEqualDims (s0 :: rest) (some d) = .error .valueError ↔
      ∃ v, s0[d]? = some v ∧ (∀ s ∈ rest, s[d]? ≠ none) ∧ ∃ s ∈ rest, s[d]? ≠ some v) := by
  have key : ∀ (s : Shape) (p : List Nat), pick s [d] = .ok p ↔ ∃ v, s[d]? = some v ∧ p = [v] := by
    intro s p
    rw [pick_one]
    cases s[d]? with
    | none => simp
    | some v => simp [eq_comm]
  constructor
  · rw [ensureEqualDims_ok_iff]
    simp only [dimsOf, key]
    constructor
    · rintro ⟨p0, ⟨v, hv, rfl⟩, hall⟩
      refine ⟨v, hv, fun s hs => ?_⟩
      obtain ⟨w, hw, h⟩ := hall s hs
      cases h; exact hw
    · rintro ⟨v, hv, hall⟩
      exact ⟨[v], ⟨v, hv, rfl⟩, fun s hs => ⟨v, hall s hs, rfl⟩⟩
  · rw [ensureEqualDims_valueError_iff]
    simp only [dimsOf]
    constructor
    · rintro ⟨p0, h0, hok, s, hs, hne⟩
      obtain ⟨v, hv, rfl⟩ := (key _ _).1 h0
      refine ⟨v, hv, fun s hs => ?_, s, hs, ?_⟩
      · obtain ⟨p, hp⟩ := hok s hs
        obtain ⟨w, hw, _⟩ := (key _ _).1 hp
        simp [hw]
      · intro h; exact hne ((key _ _).2 ⟨v, h, rfl⟩)
    · rintro ⟨v, hv, hok, s, hs, hne⟩
      refine ⟨[v], (key _ _).2 ⟨v, hv, rfl⟩, fun s hs => ?_, s, hs, ?_⟩
      · cases h : s[d]? with
        | none => exact absurd h (hok s hs)
        | some w => exact ⟨[w], (key _ _).2 ⟨w, h, rfl⟩⟩
      · intro h
        obtain ⟨w, hw, h2⟩ := (key _ _).1 h
        cases h2; exact hne hw

/-- `ensure_equal_dims(..., dim=None)` compares along all the axes of the FIRST array: accepted
    exactly when the first shape is a prefix of every other shape — so, for arrays of equal
    rank, exactly when all shapes are equal. -/
theorem ensureEqualDims_iff (s0 : Shape) (rest : List Shape) :
    (ensureEqualDims (s0 :: rest) none = .ok () ↔
      ∀ s ∈ rest, s0.length ≤ s.length ∧ s.take s0.length = s0) ∧
    ((∀ s ∈ rest, s.length = s0.length) →
      (ensureEqualDims (s0 :: rest) none = .ok () ↔ ∀ s ∈ rest, s = s0)) := by
  have key : ∀ (s : Shape) (p : List Nat),
      pick s (List.range s0.length) = .ok p ↔ s0.length ≤ s.length ∧ s.take s0.length = p := by
    intro s p
    rw [pick_range]
    by_cases h : s0.length ≤ s.length <;> simp [h]
  have h0 : pick s0 (List.range s0.length) = .ok s0 := (key s0 s0).2 ⟨Nat.le_refl _, List.take_length⟩
  have main : ensureEqualDims (s0 :: rest) none = .ok () ↔
      ∀ s ∈ rest, s0.length ≤ s.length ∧ s.take s0.length = s0 := by
    rw [ensureEqualDims_ok_iff]
    simp only [dimsOf]
    constructor
    · rintro ⟨p0, hp0, hall⟩
      rw [h0] at hp0; cases hp0
      exact fun s hs => (key s s0).1 (hall s hs)
    · intro hall
      exact ⟨s0, h0, fun s hs => (key s s0).2 (hall s hs)⟩
  refine ⟨main, fun hlen => ?_⟩
  rw [main]
  constructor
  · intro hall s hs
    have := (hall s hs).2
    rw [← hlen s hs, List.take_length] at this
    exact this
  · intro hall s hs
    rw [hall s hs]; exact ⟨Nat.le_refl _, List.take_length⟩

/-- **No input passes with a mismatch** — one statement for both forms of the `dim` argument.  Let the compared
    axes be `dimsOf s0 dim` (all axes of the first array for `dim=None`, the single axis `d` for `dim=d`).  The
    call is accepted if and only if along EVERY compared axis the first array has a length and EVERY other array
    has that same length; so whenever some array differs from the first along some compared axis (or lacks the
    axis) the call raises — there is no list of arrays, no position of the odd one out and no `dim` for which a
    mismatch is let through. -/
theorem ensureEqualDims_rejects_every_mismatch (s0 : Shape) (rest : List Shape) (dim : Option Nat) :
    (ensureEqualDims (s0 :: rest) dim = .ok () ↔
      ∀ ax ∈ dimsOf s0 dim, ∃ v, s0[ax]? = some v ∧ ∀ s ∈ rest, s[ax]? = some v) ∧
    (∀ s ∈ rest, ∀ ax ∈ dimsOf s0 dim, s[ax]? ≠ s0[ax]? →
      ∃ e, ensureEqualDims (s0 :: rest) dim = .error e) := by
  have hiff : ensureEqualDims (s0 :: rest) dim = .ok () ↔
      ∀ ax ∈ dimsOf s0 dim, ∃ v, s0[ax]? = some v ∧ ∀ s ∈ rest, s[ax]? = some v := by
    cases dim with
    | some d =>
      rw [(ensureEqualDims_axis_iff s0 rest d).1]
      simp [dimsOf]
    | none =>
      rw [(ensureEqualDims_iff s0 rest).1]
      simp only [dimsOf, List.mem_range]
      constructor
      · intro h ax hax
        refine ⟨s0[ax], List.getElem?_eq_getElem hax, fun s hs => ?_⟩
        obtain ⟨hle, htake⟩ := h s hs
        have : (s.take s0.length)[ax]? = s0[ax]? := by rw [htake]
        rw [List.getElem?_take_of_lt hax] at this
        rw [this, List.getElem?_eq_getElem hax]
      · intro h s hs
        have hle : s0.length ≤ s.length := by
          cases hl : s0.length with
          | zero => omega
          | succ n =>
            obtain ⟨v, _, hv⟩ := h n (by omega)
            have := hv s hs
            have hlt : n < s.length := by
              apply Classical.byContradiction
              intro hc
              rw [List.getElem?_eq_none (by omega)] at this
              cases this
            omega
        refine ⟨hle, ?_⟩
        apply List.ext_getElem?
        intro i
        by_cases hi : i < s0.length
        · obtain ⟨v, hv0, hv⟩ := h i hi
          rw [List.getElem?_take_of_lt hi, hv s hs, hv0]
        · rw [List.getElem?_eq_none (by simp; omega), List.getElem?_eq_none (by omega)]
  refine ⟨hiff, fun s hs ax hax hne => ?_⟩
  cases hr : ensureEqualDims (s0 :: rest) dim with
  | error e => exact ⟨e, rfl⟩
  | ok u =>
    exfalso
    obtain ⟨v, hv0, hv⟩ := hiff.mp hr ax hax
    exact hne (by rw [hv s hs, hv0])

/-- Two arrays, `dim=None`: the complete case analysis.  The second shape is only looked at along the
    axes of the FIRST one: too few axes → IndexError (from `np.array(x.shape)[dim]`), enough axes but a
    different leading part → ValueError, otherwise accepted — whatever further axes it has. -/
theorem ensureEqualDims_pair (a b : Shape) :
    ensureEqualDims [a, b] none =
      if b.length < a.length then .error .indexError
      else if b.take a.length = a then .ok () else .error .valueError := by
  have ha : pick a (List.range a.length) = .ok a := by rw [pick_range]; simp
  simp only [ensureEqualDims, dimsOf, ha, pickAll, pick_range]
  by_cases h : b.length < a.length
  · have : ¬ a.length ≤ b.length := by omega
    simp [this, h]
  · have h' : a.length ≤ b.length := by omega
    simp only [h', ite_true, h, ite_false]
    by_cases he : b.take a.length = a
    · simp [he]
    · have : (List.take a.length b == a) = false := by simpa using he
      simp [he, this]

/-- `ensure_equal_dims(dim=None)` is a PREFIX test relative to the first array, not an equality test:
    `[a, b]` is accepted exactly when `a` is a prefix of `b`. -/
theorem ensureEqualDims_is_prefix_test (a b : Shape) :
    ensureEqualDims [a, b] none = .ok () ↔ a <+: b := by
  rw [ensureEqualDims_pair]
  constructor
  · intro h
    by_cases h1 : b.length < a.length
    · simp [h1] at h
    · by_cases h2 : b.take a.length = a
      · rw [← h2]; exact List.take_prefix _ _
      · simp [h1, h2] at h
  · rintro ⟨t, rfl⟩
    simp

/-- … and therefore ASYMMETRIC: whenever the accepted pair is not a pair of equal shapes, the same two
    arrays in the other order are rejected (IndexError: the shorter shape lacks an axis of the first).
    "Mismatched array lengths are rejected" is thus guaranteed only along the axes of the first array. -/
theorem ensureEqualDims_not_symmetric (a b : Shape) (h : ensureEqualDims [a, b] none = .ok ()) (hne : a ≠ b) :
    ensureEqualDims [b, a] none = .error .indexError := by
  obtain ⟨t, rfl⟩ := (ensureEqualDims_is_prefix_test a b).1 h
  have ht : t ≠ [] := by intro e; subst e; simp at hne
  have hl : 0 < t.length := List.length_pos_iff.mpr ht
  rw [ensureEqualDims_pair]
  simp only [List.length_append]
  rw [if_pos (by omega)]

/-- the witness checked against the real code (c19.py, stream equal_dims): (7,2) then (7,2,3) is accepted,
    (7,2,3) then (7,2) raises IndexError; (7,2) then (6,2,3) raises ValueError in both orders' first test -/
theorem ensureEqualDims_swap_witness :
    ensureEqualDims [[7, 2], [7, 2, 3]] none = .ok () ∧
    ensureEqualDims [[7, 2, 3], [7, 2]] none = .error .indexError ∧
    ensureEqualDims [[7, 2], [6, 2, 3]] none = .error .valueError ∧
    ensureEqualDims [[6, 2, 3], [7, 2]] none = .error .indexError := ⟨rfl, rfl, rfl, rfl⟩

/-- Calls with several arrays (`ensure_1d_with_singleton([a, b], …)`): accepted exactly when
    every array is, with the normalised shapes returned in order; rejected as soon as one array
    is — for both validating normalisers. -/
theorem ensureAll_iff (ss ts : List Shape) :
    (ensure1dAll ss = .ok ts ↔ ts.length = ss.length ∧ ∀ p ∈ ss.zip ts, ensure1d p.1 = .ok p.2) ∧
    ((∃ e, ensure1dAll ss = .error e) ↔ ∃ s ∈ ss, ∃ e, ensure1d s = .error e) ∧
    (ensureVectorAll ss = .ok ts ↔ ts.length = ss.length ∧ ∀ p ∈ ss.zip ts, ensureVector p.1 = .ok p.2) ∧
    ((∃ e, ensureVectorAll ss = .error e) ↔ ∃ s ∈ ss, ∃ e, ensureVector s = .error e) :=
  ⟨allOk_ok_iff _ _ _, allOk_error_iff _ _, allOk_ok_iff _ _ _, allOk_error_iff _ _⟩

/-- No normaliser drops or duplicates data: the number of elements is preserved. -/
theorem ensure_preserves_size (s t : Shape) :
    (ensure1d s = .ok t → numel t = numel s) ∧ (ensureVector s = .ok t → numel t = numel s) ∧
    numel (ensure2d s) = numel s := by
  refine ⟨?_, ?_, ?_⟩
  · intro h
    rcases (ensure1d_accepts_iff s t).1 h with ⟨rfl, rfl⟩ | ⟨n, k, rfl, rfl⟩
    · rfl
    · rw [numel_cons, numel_cons, numel_cons, numel_replicate_one]; simp [numel]
  · intro h
    rcases (ensureVector_accepts_iff s t).1 h with ⟨_, rfl⟩ | ⟨n, rfl, rfl⟩
    · rfl
    · simp [numel]
  · unfold ensure2d; split
    · exact numel_append_one s
    · rfl

/-! ### The pinned routines violate the statements above (DESIGN §9-D15); kept as witnesses. -/

/-- pinned `ensure_1d_with_singleton`: two genuine columns and a row are accepted untouched -/
theorem ensure1d_two_columns_current (n c : Nat) :
    ensure1dPinned [n, c] = .ok [n, c] := by
  simp [ensure1dPinned]

/-- pinned: `np.squeeze` also removes the sample axis of a one-sample signal -/
theorem ensure1d_one_sample_current : ensure1dPinned [1, 1, 1] = .error .indexError := rfl

/-- pinned `ensure_vector`: (n,1,k) is "trimmed" to the matrix (n,k) instead of being rejected -/
theorem ensureVector_nd_current (n k : Nat) : ensureVectorPinned [n, 1, k] = .ok [n, k] := by
  simp [ensureVectorPinned]

/-! ### Non-vacuity -/
example : ensure1d [7, 1, 1] = .ok [7, 1] := (ensure1d_layout_insensitive 7 2).1
example : ensure1d [7, 2] = .error .valueError := (ensure1d_layout_insensitive 7 0).2.1 2 (by decide)
example : ensure1d [1, 7] = .error .valueError := (ensure1d_layout_insensitive 1 0).2.1 7 (by decide)
example : ensureVector [7, 1] = .ok [7] := rfl
example : ensureVector [7, 1, 3] = .error .valueError := rfl
example : ensure1dAll [[7], [7, 1, 1]] = .ok [[7, 1], [7, 1]] := rfl
example : ensure1dAll [[7], [7, 2]] = .error .valueError := rfl
example : ensureEqualDims [[7, 2], [7, 2, 3]] none = .ok () := rfl
example : ensureEqualDims [[7, 1], [6, 1]] (some 0) = .error .valueError := rfl
example : ensureEqualDims [[7], [7, 2], []] (some 0) = .error .indexError := rfl

/-! ### Link to the spectra model (C09 / C11)

`EmdModel/Spectra.lean` carries its own copies of `ensure_2d` and `ensure_equal_dims` (`ensure2d`,
`equalDimsAll`, `equalDimsAt`, applied to the two / three shapes handed to `hilberthuang` and
`holospectrum`).  They are the routines of this model (outcome `none` = IndexError, `some false` =
ValueError, `some true` = accepted), so the accept / reject theorems above hold of the shape checks the
spectra model performs.  Helper lemmas: Proofs/Lemmas/ComposeShapes.lean. -/
theorem spectra_shape_checks_are_support_routines :
    (∀ s, Spectra.ensure2d s = ensure2d s) ∧
    (∀ ss, ComposeShapes.toExcept (Spectra.equalDimsAll ss) = ensureEqualDims ss none) ∧
    (∀ ss d, ComposeShapes.toExcept (Spectra.equalDimsAt ss d) = ensureEqualDims ss (some d)) :=
  ⟨ComposeShapes.ensure2d_agree, ComposeShapes.equalDimsAll_agree_all, ComposeShapes.equalDimsAt_agree_all⟩

/-- The empty list of arrays (`ensure_equal_dims([], [], f, dim)`): IndexError for `dim=None`, silent pass
    for a given `dim` — as the code does.  The two independently written models originally disagreed here
    (each was wrong in one of the two cases); the composition proof exposed it and the real code decided. -/
theorem ensure_equal_dims_empty_list :
    ensureEqualDims [] none = .error .indexError ∧ ∀ d, ensureEqualDims [] (some d) = .ok () :=
  ⟨rfl, fun _ => rfl⟩

example : ComposeShapes.toExcept (Spectra.equalDimsAt [[7, 2], [7, 2, 3], [6, 2, 3]] 0) = .error .valueError := rfl
example : ComposeShapes.toExcept (Spectra.equalDimsAll [[7, 2], [7]]) = .error .indexError := rfl

-- `ensureEqualDims_rejects_every_mismatch`: the odd one out in the LAST position, along the last compared axis, is caught
-- (dim=None and dim=1), and a list without a mismatch passes
example : ensureEqualDims [[7, 2], [7, 2], [7, 3]] none = .error .valueError := rfl
example : ensureEqualDims [[7, 2], [7, 2], [7, 3]] (some 1) = .error .valueError := rfl
example : ensureEqualDims [[7, 2], [7, 2], [7, 2]] none = .ok () := rfl
example : ([7, 3] : Shape)[1]? ≠ ([7, 2] : Shape)[1]? := by decide

end C19
