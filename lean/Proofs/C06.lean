/-
  C06 — every sift option takes effect at the stage it configures, in every variant.
  Property theorems only (helper lemmas: Proofs/Lemmas/Options.lean).

  All statements are about the executable model `EmdModel.Options`: for every variant (classic,
  ensemble, complete ensemble, masked, the two mask helpers, `get_next_imf` itself, any of them
  as `sift_second_layer`'s sift function, and `mask_sift_second_layer`), for every user dictionary (any keys, any values), every
  other top-level keyword and every delivery route.

  `Obeys imf env ext cs` (Lemmas/Options.lean) says: the emitted stage calls `cs` consist of complete
  chains  get_next_imf → interp_envelope(upper) → get_padded_extrema(peaks) → interp_envelope(lower) →
  get_padded_extrema(troughs), and in every chain every own option `p` of every stage has the value
  `(user_dict.lookup p).getD signature_default_p` — the supplied value when one was supplied, the
  signature default otherwise (for the two `np.pad` option dictionaries: after the in-function
  replacement of a falsy value by the literal).
-/
import Proofs.Lemmas.OptionsRoutes
import Proofs.Lemmas.OptionsTotal
import Proofs.Lemmas.OptionsRules
import Proofs.C04

namespace C06
open Config Options

/-! ### resolution of options against defaults -/

/-- Resolving twice changes nothing: a resolved option set is a fixed point. -/
theorem resolve_idem (sig kw : Assoc) (h : noDup sig.keys = true) :
    resolve sig (resolve sig kw) = resolve sig kw := resolve_idem' sig kw h

/-- A resolved option is the supplied value if there is one, the signature default otherwise;
    nothing else is consulted. -/
theorem resolve_lookup (sig kw : Assoc) (p : Key) :
    (resolve sig kw).lookup p = (sig.lookup p).map (fun d => (kw.lookup p).getD d) := lookup_resolve p kw sig

/-- The special-case literals written inside `sift`, `interp_envelope`, `get_padded_extrema` and
    `get_config` equal the signature defaults they stand for, so taking a special-case branch never
    changes an effective option. -/
theorem defaults_agree :
    (∀ p d, gniOwn.lookup p = some d → ((dictOf siftImfLiteral).lookup p).getD d = d) ∧
    (∀ p d, gpeOwn.lookup p = some d → ((dictOf ieExtremaLiteral).lookup p).getD d = d) ∧
    gpeLocLiteral = Config.locPadOpts ∧ gpeMagLiteral = Config.magPadOpts ∧
    (∀ p d, ieOwn.lookup p = some d → (envDefaults.lookup p).getD d = d) ∧
    (∀ p d, gpeOwn.lookup p = some d → effVal p ((extDefaults.lookup p).getD d) = effVal p d) ∧
    (∀ sg ∈ [gniSig, ieSig, gpeSig, siftSig, swnSig, ensSig, gnimSig, gmfSig, maskSig], noDup sg.keys = true) :=
  ⟨fun _ _ h => siftLiteral_agrees h, fun _ _ h => ieLiteral_agrees h, rfl, rfl,
   fun _ _ h => envDefaults_agree h, fun _ _ h => extDefaults_agree h, by decide⟩

/-! ### the property -/

/-- **Every supplied option reaches its stage, on every route, in every variant.**
    Whenever a top-level call succeeds at all, every stage call it makes — in the main process, in
    pool jobs, in the noise-only sifts of the complete-ensemble variant, in the first-IMF extraction
    of the masked sift — works with exactly the user's options: supplied values are never dropped,
    unsupplied ones are the signature defaults. -/
theorem stage_opts_effective (r : Route) (v : Variant) (u : User) (hu : WF u) (cs : List StageCall)
    (h : emit false r v u = .ok cs) :
    Obeys (userImf v u) (optA u.env) (optA u.ext) cs := by
  cases r with
  | direct =>
    have h' : runVariant false v (kwargsDirect u) = .ok cs := by
      simpa [emit, bind, Except.bind, pure, Except.pure] using h
    have ob := runVariant_obeys v h'
    obtain ⟨_, e2, e3⟩ := kwArg_direct u hu.clean
    rw [e2, e3] at ob
    exact ob.congr (imfOf_direct v u hu.clean) (fun _ _ _ => rfl) (fun _ _ _ => rfl)
  | unpackCfg =>
    by_cases hcf : Configurable v
    · obtain ⟨c1, c2, c3, c4⟩ := cfg_facts (baseVariant v) hcf
      obtain ⟨K, hK, k1, k2, k3, _⟩ := kwargsConfig_spec (baseVariant v) u c1 c2 c3 c4 hu.clean hu.topSlash
        hu.imfSlash hu.envSlash hu.extSlash
      have h' : runVariant false v K = .ok cs := by
        simpa [emit, hK, bind, Except.bind, pure, Except.pure] using h
      have ob := runVariant_obeys v h'
      rw [(imfOf_config v K hcf).1, k1, k2, k3] at ob
      rw [(imfOf_config v K hcf).2 u]
      exact ob.congr (fun p d hp => assignA_own_lookup gniOwn gniOwn _ hu.imfNodup (fun _ _ h => gniOwn_self h) hp)
        (fun p d hp => assignA_own_lookup ieOwn envDefaults _ hu.envNodup (fun _ _ h => envDefaults_agree h) hp)
        (fun p d hp => assignA_ext_lookup _ hu.extNodup hp)
    · simp [emit, not_configurable_error v u hcf, bind, Except.bind] at h
  | getFunc =>
    by_cases hf : takesFunc v = true
    case neg => simp [emit, hf, bind, Except.bind] at h
    by_cases hcf : Configurable v
    · obtain ⟨c1, c2, c3, c4⟩ := cfg_facts (baseVariant v) hcf
      obtain ⟨K, hK, k1, k2, k3, _⟩ := kwargsConfig_spec (baseVariant v) u c1 c2 c3 c4 hu.clean hu.topSlash
        hu.imfSlash hu.envSlash hu.extSlash
      have h' : runVariant false v K = .ok cs := by
        simpa [emit, hf, hK, bind, Except.bind, pure, Except.pure, Except.map, partialCall, append_nil] using h
      have ob := runVariant_obeys v h'
      rw [(imfOf_config v K hcf).1, k1, k2, k3] at ob
      rw [(imfOf_config v K hcf).2 u]
      exact ob.congr (fun p d hp => assignA_own_lookup gniOwn gniOwn _ hu.imfNodup (fun _ _ h => gniOwn_self h) hp)
        (fun p d hp => assignA_own_lookup ieOwn envDefaults _ hu.envNodup (fun _ _ h => envDefaults_agree h) hp)
        (fun p d hp => assignA_ext_lookup _ hu.extNodup hp)
    · simp [emit, hf, not_configurable_error v u hcf, bind, Except.bind, Except.map] at h

/-- **The three delivery routes are indistinguishable at the stages.** Keyword dictionaries,
    an edited `get_config(...)` unpacked into the call, and `SiftConfig.get_func()`: whatever two
    routes are taken, stage calls of the same stage work with the same effective own options. -/
theorem route_independent (r r' : Route) (v : Variant) (u : User) (hu : WF u) (cs cs' : List StageCall)
    (h : emit false r v u = .ok cs) (h' : emit false r' v u = .ok cs') :
    ∀ c ∈ cs, ∀ c' ∈ cs', c.stage = c'.stage → ∀ p d, (ownOf c.stage).lookup p = some d →
      (c.args.lookup p).map (effVal p) = (c'.args.lookup p).map (effVal p) := by
  intro c hc c' hc' hst p d hp
  have e1 := obeys_mem (stage_opts_effective r v u hu cs h) c hc p d hp
  have e2 := obeys_mem (stage_opts_effective r' v u hu cs' h') c' hc' p d (hst ▸ hp)
  rw [e1, e2, hst]

/-- Every chain reaches every stage: a non-empty emission contains `get_next_imf`, both
    `interp_envelope` modes and both `get_padded_extrema` modes (so the statements above are about
    all three stages, never vacuously). -/
theorem every_stage_reached (r : Route) (v : Variant) (u : User) (hu : WF u) (cs : List StageCall)
    (h : emit false r v u = .ok cs) (hne : cs ≠ []) :
    (∃ c ∈ cs, c.stage = .gni) ∧
    (∃ c ∈ cs, c.stage = .ie ∧ c.args.lookup "mode".toList = some (s "upper")) ∧
    (∃ c ∈ cs, c.stage = .ie ∧ c.args.lookup "mode".toList = some (s "lower")) ∧
    (∃ c ∈ cs, c.stage = .gpe ∧ c.args.lookup "mode".toList = some (s "peaks")) ∧
    (∃ c ∈ cs, c.stage = .gpe ∧ c.args.lookup "mode".toList = some (s "troughs")) := by
  obtain ⟨chains, rfl, hch⟩ := stage_opts_effective r v u hu cs h
  obtain ⟨ch, hm, _⟩ := exists_ne_nil_of_flatten_ne_nil chains hne
  obtain ⟨a, aU, gU, aL, gL, rfl, _, g2, g3, _, g5, g6, _⟩ := (hch ch hm).shape
  have sub : ∀ c ∈ [(⟨.gni, a⟩ : StageCall), ⟨.ie, aU⟩, ⟨.gpe, gU⟩, ⟨.ie, aL⟩, ⟨.gpe, gL⟩], c ∈ chains.flatten :=
    fun c hc => List.mem_flatten.mpr ⟨_, hm, hc⟩
  exact ⟨⟨_, sub ⟨.gni, a⟩ (by simp), rfl⟩, ⟨_, sub ⟨.ie, aU⟩ (by simp), rfl, g2⟩, ⟨_, sub ⟨.ie, aL⟩ (by simp), rfl, g3⟩,
    ⟨_, sub ⟨.gpe, gU⟩ (by simp), rfl, g5⟩, ⟨_, sub ⟨.gpe, gL⟩ (by simp), rfl, g6⟩⟩

/-! ### totality: the theorems above are never vacuous for well-formed options

  `Known v u` (Lemmas/OptionsTotal.lean) — **well-formed user options** for variant `v`: every option name is a
  parameter of the function it is meant for (`imf_opts` names ⊆ get_next_imf's own options, `envelope_opts` names ⊆
  interp_envelope's, `extrema_opts` names ⊆ get_padded_extrema's, other keywords ⊆ `topKeys v`), no name twice,
  `interp_method` / `noise_mode` (when given) valid, the three stage options dictionaries or absent (type of `User`),
  not hidden among the other keywords and without '/' in names (`WF`), and no `imf_opts` for `get_next_imf` itself. -/

/-- which delivery routes exist: keyword dictionaries for every variant; the configuration routes for the variants
    `get_config` knows (classic, ensemble, complete ensemble, masked — also as second-layer sifts); a ready-made
    callable (`get_func`) only where a sift function can be handed over (not `mask_sift_second_layer`) -/
def RouteExists (r : Route) (v : Variant) : Prop :=
  r = .direct ∨ (Configurable v ∧ (r = .getFunc → takesFunc v = true))

/-- **Totality.** For well-formed user options every variant on every existing route returns its stage calls — and
    at least one complete chain of them, except `get_mask_freqs` with an explicit frequency, which extracts nothing.
    Hence `stage_opts_effective`, `route_independent`, `every_stage_reached` apply to every such call. -/
theorem emit_total (r : Route) (v : Variant) (u : User) (h : Known v u) (hr : RouteExists r v) :
    ∃ cs, emit false r v u = .ok cs ∧ (baseVariant v ≠ .maskFreqs → cs ≠ []) := by
  cases r with
  | direct =>
    obtain ⟨cs, h1, h2⟩ := runVariant_ok v _ (kwOK_direct v u h)
    exact ⟨cs, by simpa [emit, bind, Except.bind, pure, Except.pure] using h1, h2⟩
  | unpackCfg =>
    rcases hr with hr | ⟨hc, _⟩
    · cases hr
    · obtain ⟨cs, h1, h2⟩ := runVariant_ok v _ (kwOK_config v u h hc)
      exact ⟨cs, by simpa [emit, kwargsConfig_known v u h hc, bind, Except.bind] using h1, h2⟩
  | getFunc =>
    rcases hr with hr | ⟨hc, hf⟩
    · cases hr
    · obtain ⟨cs, h1, h2⟩ := runVariant_ok v _ (kwOK_config v u h hc)
      exact ⟨cs, by simpa [emit, hf rfl, kwargsConfig_known v u h hc, bind, Except.bind, Except.map, partialCall,
        append_nil] using h1, h2⟩

/-- Routes that do not exist fail before any stage is reached, whatever the options: `get_config` raises
    AttributeError for the entry points it does not know; `mask_sift_second_layer` accepts no callable (TypeError). -/
theorem emit_route_missing (r : Route) (v : Variant) (u : User) (hr : ¬ RouteExists r v) :
    (takesFunc v = false ∧ r = .getFunc ∧ emit false r v u = .error .typeError) ∨
    (¬ Configurable v ∧ emit false r v u = .error .attributeError) := by
  cases r with
  | direct => exact absurd (Or.inl rfl) hr
  | unpackCfg =>
    have hc : ¬ Configurable v := fun hc => hr (Or.inr ⟨hc, fun e => by cases e⟩)
    exact Or.inr ⟨hc, by simp [emit, not_configurable_error v u hc, bind, Except.bind]⟩
  | getFunc =>
    cases hf : takesFunc v with
    | false => exact Or.inl ⟨rfl, rfl, by simp [emit, hf, bind, Except.bind]⟩
    | true =>
      have hc : ¬ Configurable v := fun hc => hr (Or.inr ⟨hc, fun _ => hf⟩)
      exact Or.inr ⟨hc, by simp [emit, hf, not_configurable_error v u hc, bind, Except.bind, Except.map]⟩

/-- **Converse: malformed stage options are rejected.** If a call with keyword dictionaries returns at least one
    chain, then every name in the user's `imf_opts` / `envelope_opts` / `extrema_opts` was a parameter of its stage,
    none was given twice and the interpolation method was valid.  (Contrapositive: an unknown or repeated option
    name, or an invalid method, makes the call raise — TypeError / ValueError, see the examples below — instead of
    being dropped.) -/
theorem emit_ok_wellformed (v : Variant) (u : User) (hc : TopClean u.top) (cs : List StageCall)
    (h : emit false .direct v u = .ok cs) (hne : cs ≠ []) :
    (baseVariant v ≠ .nextImf → GoodImf (optA u.imf)) ∧ GoodEnv (optA u.env) ∧ GoodExt (optA u.ext) := by
  have h' : runVariant false v (kwargsDirect u) = .ok cs := by
    simpa [emit, bind, Except.bind, pure, Except.pure] using h
  obtain ⟨g1, g2, g3⟩ := runVariant_inv v h' hne
  obtain ⟨e1, e2, e3⟩ := kwArgT_direct u hc
  rw [e1] at g1; rw [e2] at g2; rw [e3] at g3
  refine ⟨fun hb => ?_, ?_, ?_⟩
  · cases hi : u.imf with
    | none => exact goodImf_nil
    | some a =>
      cases a with
      | nil => exact goodImf_nil
      | cons p d r => rw [hi] at g1; exact g1 hb _ rfl (fun e => by cases e)
  · cases hi : u.env with
    | none => exact goodEnv_nil
    | some a => rw [hi] at g2; exact g2 _ rfl
  · cases hi : u.ext with
    | none => exact ⟨by simp [optA, Assoc.keys], rfl⟩
    | some a =>
      cases a with
      | nil => exact ⟨by simp [optA, Assoc.keys], rfl⟩
      | cons p d r => rw [hi] at g3; exact g3 _ rfl (fun e => by cases e)

/-! ### D5: what the pinned code did (model of the code before the repair) -/

def pchipUser : User := { top := .nil, imf := none, env := some (mk [("interp_method", s "pchip")]), ext := none }
def rillingUser : User := { top := .nil, imf := some (mk [("stop_method", s "rilling")]), env := none, ext := none }

/-- `mask_sift(X, envelope_opts={'interp_method': 'pchip'})` as pinned: all four envelopes (first-IMF
    extraction of `get_mask_freqs`, masked extraction of `get_next_imf_mask`) were still interpolated
    with the default 'splrep' — the option never left `mask_sift`. -/
theorem legacy_mask_dropped_envelope_opts :
    ∃ cs, emit true .direct .mask pchipUser = .ok cs ∧
      (cs.filter (·.stage = .ie)).map (fun c => c.args.lookup "interp_method".toList) =
        [some (s "splrep"), some (s "splrep"), some (s "splrep"), some (s "splrep")] :=
  ⟨_, rfl, rfl⟩

/-- `complete_ensemble_sift(X, imf_opts={'stop_method': 'rilling'})` as pinned: the ensemble jobs used
    'rilling' but the noise-only sifts ran `get_next_imf` with the default stop rule 'sd'
    (`imf_opts` had landed in the `verbose` slot of `sift`). -/
theorem legacy_noise_sift_dropped_options :
    ∃ cs, emit true .direct .complete rillingUser = .ok cs ∧
      (cs.filter (·.stage = .gni)).map (fun c => c.args.lookup "stop_method".toList) =
        [some (s "rilling"), some (s "sd")] :=
  ⟨_, rfl, rfl⟩

/-- the repaired model on the same inputs -/
example : ∃ cs, emit false .direct .mask pchipUser = .ok cs ∧
    (cs.filter (·.stage = .ie)).map (fun c => c.args.lookup "interp_method".toList) =
      [some (s "pchip"), some (s "pchip"), some (s "pchip"), some (s "pchip")] := ⟨_, rfl, rfl⟩
example : ∃ cs, emit false .direct .complete rillingUser = .ok cs ∧
    (cs.filter (·.stage = .gni)).map (fun c => c.args.lookup "stop_method".toList) =
      [some (s "rilling"), some (s "rilling")] := ⟨_, rfl, rfl⟩

/-- the repaired code on the same inputs: every envelope uses 'pchip'; every extraction 'rilling' -/
example : ∃ cs, emit false .direct .mask pchipUser = .ok cs ∧ cs.length = 10 := ⟨_, rfl, rfl⟩
example : ∃ cs, emit false .unpackCfg .mask pchipUser = .ok cs ∧ cs.length = 10 := ⟨_, rfl, rfl⟩
example : ∃ cs, emit false .getFunc .complete rillingUser = .ok cs ∧ cs.length = 10 := ⟨_, rfl, rfl⟩
example : ∃ cs, emit false .direct (.second .sift) rillingUser = .ok cs ∧ cs.length = 5 := ⟨_, rfl, rfl⟩

/-- the hypotheses of the theorems are satisfiable -/
example : WF pchipUser :=
  ⟨⟨rfl, rfl, rfl⟩, by simp [pchipUser, Assoc.keys], by simp [pchipUser, optA, Assoc.keys],
   by intro p hp; simp [pchipUser, optA, mk, Assoc.keys] at hp; subst hp; decide,
   by simp [pchipUser, optA, Assoc.keys], by simp [NodupKeys, pchipUser, optA, Assoc.keys],
   by simp [NodupKeys, pchipUser, optA, mk, Assoc.keys], by simp [NodupKeys, pchipUser, optA, Assoc.keys]⟩

/-! ### non-vacuity of the totality theorems: every (route, variant) pair -/

/-- `pchipUser` and `rillingUser` are well-formed for every variant -/
example : ∀ v, Known v pchipUser := fun v =>
  ⟨⟨⟨rfl, rfl, rfl⟩, by simp [pchipUser, Assoc.keys], by simp [pchipUser, optA, Assoc.keys],
    by intro p hp; simp [pchipUser, optA, mk, Assoc.keys] at hp; subst hp; decide,
    by simp [pchipUser, optA, Assoc.keys], by simp [NodupKeys, pchipUser, optA, Assoc.keys],
    by simp [NodupKeys, pchipUser, optA, mk, Assoc.keys], by simp [NodupKeys, pchipUser, optA, Assoc.keys]⟩,
   by simp [pchipUser, Assoc.keys], by simp [NodupKeys, pchipUser, Assoc.keys], by simp [pchipUser, optA, Assoc.keys],
   by intro p hp; simp [pchipUser, optA, mk, Assoc.keys] at hp; subst hp; decide,
   by simp [pchipUser, optA, Assoc.keys],
   by intro m hm; simp [-String.reduceToList, pchipUser, optA, mk, Assoc.lookup] at hm; subst hm; decide,
   by intro m hm; simp [pchipUser, Assoc.lookup] at hm, fun _ => rfl⟩

example : RouteExists .direct .nextImf ∧ RouteExists .unpackCfg (.second .mask) ∧ RouteExists .getFunc .complete ∧
    RouteExists .unpackCfg .maskSecond ∧ ¬ RouteExists .getFunc .maskSecond ∧ ¬ RouteExists .unpackCfg .nextImfMask := by
  refine ⟨Or.inl rfl, Or.inr ⟨Or.inr (Or.inr (Or.inr rfl)), fun _ => rfl⟩, Or.inr ⟨Or.inr (Or.inr (Or.inl rfl)), fun _ => rfl⟩,
    Or.inr ⟨Or.inr (Or.inr (Or.inr rfl)), fun e => by cases e⟩, ?_, ?_⟩
  · rintro (h | ⟨_, h⟩)
    · cases h
    · exact absurd (h rfl) (by decide)
  · rintro (h | ⟨h, _⟩)
    · cases h
    · simp [Configurable, baseVariant] at h

/-- concrete emissions: one chain = 5 stage calls; every entry point on the direct route … -/
example : ∃ cs, emit false .direct .sift pchipUser = .ok cs ∧ cs.length = 5 := ⟨_, rfl, rfl⟩
example : ∃ cs, emit false .direct .ensemble pchipUser = .ok cs ∧ cs.length = 5 := ⟨_, rfl, rfl⟩
example : ∃ cs, emit false .direct .nextImfMask pchipUser = .ok cs ∧ cs.length = 5 := ⟨_, rfl, rfl⟩
example : ∃ cs, emit false .direct .maskFreqs pchipUser = .ok cs ∧ cs.length = 5 := ⟨_, rfl, rfl⟩
example : ∃ cs, emit false .direct .nextImf pchipUser = .ok cs ∧ cs.length = 5 := ⟨_, rfl, rfl⟩
example : ∃ cs, emit false .direct (.second .mask) pchipUser = .ok cs ∧ cs.length = 10 := ⟨_, rfl, rfl⟩
example : ∃ cs, emit false .direct .maskSecond pchipUser = .ok cs ∧ cs.length = 5 ∧
    (cs.filter (·.stage = .ie)).map (fun c => c.args.lookup "interp_method".toList) = [some (s "pchip"), some (s "pchip")] :=
  ⟨_, rfl, rfl, rfl⟩
/-- … the configuration routes of the variants `get_config` knows … -/
example : ∃ cs, emit false .unpackCfg .sift rillingUser = .ok cs ∧ cs.length = 5 := ⟨_, rfl, rfl⟩
example : ∃ cs, emit false .getFunc .sift rillingUser = .ok cs ∧ cs.length = 5 := ⟨_, rfl, rfl⟩
example : ∃ cs, emit false .unpackCfg .ensemble rillingUser = .ok cs ∧ cs.length = 5 := ⟨_, rfl, rfl⟩
example : ∃ cs, emit false .getFunc .ensemble rillingUser = .ok cs ∧ cs.length = 5 := ⟨_, rfl, rfl⟩
example : ∃ cs, emit false .unpackCfg .complete rillingUser = .ok cs ∧ cs.length = 10 := ⟨_, rfl, rfl⟩
example : ∃ cs, emit false .getFunc .mask rillingUser = .ok cs ∧ cs.length = 10 := ⟨_, rfl, rfl⟩
example : ∃ cs, emit false .unpackCfg (.second .sift) rillingUser = .ok cs ∧ cs.length = 5 := ⟨_, rfl, rfl⟩
example : ∃ cs, emit false .getFunc (.second .mask) rillingUser = .ok cs ∧ cs.length = 10 := ⟨_, rfl, rfl⟩
example : ∃ cs, emit false .unpackCfg .maskSecond rillingUser = .ok cs ∧ cs.length = 5 ∧
    (cs.filter (·.stage = .gni)).map (fun c => c.args.lookup "stop_method".toList) = [some (s "rilling")] :=
  ⟨_, rfl, rfl, rfl⟩
/-- … and the routes that do not exist -/
example : emit false .getFunc .maskSecond rillingUser = .error .typeError := rfl
example : emit false .unpackCfg .nextImfMask rillingUser = .error .attributeError := rfl
example : emit false .getFunc .nextImf pchipUser = .error .attributeError := rfl

/-- malformed options and their error kinds: unknown option name → TypeError (every dictionary, several variants and
    routes); invalid interpolation method → ValueError; invalid noise mode → ValueError; `imf_opts` handed to
    `get_next_imf` → TypeError; unknown top-level keyword → TypeError -/
def badImf : User := { top := .nil, imf := some (mk [("nope", i 1)]), env := none, ext := none }
def badEnv : User := { top := .nil, imf := none, env := some (mk [("nope", i 1)]), ext := none }
def badExt : User := { top := .nil, imf := none, env := none, ext := some (mk [("mode", s "peaks")]) }
def badMethod : User := { top := .nil, imf := none, env := some (mk [("interp_method", s "cubic")]), ext := none }
def badNoise : User := { top := mk [("noise_mode", s "both")], imf := none, env := none, ext := none }
def badTop : User := { top := mk [("nope", i 1)], imf := none, env := none, ext := none }
example : emit false .direct .sift badImf = .error .typeError := rfl
example : emit false .direct .maskSecond badImf = .error .typeError := rfl
example : emit false .direct .complete badEnv = .error .typeError := rfl
example : emit false .direct .mask badExt = .error .typeError := rfl
example : emit false .direct (.second .sift) badMethod = .error .valueError := rfl
example : emit false .direct .maskSecond badMethod = .error .valueError := rfl
example : emit false .unpackCfg .mask badMethod = .error .valueError := rfl
example : emit false .direct .ensemble badNoise = .error .valueError := rfl
example : emit false .direct .nextImf rillingUser = .error .typeError := rfl
example : emit false .direct .sift badTop = .error .typeError := rfl
example : ¬ GoodImf (optA badImf.imf) := fun h =>
  absurd (h.1 "nope".toList (by simp [badImf, optA, mk, Assoc.keys])) (by decide)

/-! ### the supplied numbers reach the rule, each in its own place (link to the Sift model, C04)

  `Options.imfOptsOf a` / `stopRuleOf a` read the bound arguments `a` of a `get_next_imf` call the way the code
  does (`sd=sd_thresh`; `sd1=rilling_thresh[0], sd2=rilling_thresh[1], tol=rilling_thresh[2]`; `max_iters`;
  `env_step_size`; `energy_thresh is not None`) and return the options of the Sift model's `get_next_imf`
  (`Sift.ImfOpts`), about which C04 proves what each number does.  A slip such as `tol=rilling_thresh[0]`
  (seeded C06-7) or a fallback dictionary that gains `energy_thresh` (seeded C01-7) contradicts the theorems
  below whatever the variant and route. -/

/-- **Every `get_next_imf` call evaluates the rule the user's options stand for.**  For every variant, route and
    user dictionary: each `get_next_imf` call of the run (main process, pool jobs, noise-only sifts, first-IMF
    extraction of the masked sift) reads — from the arguments it is actually called with — the same stop rule,
    step size, iteration limit and energy threshold as the user's IMF options resolved against the signature
    defaults; nothing else enters. -/
theorem gni_rule_as_supplied (r : Route) (v : Variant) (u : User) (hu : WF u) (cs : List StageCall)
    (h : emit false r v u = .ok cs) (c : StageCall) (hc : c ∈ cs) (hs : c.stage = .gni) :
    stopRuleOf c.args = stopRuleOf (resolve gniOwn (userImf v u)) ∧
    imfOptsOf c.args = imfOptsOf (resolve gniOwn (userImf v u)) :=
  imfOptsOf_congr _ _ (obeys_gni_eq_resolve (stage_opts_effective r v u hu cs h) c hc hs)

/-- **Each component of a supplied `rilling_thresh` reaches `rilling_stop` in its own position.**  With
    `stop_method='rilling'` and `rilling_thresh = (t0, t1, t2, …)` (tuple, list or array of numbers) supplied, every
    `get_next_imf` call of every variant on every route evaluates `Sift.StopRule.rilling t0 t1 t2`, i.e. (C04) in
    each iteration `rilling_stop(upper, lower, sd1 = t0, sd2 = t1, tol = t2)`, which fires iff the number of samples
    whose metric exceeds `t0` is at most `t2 · N` and no sample exceeds `t1`. -/
theorem rilling_thresh_positions (r : Route) (v : Variant) (u : User) (hu : WF u) (cs : List StageCall)
    (h : emit false r v u = .ok cs) (k : Kind) (t0 t1 t2 : Tree) (rest : TreeList) (a0 a1 a2 : Rat)
    (hm : (userImf v u).lookup "stop_method".toList = some (s "rilling"))
    (ht : (userImf v u).lookup "rilling_thresh".toList = some (.seq k (.cons t0 (.cons t1 (.cons t2 rest)))))
    (h0 : numOf t0 = some a0) (h1 : numOf t1 = some a1) (h2 : numOf t2 = some a2)
    (c : StageCall) (hc : c ∈ cs) (hs : c.stage = .gni) :
    stopRuleOf c.args = .ok (.rilling a0 a1 a2) ∧
    ∀ (niters maxIters : Nat) (hh x1 U L : Sig),
      (Sift.stopTest (.rilling a0 a1 a2) niters maxIters hh x1 U L = true ↔
        (((List.zip U L).countP (fun p => decide (Sift.RillingExceeds a0 p.1 p.2)) : Nat) : Rat)
            ≤ a2 * ((List.zip U L).length : Rat) ∧
        ∀ p ∈ List.zip U L, ¬ Sift.RillingExceeds a1 p.1 p.2) := by
  refine ⟨?_, fun niters maxIters hh x1 U L => ?_⟩
  · rw [(gni_rule_as_supplied r v u hu cs h c hc hs).1]
    unfold stopRuleOf
    rw [arg_resolve_own _ "stop_method" (s "sd") rfl, arg_resolve_own _ "rilling_thresh" rillingDefault rfl, hm, ht]
    have e1 : ¬ ("rilling".toList = "sd".toList) := by decide
    simp [-String.reduceToList, s, Tree.str, numAt, seqGet, TreeList.toList, h0, h1, h2, bind, Except.bind, e1]
  · rw [(C04.stopTest_dispatch niters maxIters hh x1 U L).2]
    exact C04.rillingStop_iff a0 a1 a2 U L

/-- **A supplied `sd_thresh` is the number `sd_stop` compares with** (default rule, or `stop_method='sd'` spelled
    out): every `get_next_imf` call of every variant on every route evaluates `Sift.StopRule.sd t`. -/
theorem sd_thresh_as_supplied (r : Route) (v : Variant) (u : User) (hu : WF u) (cs : List StageCall)
    (h : emit false r v u = .ok cs) (tv : Tree) (t : Rat)
    (hm : ((userImf v u).lookup "stop_method".toList).getD (s "sd") = s "sd")
    (ht : (userImf v u).lookup "sd_thresh".toList = some tv) (hn : numOf tv = some t)
    (c : StageCall) (hc : c ∈ cs) (hs : c.stage = .gni) :
    stopRuleOf c.args = .ok (.sd t) := by
  rw [(gni_rule_as_supplied r v u hu cs h c hc hs).1]
  unfold stopRuleOf
  rw [arg_resolve_own _ "stop_method" (s "sd") rfl, arg_resolve_own _ "sd_thresh" f0_1 rfl, hm, ht]
  simp [-String.reduceToList, s, Tree.str, hn]

/-- **No energy test unless the caller asks for one.**  If the user's IMF options hold no `energy_thresh` (or hold
    `None`), then every `get_next_imf` call of every variant on every route — including `sift(x)` with no
    `imf_opts` at all, where the code substitutes its own fallback dictionary — runs with `energy_thresh = None`:
    whatever options it reads (`imfOptsOf c.args = .ok o`), `o.energyThresh = none`, so the energy-ratio stop
    cannot fire (C04.energy_flag; C01.sift_getNextImf_complete then gives the complete decomposition). -/
theorem no_energy_thresh_unless_supplied (r : Route) (v : Variant) (u : User) (hu : WF u) (cs : List StageCall)
    (h : emit false r v u = .ok cs)
    (he : ((userImf v u).lookup "energy_thresh".toList).getD none' = none')
    (c : StageCall) (hc : c ∈ cs) (hs : c.stage = .gni) (o : Sift.ImfOpts) (ho : imfOptsOf c.args = .ok o) :
    o.energyThresh = none := by
  rw [(gni_rule_as_supplied r v u hu cs h c hc hs).2] at ho
  unfold imfOptsOf at ho
  rw [arg_resolve_own _ "energy_thresh" none' rfl, he] at ho
  cases hst : stopRuleOf (resolve gniOwn (userImf v u)) with
  | error e => rw [hst] at ho; simp [bind, Except.bind] at ho
  | ok st =>
    rw [hst] at ho
    cases hstep : numOf (arg (resolve gniOwn (userImf v u)) "env_step_size") with
    | none => rw [hstep] at ho; simp [bind, Except.bind] at ho
    | some stp =>
      cases hmi : natOf (arg (resolve gniOwn (userImf v u)) "max_iters") with
      | none => rw [hstep, hmi] at ho; simp [bind, Except.bind] at ho
      | some mi =>
        rw [hstep, hmi] at ho
        simp [bind, Except.bind, energyOf, isNone, none', Tree.none] at ho
        rw [← ho]

/-- **Second-layer `sift_args` carry every supplied option, with or without `max_imfs`.**  `sift_second_layer`
    hands `sift_args` to the sift function as they are; `mask_sift_second_layer` writes exactly two entries
    (`max_imfs` only when absent, `mask_freqs`) and leaves every other entry as supplied — in particular
    `imf_opts`, `envelope_opts`, `extrema_opts`; a supplied `max_imfs` is kept.  (With `stage_opts_effective` for
    `v = .second inner` / `.maskSecond`, whose `u.top` is arbitrary: the stages of a second-layer sift work with the
    user's options whether or not `max_imfs` is among the keywords.) -/
theorem second_layer_args_carry_every_option (legacy : Bool) (inner : Variant) (kw : Assoc) :
    runVariant legacy (.second inner) kw = runVariant legacy inner kw ∧
    (∀ q, q ≠ "max_imfs".toList → q ≠ "mask_freqs".toList → (maskSecondArgs kw).lookup q = kw.lookup q) ∧
    (∀ m, kw.lookup "max_imfs".toList = some m → (maskSecondArgs kw).lookup "max_imfs".toList = some m) ∧
    ((maskSecondArgs kw).lookup "max_imfs".toList).isSome = true := by
  refine ⟨rfl, fun q h1 h2 => lookup_maskSecondArgs kw q h1 h2, ?_, ?_⟩
  · intro m hm
    unfold maskSecondArgs
    simp only []
    rw [Assoc.lookup_insert_other _ _ _ (by decide)]
    simp [-String.reduceToList, Assoc.contains, hm]
  · unfold maskSecondArgs
    simp only []
    rw [Assoc.lookup_insert_other _ _ _ (by decide)]
    cases hm : kw.lookup "max_imfs".toList with
    | some m => simp [-String.reduceToList, Assoc.contains, hm]
    | none => simp [-String.reduceToList, Assoc.contains, hm, Assoc.lookup_insert_same]

-- non-vacuity.  A user who supplies `rilling_thresh = (0.05, 0.5, 0.4)` (third entry ≠ first):
def rilling3User : User :=
  { top := .nil, env := none, ext := none,
    imf := some (mk [("stop_method", s "rilling"), ("rilling_thresh", .seq .tuple (.cons (f 1 20) (.cons (f 1 2) (.cons (f 2 5) .nil))))]) }
-- every `get_next_imf` call of the masked sift (two chains) and of the second-layer sift without `max_imfs` reads
-- sd1 = 1/20, sd2 = 1/2, tol = 2/5
example : ∃ cs, emit false .direct .mask rilling3User = .ok cs ∧
    (cs.filter (·.stage = .gni)).map (fun c => (imfOptsOf c.args).toOption.map (·.stop)) =
      [some (.rilling (1/20) (1/2) (2/5)), some (.rilling (1/20) (1/2) (2/5))] := ⟨_, rfl, by decide +kernel⟩
example : ∃ cs, emit false .direct .maskSecond rilling3User = .ok cs ∧
    (cs.filter (·.stage = .gni)).map (fun c => (imfOptsOf c.args).toOption.map (·.stop)) =
      [some (.rilling (1/20) (1/2) (2/5))] := ⟨_, rfl, by decide +kernel⟩
-- the positions matter: on envelopes where one sample in four exceeds sd1, tol = 2/5 stops and tol = 1/20 (the
-- FIRST entry put in the third place) does not
example : Sift.rillingStop (1/20) (1/2) (2/5) [1, 1, 1, 12/10] [-1, -1, -1, -1] = true ∧
    Sift.rillingStop (1/20) (1/2) (1/20) [1, 1, 1, 12/10] [-1, -1, -1, -1] = false := by decide +kernel
-- no `imf_opts` at all: the fallback dictionary of `sift` yields the default rule and NO energy threshold
example : ∃ cs, emit false .direct .sift pchipUser = .ok cs ∧
    (cs.filter (·.stage = .gni)).map (fun c => (imfOptsOf c.args).toOption.map (fun o => (o.energyThresh, o.maxIters, o.step))) =
      [some (none, 1000, 1)] := ⟨_, rfl, by decide +kernel⟩

/-! ### both deliveries combined: a partial sift function AND `sift_args` (second layer)

  `sift_second_layer(IA, sift_func=cfg.get_func(), sift_args={…})` calls `partial(inner, **cfg)(IA[:, ii], **sift_args)`.
  Ordinary `functools.partial` semantics: a keyword supplied at call time replaces the frozen one.  A merge in the
  other direction (`sift_args.update(sift_func.keywords)`, seeded C06-5) contradicts the two theorems below. -/

/-- `partial(f, **frozen)(x, **call)`: a keyword the call supplies is used as supplied; a frozen keyword the call does
    not repeat stays. -/
theorem partial_call_keywords_win (frozen call : Assoc) (hn : NodupKeys call) (p : Key) :
    (∀ v, call.lookup p = some v → (mergeKw frozen call).lookup p = some v) ∧
    (call.lookup p = none → (mergeKw frozen call).lookup p = frozen.lookup p) := by
  rw [lookup_mergeKw frozen call hn p]
  exact ⟨fun v h => by rw [h]; rfl, fun h => by rw [h]; rfl⟩

/-- **The option dictionaries passed in `sift_args` govern the stages although the sift function is a `get_func`
    partial that holds (default) dictionaries of its own** — for every configurable inner sift, every top-level
    keyword frozen in the partial and every user dictionary: all stage calls obey the user's options exactly as on
    the three plain routes (`stage_opts_effective`). -/
theorem funcArgs_stage_opts_effective (inner : Variant) (u : User) (hu : WF u) (hcf : Configurable inner)
    (cs : List StageCall) (h : emitFuncArgs false inner u = .ok cs) :
    Obeys (optA u.imf) (optA u.env) (optA u.ext) cs := by
  obtain ⟨c1, c2, c3, c4⟩ := cfg_facts (baseVariant inner) hcf
  obtain ⟨K0, hK0, k1, k2, k3, _⟩ := kwargsConfig_spec (baseVariant inner)
    { top := u.top, imf := none, env := none, ext := none } c1 c2 c3 c4 hu.clean hu.topSlash
    (by simp [optA, Assoc.keys]) (by simp [optA, Assoc.keys]) (by simp [optA, Assoc.keys])
  obtain ⟨hn, l1, l2, l3⟩ := kwargsDirect_noTop u.imf u.env u.ext
  have h' : runVariant false inner
      (mergeKw K0 (kwargsDirect { top := .nil, imf := u.imf, env := u.env, ext := u.ext })) = .ok cs := by
    simpa [emitFuncArgs, hK0, bind, Except.bind, runVariant] using h
  have ob := runVariant_obeys inner h'
  rw [(imfOf_config inner _ hcf).1] at ob
  have e1 := lookup_mergeKw K0 _ hn "imf_opts".toList
  have e2 := lookup_mergeKw K0 _ hn "envelope_opts".toList
  have e3 := lookup_mergeKw K0 _ hn "extrema_opts".toList
  rw [l1] at e1; rw [l2] at e2; rw [l3] at e3
  simp only [kwArg] at ob k1 k2 k3
  rw [e1, e2, e3] at ob
  refine ob.congr ?_ ?_ ?_
  · intro p d hp
    cases hi : u.imf with
    | some a => simp [dictOf, optA]
    | none =>
      simp only [Option.map_none, Option.orElse_none, k1, dictOf, optA, Option.getD_none]
      exact assignA_own_lookup gniOwn gniOwn .nil (by simp [NodupKeys, Assoc.keys]) (fun _ _ h => gniOwn_self h) hp
  · intro p d hp
    cases hi : u.env with
    | some a => simp [dictOf, optA]
    | none =>
      simp only [Option.map_none, Option.orElse_none, k2, dictOf, optA, Option.getD_none]
      exact assignA_own_lookup ieOwn envDefaults .nil (by simp [NodupKeys, Assoc.keys]) (fun _ _ h => envDefaults_agree h) hp
  · intro p d hp
    cases hi : u.ext with
    | some a => simp [dictOf, optA]
    | none =>
      simp only [Option.map_none, Option.orElse_none, k3, dictOf, optA, Option.getD_none]
      exact assignA_ext_lookup .nil (by simp [NodupKeys, Assoc.keys]) hp

-- non-vacuity: the partial of `get_config('sift')` holds interp_method 'splrep'; `sift_args` says 'pchip': 'pchip' it is
example : ∃ cs, emitFuncArgs false .sift pchipUser = .ok cs ∧
    (cs.filter (·.stage = .ie)).map (fun c => c.args.lookup "interp_method".toList) = [some (s "pchip"), some (s "pchip")] :=
  ⟨_, rfl, rfl⟩
example : ∃ cs, emitFuncArgs false .mask rilling3User = .ok cs ∧
    (cs.filter (·.stage = .gni)).map (fun c => c.args.lookup "stop_method".toList) = [some (s "rilling"), some (s "rilling")] :=
  ⟨_, rfl, rfl⟩
example : Configurable .sift ∧ Configurable .mask := ⟨Or.inl rfl, Or.inr (Or.inr (Or.inr rfl))⟩

end C06
