/-
  C06 — every sift option takes effect at the stage it configures, in every variant.
  Property theorems only (helper lemmas: Proofs/Lemmas/Options.lean).

  All statements are about the executable model `EmdModel.Options`: for every variant (classic,
  ensemble, complete ensemble, masked, the two mask helpers, `get_next_imf` itself, and any of them
  as `sift_second_layer`'s sift function), for every user dictionary (any keys, any values), every
  other top-level keyword and every delivery route.

  `Obeys imf env ext cs` (Lemmas/Options.lean) says: the emitted stage calls `cs` consist of complete
  chains  get_next_imf → interp_envelope(upper) → get_padded_extrema(peaks) → interp_envelope(lower) →
  get_padded_extrema(troughs), and in every chain every own option `p` of every stage has the value
  `(user_dict.lookup p).getD signature_default_p` — the supplied value when one was supplied, the
  signature default otherwise (for the two `np.pad` option dictionaries: after the in-function
  replacement of a falsy value by the literal).
-/
import Proofs.Lemmas.OptionsRoutes

namespace C06
open Config Options

/-! ### resolution of options against defaults -/

/-- Resolving twice changes nothing: a resolved option set is a fixed point. -/
theorem resolve_idem (sig kw : Assoc) (h : noDup sig.keys = true) :
    resolve sig (resolve sig kw) = resolve sig kw := resolve_idem' sig kw h

/-- A resolved option is the supplied value if there is one, the signature default otherwise;
    nothing else is consulted. -/
theorem resolve_lookup (sig kw : Assoc) (p : Key) :
    (resolve sig kw).lookup p = (sig.lookup p).map (fun d => (kw.lookup p).getD d) := lookup_resolve p kw sig

/-- The special-case literals written inside `sift`, `interp_envelope`, `get_padded_extrema` and
    `get_config` equal the signature defaults they stand for, so taking a special-case branch never
    changes an effective option. -/
theorem defaults_agree :
    (∀ p d, gniOwn.lookup p = some d → ((dictOf siftImfLiteral).lookup p).getD d = d) ∧
    (∀ p d, gpeOwn.lookup p = some d → ((dictOf ieExtremaLiteral).lookup p).getD d = d) ∧
    gpeLocLiteral = Config.locPadOpts ∧ gpeMagLiteral = Config.magPadOpts ∧
    (∀ p d, ieOwn.lookup p = some d → (envDefaults.lookup p).getD d = d) ∧
    (∀ p d, gpeOwn.lookup p = some d → effVal p ((extDefaults.lookup p).getD d) = effVal p d) ∧
    (∀ sg ∈ [gniSig, ieSig, gpeSig, siftSig, swnSig, ensSig, gnimSig, gmfSig, maskSig], noDup sg.keys = true) :=
  ⟨fun _ _ h => siftLiteral_agrees h, fun _ _ h => ieLiteral_agrees h, rfl, rfl,
   fun _ _ h => envDefaults_agree h, fun _ _ h => extDefaults_agree h, by decide⟩

/-! ### the property -/

/-- **Every supplied option reaches its stage, on every route, in every variant.**
    Whenever a top-level call succeeds at all, every stage call it makes — in the main process, in
    pool jobs, in the noise-only sifts of the complete-ensemble variant, in the first-IMF extraction
    of the masked sift — works with exactly the user's options: supplied values are never dropped,
    unsupplied ones are the signature defaults. -/
theorem stage_opts_effective (r : Route) (v : Variant) (u : User) (hu : WF u) (cs : List StageCall)
    (h : emit false r v u = .ok cs) :
    Obeys (userImf v u) (optA u.env) (optA u.ext) cs := by
  cases r with
  | direct =>
    have h' : runVariant false v (kwargsDirect u) = .ok cs := by
      simpa [emit, bind, Except.bind, pure, Except.pure] using h
    have ob := runVariant_obeys v h'
    obtain ⟨_, e2, e3⟩ := kwArg_direct u hu.clean
    rw [e2, e3] at ob
    exact ob.congr (imfOf_direct v u hu.clean) (fun _ _ _ => rfl) (fun _ _ _ => rfl)
  | unpackCfg =>
    by_cases hcf : Configurable v
    · obtain ⟨c1, c2, c3, c4⟩ := cfg_facts (baseVariant v) hcf
      obtain ⟨K, hK, k1, k2, k3, _⟩ := kwargsConfig_spec (baseVariant v) u c1 c2 c3 c4 hu.clean hu.topSlash
        hu.imfSlash hu.envSlash hu.extSlash
      have h' : runVariant false v K = .ok cs := by
        simpa [emit, hK, bind, Except.bind, pure, Except.pure] using h
      have ob := runVariant_obeys v h'
      rw [(imfOf_config v K hcf).1, k1, k2, k3] at ob
      rw [(imfOf_config v K hcf).2 u]
      exact ob.congr (fun p d hp => assignA_own_lookup gniOwn gniOwn _ hu.imfNodup (fun _ _ h => gniOwn_self h) hp)
        (fun p d hp => assignA_own_lookup ieOwn envDefaults _ hu.envNodup (fun _ _ h => envDefaults_agree h) hp)
        (fun p d hp => assignA_ext_lookup _ hu.extNodup hp)
    · simp [emit, not_configurable_error v u hcf, bind, Except.bind] at h
  | getFunc =>
    by_cases hf : takesFunc v = true
    case neg => simp [emit, hf, bind, Except.bind] at h
    by_cases hcf : Configurable v
    · obtain ⟨c1, c2, c3, c4⟩ := cfg_facts (baseVariant v) hcf
      obtain ⟨K, hK, k1, k2, k3, _⟩ := kwargsConfig_spec (baseVariant v) u c1 c2 c3 c4 hu.clean hu.topSlash
        hu.imfSlash hu.envSlash hu.extSlash
      have h' : runVariant false v K = .ok cs := by
        simpa [emit, hf, hK, bind, Except.bind, pure, Except.pure, Except.map, partialCall, append_nil] using h
      have ob := runVariant_obeys v h'
      rw [(imfOf_config v K hcf).1, k1, k2, k3] at ob
      rw [(imfOf_config v K hcf).2 u]
      exact ob.congr (fun p d hp => assignA_own_lookup gniOwn gniOwn _ hu.imfNodup (fun _ _ h => gniOwn_self h) hp)
        (fun p d hp => assignA_own_lookup ieOwn envDefaults _ hu.envNodup (fun _ _ h => envDefaults_agree h) hp)
        (fun p d hp => assignA_ext_lookup _ hu.extNodup hp)
    · simp [emit, hf, not_configurable_error v u hcf, bind, Except.bind, Except.map] at h

/-- **The three delivery routes are indistinguishable at the stages.** Keyword dictionaries,
    an edited `get_config(...)` unpacked into the call, and `SiftConfig.get_func()`: whatever two
    routes are taken, stage calls of the same stage work with the same effective own options. -/
theorem route_independent (r r' : Route) (v : Variant) (u : User) (hu : WF u) (cs cs' : List StageCall)
    (h : emit false r v u = .ok cs) (h' : emit false r' v u = .ok cs') :
    ∀ c ∈ cs, ∀ c' ∈ cs', c.stage = c'.stage → ∀ p d, (ownOf c.stage).lookup p = some d →
      (c.args.lookup p).map (effVal p) = (c'.args.lookup p).map (effVal p) := by
  intro c hc c' hc' hst p d hp
  have e1 := obeys_mem (stage_opts_effective r v u hu cs h) c hc p d hp
  have e2 := obeys_mem (stage_opts_effective r' v u hu cs' h') c' hc' p d (hst ▸ hp)
  rw [e1, e2, hst]

/-- Every chain reaches every stage: a non-empty emission contains `get_next_imf`, both
    `interp_envelope` modes and both `get_padded_extrema` modes (so the statements above are about
    all three stages, never vacuously). -/
theorem every_stage_reached (r : Route) (v : Variant) (u : User) (hu : WF u) (cs : List StageCall)
    (h : emit false r v u = .ok cs) (hne : cs ≠ []) :
    (∃ c ∈ cs, c.stage = .gni) ∧
    (∃ c ∈ cs, c.stage = .ie ∧ c.args.lookup "mode".toList = some (s "upper")) ∧
    (∃ c ∈ cs, c.stage = .ie ∧ c.args.lookup "mode".toList = some (s "lower")) ∧
    (∃ c ∈ cs, c.stage = .gpe ∧ c.args.lookup "mode".toList = some (s "peaks")) ∧
    (∃ c ∈ cs, c.stage = .gpe ∧ c.args.lookup "mode".toList = some (s "troughs")) := by
  obtain ⟨chains, rfl, hch⟩ := stage_opts_effective r v u hu cs h
  obtain ⟨ch, hm, _⟩ := exists_ne_nil_of_flatten_ne_nil chains hne
  obtain ⟨a, aU, gU, aL, gL, rfl, _, g2, g3, _, g5, g6, _⟩ := (hch ch hm).shape
  have sub : ∀ c ∈ [(⟨.gni, a⟩ : StageCall), ⟨.ie, aU⟩, ⟨.gpe, gU⟩, ⟨.ie, aL⟩, ⟨.gpe, gL⟩], c ∈ chains.flatten :=
    fun c hc => List.mem_flatten.mpr ⟨_, hm, hc⟩
  exact ⟨⟨_, sub ⟨.gni, a⟩ (by simp), rfl⟩, ⟨_, sub ⟨.ie, aU⟩ (by simp), rfl, g2⟩, ⟨_, sub ⟨.ie, aL⟩ (by simp), rfl, g3⟩,
    ⟨_, sub ⟨.gpe, gU⟩ (by simp), rfl, g5⟩, ⟨_, sub ⟨.gpe, gL⟩ (by simp), rfl, g6⟩⟩

/-! ### D5: what the pinned code did (model of the code before the repair) -/

def pchipUser : User := { top := .nil, imf := none, env := some (mk [("interp_method", s "pchip")]), ext := none }
def rillingUser : User := { top := .nil, imf := some (mk [("stop_method", s "rilling")]), env := none, ext := none }

/-- `mask_sift(X, envelope_opts={'interp_method': 'pchip'})` as pinned: all four envelopes (first-IMF
    extraction of `get_mask_freqs`, masked extraction of `get_next_imf_mask`) were still interpolated
    with the default 'splrep' — the option never left `mask_sift`. -/
theorem legacy_mask_dropped_envelope_opts :
    ∃ cs, emit true .direct .mask pchipUser = .ok cs ∧
      (cs.filter (·.stage = .ie)).map (fun c => c.args.lookup "interp_method".toList) =
        [some (s "splrep"), some (s "splrep"), some (s "splrep"), some (s "splrep")] :=
  ⟨_, rfl, rfl⟩

/-- `complete_ensemble_sift(X, imf_opts={'stop_method': 'rilling'})` as pinned: the ensemble jobs used
    'rilling' but the noise-only sifts ran `get_next_imf` with the default stop rule 'sd'
    (`imf_opts` had landed in the `verbose` slot of `sift`). -/
theorem legacy_noise_sift_dropped_options :
    ∃ cs, emit true .direct .complete rillingUser = .ok cs ∧
      (cs.filter (·.stage = .gni)).map (fun c => c.args.lookup "stop_method".toList) =
        [some (s "rilling"), some (s "sd")] :=
  ⟨_, rfl, rfl⟩

/-- the repaired model on the same inputs -/
example : ∃ cs, emit false .direct .mask pchipUser = .ok cs ∧
    (cs.filter (·.stage = .ie)).map (fun c => c.args.lookup "interp_method".toList) =
      [some (s "pchip"), some (s "pchip"), some (s "pchip"), some (s "pchip")] := ⟨_, rfl, rfl⟩
example : ∃ cs, emit false .direct .complete rillingUser = .ok cs ∧
    (cs.filter (·.stage = .gni)).map (fun c => c.args.lookup "stop_method".toList) =
      [some (s "rilling"), some (s "rilling")] := ⟨_, rfl, rfl⟩

/-- the repaired code on the same inputs: every envelope uses 'pchip'; every extraction 'rilling' -/
example : ∃ cs, emit false .direct .mask pchipUser = .ok cs ∧ cs.length = 10 := ⟨_, rfl, rfl⟩
example : ∃ cs, emit false .unpackCfg .mask pchipUser = .ok cs ∧ cs.length = 10 := ⟨_, rfl, rfl⟩
example : ∃ cs, emit false .getFunc .complete rillingUser = .ok cs ∧ cs.length = 10 := ⟨_, rfl, rfl⟩
example : ∃ cs, emit false .direct (.second .sift) rillingUser = .ok cs ∧ cs.length = 5 := ⟨_, rfl, rfl⟩

/-- the hypotheses of the theorems are satisfiable -/
example : WF pchipUser :=
  ⟨⟨rfl, rfl, rfl⟩, by simp [pchipUser, Assoc.keys], by simp [pchipUser, optA, Assoc.keys],
   by intro p hp; simp [pchipUser, optA, mk, Assoc.keys] at hp; subst hp; decide,
   by simp [pchipUser, optA, Assoc.keys], by simp [NodupKeys, pchipUser, optA, Assoc.keys],
   by simp [NodupKeys, pchipUser, optA, mk, Assoc.keys], by simp [NodupKeys, pchipUser, optA, Assoc.keys]⟩

end C06
