/-
  C20 — logging never changes results; verbosity overrides are temporary.
  Property theorems only (helper lemmas: Proofs/Lemmas/Logger.lean).

  Model: EmdModel/Logger.lean.  `step` is one operation of a logger history
  (`set_up`, `set_level`, `disable`, `enable`, a `@wrap_verbose`-decorated call with `verbose=v`
  whose body returns or raises); `traj`/`observe`/`run` lift it to whole histories.

  WHAT IS PROVED AND WHAT IS NOT (review B, items 2-3).
  * The body of the decorated function enters the model only through its outcome (`returns | raises`),
    which is an INPUT.  `result_indep_of_log` / `run_results_indep` are therefore definitional as far as
    the body is concerned; their content is `call_transparent`: the WRAPPER adds nothing and removes
    nothing — the caller gets the body's value or the body's own exception, in every state and for
    every documented verbosity; the wrapper never substitutes an error of its own and never swallows one.
  * That the body's numerical result is bitwise independent of the logger state is an INSTANCE check
    (c20.py: digest of every returned array against a reference computed under an untouched logger,
    over exhaustive histories to depth 3/4 and random ones beyond); it is not a theorem.
  * `sift_logger` reads its inputs: it formats `args[0].shape` eagerly, whatever the level, so
    `sift(X=x)` (signal by keyword) raises IndexError — in EVERY logger state.  State-independent, hence
    not a C20 violation; the harness asserts the state-independence of that outcome (call mode `k`).
  * Verbosity values outside the documented set {None, CRITICAL, WARNING, INFO, DEBUG} (the property's
    quantifier) are modelled as `callBad`: ignored before set_up, rejected by the wrapper after.  There the
    RESULT does depend on the logger state (`bad_verbose_depends_on_setup`) — outside the property —
    while the LEVEL guarantee still holds (`bad_verbose_level_untouched`, and `run_restores` /
    `run_calls_irrelevant` quantify over these calls too).
-/
import Proofs.Lemmas.Logger

namespace C20
open Logger

/-- The previous console level is back in place when the call returns or raises: for every state
    (set up or not, any level, disabled or not), every verbosity and every outcome. -/
theorem call_restores (s : LogState) (v : Option Level) (o : Outcome) :
    (step s (.call v o)).1.console = s.console := by
  rw [step_call_state]

/-- … and nothing else of the logger state is touched either. -/
theorem call_state_unchanged (s : LogState) (v : Option Level) (o : Outcome) :
    (step s (.call v o)).1 = s := step_call_state s v o

/-- The wrapper is transparent: the caller sees the body's value or the body's own exception,
    never an error of the wrapper — from every state and for every verbosity. -/
theorem call_transparent (s : LogState) (v : Option Level) (o : Outcome) :
    ((step s (.call v o)).2.map (·.result)) = some (ownResult o) := by
  show some (wrapVerbose s v o).2.result = _
  rw [wrapVerbose_result]

/-- Requesting an override before the logger has been set up is harmless: the only error is the
    call's own, the state is unchanged and `get_level()` is still `None`. -/
theorem call_before_setup_harmless (s : LogState) (h : s.console = none) (v : Option Level) (o : Outcome) :
    (step s (.call v o)).1 = s ∧ (step s (.call v o)).1.console = none ∧
      (step s (.call v o)).2.map (·.result) = some (ownResult o) := by
  refine ⟨step_call_state s v o, ?_, call_transparent s v o⟩
  rw [step_call_state]; exact h

/-- What a call gives back does not depend on the logger state nor on the verbosity requested. -/
theorem result_indep_of_log (s s' : LogState) (v v' : Option Level) (o : Outcome) :
    (step s (.call v o)).2.map (·.result) = (step s' (.call v' o)).2.map (·.result) := by
  rw [call_transparent, call_transparent]

/-- The override is in force for that call: once the logger is set up, the body runs under the
    requested level (under the standing level when no verbosity is requested). -/
theorem override_in_force (s : LogState) (c : Level) (h : s.console = some c) (v : Option Level) (o : Outcome) :
    (step s (.call v o)).2.map (·.during) = some (some (v.getD c)) := by
  show some (wrapVerbose s v o).2.during = _
  unfold wrapVerbose
  cases v with
  | none => simp [h]
  | some tmp => simp [setLevel, h]

/-- Lifted to every history: at every position that holds a call, the state after the call is the
    state before it (so `get_level()` sampled after each step never moves across a call). -/
theorem run_restores (s : LogState) (ops : List Op) (i : Nat) (hi : i < ops.length)
    (hc : ops[i].isCall = true) :
    (traj s ops)[i + 1]? = (traj s ops)[i]? := by
  induction ops generalizing s i with
  | nil => simp at hi
  | cons op ops ih =>
    cases i with
    | zero =>
      have h0 : (step s op).1 = s := step_isCall_state s op (by simpa using hc)
      cases ops <;> simp [traj, h0]
    | succ j =>
      simp only [traj, List.getElem?_cons_succ]
      exact ih (step s op).1 j (by simpa using hi) (by simpa using hc)

/-- Calls never change where a history ends: the final state of any history is the final state of
    the same history with every call (returning or raising, any verbosity) removed. -/
theorem run_calls_irrelevant (s : LogState) (ops : List Op) :
    run s ops = run s (ops.filter (fun op => !op.isCall)) := by
  induction ops generalizing s with
  | nil => rfl
  | cons op ops ih =>
    cases hc : op.isCall with
    | true =>
      have h0 : (step s op).1 = s := step_isCall_state s op hc
      simp only [run, List.foldl_cons, List.filter_cons, hc, Bool.not_true, h0]
      exact ih s
    | false =>
      simp only [run, List.foldl_cons, List.filter_cons, hc, Bool.not_false, ite_true]
      exact ih _

/-- Over every history of documented operations and from every start state, what the calls give back
    is determined by the calls alone: logger operations in between (and the start state) have no
    influence.  (`hdoc` excludes only calls with an undocumented verbosity value, for which the
    statement is false: `bad_verbose_depends_on_setup`.) -/
theorem run_results_indep (s : LogState) (ops : List Op) (hdoc : ∀ op ∈ ops, op.documented = true) :
    (observe s ops).map (·.map (·.result)) =
      ops.map (fun op => match op with
        | .call _ o => some (ownResult o)
        | _ => none) := by
  induction ops generalizing s with
  | nil => rfl
  | cons op ops ih =>
    simp only [observe, List.map_cons, ih _ (fun op' h => hdoc op' (List.mem_cons_of_mem _ h))]
    congr 1
    have hd := hdoc op (by simp)
    cases op with
    | call v o => exact call_transparent s v o
    | callBad o => simp [Op.documented] at hd
    | _ => rfl

/-! ### Every exit path; the level restored is the one in force before THIS call -/

/-- **Whatever the exit path.**  `Outcome` has three values — the body returns, raises an `Exception`, or is left
    through a `BaseException` that is not an `Exception` (KeyboardInterrupt, SystemExit) — and `call_restores` /
    `call_state_unchanged` / `run_restores` quantify over all three.  That the third one is not covered for free:
    a wrapper that restores after a normal return and in an `except Exception` handler instead of a `finally`
    (`wrapVerboseExceptOnly`, seeded change C20-5) restores on the first two exits and LEAKS the per-call level on
    the third, from every set-up state and for every requested level other than the standing one — whereas the
    modelled wrapper restores on all three. -/
theorem except_only_restore_leaks_on_interrupt (s : LogState) (c tmp : Level) (h : s.console = some c)
    (hne : tmp ≠ c) :
    (stepExceptOnly s (.call (some tmp) .returns)).1 = s ∧
    (stepExceptOnly s (.call (some tmp) .raises)).1 = s ∧
    (stepExceptOnly s (.call (some tmp) .interrupts)).1.console = some tmp ∧
    (stepExceptOnly s (.call (some tmp) .interrupts)).1 ≠ s ∧
    ∀ o, (step s (.call (some tmp) o)).1 = s := by
  cases s with
  | mk console disabled =>
    simp only at h
    subst h
    refine ⟨rfl, rfl, rfl, ?_, fun o => call_state_unchanged _ _ o⟩
    intro e
    have : (stepExceptOnly { console := some c, disabled := disabled } (.call (some tmp) .interrupts)).1.console
        = some c := by rw [e]
    simp [stepExceptOnly, stepWith, wrapVerboseExceptOnly, setLevel] at this
    exact hne this

/-- **The level put back is the one in force immediately before THIS call**, after any history: appending a call
    (any verbosity, any of the three exits) to any history — earlier calls, `set_level`s, `set_up`s, `disable`s in
    any order — does not change where the history ends. -/
theorem call_restores_after_any_history (s : LogState) (pre : List Op) (v : Option Level) (o : Outcome) :
    run s (pre ++ [.call v o]) = run s pre := by
  simp only [run, List.foldl_append, List.foldl_cons, List.foldl_nil]
  exact call_state_unchanged _ v o

/-- **Restoration does not depend on a level saved by an earlier call.**  A first call (which saved and restored
    the level `c`), then `set_level(l)`, then a second call: the second call puts `l` back — not `c`, the level
    the first call had saved — whatever the verbosities and exits of the two calls; and any number of further
    calls leaves it there. -/
theorem restore_independent_of_earlier_call (s : LogState) (c : Level) (h : s.console = some c)
    (v1 v2 : Option Level) (o1 o2 : Outcome) (l : Level) (later : List Op) (hl : ∀ op ∈ later, op.isCall = true) :
    (run s ([.call v1 o1, .setLevel l, .call v2 o2] ++ later)).console = some l := by
  rw [run_calls_irrelevant]
  have hlater : later.filter (fun op : Op => !op.isCall) = [] :=
    List.filter_eq_nil_iff.mpr (fun op hop => by simp [hl op hop])
  have hfil : (([Op.call v1 o1, Op.setLevel l, Op.call v2 o2] ++ later).filter fun op : Op => !op.isCall)
      = [Op.setLevel l] := by
    rw [List.filter_append, hlater]
    simp [List.filter_cons, Op.isCall]
  rw [hfil]
  simp [run, step, stepWith, setLevel, h]

/-! ### A verbosity outside the documented values (`verbose='debug'`, `verbose=10`, …) -/

/-- The LEVEL guarantee does not need a valid verbosity: whatever was requested, in every state and
    for both outcomes, the logger state after the call is the state before it. -/
theorem bad_verbose_level_untouched (s : LogState) (o : Outcome) :
    (step s (.callBad o)).1 = s := step_callBad_state s o

/-- Before `set_up` an undocumented verbosity is silently ignored (no console handler: `set_level`
    never evaluates it): the caller gets the body's own outcome — "harmless before set-up". -/
theorem bad_verbose_before_setup_ignored (s : LogState) (h : s.console = none) (o : Outcome) :
    (step s (.callBad o)).2.map (·.result) = some (ownResult o) := by
  show some (wrapVerboseBad s o).2.result = _
  simp [wrapVerboseBad, h]

/-- Once a console handler exists the wrapper rejects it before the body runs (an error of the
    wrapper, not of the call), leaving the level as it was. -/
theorem bad_verbose_after_setup_rejected (s : LogState) (c : Level) (h : s.console = some c) (o : Outcome) :
    (step s (.callBad o)).2.map (·.result) = some .raisedWrapper ∧ (step s (.callBad o)).1.console = some c := by
  refine ⟨?_, by rw [step_callBad_state]; exact h⟩
  show some (wrapVerboseBad s o).2.result = _
  simp [wrapVerboseBad, h]

/-- So for an UNDOCUMENTED verbosity the result does depend on the logger state (same call, same
    returning body: value before `set_up`, wrapper error after) — the reason why `call_transparent`
    and `run_results_indep` are stated for the documented values, which is what C20 quantifies over. -/
theorem bad_verbose_depends_on_setup :
    (step init (.callBad .returns)).2.map (·.result) = some .returned ∧
    (step (setUp init none) (.callBad .returns)).2.map (·.result) = some .raisedWrapper := by
  decide

/-- The wrapper's own error can occur ONLY for an undocumented verbosity: every documented operation
    shows the body's outcome or nothing. -/
theorem wrapper_error_only_if_undocumented (s : LogState) (op : Op) (obs : CallObs)
    (h : (step s op).2 = some obs) (hw : obs.result = .raisedWrapper ∨ obs.result = .raisedKeyError) :
    op.documented = false := by
  cases op with
  | call v o =>
    have := call_transparent s v o
    rw [h] at this
    simp at this
    rcases hw with hw | hw <;> rw [hw] at this <;> cases o <;> simp [ownResult] at this
  | callBad o => rfl
  | setUp l => cases h
  | setLevel l => cases h
  | disable => cases h
  | enable => cases h

/-! ### The pinned `wrap_verbose` violates both halves (DESIGN §9-D16); kept as witnesses. -/

/-- pinned code: a raising call leaks the temporary level -/
theorem raise_leaks_level_current :
    (stepPinned (setUp init (some .warning)) (.call (some .debug) .raises)).1.console = some .debug ∧
    (setUp init (some .warning)).console = some .warning := by
  decide

/-- pinned code: an override before `set_up` loses the call's value to a `KeyError` -/
theorem presetup_keyerror_current :
    (stepPinned init (.call (some .info) .returns)).2.map (·.result) = some .raisedKeyError := by
  decide

/-! ### Non-vacuity -/

/-- a history exercising every operation, both outcomes, before and after set-up -/
def demo : List Op :=
  [.call (some .info) .returns, .setUp (some .warning), .call (some .debug) .raises, .disable,
   .call (some .critical) .returns, .enable, .setLevel .debug, .call none .raises]

example : (traj init demo).map (·.console) =
    [none, none, some .warning, some .warning, some .warning, some .warning, some .warning,
     some .debug, some .debug] := by decide

example : (observe init demo).map (·.map (·.result)) =
    [some .returned, none, some .raisedOwn, none, some .returned, none, none, some .raisedOwn] := by decide

example : ∀ op ∈ demo, op.documented = true := by decide

-- a history with undocumented verbosities: the level trajectory is that of the history without the calls
example : (traj init [.callBad .returns, .setUp (some .warning), .callBad .returns, .callBad .raises]).map (·.console) =
    [none, none, some .warning, some .warning, some .warning] := by decide
example : (observe init [.callBad .returns, .setUp (some .warning), .callBad .returns, .callBad .raises]).map (·.map (·.result)) =
    [some .returned, none, some .raisedWrapper, some .raisedWrapper] := by decide

example : (traj init demo)[3]? = (traj init demo)[2]? :=
  run_restores init demo 2 (by decide) (by decide)

example : (step (setUp init (some .warning)) (.call (some .debug) .raises)).2.map (·.during)
    = some (some .debug) := override_in_force _ .warning (by decide) _ _

-- the C20-5 situation: set up at WARNING, verbose=DEBUG, the call is left through KeyboardInterrupt: the modelled wrapper is
-- back at WARNING, the except-only variant stays at DEBUG; then set_level between two calls
example : (step (setUp init (some .warning)) (.call (some .debug) .interrupts)).1.console = some .warning := by decide
example : (stepExceptOnly (setUp init (some .warning)) (.call (some .debug) .interrupts)).1.console = some .debug := by decide
example : (run (setUp init (some .warning)) [.call (some .debug) .interrupts, .setLevel .critical, .call (some .info) .raises]).console
    = some .critical := by decide

end C20
