/-
  C12 — cycle detection partitions the phase series at its phase wraps.
  Property theorems only (helper lemmas: Proofs/Lemmas/Cycles.lean).
  All statements are about the executable model `EmdModel.Cycles`, for every
  sample type, every wrap predicate, every acceptance test and every input.
-/
import Proofs.Lemmas.Cycles
import Proofs.Lemmas.CyclesIdx

namespace C12
open Cycles

variable {α : Type}

/-- The runs, in temporal order, concatenate to the input: a partition into contiguous blocks. -/
theorem segs_partition (w : α → α → Bool) (acc : List α → Bool) (xs : List α) :
    ((cvSegs w acc xs).map (·.1)).flatten = xs := by
  rw [cvSegs_runs, runsBy_flatten]

/-- No run is empty (so the implementation never evaluates a criterion on an empty segment). -/
theorem segs_nonempty (w : α → α → Bool) (acc : List α → Bool) (xs : List α) :
    ∀ s ∈ cvSegs w acc xs, s.1 ≠ [] := by
  intro s hs
  have : s.1 ∈ (cvSegs w acc xs).map (·.1) := List.mem_map_of_mem hs
  rw [cvSegs_runs] at this
  exact runsBy_ne_nil w xs _ this

/-- A run contains no internal wrap. -/
theorem segs_no_internal_wrap (w : α → α → Bool) (acc : List α → Bool) (xs : List α) :
    ∀ s ∈ cvSegs w acc xs, NoWrap w s.1 := by
  intro s hs
  have : s.1 ∈ (cvSegs w acc xs).map (·.1) := List.mem_map_of_mem hs
  rw [cvSegs_runs] at this
  exact runsBy_noWrap w xs _ this

/-- Consecutive runs are separated by a wrap: a run begins at a wrap or at the start of the
    recording and ends just before a wrap or at the end of the recording. -/
theorem segs_boundaries_are_wraps (w : α → α → Bool) (acc : List α → Bool) (xs : List α) :
    WrapBetween w ((cvSegs w acc xs).map (·.1)) := by
  rw [cvSegs_runs]; exact runsBy_wrapBetween w xs

/-- The labels of the labelled runs, in temporal order, are exactly 0, 1, …, K-1. -/
theorem labels_sequential (w : α → α → Bool) (acc : List α → Bool) (xs : List α) :
    (cvSegs w acc xs).filterMap (·.2) = List.range (nCycles (cvSegs w acc xs)) := by
  unfold nCycles cvSegs
  simp only []
  split
  · simp [List.filterMap_map, Function.comp_def, filterMap_const_none]
  · have := labelRuns_labels acc 0 (runsBy w xs)
    simpa [List.range'_eq_map_range] using this

/-- One label per input sample. -/
theorem cv_length (w : α → α → Bool) (acc : List α → Bool) (xs : List α) :
    (paint (cvSegs w acc xs)).length = xs.length := by
  rw [paint_length, cvSegs_runs, ← List.length_flatten, runsBy_flatten]

/-- Every sample label is -1 or one of 0..K-1. -/
theorem cv_values (w : α → α → Bool) (acc : List α → Bool) (xs : List α) :
    ∀ l ∈ paint (cvSegs w acc xs), l = -1 ∨ (0 ≤ l ∧ l < (nCycles (cvSegs w acc xs) : Int)) := by
  intro l hl
  obtain ⟨s, hs, hl⟩ := mem_paint hl
  cases h : s.2 with
  | none => left; simpa [h, labelInt] using hl
  | some k =>
    right
    have hk : k ∈ (cvSegs w acc xs).filterMap (·.2) := List.mem_filterMap.mpr ⟨s, hs, h⟩
    rw [labels_sequential] at hk
    have := List.mem_range.mp hk
    simp [h, labelInt] at hl
    subst hl; omega

/-- All cycles requested (acceptance always true) and at least one wrap: no sample is left out. -/
theorem cv_all_cover (w : α → α → Bool) (xs : List α) (hw : 2 ≤ (runsBy w xs).length) :
    ∀ l ∈ paint (cvSegs w (fun _ => true) xs), 0 ≤ l := by
  intro l hl
  obtain ⟨s, hs, hl⟩ := mem_paint hl
  have : s.2.isSome := cvSegs_all_labelled w xs hw s hs
  cases h : s.2 with
  | none => simp [h] at this
  | some k => simp [h, labelInt] at hl; omega

/-- A series without any wrap yields no cycle at all. -/
theorem cv_no_wrap_none (w : α → α → Bool) (acc : List α → Bool) (xs : List α)
    (hw : (runsBy w xs).length ≤ 1) : ∀ l ∈ paint (cvSegs w acc xs), l = -1 := by
  intro l hl
  obtain ⟨s, hs, hl⟩ := mem_paint hl
  unfold cvSegs at hs
  simp only [hw, ite_true] at hs
  obtain ⟨r, _, rfl⟩ := List.mem_map.mp hs
  simpa [labelInt] using hl

/-- Label k covers exactly one contiguous block of samples, which is one run of the partition:
    the labelled partition is `pre ++ (run, k) :: post`, the label vector is
    `paint pre ++ replicate |run| k ++ paint post`, and k occurs neither before nor after. -/
theorem cv_label_block (w : α → α → Bool) (acc : List α → Bool) (xs : List α) (k : Nat)
    (hk : k < nCycles (cvSegs w acc xs)) :
    ∃ pre run post, cvSegs w acc xs = pre ++ (run, some k) :: post ∧ run ≠ [] ∧
      paint (cvSegs w acc xs) = paint pre ++ List.replicate run.length (k : Int) ++ paint post ∧
      (k : Int) ∉ paint pre ∧ (k : Int) ∉ paint post := by
  unfold nCycles cvSegs at hk
  simp only [] at hk
  have hne : ¬ (runsBy w xs).length ≤ 1 := by
    intro h
    simp [h, List.filterMap_map, Function.comp_def, filterMap_const_none] at hk
  simp only [hne, ite_false] at hk
  obtain ⟨pre, run, post, h1, h2, h3, h4⟩ := labelRuns_split acc 0 (runsBy w xs) k (by omega) (by omega)
  have hseg : cvSegs w acc xs = pre ++ (run, some k) :: post := by
    unfold cvSegs; simp only [hne, ite_false]; exact h1
  refine ⟨pre, run, post, hseg, runsBy_ne_nil w xs run h2, ?_, not_mem_paint_of_labels h3,
    not_mem_paint_of_labels h4⟩
  rw [hseg, paint_append, paint_cons]
  simp [labelInt, List.append_assoc]

/-- **Refinement**: the code-shaped model (`cvIdx`: wrap indices `where(|diff|>step)+1`, boundary
    list `0 :: inds ++ [n]`, segment loop with running counter, slice assignment `cycles[a:b] = count`)
    computes exactly the painted labelled partition. All theorems above therefore hold of the
    code-shaped model that the correspondence check runs against the implementation. -/
theorem code_model_refines (w : α → α → Bool) (acc : List α → Bool) (xs : List α) :
    cvIdx w acc xs = paint (cvSegs w acc xs) := cvIdx_eq_paint w acc xs

/-- Full cover, stated for the code-shaped model: at least one wrap position found,
    all cycles requested ⇒ every sample label is ≥ 0. -/
theorem code_model_all_cover (w : α → α → Bool) (xs : List α) (hw : wrapIdx w xs 0 ≠ []) :
    ∀ l ∈ cvIdx w (fun _ => true) xs, 0 ≤ l := by
  have hx : xs ≠ [] := by intro h; subst h; simp [wrapIdx] at hw
  have h2 : 2 ≤ (runsBy w xs).length := by
    have : ¬ (runsBy w xs).length ≤ 1 := fun h => hw ((wrapIdx_nil_iff w xs hx).mpr h)
    omega
  rw [code_model_refines]
  exact cv_all_cover w xs h2

/-- No wrap position found ⇒ every label is −1 (code-shaped model). -/
theorem code_model_no_wrap (w : α → α → Bool) (acc : List α → Bool) (xs : List α)
    (hw : wrapIdx w xs 0 = []) : ∀ l ∈ cvIdx w acc xs, l = -1 := by
  intro l hl
  simp only [cvIdx, hw, ite_true] at hl
  exact (List.mem_replicate.mp hl).2

/-! Non-vacuity: a concrete series with two wraps, three cycles, all hypotheses met
    (integer samples; the theorems are generic in the sample type). -/
def wInt (a b : Int) : Bool := decide (4 < (b - a).natAbs)
example : paint (cvSegs wInt (fun _ => true) [1, 3, 6, 0, 2, 6, 1, 4]) = [0, 0, 0, 1, 1, 1, 2, 2] := by decide
example : 2 ≤ (runsBy wInt [1, 3, 6, 0, 2, 6, 1, 4]).length := by decide
example : cvIdx wInt (fun _ => true) [1, 3, 6, 0, 2, 6, 1, 4] = [0, 0, 0, 1, 1, 1, 2, 2] := by decide
example : (2 : Nat) < nCycles (cvSegs wInt (fun _ => true) [1, 3, 6, 0, 2, 6, 1, 4]) := by decide

end C12
