/-
  C12 — cycle detection partitions the phase series at its phase wraps.
  Property theorems only (helper lemmas: Proofs/Lemmas/Cycles.lean).
  All statements are about the executable model `EmdModel.Cycles`, for every
  sample type, every wrap predicate, every acceptance test and every input.
-/
import Proofs.Lemmas.Cycles
import Proofs.Lemmas.CyclesIdx
import Proofs.Lemmas.CyclesSlices
import Proofs.Lemmas.CyclesStep

namespace C12
open Cycles

variable {α : Type}

/-- The runs, in temporal order, concatenate to the input: a partition into contiguous blocks. -/
theorem segs_partition (w : α → α → Bool) (acc : List α → Bool) (xs : List α) :
    ((cvSegs w acc xs).map (·.1)).flatten = xs := by
  rw [cvSegs_runs, runsBy_flatten]

/-- No run is empty (so the implementation never evaluates a criterion on an empty segment). -/
theorem segs_nonempty (w : α → α → Bool) (acc : List α → Bool) (xs : List α) :
    ∀ s ∈ cvSegs w acc xs, s.1 ≠ [] := by
  intro s hs
  have : s.1 ∈ (cvSegs w acc xs).map (·.1) := List.mem_map_of_mem hs
  rw [cvSegs_runs] at this
  exact runsBy_ne_nil w xs _ this

/-- A run contains no internal wrap. -/
theorem segs_no_internal_wrap (w : α → α → Bool) (acc : List α → Bool) (xs : List α) :
    ∀ s ∈ cvSegs w acc xs, NoWrap w s.1 := by
  intro s hs
  have : s.1 ∈ (cvSegs w acc xs).map (·.1) := List.mem_map_of_mem hs
  rw [cvSegs_runs] at this
  exact runsBy_noWrap w xs _ this

/-- Consecutive runs are separated by a wrap: a run begins at a wrap or at the start of the
    recording and ends just before a wrap or at the end of the recording. -/
theorem segs_boundaries_are_wraps (w : α → α → Bool) (acc : List α → Bool) (xs : List α) :
    WrapBetween w ((cvSegs w acc xs).map (·.1)) := by
  rw [cvSegs_runs]; exact runsBy_wrapBetween w xs

/-- The labels of the labelled runs, in temporal order, are exactly 0, 1, …, K-1. -/
theorem labels_sequential (w : α → α → Bool) (acc : List α → Bool) (xs : List α) :
    (cvSegs w acc xs).filterMap (·.2) = List.range (nCycles (cvSegs w acc xs)) := by
  unfold nCycles cvSegs
  simp only []
  split
  · simp [List.filterMap_map, Function.comp_def, filterMap_const_none]
  · have := labelRuns_labels acc 0 (runsBy w xs)
    simpa [List.range'_eq_map_range] using this

/-- One label per input sample. -/
theorem cv_length (w : α → α → Bool) (acc : List α → Bool) (xs : List α) :
    (paint (cvSegs w acc xs)).length = xs.length := by
  rw [paint_length, cvSegs_runs, ← List.length_flatten, runsBy_flatten]

/-- Every sample label is -1 or one of 0..K-1. -/
theorem cv_values (w : α → α → Bool) (acc : List α → Bool) (xs : List α) :
    ∀ l ∈ paint (cvSegs w acc xs), l = -1 ∨ (0 ≤ l ∧ l < (nCycles (cvSegs w acc xs) : Int)) := by
  intro l hl
  obtain ⟨s, hs, hl⟩ := mem_paint hl
  cases h : s.2 with
  | none => left; simpa [h, labelInt] using hl
  | some k =>
    right
    have hk : k ∈ (cvSegs w acc xs).filterMap (·.2) := List.mem_filterMap.mpr ⟨s, hs, h⟩
    rw [labels_sequential] at hk
    have := List.mem_range.mp hk
    simp [h, labelInt] at hl
    subst hl; omega

/-- All cycles requested (acceptance always true) and at least one wrap: no sample is left out. -/
theorem cv_all_cover (w : α → α → Bool) (xs : List α) (hw : 2 ≤ (runsBy w xs).length) :
    ∀ l ∈ paint (cvSegs w (fun _ => true) xs), 0 ≤ l := by
  intro l hl
  obtain ⟨s, hs, hl⟩ := mem_paint hl
  have : s.2.isSome := cvSegs_all_labelled w xs hw s hs
  cases h : s.2 with
  | none => simp [h] at this
  | some k => simp [h, labelInt] at hl; omega

/-- A series without any wrap yields no cycle at all. -/
theorem cv_no_wrap_none (w : α → α → Bool) (acc : List α → Bool) (xs : List α)
    (hw : (runsBy w xs).length ≤ 1) : ∀ l ∈ paint (cvSegs w acc xs), l = -1 := by
  intro l hl
  obtain ⟨s, hs, hl⟩ := mem_paint hl
  unfold cvSegs at hs
  simp only [hw, ite_true] at hs
  obtain ⟨r, _, rfl⟩ := List.mem_map.mp hs
  simpa [labelInt] using hl

/-- Label k covers exactly one contiguous block of samples, which is one run of the partition:
    the labelled partition is `pre ++ (run, k) :: post`, the label vector is
    `paint pre ++ replicate |run| k ++ paint post`, and k occurs neither before nor after. -/
theorem cv_label_block (w : α → α → Bool) (acc : List α → Bool) (xs : List α) (k : Nat)
    (hk : k < nCycles (cvSegs w acc xs)) :
    ∃ pre run post, cvSegs w acc xs = pre ++ (run, some k) :: post ∧ run ≠ [] ∧
      paint (cvSegs w acc xs) = paint pre ++ List.replicate run.length (k : Int) ++ paint post ∧
      (k : Int) ∉ paint pre ∧ (k : Int) ∉ paint post := by
  unfold nCycles cvSegs at hk
  simp only [] at hk
  have hne : ¬ (runsBy w xs).length ≤ 1 := by
    intro h
    simp [h, List.filterMap_map, Function.comp_def, filterMap_const_none] at hk
  simp only [hne, ite_false] at hk
  obtain ⟨pre, run, post, h1, h2, h3, h4⟩ := labelRuns_split acc 0 (runsBy w xs) k (by omega) (by omega)
  have hseg : cvSegs w acc xs = pre ++ (run, some k) :: post := by
    unfold cvSegs; simp only [hne, ite_false]; exact h1
  refine ⟨pre, run, post, hseg, runsBy_ne_nil w xs run h2, ?_, not_mem_paint_of_labels h3,
    not_mem_paint_of_labels h4⟩
  rw [hseg, paint_append, paint_cons]
  simp [labelInt, List.append_assoc]

/-- **Refinement**: the code-shaped model (`cvIdx`: wrap indices `where(|diff|>step)+1`, boundary
    list `0 :: inds ++ [n]`, segment loop with running counter, slice assignment `cycles[a:b] = count`)
    computes exactly the painted labelled partition. All theorems above therefore hold of the
    code-shaped model that the correspondence check runs against the implementation. -/
theorem code_model_refines (w : α → α → Bool) (acc : List α → Bool) (xs : List α) :
    cvIdx w acc xs = paint (cvSegs w acc xs) := cvIdx_eq_paint w acc xs

/-- Full cover, stated for the code-shaped model: at least one wrap position found,
    all cycles requested ⇒ every sample label is ≥ 0. -/
theorem code_model_all_cover (w : α → α → Bool) (xs : List α) (hw : wrapIdx w xs 0 ≠ []) :
    ∀ l ∈ cvIdx w (fun _ => true) xs, 0 ≤ l := by
  have hx : xs ≠ [] := by intro h; subst h; simp [wrapIdx] at hw
  have h2 : 2 ≤ (runsBy w xs).length := by
    have : ¬ (runsBy w xs).length ≤ 1 := fun h => hw ((wrapIdx_nil_iff w xs hx).mpr h)
    omega
  rw [code_model_refines]
  exact cv_all_cover w xs h2

/-- No wrap position found ⇒ every label is −1 (code-shaped model). -/
theorem code_model_no_wrap (w : α → α → Bool) (acc : List α → Bool) (xs : List α)
    (hw : wrapIdx w xs 0 = []) : ∀ l ∈ cvIdx w acc xs, l = -1 := by
  intro l hl
  simp only [cvIdx, hw, ite_true] at hl
  exact (List.mem_replicate.mp hl).2

/-! ## "Never fails": the code-shaped model never tests an empty segment

Scope of the statement (see also c12.py TRUSTED / ASSUMPTIONS):
* The branch `if phase.max() > 2*pi: phase = wrap_phase(phase)` of `get_cycle_vector` is an ORACLE: the
  harness applies the real `emd.imftools.wrap_phase` before handing the phase to the model, nothing is
  proved about it (it is a `mod 2π` on floats and cannot raise on finite input).
* The mask is a Boolean vector (`List Bool`).  Integer-typed masks are outside the documented type and
  outside the model: the code computes `any(~mask[a:b])`, and `~1 = -2` is truthy, so a 0/1 integer mask
  vetoes every cycle; a multi-column mask makes `any` raise.
* `is_good` raises IndexError on an empty segment (`phase[0]`); the model's `isGoodChecks` answers `none`
  there.  The theorems below show this branch is unreachable from `get_cycle_vector`. -/

/-- The boundary list the segment loop runs over, `0 :: (where(|diff| > step) + 1) ++ [n]`, is strictly
    increasing and bounded by the record length — also when a wrap sits at the first or the last sample
    (wrap positions lie in 1..n-1, so the two guards `inds[0] >= 1`, `inds[-1] <= n-1` of the code are
    always true). -/
theorem code_model_boundaries (w : α → α → Bool) (xs : List α) (hx : xs ≠ []) :
    (0 :: wrapIdx w xs 0 ++ [xs.length]).Pairwise (· < ·) ∧
    (∀ b ∈ 0 :: wrapIdx w xs 0 ++ [xs.length], b ≤ xs.length) ∧
    ∀ i ∈ wrapIdx w xs 0, 1 ≤ i ∧ i ≤ xs.length - 1 :=
  ⟨boundaries_pairwise w xs hx, boundaries_le w xs, fun i hi => by
    have := wrapIdx_bounds w xs 0 i hi; omega⟩

/-- **Every slice `phase[a:b]` handed to the acceptance test by the segment loop is non-empty** — for
    every input, every wrap predicate, whenever the loop is entered at all (at least one wrap found;
    otherwise the code returns before the loop). -/
theorem code_model_slices_nonempty (w : α → α → Bool) (xs : List α) (hw : wrapIdx w xs 0 ≠ []) :
    ∀ s ∈ segSlices xs (0 :: wrapIdx w xs 0 ++ [xs.length]), s ≠ [] := by
  have hx : xs ≠ [] := by intro h; subst h; simp [wrapIdx] at hw
  exact segSlices_nonempty xs _ (boundaries_pairwise w xs hx) (boundaries_le w xs)

/-- The segment loop consults the acceptance test on those slices and nowhere else: two acceptance
    tests that agree on them give the same label vector. -/
theorem code_model_tests_only_slices (w : α → α → Bool) (acc acc' : List α → Bool) (xs : List α)
    (h : ∀ s ∈ segSlices xs (0 :: wrapIdx w xs 0 ++ [xs.length]), acc s = acc' s) :
    cvIdx w acc xs = cvIdx w acc' xs := by
  unfold cvIdx
  simp only []
  split
  · rfl
  · exact segLoop_congr acc acc' xs _ h 0 _

/-- Hence what the acceptance test does on an EMPTY segment (`is_good` raises IndexError there) has no
    influence on the result: the raising branch is unreachable. -/
theorem code_model_never_tests_empty (w : α → α → Bool) (acc acc' : List α → Bool) (xs : List α)
    (h : ∀ l, l ≠ [] → acc l = acc' l) : cvIdx w acc xs = cvIdx w acc' xs := by
  by_cases hw : wrapIdx w xs 0 = []
  · simp [cvIdx, hw]
  · exact code_model_tests_only_slices w acc acc' xs (fun s hs => h s (code_model_slices_nonempty w xs hw s hs))

/-- For `get_cycle_vector` itself (phase + Boolean mask, either value of `return_good`): on every slice
    the loop tests, `is_good` gets a non-empty phase segment, i.e. `isGoodChecks` is never in its
    IndexError branch (`none`). -/
theorem is_good_never_raises (g : GoodCfg) (step : Rat) (ph : List Rat) (mask : List Bool)
    (hw : wrapIdx (wrapP step) (ph.zip mask) 0 ≠ []) :
    ∀ s ∈ segSlices (ph.zip mask) (0 :: wrapIdx (wrapP step) (ph.zip mask) 0 ++ [(ph.zip mask).length]),
      (isGoodChecks g (s.map (·.1))).isSome = true := by
  intro s hs
  exact isGoodChecks_isSome g _ (by simpa using code_model_slices_nonempty (wrapP step) (ph.zip mask) hw s hs)

/-- Full cover stated for the public entry point: all cycles requested, no mask, at least one wrap ⇒
    every sample of `getCycleVector` carries a label ≥ 0. -/
theorem getCycleVector_all_cover (g : GoodCfg) (step : Rat) (ph : List Rat)
    (hw : wrapIdx (wrapAt step) ph 0 ≠ []) :
    ∀ l ∈ getCycleVector g step false ph (List.replicate ph.length true), 0 ≤ l := by
  rw [getCycleVector_nomask, ← code_model_refines]
  exact code_model_all_cover _ ph hw

/-! ## `phase_step`: every value is a threshold and is used as given ("all phase_step values")

`getCycleVectorOpt g dflt step?` is `get_cycle_vector` with the `phase_step` argument as the caller wrote it
(`none` = omitted).  The theorems above are generic in the wrap predicate; the ones below instantiate them at
the public entry point for EVERY value of the argument — 0 and 0.0 (the lower end of the range: every change
of phase is a wrap), negative values (every neighbour pair is a wrap), values nothing exceeds (no wrap) — and
say that an explicit value is never replaced by the default (seeded change C12-5: `phase_step or DEFAULT`). -/

/-- An explicit `phase_step` — whatever its value, 0 included — is the threshold: the result is that of the
    detector run with exactly this number and does not depend on what the default is.  The default applies
    when (and only when) the argument is omitted. -/
theorem explicit_step_used_as_given (g : GoodCfg) (dflt dflt' s : Rat) (good : Bool) (ph : List Rat)
    (mask : List Bool) :
    getCycleVectorOpt g dflt (some s) good ph mask = getCycleVector g s good ph mask ∧
    getCycleVectorOpt g dflt (some s) good ph mask = getCycleVectorOpt g dflt' (some s) good ph mask ∧
    getCycleVectorOpt g dflt none good ph mask = getCycleVector g dflt good ph mask := ⟨rfl, rfl, rfl⟩

/-- **The partition theorems at the public entry point, for every `phase_step` argument** (omitted, 0,
    negative, huge — `step?` ranges over all of `Option Rat`) and every default: the label vector is the
    painted labelled partition for the threshold `resolveStep dflt step?`; the runs concatenate to the
    input, none is empty, none contains a pair of neighbours farther apart than the threshold, consecutive
    runs are separated by such a pair, the labels are 0..K-1 in temporal order, there is one label per
    sample, and the code-shaped model (what the driver runs) computes the same vector. -/
theorem partition_every_step (g : GoodCfg) (dflt : Rat) (step? : Option Rat) (good : Bool) (ph : List Rat)
    (mask : List Bool) :
    let step := resolveStep dflt step?
    let segs := cvSegs (wrapP step) (accept g good) (ph.zip mask)
    getCycleVectorOpt g dflt step? good ph mask = paint segs ∧
    (segs.map (·.1)).flatten = ph.zip mask ∧
    (∀ s ∈ segs, s.1 ≠ [] ∧ NoWrap (wrapP step) s.1) ∧
    WrapBetween (wrapP step) (segs.map (·.1)) ∧
    segs.filterMap (·.2) = List.range (nCycles segs) ∧
    (getCycleVectorOpt g dflt step? good ph mask).length = (ph.zip mask).length ∧
    getCycleVectorOpt g dflt step? good ph mask = cvIdx (wrapP step) (accept g good) (ph.zip mask) := by
  intro step segs
  exact ⟨rfl, segs_partition _ _ _, fun s hs => ⟨segs_nonempty _ _ _ s hs, segs_no_internal_wrap _ _ _ s hs⟩,
    segs_boundaries_are_wraps _ _ _, labels_sequential _ _ _, cv_length _ _ _, (code_model_refines _ _ _).symm⟩

/-- `phase_step = 0` (explicit, whatever the default): a pair of neighbours is a wrap exactly when the two
    phases DIFFER.  So the runs of the partition are the maximal runs of equal phase: inside a run all
    phases are equal, and the last phase of a run differs from the first phase of the next. -/
theorem step_zero_partition (g : GoodCfg) (dflt : Rat) (good : Bool) (ph : List Rat) (mask : List Bool) :
    (∀ a b : Rat, wrapAt 0 a b = true ↔ a ≠ b) ∧
    getCycleVectorOpt g dflt (some 0) good ph mask = paint (cvSegs (wrapP 0) (accept g good) (ph.zip mask)) ∧
    (∀ s ∈ cvSegs (wrapP 0) (accept g good) (ph.zip mask), ∀ x ∈ s.1, ∀ y ∈ s.1, x.1 = y.1) ∧
    WrapBetween (fun a b : Rat × Bool => decide (a.1 ≠ b.1))
      ((cvSegs (wrapP 0) (accept g good) (ph.zip mask)).map (·.1)) := by
  have hw : wrapP 0 = fun a b : Rat × Bool => decide (a.1 ≠ b.1) := by
    funext a b
    rw [Bool.eq_iff_iff, decide_eq_true_eq]
    exact wrapAt_zero_iff a.1 b.1
  refine ⟨wrapAt_zero_iff, rfl, ?_, ?_⟩
  · intro s hs
    apply noWrap_const (wrapP 0) (·.1) _ s.1 (segs_no_internal_wrap _ _ _ s hs)
    intro a b hab
    apply Classical.byContradiction
    intro hne
    have := (wrapAt_zero_iff a.1 b.1).mpr hne
    unfold wrapP at hab
    rw [hab] at this; cases this
  · have := segs_boundaries_are_wraps (wrapP 0) (accept g good) (ph.zip mask)
    rw [hw] at this ⊢; exact this

/-- A NEGATIVE `phase_step` (|Δphase| ≥ 0 exceeds it always): every neighbour pair is a wrap, every sample
    is a cycle of its own — with all cycles requested, no mask and at least two samples the labels are
    0, 1, …, n-1. -/
theorem step_negative_every_sample_a_cycle (g : GoodCfg) (dflt s : Rat) (hs : s < 0) (ph : List Rat)
    (hn : 2 ≤ ph.length) :
    getCycleVectorOpt g dflt (some s) false ph (List.replicate ph.length true) =
      (List.range ph.length).map fun (k : Nat) => (k : Int) := by
  show getCycleVector g s false ph (List.replicate ph.length true) = _
  rw [getCycleVector_nomask]
  simp only [Bool.not_false, Bool.true_or]
  unfold cvSegs
  simp only []
  rw [runsBy_all_wrap (wrapAt s) (wrapAt_of_neg s hs) ph]
  rw [if_neg (by simp; omega), paint_labelRuns_singletons, List.range_eq_range']

/-- A `phase_step` that no phase difference of the series exceeds (all phases within `[lo, hi]`,
    `hi - lo ≤ phase_step`; e.g. `2π` or 7 for wrapped phases): no wrap, hence no cycle — every label is -1,
    whichever cycles are requested, with or without mask. -/
theorem step_not_exceeded_no_cycles (g : GoodCfg) (dflt s lo hi : Rat) (h : hi - lo ≤ s) (good : Bool)
    (ph : List Rat) (mask : List Bool) (hb : ∀ a ∈ ph, lo ≤ a ∧ a ≤ hi) :
    ∀ l ∈ getCycleVectorOpt g dflt (some s) good ph mask, l = -1 := by
  show ∀ l ∈ paint (cvSegs (wrapP s) (accept g good) (ph.zip mask)), l = -1
  rw [← code_model_refines]
  apply code_model_no_wrap
  apply wrapIdx_nil_of_no_wrap
  intro a ha b hb'
  exact wrapAt_false_of_bounds s lo hi h a.1 b.1 (hb _ (List.of_mem_zip ha).1) (hb _ (List.of_mem_zip hb').1)

/-! Non-vacuity: a concrete series with two wraps, three cycles, all hypotheses met
    (integer samples; the theorems are generic in the sample type). -/
def wInt (a b : Int) : Bool := decide (4 < (b - a).natAbs)
example : paint (cvSegs wInt (fun _ => true) [1, 3, 6, 0, 2, 6, 1, 4]) = [0, 0, 0, 1, 1, 1, 2, 2] := by decide
example : 2 ≤ (runsBy wInt [1, 3, 6, 0, 2, 6, 1, 4]).length := by decide
example : cvIdx wInt (fun _ => true) [1, 3, 6, 0, 2, 6, 1, 4] = [0, 0, 0, 1, 1, 1, 2, 2] := by decide
example : (2 : Nat) < nCycles (cvSegs wInt (fun _ => true) [1, 3, 6, 0, 2, 6, 1, 4]) := by decide
-- wraps at the first and at the last sample: boundaries [0, 1, 4, 5], slices of lengths 1, 3, 1
example : wrapIdx wInt [9, 1, 2, 3, 9] 0 = [1, 4] := by decide
example : segSlices [9, 1, 2, 3, 9] (0 :: wrapIdx wInt [9, 1, 2, 3, 9] 0 ++ [5]) = [[9], [1, 2, 3], [9]] := by decide
example := code_model_slices_nonempty wInt [9, 1, 2, 3, 9] (by decide)

-- phase_step = 0 on the round-3 witness (repeated values, small changes): cycles at every change of phase, although the
-- default threshold 3/2·π ≈ 4.71 sees a single wrap; a negative step labels every sample
example : getCycleVectorOpt { edge := 1/4, twopi := 6, endlo := 23/4 } (471/100) (some 0) false
    [1/2, 1/2, 1, 1, 1, 5/2, 5/2, 6, 1/5, 1/5] (List.replicate 10 true) = [0, 0, 1, 1, 1, 2, 2, 3, 4, 4] := by decide +kernel
example : getCycleVectorOpt { edge := 1/4, twopi := 6, endlo := 23/4 } (471/100) none false
    [1/2, 1/2, 1, 1, 1, 5/2, 5/2, 6, 1/5, 1/5] (List.replicate 10 true) = [0, 0, 0, 0, 0, 0, 0, 0, 1, 1] := by decide +kernel
example : getCycleVectorOpt { edge := 1/4, twopi := 6, endlo := 23/4 } (471/100) (some (-1)) false
    [1/2, 1/2, 1] (List.replicate 3 true) = [0, 1, 2] := by decide +kernel

end C12
