import EmdModel.Extrema
namespace C05
open Extrema
theorem placeholder : findPeaks [] = [] := rfl
end C05
