/-
  C05 — extrema are exact and envelopes interpolate them on the sample grid.
  Property theorems only (helper lemmas: Proofs/Lemmas/Extrema*.lean).
  All statements are about the executable model `EmdModel.Extrema`
  (`findPeaks`, `parabolic`, `padOdd`, `paddedExtrema`, `envGrid`, `interpEnvelope I`),
  for every signal of every length, every pad width, every mode, refinement on or off,
  and every interpolant `I` (an oracle).
-/
import Proofs.Lemmas.ExtremaEnv
import Proofs.Lemmas.ExtremaPad0
import Proofs.Lemmas.ExtremaRounds

namespace C05
open Extrema

/-! ## 1. Detected extrema are exactly the strict interior local maxima / minima -/

/-- A peak is an index with both neighbours inside the signal and strictly below it:
    end samples and plateaus (ties on either side) are never extrema. -/
theorem mem_findPeaks (x : Sig) (i : Nat) :
    i ∈ findPeaks x ↔ 0 < i ∧ i + 1 < x.length ∧ x[i - 1]! < x[i]! ∧ x[i + 1]! < x[i]! := by
  rw [mem_findPeaks_at', at'_eq_getElem!, at'_eq_getElem!, at'_eq_getElem!]

/-- Troughs (peaks of the negated signal) are exactly the strict interior local minima. -/
theorem mem_findTroughs (x : Sig) (i : Nat) :
    i ∈ findTroughs x ↔ 0 < i ∧ i + 1 < x.length ∧ x[i]! < x[i - 1]! ∧ x[i]! < x[i + 1]! := by
  unfold findTroughs
  rw [mem_findPeaks_at', at'_neg, at'_neg, at'_neg, ← at'_eq_getElem!, ← at'_eq_getElem!, ← at'_eq_getElem!]
  have hlen : (Sig.neg x).length = x.length := by simp [Sig.neg]
  rw [hlen]
  constructor
  · rintro ⟨h0, h1, h2, h3⟩; exact ⟨h0, h1, by grind, by grind⟩
  · rintro ⟨h0, h1, h2, h3⟩; exact ⟨h0, h1, by grind, by grind⟩

/-- Extrema are reported in strictly increasing time order (no duplicates). -/
theorem findPeaks_sorted (x : Sig) : (findPeaks x).Pairwise (· < ·) := findPeaks_sorted' x

/-- Two strict maxima are never adjacent samples. -/
theorem findPeaks_not_adjacent (x : Sig) : (findPeaks x).Pairwise (fun i j => i + 2 ≤ j) :=
  findPeaks_not_adjacent' x

/-- `get_padded_extrema` returns `None` exactly when the (mode-transformed) signal has fewer than
    two strict extrema — whatever the pad width and the refinement flag. -/
theorem paddedExtrema_none_iff (w : Nat) (m : Mode) (parab : Bool) (x : Sig) :
    paddedExtrema w m parab x = .none ↔ (findPeaks (modeSig m x)).length < 2 := by
  have hlen : (extrema m parab x).1.length = (findPeaks (modeSig m x)).length := by
    rw [extrema_locs]; exact (rawExtrema_length parab _).1
  constructor
  · intro h
    by_cases hc : (findPeaks (modeSig m x)).length < 2
    · exact hc
    · exfalso
      unfold paddedExtrema at h
      simp only [hlen] at h
      have : ¬ (findPeaks (modeSig m x)).length ≤ 1 := by omega
      simp only [this, if_false] at h
      generalize (if (findPeaks (modeSig m x)).length < w then (findPeaks (modeSig m x)).length else w) = w' at h
      by_cases hw0 : w' = 0
      · simp [hw0] at h
      · simp only [hw0, if_false] at h
        cases hloop : padLoop w' x.length (x.length + 1) (padOdd w' (extrema m parab x).1) (padEdge w' (extrema m parab x).2) with
        | none => simp [hloop] at h
        | some r => simp [hloop] at h
  · intro h
    unfold paddedExtrema
    simp only [hlen]
    have : (findPeaks (modeSig m x)).length ≤ 1 := by omega
    simp [this]

/-! ## 2. Parabolic refinement -/

/-- For a strict peak the refined location lies strictly within half a sample of the detected one,
    and the refined height is at least the sample's. -/
theorem parabolic_within_half (y0 y1 y2 : Rat) (h0 : y0 < y1) (h2 : y2 < y1) :
    -(1 / 2) < (parabolic y0 y1 y2).1 ∧ (parabolic y0 y1 y2).1 < 1 / 2 ∧ y1 ≤ (parabolic y0 y1 y2).2 :=
  ⟨(parabolic_within_half' y0 y1 y2 h0 h2).1, (parabolic_within_half' y0 y1 y2 h0 h2).2,
    parabolic_height' y0 y1 y2 h0 h2⟩

/-- **The refined extremum is the vertex of the parabola through the three samples — at every amplitude.**  For a
    strict peak `y0 < y1 > y2` the offset from the detected sample is `(y0 − y2) / (2 (y0 − 2 y1 + y2))` and the
    height is `y1 − (y0 − y2)² / (8 (y0 − 2 y1 + y2))`; both differ from the sampled extremum exactly when the two
    neighbours differ.  No tolerance enters: an asymmetric strict peak of size `1e-13` is moved like one of size 1
    (C02.parabolic_smul: the offset of `c·(y0, y1, y2)` is that of `(y0, y1, y2)`, the height `c` times).  A guard
    that returns the sampled extremum when the curvature is below a fixed number (seeded C05-5) contradicts this. -/
theorem parabolic_vertex_any_amplitude (y0 y1 y2 : Rat) (h0 : y0 < y1) (h2 : y2 < y1) :
    (parabolic y0 y1 y2).1 = (y0 - y2) / (2 * (y0 - 2 * y1 + y2)) ∧
    (parabolic y0 y1 y2).2 = y1 - (y0 - y2) ^ 2 / (8 * (y0 - 2 * y1 + y2)) ∧
    ((parabolic y0 y1 y2).1 = 0 ↔ y0 = y2) ∧ ((parabolic y0 y1 y2).2 = y1 ↔ y0 = y2) :=
  ⟨parabolic_offset y0 y1 y2 h0 h2, parabolic_height_eq y0 y1 y2 h0 h2, (parabolic_moves_iff y0 y1 y2 h0 h2).1,
    (parabolic_moves_iff y0 y1 y2 h0 h2).2⟩

-- a peak of size 3e-13 is refined: offset 1/6 of a sample, exactly as for the same shape at size 3
example : (parabolic (1 / 10000000000000) (3 / 10000000000000) (2 / 10000000000000)).1 = 1 / 6 ∧
    (parabolic 1 3 2).1 = 1 / 6 := by decide +kernel

/-- Refined (and unrefined) extrema locations stay strictly ordered, at least one sample apart —
    what the spline constructors require of their knots. -/
theorem parabolic_strictMono (parab : Bool) (y : Sig) :
    (rawExtrema parab y).1.Pairwise (· < ·) ∧ (rawExtrema parab y).1.Pairwise (fun a b => a + 1 ≤ b) :=
  ⟨sep_imp_lt (rawExtrema_locs_sep parab y), rawExtrema_locs_sep parab y⟩

/-- Every refined location belongs to a detected strict extremum and is within half a sample of it. -/
theorem refined_near_detected (y : Sig) (i : Nat) (hi : i ∈ findPeaks y) :
    (i : Rat) - 1 / 2 < refinedLoc y i ∧ refinedLoc y i < (i : Rat) + 1 / 2 := refinedLoc_near y i hi

/-! ## 3. Padding: strictly ordered, interior untouched, mirrored -/

/-- Odd-reflection padding of strictly increasing locations is strictly increasing (any width). -/
theorem padOdd_strictMono (w : Nat) (l : List Rat) (hl : 2 ≤ l.length) (h : l.Pairwise (· < ·)) :
    (padOdd w l).Pairwise (· < ·) :=
  (padOdd_spec w l hl).1.pairwise reflRel_lt h

/-- The middle block of the padded array is the input, unchanged, with exactly `w` values added on
    either side (also when numpy needs several reflection chunks because `w ≥ len`). -/
theorem padOdd_interior (w : Nat) (l : List Rat) (hl : 2 ≤ l.length) :
    ∃ L Rr, padOdd w l = L ++ l ++ Rr ∧ L.length = w ∧ Rr.length = w :=
  (padOdd_spec w l hl).2

/-- When the width is smaller than the array, padding is a single reflection chunk. -/
theorem padOdd_single_chunk (w : Nat) (l : List Rat) (hw1 : 1 ≤ w) (hw : w < l.length) :
    padOdd w l = padOddOnce w l := padOdd_eq_once w l hw1 hw (by omega)

/-- One reflection chunk, index by index: the `k`-th value to the left of the block is the odd
    reflection `2·l[0] − l[k]` about the first location, the `k`-th value to the right is
    `2·l[last] − l[last−k]`, and the block itself sits unchanged in between. -/
theorem padOddOnce_mirror (c : Nat) (l : List Rat) (hc : c < l.length) :
    (∀ k, 1 ≤ k → k ≤ c → (padOddOnce c l)[c - k]? = some (2 * l[0]! - l[k]!)) ∧
    (∀ i, i < l.length → (padOddOnce c l)[c + i]? = l[i]?) ∧
    (∀ k, 1 ≤ k → k ≤ c →
      (padOddOnce c l)[c + l.length - 1 + k]? = some (2 * l[l.length - 1]! - l[l.length - 1 - k]!)) := by
  refine ⟨fun k h1 h2 => ?_, fun i hi => padOddOnce_mid c l hc i hi, fun k h1 h2 => ?_⟩
  · rw [← at'_eq_getElem!, ← at'_eq_getElem!]; exact padOddOnce_left c l hc k h1 h2
  · rw [← at'_eq_getElem!, ← at'_eq_getElem!]; exact padOddOnce_right c l hc k h1 h2

/-- Everything `get_padded_extrema` returns: the detected extrema `(l, e)` sit unchanged in the
    middle; the same number `k` of locations is added on both sides, all before the first / after the
    last extremum, by a chain of odd-reflection chunks (`PadChain`, each chunk mirrors about the
    then-current end, see `padOddOnce_mirror`); the result is strictly ordered with spacing ≥ 1;
    added magnitudes replicate the first / last magnitude; one magnitude per location. -/
theorem paddedExtrema_structure (w : Nat) (m : Mode) (parab : Bool) (x : Sig) (locs mags : List Rat)
    (h : paddedExtrema w m parab x = .ok locs mags) :
    ∃ (k : Nat) (L Rr : List Rat) (a z : Rat),
      locs = L ++ (extrema m parab x).1 ++ Rr ∧ L.length = k ∧ Rr.length = k ∧
      (extrema m parab x).2.head? = some a ∧ (extrema m parab x).2.getLast? = some z ∧
      mags = List.replicate k a ++ (extrema m parab x).2 ++ List.replicate k z ∧
      PadChain (extrema m parab x).1 locs ∧
      locs.Pairwise (· < ·) ∧ locs.Pairwise (fun u v => u + 1 ≤ v) ∧
      (∀ u ∈ L, ∀ v ∈ (extrema m parab x).1, u < v) ∧ (∀ v ∈ (extrema m parab x).1, ∀ u ∈ Rr, v < u) ∧
      locs.length = mags.length ∧ (w = 0 → k = 0) := by
  have hsep := paddedExtrema_sorted w m parab x locs mags h
  have hlt := sep_imp_lt hsep
  obtain ⟨_, a, z, ha, hz, ⟨k, L, Rr, hl, hL, hR, he, hch⟩, hor⟩ := paddedExtrema_ok w m parab x locs mags h
  have hp := List.pairwise_append.mp (hl ▸ hlt)
  have hp1 := List.pairwise_append.mp hp.1
  refine ⟨k, L, Rr, a, z, hl, hL, hR, ha, hz, he, hch, hlt, hsep, hp1.2.2, ?_,
    paddedExtrema_lengths w m parab x locs mags h, ?_⟩
  · intro v hv u hu; exact hp.2.2 v (List.mem_append_right _ hv) u hu
  · intro hw0
    rcases hor with ⟨_, h1, _⟩ | ⟨hw1, _⟩
    · have := congrArg List.length (hl.symm.trans h1)
      simp [hL, hR] at this; omega
    · omega

/-- MINIMALITY AND COUNT of the re-padding (pad width ≥ 1).  Let `w' = min w #extrema` be the effective
    width.  The returned locations / magnitudes are the `(r+1)`-fold odd-reflection / edge padding of
    the detected extrema, where `r+1 ≥ 1` is the LEAST number of rounds after which the loop condition
    `max(locs) < len(X) or min(locs) >= 0` is false: it is false after round `r+1` and true after
    every earlier round `1 … r` — so a round more (or less) than needed is impossible.  Exactly
    `(r+1)·w'` values are added on either side of the unchanged block, and `r ≤ len(X)`. -/
theorem paddedExtrema_rounds (w : Nat) (hw : 1 ≤ w) (m : Mode) (parab : Bool) (x : Sig) (locs mags : List Rat)
    (h : paddedExtrema w m parab x = .ok locs mags) :
    ∃ r : Nat,
      locs = (padOdd (min w (extrema m parab x).1.length))^[r + 1] (extrema m parab x).1 ∧
      mags = (padEdge (min w (extrema m parab x).1.length))^[r + 1] (extrema m parab x).2 ∧
      needsMore x.length locs = false ∧
      (∀ j, j < r → needsMore x.length ((padOdd (min w (extrema m parab x).1.length))^[j + 1] (extrema m parab x).1) = true) ∧
      r ≤ x.length ∧
      ∃ L Rr, locs = L ++ (extrema m parab x).1 ++ Rr ∧
        L.length = (r + 1) * min w (extrema m parab x).1.length ∧
        Rr.length = (r + 1) * min w (extrema m parab x).1.length :=
  paddedExtrema_rounds' w hw m parab x locs mags h

/-- The loop condition in geometric terms: it is false exactly when the first location is negative
    and the last is at least `len(X)` (for the strictly ordered locations `lmin`/`lmax` are the ends). -/
theorem needsMore_false_iff_covered (n : Nat) (l : List Rat) :
    needsMore n l = false ↔ lmin l < 0 ∧ (n : Rat) ≤ lmax l := needsMore_false_iff n l

/-- With a pad width ≥ 1 the interpolant gets at least four knots (what `splrep` with k = 3 needs):
    two extrema plus at least one padded value on either side. -/
theorem paddedExtrema_min_knots (w : Nat) (hw : 1 ≤ w) (m : Mode) (parab : Bool) (x : Sig) (locs mags : List Rat)
    (h : paddedExtrema w m parab x = .ok locs mags) : 4 ≤ locs.length ∧ 4 ≤ mags.length := by
  obtain ⟨hl2, _⟩ := paddedExtrema_ok w m parab x locs mags h
  obtain ⟨r, _, _, _, _, _, L, Rr, heq, hL, hR⟩ := paddedExtrema_rounds w hw m parab x locs mags h
  have hlen := paddedExtrema_lengths w m parab x locs mags h
  have h1 : 1 ≤ min w (extrema m parab x).1.length := by omega
  have h2 : 1 ≤ (r + 1) * min w (extrema m parab x).1.length := Nat.mul_pos (by omega) h1
  have : 4 ≤ locs.length := by rw [heq]; simp only [List.length_append]; omega
  exact ⟨this, by omega⟩

/-- Pad width 0 (inside the property's quantifier): nothing is added — `get_padded_extrema` returns
    the detected extrema themselves (`None` below two extrema). -/
theorem paddedExtrema_pad0 (m : Mode) (parab : Bool) (x : Sig) :
    paddedExtrema 0 m parab x =
      if (extrema m parab x).1.length ≤ 1 then .none else .ok (extrema m parab x).1 (extrema m parab x).2 :=
  paddedExtrema_zero m parab x

/-- With a pad width ≥ 1 the padded locations reach beyond both ends of the signal:
    the first is negative and the last is at least `n`. -/
theorem paddedExtrema_covers (w : Nat) (hw : 1 ≤ w) (m : Mode) (parab : Bool) (x : Sig) (locs mags : List Rat)
    (h : paddedExtrema w m parab x = .ok locs mags) :
    ∃ a z, locs.head? = some a ∧ locs.getLast? = some z ∧ a < 0 ∧ (x.length : Rat) ≤ z :=
  paddedExtrema_covers' w hw m parab x locs mags h

/-- The re-padding `while` loop terminates: `len(X)+1` rounds always suffice, for every signal,
    width, mode and refinement setting (the model's fuel is never exhausted). -/
theorem paddedExtrema_terminates (w : Nat) (m : Mode) (parab : Bool) (x : Sig) :
    paddedExtrema w m parab x ≠ .fuel := paddedExtrema_ne_fuel w m parab x

/-! ## 4. The evaluation grid is the sample grid -/

/-- If the first location is ≤ 0 and the last is ≥ n, the envelope is evaluated exactly at the
    sample indices 0, 1, …, n−1 — for fractional (refined) locations as well. -/
theorem envGrid_eq_range (locs : List Rat) (n : Nat) (a z : Rat) (ha : locs.head? = some a)
    (hz : locs.getLast? = some z) (h0 : a ≤ 0) (hn : (n : Rat) ≤ z) :
    envGrid locs n = (List.range n).map (fun (k : Nat) => (k : Rat)) :=
  envGrid_eq_range' locs n a z ha hz h0 hn

/-- The grid of the pinned tree coincides with the sample grid when the first location is an integer… -/
theorem envGridPinned_eq_range_of_integral (locs : List Rat) (n : Nat) (c : Int) (z : Rat)
    (ha : locs.head? = some (c : Rat)) (hz : locs.getLast? = some z) (h0 : c ≤ 0) (hn : (n : Rat) ≤ z) :
    envGridPinned locs n = (List.range n).map (fun (k : Nat) => (k : Rat)) :=
  envGridPinned_eq_range' locs n c z ha hz h0 hn

/-- …but every point of the pinned grid is `locs[0] + k`: with a fractional first location
    (parabolic refinement) no evaluation point is a sample index (defect D17). -/
theorem envGridPinned_offsets (locs : List Rat) (n : Nat) (a : Rat) (ha : locs.head? = some a) :
    ∀ t ∈ envGridPinned locs n, ∃ k : Nat, t = a + (k : Rat) :=
  envGridPinned_offsets' locs n a ha

/-- Negation witness for the pinned grid: strictly ordered locations covering both edges whose
    pinned evaluation grid is not the sample grid (it misses sample 0). -/
theorem envGridPinned_fractional_witness :
    ∃ (locs : List Rat) (n : Nat) (a z : Rat), locs.Pairwise (· < ·) ∧ locs.head? = some a ∧
      locs.getLast? = some z ∧ a < 0 ∧ (n : Rat) ≤ z ∧
      envGridPinned locs n ≠ (List.range n).map (fun (k : Nat) => (k : Rat)) := by
  refine ⟨[-(1 / 2), 5 / 2], 2, -(1 / 2), 5 / 2, ?_, rfl, rfl, by decide +kernel, by decide +kernel, ?_⟩
  · simp only [List.pairwise_cons, List.mem_singleton, forall_eq, List.not_mem_nil, false_imp_iff,
      implies_true, List.Pairwise.nil, and_true]
    decide +kernel
  · intro heq
    have h0 : (0 : Rat) ∈ envGridPinned [-(1 / 2), 5 / 2] 2 := by
      rw [heq]; simp [List.range_succ]
    obtain ⟨k, hk⟩ := envGridPinned_offsets [-(1 / 2), 5 / 2] 2 (-(1 / 2)) rfl 0 h0
    have h2 : ((2 * k : Nat) : Rat) = ((1 : Nat) : Rat) := by push_cast; linarith
    have h3 : 2 * k = 1 := by exact_mod_cast h2
    omega

/-! ## 5. The envelope -/

/-- Every envelope has one value per input sample: with a pad width ≥ 1 `interp_envelope` never
    raises its length error (and the model never runs out of fuel). -/
theorem interpEnvelope_never_raises (I : Interp) (em : EMode) (w : Nat) (hw : 1 ≤ w) (parab : Bool) (x : Sig) :
    interpEnvelope I em w parab x ≠ .valueError ∧ interpEnvelope I em w parab x ≠ .fuel := by
  unfold interpEnvelope
  cases hp : paddedExtrema w em.toMode parab x with
  | none => simp
  | fuel => exact absurd hp (paddedExtrema_ne_fuel w em.toMode parab x)
  | ok l e =>
    have hg := paddedExtrema_grid w hw em.toMode parab x l e hp
    simp [hg]

/-- PAD WIDTH 0 IS REJECTED.  Without padding the extrema lie strictly inside the signal, the
    evaluation grid `arange(ceil(locs[0]), locs[-1])` misses sample 0, and `interp_envelope` raises its
    length error ('Envelope length does not match input data') for EVERY input that has an envelope
    at all (≥ 2 extrema of the requested kind), every mode, refinement flag and interpolant; below two
    extrema it returns None as for any other width.  So `pad_width = 0` never yields an envelope: the
    one-value-per-sample clause holds there only in the form "rejected input".  (The real code agrees:
    ValueError; with `splrep` and fewer than 4 extrema scipy raises its own TypeError 'm > k must hold'
    first — a rejection either way, special-cased by the harness.)  This is why every theorem about the
    composed pipeline (`Sift.extEnv`, which maps a raising envelope to "no envelope") carries `1 ≤ w`. -/
theorem interpEnvelope_pad0_raises (I : Interp) (em : EMode) (parab : Bool) (x : Sig) :
    (2 ≤ (findPeaks (modeSig em.toMode x)).length → interpEnvelope I em 0 parab x = .valueError) ∧
    ((findPeaks (modeSig em.toMode x)).length < 2 → interpEnvelope I em 0 parab x = .none) := by
  have hlen : (extrema em.toMode parab x).1.length = (findPeaks (modeSig em.toMode x)).length := by
    rw [extrema_locs]; exact (rawExtrema_length parab _).1
  rw [interpEnvelope_zero, hlen]
  constructor
  · intro h; rw [if_neg (by omega)]
  · intro h; rw [if_pos (by omega)]

/-- The envelope value of sample `i` is the interpolant through the padded extrema evaluated at the
    integer time `i` — with or without parabolic refinement, for every interpolant. -/
theorem interpEnvelope_at_sample (I : Interp) (em : EMode) (w : Nat) (hw : 1 ≤ w) (parab : Bool) (x : Sig)
    (env locs mags : List Rat) (h : interpEnvelope I em w parab x = .ok env locs mags) :
    env = (List.range x.length).map (fun (i : Nat) => I.eval locs mags (i : Rat)) ∧
    env.length = x.length ∧ paddedExtrema w em.toMode parab x = .ok locs mags := by
  obtain ⟨hp, henv, hlen⟩ := interpEnvelope_ok I em w parab x env locs mags h
  refine ⟨?_, hlen, hp⟩
  rw [henv, paddedExtrema_grid w hw em.toMode parab x locs mags hp, List.map_map]; rfl

/-- `None` is returned exactly when there are fewer than two extrema of the requested kind. -/
theorem interpEnvelope_none_iff (I : Interp) (em : EMode) (w : Nat) (parab : Bool) (x : Sig) :
    interpEnvelope I em w parab x = .none ↔ (findPeaks (modeSig em.toMode x)).length < 2 := by
  rw [← paddedExtrema_none_iff w em.toMode parab x]
  unfold interpEnvelope
  cases hp : paddedExtrema w em.toMode parab x with
  | none => simp
  | fuel => simp
  | ok l e => simp only []; split <;> simp

/-- The upper envelope passes through every unrefined peak: `upper[p] = x[p]`. -/
theorem upper_passes_through_peaks (I : Interp) (hI : I.Interpolates) (w : Nat) (hw : 1 ≤ w) (x : Sig)
    (env locs mags : List Rat) (h : interpEnvelope I .upper w false x = .ok env locs mags)
    (p : Nat) (hp : p ∈ findPeaks x) : env[p]? = some x[p]! := by
  obtain ⟨henv, _, hpad⟩ := interpEnvelope_at_sample I .upper w hw false x env locs mags h
  obtain ⟨_, a, z, _, _, hinv, _⟩ := paddedExtrema_ok w .peaks false x locs mags hpad
  have hsorted := sep_imp_lt (paddedExtrema_sorted w .peaks false x locs mags hpad)
  have hlens := paddedExtrema_lengths w .peaks false x locs mags hpad
  have hpn : p < x.length := by have := ((mem_findPeaks_at' x p).mp hp).2.1; omega
  obtain ⟨i, hi1, hi2⟩ := padInv_knot hinv (findPeaks x) (at' x) (by simp [extrema, rawExtrema])
    (by simp [extrema, rawExtrema]) p hp
  have hval := hI locs mags i (p : Rat) (at' x p) hsorted hlens hi1 hi2
  rw [henv, List.getElem?_map, List.getElem?_range hpn, ← at'_eq_getElem!]
  simp [hval]

/-- The lower envelope passes through every unrefined trough: `lower[t] = x[t]`. -/
theorem lower_passes_through_troughs (I : Interp) (hI : I.Interpolates) (w : Nat) (hw : 1 ≤ w) (x : Sig)
    (env locs mags : List Rat) (h : interpEnvelope I .lower w false x = .ok env locs mags)
    (p : Nat) (hp : p ∈ findTroughs x) : env[p]? = some x[p]! := by
  obtain ⟨henv, _, hpad⟩ := interpEnvelope_at_sample I .lower w hw false x env locs mags h
  obtain ⟨_, a, z, _, _, hinv, _⟩ := paddedExtrema_ok w .troughs false x locs mags hpad
  have hsorted := sep_imp_lt (paddedExtrema_sorted w .troughs false x locs mags hpad)
  have hlens := paddedExtrema_lengths w .troughs false x locs mags hpad
  have hpn : p < x.length := by
    have := ((mem_findPeaks_at' _ p).mp hp).2.1
    simp [Sig.neg] at this; omega
  obtain ⟨i, hi1, hi2⟩ := padInv_knot hinv (findPeaks (Sig.neg x)) (fun i => -at' (Sig.neg x) i)
    (by simp [extrema, rawExtrema]) (by simp [extrema, rawExtrema, Sig.neg]) p hp
  have hval := hI locs mags i (p : Rat) _ hsorted hlens hi1 hi2
  rw [henv, List.getElem?_map, List.getElem?_range hpn, ← at'_eq_getElem!]
  simp only [Option.map_some, hval, at'_neg]
  congr 1; grind

/-- The combined envelope passes through every unrefined peak of `|x|`: `env[p] = |x[p]|`. -/
theorem combined_passes_through_abs_peaks (I : Interp) (hI : I.Interpolates) (w : Nat) (hw : 1 ≤ w) (x : Sig)
    (env locs mags : List Rat) (h : interpEnvelope I .combined w false x = .ok env locs mags)
    (p : Nat) (hp : p ∈ findPeaks (x.map Rat.abs')) : env[p]? = some (Rat.abs' x[p]!) := by
  obtain ⟨henv, _, hpad⟩ := interpEnvelope_at_sample I .combined w hw false x env locs mags h
  obtain ⟨_, a, z, _, _, hinv, _⟩ := paddedExtrema_ok w .absPeaks false x locs mags hpad
  have hsorted := sep_imp_lt (paddedExtrema_sorted w .absPeaks false x locs mags hpad)
  have hlens := paddedExtrema_lengths w .absPeaks false x locs mags hpad
  have hpn : p < x.length := by
    have := ((mem_findPeaks_at' _ p).mp hp).2.1
    simp at this; omega
  obtain ⟨i, hi1, hi2⟩ := padInv_knot hinv (findPeaks (x.map Rat.abs')) (at' (x.map Rat.abs'))
    (by simp [extrema, rawExtrema]) (by simp [extrema, rawExtrema]) p hp
  have hval := hI locs mags i (p : Rat) _ hsorted hlens hi1 hi2
  rw [henv, List.getElem?_map, List.getElem?_range hpn, ← at'_eq_getElem!]
  simp only [Option.map_some, hval, at'_abs x p hpn]

/-! ## Non-vacuity: the hypotheses are met on concrete, non-trivial inputs -/

example : knotInterp.Interpolates := by
  intro locs mags i t v hs _ h1 h2
  simp [knotInterp, knotInterp_lookup locs mags i t v hs h1 h2]

example : findPeaks [0, 1, 0, 1, 1, 0, 2, 0] = [1, 6] := by decide +kernel          -- the plateau 1,1 is no peak
example : findTroughs [0, 1, 0, 1, 1, 0, 2, 0] = [2, 5] := by decide +kernel
-- width clipped to the number of extrema (two reflection chunks), edges covered after one round
example : paddedExtrema 5 .peaks false [0, 1, 0, 1, 0] = .ok [-3, -1, 1, 3, 5, 7] [1, 1, 1, 1, 1, 1] := by
  decide +kernel
-- three rounds of the re-padding loop
example : paddedExtrema 1 .peaks false [0, 1, 1, 0, 1, 0, 2, 0] =
    .ok [-2, 0, 2, 4, 6, 8, 10, 12] [1, 1, 1, 1, 2, 2, 2, 2] := by decide +kernel
-- parabolic refinement: fractional locations (the D17 witness signal)
example : paddedExtrema 1 .peaks true [0, 3, 1, 2, 1/2] =
    .ok [-5/2, -7/10, 11/10, 29/10, 47/10, 13/2] [121/40, 121/40, 121/40, 161/80, 161/80, 161/80] := by
  decide +kernel
-- … on which the repaired grid is the sample grid and the pinned grid is not
example : envGrid [-5/2, -7/10, 11/10, 29/10, 47/10, 13/2] 5 = [0, 1, 2, 3, 4] := by decide +kernel
example : envGridPinned [-5/2, -7/10, 11/10, 29/10, 47/10, 13/2] 5 = [1/2, 3/2, 5/2, 7/2, 9/2] := by decide +kernel
-- hypotheses of `interpEnvelope_at_sample` / `upper_passes_through_peaks` hold on a concrete run
example : interpEnvelope knotInterp .upper 2 false [0, 1, 0, 2, 0, 1, 0] =
    .ok [0, 1, 0, 2, 0, 1, 0] [-3, -1, 1, 3, 5, 7, 9] [1, 1, 1, 2, 1, 1, 1] := by decide +kernel
example : interpEnvelope knotInterp .lower 1 true [0, -3, -1, -2, -1/2] =
    .ok [0, 0, 0, 0, 0] [-5/2, -7/10, 11/10, 29/10, 47/10, 13/2] [-121/40, -121/40, -121/40, -161/80, -161/80, -161/80] := by
  decide +kernel
-- pad width 0: the extrema do not span the signal, the implementation raises
-- the COMBINED envelope is the interpolant's value too where the interpolant undershoots zero: nothing is clipped
-- (seeded C05-6 clipped it at 0; `interpEnvelope_at_sample` holds for every mode and every interpolant)
example : (match interpEnvelope { eval := fun _ _ t => t - 2 } .combined 1 false [0, 1, 0, -2, 0, 1, 0] with
    | .ok env _ _ => some env
    | _ => none) = some [-2, -1, 0, 1, 2, 3, 4] := by decide +kernel
example : interpEnvelope knotInterp .upper 0 false [0, 1, 0, 2, 0, 1, 0] = .valueError := by decide +kernel
-- … and `get_padded_extrema` itself returns the bare extrema
example : paddedExtrema 0 .peaks false [0, 1, 0, 2, 0, 1, 0] = .ok [1, 3, 5] [1, 2, 1] := by decide +kernel
-- `paddedExtrema_rounds` on the three-round example above: r = 2, effective width 1, 3·1 values per side;
-- after rounds 1 and 2 the loop condition still holds (round 2 ends exactly at location 0: `min >= 0`)
example : (padOdd 1)^[3] [4, 6] = [-2, 0, 2, 4, 6, 8, 10, 12] ∧ needsMore 8 ((padOdd 1)^[3] [4, 6]) = false ∧
    needsMore 8 ((padOdd 1)^[1] [4, 6]) = true ∧ needsMore 8 ((padOdd 1)^[2] [4, 6]) = true := by decide +kernel


end C05
