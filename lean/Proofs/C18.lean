/-
  C18 — sift configurations are faithful, addressable and persistable.
  Property theorems only (helper lemmas: Proofs/Lemmas/Config.lean).
  All statements are about the executable model `EmdModel.Config`, for every store (any nesting,
  any values), every key string, every edit and every YAML codec satisfying the stated law.
-/
import Proofs.Lemmas.Config
import Proofs.Lemmas.ComposeDefaults

namespace C18
open Config

/-- no level of the path contains the separator -/
def SlashFree (segs : List Key) : Prop := ∀ s ∈ segs, '/' ∉ s

/-! ### key paths address exactly what nested indexing addresses -/

/-- `'a/b/c'` is translated into the levels `['a','b','c']` (one to three levels). -/
theorem keyTransform_join (segs : List Key) (hne : segs ≠ []) (hlen : segs.length ≤ 3) (hs : SlashFree segs) :
    keyTransform (joinSlash segs) = .ok segs := by
  have : ¬ segs.length > 3 := by omega
  simp [keyTransform, splitSlash_joinSlash segs hne hs, this]

/-- more than three levels are rejected with `ValueError`, by all three accessors -/
theorem keyTransform_too_deep (segs : List Key) (hlen : 3 < segs.length) (hs : SlashFree segs) :
    keyTransform (joinSlash segs) = .error .valueError ∧
    (∀ store, cfgGet store (joinSlash segs) = .error .valueError) ∧
    (∀ store v, cfgSet store (joinSlash segs) v = .error .valueError) ∧
    (∀ store, cfgDel store (joinSlash segs) = .error .valueError) := by
  have hne : segs ≠ [] := by intro e; simp [e] at hlen
  have h : keyTransform (joinSlash segs) = .error .valueError := by
    simp [keyTransform, splitSlash_joinSlash segs hne hs, hlen]
  refine ⟨h, ?_, ?_, ?_⟩ <;> intros <;> simp [cfgGet, cfgSet, cfgDel, h, bind, Except.bind]

/-- `cfg[key]` is nested indexing along the levels of `key`, for EVERY key string. -/
theorem cfgGet_eq_nested (store : Tree) (key : Key) :
    cfgGet store key = (keyTransform key >>= fun p => getPath store p) := by
  cases h : keyTransform key with
  | error e => simp [cfgGet, h, bind, Except.bind]
  | ok p =>
    obtain ⟨hne, hlen⟩ := keyTransform_ok_shape h
    match p, hne, hlen with
    | [a], _, _ => simp [cfgGet, h, getPath, bind, Except.bind]; cases getItem store a <;> rfl
    | [a, b], _, _ =>
      simp [cfgGet, h, getPath, bind, Except.bind]
      cases getItem store a with
      | error e => rfl
      | ok x => simp; cases getItem x b <;> rfl
    | [a, b, c], _, _ =>
      simp [cfgGet, h, getPath, bind, Except.bind]
      cases getItem store a with
      | error e => rfl
      | ok x =>
        simp
        cases getItem x b with
        | error e => rfl
        | ok y => simp; cases getItem y c <;> rfl
    | _ :: _ :: _ :: _ :: _, _, hl => simp at hl

/-- `cfg[key] = v` is the nested assignment along the levels of `key`, for every key string. -/
theorem cfgSet_eq_nested (store : Tree) (key : Key) (v : Tree) :
    cfgSet store key v = (keyTransform key >>= fun p => setPath store p v) := by
  cases h : keyTransform key with
  | error e => simp [cfgSet, h, bind, Except.bind]
  | ok p =>
    obtain ⟨hne, hlen⟩ := keyTransform_ok_shape h
    match p, hne, hlen with
    | [a], _, _ => simp [cfgSet, h, setPath, bind, Except.bind]
    | [a, b], _, _ => simp [cfgSet, h, setPath, bind, Except.bind]
    | [a, b, c], _, _ =>
      simp [cfgSet, h, setPath, bind, Except.bind]
      cases getItem store a with
      | error e => rfl
      | ok x =>
        simp
        cases getItem x b with
        | error e => rfl
        | ok y =>
          simp
          cases setItem y c v <;> rfl
    | _ :: _ :: _ :: _ :: _, _, hl => simp at hl

/-- `del cfg[key]` is the nested deletion along the levels of `key`, for every key string. -/
theorem cfgDel_eq_nested (store : Tree) (key : Key) :
    cfgDel store key = (keyTransform key >>= fun p => delPath store p) := by
  cases h : keyTransform key with
  | error e => simp [cfgDel, h, bind, Except.bind]
  | ok p =>
    obtain ⟨hne, hlen⟩ := keyTransform_ok_shape h
    match p, hne, hlen with
    | [a], _, _ => simp [cfgDel, h, delPath, bind, Except.bind]
    | [a, b], _, _ => simp [cfgDel, h, delPath, bind, Except.bind]
    | [a, b, c], _, _ =>
      simp [cfgDel, h, delPath, bind, Except.bind]
      cases getItem store a with
      | error e => rfl
      | ok x =>
        simp
        cases getItem x b with
        | error e => rfl
        | ok y =>
          simp
          cases delItem y c <;> rfl
    | _ :: _ :: _ :: _ :: _, _, hl => simp at hl

/-- Reading through the slash path `a/b/c` equals `store[a][b][c]`. -/
theorem path_get_eq_nested (store : Tree) (segs : List Key) (hne : segs ≠ []) (hlen : segs.length ≤ 3)
    (hs : SlashFree segs) : cfgGet store (joinSlash segs) = getPath store segs := by
  rw [cfgGet_eq_nested, keyTransform_join segs hne hlen hs]; rfl

/-- Writing through the slash path equals `store[a][b][c] = v` (same new store, same exception). -/
theorem path_set_eq_nested (store : Tree) (segs : List Key) (v : Tree) (hne : segs ≠ []) (hlen : segs.length ≤ 3)
    (hs : SlashFree segs) : cfgSet store (joinSlash segs) v = setPath store segs v := by
  rw [cfgSet_eq_nested, keyTransform_join segs hne hlen hs]; rfl

/-- Deleting through the slash path equals `del store[a][b][c]`. -/
theorem path_del_eq_nested (store : Tree) (segs : List Key) (hne : segs ≠ []) (hlen : segs.length ≤ 3)
    (hs : SlashFree segs) : cfgDel store (joinSlash segs) = delPath store segs := by
  rw [cfgDel_eq_nested, keyTransform_join segs hne hlen hs]; rfl

/-! ### edits -/

/-- A successful write is read back, at every depth, for every key string. -/
theorem get_set_same (store store' : Tree) (key : Key) (v : Tree)
    (h : cfgSet store key v = .ok store') : cfgGet store' key = .ok v := by
  rw [cfgSet_eq_nested] at h
  rw [cfgGet_eq_nested]
  cases hk : keyTransform key with
  | error e => simp [hk, bind, Except.bind] at h
  | ok p =>
    simp [hk, bind, Except.bind] at h ⊢
    exact getPath_setPath_same p store store' v (keyTransform_ok_shape hk).1 h

/-- A successful write changes no entry that is not on the written path (neither above nor below
    it): every other key reads exactly as before, errors included. -/
theorem get_set_other (store store' : Tree) (key key' : Key) (v : Tree) (p q : List Key)
    (h : cfgSet store key v = .ok store') (hp : keyTransform key = .ok p) (hq : keyTransform key' = .ok q)
    (hu : Unrelated p q) : cfgGet store' key' = cfgGet store key' := by
  rw [cfgSet_eq_nested, hp] at h
  rw [cfgGet_eq_nested, cfgGet_eq_nested, hq]
  simp [bind, Except.bind] at h ⊢
  exact getPath_setPath_other p q store store' v h hu

/-- A successful delete removes the addressed entry and nothing unrelated. -/
theorem del_removes_only (store store' : Tree) (key : Key) (h : cfgDel store key = .ok store') :
    cfgGet store' key = .error .keyError ∧
    ∀ (key' : Key) (p q : List Key), keyTransform key = .ok p → keyTransform key' = .ok q → Unrelated p q →
      cfgGet store' key' = cfgGet store key' := by
  rw [cfgDel_eq_nested] at h
  cases hk : keyTransform key with
  | error e => simp [hk, bind, Except.bind] at h
  | ok p =>
    simp [hk, bind, Except.bind] at h
    refine ⟨?_, ?_⟩
    · rw [cfgGet_eq_nested, hk]
      simpa [bind, Except.bind] using getPath_delPath_same p store store' (keyTransform_ok_shape hk).1 h
    · intro key' p' q hp' hq hu
      cases hp'
      rw [cfgGet_eq_nested, cfgGet_eq_nested, hq]
      simpa [bind, Except.bind] using getPath_delPath_other p q store store' h hu

/-- Deleting `parent/k` keeps the parent: it is the old dictionary with exactly `k` removed
    (siblings, their order and values untouched). -/
theorem del_keeps_parent (store store' : Tree) (parent : List Key) (k : Key)
    (hne : parent ≠ []) (hlen : parent.length ≤ 2) (hs : SlashFree (parent ++ [k]))
    (h : cfgDel store (joinSlash (parent ++ [k])) = .ok store') :
    ∃ a, cfgGet store (joinSlash parent) = .ok (.dict a) ∧ (a.lookup k).isSome ∧
         cfgGet store' (joinSlash parent) = .ok (.dict (a.erase k)) := by
  rw [path_del_eq_nested store _ (by simp) (by simp; omega) hs] at h
  have hsp : SlashFree parent := fun s hs' => hs s (by simp [hs'])
  obtain ⟨a, h1, h2, h3⟩ := getPath_delPath_parent parent k store store' h
  refine ⟨a, ?_, h2, ?_⟩
  · rw [path_get_eq_nested store parent hne (by omega) hsp]; exact h1
  · rw [path_get_eq_nested store' parent hne (by omega) hsp]; exact h3

/-- Writing below a parent that cannot be read raises the parent's own exception (`KeyError` for a
    missing parent, `TypeError`/`IndexError` for a non-dictionary): intermediate levels are never
    created silently. -/
theorem set_missing_parent_errors (store : Tree) (parent : List Key) (k : Key) (v : Tree) (e : Err)
    (hne : parent ≠ []) (hlen : parent.length ≤ 2) (hs : SlashFree (parent ++ [k]))
    (h : cfgGet store (joinSlash parent) = .error e) :
    cfgSet store (joinSlash (parent ++ [k])) v = .error e := by
  have hsp : SlashFree parent := fun s hs' => hs s (by simp [hs'])
  rw [path_get_eq_nested store parent hne (by omega) hsp] at h
  rw [path_set_eq_nested store _ v (by simp) (by simp; omega) hs]
  exact setPath_parent_error parent k store v e hne h

/-! ### yaml-safe conversion -/

/-- converting twice is converting once (option values of the documented kinds, `plainA`: Python or
    numpy scalars, None, lists / tuples without arrays, numeric arrays, dicts of these) -/
theorem toYamlSafe_idempotent (a : Assoc) (h : plainA a = true) : toSafeA (toSafeA a) = toSafeA a :=
  toSafeA_idem a h

/-- On option values of the documented kinds the converted store contains no ndarray. -/
theorem toYamlSafe_arrayFree (a : Assoc) (h : plainA a = true) : arrayFreeA (toSafeA a) = true :=
  arrayFreeA_toSafeA a h

/-- … and no numpy scalar either: it lies in the domain of the codec law (what PyYAML writes with
    standard tags).  `plainA` allows numpy scalars as option values and anywhere inside lists and
    tuples (D38: before the repair they were left in place, see `numpy_scalar_not_loadable_before_fix`). -/
theorem toYamlSafe_yamlSafe (a : Assoc) (h : plainA a = true) : yamlSafeA (toSafeA a) = true :=
  yamlSafeA_toSafeA a h

/-- The conversion changes nothing but sequence kinds and numpy-vs-Python scalar types of equal
    value: "tuples may become lists" (`eraseKinds` maps a scalar to its `.item()`). -/
theorem toYamlSafe_same_options (a : Assoc) : eraseKindsA (toSafeA a) = eraseKindsA a :=
  eraseKindsA_toSafeA a

/-- What `.item()` conversion does to a directly stored numpy scalar: the Python scalar of the same
    value, at every depth of the option dictionaries. -/
theorem toYamlSafe_numpy_scalar (a : Assoc) (key : Key) (s : Scalar) (h : a.lookup key = some (.scalar s)) :
    (toSafeA a).lookup key = some (.scalar s.item) ∧ s.item.isNp = false :=
  ⟨lookup_toSafeA_scalar a key s h, Scalar.isNp_item s⟩

/-! ### the two YAML routes -/

variable {Text : Type}

/-- FILE route: `from_yaml_file(to_yaml_file(c))` has the same sift type and the yaml-safe image of
    the same options. -/
theorem roundtrip_file (C : Codec Text) (hC : C.Lawful) (st : Tree) (a : Assoc)
    (hst : yamlSafe st = true) (hpl : plainA a = true) (hstr : strOkA a = true) :
    (toYamlFile C { siftType := st, store := .dict a } >>= fromYamlFile C) =
      .ok { siftType := st, store := .dict (toSafeA a) } := by
  have hfree : yamlSafeL (.cons (.dict (.cons siftTypeKey st .nil)) (.cons (.dict (toSafeA a)) .nil)) = true := by
    simp [yamlSafeL, yamlSafe, yamlSafeA, hst, yamlSafeA_toSafeA a hpl]
  have hget : getItem (.dict (.cons siftTypeKey st .nil)) siftTypeKey = .ok st := by
    simp [Assoc.lookup]
  simp [toYamlFile, yamlSafeDocs, strOk, hstr, bind, Except.bind, pure, Except.pure, fromYamlFile,
    hC.loadAll_dumpAll _ hfree, hget, strOkA_toSafeA]

/-- TEXT route: `from_yaml_stream(to_yaml_text(c))` has the same sift type and the yaml-safe image
    of the same options. -/
theorem roundtrip_text (C : Codec Text) (hC : C.Lawful) (st : Tree) (a : Assoc)
    (hst : yamlSafe st = true) (hpl : plainA a = true) :
    (toYamlText C { siftType := st, store := .dict a } >>= fromYamlStream C) =
      .ok { siftType := st, store := .dict (toSafeA a) } := by
  have hfree : yamlSafe (.seq .list (.cons (.dict (.cons siftTypeKey st .nil)) (.cons (.dict (toSafeA a)) .nil))) = true := by
    simp [yamlSafeL, yamlSafe, yamlSafeA, hst, yamlSafeA_toSafeA a hpl]
  simp [toYamlText, yamlSafeDocs, bind, Except.bind, pure, Except.pure, fromYamlStream,
    hC.load_dump _ hfree, Assoc.lookup]

/-- A SECOND trip is the identity: the configuration that was loaded, written and read again (either
    route) is exactly itself — nothing drifts over repeated save / load cycles. -/
theorem roundtrip_second_trip_identity (C : Codec Text) (hC : C.Lawful) (st : Tree) (a : Assoc)
    (hst : yamlSafe st = true) (hpl : plainA a = true) :
    (toYamlText C { siftType := st, store := .dict (toSafeA a) } >>= fromYamlStream C) =
      .ok { siftType := st, store := .dict (toSafeA a) } ∧
    (strOkA a = true →
      (toYamlFile C { siftType := st, store := .dict (toSafeA a) } >>= fromYamlFile C) =
        .ok { siftType := st, store := .dict (toSafeA a) }) := by
  have hp2 : plainA (toSafeA a) = true := plainA_of_yamlSafeA _ (yamlSafeA_toSafeA a hpl)
  refine ⟨?_, fun hstr => ?_⟩
  · rw [roundtrip_text C hC st _ hst hp2, toSafeA_idem a hpl]
  · rw [roundtrip_file C hC st _ hst hp2 (by rw [strOkA_toSafeA]; exact hstr), toSafeA_idem a hpl]

/-- The loaded configuration names the same function and binds the same keyword arguments
    (up to tuple → list) into its partial. -/
theorem roundtrip_get_func (known : Key → Bool) (st : Tree) (a : Assoc) (f : Key) (kw : Assoc)
    (h : getFunc known { siftType := st, store := .dict a } = .ok (f, kw)) :
    getFunc known { siftType := st, store := .dict (toSafeA a) } = .ok (f, toSafeA kw) ∧
    eraseKindsA (toSafeA kw) = eraseKindsA kw := by
  refine ⟨?_, eraseKindsA_toSafeA kw⟩
  unfold getFunc at h ⊢
  simp only [] at h ⊢
  split at h
  · split at h
    · next hk => cases h; simp [hk]
    · cases h
  · cases h

/-- Writing a configuration converts tuples / arrays in the WRITTEN documents only: the documents hold
    the yaml-safe image of the options while the live configuration is exactly what it was (the
    conversion runs on a deep copy; contrast `legacy_dump_mutated_nested`). -/
theorem dump_leaves_config_untouched (st : Tree) (a : Assoc) :
    yamlSafeDocs { siftType := st, store := .dict a } =
      .ok (.cons (.dict (.cons siftTypeKey st .nil)) (.cons (.dict (toSafeA a)) .nil)) ∧
    storeAfterDump { siftType := st, store := .dict a } = .dict a ∧
    (plainA a = true → yamlSafeA (toSafeA a) = true) := ⟨rfl, rfl, yamlSafeA_toSafeA a⟩

/-- D14 (pinned code): with the shallow copy, a nested tuple became a list in the LIVE configuration. -/
theorem legacy_dump_mutated_nested :
    ∃ c : Cfg, storeAfterDumpLegacy c ≠ c.store :=
  ⟨{ siftType := defaultName,
     store := .dict (.cons (k "imf_opts") (.dict (.cons (k "rilling_thresh")
                (.seq .tuple (.cons (.scalar (.int 1)) .nil)) .nil)) .nil) }, by
    simp [storeAfterDumpLegacy, storeAfterDumpLegacy.go, toSafeA, toSafe]⟩

/-- D14 (pinned code): the text route was not an inverse — for EVERY configuration the loaded store
    was the two-element list and the sift type the default. -/
theorem legacy_text_route_not_inverse (C : Codec Text) (hC : C.Lawful) (st : Tree) (a : Assoc)
    (hst : yamlSafe st = true) (hpl : plainA a = true) :
    (toYamlText C { siftType := st, store := .dict a } >>= fromYamlStreamLegacy C) =
      .ok { siftType := defaultName,
            store := .seq .list (.cons (.dict (.cons siftTypeKey st .nil)) (.cons (.dict (toSafeA a)) .nil)) } := by
  have hfree : yamlSafe (.seq .list (.cons (.dict (.cons siftTypeKey st .nil)) (.cons (.dict (toSafeA a)) .nil))) = true := by
    simp [yamlSafeL, yamlSafe, yamlSafeA, hst, yamlSafeA_toSafeA a hpl]
  simp [toYamlText, yamlSafeDocs, bind, Except.bind, pure, Except.pure, fromYamlStreamLegacy, hC.load_dump _ hfree]

/-- D38 (before the repair): numpy scalars were left in the written documents; PyYAML dumps them with
    `python/object/apply:numpy…` tags which its FullLoader refuses, so — with the codec that refuses
    exactly the trees outside `yamlSafe` (validated against the real PyYAML by the harness, stream
    `yaml_codec`) — a configuration edited with `cfg['max_imfs'] = np.int64(3)` could be written by
    both routes and read back by neither. -/
theorem numpy_scalar_not_loadable_before_fix :
    ∃ a : Assoc, plainA a = true ∧
      (toYamlTextV1 idealCodec { siftType := defaultName, store := .dict a } >>= fromYamlStream idealCodec)
        = .error .constructorError ∧
      (toYamlFileV1 idealCodec { siftType := defaultName, store := .dict a } >>= fromYamlFile idealCodec)
        = .error .constructorError ∧
      -- … and the repaired conversion reads back the Python scalar of the same value
      (toYamlText idealCodec { siftType := defaultName, store := .dict a } >>= fromYamlStream idealCodec)
        = .ok { siftType := defaultName, store := .dict (.cons (k "max_imfs") (.scalar (.int 3)) .nil) } :=
  ⟨.cons (k "max_imfs") (.scalar (.npint (k "int64") 3)) .nil, by decide, rfl, rfl, rfl⟩

/-! ### object sharing: the model's no-aliasing assumption, made explicit

The property's clauses are about a configuration and what is read from it *at that time*; the `Tree`
model represents `get_func()`'s partial by the VALUE of the store when it was taken (`getFunc`).  The
real partial shares the nested option dicts with the live configuration.  Judged outside C18 (the
text promises a callable that behaves like the original call, not one that is frozen against later
edits of the configuration it came from; upstream documents `get_func` as "a partial-function coded
with the options from this config"); recorded here and observed on the real code by the harness. -/

open Alias in
/-- A partial (or `SiftConfig(name, **cfg)` / `dict(cfg)` copy) taken from a configuration and then
    left alone denotes exactly the configuration's options — the case the `Tree` model covers. -/
theorem alias_copy_denotes_same_options (h : Heap) (top : Top) :
    resolve h (shallowCopy top) = resolve h top := rfl

open Alias in
/-- A later ONE-level edit of the configuration never reaches the partial: it rebinds an entry of the
    configuration's own top-level dict; the partial's keyword dict and the heap are what they were. -/
theorem alias_top_level_edit_not_seen (h : Heap) (top : Top) (key : Key) (v : Tree) :
    let partialKw := shallowCopy top
    let _cfgAfter := setTop top key v
    resolve h partialKw = resolve h top := rfl

open Alias in
/-- A later NESTED edit (`cfg['parent/key'] = v`) always reaches it: the partial's `parent` entry is the
    same dict object, which now holds `key ↦ v`. -/
theorem alias_nested_edit_is_seen (h : Heap) (top : Top) (parent key : Key) (addr : Nat) (v : Tree)
    (hp : slotOf top parent = some (.ref addr)) :
    (resolve (setNested h addr key v) (shallowCopy top)).lookup parent = some (.dict ((h addr).insert key v)) := by
  unfold shallowCopy
  induction top with
  | nil => simp [slotOf] at hp
  | cons e r ih =>
    obtain ⟨k', s⟩ := e
    by_cases hk : k' = parent
    · simp [slotOf, hk] at hp
      subst hp
      simp [resolve, Assoc.lookup, hk, resolveSlot, setNested]
    · simp [slotOf, hk] at hp
      simp [resolve, Assoc.lookup, hk, ih hp]

open Alias in
/-- Concrete witness (checked against the real code, stream `aliasing`): `f = cfg.get_func()`, then
    `cfg['max_imfs'] = 1` is NOT seen by `f`, `cfg['imf_opts/sd_thresh'] = 5.0` IS. -/
theorem get_func_shares_nested_dicts_current :
    ∃ (h : Heap) (top : Top) (v : Tree),
      (resolve h (shallowCopy top)).lookup (k "max_imfs") = (resolve h top).lookup (k "max_imfs") ∧
      (resolve h (setTop top (k "max_imfs") v)).lookup (k "max_imfs") ≠ (resolve h (shallowCopy top)).lookup (k "max_imfs") ∧
      (resolve (setNested h 0 (k "sd_thresh") v) (shallowCopy top)).lookup (k "imf_opts") ≠
        (resolve h (shallowCopy top)).lookup (k "imf_opts") :=
  ⟨fun _ => .cons (k "sd_thresh") (.scalar (.int 0)) .nil,
   [(k "max_imfs", .val Tree.none), (k "imf_opts", .ref 0)], .scalar (.int 5), rfl,
   by simp [resolve, shallowCopy, setTop, resolveSlot, Assoc.lookup, Tree.none],
   by
    have e : (k "max_imfs" = k "imf_opts") = False := by decide
    simp [resolve, shallowCopy, setNested, resolveSlot, Assoc.lookup, Assoc.insert, e]⟩

/-! ### default configurations -/

/-- `get_config(name)` holds exactly the signature defaults: every top-level parameter of the
    variant (other than `X` and the three option dictionaries) with its default, and the three
    stage dictionaries built from the signatures of `get_next_imf`, `interp_envelope` and
    `get_padded_extrema` (plus the two spelled-out `np.pad` option dictionaries). -/
theorem default_config_is_signature_defaults (S : Sigs) (name : Key) (sig : Assoc) (c : Cfg)
    (hv : S.variant name = some sig) (hsf : ∀ p ∈ sig.keys, '/' ∉ p)
    (h : getConfig S name = .ok c) :
    c.siftType = .scalar (.str name) ∧
    cfgGet c.store (k "imf_opts") = .ok (.dict (functionOpts gniIgnore S.gni)) ∧
    cfgGet c.store (k "envelope_opts") = .ok (.dict (functionOpts ieIgnore S.ie)) ∧
    cfgGet c.store (k "extrema_opts") =
      .ok (.dict (((functionOpts gpeIgnore S.gpe).insert (k "mag_pad_opts") magPadOpts).insert (k "loc_pad_opts") locPadOpts)) ∧
    ∀ (p : Key) (d : Tree), '/' ∉ p → p ∉ variantIgnore → p ≠ k "imf_opts" → p ≠ k "envelope_opts" →
      p ≠ k "extrema_opts" → sig.lookup p = some d → cfgGet c.store p = .ok d := by
  unfold getConfig at h
  simp only [] at h
  split at h
  · rw [hv] at h
    simp only [] at h
    have hkeys : ∀ p ∈ (functionOpts variantIgnore sig).keys, '/' ∉ p :=
      fun p hp => hsf p (keys_functionOpts_sub sig variantIgnore p hp).1
    rw [assignAll_dict _ _ hkeys] at h
    have e1 : keyTransform (k "imf_opts") = .ok [k "imf_opts"] := by rfl
    have e2 : keyTransform (k "envelope_opts") = .ok [k "envelope_opts"] := by rfl
    have e3 : keyTransform (k "extrema_opts") = .ok [k "extrema_opts"] := by rfl
    have e4 : keyTransform (k "extrema_opts/mag_pad_opts") = .ok [k "extrema_opts", k "mag_pad_opts"] := by rfl
    have e5 : keyTransform (k "extrema_opts/loc_pad_opts") = .ok [k "extrema_opts", k "loc_pad_opts"] := by rfl
    have n12 : k "imf_opts" ≠ k "envelope_opts" := by decide
    have n13 : k "imf_opts" ≠ k "extrema_opts" := by decide
    have n23 : k "envelope_opts" ≠ k "extrema_opts" := by decide
    simp [cfgSet, e1, e2, e3, e4, e5, bind, Except.bind, pure, Except.pure,
      Assoc.lookup_insert_same] at h
    subst h
    refine ⟨rfl, ?_, ?_, ?_, ?_⟩
    · simp [cfgGet, e1, bind, Except.bind, Assoc.lookup_insert_same,
        Assoc.lookup_insert_other _ _ _ n12, Assoc.lookup_insert_other _ _ _ n13]
    · simp [cfgGet, e2, bind, Except.bind, Assoc.lookup_insert_same,
        Assoc.lookup_insert_other _ _ _ n23]
    · simp [cfgGet, e3, bind, Except.bind, Assoc.lookup_insert_same]
    · intro p d hp hign h1 h2 h3 hl
      have hk : keyTransform p = .ok [p] := keyTransform_noSlash p hp
      simp [cfgGet, hk, bind, Except.bind,
        Assoc.lookup_insert_other _ _ _ h1, Assoc.lookup_insert_other _ _ _ h2, Assoc.lookup_insert_other _ _ _ h3,
        lookup_assignA _ _ _ (nodup_functionOpts sig variantIgnore), lookup_functionOpts, hign, hl]
  · cases h

/-! ### the statements are not vacuous -/

section Examples

def cfg0 : Tree :=
  .dict (.cons (k "max_imfs") Tree.none
        (.cons (k "imf_opts") (.dict (.cons (k "sd_thresh") (.scalar (.num (1/10)))
                               (.cons (k "rilling_thresh") (.seq .tuple (.cons (.scalar (.int 1)) .nil)) .nil)))
        (.cons (k "extrema_opts") (.dict (.cons (k "loc_pad_opts") (.dict (.cons (k "mode") (Tree.str "reflect") .nil)) .nil))
         .nil)))

example : SlashFree [k "extrema_opts", k "loc_pad_opts", k "mode"] := by
  intro s hs; simp at hs; rcases hs with rfl | rfl | rfl <;> decide

example : joinSlash [k "extrema_opts", k "loc_pad_opts", k "mode"] = k "extrema_opts/loc_pad_opts/mode" := by decide

-- a depth-3 write succeeds and is read back; a depth-2 sibling is untouched
example : ∃ s, cfgSet cfg0 (k "extrema_opts/loc_pad_opts/mode") (Tree.str "edge") = .ok s ∧
    cfgGet s (k "extrema_opts/loc_pad_opts/mode") = .ok (Tree.str "edge") ∧
    cfgGet s (k "imf_opts/sd_thresh") = .ok (.scalar (.num (1/10))) := ⟨_, rfl, rfl, rfl⟩

example : Unrelated [k "extrema_opts", k "loc_pad_opts", k "mode"] [k "imf_opts", k "sd_thresh"] := by
  constructor <;> intro h <;> rw [List.cons_prefix_cons] at h <;> exact absurd h.1 (by decide)

-- missing parent: KeyError, nothing created;  scalar parent: TypeError;  too deep: ValueError
example : cfgSet cfg0 (k "nope/x") Tree.none = .error .keyError := rfl
example : cfgSet cfg0 (k "max_imfs/x") Tree.none = .error .typeError := rfl
example : cfgGet cfg0 (k "a/b/c/d") = .error .valueError := rfl

-- a successful nested delete keeps the parent
example : ∃ s, cfgDel cfg0 (k "imf_opts/sd_thresh") = .ok s ∧
    cfgGet s (k "imf_opts") = .ok (.dict (.cons (k "rilling_thresh") (.seq .tuple (.cons (.scalar (.int 1)) .nil)) .nil)) :=
  ⟨_, rfl, rfl⟩

-- the ideal codec of the driver satisfies the codec law, so `roundtrip_file/text` have a model
theorem idealCodec_lawful : idealCodec.Lawful :=
  ⟨fun t h => by simp [idealCodec, h], fun ts h => by simp [idealCodec, h]⟩

/-- a configuration edited with numpy scalars: `cfg['imf_opts/sd_thresh'] = np.float64(0.1)`,
    `cfg['max_imfs'] = np.int64(3)`, `cfg['imf_opts/rilling_thresh'] = (np.float32(0.5), [np.bool_(True)])` -/
def cfgNp : Assoc :=
  .cons (k "max_imfs") (.scalar (.npint (k "int64") 3))
  (.cons (k "imf_opts") (.dict (.cons (k "sd_thresh") (.scalar (.npnum (k "float64") (1/10)))
                         (.cons (k "rilling_thresh") (.seq .tuple (.cons (.scalar (.npnum (k "float32") (1/2)))
                            (.cons (.seq .list (.cons (.scalar (.npbool true)) .nil)) .nil))) .nil))) .nil)

example : plainA cfgNp = true := by decide
example : yamlSafeA cfgNp = false := by decide

/-- the repaired conversion: Python scalars of the same values, the nested tuple a list -/
example : toSafeA cfgNp =
    .cons (k "max_imfs") (.scalar (.int 3))
    (.cons (k "imf_opts") (.dict (.cons (k "sd_thresh") (.scalar (.num (1/10)))
                           (.cons (k "rilling_thresh") (.seq .list (.cons (.scalar (.num (1/2)))
                              (.cons (.seq .list (.cons (.scalar (.bool true)) .nil)) .nil))) .nil))) .nil) := rfl

example : plain cfg0 = true := by decide
example : strOk cfg0 = true := by decide

end Examples

/-! ### Link to the option-resolution model (C06)

`EmdModel/Options.lean` carries its own tables of signature defaults (`gniSig`, `ieSig`, `gpeSig`,
`siftSig`, `ensSig`, `maskSig`) and of the literals written inside the functions (`gpeLocLiteral`,
`gpeMagLiteral`); `Options.modelSigs` hands them to `getConfig` as the live signatures.  With those
signatures the default configuration holds exactly the values that argument binding falls back to
when nothing is supplied (`Options.resolve sig .nil`), so `variant(X, **get_config(name))` and
`variant(X)` resolve to the same effective options (the property C06 then proves for every user
edit, `C06.route_independent`).  Helper lemmas: Proofs/Lemmas/ComposeDefaults.lean. -/
theorem default_config_agrees_with_option_model (v : Options.Variant)
    (hv : v = .sift ∨ v = .ensemble ∨ v = .complete ∨ v = .mask) :
    ∃ c sig, getConfig Options.modelSigs v.name.toList = .ok c ∧
      Options.modelSigs.variant v.name.toList = some sig ∧
      -- top level: every stored default is what binding the variant's signature yields
      (∀ p d, sig.lookup p = some d → (Options.resolve sig .nil).lookup p = some d) ∧
      -- the three stage dictionaries, entry by entry
      (∃ io, cfgGet c.store (k "imf_opts") = .ok (.dict io) ∧
        ∀ p d, io.lookup p = some d → (Options.resolve Options.gniSig .nil).lookup p = some d) ∧
      (∃ eo, cfgGet c.store (k "envelope_opts") = .ok (.dict eo) ∧
        ∀ p d, eo.lookup p = some d → (Options.resolve Options.ieSig .nil).lookup p = some d) ∧
      (∃ xo, cfgGet c.store (k "extrema_opts") = .ok (.dict xo) ∧
        ∀ p e, xo.lookup p = some e → ∃ d, (Options.resolve Options.gpeSig .nil).lookup p = some d ∧
          Options.effVal p e = Options.effVal p d) ∧
      -- the two spelled-out pad dictionaries are the fallback literals of `get_padded_extrema`
      cfgGet c.store (k "extrema_opts/loc_pad_opts") = .ok Options.gpeLocLiteral ∧
      cfgGet c.store (k "extrema_opts/mag_pad_opts") = .ok Options.gpeMagLiteral := by
  obtain ⟨c, hc, _, h1, h2, h3, h4, h5⟩ := ComposeDefaults.getConfig_modelSigs v hv
  obtain ⟨sig, hs, htop⟩ := ComposeDefaults.top_defaults v hv
  exact ⟨c, sig, hc, hs, htop, ⟨_, h1, fun _ _ h => ComposeDefaults.imf_defaults h⟩,
    ⟨_, h2, fun _ _ h => ComposeDefaults.env_defaults h⟩, ⟨_, h3, fun _ _ h => ComposeDefaults.ext_defaults h⟩, h4, h5⟩

end C18
