/- Helper lemmas: scipy's linear interp1d model and np.digitize model (EmdModel.CycleStats). -/
import Proofs.Lemmas.CycleStats

namespace CycleStats
open Maps

/-! ### sorting points that are already in order -/

theorem sortPts_of_sorted (l : List (Rat × Rat)) (h : l.Pairwise fun p q => p.1 < q.1) :
    sortPts l = l := by
  induction l with
  | nil => rfl
  | cons p t ih =>
    have ht := (List.pairwise_cons.mp h).2
    have hp := (List.pairwise_cons.mp h).1
    unfold sortPts at ih ⊢
    simp only [List.foldr_cons, ih ht]
    cases t with
    | nil => rfl
    | cons q t' =>
      have : p.1 < q.1 := hp q (by simp)
      unfold insertPt
      rw [if_pos (by grind)]

/-! ### the straight line through the two bracketing points -/

theorem line_through (a b l h t : Rat) (hne : h ≠ l) :
    ((a * h + b) - (a * l + b)) / (h - l) * (t - l) + (a * l + b) = a * t + b := by
  have hd : h - l ≠ 0 := by grind
  have : ((a * h + b) - (a * l + b)) / (h - l) = a := by
    have : (a * h + b) - (a * l + b) = a * (h - l) := by grind
    rw [this, Rat.mul_comm, Rat.div_def, Rat.mul_assoc, Rat.mul_comm a, ← Rat.mul_assoc,
      Rat.mul_inv_cancel _ hd, Rat.one_mul]
  rw [this]; grind

theorem linInterp_of_affine (pts : List (Rat × Rat)) (a b t : Rat)
    (hs : pts.Pairwise fun p q => p.1 < q.1) (hn : 2 ≤ pts.length)
    (hy : ∀ p ∈ pts, p.2 = a * p.1 + b) : linInterp pts t = some (a * t + b) := by
  unfold linInterp
  rw [if_neg (by omega)]
  simp only []
  generalize hidx : min (max (searchLeft pts t) 1) (pts.length - 1) = idx
  have h1 : 1 ≤ idx := by omega
  have h2 : idx < pts.length := by omega
  have h3 : idx - 1 < pts.length := by omega
  rw [List.getElem?_eq_getElem h3, List.getElem?_eq_getElem h2]
  simp only []
  have hlt : pts[idx - 1].1 < pts[idx].1 :=
    List.pairwise_iff_getElem.mp hs (idx - 1) idx h3 h2 (by omega)
  have hne : pts[idx].1 ≠ pts[idx - 1].1 := by grind
  rw [if_neg hne, hy _ (List.getElem_mem h3), hy _ (List.getElem_mem h2)]
  rw [line_through a b _ _ t hne]

/-! ### np.digitize on increasing edges -/

theorem countP_le_of_sorted (edges : List Rat) (v : Rat) (hs : edges.Pairwise (· < ·)) :
    ∀ (i : Nat) (hi : i < edges.length), i < edges.countP (· ≤ v) ↔ edges[i] ≤ v := by
  induction edges with
  | nil => intro i hi; simp at hi
  | cons e t ih =>
    have ht := (List.pairwise_cons.mp hs).2
    have he := (List.pairwise_cons.mp hs).1
    intro i hi
    by_cases hev : e ≤ v
    · simp only [List.countP_cons, hev, decide_true, if_true]
      cases i with
      | zero => simp [hev]
      | succ i =>
        simp only [List.getElem_cons_succ]
        have := ih ht i (by simpa using hi)
        rw [← this]; omega
    · have hall : ∀ x ∈ t, ¬ x ≤ v := by
        intro x hx; have := he x hx; grind
      have hz : t.countP (· ≤ v) = 0 := by
        apply List.countP_eq_zero.mpr
        intro x hx; simpa using hall x hx
      simp only [List.countP_cons, hev, decide_false, hz]
      cases i with
      | zero => simp [hev]
      | succ i =>
        have hi' : i < t.length := by simpa using hi
        simp only [List.getElem_cons_succ]
        have : ¬ t[i] ≤ v := hall _ (List.getElem_mem hi')
        simp [this]

theorem digitize_eq_iff (edges : List Rat) (v : Rat) (hs : edges.Pairwise (· < ·)) (b : Nat)
    (hb : b + 1 < edges.length) :
    digitize edges v = b + 1 ↔ edges[b] ≤ v ∧ v < edges[b + 1] := by
  unfold digitize
  have h1 := countP_le_of_sorted edges v hs b (by omega)
  have h2 := countP_le_of_sorted edges v hs (b + 1) hb
  have hmono : edges[b] < edges[b + 1] := List.pairwise_iff_getElem.mp hs b (b + 1) (by omega) hb (by omega)
  constructor
  · intro h
    refine ⟨h1.mp (by omega), ?_⟩
    have : ¬ edges[b + 1] ≤ v := fun hle => by have := h2.mpr hle; omega
    grind
  · rintro ⟨hle, hlt⟩
    have ha := h1.mpr hle
    have hb' : ¬ (b + 1 < edges.countP (· ≤ v)) := fun hc => by have := h2.mp hc; grind
    have hle' : edges.countP (· ≤ v) ≤ edges.length := List.countP_le_length
    -- count is at least b+1 and not above b+1
    omega

theorem mean?_of_ne_nil (l : List Rat) (h : l ≠ []) : mean? l = some (Sig.sum l / l.length) := by
  unfold mean?
  cases l with
  | nil => exact absurd rfl h
  | cons a t => simp

end CycleStats

namespace CycleStats
open Maps

/-! ### results of a sequenced loop -/

theorem sequence_ok_getElem? {α : Type} (l : List (Except Err α)) (r : List α)
    (h : sequence l = .ok r) :
    r.length = l.length ∧
    ∀ (k : Nat) (e : Except Err α), l[k]? = some e → ∃ a : α, e = Except.ok a ∧ r[k]? = some a := by
  induction l generalizing r with
  | nil =>
    simp [sequence] at h; subst h; simp
  | cons e t ih =>
    cases e with
    | error err => simp [sequence] at h
    | ok a =>
      simp only [sequence] at h
      cases hs : sequence t with
      | error err => simp [hs] at h
      | ok r' =>
        simp [hs] at h; subst h
        obtain ⟨hl, hk⟩ := ih r' hs
        refine ⟨by simp [hl], ?_⟩
        intro k e he
        cases k with
        | zero => simp at he; subst he; exact ⟨a, rfl, by simp⟩
        | succ k => simpa using hk k e (by simpa using he)

/-! ### gathering an affine image -/

theorem gather_affine (ip x : List Rat) (g : Rat → Rat) (inds : List Nat)
    (h : ∀ i ∈ inds, ∃ p, ip[i]? = some p ∧ x[i]? = some (g p)) :
    gather x inds = (gather ip inds).map g ∧ (gather ip inds).length = inds.length := by
  induction inds with
  | nil => simp [gather]
  | cons i t ih =>
    obtain ⟨p, h1, h2⟩ := h i (by simp)
    obtain ⟨e1, e2⟩ := ih (fun j hj => h j (List.mem_cons_of_mem _ hj))
    unfold gather at e1 e2 ⊢
    simp [h1, h2, e1, e2]

theorem zip_map_self (l : List Rat) (g : Rat → Rat) : l.zip (l.map g) = l.map fun p => (p, g p) := by
  induction l with
  | nil => rfl
  | cons a t ih => simp [ih]

end CycleStats

namespace CycleStats
open Maps

/-! ### when the per-cycle loop of phase_align returns -/

theorem gather_length_of_lt {α : Type} (vals : List α) (inds : List Nat) (h : ∀ i ∈ inds, i < vals.length) :
    (gather vals inds).length = inds.length := by
  induction inds with
  | nil => simp [gather]
  | cons i t ih =>
    have hi : i < vals.length := h i (by simp)
    have := ih (fun j hj => h j (List.mem_cons_of_mem _ hj))
    unfold gather at this ⊢
    simp [List.getElem?_eq_getElem hi, this]

theorem insertPt_length (p : Rat × Rat) (l : List (Rat × Rat)) : (insertPt p l).length = l.length + 1 := by
  induction l with
  | nil => simp [insertPt]
  | cons q t ih => by_cases h : p.1 ≤ q.1 <;> simp [insertPt, h, ih]

theorem sortPts_length (l : List (Rat × Rat)) : (sortPts l).length = l.length := by
  induction l with
  | nil => simp [sortPts]
  | cons p t ih =>
    have : sortPts (p :: t) = insertPt p (sortPts t) := by simp [sortPts]
    rw [this, insertPt_length, ih]; simp

/-- one column: rejected (ValueError from interp1d) exactly when the cycle has no sample; the result
    has one entry per phase bin otherwise -/
theorem alignCycle_cases (ip x : List Rat) (inds : List Nat) (bins : List Rat)
    (h1 : ∀ i ∈ inds, i < ip.length) (h2 : ∀ i ∈ inds, i < x.length) :
    (inds = [] → alignCycle ip x inds bins = .error .valueError) ∧
    (inds ≠ [] → ∃ col, alignCycle ip x inds bins = .ok col ∧ col.length = bins.length) := by
  have hlen : (sortPts ((gather ip inds).zip (gather x inds))).length = inds.length := by
    rw [sortPts_length, List.length_zip, gather_length_of_lt ip inds h1, gather_length_of_lt x inds h2]; simp
  constructor
  · intro he
    subst he
    simp [alignCycle, gather, sortPts]
  · intro hne
    have hpos : 0 < inds.length := List.length_pos_iff.mpr hne
    have hnotEmpty : (sortPts ((gather ip inds).zip (gather x inds))).isEmpty = false := by
      cases hs : sortPts ((gather ip inds).zip (gather x inds)) with
      | nil => rw [hs] at hlen; simp at hlen; omega
      | cons _ _ => simp
    refine ⟨bins.map (linInterp (sortPts ((gather ip inds).zip (gather x inds)))), ?_, by simp⟩
    unfold alignCycle
    simp only [hnotEmpty]
    simp

theorem sequence_all_ok {α : Type} (l : List (Except Err α)) (h : ∀ e ∈ l, ∃ a, e = Except.ok a) :
    ∃ r, sequence l = .ok r := by
  induction l with
  | nil => exact ⟨[], rfl⟩
  | cons e t ih =>
    obtain ⟨a, rfl⟩ := h e (by simp)
    obtain ⟨r, hr⟩ := ih (fun e' he' => h e' (List.mem_cons_of_mem _ he'))
    exact ⟨a :: r, by simp [sequence, hr]⟩

/-- when every failing step fails with the same error `err`, so does the loop -/
theorem sequence_error {α : Type} (l : List (Except Err α)) (err : Err)
    (h : ∀ e ∈ l, (∃ a, e = Except.ok a) ∨ e = .error err) (hex : ∃ e ∈ l, e = Except.error err) :
    sequence l = .error err := by
  induction l with
  | nil => obtain ⟨_, he, _⟩ := hex; simp at he
  | cons e t ih =>
    rcases h e (by simp) with ⟨a, rfl⟩ | rfl
    · have hex' : ∃ e' ∈ t, e' = Except.error err := by
        obtain ⟨e', he', rfl⟩ := hex
        simp at he'
        exact ⟨_, he', rfl⟩
      have := ih (fun e' he' => h e' (List.mem_cons_of_mem _ he')) hex'
      simp [sequence, this]
    · simp [sequence]

end CycleStats
