/- Helper lemmas about EmdModel.Mask (get_next_imf_mask, ladder, mask_sift loop). -/
import EmdModel.Mask
import Proofs.Lemmas.EnsemblePool
import Proofs.Lemmas.MaskSig

namespace Mask
open Pool

/-- the phase-average rule, written out -/
def phaseAverage (X : Sig → Sig × Bool) (mask : Nat → Sig) (p : Nat) (x : Sig) : Sig :=
  Ensemble.meanOver x.length ((List.range p).map fun i => Sig.sub (X (Sig.add x (mask i))).1 (mask i))

theorem zipWith_map_range {γ δ ε : Type} (f : γ → δ → ε) (g : Nat → γ) (h : Nat → δ) (p : Nat) :
    List.zipWith f ((List.range p).map g) ((List.range p).map h) = (List.range p).map fun i => f (g i) (h i) := by
  rw [List.zipWith_map_left, List.zipWith_map_right, List.zipWith_self]

theorem getNextImfMaskPool_eq (σ : Schedule) (nproc : Nat) (X : Sig → Sig × Bool) (mask : Nat → Sig) (p : Nat)
    (x : Sig) (hσ : σ.Valid p nproc) :
    getNextImfMaskPool σ X mask p x
      = (phaseAverage X mask p x, (List.range p).any fun i => (X (Sig.add x (mask i))).2) := by
  unfold getNextImfMaskPool phaseAverage
  simp only []
  rw [runPool_eq_map σ p nproc X _ (by simp) hσ]
  simp only [List.map_map]
  congr 1
  · congr 1
    exact zipWith_map_range Sig.sub (fun i => (X (Sig.add x (mask i))).1) mask p
  · simp [List.any_map, Function.comp_def]

theorem getNextImfMask_eq (X : Sig → Sig × Bool) (mask : Nat → Sig) (p : Nat) (x : Sig) :
    getNextImfMask X mask p x
      = (phaseAverage X mask p x, (List.range p).any fun i => (X (Sig.add x (mask i))).2) :=
  getNextImfMaskPool_eq _ 1 X mask p x (roundRobin_valid p 1 (by omega))

theorem any_range_const (p : Nat) (hp : 0 < p) (b : Bool) : ((List.range p).any fun _ => b) = b := by
  cases p with
  | zero => omega
  | succ k =>
    cases b with
    | false => simp
    | true => simp [List.range_succ]

/-- zero-amplitude masks: the phase average of `p ≥ 1` identical unmasked extractions -/
theorem phaseAverage_zero_masks (X : Sig → Sig × Bool) (u : Nat → Sig) (p : Nat) (x : Sig) (hp : 0 < p)
    (hu : ∀ i, i < p → (u i).length = x.length) (hX : (X x).1.length = x.length) :
    phaseAverage X (fun i => Sig.smul 0 (u i)) p x = (X x).1 := by
  unfold phaseAverage
  have hmap : ((List.range p).map fun i => Sig.sub (X (Sig.add x (Sig.smul 0 (u i)))).1 (Sig.smul 0 (u i)))
      = List.replicate p (X x).1 := by
    rw [List.eq_replicate_iff]
    refine ⟨by simp, ?_⟩
    intro c hc
    obtain ⟨i, hi, rfl⟩ := List.mem_map.mp hc
    have hi' := List.mem_range.mp hi
    rw [Sig.smul_zero_eq, hu i hi', Sig.add_zeros, ← hX, Sig.sub_zeros]
  rw [hmap]
  exact Ensemble.meanOver_replicate x.length p (X x).1 hp hX

/-! ### ladder -/

theorem maskFreqs_first (z s : Rat) (cap : Nat) :
    (maskFreqs (.first z s) cap).1.length = cap ∧ (maskFreqs (.first z s) cap).2 = cap ∧
    ∀ k, k < cap → (maskFreqs (.first z s) cap).1[k]? = some (z / s ^ k) := by
  refine ⟨by simp [maskFreqs], rfl, ?_⟩
  intro k hk
  simp [maskFreqs, hk]

theorem maskFreqs_list (fs : List Rat) (cap : Nat) :
    (maskFreqs (.list fs) cap).1 = fs ∧ (maskFreqs (.list fs) cap).2 = min cap fs.length := by
  refine ⟨rfl, ?_⟩
  simp only [maskFreqs]
  split <;> omega

/-! ### the mask_sift loop -/

/-- what layer `k` computes, given the columns before it -/
def layerOf (X : Sig → Sig × Bool) (unit : Rat → Nat → Nat → Sig) (std : Sig → Rat) (cfg : Cfg) (x : Sig)
    (prev : List Sig) (f a : Rat) : Sig × Bool :=
  getNextImfMask X (layerMask unit f (a * sdFor std cfg.mode x prev.getLast?) cfg.p) cfg.p
    (Sig.sub x (Sig.vsum x.length prev))

theorem maskSiftLoop_sched (σ : Nat → Schedule) (nproc : Nat) (X : Sig → Sig × Bool) (unit : Rat → Nat → Nat → Sig)
    (std : Sig → Rat) (cfg : Cfg) (cap : Nat) (x : Sig) (hσ : ∀ k, (σ k).Valid cfg.p nproc)
    (k : Nat) (cols : List Sig) (fr : List Rat) :
    maskSiftLoop σ X unit std cfg cap x k cols fr
      = maskSiftLoop (fun _ => Schedule.roundRobin cfg.p 1) X unit std cfg cap x k cols fr := by
  induction fr generalizing k cols with
  | nil => simp [maskSiftLoop]
  | cons f rest ih =>
    unfold maskSiftLoop
    have e : ∀ m y, getNextImfMaskPool (σ k) X m cfg.p y = getNextImfMaskPool (Schedule.roundRobin cfg.p 1) X m cfg.p y := by
      intro m y
      rw [getNextImfMaskPool_eq (σ k) nproc X m cfg.p y (hσ k),
        getNextImfMaskPool_eq _ 1 X m cfg.p y (roundRobin_valid cfg.p 1 (by omega))]
    simp only [e, ih]

theorem maskSiftLoop_spec (X : Sig → Sig × Bool) (unit : Rat → Nat → Nat → Sig) (std : Sig → Rat) (cfg : Cfg)
    (cap : Nat) (x : Sig) (k : Nat) (cols0 : List Sig) (fr : List Rat) (out : List Sig) (hk : cols0.length = k)
    (h : maskSiftLoop (fun _ => Schedule.roundRobin cfg.p 1) X unit std cfg cap x k cols0 fr = .ok out) :
    ∃ new, out = cols0 ++ new ∧ 0 < new.length ∧ new.length ≤ fr.length ∧ cfg.p ≠ 0 ∧
      ∀ j, j < new.length → ∃ a f, ampAt cfg.amp (k + j) = some a ∧ fr[j]? = some f ∧
        out[k + j]? = some (layerOf X unit std cfg x (out.take (k + j)) f a).1 := by
  induction fr generalizing k cols0 with
  | nil => simp [maskSiftLoop] at h
  | cons f rest ih =>
    unfold maskSiftLoop at h
    cases ha : ampAt cfg.amp k with
    | none => simp [ha] at h
    | some a =>
      simp only [ha] at h
      by_cases hp : cfg.p = 0
      · simp [hp] at h
      · simp only [hp, if_false] at h
        have hlayer : getNextImfMaskPool (Schedule.roundRobin cfg.p 1) X
            (layerMask unit f (a * sdFor std cfg.mode x cols0.getLast?) cfg.p) cfg.p
            (Sig.sub x (Sig.vsum x.length cols0)) = layerOf X unit std cfg x cols0 f a := rfl
        rw [hlayer] at h
        generalize hr : layerOf X unit std cfg x cols0 f a = r at h
        split at h
        · obtain ⟨new', h1, h2, h3, h4, h5⟩ := ih (k + 1) (cols0 ++ [r.1]) (by simp [hk]) h
          refine ⟨r.1 :: new', by simp [h1], by simp, by simp; omega, hp, ?_⟩
          intro j hj
          cases j with
          | zero =>
            refine ⟨a, f, by simpa using ha, by simp, ?_⟩
            subst hk
            simp [h1, hr]
          | succ j =>
            obtain ⟨a', f', e1, e2, e3⟩ := h5 j (by simpa using hj)
            refine ⟨a', f', ?_, by simpa using e2, ?_⟩
            · rw [← e1]; congr 1; omega
            · have : k + (j + 1) = k + 1 + j := by omega
              rw [this]; exact e3
        · injection h with h
          subst h
          refine ⟨[r.1], rfl, by simp, by simp, hp, ?_⟩
          intro j hj
          have : j = 0 := by simpa using hj
          subst this
          refine ⟨a, f, by simpa using ha, by simp, ?_⟩
          subst hk
          simp [hr]

theorem maskSiftLoop_le_cap (X : Sig → Sig × Bool) (unit : Rat → Nat → Nat → Sig) (std : Sig → Rat) (cfg : Cfg)
    (cap : Nat) (x : Sig) (k : Nat) (cols0 : List Sig) (fr : List Rat) (out : List Sig) (hk : cols0.length = k)
    (hcap : k < cap)
    (h : maskSiftLoop (fun _ => Schedule.roundRobin cfg.p 1) X unit std cfg cap x k cols0 fr = .ok out) :
    out.length ≤ cap := by
  induction fr generalizing k cols0 with
  | nil => simp [maskSiftLoop] at h
  | cons f rest ih =>
    unfold maskSiftLoop at h
    cases ha : ampAt cfg.amp k with
    | none => simp [ha] at h
    | some a =>
      simp only [ha] at h
      by_cases hp : cfg.p = 0
      · simp [hp] at h
      · simp only [hp, if_false] at h
        split at h
        · rename_i hc
          have hne : k + 1 ≠ cap := by
            intro e
            simp [e] at hc
          exact ih (k + 1) _ (by simp [hk]) (by omega) h
        · injection h with h
          subst h
          simp [hk]; omega

/-! ### the documented waveform -/

theorem unitOf_length (cosTurn : Rat → Rat) (n : Nat) (f : Rat) (p i : Nat) : (unitOf cosTurn n f p i).length = n := by
  simp [unitOf]

theorem waveMask_length (cosTurn : Rat → Rat) (n : Nat) (z amp : Rat) (p i : Nat) :
    (waveMask cosTurn n z amp p i).length = n := by
  simp [waveMask, Sig.smul, unitOf]

theorem sval_unitOf (cosTurn : Rat → Rat) (n : Nat) (f : Rat) (p i t : Nat) (ht : t < n) :
    Sig.sval (unitOf cosTurn n f p i) t = cosTurn (f * (t : Rat) + maskPhase p i) := by
  simp [Sig.sval, unitOf, ht]

theorem sval_waveMask (cosTurn : Rat → Rat) (n : Nat) (z amp : Rat) (p i t : Nat) (ht : t < n) :
    Sig.sval (waveMask cosTurn n z amp p i) t = amp * cosTurn (z * (t : Rat) + maskPhase p i) := by
  simp [Sig.sval, waveMask, Sig.smul, unitOf, ht]

/-- the masks `mask_sift` builds for a layer from the unit masks of the waveform are the waveform masks -/
theorem layerMask_unitOf (cosTurn : Rat → Rat) (n : Nat) (f a : Rat) (p i : Nat) :
    layerMask (unitOf cosTurn n) f a p i = waveMask cosTurn n f a p i := rfl

end Mask
