/- Helper lemmas about EmdModel.Phase: wrap, gradient, cumulative sums. -/
import EmdModel.Phase
import Mathlib.Tactic.Ring
import Mathlib.Tactic.Linarith
import Mathlib.Tactic.FieldSimp
import Mathlib.Algebra.Order.Field.Rat

namespace Phase

/-! ### wrap -/

theorem wrap_nonneg {m : Rat} (hm : 0 < m) (x : Rat) : 0 ≤ wrap m x := by
  unfold wrap
  have h := Rat.floor_le (x / m)
  have : ((x / m).floor : Rat) * m ≤ x := (le_div_iff₀ hm).mp h
  linarith

theorem wrap_lt {m : Rat} (hm : 0 < m) (x : Rat) : wrap m x < m := by
  unfold wrap
  have h := Rat.lt_floor_add_one (x / m)
  have h2 : x < (((x / m).floor + 1 : Int) : Rat) * m := (div_lt_iff₀ hm).mp h
  push_cast at h2
  linarith

theorem wrap_add_int_mul {m : Rat} (hm : m ≠ 0) (x : Rat) (k : Int) :
    wrap m (x + k * m) = wrap m x := by
  unfold wrap
  have : (x + k * m) / m = x / m + k := by field_simp
  rw [this, Rat.floor_add_intCast]
  push_cast
  ring

theorem floor_eq_zero {q : Rat} (h0 : 0 ≤ q) (h1 : q < 1) : q.floor = 0 := by
  have a : (0 : Int) ≤ q.floor := Rat.le_floor_iff.mpr (by simpa using h0)
  have b : q.floor < (1 : Int) := Rat.floor_lt_iff.mpr (by simpa using h1)
  omega

theorem wrap_eq_self {m x : Rat} (h0 : 0 ≤ x) (h1 : x < m) : wrap m x = x := by
  unfold wrap
  have hm : 0 < m := lt_of_le_of_lt h0 h1
  have : (x / m).floor = 0 := floor_eq_zero (div_nonneg h0 hm.le) ((div_lt_iff₀ hm).mpr (by simpa using h1))
  rw [this]; simp

/-- `wrap m x` is the unique representative of `x` modulo `m` in `[0, m)` -/
theorem wrap_unique {m x r : Rat} (k : Int) (h0 : 0 ≤ r) (h1 : r < m) (hx : x = r + k * m) :
    wrap m x = r := by
  have hm : m ≠ 0 := ne_of_gt (lt_of_le_of_lt h0 h1)
  rw [hx, wrap_add_int_mul hm, wrap_eq_self h0 h1]

theorem wrap_decomp (m x : Rat) : x = wrap m x + ((x / m).floor : Rat) * m := by
  unfold wrap; ring

/-! ### indexing -/

theorem getR_of_lt {x : List Rat} {i : Nat} (h : i < x.length) : getR x i = x[i] := by
  simp [getR, h]

theorem getR_of_ge {x : List Rat} {i : Nat} (h : x.length ≤ i) : getR x i = 0 := by
  simp [getR, h]

theorem getR_map_of_lt (g : Rat → Rat) {x : List Rat} {i : Nat} (h : i < x.length) :
    getR (x.map g) i = g (getR x i) := by
  simp [getR, h]

theorem getR_map_zero (g : Rat → Rat) (h0 : g 0 = 0) (x : List Rat) (i : Nat) :
    getR (x.map g) i = g (getR x i) := by
  by_cases h : i < x.length
  · exact getR_map_of_lt g h
  · simp [getR, h, h0]

/-! ### gradient -/

@[simp] theorem gradient_length (x : List Rat) : (gradient x).length = x.length := by
  simp [gradient]

theorem gradient_getElem? {x : List Rat} {i : Nat} (h : i < x.length) :
    (gradient x)[i]? = some (gradAt x i) := by
  simp [gradient, h]

theorem getR_gradient {x : List Rat} {i : Nat} (h : i < x.length) :
    getR (gradient x) i = gradAt x i := by
  simp [getR, gradient, h]

/-- the gradient ignores a constant offset -/
theorem gradAt_add_const (c : Rat) {x : List Rat} {i : Nat} (hn : 2 ≤ x.length) (hi : i < x.length) :
    gradAt (x.map fun u => u + c) i = gradAt x i := by
  unfold gradAt
  simp only [List.length_map]
  split
  · rw [getR_map_of_lt _ (by omega : 1 < x.length), getR_map_of_lt _ (by omega : 0 < x.length)]; ring
  · split
    · rw [getR_map_of_lt _ hi, getR_map_of_lt _ (by omega : i - 1 < x.length)]; ring
    · rw [getR_map_of_lt _ (by omega : i + 1 < x.length), getR_map_of_lt _ (by omega : i - 1 < x.length)]; ring

theorem gradient_add_const (c : Rat) {x : List Rat} (hn : 2 ≤ x.length) :
    gradient (x.map fun u => u + c) = gradient x := by
  apply List.ext_getElem?
  intro i
  by_cases hi : i < x.length
  · rw [gradient_getElem? (by simpa using hi), gradient_getElem? hi, gradAt_add_const c hn hi]
  · simp [gradient, hi]

/-- the gradient is homogeneous -/
theorem gradAt_smul (c : Rat) (x : List Rat) (i : Nat) :
    gradAt (x.map fun u => c * u) i = c * gradAt x i := by
  unfold gradAt
  simp only [List.length_map, getR_map_zero (fun u => c * u) (by simp)]
  split
  · ring
  · split <;> ring

/-- a constant series has zero gradient -/
theorem gradAt_replicate (c : Rat) (n i : Nat) (hn : 2 ≤ n) (hi : i < n) :
    gradAt (List.replicate n c) i = 0 := by
  unfold gradAt
  have g : ∀ j, j < n → getR (List.replicate n c) j = c := by
    intro j hj; simp [getR, hj]
  simp only [List.length_replicate]
  split
  · rw [g 1 (by omega), g 0 (by omega)]; ring
  · split
    · rw [g i hi, g (i - 1) (by omega)]; ring
    · rw [g (i + 1) (by omega), g (i - 1) (by omega)]; ring

/-! ### cumulative sum -/

@[simp] theorem cumsumFrom_length (a : Rat) (x : List Rat) : (cumsumFrom a x).length = x.length := by
  induction x generalizing a with
  | nil => rfl
  | cons b t ih => simp [cumsumFrom, ih]

@[simp] theorem cumsum_length (x : List Rat) : (cumsum x).length = x.length := cumsumFrom_length 0 x

theorem getR_cumsumFrom_zero (a : Rat) {x : List Rat} (h : 0 < x.length) :
    getR (cumsumFrom a x) 0 = a + getR x 0 := by
  cases x with
  | nil => simp at h
  | cons b t => simp [cumsumFrom, getR]

/-- consecutive running sums differ by the next term -/
theorem getR_cumsumFrom_succ (a : Rat) {x : List Rat} {i : Nat} (h : i + 1 < x.length) :
    getR (cumsumFrom a x) (i + 1) = getR (cumsumFrom a x) i + getR x (i + 1) := by
  induction x generalizing a i with
  | nil => simp at h
  | cons b t ih =>
    cases i with
    | zero =>
      cases t with
      | nil => simp at h
      | cons c t' => simp [cumsumFrom, getR]
    | succ j =>
      have h' : j + 1 < t.length := by simpa using h
      have := ih (a + b) h'
      simpa [cumsumFrom, getR] using this

/-! ### phase_from_freq followed by freq_from_phase -/

@[simp] theorem freqFromPhase_length (tp sr : Rat) (p : List Rat) :
    (freqFromPhase tp sr p).length = p.length := by simp [freqFromPhase]

@[simp] theorem phaseFromFreq_length (tp sr s : Rat) (f : List Rat) :
    (phaseFromFreq tp sr s f).length = f.length := by simp [phaseFromFreq]

theorem getR_freqFromPhase (tp sr : Rat) {p : List Rat} {i : Nat} (h : i < p.length) :
    getR (freqFromPhase tp sr p) i = gradAt p i / tp * sr := by
  unfold freqFromPhase
  rw [getR_map_of_lt _ (by simpa using h), getR_gradient h]

/-- phase increments of `phaseFromFreq` are the scaled frequencies -/
theorem phaseFromFreq_step (tp sr s : Rat) {f : List Rat} {j : Nat} (h : j + 1 < f.length) :
    getR (phaseFromFreq tp sr s f) (j + 1) - getR (phaseFromFreq tp sr s f) j
      = getR f (j + 1) / sr * tp := by
  unfold phaseFromFreq cumsum
  have hl : (f.map fun v => v / sr * tp).length = f.length := by simp
  rw [getR_map_of_lt _ (by simpa using h), getR_map_of_lt _ (by simp; omega),
    getR_cumsumFrom_succ 0 (by simpa using h), getR_map_of_lt _ h]
  ring

theorem roundtrip_getR_first (tp sr s : Rat) (htp : tp ≠ 0) (hsr : sr ≠ 0) {f : List Rat}
    (hn : 2 ≤ f.length) :
    getR (freqFromPhase tp sr (phaseFromFreq tp sr s f)) 0 = getR f 1 := by
  rw [getR_freqFromPhase _ _ (by simp; omega)]
  unfold gradAt
  simp only [ite_true]
  have := phaseFromFreq_step tp sr s (f := f) (j := 0) (by omega)
  simp only [Nat.zero_add] at this
  rw [this]; field_simp

theorem roundtrip_getR_last (tp sr s : Rat) (htp : tp ≠ 0) (hsr : sr ≠ 0) {f : List Rat}
    {i : Nat} (h1 : 1 ≤ i) (h2 : i + 1 = f.length) :
    getR (freqFromPhase tp sr (phaseFromFreq tp sr s f)) i = getR f i := by
  rw [getR_freqFromPhase _ _ (by simp; omega)]
  unfold gradAt
  have hi0 : ¬ i = 0 := by omega
  simp only [hi0, ite_false, phaseFromFreq_length, h2, ite_true]
  obtain ⟨j, rfl⟩ : ∃ j, i = j + 1 := ⟨i - 1, by omega⟩
  have := phaseFromFreq_step tp sr s (f := f) (j := j) (by omega)
  simp only [Nat.add_sub_cancel]
  rw [this]; field_simp

theorem roundtrip_getR_interior (tp sr s : Rat) (htp : tp ≠ 0) (hsr : sr ≠ 0) {f : List Rat}
    {i : Nat} (h1 : 1 ≤ i) (h2 : i + 1 < f.length) :
    getR (freqFromPhase tp sr (phaseFromFreq tp sr s f)) i = (getR f i + getR f (i + 1)) / 2 := by
  rw [getR_freqFromPhase _ _ (by simp; omega)]
  unfold gradAt
  have hi0 : ¬ i = 0 := by omega
  have hil : ¬ i + 1 = f.length := by omega
  simp only [hi0, ite_false, phaseFromFreq_length, hil]
  obtain ⟨j, rfl⟩ : ∃ j, i = j + 1 := ⟨i - 1, by omega⟩
  have a := phaseFromFreq_step tp sr s (f := f) (j := j) (by omega)
  have b := phaseFromFreq_step tp sr s (f := f) (j := j + 1) (by omega)
  simp only [Nat.add_sub_cancel]
  have : getR (phaseFromFreq tp sr s f) (j + 1 + 1) - getR (phaseFromFreq tp sr s f) j
      = getR f (j + 1 + 1) / sr * tp + getR f (j + 1) / sr * tp := by linarith
  rw [this]; field_simp; ring

end Phase
