/- Helper lemmas about EmdModel.Container: condition parser, matching, the invariant and its
   preservation by every operation, independence from the cache flag. -/
import Proofs.Lemmas.Container

namespace Container

/-! ### condition strings -/

theorem takeWhile_dropWhile_append {α : Type} (p : α → Bool) (a rest : List α) (ha : ∀ x ∈ a, p x = true)
    (hr : ∀ x, rest.head? = some x → p x = false) :
    (a ++ rest).takeWhile p = a ∧ (a ++ rest).dropWhile p = rest := by
  induction a with
  | nil =>
    cases rest with
    | nil => simp
    | cons x t => simp [hr x (by simp)]
  | cons y t ih =>
    have hy := ha y (by simp)
    have := ih (fun x hx => ha x (by simp [hx]))
    simp [hy, this]

theorem sym_cmpChars (c : Cmp) : ∀ ch ∈ c.sym, isCmpChar ch = true := by
  cases c <;> simp [Cmp.sym, isCmpChar]

theorem sym_head (c : Cmp) : ∃ ch t, c.sym = ch :: t ∧ isCmpChar ch = true := by
  cases c <;> simp [Cmp.sym, isCmpChar]

theorem recogniseCmp_sym (c : Cmp) (lit : List Char) (hl : ∀ ch, lit.head? = some ch → isCmpChar ch = false) :
    recogniseCmp (c.sym ++ lit) = some c := by
  cases c
  case lt =>
    cases lit with
    | nil => rfl
    | cons ch t =>
      have h := hl ch (by simp)
      have hne : ch ≠ '=' := by intro e; subst e; simp [isCmpChar] at h
      simp only [Cmp.sym, List.cons_append, List.nil_append]
      unfold recogniseCmp
      split <;> simp_all
  case gt =>
    cases lit with
    | nil => rfl
    | cons ch t =>
      have h := hl ch (by simp)
      have hne : ch ≠ '=' := by intro e; subst e; simp [isCmpChar] at h
      simp only [Cmp.sym, List.cons_append, List.nil_append]
      unfold recogniseCmp
      split <;> simp_all
  all_goals simp [Cmp.sym, recogniseCmp]

theorem parseCondition_print (F : List Char → Option Rat) (name : Name) (c : Cmp) (lit : List Char)
    (hn : ∀ ch ∈ name, isCmpChar ch = false) (hl : ∀ ch, lit.head? = some ch → isCmpChar ch = false) :
    parseCondition F (name ++ c.sym ++ lit) =
      match F lit with
      | some v => .ok (name, c, v)
      | none => .error .value := by
  obtain ⟨ch, t, hs, hch⟩ := sym_head c
  have h1 := takeWhile_dropWhile_append (fun c => !isCmpChar c) name (c.sym ++ lit)
    (by intro x hx; simp [hn x hx]) (by intro x hx; rw [hs] at hx; simp at hx; subst hx; simp [hch])
  have h2 := takeWhile_dropWhile_append isCmpChar c.sym lit (sym_cmpChars c) hl
  unfold parseCondition
  rw [List.append_assoc, h1.1, h1.2]
  simp only []
  rw [recogniseCmp_sym c lit hl, h2.2]
  rw [hs]
  simp only [List.cons_append]
  cases F lit <;> rfl

theorem evalCond_ok_iff (F : List Char → Option Rat) (m : Store) (c : Cond) (col : List Bool) :
    evalCond F m c = .ok col ↔ ∃ name cmp lit mcol, parseCondition F c = .ok (name, cmp, lit) ∧
      sget m name = some mcol ∧ col = mcol.map fun x => cmp.eval x lit := by
  unfold evalCond
  cases hp : parseCondition F c with
  | error e => simp
  | ok r =>
    obtain ⟨name, cmp, lit⟩ := r
    simp only []
    constructor
    · intro h
      cases hg : sget m name with
      | none => rw [hg] at h; cases h
      | some mcol =>
        rw [hg] at h
        simp only [Except.ok.injEq] at h
        exact ⟨name, cmp, lit, mcol, rfl, hg, h.symm⟩
    · rintro ⟨n', c', l', m', h1, h2, h3⟩
      simp only [Except.ok.injEq, Prod.mk.injEq] at h1
      obtain ⟨rfl, rfl, rfl⟩ := h1
      rw [h2, h3]

theorem evalConds_all (F : List Char → Option Rat) (m : Store) (conds : List Cond) (cols : List (List Bool))
    (h : evalConds F m conds = .ok cols) (k : Nat) :
    (cols.all fun col => col[k]?.getD false) = true ↔
      ∀ c ∈ conds, ∃ col, evalCond F m c = .ok col ∧ col[k]?.getD false = true := by
  induction conds generalizing cols with
  | nil => simp [evalConds] at h; subst h; simp
  | cons c t ih =>
    simp only [evalConds] at h
    cases hc : evalCond F m c with
    | error e => simp [hc] at h
    | ok col =>
      cases ht : evalConds F m t with
      | error e => simp [hc, ht] at h
      | ok cols' =>
        simp [hc, ht] at h; subst h
        simp only [List.all_cons, Bool.and_eq_true, ih cols' ht, List.mem_cons, forall_eq_or_imp, hc, Except.ok.injEq,
          exists_eq_left']

theorem matching_length {F : List Char → Option Rat} {m : Store} {conds : List Cond} {v : List Bool} {g : List Val}
    (h : matching F m conds = .ok v) (hg : sget m isGoodName = some g) : v.length = g.length := by
  unfold matching at h
  rw [hg] at h
  cases hc : evalConds F m conds with
  | error e => simp [hc] at h
  | ok cols => simp [hc] at h; subst h; simp

/-! ### invariant -/

def setCache (b : Bool) (s : State) : State := { s with cache := b }

structure SelOK (K : Nat) (sel : Sel) : Prop where
  len : sel.subset.length = K
  rank : sel.subset = subsetVector (sel.subset.map fun j => decide (0 ≤ j))
  chain : sel.chain = chainVector sel.subset

/-- The coherence invariant of the container. -/
structure Inv (s : State) : Prop where
  cv : CvOK s.cv s.K
  lens : ∀ e ∈ s.metrics, e.2.length = s.K
  names : (s.metrics.map (·.1)).Nodup
  sel : ∀ sel, s.sel = some sel → SelOK s.K sel

def HasGood (s : State) : Prop := (sget s.metrics isGoodName).isSome = true

/-- what an operation leaves alone -/
def Frame (s s' : State) : Prop := s'.cv = s.cv ∧ s'.K = s.K ∧ s'.phase = s.phase ∧ s'.thr = s.thr ∧ s'.cache = s.cache

theorem Frame.refl (s : State) : Frame s s := ⟨rfl, rfl, rfl, rfl, rfl⟩
theorem Frame.trans {a b c : State} (h1 : Frame a b) (h2 : Frame b c) : Frame a c := by
  obtain ⟨a1, a2, a3, a4, a5⟩ := h1
  obtain ⟨b1, b2, b3, b4, b5⟩ := h2
  exact ⟨b1.trans a1, b2.trans a2, b3.trans a3, b4.trans a4, b5.trans a5⟩

theorem addMetric_inv (s : State) (name : Name) (v : List Val) (h : Inv s) : Inv (addMetric s name v).1 := by
  unfold addMetric
  split
  · rename_i hv
    exact ⟨h.cv, sset_lens _ _ _ _ h.lens hv, sset_nodup _ _ _ h.names, h.sel⟩
  · exact h

theorem addMetric_frame (s : State) (name : Name) (v : List Val) : Frame s (addMetric s name v).1 := by
  unfold addMetric; split <;> exact ⟨rfl, rfl, rfl, rfl, rfl⟩

theorem addMetric_sel (s : State) (name : Name) (v : List Val) : (addMetric s name v).1.sel = s.sel := by
  unfold addMetric; split <;> rfl

theorem addMetric_good (s : State) (name : Name) (v : List Val) (h : HasGood s) : HasGood (addMetric s name v).1 := by
  unfold addMetric HasGood
  split
  · by_cases hn : isGoodName = name
    · subst hn; simp [sget_sset_same]
    · simp only []; rw [sget_sset_other _ _ _ _ hn]; exact h
  · exact h

/-- whatever every `addMetric` preserves, `addFromInt` preserves -/
theorem addFromInt_preserves (P : State → Prop) (s : State) (name src : Name) (hs : P s)
    (hadd : ∀ v, P (addMetric s name v).1) : P (addFromInt s name src).1 := by
  unfold addFromInt
  split
  · exact hs
  · exact hadd _

theorem addMetric_ok (s : State) (name : Name) (v : List Val) (hv : v.length = s.K) :
    addMetric s name v = ({ s with metrics := sset s.metrics name v }, .ok .done) := by
  simp [addMetric, hv]

/-- `compute_cycle_metric` either raises and leaves the state alone, or stores some vector through
    `add_cycle_metric`: whatever `add_cycle_metric` preserves, it preserves. -/
theorem computeMetric_preserves (P : State → Prop) (s : State) (name : Name) (vals : List Rat) (f : List Rat → Rat)
    (mode : Mode) (hs : P s) (hadd : ∀ v, P (addMetric s name v).1) : P (computeMetric s name vals f mode).1 := by
  unfold computeMetric
  split
  · exact hs
  · exact hadd _

/-- With one value per sample `compute_cycle_metric` succeeds and stores the statistic. -/
theorem computeMetric_ok (s : State) (h : Inv s) (name : Name) (vals : List Rat) (f : List Rat → Rat) (mode : Mode)
    (hv : vals.length = s.cv.length) :
    computeMetric s name vals f mode =
      ({ s with metrics := sset s.metrics name (cycleStatV s.cache mode f s.thr s.phase s.cv vals) }, .ok .done) := by
  unfold computeMetric
  rw [cycleStat_eq_ok _ _ _ _ _ _ _ hv]
  exact addMetric_ok _ _ _ (cycleStat_length _ _ _ _ _ h.cv.1 _)

/-- With the cache on `compute_cycle_metric` succeeds whatever the length of the value vector. -/
theorem computeMetric_cache_ok (s : State) (h : Inv s) (hc : s.cache = true) (name : Name) (vals : List Rat)
    (f : List Rat → Rat) (mode : Mode) :
    computeMetric s name vals f mode =
      ({ s with metrics := sset s.metrics name (cycleStatV true mode f s.thr s.phase s.cv vals) }, .ok .done) := by
  unfold computeMetric
  have e : cycleStat s.cache mode f s.thr s.phase s.cv vals = .ok (cycleStatV true mode f s.thr s.phase s.cv vals) := by
    rw [hc]; exact cycleStat_cache_ok _ _ _ _ _ _
  rw [e]
  exact addMetric_ok _ _ _ (cycleStat_length _ _ _ _ _ h.cv.1 _)

theorem seqOps_preserves (P : State → Prop) (ops : List (State → State × Except Err Out))
    (hops : ∀ o ∈ ops, ∀ s, P s → P (o s).1) (s : State) (h : P s) : P (seqOps s ops).1 := by
  induction ops generalizing s with
  | nil => exact h
  | cons o t ih =>
    simp only [seqOps]
    have ho := hops o (by simp) s h
    cases hr : o s with
    | mk s' r =>
      rw [hr] at ho
      cases r with
      | error e => exact ho
      | ok x => exact ih (fun o' ho' => hops o' (by simp [ho'])) s' ho

theorem seqOps_frame (ops : List (State → State × Except Err Out))
    (hops : ∀ o ∈ ops, ∀ s, Frame s (o s).1) (s : State) : Frame s (seqOps s ops).1 := by
  induction ops generalizing s with
  | nil => exact Frame.refl s
  | cons o t ih =>
    simp only [seqOps]
    have ho := hops o (by simp) s
    cases hr : o s with
    | mk s' r =>
      rw [hr] at ho
      cases r with
      | error e => exact ho
      | ok x => exact ho.trans (ih (fun o' ho' => hops o' (by simp [ho'])) s')

theorem matching_valids_length {F : List Char → Option Rat} {s : State} (h : Inv s) {conds : List Cond} {v : List Bool}
    (hm : matching F s.metrics conds = .ok v) : v.length = s.K := by
  cases hg : sget s.metrics isGoodName with
  | none => simp [matching, hg] at hm
  | some g =>
    rw [matching_length hm hg]
    exact h.lens _ (sget_mem hg)

theorem pickSubset_inv (F : List Char → Option Rat) (s : State) (conds : List Cond) (h : Inv s) :
    Inv (pickSubset F s conds).1 := by
  unfold pickSubset
  cases hm : matching F s.metrics conds with
  | error e => exact h
  | ok valids =>
    simp only []
    apply addMetric_inv
    refine ⟨h.cv, h.lens, h.names, ?_⟩
    intro sel hsel
    simp only [Option.some.injEq] at hsel
    subst hsel
    have hl := matching_valids_length h hm
    exact ⟨by simp [subsetVector, subsetFrom_length, hl], by simp [subsetVector, subsetFrom_support], rfl⟩

theorem computeChainMetric_inv (s : State) (name : Name) (vals : List Rat) (f : List Rat → Rat) (asInt : Bool) (h : Inv s) :
    Inv (computeChainMetric s name vals f asInt).1 := by
  unfold computeChainMetric
  split
  · exact h
  · exact addMetric_inv _ _ _ h

theorem computePositionInChain_inv (s : State) (h : Inv s) : Inv (computePositionInChain s).1 := by
  unfold computePositionInChain
  split
  · exact h
  · rename_i sel hs
    refine ⟨h.cv, sset_lens _ _ _ _ h.lens ?_, sset_nodup _ _ _ h.names, h.sel⟩
    simp [nanToMinusOne, projSubsetToCycles, (h.sel sel hs).len]

theorem computeTimings_inv (s : State) (h : Inv s) : Inv (computeTimings s).1 := by
  unfold computeTimings
  apply seqOps_preserves Inv _ _ s h
  intro o ho s' hs'
  simp only [List.mem_cons, List.not_mem_nil, or_false] at ho
  rcases ho with rfl | rfl | rfl <;>
    exact computeMetric_preserves Inv _ _ _ _ _ hs' (fun v => addMetric_inv _ _ _ hs')

theorem computeChainTimings_inv (s : State) (h : Inv s) : Inv (computeChainTimings s).1 := by
  unfold computeChainTimings
  apply seqOps_preserves Inv _ _ s h
  intro o ho s' hs'
  simp only [List.mem_cons, List.not_mem_nil, or_false] at ho
  rcases ho with rfl | rfl | rfl | rfl | rfl
  · exact computeChainMetric_inv _ _ _ _ _ hs'
  · exact computeChainMetric_inv _ _ _ _ _ hs'
  · exact computeChainMetric_inv _ _ _ _ _ hs'
  · exact computeChainMetric_inv _ _ _ _ _ hs'
  · exact computePositionInChain_inv _ hs'

theorem step_inv (F : List Char → Option Rat) (s : State) (op : Op) (h : Inv s) : Inv (step F s op).1 := by
  cases op with
  | computeMetric name vals f mode => exact computeMetric_preserves Inv _ _ _ _ _ h (fun v => addMetric_inv _ _ _ h)
  | addMetric name vals => exact addMetric_inv _ _ _ h
  | addFromInt name src => exact addFromInt_preserves Inv _ _ _ h (fun _ => addMetric_inv _ _ _ h)
  | computeTimings => exact computeTimings_inv s h
  | pickSubset conds => exact pickSubset_inv F s conds h
  | computeChainMetric name vals f asInt => exact computeChainMetric_inv _ _ _ _ _ h
  | computeChainTimings => exact computeChainTimings_inv s h
  | «export» m => simp only [step]; split <;> exact h
  | «matching» conds => simp only [step]; split <;> exact h

end Container
