/-
  Helper lemmas for C02 — time reversal through the extrema / envelope model
  (integer, i.e. unrefined, extrema locations).
-/
import Proofs.Lemmas.EquivarianceScale

namespace Extrema

/-! ### vocabulary -/

/-- mirror image of a list of locations about the centre `(n-1)/2` of an `n`-sample signal
    (`v ↦ n-1-v`), listed in increasing order again -/
def mirror (n : Nat) (l : List Rat) : List Rat := (l.map fun v => (n : Rat) - 1 - v).reverse

def PadResult.mirror (n : Nat) : PadResult → PadResult
  | .ok l e => .ok (Extrema.mirror n l) e.reverse
  | r => r

def EnvResult.mirror (n : Nat) : EnvResult → EnvResult
  | .ok env l e => .ok env.reverse (Extrema.mirror n l) e.reverse
  | r => r

/-- oracle contract: mirroring the knots about `(n-1)/2` (and listing them in increasing order again)
    mirrors the interpolant (validated against scipy on every run: `interp_reversible`) -/
def Interp.Reversible (I : Interp) : Prop :=
  ∀ (n : Nat) (locs mags : List Rat) (t : Rat), locs.Pairwise (· < ·) → locs.length = mags.length →
    I.eval (mirror n locs) mags.reverse ((n : Rat) - 1 - t) = I.eval locs mags t

/-- all locations are integers (no parabolic refinement) -/
def IntLocs (l : List Rat) : Prop := ∀ v ∈ l, ∃ k : Int, v = (k : Rat)

/-! ### detection -/

theorem sorted_nat_ext : ∀ (l₁ l₂ : List Nat), l₁.Pairwise (· < ·) → l₂.Pairwise (· < ·) →
    (∀ i, i ∈ l₁ ↔ i ∈ l₂) → l₁ = l₂ := by
  intro l₁
  induction l₁ with
  | nil =>
    intro l₂ _ _ h
    cases l₂ with
    | nil => rfl
    | cons b t => exact absurd ((h b).mpr List.mem_cons_self) (by simp)
  | cons a t ih =>
    intro l₂ h1 h2 h
    cases l₂ with
    | nil => exact absurd ((h a).mp List.mem_cons_self) (by simp)
    | cons b s =>
      have ha := (List.pairwise_cons.mp h1).1
      have hb := (List.pairwise_cons.mp h2).1
      have hab : a = b := by
        rcases List.mem_cons.mp ((h a).mp List.mem_cons_self) with e | e
        · exact e
        · rcases List.mem_cons.mp ((h b).mpr List.mem_cons_self) with e' | e'
          · exact e'.symm
          · have := ha b e'; have := hb a e; omega
      subst hab
      congr 1
      apply ih s (List.pairwise_cons.mp h1).2 (List.pairwise_cons.mp h2).2
      intro i
      constructor
      · intro hi
        rcases List.mem_cons.mp ((h i).mp (List.mem_cons_of_mem _ hi)) with e | e
        · have := ha i hi; omega
        · exact e
      · intro hi
        rcases List.mem_cons.mp ((h i).mpr (List.mem_cons_of_mem _ hi)) with e | e
        · have := hb i hi; omega
        · exact e

theorem at'_reverse (x : Sig) (i : Nat) (hi : i < x.length) : at' x.reverse i = at' x (x.length - 1 - i) := by
  unfold at'
  simp only [List.getD_eq_getElem?_getD]
  rw [List.getElem?_reverse hi]

theorem findPeaks_reverse' (x : Sig) :
    findPeaks x.reverse = ((findPeaks x).map fun i => x.length - 1 - i).reverse := by
  apply sorted_nat_ext _ _ (findPeaks_sorted' _)
  · rw [List.pairwise_reverse, List.pairwise_map]
    refine List.Pairwise.imp_of_mem ?_ (findPeaks_sorted' x)
    intro a b _ hb hab
    have := ((mem_findPeaks_at' x b).mp hb).2.1
    omega
  · intro j
    rw [List.mem_reverse, List.mem_map, mem_findPeaks_at']
    simp only [List.length_reverse]
    constructor
    · rintro ⟨h0, h1, h2, h3⟩
      refine ⟨x.length - 1 - j, ?_, by omega⟩
      rw [mem_findPeaks_at']
      rw [at'_reverse x (j - 1) (by omega), at'_reverse x j (by omega)] at h2
      rw [at'_reverse x (j + 1) (by omega), at'_reverse x j (by omega)] at h3
      refine ⟨by omega, by omega, ?_, ?_⟩
      · have e : x.length - 1 - j - 1 = x.length - 1 - (j + 1) := by omega
        rw [e]; exact h3
      · have e : x.length - 1 - j + 1 = x.length - 1 - (j - 1) := by omega
        rw [e]; exact h2
    · rintro ⟨i, hi, rfl⟩
      obtain ⟨h0, h1, h2, h3⟩ := (mem_findPeaks_at' x i).mp hi
      refine ⟨by omega, by omega, ?_, ?_⟩
      · rw [at'_reverse x _ (by omega), at'_reverse x _ (by omega)]
        have e1 : x.length - 1 - (x.length - 1 - i - 1) = i + 1 := by omega
        have e2 : x.length - 1 - (x.length - 1 - i) = i := by omega
        rw [e1, e2]; exact h3
      · rw [at'_reverse x _ (by omega), at'_reverse x _ (by omega)]
        have e1 : x.length - 1 - (x.length - 1 - i + 1) = i - 1 := by omega
        have e2 : x.length - 1 - (x.length - 1 - i) = i := by omega
        rw [e1, e2]; exact h2

/-! ### raw extrema and the mode switch -/

theorem rawExtrema_reverse (x : Sig) :
    rawExtrema false x.reverse = (mirror x.length (rawExtrema false x).1, (rawExtrema false x).2.reverse) := by
  simp only [rawExtrema, Bool.false_eq_true, if_false, findPeaks_reverse', mirror, List.map_reverse, List.map_map]
  refine Prod.ext ?_ ?_
  · show (List.map _ (findPeaks x)).reverse = (List.map _ (findPeaks x)).reverse
    congr 1
    apply List.map_congr_left; intro i hi
    have hb := ((mem_findPeaks_at' x i).mp hi).2.1
    have h : ((x.length - 1 - i : Nat) : Rat) + 1 + (i : Rat) = (x.length : Rat) := by
      exact_mod_cast (by omega : x.length - 1 - i + 1 + i = x.length)
    simp only [Function.comp]
    linarith
  · show (List.map _ (findPeaks x)).reverse = (List.map _ (findPeaks x)).reverse
    congr 1
    apply List.map_congr_left; intro i hi
    have hb := ((mem_findPeaks_at' x i).mp hi).2.1
    simp only [Function.comp]
    rw [at'_reverse x _ (by omega)]
    congr 1; omega

theorem neg_reverse (x : Sig) : Sig.neg x.reverse = (Sig.neg x).reverse := by simp [Sig.neg, List.map_reverse]

theorem neg_length (x : Sig) : (Sig.neg x).length = x.length := by simp [Sig.neg]

theorem extrema_reverse (m : Mode) (x : Sig) :
    extrema m false x.reverse = (mirror x.length (extrema m false x).1, (extrema m false x).2.reverse) := by
  cases m
  · exact rawExtrema_reverse x
  · simp only [extrema, neg_reverse, rawExtrema_reverse, neg_length]
  · simp only [extrema, List.map_reverse, rawExtrema_reverse, List.length_map]

theorem intLocs_extrema (m : Mode) (x : Sig) : IntLocs (extrema m false x).1 := by
  rw [extrema_locs]
  intro v hv
  simp only [rawExtrema, Bool.false_eq_true, if_false, List.mem_map] at hv
  obtain ⟨i, _, rfl⟩ := hv
  exact ⟨(i : Int), by simp⟩

/-! ### padding is mirror-symmetric -/

theorem mirror_length (n : Nat) (l : List Rat) : (mirror n l).length = l.length := by simp [mirror]

theorem mirror_append (n : Nat) (a b : List Rat) : mirror n (a ++ b) = mirror n b ++ mirror n a := by
  simp [mirror, List.map_append, List.reverse_append]

theorem leftRefl_mirror (n c : Nat) (l : List Rat) : leftRefl c (mirror n l) = mirror n (rightRefl c l) := by
  unfold rightRefl
  cases h : l.reverse with
  | nil =>
    have : l = [] := by simpa using h
    subst this; simp [mirror, leftRefl]
  | cons z r =>
    have hm : mirror n l = ((n : Rat) - 1 - z) :: r.map (fun v => (n : Rat) - 1 - v) := by
      unfold mirror; rw [← List.map_reverse, h]; rfl
    rw [hm]
    simp only [leftRefl, mirror, List.map_take, List.map_reverse, List.map_map]
    refine congrArg List.reverse (congrArg (List.take c) (List.map_congr_left ?_))
    intro v _
    simp only [Function.comp]; ring

theorem rightRefl_mirror (n c : Nat) (l : List Rat) : rightRefl c (mirror n l) = mirror n (leftRefl c l) := by
  cases l with
  | nil => simp [mirror, leftRefl, rightRefl]
  | cons a t =>
    have hm : (mirror n (a :: t)).reverse = ((n : Rat) - 1 - a) :: t.map (fun v => (n : Rat) - 1 - v) := by
      unfold mirror; rw [List.reverse_reverse]; rfl
    unfold rightRefl
    rw [hm]
    simp only [leftRefl, mirror, List.map_take, List.map_reverse, List.map_map, List.reverse_reverse]
    refine congrArg (List.take c) (List.map_congr_left ?_)
    intro v _
    simp only [Function.comp]; ring

theorem padOddOnce_mirrorImage (n c : Nat) (l : List Rat) :
    padOddOnce c (mirror n l) = mirror n (padOddOnce c l) := by
  unfold padOddOnce
  rw [mirror_append, mirror_append, leftRefl_mirror, rightRefl_mirror, List.append_assoc]

theorem padOddAux_mirror (n m : Nat) : ∀ (f rem : Nat) (l : List Rat),
    padOddAux m f rem (mirror n l) = mirror n (padOddAux m f rem l) := by
  intro f
  induction f with
  | zero => intro rem l; simp [padOddAux]
  | succ f ih =>
    intro rem l
    unfold padOddAux
    by_cases h0 : rem = 0
    · simp [h0]
    · simp only [h0, if_false, mirror_length, padOddOnce_mirrorImage, ih]

theorem padOdd_eq_aux (w : Nat) (l : List Rat) (hl : 2 ≤ l.length) : padOdd w l = padOddAux l.length w w l := by
  match l, hl with
  | a :: b :: t, _ => rfl

theorem padOdd_mirror (n w : Nat) (l : List Rat) (hl : 2 ≤ l.length) :
    padOdd w (mirror n l) = mirror n (padOdd w l) := by
  rw [padOdd_eq_aux w l hl, padOdd_eq_aux w (mirror n l) (by rw [mirror_length]; exact hl), mirror_length,
    padOddAux_mirror]

theorem padEdge_reverse (w : Nat) (e : List Rat) : padEdge w e.reverse = (padEdge w e).reverse := by
  unfold padEdge
  cases e with
  | nil => simp
  | cons a t =>
    have h3 : (a :: t).head? = some a := rfl
    have h4 : (a :: t).getLast? = some ((a :: t).getLast (by simp)) := List.getLast?_eq_some_getLast (by simp)
    rw [List.head?_reverse, List.getLast?_reverse, h3, h4]
    simp [List.reverse_append, List.append_assoc]

/-! ### integrality is preserved by padding -/

theorem intLocs_mirror (n : Nat) {l : List Rat} (h : IntLocs l) : IntLocs (mirror n l) := by
  intro v hv
  simp only [mirror, List.mem_reverse, List.mem_map] at hv
  obtain ⟨u, hu, rfl⟩ := hv
  obtain ⟨k, rfl⟩ := h u hu
  exact ⟨(n : Int) - 1 - k, by push_cast; ring⟩

theorem intLocs_padOddOnce (c : Nat) {l : List Rat} (h : IntLocs l) : IntLocs (padOddOnce c l) := by
  intro v hv
  simp only [padOddOnce, List.mem_append] at hv
  rcases hv with (hv | hv) | hv
  · cases l with
    | nil => simp [leftRefl] at hv
    | cons a t =>
      simp only [leftRefl, List.mem_map, List.mem_reverse] at hv
      obtain ⟨u, hu, rfl⟩ := hv
      obtain ⟨ka, hka⟩ := h a List.mem_cons_self
      obtain ⟨ku, hku⟩ := h u (List.mem_cons_of_mem _ (List.mem_of_mem_take hu))
      exact ⟨2 * ka - ku, by rw [hka, hku]; push_cast; ring⟩
  · exact h v hv
  · unfold rightRefl at hv
    split at hv
    · simp at hv
    · rename_i z r heq
      simp only [List.mem_map] at hv
      obtain ⟨u, hu, rfl⟩ := hv
      have hz : z ∈ l := by rw [← List.mem_reverse, heq]; exact List.mem_cons_self
      have hul : u ∈ l := by
        rw [← List.mem_reverse, heq]; exact List.mem_cons_of_mem _ (List.mem_of_mem_take hu)
      obtain ⟨kz, hkz⟩ := h z hz
      obtain ⟨ku, hku⟩ := h u hul
      exact ⟨2 * kz - ku, by rw [hkz, hku]; push_cast; ring⟩

theorem PadChain.intLocs {l r : List Rat} (h : PadChain l r) (hl : IntLocs l) : IntLocs r := by
  induction h with
  | refl => exact hl
  | step c _ _ _ ih => exact intLocs_padOddOnce c ih

/-! ### the loop test is symmetric on integer locations -/

theorem lmin_of_sorted (l : List Rat) (hne : l ≠ []) (h : l.Pairwise (· < ·)) : lmin l = l.head hne := by
  cases l with
  | nil => exact absurd rfl hne
  | cons a t => exact lmin_cons_of_sorted a t h

theorem mirror_sorted (n : Nat) {l : List Rat} (h : l.Pairwise (· < ·)) : (mirror n l).Pairwise (· < ·) := by
  unfold mirror
  rw [List.pairwise_reverse, List.pairwise_map]
  exact h.imp fun {a b} (hab : a < b) => by linarith

theorem needsMore_mirror (n : Nat) (l : List Rat) (hne : l ≠ []) (hs : l.Pairwise (· < ·)) (hi : IntLocs l) :
    needsMore n (mirror n l) = needsMore n l := by
  have hne' : mirror n l ≠ [] := by
    intro h; have := congrArg List.length h; rw [mirror_length] at this; simp at this; exact hne this
  have hmapne : (l.map fun v => (n : Rat) - 1 - v) ≠ [] := by simpa using hne
  have e1 : lmin (mirror n l) = (n : Rat) - 1 - l.getLast hne := by
    rw [lmin_of_sorted _ hne' (mirror_sorted n hs)]
    simp only [mirror, List.head_reverse, List.getLast_map]
  have e2 : lmax (mirror n l) = (n : Rat) - 1 - l.head hne := by
    rw [lmax_of_sorted _ hne' (mirror_sorted n hs)]
    simp only [mirror, List.getLast_reverse, List.head_map]
  obtain ⟨ka, hka⟩ := hi (l.head hne) (List.head_mem hne)
  obtain ⟨kz, hkz⟩ := hi (l.getLast hne) (List.getLast_mem hne)
  unfold needsMore
  rw [e1, e2, lmin_of_sorted l hne hs, lmax_of_sorted l hne hs, hka, hkz, Bool.or_comm]
  congr 1
  · apply decide_eq_decide.mpr
    constructor
    · intro h
      have h' : ((0 : Int) : Rat) ≤ ((n : Int) : Rat) - 1 - (kz : Rat) := by push_cast; exact h
      have h'' : (0 : Int) ≤ (n : Int) - 1 - kz := by exact_mod_cast h'
      have : kz < (n : Int) := by omega
      exact_mod_cast this
    · intro h
      have h' : (kz : Rat) < ((n : Int) : Rat) := by push_cast; exact h
      have h'' : kz < (n : Int) := by exact_mod_cast h'
      have : kz + 1 ≤ (n : Int) := by omega
      have : ((kz + 1 : Int) : Rat) ≤ ((n : Int) : Rat) := by exact_mod_cast this
      push_cast at this; linarith
  · apply decide_eq_decide.mpr
    constructor
    · intro h
      have h' : ((-1 : Int) : Rat) < (ka : Rat) := by push_cast; linarith
      have h'' : (-1 : Int) < ka := by exact_mod_cast h'
      have : (0 : Int) ≤ ka := by omega
      exact_mod_cast this
    · intro h
      linarith

theorem padLoop_mirror (w n : Nat) : ∀ (f : Nat) (l e : List Rat), l.Pairwise (· < ·) → 2 ≤ l.length → IntLocs l →
    padLoop w n f (mirror n l) e.reverse = (padLoop w n f l e).map (fun r => (mirror n r.1, r.2.reverse)) := by
  intro f
  induction f with
  | zero => intro l e _ _ _; simp [padLoop]
  | succ f ih =>
    intro l e hs hl hi
    have hne : l ≠ [] := by intro h; simp [h] at hl
    unfold padLoop
    rw [needsMore_mirror n l hne hs hi]
    by_cases hm : needsMore n l = true
    · simp only [hm, if_true]
      obtain ⟨hch, L, Rr, heq, _, _⟩ := padOdd_spec w l hl
      rw [padOdd_mirror n w l hl, padEdge_reverse]
      exact ih _ _ (hch.pairwise reflRel_lt hs) (by rw [heq]; simp; omega) (hch.intLocs hi)
    · simp [hm]

theorem paddedExtrema_reverse' (w : Nat) (m : Mode) (x : Sig) :
    paddedExtrema w m false x.reverse = (paddedExtrema w m false x).mirror x.length := by
  unfold paddedExtrema
  simp only [extrema_reverse, mirror_length, List.length_reverse]
  by_cases h1 : (extrema m false x).1.length ≤ 1
  · simp [h1, PadResult.mirror]
  · simp only [h1, if_false]
    have hl2 : 2 ≤ (extrema m false x).1.length := by omega
    generalize (if (extrema m false x).1.length < w then (extrema m false x).1.length else w) = w'
    by_cases hw : w' = 0
    · simp [hw, PadResult.mirror]
    · simp only [hw, if_false]
      obtain ⟨hch, L, Rr, heq, _, _⟩ := padOdd_spec w' _ hl2
      have hs := sep_imp_lt (extrema_locs_sep m false x)
      rw [padOdd_mirror _ w' _ hl2, padEdge_reverse,
        padLoop_mirror w' x.length _ _ _ (hch.pairwise reflRel_lt hs) (by rw [heq]; simp; omega)
          (hch.intLocs (intLocs_extrema m x))]
      cases padLoop w' x.length (x.length + 1) (padOdd w' (extrema m false x).1) (padEdge w' (extrema m false x).2) with
      | none => simp [PadResult.mirror]
      | some r => simp [PadResult.mirror]

/-! ### envelope -/

theorem interpEnvelope_reverse' (I : Interp) (hI : I.Reversible) (em : EMode) (w : Nat) (hw : 1 ≤ w) (x : Sig) :
    interpEnvelope I em w false x.reverse = (interpEnvelope I em w false x).mirror x.length := by
  have hrev := paddedExtrema_reverse' w em.toMode x
  unfold interpEnvelope
  cases hp : paddedExtrema w em.toMode false x with
  | none => rw [hrev, hp]; simp [PadResult.mirror, EnvResult.mirror]
  | fuel => rw [hrev, hp]; simp [PadResult.mirror, EnvResult.mirror]
  | ok l e =>
    rw [hp] at hrev
    simp only [PadResult.mirror] at hrev
    have hs := sep_imp_lt (paddedExtrema_sorted w em.toMode false x l e hp)
    have hl := paddedExtrema_lengths w em.toMode false x l e hp
    have hg := paddedExtrema_grid w hw em.toMode false x l e hp
    have hg' := paddedExtrema_grid w hw em.toMode false x.reverse _ _ hrev
    rw [List.length_reverse] at hg'
    rw [hrev]
    simp only [List.length_reverse, hg, hg']
    have henv : List.map (I.eval (mirror x.length l) e.reverse) (List.map (fun (k : Nat) => (k : Rat)) (List.range x.length))
        = (List.map (I.eval l e) (List.map (fun (k : Nat) => (k : Rat)) (List.range x.length))).reverse := by
      apply List.ext_getElem
      · simp
      · intro i h1 h2
        simp only [List.length_map, List.length_range] at h1
        simp only [List.getElem_map, List.getElem_range, List.getElem_reverse, List.length_map, List.length_range]
        have h := hI x.length l e ((x.length - 1 - i : Nat) : Rat) hs hl
        have hc : ((x.length - 1 - i : Nat) : Rat) + 1 + (i : Rat) = (x.length : Rat) := by
          exact_mod_cast (by omega : x.length - 1 - i + 1 + i = x.length)
        have : (x.length : Rat) - 1 - ((x.length - 1 - i : Nat) : Rat) = (i : Rat) := by linarith
        rw [this] at h
        exact h
    rw [henv]
    simp [EnvResult.mirror]

end Extrema
