/-
  Helper lemmas for C08 — the scale law of the ensemble sifts: everything the ensemble does after the noise
  amplitude `std x · level` has been formed commutes with multiplying signal, noise and sift by a constant.
-/
import Proofs.Lemmas.EnsembleDistinct
import Proofs.Lemmas.EquivarianceSift

namespace Ensemble
open Pool
open Sift (smul_add smul_sub smul_zeros vsum_smul)

variable {ρ : Type}

/-- a decomposition multiplied by `c`, column by column -/
def scaleCols (c : Rat) (r : List Sig) : List Sig := r.map (Sig.smul c)

theorem length_scaleCols (c : Rat) (r : List Sig) : (scaleCols c r).length = r.length := by simp [scaleCols]

theorem length_smul' (c : Rat) (a : Sig) : (Sig.smul c a).length = a.length := by simp [Sig.smul]

theorem colOr_scaleCols (c : Rat) (n : Nat) (r : List Sig) (j : Nat) :
    colOr n (scaleCols c r) j = Sig.smul c (colOr n r j) := by
  unfold colOr scaleCols
  rw [List.getElem?_map]
  cases r[j]? with
  | none => simp [smul_zeros]
  | some v => simp

theorem half_smul (c : Rat) (a : Sig) : half (Sig.smul c a) = Sig.smul c (half a) := by
  unfold half Sig.smul
  rw [List.map_map, List.map_map]
  apply List.map_congr_left
  intro v _
  simp only [Function.comp]
  exact mul_div_assoc _ _ _

theorem flipMean_scaleCols (c : Rat) (n : Nat) (a b : List Sig) :
    flipMean n (scaleCols c a) (scaleCols c b) = scaleCols c (flipMean n a b) := by
  unfold flipMean
  rw [length_scaleCols, length_scaleCols]
  unfold scaleCols
  rw [List.map_map]
  apply List.map_congr_left
  intro j _
  simp only [Function.comp]
  have ha := colOr_scaleCols c n a j
  have hb := colOr_scaleCols c n b j
  unfold scaleCols at ha hb
  rw [ha, hb, smul_add, half_smul]

theorem meanOver_smul (c : Rat) (n : Nat) (cs : List Sig) :
    meanOver n (cs.map (Sig.smul c)) = Sig.smul c (meanOver n cs) := by
  unfold meanOver
  rw [vsum_smul, List.length_map]
  unfold Sig.smul
  rw [List.map_map, List.map_map]
  apply List.map_congr_left
  intro v _
  simp only [Function.comp]
  exact mul_div_assoc _ _ _

theorem maxWidth_scaleCols (c : Rat) (members : List (List Sig)) :
    maxWidth (members.map (scaleCols c)) = maxWidth members := by
  unfold maxWidth
  induction members with
  | nil => rfl
  | cons r t ih => simp only [List.map_cons, List.foldr_cons, length_scaleCols, ih]

theorem ensembleMean_scaleCols (c : Rat) (n : Nat) (members : List (List Sig)) :
    ensembleMean n (members.map (scaleCols c)) = scaleCols c (ensembleMean n members) := by
  unfold ensembleMean
  rw [maxWidth_scaleCols]
  unfold scaleCols
  rw [List.map_map]
  apply List.map_congr_left
  intro j _
  simp only [Function.comp, List.map_map]
  rw [← meanOver_smul, List.map_map]
  congr 1
  apply List.map_congr_left
  intro r _
  simp only [Function.comp]
  exact colOr_scaleCols c n r j

/-- `_sift_with_noise` commutes with a common factor on signal, noise amplitude and sift -/
theorem siftWithNoise_scale (S S' : Sig → List Sig) (c : Rat) (hS : ∀ y, S' (Sig.smul c y) = scaleCols c (S y))
    (mode : Mode) (s : Rat) (x ν : Sig) :
    siftWithNoise S' mode (some (c * s)) (Sig.smul c x) ν = scaleCols c (siftWithNoise S mode (some s) x ν) := by
  have hν : Sig.smul (c * s) ν = Sig.smul c (Sig.smul s ν) := (smul_smul c s ν).symm
  cases mode with
  | single =>
    simp only [siftWithNoise]
    rw [hν, smul_add, hS]
  | flip =>
    simp only [siftWithNoise]
    rw [hν, smul_add, smul_sub, hS, hS, length_smul', flipMean_scaleCols]

/-- the same with the noise handed over unscaled (`noise_scaling=None`, complete ensemble) -/
theorem siftWithNoise_scale_none (S S' : Sig → List Sig) (c : Rat) (hS : ∀ y, S' (Sig.smul c y) = scaleCols c (S y))
    (mode : Mode) (x ν : Sig) :
    siftWithNoise S' mode none (Sig.smul c x) (Sig.smul c ν) = scaleCols c (siftWithNoise S mode none x ν) := by
  cases mode with
  | single =>
    simp only [siftWithNoise]
    rw [smul_add, hS]
  | flip =>
    simp only [siftWithNoise]
    rw [smul_add, smul_sub, hS, hS, length_smul', flipMean_scaleCols]

theorem ensembleSift_scale (σ : Schedule) (p : Nat) (draw : ρ → Sig × ρ) (g : ρ) (S S' : Sig → List Sig) (c : Rat)
    (hS : ∀ y, S' (Sig.smul c y) = scaleCols c (S y)) (mode : Mode) (N : Nat) (s : Rat) (x : Sig) (hσ : σ.Valid N p) :
    ensembleSift σ draw g S' mode N (c * s) (Sig.smul c x) = scaleCols c (ensembleSift σ draw g S mode N s x) := by
  unfold ensembleSift
  rw [ensembleTrace_eq σ p draw g S' mode N (c * s) _ hσ, ensembleTrace_eq σ p draw g S mode N s x hσ,
    length_smul', ← ensembleMean_scaleCols]
  simp only [List.map_map]
  congr 1
  apply List.map_congr_left
  intro i _
  simp only [Function.comp]
  exact siftWithNoise_scale S S' c hS mode s x _

/-! ### complete ensemble -/

theorem stageImf_scale (F : Sig → Sig) (c : Rat) (hF : ∀ y, F (Sig.smul c y) = Sig.smul c (F y)) (mode : Mode)
    (proto : Sig) (noise : List Sig) :
    stageImf F mode none (Sig.smul c proto) (noise.map (Sig.smul c)) = Sig.smul c (stageImf F mode none proto noise) := by
  unfold stageImf
  rw [length_smul', ← meanOver_smul, List.map_map, List.map_map]
  congr 1
  apply List.map_congr_left
  intro ν _
  simp only [Function.comp]
  rw [siftWithNoise_scale_none (fun y => [F y]) (fun y => [F y]) c (fun y => by simp [scaleCols, hF]) mode proto ν, colOr_scaleCols]

theorem noiseResidual_scale (Fn : Sig → Sig) (c : Rat) (hFn : ∀ y, Fn (Sig.smul c y) = Sig.smul c (Fn y)) (ν : Sig) :
    noiseResidual Fn (Sig.smul c ν) = Sig.smul c (noiseResidual Fn ν) := by
  unfold noiseResidual
  rw [hFn, smul_sub]

theorem specLoop_scale (F Fn : Sig → Sig) (c : Rat) (hF : ∀ y, F (Sig.smul c y) = Sig.smul c (F y))
    (hFn : ∀ y, Fn (Sig.smul c y) = Sig.smul c (Fn y)) (mode : Mode) (x : Sig) :
    ∀ (s : Nat) (imf noise : List Sig),
      specLoop F Fn mode (Sig.smul c x) s (scaleCols c imf) (noise.map (Sig.smul c)) =
        (scaleCols c (specLoop F Fn mode x s imf noise).1, (specLoop F Fn mode x s imf noise).2.map (Sig.smul c)) := by
  intro s
  induction s with
  | zero => intro imf noise; simp [specLoop]
  | succ s ih =>
    intro imf noise
    simp only [specLoop]
    have h1 : Sig.sub (Sig.smul c x) (Sig.vsum (Sig.smul c x).length (scaleCols c imf))
        = Sig.smul c (Sig.sub x (Sig.vsum x.length imf)) := by
      unfold scaleCols
      rw [length_smul', vsum_smul, smul_sub]
    have h2 : (noise.map (Sig.smul c)).map (noiseResidual Fn) = (noise.map (noiseResidual Fn)).map (Sig.smul c) := by
      rw [List.map_map, List.map_map]
      apply List.map_congr_left
      intro ν _
      exact noiseResidual_scale Fn c hFn ν
    rw [h1, stageImf_scale F c hF, h2]
    have h3 : scaleCols c imf ++ [Sig.smul c (stageImf F mode none (Sig.sub x (Sig.vsum x.length imf)) noise)]
        = scaleCols c (imf ++ [stageImf F mode none (Sig.sub x (Sig.vsum x.length imf)) noise]) := by
      simp [scaleCols]
    rw [h3]
    exact ih _ _

end Ensemble
