/-
  Cross-model consistency: ensemble averaging and the classic sift inside the ensemble.

  * `Sift.ensembleCols` / `Sift.ensembleSift` (C03: `meanOf` = `(1/N)·Σ`, width by a `foldl` of `if`)
    and `Ensemble.ensembleMean` / `Ensemble.ensembleSift` (C08: `meanOver` = `Σ / N`, width by a `foldr`
    of `max`, worker pool, generator) were written independently; they compute the same columns.
  * C08 treats the classic sift as an oracle `S`; `siftCols` is that oracle instantiated with the
    Sift model (`Sift.siftIx` projected to its columns).
-/
import Proofs.C01
import Proofs.C03
import Proofs.Lemmas.Ensemble

namespace ComposeEnsemble
open Sift Pool

/-- the classic capped sift of the Sift model as the oracle `S` of the Ensemble model -/
def siftCols (X : Nat → Sig → Option (Sig × Bool)) (thr : Rat) (cap : Option Nat) (fuel : Nat) : Sig → List Sig :=
  fun y => (siftIx X thr cap y fuel).1

theorem colOr_agree (n : Nat) (m : List Sig) (j : Nat) : Sift.colOr n m j = Ensemble.colOr n m j := rfl

/-- `(1/N)·Σ` and `Σ/N` are the same mean -/
theorem meanOf_eq_meanOver (n : Nat) (vs : List Sig) : Sift.meanOf n vs = Ensemble.meanOver n vs := by
  unfold Sift.meanOf Ensemble.meanOver Sig.smul
  apply List.map_congr_left
  intro v _
  rw [Rat.div_def, Rat.div_def, Rat.one_mul, Rat.mul_comm]

theorem maxWidth_foldl_eq (members : List (List Sig)) : ∀ w,
    members.foldl (fun w m => if w < m.length then m.length else w) w
      = max w (members.foldr (fun r m => max r.length m) 0) := by
  induction members with
  | nil => intro w; simp
  | cons m ms ih =>
    intro w
    simp only [List.foldl_cons, List.foldr_cons, ih]
    split <;> omega

/-- the two width computations agree -/
theorem maxWidth_agree (members : List (List Sig)) : Sift.maxWidth members = Ensemble.maxWidth members := by
  unfold Sift.maxWidth Ensemble.maxWidth
  rw [maxWidth_foldl_eq]; omega

/-- **The two models of the ensemble average compute the same columns.** -/
theorem ensembleCols_eq_ensembleMean (n : Nat) (members : List (List Sig)) :
    Sift.ensembleCols n members = Ensemble.ensembleMean n members := by
  unfold Sift.ensembleCols Ensemble.ensembleMean
  rw [maxWidth_agree]
  apply List.map_congr_left
  intro j _
  rw [meanOf_eq_meanOver]
  rfl

variable {ρ : Type}

/-- the members of the Ensemble model under a valid schedule -/
theorem members_eq (σ : Schedule) (p : Nat) (draw : ρ → Sig × ρ) (g : ρ) (S : Sig → List Sig)
    (mode : Ensemble.Mode) (N : Nat) (scale : Rat) (x : Sig) (hσ : σ.Valid N p) :
    (Ensemble.ensembleTrace σ draw g S mode N scale x).map (·.2)
      = (Ensemble.drawN draw N g).map fun ν => Ensemble.siftWithNoise S mode (some scale) x ν := by
  rw [Ensemble.ensembleTrace_eq σ p draw g S mode N scale x hσ, Ensemble.drawN_eq_map]
  simp [List.map_map, Function.comp_def]

/-- **`ensemble_sift`, two models**: the Ensemble model (pool, generator, single-noise mode) with the
    Sift model's classic sift as its oracle is the Sift model's `ensembleSift` on the scaled draws. -/
theorem ensembleSift_agree (σ : Schedule) (p : Nat) (draw : ρ → Sig × ρ) (g : ρ)
    (X : Nat → Sig → Option (Sig × Bool)) (thr : Rat) (cap : Option Nat) (fuel : Nat)
    (N : Nat) (scale : Rat) (x : Sig) (hσ : σ.Valid N p) :
    Ensemble.ensembleSift σ draw g (siftCols X thr cap fuel) .single N scale x
      = Sift.ensembleSift X thr cap x fuel ((Ensemble.drawN draw N g).map (Sig.smul scale)) := by
  unfold Ensemble.ensembleSift Sift.ensembleSift
  rw [members_eq σ p draw g _ .single N scale x hσ, ensembleCols_eq_ensembleMean, List.map_map]
  rfl

/-- every member (either noise mode) of an ensemble over a `k`-capped classic sift has at most `k` columns -/
theorem member_le_cap (X : Nat → Sig → Option (Sig × Bool)) (thr : Rat) (k fuel : Nat) (hk : 0 < k)
    (mode : Ensemble.Mode) (scale : Option Rat) (x ν : Sig) :
    (Ensemble.siftWithNoise (siftCols X thr (some k) fuel) mode scale x ν).length ≤ k := by
  have h : ∀ y, (siftCols X thr (some k) fuel y).length ≤ k := fun y => C03.sift_cols_le_cap X thr y fuel k hk
  cases mode with
  | single => exact h _
  | flip =>
    simp only [Ensemble.siftWithNoise, Ensemble.length_flipMean]
    exact Nat.max_le.mpr ⟨h _, h _⟩

/-- **C03's cap theorem for the C08 model**: the ensemble over a `k`-capped classic sift returns at most
    `k` columns — both noise modes, every generator, ensemble size, scale and schedule. -/
theorem ensembleSift_cols_le_cap (σ : Schedule) (p : Nat) (draw : ρ → Sig × ρ) (g : ρ)
    (X : Nat → Sig → Option (Sig × Bool)) (thr : Rat) (k fuel : Nat) (hk : 0 < k)
    (mode : Ensemble.Mode) (N : Nat) (scale : Rat) (x : Sig) (hσ : σ.Valid N p) :
    (Ensemble.ensembleSift σ draw g (siftCols X thr (some k) fuel) mode N scale x).length ≤ k := by
  unfold Ensemble.ensembleSift
  rw [← ensembleCols_eq_ensembleMean, members_eq σ p draw g _ mode N scale x hσ]
  apply C03.ensemble_cols_le_cap
  intro m hm
  obtain ⟨ν, _, rfl⟩ := List.mem_map.mp hm
  exact member_le_cap X thr k fuel hk mode (some scale) x ν

end ComposeEnsemble
