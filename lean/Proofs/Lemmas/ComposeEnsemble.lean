/-
  Cross-model consistency: ensemble averaging and the classic sift inside the ensemble.

  * `Sift.ensembleCols` / `Sift.ensembleSift` (C03: `meanOf` = `(1/N)·Σ`, width by a `foldl` of `if`)
    and `Ensemble.ensembleMean` / `Ensemble.ensembleSift` (C08: `meanOver` = `Σ / N`, width by a `foldr`
    of `max`, worker pool, generator) were written independently; they compute the same columns.
  * C08 treats the classic sift as an oracle `S`; `siftCols` is that oracle instantiated with the
    Sift model (`Sift.siftIx` projected to its columns).
-/
import Proofs.C01
import Proofs.C03
import Proofs.Lemmas.Ensemble

namespace ComposeEnsemble
open Sift Pool

/-- the classic capped sift of the Sift model as the oracle `S` of the Ensemble model -/
def siftCols (X : Nat → Sig → Option (Sig × Bool)) (thr : Rat) (cap : Option Nat) (fuel : Nat) : Sig → List Sig :=
  fun y => (siftIx X thr cap y fuel).1

theorem colOr_agree (n : Nat) (m : List Sig) (j : Nat) : Sift.colOr n m j = Ensemble.colOr n m j := rfl

/-- `(1/N)·Σ` and `Σ/N` are the same mean -/
theorem meanOf_eq_meanOver (n : Nat) (vs : List Sig) : Sift.meanOf n vs = Ensemble.meanOver n vs := by
  unfold Sift.meanOf Ensemble.meanOver Sig.smul
  apply List.map_congr_left
  intro v _
  rw [Rat.div_def, Rat.div_def, Rat.one_mul, Rat.mul_comm]

theorem maxWidth_foldl_eq (members : List (List Sig)) : ∀ w,
    members.foldl (fun w m => if w < m.length then m.length else w) w
      = max w (members.foldr (fun r m => max r.length m) 0) := by
  induction members with
  | nil => intro w; simp
  | cons m ms ih =>
    intro w
    simp only [List.foldl_cons, List.foldr_cons, ih]
    split <;> omega

/-- the two width computations agree -/
theorem maxWidth_agree (members : List (List Sig)) : Sift.maxWidth members = Ensemble.maxWidth members := by
  unfold Sift.maxWidth Ensemble.maxWidth
  rw [maxWidth_foldl_eq]; omega

/-- **The two models of the ensemble average compute the same columns.** -/
theorem ensembleCols_eq_ensembleMean (n : Nat) (members : List (List Sig)) :
    Sift.ensembleCols n members = Ensemble.ensembleMean n members := by
  unfold Sift.ensembleCols Ensemble.ensembleMean
  rw [maxWidth_agree]
  apply List.map_congr_left
  intro j _
  rw [meanOf_eq_meanOver]
  rfl

variable {ρ : Type}

/-- the members of the Ensemble model under a valid schedule -/
theorem members_eq (σ : Schedule) (p : Nat) (draw : ρ → Sig × ρ) (g : ρ) (S : Sig → List Sig)
    (mode : Ensemble.Mode) (N : Nat) (scale : Rat) (x : Sig) (hσ : σ.Valid N p) :
    (Ensemble.ensembleTrace σ draw g S mode N scale x).map (·.2)
      = (Ensemble.drawN draw N g).map fun ν => Ensemble.siftWithNoise S mode (some scale) x ν := by
  rw [Ensemble.ensembleTrace_eq σ p draw g S mode N scale x hσ, Ensemble.drawN_eq_map]
  simp [List.map_map, Function.comp_def]

/-- **`ensemble_sift`, two models**: the Ensemble model (pool, generator, single-noise mode) with the
    Sift model's classic sift as its oracle is the Sift model's `ensembleSift` on the scaled draws. -/
theorem ensembleSift_agree (σ : Schedule) (p : Nat) (draw : ρ → Sig × ρ) (g : ρ)
    (X : Nat → Sig → Option (Sig × Bool)) (thr : Rat) (cap : Option Nat) (fuel : Nat)
    (N : Nat) (scale : Rat) (x : Sig) (hσ : σ.Valid N p) :
    Ensemble.ensembleSift σ draw g (siftCols X thr cap fuel) .single N scale x
      = Sift.ensembleSift X thr cap x fuel ((Ensemble.drawN draw N g).map (Sig.smul scale)) := by
  unfold Ensemble.ensembleSift Sift.ensembleSift
  rw [members_eq σ p draw g _ .single N scale x hσ, ensembleCols_eq_ensembleMean, List.map_map]
  rfl

/-- every member (either noise mode) of an ensemble over a `k`-capped classic sift has at most `k` columns -/
theorem member_le_cap (X : Nat → Sig → Option (Sig × Bool)) (thr : Rat) (k fuel : Nat) (hk : 0 < k)
    (mode : Ensemble.Mode) (scale : Option Rat) (x ν : Sig) :
    (Ensemble.siftWithNoise (siftCols X thr (some k) fuel) mode scale x ν).length ≤ k := by
  have h : ∀ y, (siftCols X thr (some k) fuel y).length ≤ k := fun y => C03.sift_cols_le_cap X thr y fuel k hk
  cases mode with
  | single => exact h _
  | flip =>
    simp only [Ensemble.siftWithNoise, Ensemble.length_flipMean]
    exact Nat.max_le.mpr ⟨h _, h _⟩

/-- **C03's cap theorem for the C08 model**: the ensemble over a `k`-capped classic sift returns at most
    `k` columns — both noise modes, every generator, ensemble size, scale and schedule. -/
theorem ensembleSift_cols_le_cap (σ : Schedule) (p : Nat) (draw : ρ → Sig × ρ) (g : ρ)
    (X : Nat → Sig → Option (Sig × Bool)) (thr : Rat) (k fuel : Nat) (hk : 0 < k)
    (mode : Ensemble.Mode) (N : Nat) (scale : Rat) (x : Sig) (hσ : σ.Valid N p) :
    (Ensemble.ensembleSift σ draw g (siftCols X thr (some k) fuel) mode N scale x).length ≤ k := by
  unfold Ensemble.ensembleSift
  rw [← ensembleCols_eq_ensembleMean, members_eq σ p draw g _ mode N scale x hσ]
  apply C03.ensemble_cols_le_cap
  intro m hm
  obtain ⟨ν, _, rfl⟩ := List.mem_map.mp hm
  exact member_le_cap X thr k fuel hk mode (some scale) x ν

/-! ### complete_ensemble_sift, two models

  `Sift.ceemd` / `Sift.ceemdLoop` (C03): the counter / stop logic (fewer than two peaks, cap, mean-abs
  threshold) around an abstract ensemble step `Nx cols proto`.  `Ensemble.ceemd` (C08): the concrete
  ensemble step (noise matrix, members, first IMFs, noise residuals, pools) iterated a given number of
  `stages`, without any stop logic.  `stepNx` is the step of the first built from the ingredients of the
  second; with it the C08 model run for as many stages as the C03 model decides returns the same columns. -/

open Ensemble in
/-- the ensemble step of layer `cols.length`: layer 0 uses the scaled matrix (added as it is, as the
    repaired code does), layer `k+1` the `(k+1)`-fold first-IMF residual of every scaled noise column -/
def stepNx (F Fn : Sig → Sig) (mode : Ensemble.Mode) (scale : Rat) (M : List Sig) : List Sig → Sig → Sig :=
  fun cols proto =>
    match cols.length with
    | 0 => stageImf F mode none proto (M.map (Sig.smul scale))
    | k + 1 => stageImf F mode none proto (M.map fun m => residualPow Fn (k + 1) (Sig.smul scale m))

open Ensemble in
theorem residualPow_comm (Fn : Sig → Sig) (k : Nat) (ν : Sig) :
    residualPow Fn k (noiseResidual Fn ν) = noiseResidual Fn (residualPow Fn k ν) := by
  induction k generalizing ν with
  | zero => rfl
  | succ k ih => simp only [residualPow]; rw [ih]

open Ensemble in
/-- the C03 loop over `stepNx` produces the columns of the C08 loop run for the same number of stages -/
theorem ceemdLoop_agree (F Fn : Sig → Sig) (mode : Ensemble.Mode) (scale : Rat) (M : List Sig) (thr : Rat)
    (cap : Option Nat) (x : Sig) : ∀ (fuel : Nat) (cols : List Sig) (k : Nat), cols.length = k + 1 →
    (specLoop F Fn mode x ((Sift.ceemdLoop (stepNx F Fn mode scale M) thr cap x fuel cols).1.length - cols.length)
        cols (M.map fun m => residualPow Fn (k + 1) (Sig.smul scale m))).1
      = (Sift.ceemdLoop (stepNx F Fn mode scale M) thr cap x fuel cols).1 := by
  intro fuel
  induction fuel with
  | zero => intro cols k _; simp [Sift.ceemdLoop, specLoop]
  | succ fuel ih =>
    intro cols k hk
    have hstep : stepNx F Fn mode scale M cols (Sig.sub x (Sig.vsum x.length cols))
        = stageImf F mode none (Sig.sub x (Sig.vsum x.length cols))
            (M.map fun m => residualPow Fn (k + 1) (Sig.smul scale m)) := by
      simp only [stepNx, hk]
    have hnoise : (M.map fun m => residualPow Fn (k + 1) (Sig.smul scale m)).map (noiseResidual Fn)
        = M.map fun m => residualPow Fn (k + 1 + 1) (Sig.smul scale m) := by
      rw [List.map_map]
      apply List.map_congr_left
      intro m _
      simp only [Function.comp]
      rw [← residualPow_comm]; rfl
    unfold Sift.ceemdLoop
    simp only []
    split
    · simp only [List.length_append, List.length_singleton, Nat.add_sub_cancel_left, specLoop, hstep]
    · have hpre := Sift.ceemdLoop_prefix (stepNx F Fn mode scale M) thr cap x fuel
        (cols ++ [stepNx F Fn mode scale M cols (Sig.sub x (Sig.vsum x.length cols))])
      have hlen := hpre.length_le
      have := ih (cols ++ [stepNx F Fn mode scale M cols (Sig.sub x (Sig.vsum x.length cols))]) (k + 1)
        (by simp [hk])
      simp only [List.length_append, List.length_singleton] at this hlen
      have hs : (Sift.ceemdLoop (stepNx F Fn mode scale M) thr cap x fuel
            (cols ++ [stepNx F Fn mode scale M cols (Sig.sub x (Sig.vsum x.length cols))])).1.length - cols.length
          = ((Sift.ceemdLoop (stepNx F Fn mode scale M) thr cap x fuel
            (cols ++ [stepNx F Fn mode scale M cols (Sig.sub x (Sig.vsum x.length cols))])).1.length
              - (cols.length + 1)) + 1 := by omega
      rw [hs, specLoop, hnoise, ← hstep]
      exact this

open Ensemble in
/-- `Ensemble.ceemd` as the pool-free loop (any valid family of schedules) -/
theorem ceemd_eq_specLoop (σ : Nat → Schedule) (p : Nat → Nat) (F Fn : Sig → Sig) (mode : Ensemble.Mode)
    (scale : Rat) (M : List Sig) (x : Sig) (stages : Nat) (hσ : ∀ c, (σ c).Valid M.length (p c)) :
    Ensemble.ceemd σ F Fn mode scale M x stages =
      specLoop F Fn mode x stages [stageImf F mode none x (M.map (Sig.smul scale))]
        ((M.map (Sig.smul scale)).map (noiseResidual Fn)) := by
  have hM : (M.map (Sig.smul scale)).length = M.length := by simp
  unfold Ensemble.ceemd
  simp only []
  rw [ceemdImf_eq (σ 0) (p 0) F mode none x _ (hM ▸ hσ 0),
    ceemdNoiseStep_eq (σ 1) (p 1) Fn _ (hM ▸ hσ 1)]
  exact ceemdLoop_eq σ p F Fn mode x M.length hσ stages 2 _ _ (by simp)

open Ensemble in
/-- **`complete_ensemble_sift`, two models**: whatever the C03 model returns (regular exit by peaks / cap /
    threshold, or cut off by the fuel), the C08 model run for `out.length − 1` stages returns the same
    columns — for every valid family of pool schedules. -/
theorem ceemd_agree (σ : Nat → Schedule) (p : Nat → Nat) (F Fn : Sig → Sig) (mode : Ensemble.Mode)
    (scale : Rat) (M : List Sig) (thr : Rat) (cap : Option Nat) (x : Sig) (fuel : Nat)
    (hσ : ∀ c, (σ c).Valid M.length (p c)) :
    (Ensemble.ceemd σ F Fn mode scale M x
        ((Sift.ceemd (stepNx F Fn mode scale M) thr cap x fuel).1.length - 1)).1
      = (Sift.ceemd (stepNx F Fn mode scale M) thr cap x fuel).1 := by
  rw [ceemd_eq_specLoop σ p F Fn mode scale M x _ hσ]
  have h0 : stepNx F Fn mode scale M [] x = stageImf F mode none x (M.map (Sig.smul scale)) := rfl
  have hn : (M.map (Sig.smul scale)).map (noiseResidual Fn)
      = M.map fun m => residualPow Fn (0 + 1) (Sig.smul scale m) := by
    rw [List.map_map]; rfl
  have key := ceemdLoop_agree F Fn mode scale M thr cap x fuel [stepNx F Fn mode scale M [] x] 0 rfl
  rw [← h0, hn]
  unfold Sift.ceemd
  simp only []
  cases cap with
  | none => exact key
  | some k =>
    simp only []
    split
    · simp [specLoop]
    · exact key

end ComposeEnsemble
