/-
  Helper lemmas about `EmdModel.Config` (used by Proofs/C18.lean and Proofs/C06.lean).
-/
import EmdModel.Config

namespace Config

/-! ### ordered dictionaries -/

namespace Assoc

theorem lookup_insert_same (k : Key) (v : Tree) : ∀ a : Assoc, (a.insert k v).lookup k = some v
  | .nil => by simp [insert, lookup]
  | .cons k' v' r => by
    have ih := lookup_insert_same k v r
    by_cases h : k' = k
    · simp [insert, lookup, h]
    · simp [insert, lookup, h, ih]

theorem lookup_insert_other (k k' : Key) (v : Tree) (h : k' ≠ k) :
    ∀ a : Assoc, (a.insert k v).lookup k' = a.lookup k'
  | .nil => by
    have : ¬ k = k' := fun e => h e.symm
    simp [insert, lookup, this]
  | .cons k₀ v₀ r => by
    have ih := lookup_insert_other k k' v h r
    by_cases h0 : k₀ = k
    · subst h0
      have : ¬ k₀ = k' := fun e => h e.symm
      simp [insert, lookup, this]
    · by_cases h1 : k₀ = k'
      · subst h1; simp [insert, lookup, h0]
      · simp [insert, lookup, h0, h1, ih]

theorem lookup_erase_same (k : Key) : ∀ a : Assoc, (a.erase k).lookup k = none
  | .nil => by simp [erase, lookup]
  | .cons k' v' r => by
    have ih := lookup_erase_same k r
    by_cases h : k' = k
    · simp [erase, h, ih]
    · simp [erase, lookup, h, ih]

theorem lookup_erase_other (k k' : Key) (h : k' ≠ k) :
    ∀ a : Assoc, (a.erase k).lookup k' = a.lookup k'
  | .nil => by simp [erase, lookup]
  | .cons k₀ v₀ r => by
    have ih := lookup_erase_other k k' h r
    by_cases h0 : k₀ = k
    · subst h0
      have : ¬ k₀ = k' := fun e => h e.symm
      simp [erase, lookup, this, ih]
    · by_cases h1 : k₀ = k'
      · subst h1; simp [erase, lookup, h0]
      · simp [erase, lookup, h0, h1, ih]

theorem keys_insert_of_mem (k : Key) (v : Tree) :
    ∀ a : Assoc, (a.lookup k).isSome → (a.insert k v).keys = a.keys
  | .nil, h => by simp [lookup] at h
  | .cons k' v' r, h => by
    by_cases h0 : k' = k
    · simp [insert, keys, h0]
    · simp [lookup, h0] at h
      simp [insert, keys, h0, keys_insert_of_mem k v r h]

theorem keys_erase (k : Key) : ∀ a : Assoc, (a.erase k).keys = a.keys.filter (· ≠ k)
  | .nil => by simp [erase, keys]
  | .cons k' v' r => by
    have ih := keys_erase k r
    by_cases h0 : k' = k
    · simp [erase, keys, h0, ih]
    · simp [erase, keys, h0, ih]

end Assoc

/-! ### item access -/

theorem getItem_ok_dict {t : Tree} {k : Key} {v : Tree} (h : getItem t k = .ok v) :
    ∃ a, t = .dict a ∧ a.lookup k = some v := by
  unfold getItem at h
  split at h
  · next a =>
    split at h
    · next v' hv => cases h; exact ⟨a, rfl, hv⟩
    · cases h
  · cases h
  · split at h <;> cases h
  · cases h

theorem setItem_ok_dict {t : Tree} {k : Key} {v t' : Tree} (h : setItem t k v = .ok t') :
    ∃ a, t = .dict a ∧ t' = .dict (a.insert k v) := by
  unfold setItem at h
  split at h
  · next a => cases h; exact ⟨a, rfl, rfl⟩
  · cases h
  · cases h

theorem delItem_ok_dict {t : Tree} {k : Key} {t' : Tree} (h : delItem t k = .ok t') :
    ∃ a, t = .dict a ∧ (a.lookup k).isSome ∧ t' = .dict (a.erase k) := by
  unfold delItem at h
  split at h
  · next a =>
    split at h
    · next hc => cases h; exact ⟨a, rfl, hc, rfl⟩
    · cases h
  · cases h
  · cases h

@[simp] theorem getItem_dict (a : Assoc) (k : Key) :
    getItem (.dict a) k = match a.lookup k with | some v => .ok v | none => .error .keyError := rfl

@[simp] theorem setItem_dict (a : Assoc) (k : Key) (v : Tree) :
    setItem (.dict a) k v = .ok (.dict (a.insert k v)) := rfl

@[simp] theorem delItem_dict (a : Assoc) (k : Key) :
    delItem (.dict a) k = if a.contains k then .ok (.dict (a.erase k)) else .error .keyError := rfl

theorem getItem_setItem_same {t t' : Tree} {k : Key} {v : Tree} (h : setItem t k v = .ok t') :
    getItem t' k = .ok v := by
  obtain ⟨a, rfl, rfl⟩ := setItem_ok_dict h
  simp [Assoc.lookup_insert_same]

theorem getItem_setItem_other {t t' : Tree} {k k' : Key} {v : Tree} (h : setItem t k v = .ok t')
    (hk : k' ≠ k) : getItem t' k' = getItem t k' := by
  obtain ⟨a, rfl, rfl⟩ := setItem_ok_dict h
  simp [Assoc.lookup_insert_other _ _ _ hk]

theorem getItem_delItem_same {t t' : Tree} {k : Key} (h : delItem t k = .ok t') :
    getItem t' k = .error .keyError := by
  obtain ⟨a, rfl, _, rfl⟩ := delItem_ok_dict h
  simp [Assoc.lookup_erase_same]

theorem getItem_delItem_other {t t' : Tree} {k k' : Key} (h : delItem t k = .ok t') (hk : k' ≠ k) :
    getItem t' k' = getItem t k' := by
  obtain ⟨a, rfl, _, rfl⟩ := delItem_ok_dict h
  simp [Assoc.lookup_erase_other _ _ hk]

/-! ### nested indexing -/

@[simp] theorem getPath_nil (t : Tree) : getPath t [] = .ok t := rfl

theorem getPath_cons (t : Tree) (k : Key) (ks : List Key) :
    getPath t (k :: ks) = (getItem t k >>= fun c => getPath c ks) := rfl

theorem setPath_single (t : Tree) (k : Key) (v : Tree) : setPath t [k] v = setItem t k v := rfl

theorem setPath_cons2 (t : Tree) (k k' : Key) (ks : List Key) (v : Tree) :
    setPath t (k :: k' :: ks) v =
      (getItem t k >>= fun c => setPath c (k' :: ks) v >>= fun c' => setItem t k c') := rfl

theorem delPath_single (t : Tree) (k : Key) : delPath t [k] = delItem t k := rfl

theorem delPath_cons2 (t : Tree) (k k' : Key) (ks : List Key) :
    delPath t (k :: k' :: ks) =
      (getItem t k >>= fun c => delPath c (k' :: ks) >>= fun c' => setItem t k c') := rfl

/-- the three ways a nested write `t[k][k']… = v` can have succeeded -/
theorem setPath_cons2_ok {t t' : Tree} {k k' : Key} {ks : List Key} {v : Tree}
    (h : setPath t (k :: k' :: ks) v = .ok t') :
    ∃ c c', getItem t k = .ok c ∧ setPath c (k' :: ks) v = .ok c' ∧ setItem t k c' = .ok t' := by
  rw [setPath_cons2] at h
  cases hc : getItem t k with
  | error e => simp [hc, bind, Except.bind] at h
  | ok c =>
    cases hc' : setPath c (k' :: ks) v with
    | error e => simp [hc, hc', bind, Except.bind] at h
    | ok c' =>
      simp [hc, hc', bind, Except.bind] at h
      exact ⟨c, c', rfl, hc', h⟩

theorem delPath_cons2_ok {t t' : Tree} {k k' : Key} {ks : List Key}
    (h : delPath t (k :: k' :: ks) = .ok t') :
    ∃ c c', getItem t k = .ok c ∧ delPath c (k' :: ks) = .ok c' ∧ setItem t k c' = .ok t' := by
  rw [delPath_cons2] at h
  cases hc : getItem t k with
  | error e => simp [hc, bind, Except.bind] at h
  | ok c =>
    cases hc' : delPath c (k' :: ks) with
    | error e => simp [hc, hc', bind, Except.bind] at h
    | ok c' =>
      simp [hc, hc', bind, Except.bind] at h
      exact ⟨c, c', rfl, hc', h⟩

theorem getPath_setPath_same : ∀ (p : List Key) (t t' v : Tree), p ≠ [] →
    setPath t p v = .ok t' → getPath t' p = .ok v
  | [], _, _, _, hp, _ => absurd rfl hp
  | [k], t, t', v, _, h => by
    rw [setPath_single] at h
    simp [getPath_cons, getItem_setItem_same h, bind, Except.bind]
  | k :: k' :: ks, t, t', v, _, h => by
    obtain ⟨c, c', _, h2, h3⟩ := setPath_cons2_ok h
    have ih := getPath_setPath_same (k' :: ks) c c' v (by simp) h2
    rw [getPath_cons, getItem_setItem_same h3]
    simpa [bind, Except.bind] using ih

/-- `q` and `p` address unrelated entries: neither is a prefix of the other -/
def Unrelated (p q : List Key) : Prop := ¬ p <+: q ∧ ¬ q <+: p

theorem unrelated_cons_same {k : Key} {p q : List Key} (h : Unrelated (k :: p) (k :: q)) : Unrelated p q := by
  constructor
  · intro hp; exact h.1 ((List.prefix_cons_inj k).2 hp)
  · intro hq; exact h.2 ((List.prefix_cons_inj k).2 hq)

theorem getPath_setPath_other : ∀ (p q : List Key) (t t' v : Tree),
    setPath t p v = .ok t' → Unrelated p q → getPath t' q = getPath t q
  | [], q, _, _, _, _, hu => absurd (List.nil_prefix) hu.1
  | _ :: _, [], _, _, _, _, hu => absurd (List.nil_prefix) hu.2
  | [k], kq :: qs, t, t', v, h, hu => by
    rw [setPath_single] at h
    have hne : kq ≠ k := by
      intro e; subst e
      exact hu.1 ((List.prefix_cons_inj kq).2 List.nil_prefix)
    rw [getPath_cons, getPath_cons, getItem_setItem_other h hne]
  | k :: k' :: ks, kq :: qs, t, t', v, h, hu => by
    obtain ⟨c, c', h1, h2, h3⟩ := setPath_cons2_ok h
    rw [getPath_cons, getPath_cons]
    by_cases hne : kq = k
    · subst hne
      rw [getItem_setItem_same h3, h1]
      have ih := getPath_setPath_other (k' :: ks) qs c c' v h2 (unrelated_cons_same hu)
      simpa [bind, Except.bind] using ih
    · rw [getItem_setItem_other h3 hne]

theorem getPath_delPath_same : ∀ (p : List Key) (t t' : Tree), p ≠ [] →
    delPath t p = .ok t' → getPath t' p = .error .keyError
  | [], _, _, hp, _ => absurd rfl hp
  | [k], t, t', _, h => by
    rw [delPath_single] at h
    simp [getPath_cons, getItem_delItem_same h, bind, Except.bind]
  | k :: k' :: ks, t, t', _, h => by
    obtain ⟨c, c', _, h2, h3⟩ := delPath_cons2_ok h
    have ih := getPath_delPath_same (k' :: ks) c c' (by simp) h2
    rw [getPath_cons, getItem_setItem_same h3]
    simpa [bind, Except.bind] using ih

theorem getPath_delPath_other : ∀ (p q : List Key) (t t' : Tree),
    delPath t p = .ok t' → Unrelated p q → getPath t' q = getPath t q
  | [], q, _, _, _, hu => absurd (List.nil_prefix) hu.1
  | _ :: _, [], _, _, _, hu => absurd (List.nil_prefix) hu.2
  | [k], kq :: qs, t, t', h, hu => by
    rw [delPath_single] at h
    have hne : kq ≠ k := by
      intro e; subst e
      exact hu.1 ((List.prefix_cons_inj kq).2 List.nil_prefix)
    rw [getPath_cons, getPath_cons, getItem_delItem_other h hne]
  | k :: k' :: ks, kq :: qs, t, t', h, hu => by
    obtain ⟨c, c', h1, h2, h3⟩ := delPath_cons2_ok h
    rw [getPath_cons, getPath_cons]
    by_cases hne : kq = k
    · subst hne
      rw [getItem_setItem_same h3, h1]
      have ih := getPath_delPath_other (k' :: ks) qs c c' h2 (unrelated_cons_same hu)
      simpa [bind, Except.bind] using ih
    · rw [getItem_setItem_other h3 hne]

/-- after `del t[p ++ [k]]` the parent `t[p]` is still there: it is the old dictionary minus `k` -/
theorem getPath_delPath_parent : ∀ (p : List Key) (k : Key) (t t' : Tree),
    delPath t (p ++ [k]) = .ok t' →
    ∃ a, getPath t p = .ok (.dict a) ∧ (a.lookup k).isSome ∧ getPath t' p = .ok (.dict (a.erase k))
  | [], k, t, t', h => by
    simp only [List.nil_append, delPath_single] at h
    obtain ⟨a, rfl, hc, rfl⟩ := delItem_ok_dict h
    exact ⟨a, rfl, hc, rfl⟩
  | k₀ :: p, k, t, t', h => by
    have h' : delPath t (k₀ :: (p ++ [k])) = .ok t' := by simpa using h
    obtain ⟨k₁, rest, hpr⟩ : ∃ k₁ rest, p ++ [k] = k₁ :: rest := by cases p <;> simp
    rw [hpr] at h'
    obtain ⟨c, c', h1, h2, h3⟩ := delPath_cons2_ok h'
    rw [← hpr] at h2
    obtain ⟨a, g1, hc, g2⟩ := getPath_delPath_parent p k c c' h2
    refine ⟨a, ?_, hc, ?_⟩
    · rw [getPath_cons, h1]; simpa [bind, Except.bind] using g1
    · rw [getPath_cons, getItem_setItem_same h3]; simpa [bind, Except.bind] using g2

/-- a write below a parent that cannot be reached fails with the parent's error (no auto-creation) -/
theorem setPath_parent_error : ∀ (p : List Key) (k : Key) (t v : Tree) (e : Err), p ≠ [] →
    getPath t p = .error e → setPath t (p ++ [k]) v = .error e
  | [], _, _, _, _, hp, _ => absurd rfl hp
  | [k₀], k, t, v, e, _, h => by
    simp only [List.cons_append, List.nil_append, setPath_cons2]
    rw [getPath_cons] at h
    cases hc : getItem t k₀ with
    | error e' => simp [hc, bind, Except.bind] at h ⊢; exact h
    | ok c => simp [hc, bind, Except.bind] at h
  | k₀ :: k₁ :: p, k, t, v, e, _, h => by
    simp only [List.cons_append, setPath_cons2]
    rw [getPath_cons] at h
    cases hc : getItem t k₀ with
    | error e' => simp [hc, bind, Except.bind] at h ⊢; exact h
    | ok c =>
      simp [hc, bind, Except.bind] at h
      have ih := setPath_parent_error (k₁ :: p) k c v e (by simp) h
      simp only [List.cons_append] at ih
      simp [bind, Except.bind, ih]

/-! ### key paths -/

theorem splitSlash_ne_nil (s : Key) : splitSlash s ≠ [] := by
  induction s with
  | nil => simp [splitSlash]
  | cons c cs ih =>
    unfold splitSlash
    split
    · simp
    · split <;> simp

theorem splitSlash_noSlash (s : Key) (h : '/' ∉ s) : splitSlash s = [s] := by
  induction s with
  | nil => rfl
  | cons c cs ih =>
    have hc : c ≠ '/' := fun e => h (by simp [e])
    have hcs : '/' ∉ cs := fun e => h (by simp [e])
    simp [splitSlash, hc, ih hcs]

theorem splitSlash_append (s rest : Key) (h : '/' ∉ s) :
    splitSlash (s ++ '/' :: rest) = s :: splitSlash rest := by
  induction s with
  | nil => simp [splitSlash]
  | cons c cs ih =>
    have hc : c ≠ '/' := fun e => h (by simp [e])
    have hcs : '/' ∉ cs := fun e => h (by simp [e])
    simp [splitSlash, hc, ih hcs]

/-- `'/'.join(segs).split('/') == segs` when no level contains a slash -/
theorem splitSlash_joinSlash : ∀ (segs : List Key), segs ≠ [] → (∀ s ∈ segs, '/' ∉ s) →
    splitSlash (joinSlash segs) = segs
  | [], h, _ => absurd rfl h
  | [s], _, hs => by simpa [joinSlash] using splitSlash_noSlash s (hs s (by simp))
  | s :: t :: r, _, hs => by
    have ih := splitSlash_joinSlash (t :: r) (by simp) (fun x hx => hs x (by simp [hx]))
    simp only [joinSlash]
    rw [splitSlash_append s _ (hs s (by simp)), ih]

/-! ### yaml-safe conversion -/

theorem Scalar.item_item (s : Scalar) : s.item.item = s.item := by cases s <;> rfl

theorem Scalar.isNp_item (s : Scalar) : s.item.isNp = false := by cases s <;> rfl

theorem Scalar.item_of_not_isNp (s : Scalar) (h : s.isNp = false) : s.item = s := by
  cases s <;> first | rfl | simp [Scalar.isNp] at h

mutual
  theorem arrToList_idem : ∀ t, arrToList (arrToList t) = arrToList t
    | .scalar _ => by simp [arrToList]
    | .seq .array xs => by simp [arrToList]
    | .seq .list xs => by simp [arrToList]
    | .seq .tuple xs => by simp [arrToList]
    | .dict _ => by simp [arrToList]
end

mutual
  theorem itemize_idem : ∀ t, itemize (itemize t) = itemize t
    | .scalar s => by simp [itemize, Scalar.item_item]
    | .seq .array xs => by simp [itemize]
    | .seq .list xs => by simp [itemize, itemizeL_idem xs]
    | .seq .tuple xs => by simp [itemize, itemizeL_idem xs]
    | .dict a => by simp [itemize, itemizeA_idem a]
  theorem itemizeL_idem : ∀ ts, itemizeL (itemizeL ts) = itemizeL ts
    | .nil => by simp [itemizeL]
    | .cons t ts => by simp [itemizeL, itemize_idem t, itemizeL_idem ts]
  theorem itemizeA_idem : ∀ a, itemizeA (itemizeA a) = itemizeA a
    | .nil => by simp [itemizeA]
    | .cons _ v r => by simp [itemizeA, itemize_idem v, itemizeA_idem r]
end

mutual
  /-- converting numpy scalars changes nothing in a tree PyYAML can already write -/
  theorem itemize_of_yamlSafe : ∀ t, yamlSafe t = true → itemize t = t
    | .scalar s, h => by
      simp only [yamlSafe, Bool.not_eq_true'] at h
      simp [itemize, Scalar.item_of_not_isNp s h]
    | .seq .array xs, _ => by simp [itemize]
    | .seq .list xs, h => by simp only [yamlSafe] at h; simp [itemize, itemizeL_of_yamlSafeL xs h]
    | .seq .tuple xs, h => by simp only [yamlSafe] at h; simp [itemize, itemizeL_of_yamlSafeL xs h]
    | .dict a, h => by simp only [yamlSafe] at h; simp [itemize, itemizeA_of_yamlSafeA a h]
  theorem itemizeL_of_yamlSafeL : ∀ ts, yamlSafeL ts = true → itemizeL ts = ts
    | .nil, _ => by simp [itemizeL]
    | .cons t ts, h => by
      simp only [yamlSafeL, Bool.and_eq_true] at h
      simp [itemizeL, itemize_of_yamlSafe t h.1, itemizeL_of_yamlSafeL ts h.2]
  theorem itemizeA_of_yamlSafeA : ∀ a, yamlSafeA a = true → itemizeA a = a
    | .nil, _ => by simp [itemizeA]
    | .cons _ v r, h => by
      simp only [yamlSafeA, Bool.and_eq_true] at h
      simp [itemizeA, itemize_of_yamlSafe v h.1, itemizeA_of_yamlSafeA r h.2]
end

mutual
  /-- after the conversion an array-free value holds no numpy scalar either -/
  theorem yamlSafe_itemize : ∀ t, arrayFree t = true → yamlSafe (itemize t) = true
    | .scalar s, _ => by simp [itemize, yamlSafe, Scalar.isNp_item]
    | .seq .array xs, h => by simp [arrayFree] at h
    | .seq .list xs, h => by simp only [arrayFree] at h; simp [itemize, yamlSafe, yamlSafeL_itemizeL xs h]
    | .seq .tuple xs, h => by simp only [arrayFree] at h; simp [itemize, yamlSafe, yamlSafeL_itemizeL xs h]
    | .dict a, h => by simp only [arrayFree] at h; simp [itemize, yamlSafe, yamlSafeA_itemizeA a h]
  theorem yamlSafeL_itemizeL : ∀ ts, arrayFreeL ts = true → yamlSafeL (itemizeL ts) = true
    | .nil, _ => by simp [itemizeL, yamlSafeL]
    | .cons t ts, h => by
      simp only [arrayFreeL, Bool.and_eq_true] at h
      simp [itemizeL, yamlSafeL, yamlSafe_itemize t h.1, yamlSafeL_itemizeL ts h.2]
  theorem yamlSafeA_itemizeA : ∀ a, arrayFreeA a = true → yamlSafeA (itemizeA a) = true
    | .nil, _ => by simp [itemizeA, yamlSafeA]
    | .cons _ v r, h => by
      simp only [arrayFreeA, Bool.and_eq_true] at h
      simp [itemizeA, yamlSafeA, yamlSafe_itemize v h.1, yamlSafeA_itemizeA r h.2]
end

mutual
  theorem arrayFree_of_yamlSafe : ∀ t, yamlSafe t = true → arrayFree t = true
    | .scalar _, _ => by simp [arrayFree]
    | .seq .array xs, h => by simp [yamlSafe] at h
    | .seq .list xs, h => by simp only [yamlSafe] at h; simp [arrayFree, arrayFreeL_of_yamlSafeL xs h]
    | .seq .tuple xs, h => by simp only [yamlSafe] at h; simp [arrayFree, arrayFreeL_of_yamlSafeL xs h]
    | .dict a, h => by simp only [yamlSafe] at h; simp [arrayFree, arrayFreeA_of_yamlSafeA a h]
  theorem arrayFreeL_of_yamlSafeL : ∀ ts, yamlSafeL ts = true → arrayFreeL ts = true
    | .nil, _ => by simp [arrayFreeL]
    | .cons t ts, h => by
      simp only [yamlSafeL, Bool.and_eq_true] at h
      simp [arrayFreeL, arrayFree_of_yamlSafe t h.1, arrayFreeL_of_yamlSafeL ts h.2]
  theorem arrayFreeA_of_yamlSafeA : ∀ a, yamlSafeA a = true → arrayFreeA a = true
    | .nil, _ => by simp [arrayFreeA]
    | .cons _ v r, h => by
      simp only [yamlSafeA, Bool.and_eq_true] at h
      simp [arrayFreeA, arrayFree_of_yamlSafe v h.1, arrayFreeA_of_yamlSafeA r h.2]
end

mutual
  theorem yamlSafe_arrToList : ∀ t, pureArray t = true → yamlSafe (arrToList t) = true
    | .scalar s, h => by simpa [arrToList, yamlSafe, pureArray] using h
    | .seq .array xs, h => by
      simp only [pureArray] at h
      simp [arrToList, yamlSafe, yamlSafeL_arrToListL xs h]
    | .seq .list xs, h => by simp [pureArray] at h
    | .seq .tuple xs, h => by simp [pureArray] at h
    | .dict _, h => by simp [pureArray] at h
  theorem yamlSafeL_arrToListL : ∀ ts, pureArrayL ts = true → yamlSafeL (arrToListL ts) = true
    | .nil, _ => by simp [arrToListL, yamlSafeL]
    | .cons t ts, h => by
      simp only [pureArrayL, Bool.and_eq_true] at h
      simp [arrToListL, yamlSafeL, yamlSafe_arrToList t h.1, yamlSafeL_arrToListL ts h.2]
end

mutual
  theorem yamlSafe_toSafe : ∀ t, plain t = true → yamlSafe (toSafe t) = true
    | .scalar s, _ => by simp [toSafe, yamlSafe, Scalar.isNp_item]
    | .seq .array xs, h => by
      simp only [plain] at h
      simp [toSafe, yamlSafe, yamlSafeL_arrToListL xs h]
    | .seq .list xs, h => by simp only [plain] at h; simp [toSafe, yamlSafe, yamlSafeL_itemizeL xs h]
    | .seq .tuple xs, h => by simp only [plain] at h; simp [toSafe, yamlSafe, yamlSafeL_itemizeL xs h]
    | .dict a, h => by
      simp only [plain] at h
      simp [toSafe, yamlSafe, yamlSafeA_toSafeA a h]
  theorem yamlSafeA_toSafeA : ∀ a, plainA a = true → yamlSafeA (toSafeA a) = true
    | .nil, _ => by simp [toSafeA, yamlSafeA]
    | .cons _ v r, h => by
      simp only [plainA, Bool.and_eq_true] at h
      simp [toSafeA, yamlSafeA, yamlSafe_toSafe v h.1, yamlSafeA_toSafeA r h.2]
end

mutual
  theorem plain_of_yamlSafe : ∀ t, yamlSafe t = true → plain t = true
    | .scalar _, _ => by simp [plain]
    | .seq .array xs, h => by simp [yamlSafe] at h
    | .seq .list xs, h => by simp only [yamlSafe] at h; simp [plain, arrayFreeL_of_yamlSafeL xs h]
    | .seq .tuple xs, h => by simp only [yamlSafe] at h; simp [plain, arrayFreeL_of_yamlSafeL xs h]
    | .dict a, h => by simp only [yamlSafe] at h; simp [plain, plainA_of_yamlSafeA a h]
  theorem plainA_of_yamlSafeA : ∀ a, yamlSafeA a = true → plainA a = true
    | .nil, _ => by simp [plainA]
    | .cons _ v r, h => by
      simp only [yamlSafeA, Bool.and_eq_true] at h
      simp [plainA, plain_of_yamlSafe v h.1, plainA_of_yamlSafeA r h.2]
end

theorem arrayFreeA_toSafeA (a : Assoc) (h : plainA a = true) : arrayFreeA (toSafeA a) = true :=
  arrayFreeA_of_yamlSafeA _ (yamlSafeA_toSafeA a h)

mutual
  /-- a second conversion changes nothing (on the documented option values; an object array holding
      lists of numpy scalars would be the exception) -/
  theorem toSafe_idem : ∀ t, plain t = true → toSafe (toSafe t) = toSafe t
    | .scalar s, _ => by simp [toSafe, Scalar.item_item]
    | .seq .array xs, h => by
      simp only [plain] at h
      simp [toSafe, itemizeL_of_yamlSafeL _ (yamlSafeL_arrToListL xs h)]
    | .seq .list xs, _ => by simp [toSafe, itemizeL_idem xs]
    | .seq .tuple xs, _ => by simp [toSafe, itemizeL_idem xs]
    | .dict a, h => by simp only [plain] at h; simp [toSafe, toSafeA_idem a h]
  theorem toSafeA_idem : ∀ a, plainA a = true → toSafeA (toSafeA a) = toSafeA a
    | .nil, _ => by simp [toSafeA]
    | .cons _ v r, h => by
      simp only [plainA, Bool.and_eq_true] at h
      simp [toSafeA, toSafe_idem v h.1, toSafeA_idem r h.2]
end

mutual
  theorem eraseKinds_arrToList : ∀ t, eraseKinds (arrToList t) = eraseKinds t
    | .scalar _ => by simp [arrToList]
    | .seq .array xs => by simp [arrToList, eraseKinds, eraseKindsL_arrToListL xs]
    | .seq .list xs => by simp [arrToList]
    | .seq .tuple xs => by simp [arrToList]
    | .dict _ => by simp [arrToList]
  theorem eraseKindsL_arrToListL : ∀ ts, eraseKindsL (arrToListL ts) = eraseKindsL ts
    | .nil => by simp [arrToListL]
    | .cons t ts => by simp [arrToListL, eraseKindsL, eraseKinds_arrToList t, eraseKindsL_arrToListL ts]
end

mutual
  theorem eraseKinds_itemize : ∀ t, eraseKinds (itemize t) = eraseKinds t
    | .scalar s => by simp [itemize, eraseKinds, Scalar.item_item]
    | .seq .array xs => by simp [itemize]
    | .seq .list xs => by simp [itemize, eraseKinds, eraseKindsL_itemizeL xs]
    | .seq .tuple xs => by simp [itemize, eraseKinds, eraseKindsL_itemizeL xs]
    | .dict a => by simp [itemize, eraseKinds, eraseKindsA_itemizeA a]
  theorem eraseKindsL_itemizeL : ∀ ts, eraseKindsL (itemizeL ts) = eraseKindsL ts
    | .nil => by simp [itemizeL]
    | .cons t ts => by simp [itemizeL, eraseKindsL, eraseKinds_itemize t, eraseKindsL_itemizeL ts]
  theorem eraseKindsA_itemizeA : ∀ a, eraseKindsA (itemizeA a) = eraseKindsA a
    | .nil => by simp [itemizeA]
    | .cons _ v r => by simp [itemizeA, eraseKindsA, eraseKinds_itemize v, eraseKindsA_itemizeA r]
end

mutual
  theorem eraseKinds_toSafe : ∀ t, eraseKinds (toSafe t) = eraseKinds t
    | .scalar s => by simp [toSafe, eraseKinds, Scalar.item_item]
    | .seq .array xs => by simp [toSafe, eraseKinds, eraseKindsL_arrToListL xs]
    | .seq .list xs => by simp [toSafe, eraseKinds, eraseKindsL_itemizeL xs]
    | .seq .tuple xs => by simp [toSafe, eraseKinds, eraseKindsL_itemizeL xs]
    | .dict a => by simp [toSafe, eraseKinds, eraseKindsA_toSafeA a]
  theorem eraseKindsA_toSafeA : ∀ a, eraseKindsA (toSafeA a) = eraseKindsA a
    | .nil => by simp [toSafeA]
    | .cons _ v r => by simp [toSafeA, eraseKindsA, eraseKinds_toSafe v, eraseKindsA_toSafeA r]
end

theorem lookup_toSafeA_scalar : ∀ (a : Assoc) (key : Key) (s : Scalar), a.lookup key = some (.scalar s) →
    (toSafeA a).lookup key = some (.scalar s.item)
  | .nil, _, _, h => by simp [Assoc.lookup] at h
  | .cons k' v r, key, s, h => by
    by_cases hk : k' = key
    · simp [Assoc.lookup, hk] at h; subst h; simp [toSafeA, toSafe, Assoc.lookup, hk]
    · simp [Assoc.lookup, hk] at h; simp [toSafeA, Assoc.lookup, hk, lookup_toSafeA_scalar r key s h]

theorem strOkA_toSafeA : ∀ a, strOkA (toSafeA a) = strOkA a
  | .nil => by simp [toSafeA]
  | .cons key v r => by
    have ih := strOkA_toSafeA r
    cases v with
    | scalar s => simp [toSafeA, toSafe, strOkA, ih]
    | dict d => simp [toSafeA, toSafe, strOkA, ih]
    | seq kd xs => cases kd <;> simp [toSafeA, toSafe, strOkA, ih]

/-! ### `get_config` -/

theorem keyTransform_noSlash (p : Key) (h : '/' ∉ p) : keyTransform p = .ok [p] := by
  simp [keyTransform, splitSlash_noSlash p h]

theorem cfgSet_noSlash (store : Tree) (p : Key) (v : Tree) (h : '/' ∉ p) :
    cfgSet store p v = setItem store p v := by
  simp [cfgSet, keyTransform_noSlash p h, bind, Except.bind]

/-- `for p, d in opts: store[p] = d` on a plain dict -/
def assignA : Assoc → Assoc → Assoc
  | s, .nil => s
  | s, .cons p d r => assignA (s.insert p d) r

theorem assignAll_dict : ∀ (a s : Assoc), (∀ p ∈ a.keys, '/' ∉ p) →
    assignAll (.dict s) a = .ok (.dict (assignA s a))
  | .nil, s, _ => rfl
  | .cons p d r, s, h => by
    have hp : '/' ∉ p := h p (by simp [Assoc.keys])
    have ih := assignAll_dict r (s.insert p d) (fun q hq => h q (by simp [Assoc.keys, hq]))
    simp [assignAll, cfgSet_noSlash _ p d hp, bind, Except.bind, ih, assignA]

def NodupKeys (a : Assoc) : Prop := a.keys.Nodup

theorem lookup_none_of_not_mem : ∀ (a : Assoc) (q : Key), q ∉ a.keys → a.lookup q = none
  | .nil, _, _ => rfl
  | .cons p d r, q, h => by
    have h1 : ¬ p = q := fun e => h (by simp [Assoc.keys, e])
    have h2 : q ∉ r.keys := fun e => h (by simp [Assoc.keys, e])
    simp [Assoc.lookup, h1, lookup_none_of_not_mem r q h2]

theorem lookup_assignA : ∀ (a s : Assoc) (q : Key), NodupKeys a →
    (assignA s a).lookup q = (match a.lookup q with | some d => some d | none => s.lookup q)
  | .nil, s, q, _ => by simp [assignA, Assoc.lookup]
  | .cons p d r, s, q, h => by
    have hnd : p ∉ r.keys ∧ NodupKeys r := by simpa [NodupKeys, Assoc.keys] using h
    have ih := lookup_assignA r (s.insert p d) q hnd.2
    rw [assignA, ih]
    by_cases hpq : p = q
    · subst hpq
      simp [Assoc.lookup, lookup_none_of_not_mem r p hnd.1, Assoc.lookup_insert_same]
    · have : q ≠ p := fun e => hpq e.symm
      simp [Assoc.lookup, hpq, Assoc.lookup_insert_other _ _ _ this]

theorem lookup_functionOpts : ∀ (a : Assoc) (ign : List Key) (q : Key),
    (functionOpts ign a).lookup q = if q ∈ ign then none else a.lookup q
  | .nil, ign, q => by simp [functionOpts, Assoc.lookup]
  | .cons p d r, ign, q => by
    by_cases hp : p ∈ ign
    · have ih := lookup_functionOpts r ign q
      simp only [functionOpts, hp, if_true, ih]
      by_cases hq : q ∈ ign
      · simp [hq]
      · have : ¬ p = q := fun e => hq (e ▸ hp)
        simp [hq, Assoc.lookup, this]
    · have ih := lookup_functionOpts r (p :: ign) q
      simp only [functionOpts, hp, if_false, Assoc.lookup, ih]
      by_cases hpq : p = q
      · subst hpq; simp [hp]
      · have : ¬ q = p := fun e => hpq e.symm
        simp [hpq, this]

theorem keys_functionOpts_sub : ∀ (a : Assoc) (ign : List Key) (q : Key),
    q ∈ (functionOpts ign a).keys → q ∈ a.keys ∧ q ∉ ign
  | .nil, _, _, h => by simp [functionOpts, Assoc.keys] at h
  | .cons p d r, ign, q, h => by
    by_cases hp : p ∈ ign
    · simp only [functionOpts, hp, if_true] at h
      have := keys_functionOpts_sub r ign q h
      exact ⟨by simp [Assoc.keys, this.1], this.2⟩
    · simp only [functionOpts, hp, if_false, Assoc.keys, List.mem_cons] at h
      rcases h with rfl | h
      · exact ⟨by simp [Assoc.keys], hp⟩
      · have := keys_functionOpts_sub r (p :: ign) q h
        exact ⟨by simp [Assoc.keys, this.1], fun e => this.2 (by simp [e])⟩

theorem nodup_functionOpts : ∀ (a : Assoc) (ign : List Key), NodupKeys (functionOpts ign a)
  | .nil, _ => by simp [functionOpts, NodupKeys, Assoc.keys]
  | .cons p d r, ign => by
    by_cases hp : p ∈ ign
    · simpa [functionOpts, hp] using nodup_functionOpts r ign
    · have ih := nodup_functionOpts r (p :: ign)
      have hnot : p ∉ (functionOpts (p :: ign) r).keys := fun h =>
        (keys_functionOpts_sub r (p :: ign) p h).2 (by simp)
      simp only [functionOpts, hp, if_false, NodupKeys, Assoc.keys, List.nodup_cons]
      exact ⟨hnot, ih⟩

theorem keyTransform_ok_shape {key : Key} {p : List Key} (h : keyTransform key = .ok p) :
    p ≠ [] ∧ p.length ≤ 3 := by
  unfold keyTransform at h
  simp only [] at h
  split at h
  · cases h
  · cases h
    exact ⟨splitSlash_ne_nil key, by omega⟩


end Config
