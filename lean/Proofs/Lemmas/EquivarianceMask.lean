/-
  Helper lemmas for C02 (phase 2) — the masked sift with ratio amplitudes under rescaling / sign flip
  (`Mask.getNextImfMask`, `maskSiftLoop`, `maskSift`).
-/
import Proofs.Lemmas.EquivarianceSift
import Proofs.Lemmas.Mask
import Mathlib.Data.Rat.Floor

namespace Mask
open Pool
open Sift (smul_add smul_sub vsum_smul absSum_smul add_comm' add_assoc')
open Extrema (abs'_pos_of_ne abs'_of_pos abs'_of_neg smul_smul)

/-! ### vocabulary -/

/-- the single-IMF extraction of `c • y` is `c` times that of `y`, same continue flag -/
def XSmul (c : Rat) (X X' : Sig → Sig × Bool) : Prop := ∀ y, X' (Sig.smul c y) = (Sig.smul c (X y).1, (X y).2)

/-- oracle contract on `np.std` (validated on every run: `std_abs_homogeneous`) -/
def StdAbsHom (c : Rat) (std : Sig → Rat) : Prop := ∀ y, std (Sig.smul c y) = Rat.abs' c * std y

/-- the phase set of `p` masks is closed under the shift by π: mask `i + p/2` is the negated mask `i` -/
def ShiftClosed (unit : Rat → Nat → Nat → Sig) (p : Nat) : Prop :=
  ∀ f i, i < p → unit f p ((i + p / 2) % p) = Sig.neg (unit f p i)

/-- The waveform's phase set is closed under the half-turn when the number of phases is even — from the single
    oracle fact `cos(2π(x + 1/2)) = −cos(2πx)`: phase `i + p/2 (mod p)` is `i/p + 1/2` or `i/p − 1/2` of a turn. -/
theorem unitOf_shiftClosed (cosTurn : Rat → Rat) (hc : ∀ x, cosTurn (x + 1 / 2) = - cosTurn x) (n p : Nat)
    (heven : p % 2 = 0) : ShiftClosed (unitOf cosTurn n) p := by
  intro f i hi
  have hp : p = p / 2 + p / 2 := by omega
  have hpos : (0 : Rat) < (p : Rat) := by exact_mod_cast (by omega : 0 < p)
  have hhalf : ((p / 2 : Nat) : Rat) / (p : Rat) = 1 / 2 := by
    have : (p : Rat) = ((p / 2 : Nat) : Rat) + ((p / 2 : Nat) : Rat) := by exact_mod_cast hp
    rw [div_eq_iff (ne_of_gt hpos)]
    linarith
  unfold unitOf Sig.neg
  rw [List.map_map]
  apply List.map_congr_left
  intro t _
  simp only [Function.comp, maskPhase]
  by_cases hlt : i + p / 2 < p
  · rw [Nat.mod_eq_of_lt hlt, ← hc]
    congr 1
    push_cast
    rw [add_div, hhalf]; ring
  · have hmod : (i + p / 2) % p = i + p / 2 - p := by
      rw [Nat.mod_eq_sub_mod (by omega), Nat.mod_eq_of_lt (by omega)]
    have hcast : ((i + p / 2 - p : Nat) : Rat) = (i : Rat) + ((p / 2 : Nat) : Rat) - (p : Rat) := by
      rw [Nat.cast_sub (by omega)]; push_cast; ring
    have hx : f * (t : Rat) + ((i + p / 2 - p : Nat) : Rat) / (p : Rat) + 1 / 2 = f * (t : Rat) + (i : Rat) / (p : Rat) := by
      rw [hcast, sub_div, add_div, hhalf, div_self (ne_of_gt hpos)]; ring
    rw [hmod]
    have := hc (f * (t : Rat) + ((i + p / 2 - p : Nat) : Rat) / (p : Rat))
    rw [hx] at this
    rw [this]; ring

/-- the phase grid: 0, 1/p, 2/p, … < 1 turn -/
theorem maskPhase_grid (p : Nat) (hp : 0 < p) :
    maskPhase p 0 = 0 ∧ (∀ i, maskPhase p (i + 1) - maskPhase p i = 1 / (p : Rat)) ∧
    ∀ i, i < p → 0 ≤ maskPhase p i ∧ maskPhase p i < 1 := by
  have hpos : (0 : Rat) < (p : Rat) := by exact_mod_cast hp
  refine ⟨by simp [maskPhase], fun i => ?_, fun i hi => ⟨?_, ?_⟩⟩
  · unfold maskPhase; push_cast; field_simp; ring
  · unfold maskPhase; exact div_nonneg (by exact_mod_cast Nat.zero_le i) (le_of_lt hpos)
  · unfold maskPhase; rw [div_lt_one hpos]; exact_mod_cast hi

/-- a square wave with the half-turn antisymmetry of the cosine (witness for the oracle hypothesis) -/
def sqTurn : Rat → Rat := fun x => if (2 * x).floor % 2 = 0 then 1 else -1
theorem sqTurn_half (x : Rat) : sqTurn (x + 1 / 2) = - sqTurn x := by
  have h : (2 * (x + 1 / 2)).floor = (2 * x).floor + 1 := by
    have : 2 * (x + 1 / 2) = 2 * x + 1 := by ring
    rw [this]
    show ⌊2 * x + 1⌋ = ⌊2 * x⌋ + 1
    exact Int.floor_add_one _
  unfold sqTurn
  rw [h]
  rcases Int.emod_two_eq_zero_or_one (2 * x).floor with h0 | h1
  · have : ((2 * x).floor + 1) % 2 = 1 := by omega
    simp [h0, this]
  · have : ((2 * x).floor + 1) % 2 = 0 := by omega
    simp [h1, this]

/-! ### averaging -/

theorem vsum_perm (n : Nat) {l₁ l₂ : List Sig} (h : l₁.Perm l₂) : Sig.vsum n l₁ = Sig.vsum n l₂ := by
  unfold Sig.vsum
  apply List.Perm.foldl_eq' h
  intro a _ b _ z
  rw [add_assoc', add_comm' a b, ← add_assoc']

theorem meanOver_perm (n : Nat) {l₁ l₂ : List Sig} (h : l₁.Perm l₂) : Ensemble.meanOver n l₁ = Ensemble.meanOver n l₂ := by
  unfold Ensemble.meanOver
  rw [vsum_perm n h, h.length_eq]

theorem meanOver_smul (c : Rat) (n : Nat) (cs : List Sig) :
    Ensemble.meanOver n (cs.map (Sig.smul c)) = Sig.smul c (Ensemble.meanOver n cs) := by
  unfold Ensemble.meanOver
  rw [vsum_smul, List.length_map]
  simp only [Sig.smul, List.map_map]
  apply List.map_congr_left; intro v _
  simp only [Function.comp]; ring

theorem any_congr_mem {α : Type} (l : List α) (f g : α → Bool) (h : ∀ i ∈ l, f i = g i) : l.any f = l.any g := by
  induction l with
  | nil => rfl
  | cons a t ih =>
    simp only [List.any_cons, h a List.mem_cons_self, ih (fun i hi => h i (List.mem_cons_of_mem _ hi))]

/-- the half-turn of the phase index is a permutation of `0 … p-1` (p even) -/
theorem shift_perm (h : Nat) : ((List.range (h + h)).map fun i => (i + h) % (h + h)).Perm (List.range (h + h)) := by
  rw [List.range_add, List.map_append, List.map_map]
  have e1 : (List.range h).map (fun i => (i + h) % (h + h)) = (List.range h).map (fun x => h + x) := by
    apply List.map_congr_left; intro i hi
    have := List.mem_range.mp hi
    rw [Nat.mod_eq_of_lt (by omega)]; omega
  have e2 : (List.range h).map ((fun i => (i + h) % (h + h)) ∘ fun x => h + x) = List.range h := by
    conv_rhs => rw [← List.map_id (List.range h)]
    apply List.map_congr_left; intro i hi
    have := List.mem_range.mp hi
    simp only [Function.comp, id]
    have : h + i + h = i + (h + h) := by omega
    rw [this, Nat.add_mod_right, Nat.mod_eq_of_lt (by omega)]
  rw [e1, e2]
  exact List.perm_append_comm

/-! ### one masked extraction -/

/-- If the masks of the scaled call are `c` times the masks of the original call up to a permutation `π` of the
    phase index, the masked extraction of `c • x` is `c` times that of `x`. -/
theorem getNextImfMask_transform (c : Rat) (X X' : Sig → Sig × Bool) (hX : XSmul c X X') (m m' : Nat → Sig) (p : Nat)
    (π : Nat → Nat) (hπ : ((List.range p).map π).Perm (List.range p))
    (hm : ∀ i, i < p → m' i = Sig.smul c (m (π i))) (x : Sig) :
    getNextImfMask X' m' p (Sig.smul c x) = (Sig.smul c (getNextImfMask X m p x).1, (getNextImfMask X m p x).2) := by
  rw [getNextImfMask_eq, getNextImfMask_eq]
  have hterm : ∀ i, i ∈ List.range p → X' (Sig.add (Sig.smul c x) (m' i)) =
      (Sig.smul c (X (Sig.add x (m (π i)))).1, (X (Sig.add x (m (π i)))).2) := by
    intro i hi
    rw [hm i (List.mem_range.mp hi), smul_add, hX]
  refine Prod.ext ?_ ?_
  · show phaseAverage X' m' p (Sig.smul c x) = Sig.smul c (phaseAverage X m p x)
    unfold phaseAverage
    have e : ((List.range p).map fun i => Sig.sub (X' (Sig.add (Sig.smul c x) (m' i))).1 (m' i))
        = (((List.range p).map π).map fun j => Sig.sub (X (Sig.add x (m j))).1 (m j)).map (Sig.smul c) := by
      rw [List.map_map, List.map_map]
      apply List.map_congr_left; intro i hi
      simp only [Function.comp]
      rw [hterm i hi, hm i (List.mem_range.mp hi), smul_sub]
    rw [e, meanOver_smul, Sift.length_smul, meanOver_perm x.length (hπ.map _)]
  · show ((List.range p).any fun i => (X' (Sig.add (Sig.smul c x) (m' i))).2) = (List.range p).any fun i => (X (Sig.add x (m i))).2
    have e : ((List.range p).any fun i => (X' (Sig.add (Sig.smul c x) (m' i))).2)
        = ((List.range p).map π).any fun j => (X (Sig.add x (m j))).2 := by
      rw [List.any_map]
      apply any_congr_mem
      intro i hi
      simp only [Function.comp]
      rw [hterm i hi]
    rw [e]
    exact hπ.any_eq

/-- masks of one layer under a ratio amplitude, `c > 0` -/
theorem layerMask_pos (c : Rat) (hc : 0 < c) (unit : Rat → Nat → Nat → Sig) (f A : Rat) (p i : Nat) :
    layerMask unit f (Rat.abs' c * A) p i = Sig.smul c (layerMask unit f A p i) := by
  unfold layerMask
  rw [smul_smul, abs'_of_pos c hc]

/-- …and `c < 0`, phase set closed under the half-turn -/
theorem layerMask_neg (c : Rat) (hc : c < 0) (unit : Rat → Nat → Nat → Sig) (p : Nat) (hu : ShiftClosed unit p)
    (f A : Rat) (i : Nat) (hi : i < p) :
    layerMask unit f (Rat.abs' c * A) p i = Sig.smul c (layerMask unit f A p ((i + p / 2) % p)) := by
  unfold layerMask
  rw [hu f i hi, smul_smul, abs'_of_neg c hc]
  simp only [Sig.smul, Sig.neg, List.map_map]
  apply List.map_congr_left; intro v _
  simp only [Function.comp]; ring

/-! ### the loop -/

def scaleCfg (c : Rat) (cfg : Cfg) : Cfg := { cfg with thresh := Rat.abs' c * cfg.thresh }

@[simp] theorem scaleCfg_p (c : Rat) (cfg : Cfg) : (scaleCfg c cfg).p = cfg.p := rfl
@[simp] theorem scaleCfg_amp (c : Rat) (cfg : Cfg) : (scaleCfg c cfg).amp = cfg.amp := rfl
@[simp] theorem scaleCfg_mode (c : Rat) (cfg : Cfg) : (scaleCfg c cfg).mode = cfg.mode := rfl
@[simp] theorem scaleCfg_thresh (c : Rat) (cfg : Cfg) : (scaleCfg c cfg).thresh = Rat.abs' c * cfg.thresh := rfl

theorem sdFor_smul (c : Rat) (std : Sig → Rat) (hstd : StdAbsHom c std) (mode : AmpMode) (hmode : mode ≠ .abs) (x : Sig)
    (cols : List Sig) :
    sdFor std mode (Sig.smul c x) (cols.map (Sig.smul c)).getLast? = Rat.abs' c * sdFor std mode x cols.getLast? := by
  rw [List.getLast?_map]
  cases mode with
  | abs => exact absurd rfl hmode
  | ratioSig => simp [sdFor, hstd x]
  | ratioImf =>
    cases cols.getLast? with
    | none => simp [sdFor, hstd x]
    | some v => simp [sdFor, hstd v]

/-- one layer of the scaled run -/
theorem layerOf_smul (c : Rat) (X X' : Sig → Sig × Bool) (hX : XSmul c X X')
    (unit : Rat → Nat → Nat → Sig) (std : Sig → Rat) (hstd : StdAbsHom c std) (cfg : Cfg) (hmode : cfg.mode ≠ .abs)
    (π : Nat → Nat) (hπ : ((List.range cfg.p).map π).Perm (List.range cfg.p))
    (hmask : ∀ f A i, i < cfg.p → layerMask unit f (Rat.abs' c * A) cfg.p i = Sig.smul c (layerMask unit f A cfg.p (π i)))
    (x : Sig) (cols : List Sig) (f a : Rat) :
    layerOf X' unit std (scaleCfg c cfg) (Sig.smul c x) (cols.map (Sig.smul c)) f a
      = (Sig.smul c (layerOf X unit std cfg x cols f a).1, (layerOf X unit std cfg x cols f a).2) := by
  unfold layerOf
  have hamp : a * sdFor std cfg.mode (Sig.smul c x) (cols.map (Sig.smul c)).getLast?
      = Rat.abs' c * (a * sdFor std cfg.mode x cols.getLast?) := by
    rw [sdFor_smul c std hstd cfg.mode hmode]; ring
  have hres : Sig.sub (Sig.smul c x) (Sig.vsum (Sig.smul c x).length (cols.map (Sig.smul c)))
      = Sig.smul c (Sig.sub x (Sig.vsum x.length cols)) := by
    rw [Sift.length_smul, vsum_smul, smul_sub]
  show getNextImfMask X' (layerMask unit f (a * sdFor std cfg.mode (Sig.smul c x) (cols.map (Sig.smul c)).getLast?) cfg.p) cfg.p
      (Sig.sub (Sig.smul c x) (Sig.vsum (Sig.smul c x).length (cols.map (Sig.smul c)))) = _
  rw [hamp, hres]
  exact getNextImfMask_transform c X X' hX _ _ cfg.p π hπ (fun i hi => hmask f _ i hi) _

theorem maskSiftLoop_cons (X : Sig → Sig × Bool) (unit : Rat → Nat → Nat → Sig) (std : Sig → Rat) (cfg : Cfg) (cap : Nat)
    (x : Sig) (k : Nat) (cols : List Sig) (f : Rat) (rest : List Rat) :
    maskSiftLoop (fun _ => Schedule.roundRobin cfg.p 1) X unit std cfg cap x k cols (f :: rest) =
      match ampAt cfg.amp k with
      | none => .error .indexError
      | some a =>
        if cfg.p = 0 then .error .valueError
        else
          if (layerOf X unit std cfg x cols f a).2 && !(k + 1 == cap)
              && !(decide (Sig.absSum (layerOf X unit std cfg x cols f a).1 < cfg.thresh)) then
            maskSiftLoop (fun _ => Schedule.roundRobin cfg.p 1) X unit std cfg cap x (k + 1)
              (cols ++ [(layerOf X unit std cfg x cols f a).1]) rest
          else .ok (cols ++ [(layerOf X unit std cfg x cols f a).1]) := by
  rw [maskSiftLoop]; rfl

/-- the loop on one worker; `π` is the phase permutation supplied by `hmask` (identity for `c > 0`, half-turn for `c < 0`) -/
theorem maskSiftLoop_smul (c : Rat) (hc : c ≠ 0) (X X' : Sig → Sig × Bool) (hX : XSmul c X X')
    (unit : Rat → Nat → Nat → Sig) (std : Sig → Rat) (hstd : StdAbsHom c std) (cfg : Cfg) (hmode : cfg.mode ≠ .abs)
    (π : Nat → Nat) (hπ : ((List.range cfg.p).map π).Perm (List.range cfg.p))
    (hmask : ∀ f A i, i < cfg.p → layerMask unit f (Rat.abs' c * A) cfg.p i = Sig.smul c (layerMask unit f A cfg.p (π i)))
    (cap : Nat) (x : Sig) (fr : List Rat) : ∀ (k : Nat) (cols : List Sig),
    maskSiftLoop (fun _ => Schedule.roundRobin cfg.p 1) X' unit std (scaleCfg c cfg) cap (Sig.smul c x) k
        (cols.map (Sig.smul c)) fr
      = (maskSiftLoop (fun _ => Schedule.roundRobin cfg.p 1) X unit std cfg cap x k cols fr).map
          (fun out => out.map (Sig.smul c)) := by
  induction fr with
  | nil => intro k cols; rfl
  | cons f rest ih =>
    intro k cols
    have h1 := maskSiftLoop_cons X' unit std (scaleCfg c cfg) cap (Sig.smul c x) k (cols.map (Sig.smul c)) f rest
    have h2 := maskSiftLoop_cons X unit std cfg cap x k cols f rest
    simp only [scaleCfg_p, scaleCfg_amp, scaleCfg_thresh] at h1
    rw [h1, h2]
    cases ampAt cfg.amp k with
    | none => rfl
    | some a =>
      simp only []
      by_cases hp : cfg.p = 0
      · simp only [hp, if_true]; rfl
      · simp only [hp, if_false]
        have hpos := abs'_pos_of_ne c hc
        have hl := layerOf_smul c X X' hX unit std hstd cfg hmode π hπ hmask x cols f a
        rw [hl]
        generalize layerOf X unit std cfg x cols f a = r
        have hthr : (Sig.absSum (Sig.smul c r.1) < Rat.abs' c * cfg.thresh) ↔ (Sig.absSum r.1 < cfg.thresh) := by
          rw [absSum_smul]
          constructor
          · intro h; exact lt_of_mul_lt_mul_left h (le_of_lt hpos)
          · intro h; exact mul_lt_mul_of_pos_left h hpos
        have happ : cols.map (Sig.smul c) ++ [Sig.smul c r.1] = (cols ++ [r.1]).map (Sig.smul c) := by simp
        simp only [hthr, happ]
        by_cases hgo : (r.2 && !(k + 1 == cap) && !(decide (Sig.absSum r.1 < cfg.thresh))) = true
        · rw [if_pos hgo, if_pos hgo]; exact ih (k + 1) (cols ++ [r.1])
        · rw [if_neg hgo, if_neg hgo]; rfl

end Mask
