/-
  Cross-model consistency: the shape checks duplicated inside the spectra model
  (`Spectra.ensure2d`, `Spectra.equalDimsAll`, `Spectra.equalDimsAt`; C09/C11) are the routines of the
  Support model (`Support.ensure2d`, `Support.ensureEqualDims`; C19).
-/
import EmdModel.Spectra
import EmdModel.Support

namespace ComposeShapes
open Support

theorem ensure2d_agree (s : List Nat) : Spectra.ensure2d s = Support.ensure2d s := by
  unfold Spectra.ensure2d Support.ensure2d
  by_cases h : s.length = 1 <;> simp [h]

/-- outcome of the Spectra-side check as the Support-side result -/
def toExcept : Option Bool → Except Err Unit
  | none => .error .indexError
  | some false => .error .valueError
  | some true => .ok ()

/-- closed form of `pick` -/
theorem pick_eq (s : Shape) (dims : List Nat) :
    pick s dims = if dims.all (fun d => decide (d < s.length)) then .ok (dims.map fun d => s[d]?.getD 0)
                  else .error .indexError := by
  induction dims with
  | nil => rfl
  | cons d ds ih =>
    simp only [pick, ih, List.all_cons, List.map_cons]
    by_cases hd : d < s.length
    · rw [List.getElem?_eq_getElem hd]
      by_cases hr : (ds.all fun d => decide (d < s.length)) = true
      · simp [hd, hr]
      · simp [hd, hr]
    · have : s[d]? = none := List.getElem?_eq_none (by omega)
      simp [this, hd]

/-- closed form of `pickAll` -/
theorem pickAll_eq (dims : List Nat) (ss : List Shape) :
    pickAll dims ss = if ss.all (fun s => dims.all fun d => decide (d < s.length))
                      then .ok (ss.map fun s => dims.map fun d => s[d]?.getD 0)
                      else .error .indexError := by
  induction ss with
  | nil => rfl
  | cons s t ih =>
    simp only [pickAll, pick_eq, ih, List.all_cons, List.map_cons]
    by_cases h1 : (dims.all fun d => decide (d < s.length)) = true
    · by_cases h2 : (t.all fun s => dims.all fun d => decide (d < s.length)) = true
      · simp [h1, h2]
      · simp [h1, h2]
    · simp [h1]

theorem range_all_lt (n m : Nat) : ((List.range n).all fun d => decide (d < m)) = decide (n ≤ m) := by
  rw [Bool.eq_iff_iff]
  simp only [List.all_eq_true, List.mem_range, decide_eq_true_eq]
  constructor
  · intro h
    cases n with
    | zero => omega
    | succ k => have := h k (by omega); omega
  · intro h d hd; omega

theorem range_map_get (s : Shape) (n : Nat) (h : n ≤ s.length) :
    ((List.range n).map fun d => s[d]?.getD 0) = s.take n := by
  apply List.ext_getElem?
  intro i
  by_cases hi : i < n
  · have : i < s.length := by omega
    simp [hi, List.getElem?_take, List.getElem?_eq_getElem this]
  · simp [hi, List.getElem?_take]

/-- **`ensure_equal_dims(dim=None)`**: on a non-empty list of shapes the check inside the spectra model
    is the Support model's routine (IndexError / ValueError / pass). -/
theorem equalDimsAll_agree (s0 : Shape) (rest : List Shape) :
    toExcept (Spectra.equalDimsAll (s0 :: rest)) = ensureEqualDims (s0 :: rest) none := by
  unfold Spectra.equalDimsAll ensureEqualDims dimsOf
  simp only [pick_eq, pickAll_eq, range_all_lt, Nat.le_refl, decide_true, if_true]
  by_cases hany : rest.any (fun s => decide (s.length < s0.length)) = true
  · have hall : ¬ (rest.all fun s => decide (s0.length ≤ s.length)) = true := by
      simp only [List.any_eq_true, decide_eq_true_eq] at hany
      obtain ⟨s, hs, hlt⟩ := hany
      simp only [List.all_eq_true, decide_eq_true_eq]
      intro h; have := h s hs; omega
    simp [hany, hall, toExcept]
  · have hall : (rest.all fun s => decide (s0.length ≤ s.length)) = true := by
      simp only [List.any_eq_true, decide_eq_true_eq, not_exists, not_and] at hany
      simp only [List.all_eq_true, decide_eq_true_eq]
      intro s hs; have := hany s hs; omega
    simp only [hany, hall, if_true, Bool.false_eq_true, if_false]
    rw [range_map_get s0 s0.length (Nat.le_refl _), List.take_length]
    have hmap : (rest.map fun s => (List.range s0.length).map fun d => s[d]?.getD 0)
        = rest.map fun s => s.take s0.length := by
      apply List.map_congr_left
      intro s hs
      simp only [List.all_eq_true, decide_eq_true_eq] at hall
      exact range_map_get s s0.length (hall s hs)
    rw [hmap, List.all_map]
    by_cases hb : (rest.all fun s => s.take s0.length == s0) = true
    · have : (rest.all ((fun x => x == s0) ∘ fun s => s.take s0.length)) = true := hb
      simp [hb, this, toExcept]
    · have : ¬ (rest.all ((fun x => x == s0) ∘ fun s => s.take s0.length)) = true := hb
      simp [hb, this, toExcept]

/-- closed form of the `mapM` used by `Spectra.equalDimsAt` -/
theorem mapM_get_eq (d : Nat) (ss : List (List Nat)) :
    ss.mapM (fun s => s[d]?) = if ss.all (fun s => decide (d < s.length)) then some (ss.map fun s => s[d]?.getD 0)
                    else none := by
  induction ss with
  | nil => rfl
  | cons s t ih =>
    rw [List.mapM_cons, ih]
    by_cases hd : d < s.length
    · rw [List.getElem?_eq_getElem hd]
      by_cases ht : (t.all fun s => decide (d < s.length)) = true
      · simp [hd, ht]
      · simp [hd, ht]
    · have : s[d]? = none := List.getElem?_eq_none (by omega)
      simp [this, hd]

/-- **`ensure_equal_dims(dim=d)`**: on a non-empty list of shapes the check inside the spectra model is
    the Support model's routine. -/
theorem equalDimsAt_agree (s0 : Shape) (rest : List Shape) (d : Nat) :
    toExcept (Spectra.equalDimsAt (s0 :: rest) d) = ensureEqualDims (s0 :: rest) (some d) := by
  unfold Spectra.equalDimsAt ensureEqualDims dimsOf
  simp only [pick_eq, pickAll_eq, mapM_get_eq, List.all_cons, List.all_nil, Bool.and_true, List.map_cons, List.map_nil]
  by_cases h0 : d < s0.length
  · by_cases hr : (rest.all fun s => decide (d < s.length)) = true
    · simp only [h0, hr, decide_true, Bool.and_self, if_true]
      rw [List.all_map]
      by_cases hb : (rest.all fun s => s[d]?.getD 0 == s0[d]?.getD 0) = true
      · have : (rest.all ((fun x => x == [s0[d]?.getD 0]) ∘ fun s => [s[d]?.getD 0])) = true := by
          simpa [Function.comp_def] using hb
        have hb' : (rest.all ((fun x => x == s0[d]?.getD 0) ∘ fun s => s[d]?.getD 0)) = true := hb
        simp [hb', this, toExcept]
      · have : ¬ (rest.all ((fun x => x == [s0[d]?.getD 0]) ∘ fun s => [s[d]?.getD 0])) = true := by
          simpa [Function.comp_def] using hb
        have hb' : ¬ (rest.all ((fun x => x == s0[d]?.getD 0) ∘ fun s => s[d]?.getD 0)) = true := hb
        simp [hb', this, toExcept]
    · simp [h0, hr, toExcept]
  · simp [h0, toExcept]

/-- On the empty list of arrays both models now follow the code (`ensure_equal_dims([], [], f, dim)`):
    `dim=None` raises IndexError (`to_check[0].ndim`), a given `dim` passes silently.  (The two models were
    written independently and originally disagreed with each other — and each with the code in one of the
    two cases — on this unreachable input; the composition proof exposed it, the real code decided.) -/
theorem empty_list_agrees :
    toExcept (Spectra.equalDimsAll []) = ensureEqualDims [] none ∧
    ∀ d, toExcept (Spectra.equalDimsAt [] d) = ensureEqualDims [] (some d) := by
  refine ⟨by simp [Spectra.equalDimsAll, ensureEqualDims, toExcept], ?_⟩
  intro d
  simp [Spectra.equalDimsAt, ensureEqualDims, toExcept]

theorem equalDimsAll_agree_all (ss : List Shape) :
    toExcept (Spectra.equalDimsAll ss) = ensureEqualDims ss none := by
  cases ss with
  | nil => exact empty_list_agrees.1
  | cons s0 rest => exact equalDimsAll_agree s0 rest

theorem equalDimsAt_agree_all (ss : List Shape) (d : Nat) :
    toExcept (Spectra.equalDimsAt ss d) = ensureEqualDims ss (some d) := by
  cases ss with
  | nil => exact empty_list_agrees.2 d
  | cons s0 rest => exact equalDimsAt_agree s0 rest d

end ComposeShapes
