/- The container constructor with all its options (`Container.initOpts`): the stored quality flag. -/
import Proofs.C15

namespace ContainerOpts
open Container

theorem init_ok (g : Cycles.GoodCfg) (pstep thr : Rat) (cache : Bool) (ph : List Rat) :
    (init g pstep thr cache ph).2 = .ok .done := by
  rw [init_eq, computeMetric_ok _ (init0_inv pstep thr cache ph) _ _ _ _ (init0_cv_length pstep thr cache ph)]

theorem isGood_not_timing : isGoodName ∉ (Op.computeTimings).writes := by
  decide

/-- whatever `mode`, `compute_timings`, `use_cache`: the stored `is_good` metric is C13's quality flag -/
theorem initOpts_isGood (g : Cycles.GoodCfg) (pstep thr : Rat) (cache : Bool) (mode : Mode) (timings : Bool)
    (ph : List Rat) :
    sget (initOpts g pstep thr cache mode timings ph).1.metrics isGoodName =
      some ((Cycles.containerIsGood g pstep ph).map fun b => some (if b then 1 else 0)) := by
  unfold initOpts
  simp only [init_ok]
  cases timings with
  | false => exact C15.init_is_good_is_quality_flag g pstep thr cache ph
  | true =>
    simp only [ite_true]
    have := (C15.metric_frame (fun _ => none) (init g pstep thr cache ph).1 .computeTimings isGoodName
      isGood_not_timing).1
    rw [← C15.init_is_good_is_quality_flag g pstep thr cache ph, ← this]
    rfl

theorem mapM_flags (l : List Bool) :
    (l.map fun b => (some (if b then 1 else 0) : Val)).mapM (fun
      | some r => if r = 1 then some true else if r = 0 then some false else none
      | none => none) = some l := by
  induction l with
  | nil => rfl
  | cons b t ih =>
    simp only [List.map_cons, List.mapM_cons, ih]
    cases b <;> simp

theorem initOpts_flags (g : Cycles.GoodCfg) (pstep thr : Rat) (cache : Bool) (mode : Mode) (timings : Bool)
    (ph : List Rat) :
    isGoodFlags (initOpts g pstep thr cache mode timings ph).1 = some (Cycles.containerIsGood g pstep ph) := by
  unfold isGoodFlags
  rw [initOpts_isGood]
  exact mapM_flags _

end ContainerOpts
