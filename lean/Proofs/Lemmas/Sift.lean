/- Helper definitions and lemmas about EmdModel.Sift: single-IMF extraction (C04). -/
import EmdModel.Sift

namespace Sift

/-! ### vector lengths -/

@[simp] theorem length_sub (a b : Sig) : (Sig.sub a b).length = min a.length b.length := by
  simp [Sig.sub]

@[simp] theorem length_add (a b : Sig) : (Sig.add a b).length = min a.length b.length := by
  simp [Sig.add]

@[simp] theorem length_smul (c : Rat) (a : Sig) : (Sig.smul c a).length = a.length := by
  simp [Sig.smul]

@[simp] theorem length_mean2 (a b : Sig) : (Sig.mean2 a b).length = min a.length b.length := by
  simp [Sig.mean2]

@[simp] theorem length_neg (a : Sig) : (Sig.neg a).length = a.length := by
  simp [Sig.neg]

@[simp] theorem length_zeros (n : Nat) : (Sig.zeros n).length = n := by
  simp [Sig.zeros]

/-! ### the declarative specification of one extraction -/

/-- iterate `k` exists, has both envelopes, and the stopping rule does not fire on it -/
def Continues (E : Nat → Sig → Env) (o : ImfOpts) (x : Sig) (k : Nat) : Prop :=
  ∃ h U L, iter E o.step k x = some h ∧ E k h = (some U, some L) ∧
    stopTest o.stop (k + 1) o.maxIters h (Sig.sub h (Sig.mean2 U L)) U L = false

/-- iterate `k` exists, has both envelopes, the rule fires on it, and `c` is that iterate with its
    FULL envelope mean removed -/
def Fires (E : Nat → Sig → Env) (o : ImfOpts) (x : Sig) (k : Nat) (c : Sig) : Prop :=
  ∃ h U L, iter E o.step k x = some h ∧ E k h = (some U, some L) ∧
    stopTest o.stop (k + 1) o.maxIters h (Sig.sub h (Sig.mean2 U L)) U L = true ∧
    c = Sig.sub h (Sig.mean2 U L)

/-- iterate `k` exists, equals `h`, and has an undefined envelope -/
def Vanishes (E : Nat → Sig → Env) (o : ImfOpts) (x : Sig) (k : Nat) (h : Sig) : Prop :=
  iter E o.step k x = some h ∧ ((E k h).1 = none ∨ (E k h).2 = none)

/-- What each way of leaving the loop means, in terms of the spec sequence `iter`:
    the exit index is the LEAST index at which the rule fires / an envelope is missing. -/
def Spec (E : Nat → Sig → Env) (o : ImfOpts) (x : Sig) : Outcome → Prop
  | .stopped k c => k < budget o ∧ (∀ j, j < k → Continues E o x j) ∧ Fires E o x k c
  | .noExtrema k h => k < budget o ∧ (∀ j, j < k → Continues E o x j) ∧ Vanishes E o x k h
  | .noConverge => ∀ j, j < budget o → Continues E o x j

/-- envelopes have the length of the signal they were computed from -/
def EnvLen (E : Nat → Sig → Env) : Prop :=
  ∀ k h U L, E k h = (some U, some L) → U.length = h.length ∧ L.length = h.length

theorem iter_zero (E : Nat → Sig → Env) (s : Rat) (x : Sig) : iter E s 0 x = some x := rfl

theorem iter_step (E : Nat → Sig → Env) (s : Rat) (x : Sig) (k : Nat) (h U L : Sig)
    (hk : iter E s k x = some h) (he : E k h = (some U, some L)) :
    iter E s (k + 1) x = some (Sig.sub h (Sig.smul s (Sig.mean2 U L))) := by
  simp [iter, hk, he]

theorem iter_stuck (E : Nat → Sig → Env) (s : Rat) (x : Sig) (k : Nat) (h : Sig)
    (hk : iter E s k x = some h) (he : (E k h).1 = none ∨ (E k h).2 = none) :
    iter E s (k + 1) x = none := by
  simp only [iter, hk]
  split
  · next U L heq => rw [heq] at he; simp at he
  · rfl

theorem env_none_of_not_both (e : Env) (h : ∀ U L, e = (some U, some L) → False) :
    e.1 = none ∨ e.2 = none := by
  obtain ⟨a, b⟩ := e
  cases a with
  | none => left; rfl
  | some U =>
    cases b with
    | none => right; rfl
    | some L => exact (h U L rfl).elim

theorem loop_spec (E : Nat → Sig → Env) (o : ImfOpts) (x : Sig) :
    ∀ (fuel k : Nat) (h : Sig), iter E o.step k x = some h → (∀ j, j < k → Continues E o x j) →
      k + fuel = budget o → Spec E o x (loop E o fuel k h) := by
  intro fuel
  induction fuel with
  | zero =>
    intro k h _ hc hb
    simp only [loop, Spec]
    intro j hj
    exact hc j (by omega)
  | succ fuel ih =>
    intro k h hk hc hb
    unfold loop
    split
    · next U L he =>
      simp only []
      split
      · next hs =>
        exact ⟨by omega, hc, h, U, L, hk, he, hs, rfl⟩
      · next hs =>
        apply ih (k + 1) _ (iter_step E o.step x k h U L hk he)
        · intro j hj
          by_cases hjk : j < k
          · exact hc j hjk
          · have : j = k := by omega
            subst this
            exact ⟨h, U, L, hk, he, by simpa using hs⟩
        · omega
    · next hne =>
      exact ⟨by omega, hc, hk, env_none_of_not_both _ (fun U L he => hne U L he)⟩

theorem continues_not_fires {E : Nat → Sig → Env} {o : ImfOpts} {x : Sig} {k : Nat} {c : Sig}
    (h1 : Continues E o x k) (h2 : Fires E o x k c) : False := by
  obtain ⟨h, U, L, a1, a2, a3⟩ := h1
  obtain ⟨h', U', L', b1, b2, b3, _⟩ := h2
  rw [a1] at b1; cases b1
  rw [a2] at b2; cases b2
  rw [a3] at b3; cases b3

theorem continues_not_vanishes {E : Nat → Sig → Env} {o : ImfOpts} {x : Sig} {k : Nat} {g : Sig}
    (h1 : Continues E o x k) (h2 : Vanishes E o x k g) : False := by
  obtain ⟨h, U, L, a1, a2, _⟩ := h1
  obtain ⟨b1, b2⟩ := h2
  rw [a1] at b1; cases b1
  rw [a2] at b2; simp at b2

theorem fires_not_vanishes {E : Nat → Sig → Env} {o : ImfOpts} {x : Sig} {k : Nat} {c g : Sig}
    (h1 : Fires E o x k c) (h2 : Vanishes E o x k g) : False := by
  obtain ⟨h, U, L, a1, a2, _, _⟩ := h1
  obtain ⟨b1, b2⟩ := h2
  rw [a1] at b1; cases b1
  rw [a2] at b2; simp at b2

theorem fires_unique {E : Nat → Sig → Env} {o : ImfOpts} {x : Sig} {k : Nat} {c c' : Sig}
    (h1 : Fires E o x k c) (h2 : Fires E o x k c') : c = c' := by
  obtain ⟨h, U, L, a1, a2, _, a4⟩ := h1
  obtain ⟨h', U', L', b1, b2, _, b4⟩ := h2
  rw [a1] at b1; cases b1
  rw [a2] at b2; cases b2
  rw [a4, b4]

theorem vanishes_unique {E : Nat → Sig → Env} {o : ImfOpts} {x : Sig} {k : Nat} {g g' : Sig}
    (h1 : Vanishes E o x k g) (h2 : Vanishes E o x k g') : g = g' := by
  have := h1.1.symm.trans h2.1
  cases this; rfl

/-- the specification determines the outcome -/
theorem spec_det (E : Nat → Sig → Env) (o : ImfOpts) (x : Sig) (r r' : Outcome)
    (h : Spec E o x r) (h' : Spec E o x r') : r = r' := by
  cases r with
  | stopped k c =>
    obtain ⟨hb, hc, hf⟩ := h
    cases r' with
    | stopped k' c' =>
      obtain ⟨hb', hc', hf'⟩ := h'
      rcases Nat.lt_trichotomy k k' with hlt | heq | hgt
      · exact (continues_not_fires (hc' k hlt) hf).elim
      · subst heq; rw [fires_unique hf hf']
      · exact (continues_not_fires (hc k' hgt) hf').elim
    | noExtrema k' g =>
      obtain ⟨hb', hc', hv'⟩ := h'
      rcases Nat.lt_trichotomy k k' with hlt | heq | hgt
      · exact (continues_not_fires (hc' k hlt) hf).elim
      · subst heq; exact (fires_not_vanishes hf hv').elim
      · exact (continues_not_vanishes (hc k' hgt) hv').elim
    | noConverge =>
      exact (continues_not_fires (h' k hb) hf).elim
  | noExtrema k g =>
    obtain ⟨hb, hc, hv⟩ := h
    cases r' with
    | stopped k' c' =>
      obtain ⟨hb', hc', hf'⟩ := h'
      rcases Nat.lt_trichotomy k k' with hlt | heq | hgt
      · exact (continues_not_vanishes (hc' k hlt) hv).elim
      · subst heq; exact (fires_not_vanishes hf' hv).elim
      · exact (continues_not_fires (hc k' hgt) hf').elim
    | noExtrema k' g' =>
      obtain ⟨hb', hc', hv'⟩ := h'
      rcases Nat.lt_trichotomy k k' with hlt | heq | hgt
      · exact (continues_not_vanishes (hc' k hlt) hv).elim
      · subst heq; rw [vanishes_unique hv hv']
      · exact (continues_not_vanishes (hc k' hgt) hv').elim
    | noConverge =>
      exact (continues_not_vanishes (h' k hb) hv).elim
  | noConverge =>
    cases r' with
    | stopped k' c' =>
      obtain ⟨hb', _, hf'⟩ := h'
      exact (continues_not_fires (h k' hb') hf').elim
    | noExtrema k' g' =>
      obtain ⟨hb', _, hv'⟩ := h'
      exact (continues_not_vanishes (h k' hb') hv').elim
    | noConverge => rfl

theorem iter_length (E : Nat → Sig → Env) (hE : EnvLen E) (s : Rat) (x : Sig) :
    ∀ k h, iter E s k x = some h → h.length = x.length := by
  intro k
  induction k with
  | zero => intro h hk; simp [iter] at hk; subst hk; rfl
  | succ k ih =>
    intro h hk
    simp only [iter] at hk
    split at hk
    · cases hk
    · next g hg =>
      split at hk
      · next U L he =>
        cases hk
        obtain ⟨hu, hl⟩ := hE k g U L he
        have := ih g hg
        simp [hu, hl, this]
      · cases hk

theorem run_spec' (E : Nat → Sig → Env) (o : ImfOpts) (x : Sig) : Spec E o x (run E o x) :=
  loop_spec E o x (budget o) 0 x rfl (fun j hj => absurd hj (Nat.not_lt_zero j)) (by omega)

/-- flag cleared (no energy threshold) ⇒ the input is returned unmodified and has an undefined envelope -/
theorem flag_false_unmodified (E : Nat → Sig → Env) (D : Sig → Sig → Rat) (o : ImfOpts) (x c : Sig)
    (he : o.energyThresh = none) (h : getNextImfIx E D o x = .imf c false) :
    c = x ∧ ((E 0 x).1 = none ∨ (E 0 x).2 = none) := by
  have hs := run_spec' E o x
  unfold getNextImfIx at h
  cases hr : run E o x with
  | stopped k c' => rw [hr] at h; simp [finish, energyFlag, he] at h
  | noExtrema k g =>
    rw [hr] at h hs
    simp only [finish, energyFlag, he, ImfResult.imf.injEq] at h
    obtain ⟨rfl, hk⟩ := h
    have hk0 : k = 0 := by simpa using hk
    subst hk0
    obtain ⟨_, _, h1, h2⟩ := hs
    simp only [iter, Option.some.injEq] at h1
    subst h1
    exact ⟨rfl, h2⟩
  | noConverge => rw [hr] at h; simp [finish] at h

/-- every returned component is the first fired iterate (full mean removed) or the first iterate
    without envelopes -/
theorem imf_cases (E : Nat → Sig → Env) (D : Sig → Sig → Rat) (o : ImfOpts) (x c : Sig) (f : Bool)
    (h : getNextImfIx E D o x = .imf c f) :
    ∃ k, k < budget o ∧ (∀ j, j < k → Continues E o x j) ∧ (Fires E o x k c ∨ Vanishes E o x k c) := by
  have hs := run_spec' E o x
  unfold getNextImfIx at h
  cases hr : run E o x with
  | stopped k c' =>
    rw [hr] at h hs; simp only [finish, ImfResult.imf.injEq] at h
    obtain ⟨rfl, _⟩ := h
    exact ⟨k, hs.1, hs.2.1, Or.inl hs.2.2⟩
  | noExtrema k g =>
    rw [hr] at h hs; simp only [finish, ImfResult.imf.injEq] at h
    obtain ⟨rfl, _⟩ := h
    exact ⟨k, hs.1, hs.2.1, Or.inr hs.2.2⟩
  | noConverge => rw [hr] at h; simp [finish] at h

theorem imf_length (E : Nat → Sig → Env) (hE : EnvLen E) (D : Sig → Sig → Rat) (o : ImfOpts)
    (x c : Sig) (f : Bool) (h : getNextImfIx E D o x = .imf c f) : c.length = x.length := by
  obtain ⟨k, _, _, hfv⟩ := imf_cases E D o x c f h
  rcases hfv with ⟨g, U, L, h1, h2, _, h4⟩ | ⟨h1, _⟩
  · have hg := iter_length E hE o.step x k g h1
    obtain ⟨hu, hl⟩ := hE k g U L h2
    subst h4
    simp [hu, hl, hg]
  · exact iter_length E hE o.step x k c h1

end Sift
