/-
  Helper lemmas about `EmdModel.Options` (used by Proofs/C06.lean).
-/
import Proofs.Lemmas.Config
import EmdModel.Options

namespace Options
open Config

/-! ### dictionaries -/

theorem lookup_append (p : Key) : ∀ a b : Assoc, (a.append b).lookup p = (a.lookup p).orElse (fun _ => b.lookup p)
  | .nil, b => by simp [Assoc.append, Assoc.lookup]
  | .cons q v r, b => by
    by_cases h : q = p
    · simp [Assoc.append, Assoc.lookup, h]
    · simp [Assoc.append, Assoc.lookup, h, lookup_append p r b]

theorem keys_append : ∀ a b : Assoc, (a.append b).keys = a.keys ++ b.keys
  | .nil, b => by simp [Assoc.append, Assoc.keys]
  | .cons q v r, b => by simp [Assoc.append, Assoc.keys, keys_append r b]

theorem append_nil : ∀ a : Assoc, a.append .nil = a
  | .nil => rfl
  | .cons q v r => by simp [Assoc.append, append_nil r]

theorem mem_keys_of_lookup {p : Key} {d : Tree} : ∀ {a : Assoc}, a.lookup p = some d → p ∈ a.keys
  | .nil, h => by simp [Assoc.lookup] at h
  | .cons q v r, h => by
    by_cases hq : q = p
    · simp [Assoc.keys, hq]
    · simp [Assoc.lookup, hq] at h
      simp [Assoc.keys, mem_keys_of_lookup h]

theorem lookup_none_of_not_mem' {p : Key} {a : Assoc} (h : p ∉ a.keys) : a.lookup p = none :=
  lookup_none_of_not_mem a p h

theorem noDup_cons {x : Key} {xs : List Key} (h : noDup (x :: xs) = true) : x ∉ xs ∧ noDup xs = true := by
  simp [noDup] at h
  exact ⟨h.1, h.2⟩

theorem noDup_append_right {xs ys : List Key} : noDup (xs ++ ys) = true → noDup ys = true := by
  induction xs with
  | nil => simp
  | cons x xs ih => intro h; exact ih (noDup_cons (by simpa using h)).2

theorem noDup_not_mem_of_append {xs : List Key} {y : Key} : noDup (xs ++ [y]) = true → y ∉ xs := by
  induction xs with
  | nil => simp
  | cons x xs ih =>
    intro h
    have := noDup_cons (x := x) (xs := xs ++ [y]) (by simpa using h)
    intro hm
    rcases List.mem_cons.mp hm with rfl | hm
    · exact this.1 (by simp)
    · exact ih this.2 hm

/-! ### binding -/

theorem lookup_resolve (p : Key) (kw : Assoc) : ∀ sig : Assoc,
    (resolve sig kw).lookup p = (sig.lookup p).map (fun d => (kw.lookup p).getD d)
  | .nil => by simp [resolve, Assoc.lookup]
  | .cons q d r => by
    by_cases h : q = p
    · subst h
      simp only [resolve, Assoc.lookup, if_true, Option.map_some]
      cases kw.lookup q <;> rfl
    · simp [resolve, Assoc.lookup, h, lookup_resolve p kw r]

theorem keys_resolve (kw : Assoc) : ∀ sig : Assoc, (resolve sig kw).keys = sig.keys
  | .nil => rfl
  | .cons q d r => by simp [resolve, Assoc.keys, keys_resolve kw r]

/-- `resolve` depends on the keywords only through the parameters of the signature -/
theorem resolve_congr (kw kw' : Assoc) : ∀ sig : Assoc, (∀ p ∈ sig.keys, kw.lookup p = kw'.lookup p) →
    resolve sig kw = resolve sig kw'
  | .nil, _ => rfl
  | .cons q d r, h => by
    have h1 := h q (by simp [Assoc.keys])
    have h2 := resolve_congr kw kw' r (fun p hp => h p (by simp [Assoc.keys, hp]))
    simp [resolve, h1, h2]

theorem resolve_idem_aux (kw : Assoc) (full : Assoc) : ∀ sig : Assoc,
    (∀ p d, sig.lookup p = some d → full.lookup p = some d) → noDup sig.keys = true →
    resolve sig (resolve full kw) = resolve sig kw
  | .nil, _, _ => rfl
  | .cons q d r, h, hn => by
    obtain ⟨hq, hr⟩ := noDup_cons (by simpa [Assoc.keys] using hn)
    have hfull : full.lookup q = some d := h q d (by simp [Assoc.lookup])
    have ih := resolve_idem_aux kw full r (fun p d' hp => by
      apply h p d'
      have : q ≠ p := fun e => hq (e ▸ mem_keys_of_lookup hp)
      simp [Assoc.lookup, this, hp]) hr
    simp only [resolve, ih, lookup_resolve, hfull, Option.map_some]
    cases kw.lookup q <;> rfl

theorem resolve_idem' (sig kw : Assoc) (h : noDup sig.keys = true) :
    resolve sig (resolve sig kw) = resolve sig kw :=
  resolve_idem_aux kw sig sig (fun _ _ hp => hp) h

theorem zipPos_nil (sig : Assoc) : zipPos sig [] = some .nil := by cases sig <;> rfl

theorem call_nil (sig kw : Assoc) : call sig [] kw = callWith sig kw := by
  simp [call, zipPos_nil, Assoc.append]

theorem call_nil_ok {sig kw a : Assoc} (h : call sig [] kw = .ok a) :
    a = resolve sig kw ∧ noDup kw.keys = true := by
  have h' : callWith sig kw = .ok a := by rw [← call_nil]; exact h
  unfold callWith at h'
  cases hv : validCall sig kw with
  | false => simp [hv] at h'
  | true =>
    simp [hv] at h'
    simp only [validCall, Bool.and_eq_true] at hv
    exact ⟨h'.symm, hv.1.2⟩

theorem arg_resolve (sig kw : Assoc) (name : String) (d : Tree) (h : sig.lookup name.toList = some d) :
    arg (resolve sig kw) name = (kw.lookup name.toList).getD d := by
  simp [arg, lookup_resolve, h]

/-- the value a caller supplied for a dictionary parameter (None when absent) -/
def kwArg (kw : Assoc) (name : String) : Tree := (kw.lookup name.toList).getD Tree.none

/-- the contents of an option dictionary (`None` and anything that is not a dict: nothing) -/
def dictOf : Tree → Assoc
  | .dict a => a
  | _ => .nil

/-! ### the stages' own options -/

def gniOwn : Assoc := mk [("env_step_size", i 1), ("max_iters", i 1000), ("energy_thresh", none'),
  ("stop_method", s "sd"), ("sd_thresh", f0_1), ("rilling_thresh", rillingDefault)]
def ieOwn : Assoc := mk [("interp_method", s "splrep"), ("ret_extrema", b false)]
def gpeOwn : Assoc := mk [("pad_width", i 2), ("parabolic_extrema", b false),
  ("loc_pad_opts", none'), ("mag_pad_opts", none')]

theorem gniSig_own {p : Key} {d : Tree} (h : gniOwn.lookup p = some d) : gniSig.lookup p = some d := by
  have : gniSig = gniOwn.append (mk [("envelope_opts", none'), ("extrema_opts", none')]) := rfl
  rw [this, lookup_append, h]; rfl

theorem not_mem_gniOwn_env : "envelope_opts".toList ∉ gniOwn.keys := by decide
theorem not_mem_gniOwn_ext : "extrema_opts".toList ∉ gniOwn.keys := by decide
theorem not_mem_ieOwn_mode : "mode".toList ∉ ieOwn.keys := by decide
theorem not_mem_ieOwn_ext : "extrema_opts".toList ∉ ieOwn.keys := by decide
theorem not_mem_gpeOwn_mode : "mode".toList ∉ gpeOwn.keys := by decide

theorem ieSig_own {p : Key} {d : Tree} (h : ieOwn.lookup p = some d) : ieSig.lookup p = some d := by
  have hp := mem_keys_of_lookup h
  have hp' : p = "interp_method".toList ∨ p = "ret_extrema".toList := by
    simpa [-String.reduceToList, ieOwn, mk, Assoc.keys] using hp
  rcases hp' with rfl | rfl
  · have : ieOwn.lookup "interp_method".toList = some (s "splrep") := by rfl
    rw [this] at h; cases h; rfl
  · have : ieOwn.lookup "ret_extrema".toList = some (b false) := by rfl
    rw [this] at h; cases h; rfl

theorem gpeSig_own {p : Key} {d : Tree} (h : gpeOwn.lookup p = some d) : gpeSig.lookup p = some d := by
  have hp := mem_keys_of_lookup h
  have hp' : p = "pad_width".toList ∨ p = "parabolic_extrema".toList ∨ p = "loc_pad_opts".toList ∨ p = "mag_pad_opts".toList := by
    simpa [-String.reduceToList, gpeOwn, mk, Assoc.keys] using hp
  rcases hp' with rfl | rfl | rfl | rfl
  · have : gpeOwn.lookup "pad_width".toList = some (i 2) := by rfl
    rw [this] at h; cases h; rfl
  · have : gpeOwn.lookup "parabolic_extrema".toList = some (b false) := by rfl
    rw [this] at h; cases h; rfl
  · have : gpeOwn.lookup "loc_pad_opts".toList = some none' := by rfl
    rw [this] at h; cases h; rfl
  · have : gpeOwn.lookup "mag_pad_opts".toList = some none' := by rfl
    rw [this] at h; cases h; rfl

/-! ### the envelope stage -/

theorem ieM_inv {kw : Assoc} {cs : List StageCall} (h : ieM kw = .ok cs) :
    ∃ a mode xoKw g, call ieSig [] kw = .ok a ∧ okMethod (arg a "interp_method") = true ∧
      gpeMode (arg a "mode") = .ok mode ∧ unpack (extremaOrLiteral (arg a "extrema_opts")) = .ok xoKw ∧
      call gpeSig [] (.cons "mode".toList mode xoKw) = .ok g ∧ cs = [⟨.ie, a⟩, ⟨.gpe, g⟩] := by
  unfold ieM at h
  cases h1 : call ieSig [] kw with
  | error e => simp [-String.reduceToList, h1, bind, Except.bind] at h
  | ok a =>
    cases h2 : okMethod (arg a "interp_method") with
    | false => simp [-String.reduceToList, h1, h2, bind, Except.bind] at h
    | true =>
      cases h3 : gpeMode (arg a "mode") with
      | error e => simp [-String.reduceToList, h1, h2, h3, bind, Except.bind] at h
      | ok mode =>
        cases h4 : unpack (extremaOrLiteral (arg a "extrema_opts")) with
        | error e => simp [-String.reduceToList, h1, h2, h3, h4, bind, Except.bind] at h
        | ok xoKw =>
          cases h5 : call gpeSig [] (.cons "mode".toList mode xoKw) with
          | error e => simp [-String.reduceToList, h1, h2, h3, h4, h5, bind, Except.bind] at h
          | ok g =>
            simp [-String.reduceToList, h1, h2, h3, h4, h5, bind, Except.bind, pure, Except.pure] at h
            exact ⟨a, mode, xoKw, g, rfl, h2, h3, h4, h5, h.symm⟩

theorem unpack_ok {t : Tree} {a : Assoc} (h : unpack t = .ok a) : t = .dict a := by
  cases t <;> simp [unpack] at h
  subst h; rfl

/-- the literal of `interp_envelope` spells out the signature defaults of `get_padded_extrema` -/
theorem ieLiteral_agrees {p : Key} {d : Tree} (h : gpeOwn.lookup p = some d) :
    ((dictOf ieExtremaLiteral).lookup p).getD d = d := by
  have hp := mem_keys_of_lookup h
  have hp' : p = "pad_width".toList ∨ p = "parabolic_extrema".toList ∨ p = "loc_pad_opts".toList ∨ p = "mag_pad_opts".toList := by
    simpa [-String.reduceToList, gpeOwn, mk, Assoc.keys] using hp
  rcases hp' with rfl | rfl | rfl | rfl
  · have : gpeOwn.lookup "pad_width".toList = some (i 2) := by rfl
    rw [this] at h; cases h; rfl
  · have : gpeOwn.lookup "parabolic_extrema".toList = some (b false) := by rfl
    rw [this] at h; cases h; rfl
  · have : gpeOwn.lookup "loc_pad_opts".toList = some none' := by rfl
    rw [this] at h; cases h; rfl
  · have : gpeOwn.lookup "mag_pad_opts".toList = some none' := by rfl
    rw [this] at h; cases h; rfl

theorem dictOf_falsy_dict {xo : Tree} {a : Assoc} (hx : xo = .dict a) (hf : falsy xo = true) : a = .nil := by
  subst hx
  cases a with
  | nil => rfl
  | cons _ _ _ => simp [falsy] at hf

/-- the extrema options `get_padded_extrema` ends up with are the user's (or the defaults) -/
theorem extremaOrLiteral_lookup {xo : Tree} {xoKw : Assoc} (h : unpack (extremaOrLiteral xo) = .ok xoKw)
    {p : Key} {d : Tree} (hp : gpeOwn.lookup p = some d) :
    (xoKw.lookup p).getD d = ((dictOf xo).lookup p).getD d := by
  unfold extremaOrLiteral at h
  cases hf : falsy xo with
  | true =>
    simp [hf] at h
    have hl := unpack_ok h
    have h1 : xoKw = dictOf ieExtremaLiteral := by
      have : ieExtremaLiteral = .dict xoKw := hl
      rw [this]; rfl
    rw [h1, ieLiteral_agrees hp]
    have : (dictOf xo).lookup p = none := by
      cases xo with
      | dict a => rw [dictOf_falsy_dict rfl hf]; rfl
      | scalar _ => rfl
      | seq _ _ => rfl
    simp [this]
  | false =>
    simp [hf] at h
    rw [unpack_ok h]; rfl

/-- one `interp_envelope` call of `get_next_imf` and the `get_padded_extrema` call below it -/
structure IeSpec (eoKw : Assoc) (xo : Tree) (m m' : String) (a g : Assoc) : Prop where
  mode : a.lookup "mode".toList = some (s m)
  own : ∀ p d, ieOwn.lookup p = some d → a.lookup p = some ((eoKw.lookup p).getD d)
  passes : a.lookup "extrema_opts".toList = some xo
  gmode : g.lookup "mode".toList = some (s m')
  gown : ∀ p d, gpeOwn.lookup p = some d → g.lookup p = some (((dictOf xo).lookup p).getD d)

theorem ieM_spec (m m' : String) (hm : gpeMode (s m) = .ok (s m')) (eoKw : Assoc) (xo : Tree)
    {cs : List StageCall} (h : ieM (ieKw m eoKw xo) = .ok cs) :
    ∃ a g, cs = [⟨.ie, a⟩, ⟨.gpe, g⟩] ∧ IeSpec eoKw xo m m' a g := by
  obtain ⟨a, mode, xoKw, g, h1, _, h3, h4, h5, rfl⟩ := ieM_inv h
  obtain ⟨ha, hnd⟩ := call_nil_ok h1
  obtain ⟨hg, _⟩ := call_nil_ok h5
  -- no duplicate names: `envelope_opts` cannot contain `mode` or `extrema_opts`
  have hnd' : noDup (eoKw.keys ++ ["extrema_opts".toList]) = true := by
    have := (noDup_cons (x := "mode".toList) (by simpa [-String.reduceToList, ieKw, Assoc.keys, keys_append] using hnd)).2
    simpa [-String.reduceToList] using this
  have hmode_nm : "mode".toList ∉ eoKw.keys := by
    have := (noDup_cons (x := "mode".toList) (by simpa [-String.reduceToList, ieKw, Assoc.keys, keys_append] using hnd)).1
    intro hm'; exact this (List.mem_append_left _ hm')
  have hext : eoKw.lookup "extrema_opts".toList = none :=
    lookup_none_of_not_mem' (noDup_not_mem_of_append hnd')
  have hkw_mode : (ieKw m eoKw xo).lookup "mode".toList = some (s m) := by simp [-String.reduceToList, ieKw, Assoc.lookup]
  have hkw_ext : (ieKw m eoKw xo).lookup "extrema_opts".toList = some xo := by
    have hne : ¬ "mode".toList = "extrema_opts".toList := by decide
    simp [-String.reduceToList, ieKw, Assoc.lookup, hne, lookup_append, hext]
  have harg_mode : arg a "mode" = s m := by
    rw [ha, arg_resolve ieSig _ "mode" (s "upper") rfl, hkw_mode]; rfl
  have harg_ext : arg a "extrema_opts" = xo := by
    rw [ha, arg_resolve ieSig _ "extrema_opts" none' rfl, hkw_ext]; rfl
  rw [harg_mode, hm] at h3
  cases h3
  rw [harg_ext] at h4
  refine ⟨a, g, rfl, ?_, ?_, ?_, ?_, ?_⟩
  · rw [ha, lookup_resolve, hkw_mode]; rfl
  · intro p d hp
    have hpm : ¬ "mode".toList = p := fun e => not_mem_ieOwn_mode (e ▸ mem_keys_of_lookup hp)
    have hpe : ¬ "extrema_opts".toList = p := fun e => not_mem_ieOwn_ext (e ▸ mem_keys_of_lookup hp)
    have : (ieKw m eoKw xo).lookup p = eoKw.lookup p := by
      simp only [ieKw, Assoc.lookup, hpm, if_false, lookup_append, hpe]
      cases eoKw.lookup p <;> rfl
    rw [ha, lookup_resolve, ieSig_own hp, this]; rfl
  · rw [ha, lookup_resolve, hkw_ext]; rfl
  · have : gpeSig.lookup "mode".toList = some (s "peaks") := rfl
    rw [hg, lookup_resolve, this]; simp [-String.reduceToList, Assoc.lookup]
  · intro p d hp
    have hpm : ¬ "mode".toList = p := fun e => not_mem_gpeOwn_mode (e ▸ mem_keys_of_lookup hp)
    rw [hg, lookup_resolve, gpeSig_own hp]
    simp only [Assoc.lookup, hpm, if_false, Option.map_some]
    rw [extremaOrLiteral_lookup h4 hp]

/-! ### `get_next_imf` and the chain below it -/

theorem gniM_inv {pos : List Tree} {kw : Assoc} {cs : List StageCall} (h : gniM pos kw = .ok cs) :
    ∃ a eoKw up lo, call gniSig pos kw = .ok a ∧ unpack (noneToEmpty (arg a "envelope_opts")) = .ok eoKw ∧
      ieM (ieKw "upper" eoKw (arg a "extrema_opts")) = .ok up ∧
      ieM (ieKw "lower" eoKw (arg a "extrema_opts")) = .ok lo ∧ cs = ⟨.gni, a⟩ :: up ++ lo := by
  unfold gniM at h
  cases h1 : call gniSig pos kw with
  | error e => simp [-String.reduceToList, h1, bind, Except.bind] at h
  | ok a =>
    cases h2 : unpack (noneToEmpty (arg a "envelope_opts")) with
    | error e => simp [-String.reduceToList, h1, h2, bind, Except.bind] at h
    | ok eoKw =>
      cases h3 : ieM (ieKw "upper" eoKw (arg a "extrema_opts")) with
      | error e => simp [-String.reduceToList, h1, h2, h3, bind, Except.bind] at h
      | ok up =>
        cases h4 : ieM (ieKw "lower" eoKw (arg a "extrema_opts")) with
        | error e => simp [-String.reduceToList, h1, h2, h3, h4, bind, Except.bind] at h
        | ok lo =>
          simp [-String.reduceToList, h1, h2, h3, h4, bind, Except.bind, pure, Except.pure] at h
          exact ⟨a, eoKw, up, lo, rfl, h2, h3, h4, h.symm⟩

theorem noneToEmpty_unpack {eo : Tree} {eoKw : Assoc} (h : unpack (noneToEmpty eo) = .ok eoKw) :
    eoKw = dictOf eo := by
  unfold noneToEmpty at h
  cases hn : isNone eo with
  | true =>
    simp [hn] at h
    have := unpack_ok h
    cases this
    cases eo with
    | scalar sc => cases sc <;> first | rfl | simp [isNone] at hn
    | seq _ _ => simp [isNone] at hn
    | dict _ => simp [isNone] at hn
  | false =>
    simp [hn] at h
    rw [unpack_ok h]; rfl

/-- The five stage calls behind one `get_next_imf(X, **kw)`: every own option of every stage is the
    supplied one, or the signature default when none was supplied. -/
structure GniSpec (imf : Assoc) (eo xo : Tree) (cs : List StageCall) : Prop where
  shape : ∃ a aU gU aL gL, cs = [⟨.gni, a⟩, ⟨.ie, aU⟩, ⟨.gpe, gU⟩, ⟨.ie, aL⟩, ⟨.gpe, gL⟩] ∧
    (∀ p d, gniOwn.lookup p = some d → a.lookup p = some ((imf.lookup p).getD d)) ∧
    IeSpec (dictOf eo) xo "upper" "peaks" aU gU ∧ IeSpec (dictOf eo) xo "lower" "troughs" aL gL

theorem gniM_nil_spec {kw : Assoc} {cs : List StageCall} (h : gniM [] kw = .ok cs) :
    GniSpec kw (kwArg kw "envelope_opts") (kwArg kw "extrema_opts") cs := by
  obtain ⟨a, eoKw, up, lo, h1, h2, h3, h4, rfl⟩ := gniM_inv h
  obtain ⟨ha, hnd⟩ := call_nil_ok h1
  have henv : arg a "envelope_opts" = kwArg kw "envelope_opts" := by
    rw [ha, arg_resolve gniSig _ "envelope_opts" none' rfl]; rfl
  have hext : arg a "extrema_opts" = kwArg kw "extrema_opts" := by
    rw [ha, arg_resolve gniSig _ "extrema_opts" none' rfl]; rfl
  rw [henv] at h2
  rw [hext] at h3 h4
  have heo := noneToEmpty_unpack h2
  subst heo
  obtain ⟨aU, gU, rfl, sU⟩ := ieM_spec "upper" "peaks" rfl _ _ h3
  obtain ⟨aL, gL, rfl, sL⟩ := ieM_spec "lower" "troughs" rfl _ _ h4
  refine ⟨a, aU, gU, aL, gL, rfl, ?_, sU, sL⟩
  intro p d hp
  rw [ha, lookup_resolve, gniSig_own hp]; rfl

theorem chain_spec {ioKw : Assoc} {eo xo : Tree} {cs : List StageCall} (h : chain ioKw eo xo = .ok cs) :
    GniSpec ioKw eo xo cs := by
  unfold chain at h
  have hne : ¬ "envelope_opts".toList = "extrema_opts".toList := by decide
  obtain ⟨a, aU, gU, aL, gL, rfl, hown, sU, sL⟩ := (gniM_nil_spec h).shape
  have e1 : kwArg (.cons "envelope_opts".toList eo (.cons "extrema_opts".toList xo ioKw)) "envelope_opts" = eo := by
    simp [-String.reduceToList, kwArg, Assoc.lookup]
  have e2 : kwArg (.cons "envelope_opts".toList eo (.cons "extrema_opts".toList xo ioKw)) "extrema_opts" = xo := by
    simp [-String.reduceToList, kwArg, Assoc.lookup, hne]
  rw [e1, e2] at sU sL
  refine ⟨a, aU, gU, aL, gL, rfl, ?_, sU, sL⟩
  intro p d hp
  have h1' : ¬ "envelope_opts".toList = p := fun e => not_mem_gniOwn_env (e ▸ mem_keys_of_lookup hp)
  have h2' : ¬ "extrema_opts".toList = p := fun e => not_mem_gniOwn_ext (e ▸ mem_keys_of_lookup hp)
  rw [hown p d hp]
  simp [-String.reduceToList, Assoc.lookup, h1', h2']

/-! ### what "the stage works with the user's options" means -/

/-- the value `get_padded_extrema` really uses for an option (`if not loc_pad_opts: …literal…`) -/
def effVal (p : Key) (v : Tree) : Tree :=
  if p = "loc_pad_opts".toList then normPad gpeLocLiteral v
  else if p = "mag_pad_opts".toList then normPad gpeMagLiteral v
  else v

/-- one complete `get_next_imf` chain in which every stage works with exactly the options
    `imf`, `env`, `ext` (a missing entry means the signature default) -/
structure ChainObeys (imf env ext : Assoc) (c : List StageCall) : Prop where
  shape : ∃ a aU gU aL gL, c = [⟨.gni, a⟩, ⟨.ie, aU⟩, ⟨.gpe, gU⟩, ⟨.ie, aL⟩, ⟨.gpe, gL⟩] ∧
    (∀ p d, gniOwn.lookup p = some d → a.lookup p = some ((imf.lookup p).getD d)) ∧
    aU.lookup "mode".toList = some (s "upper") ∧ aL.lookup "mode".toList = some (s "lower") ∧
    (∀ p d, ieOwn.lookup p = some d →
      aU.lookup p = some ((env.lookup p).getD d) ∧ aL.lookup p = some ((env.lookup p).getD d)) ∧
    gU.lookup "mode".toList = some (s "peaks") ∧ gL.lookup "mode".toList = some (s "troughs") ∧
    (∀ p d, gpeOwn.lookup p = some d →
      (gU.lookup p).map (effVal p) = some (effVal p ((ext.lookup p).getD d)) ∧
      (gL.lookup p).map (effVal p) = some (effVal p ((ext.lookup p).getD d)))

/-- `cs` consists of complete chains and all of them obey the options -/
def Obeys (imf env ext : Assoc) (cs : List StageCall) : Prop :=
  ∃ chains : List (List StageCall), cs = chains.flatten ∧ ∀ c ∈ chains, ChainObeys imf env ext c

theorem Obeys.nil (imf env ext : Assoc) : Obeys imf env ext [] := ⟨[], rfl, by simp⟩

theorem Obeys.append {imf env ext : Assoc} {a b : List StageCall} (ha : Obeys imf env ext a)
    (hb : Obeys imf env ext b) : Obeys imf env ext (a ++ b) := by
  obtain ⟨ca, rfl, ha⟩ := ha
  obtain ⟨cb, rfl, hb⟩ := hb
  refine ⟨ca ++ cb, by simp, ?_⟩
  intro c hc
  rcases List.mem_append.mp hc with h | h
  · exact ha c h
  · exact hb c h

theorem GniSpec.obeys {imf imf' : Assoc} {eo xo : Tree} {cs : List StageCall} (h : GniSpec imf eo xo cs)
    (himf : ∀ p d, gniOwn.lookup p = some d → (imf.lookup p).getD d = (imf'.lookup p).getD d) :
    Obeys imf' (dictOf eo) (dictOf xo) cs := by
  obtain ⟨a, aU, gU, aL, gL, rfl, hown, sU, sL⟩ := h.shape
  refine ⟨[[⟨.gni, a⟩, ⟨.ie, aU⟩, ⟨.gpe, gU⟩, ⟨.ie, aL⟩, ⟨.gpe, gL⟩]], by simp, ?_⟩
  intro c hc
  simp at hc
  subst hc
  refine ⟨a, aU, gU, aL, gL, rfl, ?_, sU.mode, sL.mode, ?_, sU.gmode, sL.gmode, ?_⟩
  · intro p d hp; rw [hown p d hp, himf p d hp]
  · intro p d hp; exact ⟨sU.own p d hp, sL.own p d hp⟩
  · intro p d hp
    rw [sU.gown p d hp, sL.gown p d hp]
    exact ⟨rfl, rfl⟩

/-- options changed pointwise-equivalently (same effective values) are obeyed just the same -/
theorem Obeys.congr {imf env ext imf' env' ext' : Assoc} {cs : List StageCall} (h : Obeys imf env ext cs)
    (h1 : ∀ p d, gniOwn.lookup p = some d → (imf.lookup p).getD d = (imf'.lookup p).getD d)
    (h2 : ∀ p d, ieOwn.lookup p = some d → (env.lookup p).getD d = (env'.lookup p).getD d)
    (h3 : ∀ p d, gpeOwn.lookup p = some d → effVal p ((ext.lookup p).getD d) = effVal p ((ext'.lookup p).getD d)) :
    Obeys imf' env' ext' cs := by
  obtain ⟨chains, rfl, hc⟩ := h
  refine ⟨chains, rfl, ?_⟩
  intro c hcm
  obtain ⟨a, aU, gU, aL, gL, rfl, g1, g2, g3, g4, g5, g6, g7⟩ := (hc c hcm).shape
  refine ⟨a, aU, gU, aL, gL, rfl, ?_, g2, g3, ?_, g5, g6, ?_⟩
  · intro p d hp; rw [g1 p d hp, h1 p d hp]
  · intro p d hp; rw [(g4 p d hp).1, (g4 p d hp).2, h2 p d hp]; exact ⟨rfl, rfl⟩
  · intro p d hp; rw [(g7 p d hp).1, (g7 p d hp).2, h3 p d hp]; exact ⟨rfl, rfl⟩

/-! ### the special-case literals agree with the signature defaults -/

theorem siftLiteral_agrees {p : Key} {d : Tree} (h : gniOwn.lookup p = some d) :
    ((dictOf siftImfLiteral).lookup p).getD d = d := by
  have hp := mem_keys_of_lookup h
  have hp' : p = "env_step_size".toList ∨ p = "max_iters".toList ∨ p = "energy_thresh".toList ∨
      p = "stop_method".toList ∨ p = "sd_thresh".toList ∨ p = "rilling_thresh".toList := by
    simpa [-String.reduceToList, gniOwn, mk, Assoc.keys] using hp
  rcases hp' with rfl | rfl | rfl | rfl | rfl | rfl
  · have : gniOwn.lookup "env_step_size".toList = some (i 1) := by rfl
    rw [this] at h; cases h; rfl
  · have : gniOwn.lookup "max_iters".toList = some (i 1000) := by rfl
    rw [this] at h; cases h; rfl
  · have : gniOwn.lookup "energy_thresh".toList = some none' := by rfl
    rw [this] at h; cases h; rfl
  · have : gniOwn.lookup "stop_method".toList = some (s "sd") := by rfl
    rw [this] at h; cases h; rfl
  · have : gniOwn.lookup "sd_thresh".toList = some f0_1 := by rfl
    rw [this] at h; cases h; rfl
  · have : gniOwn.lookup "rilling_thresh".toList = some rillingDefault := by rfl
    rw [this] at h; cases h; rfl

theorem imfOrLiteral_lookup {io : Tree} {ioKw : Assoc} (h : unpack (imfOrLiteral io) = .ok ioKw)
    {p : Key} {d : Tree} (hp : gniOwn.lookup p = some d) :
    (ioKw.lookup p).getD d = ((dictOf io).lookup p).getD d := by
  unfold imfOrLiteral at h
  cases hf : falsy io with
  | true =>
    simp [hf] at h
    have hl := unpack_ok h
    have h1 : ioKw = dictOf siftImfLiteral := by
      have : siftImfLiteral = .dict ioKw := hl
      rw [this]; rfl
    rw [h1, siftLiteral_agrees hp]
    have : (dictOf io).lookup p = none := by
      cases io with
      | dict a => rw [dictOf_falsy_dict rfl hf]; rfl
      | scalar _ => rfl
      | seq _ _ => rfl
    simp [this]
  | false =>
    simp [hf] at h
    rw [unpack_ok h]; rfl

/-! ### the variants -/

abbrev ObeysT (io eo xo : Tree) (cs : List StageCall) : Prop := Obeys (dictOf io) (dictOf eo) (dictOf xo) cs

theorem siftM_obeys {pos : List Tree} {kw : Assoc} {cs : List StageCall} (h : siftM pos kw = .ok cs) :
    ∃ a, call siftSig pos kw = .ok a ∧
      ObeysT (arg a "imf_opts") (arg a "envelope_opts") (arg a "extrema_opts") cs := by
  unfold siftM at h
  cases h1 : call siftSig pos kw with
  | error e => simp [-String.reduceToList, h1, bind, Except.bind] at h
  | ok a =>
    cases h2 : unpack (imfOrLiteral (arg a "imf_opts")) with
    | error e => simp [-String.reduceToList, h1, h2, bind, Except.bind] at h
    | ok ioKw =>
      simp [-String.reduceToList, h1, h2, bind, Except.bind] at h
      exact ⟨a, rfl, (chain_spec h).obeys (fun p d hp => imfOrLiteral_lookup h2 hp)⟩

theorem call_ok_resolve {sig : Assoc} {pos : List Tree} {kw a : Assoc} (h : call sig pos kw = .ok a) :
    ∃ bnd, zipPos sig pos = some bnd ∧ a = resolve sig (bnd.append kw) := by
  unfold call at h
  cases hz : zipPos sig pos with
  | none => simp [hz] at h
  | some bnd =>
    simp only [hz] at h
    unfold callWith at h
    cases hv : validCall sig (bnd.append kw) with
    | false => simp [hv] at h
    | true => simp [hv] at h; exact ⟨bnd, rfl, h.symm⟩

theorem kwArg_of_arg (sig kw : Assoc) (name : String) (h : sig.lookup name.toList = some none') :
    arg (resolve sig kw) name = kwArg kw name := by
  rw [arg_resolve sig kw name none' h]; rfl

theorem swn_pos {x1 x2 x3 x4 x5 x6 x7 x8 x9 : Tree} {a : Assoc}
    (h : call swnSig [x1, x2, x3, x4, x5, x6, x7, x8, x9] .nil = .ok a) :
    arg a "imf_opts" = x7 ∧ arg a "envelope_opts" = x8 ∧ arg a "extrema_opts" = x9 := by
  obtain ⟨bnd, hz, rfl⟩ := call_ok_resolve h
  cases hz
  exact ⟨rfl, rfl, rfl⟩

theorem sift_pos {x1 x2 x3 x4 x5 x6 : Tree} {a : Assoc}
    (h : call siftSig [x1, x2, x3, x4, x5, x6] .nil = .ok a) :
    arg a "imf_opts" = x4 ∧ arg a "envelope_opts" = x5 ∧ arg a "extrema_opts" = x6 := by
  obtain ⟨bnd, hz, rfl⟩ := call_ok_resolve h
  cases hz
  exact ⟨rfl, rfl, rfl⟩

theorem gnim_pos {x1 x2 y1 y2 io eo xo : Tree} {a : Assoc}
    (h : call gnimSig [x1, x2] (mk [("nphases", y1), ("nprocesses", y2), ("imf_opts", io),
      ("envelope_opts", eo), ("extrema_opts", xo)]) = .ok a) :
    arg a "imf_opts" = io ∧ arg a "envelope_opts" = eo ∧ arg a "extrema_opts" = xo := by
  obtain ⟨bnd, hz, rfl⟩ := call_ok_resolve h
  cases hz
  exact ⟨rfl, rfl, rfl⟩

theorem gmf_pos {x1 io eo xo : Tree} {a : Assoc}
    (h : call gmfSig [x1] (mk [("imf_opts", io), ("envelope_opts", eo), ("extrema_opts", xo)]) = .ok a) :
    arg a "imf_opts" = io ∧ arg a "envelope_opts" = eo ∧ arg a "extrema_opts" = xo := by
  obtain ⟨bnd, hz, rfl⟩ := call_ok_resolve h
  cases hz
  exact ⟨rfl, rfl, rfl⟩

theorem siftInner_args {x1 x2 io eo xo : Tree} {a : Assoc}
    (h : call siftSig [] (mk [("sift_thresh", x1), ("max_imfs", x2), ("imf_opts", io),
      ("envelope_opts", eo), ("extrema_opts", xo)]) = .ok a) :
    arg a "imf_opts" = io ∧ arg a "envelope_opts" = eo ∧ arg a "extrema_opts" = xo := by
  obtain ⟨rfl, _⟩ := call_nil_ok h
  exact ⟨rfl, rfl, rfl⟩

theorem swnM_obeys {pos : List Tree} {kw : Assoc} {cs : List StageCall} (h : swnM pos kw = .ok cs) :
    ∃ a, call swnSig pos kw = .ok a ∧
      ObeysT (arg a "imf_opts") (arg a "envelope_opts") (arg a "extrema_opts") cs := by
  unfold swnM at h
  cases h1 : call swnSig pos kw with
  | error e => simp [-String.reduceToList, h1, bind, Except.bind] at h
  | ok a =>
    simp [-String.reduceToList, h1, bind, Except.bind] at h
    obtain ⟨a', h2, hob⟩ := siftM_obeys h
    obtain ⟨e1, e2, e3⟩ := siftInner_args h2
    rw [e1, e2, e3] at hob
    exact ⟨a, rfl, hob⟩

theorem ensM_obeys {kw : Assoc} {cs : List StageCall} (h : ensM kw = .ok cs) :
    ObeysT (kwArg kw "imf_opts") (kwArg kw "envelope_opts") (kwArg kw "extrema_opts") cs := by
  unfold ensM at h
  cases h1 : call ensSig [] kw with
  | error e => simp [-String.reduceToList, h1, bind, Except.bind] at h
  | ok a =>
    cases h2 : okNoiseMode (arg a "noise_mode") with
    | false => simp [-String.reduceToList, h1, h2, bind, Except.bind] at h
    | true =>
      simp [-String.reduceToList, h1, h2, bind, Except.bind] at h
      obtain ⟨rfl, _⟩ := call_nil_ok h1
      obtain ⟨a', h3, hob⟩ := swnM_obeys h
      obtain ⟨e1, e2, e3⟩ := swn_pos h3
      rw [e1, e2, e3, kwArg_of_arg ensSig kw "imf_opts" rfl, kwArg_of_arg ensSig kw "envelope_opts" rfl,
        kwArg_of_arg ensSig kw "extrema_opts" rfl] at hob
      exact hob

theorem cesM_obeys {kw : Assoc} {cs : List StageCall} (h : cesM kw = .ok cs) :
    ObeysT (kwArg kw "imf_opts") (kwArg kw "envelope_opts") (kwArg kw "extrema_opts") cs := by
  unfold cesM at h
  cases h1 : call ensSig [] kw with
  | error e => simp [-String.reduceToList, h1, bind, Except.bind] at h
  | ok a =>
    obtain ⟨rfl, _⟩ := call_nil_ok h1
    cases hj : swnM [data, data, arg (resolve ensSig kw) "noise_mode", arg (resolve ensSig kw) "sift_thresh", i 1, data,
        arg (resolve ensSig kw) "imf_opts", arg (resolve ensSig kw) "envelope_opts",
        arg (resolve ensSig kw) "extrema_opts"] .nil with
    | error e => simp [-String.reduceToList, h1, hj, bind, Except.bind] at h
    | ok jobs =>
      cases hn : siftM [arg (resolve ensSig kw) "sift_thresh", i 1, none', arg (resolve ensSig kw) "imf_opts",
          arg (resolve ensSig kw) "envelope_opts", arg (resolve ensSig kw) "extrema_opts"] .nil with
      | error e => simp [-String.reduceToList, h1, hj, hn, bind, Except.bind] at h
      | ok noise =>
        simp [-String.reduceToList, h1, hj, hn, bind, Except.bind, pure, Except.pure] at h
        subst h
        obtain ⟨a1, c1, ob1⟩ := swnM_obeys hj
        obtain ⟨e1, e2, e3⟩ := swn_pos c1
        obtain ⟨a2, c2, ob2⟩ := siftM_obeys hn
        obtain ⟨g1, g2, g3⟩ := sift_pos c2
        rw [e1, e2, e3, kwArg_of_arg ensSig kw "imf_opts" rfl, kwArg_of_arg ensSig kw "envelope_opts" rfl,
          kwArg_of_arg ensSig kw "extrema_opts" rfl] at ob1
        rw [g1, g2, g3, kwArg_of_arg ensSig kw "imf_opts" rfl, kwArg_of_arg ensSig kw "envelope_opts" rfl,
          kwArg_of_arg ensSig kw "extrema_opts" rfl] at ob2
        exact Obeys.append ob1 ob2

theorem gnimM_obeys {pos : List Tree} {kw : Assoc} {cs : List StageCall} (h : gnimM pos kw = .ok cs) :
    ∃ a, call gnimSig pos kw = .ok a ∧
      ObeysT (arg a "imf_opts") (arg a "envelope_opts") (arg a "extrema_opts") cs := by
  unfold gnimM at h
  cases h1 : call gnimSig pos kw with
  | error e => simp [-String.reduceToList, h1, bind, Except.bind] at h
  | ok a =>
    cases h2 : unpack (noneToEmpty (arg a "imf_opts")) with
    | error e => simp [-String.reduceToList, h1, h2, bind, Except.bind] at h
    | ok ioKw =>
      simp [-String.reduceToList, h1, h2, bind, Except.bind] at h
      have := noneToEmpty_unpack h2
      subst this
      exact ⟨a, rfl, (chain_spec h).obeys (fun _ _ _ => rfl)⟩

theorem gmfM_obeys {pos : List Tree} {kw : Assoc} {cs : List StageCall} (h : gmfM pos kw = .ok cs) :
    ∃ a, call gmfSig pos kw = .ok a ∧
      ObeysT (arg a "imf_opts") (arg a "envelope_opts") (arg a "extrema_opts") cs := by
  unfold gmfM at h
  cases h1 : call gmfSig pos kw with
  | error e => simp [-String.reduceToList, h1, bind, Except.bind] at h
  | ok a =>
    cases h2 : unpack (noneToEmpty (arg a "imf_opts")) with
    | error e => simp [-String.reduceToList, h1, h2, bind, Except.bind] at h
    | ok ioKw =>
      simp [-String.reduceToList, h1, h2, bind, Except.bind] at h
      have := noneToEmpty_unpack h2
      subst this
      cases h3 : usesFirstImf (arg a "first_mask_mode") with
      | true =>
        simp [-String.reduceToList, h3] at h
        exact ⟨a, rfl, (chain_spec h).obeys (fun _ _ _ => rfl)⟩
      | false =>
        simp [-String.reduceToList, h3, pure, Except.pure] at h
        subst h
        exact ⟨a, rfl, Obeys.nil _ _ _⟩

theorem maskFirst_obeys {mf io eo xo : Tree} {cs : List StageCall} (h : maskFirst mf io eo xo = .ok cs) :
    ObeysT io eo xo cs := by
  unfold maskFirst at h
  cases hd : derivesMaskFreqs mf with
  | true =>
    simp [-String.reduceToList, hd] at h
    obtain ⟨a1, c1, ob1⟩ := gmfM_obeys h
    obtain ⟨e1, e2, e3⟩ := gmf_pos c1
    rw [e1, e2, e3] at ob1
    exact ob1
  | false =>
    simp [-String.reduceToList, hd, pure, Except.pure] at h
    subst h
    exact Obeys.nil _ _ _

theorem maskM_obeys {kw : Assoc} {cs : List StageCall} (h : maskM kw = .ok cs) :
    ObeysT (kwArg kw "imf_opts") (kwArg kw "envelope_opts") (kwArg kw "extrema_opts") cs := by
  unfold maskM at h
  cases h1 : call maskSig [] kw with
  | error e => simp [-String.reduceToList, h1, bind, Except.bind] at h
  | ok a =>
    obtain ⟨rfl, _⟩ := call_nil_ok h1
    cases hf : maskFirst (arg (resolve maskSig kw) "mask_freqs") (arg (resolve maskSig kw) "imf_opts")
        (arg (resolve maskSig kw) "envelope_opts") (arg (resolve maskSig kw) "extrema_opts") with
    | error e => simp [-String.reduceToList, h1, hf, bind, Except.bind] at h
    | ok first =>
      cases hr : gnimM [data, data] (mk [("nphases", arg (resolve maskSig kw) "nphases"),
          ("nprocesses", arg (resolve maskSig kw) "nprocesses"), ("imf_opts", arg (resolve maskSig kw) "imf_opts"),
          ("envelope_opts", arg (resolve maskSig kw) "envelope_opts"),
          ("extrema_opts", arg (resolve maskSig kw) "extrema_opts")]) with
      | error e => simp [-String.reduceToList, h1, hf, hr, bind, Except.bind] at h
      | ok rest =>
        simp [-String.reduceToList, h1, hf, hr, bind, Except.bind, pure, Except.pure] at h
        subst h
        have ob1 := maskFirst_obeys hf
        obtain ⟨a2, c2, ob2⟩ := gnimM_obeys hr
        obtain ⟨e1, e2, e3⟩ := gnim_pos c2
        rw [e1, e2, e3] at ob2
        rw [kwArg_of_arg maskSig kw "imf_opts" rfl, kwArg_of_arg maskSig kw "envelope_opts" rfl,
          kwArg_of_arg maskSig kw "extrema_opts" rfl] at ob1 ob2
        exact Obeys.append ob1 ob2

/-- the IMF-extraction options of a variant: for `get_next_imf` itself they are its own keywords -/
def imfOf : Variant → Assoc → Assoc
  | .nextImf, kw => kw
  | .second v, kw => imfOf v kw
  | _, kw => dictOf (kwArg kw "imf_opts")

theorem gnimTop_args {kw a : Assoc} (h : call gnimSig [data, data] kw = .ok a) :
    arg a "imf_opts" = kwArg kw "imf_opts" ∧ arg a "envelope_opts" = kwArg kw "envelope_opts" ∧
    arg a "extrema_opts" = kwArg kw "extrema_opts" := by
  obtain ⟨bnd, hz, rfl⟩ := call_ok_resolve h
  cases hz
  have z1 : ¬ "z".toList = "imf_opts".toList := by decide
  have z2 : ¬ "z".toList = "envelope_opts".toList := by decide
  have z3 : ¬ "z".toList = "extrema_opts".toList := by decide
  have a1 : ¬ "amp".toList = "imf_opts".toList := by decide
  have a2 : ¬ "amp".toList = "envelope_opts".toList := by decide
  have a3 : ¬ "amp".toList = "extrema_opts".toList := by decide
  refine ⟨?_, ?_, ?_⟩
  · rw [arg_resolve gnimSig _ "imf_opts" none' rfl]
    simp [-String.reduceToList, Assoc.append, Assoc.lookup, z1, a1, kwArg]; rfl
  · rw [arg_resolve gnimSig _ "envelope_opts" none' rfl]
    simp [-String.reduceToList, Assoc.append, Assoc.lookup, z2, a2, kwArg]; rfl
  · rw [arg_resolve gnimSig _ "extrema_opts" none' rfl]
    simp [-String.reduceToList, Assoc.append, Assoc.lookup, z3, a3, kwArg]; rfl

/-- the two entries `mask_sift_second_layer` writes into `sift_args` leave every other option untouched -/
theorem lookup_maskSecondArgs (kw : Assoc) (q : Key) (h1 : q ≠ "max_imfs".toList) (h2 : q ≠ "mask_freqs".toList) :
    (maskSecondArgs kw).lookup q = kw.lookup q := by
  unfold maskSecondArgs
  simp only []
  rw [Assoc.lookup_insert_other _ _ _ h2]
  split
  · rfl
  · rw [Assoc.lookup_insert_other _ _ _ h1]

theorem kwArg_maskSecondArgs (kw : Assoc) :
    kwArg (maskSecondArgs kw) "imf_opts" = kwArg kw "imf_opts" ∧
    kwArg (maskSecondArgs kw) "envelope_opts" = kwArg kw "envelope_opts" ∧
    kwArg (maskSecondArgs kw) "extrema_opts" = kwArg kw "extrema_opts" := by
  refine ⟨?_, ?_, ?_⟩ <;> (unfold kwArg; rw [lookup_maskSecondArgs kw _ (by decide) (by decide)])

theorem runVariant_obeys : ∀ (v : Variant) {kw : Assoc} {cs : List StageCall},
    runVariant false v kw = .ok cs →
    Obeys (imfOf v kw) (dictOf (kwArg kw "envelope_opts")) (dictOf (kwArg kw "extrema_opts")) cs
  | .sift, kw, cs, h => by
    obtain ⟨a, c, ob⟩ := siftM_obeys (show siftM [] kw = .ok cs from h)
    obtain ⟨rfl, _⟩ := call_nil_ok c
    rw [kwArg_of_arg siftSig kw "imf_opts" rfl, kwArg_of_arg siftSig kw "envelope_opts" rfl,
      kwArg_of_arg siftSig kw "extrema_opts" rfl] at ob
    exact ob
  | .ensemble, kw, cs, h => ensM_obeys (show ensM kw = .ok cs from h)
  | .complete, kw, cs, h => cesM_obeys (show cesM kw = .ok cs from h)
  | .mask, kw, cs, h => maskM_obeys (show maskM kw = .ok cs from h)
  | .nextImfMask, kw, cs, h => by
    obtain ⟨a, c, ob⟩ := gnimM_obeys (show gnimM [data, data] kw = .ok cs from h)
    obtain ⟨e1, e2, e3⟩ := gnimTop_args c
    rw [e1, e2, e3] at ob
    exact ob
  | .maskFreqs, kw, cs, h => by
    obtain ⟨a, c, ob⟩ := gmfM_obeys (show gmfM [] kw = .ok cs from h)
    obtain ⟨rfl, _⟩ := call_nil_ok c
    rw [kwArg_of_arg gmfSig kw "imf_opts" rfl, kwArg_of_arg gmfSig kw "envelope_opts" rfl,
      kwArg_of_arg gmfSig kw "extrema_opts" rfl] at ob
    exact ob
  | .nextImf, kw, cs, h =>
    (gniM_nil_spec (show gniM [] kw = .ok cs from h)).obeys (fun _ _ _ => rfl)
  | .second v, kw, cs, h => runVariant_obeys v (show runVariant false v kw = .ok cs from h)
  | .maskSecond, kw, cs, h => by
    have ob := maskM_obeys (show maskM (maskSecondArgs kw) = .ok cs from h)
    obtain ⟨e1, e2, e3⟩ := kwArg_maskSecondArgs kw
    rw [e1, e2, e3] at ob
    exact ob

/-! ### delivery routes -/

def optA (o : Option Assoc) : Assoc := o.getD .nil

/-- the three option dictionaries are given through `imf` / `env` / `ext`, not smuggled into `top` -/
structure TopClean (top : Assoc) : Prop where
  imf : top.lookup "imf_opts".toList = none
  env : top.lookup "envelope_opts".toList = none
  ext : top.lookup "extrema_opts".toList = none

theorem kwArg_direct (u : User) (h : TopClean u.top) :
    dictOf (kwArg (kwargsDirect u) "imf_opts") = optA u.imf ∧
    dictOf (kwArg (kwargsDirect u) "envelope_opts") = optA u.env ∧
    dictOf (kwArg (kwargsDirect u) "extrema_opts") = optA u.ext := by
  have n1 : ¬ "imf_opts".toList = "envelope_opts".toList := by decide
  have n2 : ¬ "imf_opts".toList = "extrema_opts".toList := by decide
  have n3 : ¬ "envelope_opts".toList = "extrema_opts".toList := by decide
  have n4 : ¬ "envelope_opts".toList = "imf_opts".toList := by decide
  have n5 : ¬ "extrema_opts".toList = "imf_opts".toList := by decide
  have n6 : ¬ "extrema_opts".toList = "envelope_opts".toList := by decide
  obtain ⟨top, imf, env, ext⟩ := u
  simp only at h
  refine ⟨?_, ?_, ?_⟩ <;> cases imf <;> cases env <;> cases ext <;>
    simp [-String.reduceToList, kwargsDirect, kwArg, lookup_append, h.imf, h.env, h.ext, optEntry, Assoc.lookup,
      Assoc.append, optA, dictOf, n1, n2, n3, n4, n5, n6, Tree.none]

theorem lookup_direct_own (u : User) {p : Key} (h1 : p ≠ "imf_opts".toList) (h2 : p ≠ "envelope_opts".toList)
    (h3 : p ≠ "extrema_opts".toList) : (kwargsDirect u).lookup p = u.top.lookup p := by
  have n1 : ¬ "imf_opts".toList = p := fun e => h1 e.symm
  have n2 : ¬ "envelope_opts".toList = p := fun e => h2 e.symm
  have n3 : ¬ "extrema_opts".toList = p := fun e => h3 e.symm
  obtain ⟨top, imf, env, ext⟩ := u
  cases imf <;> cases env <;> cases ext <;>
    simp [-String.reduceToList, kwargsDirect, lookup_append, optEntry, Assoc.lookup, Assoc.append, n1, n2, n3] <;>
    cases top.lookup p <;> rfl

/-! #### the configuration route -/

theorem lookup_assignA_not_mem : ∀ (a st : Assoc) (q : Key), q ∉ a.keys → (assignA st a).lookup q = st.lookup q
  | .nil, _, _, _ => rfl
  | .cons p d r, st, q, h => by
    have h1 : q ≠ p := fun e => h (by simp [Assoc.keys, e])
    have h2 : q ∉ r.keys := fun e => h (by simp [Assoc.keys, e])
    rw [assignA, lookup_assignA_not_mem r _ q h2, Assoc.lookup_insert_other _ _ _ h1]

theorem editAll_nil_dict : ∀ (a st : Assoc), (∀ p ∈ a.keys, '/' ∉ p) →
    editAll [] (.dict st) a = .ok (.dict (assignA st a))
  | .nil, _, _ => rfl
  | .cons p d r, st, h => by
    have hp : '/' ∉ p := h p (by simp [Assoc.keys])
    have ih := editAll_nil_dict r (st.insert p d) (fun q hq => h q (by simp [Assoc.keys, hq]))
    simp [editAll, cfgSet_noSlash _ p d hp, bind, Except.bind, ih, assignA]

theorem insert_insert_same (k : Key) (v w : Tree) : ∀ a : Assoc, (a.insert k v).insert k w = a.insert k w
  | .nil => by simp [Assoc.insert]
  | .cons q x r => by
    by_cases h : q = k
    · simp [Assoc.insert, h]
    · simp [Assoc.insert, h, insert_insert_same k v w r]

theorem keyTransform_stage (stage p : Key) (hs : '/' ∉ stage) (hp : '/' ∉ p) :
    keyTransform (stage ++ '/' :: p) = .ok [stage, p] := by
  simp [keyTransform, splitSlash_append stage p hs, splitSlash_noSlash p hp]

theorem insert_lookup_self (k : Key) (v : Tree) : ∀ a : Assoc, a.lookup k = some v → a.insert k v = a
  | .nil, h => by simp [Assoc.lookup] at h
  | .cons q x r, h => by
    by_cases hq : q = k
    · simp [Assoc.lookup, hq] at h
      simp [Assoc.insert, hq, h]
    · simp [Assoc.lookup, hq] at h
      simp [Assoc.insert, hq, insert_lookup_self k v r h]

theorem editAll_stage (stage : Key) (hs : '/' ∉ stage) : ∀ (a st cur : Assoc),
    st.lookup stage = some (.dict cur) → (∀ p ∈ a.keys, '/' ∉ p) →
    editAll (stage ++ ['/']) (.dict st) a = .ok (.dict (st.insert stage (.dict (assignA cur a))))
  | .nil, st, cur, hl, _ => by
    simp [editAll, assignA, insert_lookup_self stage (.dict cur) st hl]
  | .cons p d r, st, cur, hl, h => by
    have hp : '/' ∉ p := h p (by simp [Assoc.keys])
    have hk := keyTransform_stage stage p hs hp
    have hset : cfgSet (.dict st) (stage ++ ['/'] ++ p) d =
        .ok (.dict (st.insert stage (.dict (cur.insert p d)))) := by
      have : stage ++ ['/'] ++ p = stage ++ '/' :: p := by simp
      rw [this]
      simp [cfgSet, hk, bind, Except.bind, hl]
    have ih := editAll_stage stage hs r (st.insert stage (.dict (cur.insert p d))) (cur.insert p d)
      (Assoc.lookup_insert_same _ _ _) (fun q hq => h q (by simp [Assoc.keys, hq]))
    rw [insert_insert_same] at ih
    simp only [editAll, hset, bind, Except.bind, ih, assignA]

theorem editStage_dict (st cur : Assoc) (name : String) (hs : '/' ∉ name.toList) (o : Option Assoc)
    (hl : st.lookup name.toList = some (.dict cur)) (h : ∀ p ∈ (optA o).keys, '/' ∉ p) :
    editStage (.dict st) name o = .ok (.dict (st.insert name.toList (.dict (assignA cur (optA o))))) := by
  cases o with
  | none => simp [editStage, optA, assignA, insert_lookup_self _ _ st hl]
  | some a => exact editAll_stage name.toList hs a st cur hl h

/-- the default configuration of a variant as the model's `get_config` builds it -/
def cfgStore (name : String) : Assoc :=
  match getConfig modelSigs name.toList with
  | .ok ⟨_, .dict st⟩ => st
  | _ => .nil

def envDefaults : Assoc := mk [("interp_method", s "splrep")]
def extDefaults : Assoc := mk [("pad_width", i 2), ("parabolic_extrema", b false),
  ("mag_pad_opts", Config.magPadOpts), ("loc_pad_opts", Config.locPadOpts)]

theorem not_mem_keys_of_lookup_none (q : Key) : ∀ a : Assoc, a.lookup q = none → q ∉ a.keys
  | .nil, _ => by simp [Assoc.keys]
  | .cons p d r, h => by
    by_cases hp : p = q
    · simp [Assoc.lookup, hp] at h
    · simp [Assoc.lookup, hp] at h
      have := not_mem_keys_of_lookup_none q r h
      simp [Assoc.keys, this]
      exact fun e => hp e.symm

/-- the keyword arguments of the configuration routes, spelled out -/
theorem kwargsConfig_spec (v : Variant) (u : User)
    (hcfg : getConfig modelSigs v.name.toList = .ok ⟨.scalar (.str v.name.toList), .dict (cfgStore v.name)⟩)
    (h1 : (cfgStore v.name).lookup "imf_opts".toList = some (.dict gniOwn))
    (h2 : (cfgStore v.name).lookup "envelope_opts".toList = some (.dict envDefaults))
    (h3 : (cfgStore v.name).lookup "extrema_opts".toList = some (.dict extDefaults))
    (hc : TopClean u.top) (hts : ∀ p ∈ u.top.keys, '/' ∉ p)
    (hi : ∀ p ∈ (optA u.imf).keys, '/' ∉ p) (he : ∀ p ∈ (optA u.env).keys, '/' ∉ p)
    (hx : ∀ p ∈ (optA u.ext).keys, '/' ∉ p) :
    ∃ K, kwargsConfig v u = .ok K ∧
      kwArg K "imf_opts" = .dict (assignA gniOwn (optA u.imf)) ∧
      kwArg K "envelope_opts" = .dict (assignA envDefaults (optA u.env)) ∧
      kwArg K "extrema_opts" = .dict (assignA extDefaults (optA u.ext)) ∧
      ∀ p, p ≠ "imf_opts".toList → p ≠ "envelope_opts".toList → p ≠ "extrema_opts".toList →
        K.lookup p = (assignA (cfgStore v.name) u.top).lookup p := by
  have n1 : "envelope_opts".toList ≠ "imf_opts".toList := by decide
  have n2 : "extrema_opts".toList ≠ "imf_opts".toList := by decide
  have n3 : "extrema_opts".toList ≠ "envelope_opts".toList := by decide
  have n4 : "imf_opts".toList ≠ "envelope_opts".toList := by decide
  have n5 : "imf_opts".toList ≠ "extrema_opts".toList := by decide
  have n6 : "envelope_opts".toList ≠ "extrema_opts".toList := by decide
  have s1 : '/' ∉ "imf_opts".toList := by decide
  have s2 : '/' ∉ "envelope_opts".toList := by decide
  have s3 : '/' ∉ "extrema_opts".toList := by decide
  obtain ⟨S1, hS1⟩ : ∃ S1, S1 = assignA (cfgStore v.name) u.top := ⟨_, rfl⟩
  have e1 : editAll [] (.dict (cfgStore v.name)) u.top = .ok (.dict S1) := by
    rw [hS1]; exact editAll_nil_dict u.top _ hts
  have l1 : ∀ q, u.top.lookup q = none → S1.lookup q = (cfgStore v.name).lookup q := fun q hq => by
    rw [hS1]; exact lookup_assignA_not_mem _ _ q (not_mem_keys_of_lookup_none q _ hq)
  have a1 : S1.lookup "imf_opts".toList = some (.dict gniOwn) := by rw [l1 _ hc.imf, h1]
  obtain ⟨S2, hS2⟩ : ∃ S2, S2 = S1.insert "imf_opts".toList (.dict (assignA gniOwn (optA u.imf))) := ⟨_, rfl⟩
  have e2 : editStage (.dict S1) "imf_opts" u.imf = .ok (.dict S2) := by
    rw [hS2]; exact editStage_dict S1 gniOwn "imf_opts" s1 u.imf a1 hi
  have a2 : S2.lookup "envelope_opts".toList = some (.dict envDefaults) := by
    rw [hS2, Assoc.lookup_insert_other _ _ _ n1, l1 _ hc.env, h2]
  obtain ⟨S3, hS3⟩ : ∃ S3, S3 = S2.insert "envelope_opts".toList (.dict (assignA envDefaults (optA u.env))) := ⟨_, rfl⟩
  have e3 : editStage (.dict S2) "envelope_opts" u.env = .ok (.dict S3) := by
    rw [hS3]; exact editStage_dict S2 envDefaults "envelope_opts" s2 u.env a2 he
  have a3 : S3.lookup "extrema_opts".toList = some (.dict extDefaults) := by
    rw [hS3, Assoc.lookup_insert_other _ _ _ n3, hS2, Assoc.lookup_insert_other _ _ _ n2, l1 _ hc.ext, h3]
  obtain ⟨S4, hS4⟩ : ∃ S4, S4 = S3.insert "extrema_opts".toList (.dict (assignA extDefaults (optA u.ext))) := ⟨_, rfl⟩
  have e4 : editStage (.dict S3) "extrema_opts" u.ext = .ok (.dict S4) := by
    rw [hS4]; exact editStage_dict S3 extDefaults "extrema_opts" s3 u.ext a3 hx
  refine ⟨S4, ?_, ?_, ?_, ?_, ?_⟩
  · simp only [kwargsConfig, hcfg, e1, e2, e3, e4, bind, Except.bind, unpack]
  · simp only [kwArg]
    rw [hS4, Assoc.lookup_insert_other _ _ _ n5, hS3, Assoc.lookup_insert_other _ _ _ n4, hS2,
      Assoc.lookup_insert_same]; rfl
  · simp only [kwArg]
    rw [hS4, Assoc.lookup_insert_other _ _ _ n6, hS3, Assoc.lookup_insert_same]; rfl
  · simp only [kwArg]
    rw [hS4, Assoc.lookup_insert_same]; rfl
  · intro p p1 p2 p3
    rw [hS4, Assoc.lookup_insert_other _ _ _ p3, hS3, Assoc.lookup_insert_other _ _ _ p2, hS2,
      Assoc.lookup_insert_other _ _ _ p1, hS1]

/-- the four variants `get_config` knows: their default configuration as the model builds it -/
theorem cfg_facts (v : Variant) (hv : v = .sift ∨ v = .ensemble ∨ v = .complete ∨ v = .mask) :
    getConfig modelSigs v.name.toList = .ok ⟨.scalar (.str v.name.toList), .dict (cfgStore v.name)⟩ ∧
    (cfgStore v.name).lookup "imf_opts".toList = some (.dict gniOwn) ∧
    (cfgStore v.name).lookup "envelope_opts".toList = some (.dict envDefaults) ∧
    (cfgStore v.name).lookup "extrema_opts".toList = some (.dict extDefaults) := by
  rcases hv with rfl | rfl | rfl | rfl <;> exact ⟨rfl, rfl, rfl, rfl⟩

/-- for the other entry points `get_config` raises, so the configuration routes do not exist -/
theorem cfg_none (v : Variant) (u : User) (hv : v = .nextImfMask ∨ v = .maskFreqs ∨ v = .nextImf) :
    kwargsConfig v u = .error .attributeError := by
  rcases hv with rfl | rfl | rfl <;> rfl

/-! #### the defaults written into a configuration agree with the signature defaults -/

theorem assignA_own_lookup (own dflt a : Assoc) (hn : NodupKeys a)
    (hd : ∀ p d, own.lookup p = some d → (dflt.lookup p).getD d = d) {p : Key} {d : Tree}
    (hp : own.lookup p = some d) : ((assignA dflt a).lookup p).getD d = (a.lookup p).getD d := by
  rw [lookup_assignA a dflt p hn]
  cases a.lookup p with
  | some v => rfl
  | none => exact hd p d hp

theorem gniOwn_self {p : Key} {d : Tree} (h : gniOwn.lookup p = some d) : (gniOwn.lookup p).getD d = d := by
  rw [h]; rfl

theorem envDefaults_agree {p : Key} {d : Tree} (h : ieOwn.lookup p = some d) :
    (envDefaults.lookup p).getD d = d := by
  have hp := mem_keys_of_lookup h
  have hp' : p = "interp_method".toList ∨ p = "ret_extrema".toList := by
    simpa [-String.reduceToList, ieOwn, mk, Assoc.keys] using hp
  rcases hp' with rfl | rfl
  · have : ieOwn.lookup "interp_method".toList = some (s "splrep") := by rfl
    rw [this] at h; cases h; rfl
  · have : ieOwn.lookup "ret_extrema".toList = some (b false) := by rfl
    rw [this] at h; cases h; rfl

theorem extDefaults_agree {p : Key} {d : Tree} (h : gpeOwn.lookup p = some d) :
    effVal p ((extDefaults.lookup p).getD d) = effVal p d := by
  have hp := mem_keys_of_lookup h
  have hp' : p = "pad_width".toList ∨ p = "parabolic_extrema".toList ∨ p = "loc_pad_opts".toList ∨ p = "mag_pad_opts".toList := by
    simpa [-String.reduceToList, gpeOwn, mk, Assoc.keys] using hp
  rcases hp' with rfl | rfl | rfl | rfl
  · have : gpeOwn.lookup "pad_width".toList = some (i 2) := by rfl
    rw [this] at h; cases h; rfl
  · have : gpeOwn.lookup "parabolic_extrema".toList = some (b false) := by rfl
    rw [this] at h; cases h; rfl
  · have : gpeOwn.lookup "loc_pad_opts".toList = some none' := by rfl
    rw [this] at h; cases h; rfl
  · have : gpeOwn.lookup "mag_pad_opts".toList = some none' := by rfl
    rw [this] at h; cases h; rfl

theorem assignA_ext_lookup (a : Assoc) (hn : NodupKeys a) {p : Key} {d : Tree} (hp : gpeOwn.lookup p = some d) :
    effVal p (((assignA extDefaults a).lookup p).getD d) = effVal p ((a.lookup p).getD d) := by
  rw [lookup_assignA a extDefaults p hn]
  cases a.lookup p with
  | some v => rfl
  | none => exact extDefaults_agree hp

end Options
