/-
  Helper lemmas for C05 — covering, the envelope and its knots.
-/
import Proofs.Lemmas.ExtremaPadded
import Proofs.Lemmas.ExtremaGrid

namespace Extrema

theorem paddedExtrema_sorted (w : Nat) (m : Mode) (parab : Bool) (x : Sig) (locs mags : List Rat)
    (h : paddedExtrema w m parab x = .ok locs mags) : locs.Pairwise (fun a b => a + 1 ≤ b) := by
  obtain ⟨_, a, z, _, _, ⟨k, L, Rr, _, _, _, _, hch⟩, _⟩ := paddedExtrema_ok w m parab x locs mags h
  exact hch.pairwise (reflRel_sep 1 (by decide)) (extrema_locs_sep m parab x)

theorem paddedExtrema_lengths (w : Nat) (m : Mode) (parab : Bool) (x : Sig) (locs mags : List Rat)
    (h : paddedExtrema w m parab x = .ok locs mags) : locs.length = mags.length := by
  obtain ⟨_, a, z, _, _, ⟨k, L, Rr, hl, hL, hR, he, _⟩, _⟩ := paddedExtrema_ok w m parab x locs mags h
  rw [hl, he]; simp [hL, hR, extrema_length]

theorem paddedExtrema_covers' (w : Nat) (hw : 1 ≤ w) (m : Mode) (parab : Bool) (x : Sig) (locs mags : List Rat)
    (h : paddedExtrema w m parab x = .ok locs mags) :
    ∃ a z, locs.head? = some a ∧ locs.getLast? = some z ∧ a < 0 ∧ (x.length : Rat) ≤ z := by
  have hs := sep_imp_lt (paddedExtrema_sorted w m parab x locs mags h)
  obtain ⟨hl2, a, z, _, _, ⟨k, L, Rr, hl, _, _, _, _⟩, hor⟩ := paddedExtrema_ok w m parab x locs mags h
  rcases hor with ⟨h0, _⟩ | ⟨_, hnm⟩
  · omega
  · have hne : locs ≠ [] := by
      intro hnil; rw [hnil] at hl
      have := congrArg List.length hl
      simp at this; omega
    simp only [needsMore, Bool.or_eq_false_iff, decide_eq_false_iff_not] at hnm
    cases hh : locs with
    | nil => exact absurd hh hne
    | cons a' t =>
      refine ⟨a', (a' :: t).getLast (by simp), rfl, List.getLast?_eq_some_getLast (by simp), ?_, ?_⟩
      · have := lmin_cons_of_sorted a' t (hh ▸ hs)
        rw [hh, this] at hnm; exact Rat.not_le.mp hnm.2
      · have := lmax_of_sorted (a' :: t) (by simp) (hh ▸ hs)
        rw [hh, this] at hnm; exact Rat.not_lt.mp hnm.1

theorem interpEnvelope_ok (I : Interp) (em : EMode) (w : Nat) (parab : Bool) (x : Sig) (env locs mags : List Rat)
    (h : interpEnvelope I em w parab x = .ok env locs mags) :
    paddedExtrema w em.toMode parab x = .ok locs mags ∧ env = (envGrid locs x.length).map (I.eval locs mags) ∧
      env.length = x.length := by
  unfold interpEnvelope at h
  cases hp : paddedExtrema w em.toMode parab x with
  | none => simp [hp] at h
  | fuel => simp [hp] at h
  | ok l e =>
    simp only [hp] at h
    by_cases hlen : ((envGrid l x.length).map (I.eval l e)).length = x.length
    · rw [if_neg (by simpa using hlen)] at h
      injection h with h1 h2 h3
      subst h1 h2 h3
      exact ⟨rfl, rfl, hlen⟩
    · rw [if_pos hlen] at h
      cases h

/-- with a pad width ≥ 1 the evaluation grid is the sample grid -/
theorem paddedExtrema_grid (w : Nat) (hw : 1 ≤ w) (m : Mode) (parab : Bool) (x : Sig) (locs mags : List Rat)
    (h : paddedExtrema w m parab x = .ok locs mags) :
    envGrid locs x.length = (List.range x.length).map (fun (k : Nat) => (k : Rat)) := by
  obtain ⟨a, z, ha, hz, h0, hn⟩ := paddedExtrema_covers' w hw m parab x locs mags h
  exact envGrid_eq_range' locs x.length a z ha hz (Rat.le_of_lt h0) hn

/-- an unrefined extremum of the interior block sits at the same index in the padded locations and magnitudes -/
theorem padInv_knot {l e : List Rat} {a z : Rat} {locs mags : List Rat} (h : PadInv l e a z locs mags)
    (P : List Nat) (g : Nat → Rat) (hl : l = P.map (fun (i : Nat) => (i : Rat))) (he : e = P.map g)
    (p : Nat) (hp : p ∈ P) : ∃ i : Nat, locs[i]? = some (p : Rat) ∧ mags[i]? = some (g p) := by
  obtain ⟨k, L, Rr, hlocs, hL, hR, hmags, _⟩ := h
  obtain ⟨j, hj⟩ := List.mem_iff_getElem?.mp hp
  have hjlt : j < P.length := (List.getElem?_eq_some_iff.mp hj).1
  refine ⟨k + j, ?_, ?_⟩
  · rw [hlocs, List.append_assoc, List.getElem?_append_right (by omega), hL, Nat.add_sub_cancel_left,
      List.getElem?_append_left (by rw [hl]; simpa using hjlt), hl, List.getElem?_map, hj]; rfl
  · rw [hmags, List.append_assoc, List.getElem?_append_right (by simp), List.length_replicate, Nat.add_sub_cancel_left,
      List.getElem?_append_left (by rw [he]; simpa using hjlt), he, List.getElem?_map, hj]; rfl


/-! ### a concrete interpolant meeting the oracle contract (for non-vacuity examples) -/

/-- an interpolant that satisfies the oracle contract: table lookup at the knots, 0 elsewhere -/
def knotInterp : Interp := { eval := fun locs mags t => ((locs.zip mags).lookup t).getD 0 }

theorem knotInterp_lookup : ∀ (locs mags : List Rat) (i : Nat) (t v : Rat), locs.Pairwise (· < ·) →
    locs[i]? = some t → mags[i]? = some v → (locs.zip mags).lookup t = some v := by
  intro locs
  induction locs with
  | nil => intro mags i t v _ h; simp at h
  | cons a l ih =>
    intro mags i t v hs h1 h2
    cases mags with
    | nil => simp at h2
    | cons b m =>
      cases i with
      | zero =>
        simp at h1 h2; subst h1 h2
        simp
      | succ j =>
        simp at h1 h2
        have hmem : t ∈ l := List.mem_of_getElem? h1
        have hat : a < t := (List.pairwise_cons.mp hs).1 t hmem
        have hne : (t == a) = false := by
          simp only [beq_eq_false_iff_ne, ne_eq]
          intro h; rw [h] at hat; exact absurd hat (Rat.lt_irrefl)
        simp only [List.zip_cons_cons, List.lookup, hne]
        exact ih m j t v (List.pairwise_cons.mp hs).2 h1 h2


end Extrema
