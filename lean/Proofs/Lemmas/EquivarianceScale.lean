/-
  Helper lemmas for C02 — rescaling and sign flip through the extrema / envelope model
  (`findPeaks`, `parabolic`, `extrema`, `padLoop`, `paddedExtrema`, `interpEnvelope`).
-/
import Proofs.Lemmas.ExtremaEnv
import Mathlib.Tactic.Linarith
import Mathlib.Tactic.FieldSimp
import Mathlib.Tactic.Ring
import Mathlib.Algebra.Order.Field.Rat
import Mathlib.Algebra.Order.Field.Basic

namespace Extrema

/-! ### vocabulary -/

/-- peaks ↔ troughs (what a sign flip does to the requested kind of extremum) -/
def Mode.swap : Mode → Mode
  | .peaks => .troughs
  | .troughs => .peaks
  | .absPeaks => .absPeaks

/-- upper ↔ lower -/
def EMode.swap : EMode → EMode
  | .upper => .lower
  | .lower => .upper
  | .combined => .combined

/-- the extremum kind of `x` that the kind `m` of `c • x` corresponds to -/
def Mode.under (c : Rat) (m : Mode) : Mode := if 0 < c then m else m.swap
def EMode.under (c : Rat) (m : EMode) : EMode := if 0 < c then m else m.swap

/-- the factor by which magnitudes of kind `m` scale: `c`, and `|c|` for the rectified signal -/
def Mode.factor (c : Rat) : Mode → Rat
  | .absPeaks => Rat.abs' c
  | _ => c
def EMode.factor (c : Rat) (m : EMode) : Rat := m.toMode.factor c

/-- result of `get_padded_extrema` with the magnitudes scaled -/
def PadResult.smul (c : Rat) : PadResult → PadResult
  | .ok l e => .ok l (Sig.smul c e)
  | r => r

/-- result of `interp_envelope` with envelope and magnitudes scaled -/
def EnvResult.smul (c : Rat) : EnvResult → EnvResult
  | .ok env l e => .ok (Sig.smul c env) l (Sig.smul c e)
  | r => r

/-- oracle contract: the interpolant is homogeneous of degree one in the ordinates, for factors of
    both signs (validated against scipy on every run: `interp_homogeneous`) -/
def Interp.Homogeneous (I : Interp) : Prop :=
  ∀ (c : Rat) (locs mags : List Rat) (t : Rat), c ≠ 0 → locs.Pairwise (· < ·) → locs.length = mags.length →
    I.eval locs (Sig.smul c mags) t = c * I.eval locs mags t

/-! ### detection -/

/-- detection only looks at the order of neighbouring samples -/
theorem peaksFrom_map_mono (f : Rat → Rat) (hf : ∀ a b, f a < f b ↔ a < b) (k : Nat) (l : List Rat) :
    peaksFrom k (l.map f) = peaksFrom k l := by
  fun_induction peaksFrom k l with
  | case1 i a b c t h ih =>
    simp only [List.map_cons] at ih ⊢
    rw [peaksFrom, if_pos ⟨(hf a b).mpr h.1, (hf c b).mpr h.2⟩, ih]
  | case2 i a b c t h ih =>
    simp only [List.map_cons] at ih ⊢
    rw [peaksFrom, if_neg (fun h' => h ⟨(hf a b).mp h'.1, (hf c b).mp h'.2⟩), ih]
  | case3 l i h =>
    match l, h with
    | [], _ => simp [peaksFrom]
    | [x], _ => simp [peaksFrom]
    | [x, y], _ => simp [peaksFrom]
    | x :: y :: z :: t, h => exact absurd rfl (h x y z t)

theorem mul_lt_mul_pos_iff (c : Rat) (hc : 0 < c) (a b : Rat) : c * a < c * b ↔ a < b := by
  constructor
  · intro h; by_contra hn; have : b ≤ a := not_lt.mp hn; nlinarith
  · intro h; nlinarith

theorem findPeaks_smul_pos' (c : Rat) (hc : 0 < c) (x : Sig) : findPeaks (Sig.smul c x) = findPeaks x :=
  peaksFrom_map_mono (c * ·) (mul_lt_mul_pos_iff c hc) 0 x

theorem smul_neg_eq (c : Rat) (x : Sig) : Sig.smul c x = Sig.smul (-c) (Sig.neg x) := by
  simp [Sig.smul, Sig.neg, List.map_map]

theorem neg_smul_eq (c : Rat) (x : Sig) : Sig.neg (Sig.smul c x) = Sig.smul (-c) x := by
  simp [Sig.smul, Sig.neg, List.map_map]

theorem neg_smul_comm (c : Rat) (x : Sig) : Sig.neg (Sig.smul c x) = Sig.smul c (Sig.neg x) := by
  simp [Sig.smul, Sig.neg, List.map_map]

theorem neg_neg_sig (x : Sig) : Sig.neg (Sig.neg x) = x := by
  simp [Sig.neg, List.map_map]

theorem smul_smul (a b : Rat) (x : Sig) : Sig.smul a (Sig.smul b x) = Sig.smul (a * b) x := by
  simp [Sig.smul, List.map_map, Function.comp_def, mul_assoc]

theorem smul_length (c : Rat) (x : Sig) : (Sig.smul c x).length = x.length := by simp [Sig.smul]

theorem findPeaks_smul_neg' (c : Rat) (hc : c < 0) (x : Sig) :
    findPeaks (Sig.smul c x) = findTroughs x ∧ findTroughs (Sig.smul c x) = findPeaks x := by
  constructor
  · rw [smul_neg_eq, findPeaks_smul_pos' (-c) (by linarith)]; rfl
  · unfold findTroughs; rw [neg_smul_eq, findPeaks_smul_pos' (-c) (by linarith)]

/-! ### refinement and raw extrema -/

theorem at'_smul (c : Rat) (x : Sig) (i : Nat) : at' (Sig.smul c x) i = c * at' x i := by
  unfold at' Sig.smul
  by_cases h : i < x.length
  · simp [List.getD, List.getElem?_map, List.getElem?_eq_getElem h]
  · have : x[i]? = none := List.getElem?_eq_none (by omega)
    simp [List.getD, List.getElem?_map, this]

/-- the vertex location is scale-invariant, the vertex height scales (any non-zero factor;
    division by a vanishing curvature is `0` on both sides) -/
theorem parabolic_smul' (c : Rat) (hc : c ≠ 0) (y0 y1 y2 : Rat) :
    parabolic (c * y0) (c * y1) (c * y2) = ((parabolic y0 y1 y2).1, c * (parabolic y0 y1 y2).2) := by
  have ea : c * y0 / 2 - c * y1 + c * y2 / 2 = c * (y0 / 2 - y1 + y2 / 2) := by ring
  have eb : -(5 / 2) * (c * y0) + 4 * (c * y1) - 3 / 2 * (c * y2) = c * (-(5 / 2) * y0 + 4 * y1 - 3 / 2 * y2) := by ring
  have ec : 3 * (c * y0) - 3 * (c * y1) + c * y2 = c * (3 * y0 - 3 * y1 + y2) := by ring
  have etp : -(c * (-(5 / 2) * y0 + 4 * y1 - 3 / 2 * y2)) / (2 * (c * (y0 / 2 - y1 + y2 / 2)))
      = -(-(5 / 2) * y0 + 4 * y1 - 3 / 2 * y2) / (2 * (y0 / 2 - y1 + y2 / 2)) := by
    by_cases ha : y0 / 2 - y1 + y2 / 2 = 0
    · simp [ha]
    · field_simp
  simp only [parabolic, ea, eb, ec, etp, Prod.mk.injEq, true_and]
  ring

theorem refinedLoc_smul (c : Rat) (hc : c ≠ 0) (y : Sig) (i : Nat) : refinedLoc (Sig.smul c y) i = refinedLoc y i := by
  simp only [refinedLoc, at'_smul, parabolic_smul' c hc]

theorem refinedMag_smul (c : Rat) (hc : c ≠ 0) (y : Sig) (i : Nat) :
    refinedMag (Sig.smul c y) i = c * refinedMag y i := by
  simp only [refinedMag, at'_smul, parabolic_smul' c hc]

theorem rawExtrema_smul_pos (parab : Bool) (c : Rat) (hc : 0 < c) (y : Sig) :
    rawExtrema parab (Sig.smul c y) = ((rawExtrema parab y).1, Sig.smul c (rawExtrema parab y).2) := by
  have hne : c ≠ 0 := ne_of_gt hc
  cases parab
  · simp only [rawExtrema, Bool.false_eq_true, if_false, findPeaks_smul_pos' c hc]
    refine Prod.ext rfl ?_
    show List.map (at' (Sig.smul c y)) (findPeaks y) = List.map (c * ·) (List.map (at' y) (findPeaks y))
    rw [List.map_map]
    apply List.map_congr_left; intro i _
    exact at'_smul c y i
  · simp only [rawExtrema, if_true, findPeaks_smul_pos' c hc]
    refine Prod.ext ?_ ?_
    · show List.map (refinedLoc (Sig.smul c y)) (findPeaks y) = List.map (refinedLoc y) (findPeaks y)
      apply List.map_congr_left; intro i _; exact refinedLoc_smul c hne y i
    · show List.map (refinedMag (Sig.smul c y)) (findPeaks y) = List.map (c * ·) (List.map (refinedMag y) (findPeaks y))
      rw [List.map_map]
      apply List.map_congr_left; intro i _; exact refinedMag_smul c hne y i

theorem abs'_mul (c v : Rat) : Rat.abs' (c * v) = Rat.abs' c * Rat.abs' v := by
  unfold Rat.abs'
  rcases lt_trichotomy c 0 with hc | hc | hc <;> rcases lt_trichotomy v 0 with hv | hv | hv
  · have : ¬ c * v < 0 := not_lt.mpr (le_of_lt (mul_pos_of_neg_of_neg hc hv))
    simp [hc, hv, this]
  · simp [hv]
  · have : c * v < 0 := mul_neg_of_neg_of_pos hc hv
    have hv' : ¬ v < 0 := not_lt.mpr (le_of_lt hv)
    simp [hc, hv', this]
  · simp [hc]
  · simp [hc]
  · simp [hc]
  · have : c * v < 0 := mul_neg_of_pos_of_neg hc hv
    have hc' : ¬ c < 0 := not_lt.mpr (le_of_lt hc)
    simp [hc', hv, this]
  · simp [hv]
  · have : ¬ c * v < 0 := not_lt.mpr (le_of_lt (mul_pos hc hv))
    have hc' : ¬ c < 0 := not_lt.mpr (le_of_lt hc)
    have hv' : ¬ v < 0 := not_lt.mpr (le_of_lt hv)
    simp [hc', hv', this]

theorem abs'_pos_of_ne (c : Rat) (hc : c ≠ 0) : 0 < Rat.abs' c := by
  unfold Rat.abs'
  rcases lt_trichotomy c 0 with h | h | h
  · simp [h]
  · exact absurd h hc
  · have : ¬ c < 0 := not_lt.mpr (le_of_lt h)
    simp [this, h]

theorem abs'_of_pos (c : Rat) (hc : 0 < c) : Rat.abs' c = c := by
  have : ¬ c < 0 := not_lt.mpr (le_of_lt hc)
  simp [Rat.abs', this]

theorem abs'_of_neg (c : Rat) (hc : c < 0) : Rat.abs' c = -c := by simp [Rat.abs', hc]

theorem map_abs_smul (c : Rat) (x : Sig) : (Sig.smul c x).map Rat.abs' = Sig.smul (Rat.abs' c) (x.map Rat.abs') := by
  simp [Sig.smul, List.map_map, Function.comp_def, abs'_mul]

/-- mode switch of `get_padded_extrema` on `c • x`, `c > 0`: same locations, magnitudes times `c` -/
theorem extrema_smul_pos (m : Mode) (parab : Bool) (c : Rat) (hc : 0 < c) (x : Sig) :
    extrema m parab (Sig.smul c x) = ((extrema m parab x).1, Sig.smul c (extrema m parab x).2) := by
  cases m
  · exact rawExtrema_smul_pos parab c hc x
  · simp only [extrema, neg_smul_comm, rawExtrema_smul_pos parab c hc]
  · simp only [extrema, map_abs_smul, abs'_of_pos c hc, rawExtrema_smul_pos parab c hc]

/-- … and for `c < 0`: the extrema of kind `m` of `c • x` are those of the swapped kind of `x` -/
theorem extrema_smul_neg (m : Mode) (parab : Bool) (c : Rat) (hc : c < 0) (x : Sig) :
    extrema m parab (Sig.smul c x) = ((extrema m.swap parab x).1, Sig.smul (m.factor c) (extrema m.swap parab x).2) := by
  have hc' : 0 < -c := by linarith
  cases m
  · -- peaks of c•x = peaks of (-c)•(-x)
    simp only [extrema, Mode.swap, Mode.factor]
    rw [smul_neg_eq, rawExtrema_smul_pos parab (-c) hc']
    simp [Sig.smul, Sig.neg, List.map_map, Function.comp_def]
  · simp only [extrema, Mode.swap, Mode.factor]
    rw [neg_smul_eq, rawExtrema_smul_pos parab (-c) hc']
    simp [Sig.smul, Sig.neg, List.map_map, Function.comp_def]
  · simp only [extrema, Mode.swap, Mode.factor, map_abs_smul]
    rw [rawExtrema_smul_pos parab _ (abs'_pos_of_ne c (ne_of_lt hc))]

/-! ### padding -/

theorem padEdge_smul (c : Rat) (w : Nat) (e : List Rat) : padEdge w (Sig.smul c e) = Sig.smul c (padEdge w e) := by
  unfold padEdge Sig.smul
  cases e with
  | nil => simp
  | cons a t =>
    have h1 : ((a :: t).map (c * ·)).head? = some (c * a) := by simp
    have h2 : ((a :: t).map (c * ·)).getLast? = some (c * (a :: t).getLast (by simp)) := by
      rw [List.getLast?_map, List.getLast?_eq_some_getLast (by simp)]; rfl
    have h3 : (a :: t).head? = some a := rfl
    have h4 : (a :: t).getLast? = some ((a :: t).getLast (by simp)) := List.getLast?_eq_some_getLast (by simp)
    rw [h1, h2, h3, h4]
    simp [List.map_append, List.map_replicate]

theorem padLoop_smul (c : Rat) (w n : Nat) : ∀ (f : Nat) (l e : List Rat),
    padLoop w n f l (Sig.smul c e) = (padLoop w n f l e).map (fun r => (r.1, Sig.smul c r.2)) := by
  intro f
  induction f with
  | zero => intro l e; simp [padLoop]
  | succ f ih =>
    intro l e
    unfold padLoop
    by_cases hm : needsMore n l = true
    · simp only [hm, if_true, padEdge_smul, ih]
    · simp [hm]

/-- `paddedExtrema` only depends on the length of the signal and on the mode-selected extrema -/
theorem paddedExtrema_of_extrema (w : Nat) (m m' : Mode) (parab : Bool) (x y : Sig) (k : Rat)
    (hlen : y.length = x.length)
    (h : extrema m parab y = ((extrema m' parab x).1, Sig.smul k (extrema m' parab x).2)) :
    paddedExtrema w m parab y = (paddedExtrema w m' parab x).smul k := by
  unfold paddedExtrema
  simp only [h, hlen]
  by_cases h1 : (extrema m' parab x).1.length ≤ 1
  · simp [h1, PadResult.smul]
  · simp only [h1, if_false]
    generalize (if (extrema m' parab x).1.length < w then (extrema m' parab x).1.length else w) = w'
    by_cases hw : w' = 0
    · simp [hw, PadResult.smul]
    · simp only [hw, if_false, padEdge_smul, padLoop_smul]
      cases padLoop w' x.length (x.length + 1) (padOdd w' (extrema m' parab x).1) (padEdge w' (extrema m' parab x).2) with
      | none => simp [PadResult.smul]
      | some r => simp [PadResult.smul]

/-! ### envelope -/

theorem PadResult.smul_ok_iff {c : Rat} {r : PadResult} {l e' : List Rat} (h : r.smul c = .ok l e') :
    ∃ e, r = .ok l e ∧ e' = Sig.smul c e := by
  cases r with
  | none => simp [PadResult.smul] at h
  | fuel => simp [PadResult.smul] at h
  | ok l0 e0 =>
    simp only [PadResult.smul, PadResult.ok.injEq] at h
    exact ⟨e0, by rw [h.1], h.2.symm⟩

/-- the envelope of a signal `y` whose padded extrema are those of `x` (kind `m'`) with magnitudes times `k ≠ 0` -/
theorem interpEnvelope_of_padded (I : Interp) (hI : I.Homogeneous) (em em' : EMode) (w : Nat) (parab : Bool)
    (x y : Sig) (k : Rat) (hk : k ≠ 0) (hlen : y.length = x.length)
    (h : paddedExtrema w em.toMode parab y = (paddedExtrema w em'.toMode parab x).smul k) :
    interpEnvelope I em w parab y = (interpEnvelope I em' w parab x).smul k := by
  unfold interpEnvelope
  rw [h]
  cases hp : paddedExtrema w em'.toMode parab x with
  | none => simp [PadResult.smul, EnvResult.smul]
  | fuel => simp [PadResult.smul, EnvResult.smul]
  | ok l e =>
    have hs := sep_imp_lt (paddedExtrema_sorted w em'.toMode parab x l e hp)
    have hl := paddedExtrema_lengths w em'.toMode parab x l e hp
    have henv : (envGrid l x.length).map (I.eval l (Sig.smul k e)) = Sig.smul k ((envGrid l x.length).map (I.eval l e)) := by
      simp only [Sig.smul, List.map_map]
      apply List.map_congr_left; intro t _
      exact hI k l e t hk hs hl
    simp only [PadResult.smul, hlen, henv, smul_length]
    split <;> simp [EnvResult.smul]

theorem Mode.factor_ne_zero (c : Rat) (hc : c ≠ 0) (m : Mode) : m.factor c ≠ 0 := by
  cases m
  · exact hc
  · exact hc
  · exact ne_of_gt (abs'_pos_of_ne c hc)

theorem EMode.swap_toMode (em : EMode) : em.swap.toMode = em.toMode.swap := by cases em <;> rfl

/-! ### lemma-level forms used by the sift layer -/

theorem interpEnvelope_smul_pos' (I : Interp) (hI : I.Homogeneous) (c : Rat) (hc : 0 < c) (em : EMode) (w : Nat)
    (parab : Bool) (x : Sig) :
    interpEnvelope I em w parab (Sig.smul c x) = (interpEnvelope I em w parab x).smul c :=
  interpEnvelope_of_padded I hI em em w parab x _ c (ne_of_gt hc) (smul_length c x)
    (paddedExtrema_of_extrema w em.toMode em.toMode parab x _ c (smul_length c x) (extrema_smul_pos em.toMode parab c hc x))

theorem interpEnvelope_smul_neg' (I : Interp) (hI : I.Homogeneous) (c : Rat) (hc : c < 0) (w : Nat) (parab : Bool) (x : Sig) :
    interpEnvelope I .upper w parab (Sig.smul c x) = (interpEnvelope I .lower w parab x).smul c ∧
    interpEnvelope I .lower w parab (Sig.smul c x) = (interpEnvelope I .upper w parab x).smul c :=
  ⟨interpEnvelope_of_padded I hI .upper .lower w parab x _ c (ne_of_lt hc) (smul_length c x)
      (paddedExtrema_of_extrema w .peaks .troughs parab x _ c (smul_length c x) (extrema_smul_neg .peaks parab c hc x)),
   interpEnvelope_of_padded I hI .lower .upper w parab x _ c (ne_of_lt hc) (smul_length c x)
      (paddedExtrema_of_extrema w .troughs .peaks parab x _ c (smul_length c x) (extrema_smul_neg .troughs parab c hc x))⟩

end Extrema
