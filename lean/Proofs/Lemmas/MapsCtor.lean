/- Helper lemmas about the constructors of EmdModel.Maps (subset and chain vectors). -/
import Proofs.Lemmas.Maps

namespace Maps

/-! ### get_subset_vector -/

theorem subsetFrom_length (c : Nat) (v : List Bool) : (subsetFrom c v).length = v.length := by
  induction v generalizing c with
  | nil => simp [subsetFrom]
  | cons b t ih => cases b <;> simp [subsetFrom, ih]

theorem subsetFrom_getElem? (c : Nat) (v : List Bool) (i : Nat) :
    (subsetFrom c v)[i]? =
      (v[i]?).map fun b => if b then ((c + (v.take i).count true : Nat) : Int) else -1 := by
  induction v generalizing c i with
  | nil => simp [subsetFrom]
  | cons b t ih =>
    cases i with
    | zero => cases b <;> simp [subsetFrom]
    | succ i =>
      cases b
      · simp [subsetFrom, ih]
      · simp only [subsetFrom, List.getElem?_cons_succ, ih, List.take_succ_cons, List.count_cons_self]
        cases t[i]? with
        | none => simp
        | some b => cases b <;> simp <;> omega

theorem subsetFrom_ge (c : Nat) (v : List Bool) : ∀ l ∈ subsetFrom c v, l = -1 ∨ (c : Int) ≤ l := by
  induction v generalizing c with
  | nil => simp [subsetFrom]
  | cons b t ih =>
    intro l hl
    cases b
    · simp only [subsetFrom, List.mem_cons] at hl
      rcases hl with rfl | hl
      · left; rfl
      · exact ih c l hl
    · simp only [subsetFrom, List.mem_cons] at hl
      rcases hl with rfl | hl
      · right; omega
      · rcases ih (c + 1) l hl with h | h
        · left; exact h
        · right; omega

theorem whereFrom_subsetFrom_lt (c off : Nat) (v : List Bool) (j : Nat) (h : j < c) :
    whereFrom (j : Int) off (subsetFrom c v) = [] := by
  induction v generalizing c off with
  | nil => simp [subsetFrom, whereFrom]
  | cons b t ih =>
    cases b
    · simp only [subsetFrom, whereFrom]
      rw [if_neg (by omega)]
      exact ih c (off + 1) h
    · simp only [subsetFrom, whereFrom]
      rw [if_neg (by omega)]
      exact ih (c + 1) (off + 1) (by omega)

theorem whereFrom_subsetFrom_ge (c off : Nat) (v : List Bool) (j : Nat) (h : c + v.count true ≤ j) :
    whereFrom (j : Int) off (subsetFrom c v) = [] := by
  induction v generalizing c off with
  | nil => simp [subsetFrom, whereFrom]
  | cons b t ih =>
    cases b
    · simp only [subsetFrom, whereFrom]
      rw [if_neg (by omega)]
      exact ih c (off + 1) (by simpa using h)
    · simp only [subsetFrom, whereFrom]
      simp only [List.count_cons_self] at h
      rw [if_neg (by omega)]
      exact ih (c + 1) (off + 1) (by omega)

theorem whereFrom_subsetFrom_mid (c off : Nat) (v : List Bool) (j : Nat) (h1 : c ≤ j)
    (h2 : j < c + v.count true) : ∃ k, whereFrom (j : Int) off (subsetFrom c v) = [k] := by
  induction v generalizing c off with
  | nil => simp at h2; omega
  | cons b t ih =>
    cases b
    · simp only [subsetFrom, whereFrom]
      rw [if_neg (by omega)]
      exact ih c (off + 1) h1 (by simpa using h2)
    · simp only [subsetFrom, whereFrom]
      simp only [List.count_cons_self] at h2
      by_cases hc : c = j
      · subst hc
        rw [if_pos rfl, whereFrom_subsetFrom_lt (c + 1) (off + 1) t c (by omega)]
        exact ⟨off, rfl⟩
      · rw [if_neg (by omega)]
        exact ih (c + 1) (off + 1) (by omega) (by omega)

/-! ### maxima of label vectors -/

theorem foldl_max_ge_init (a : Int) (v : List Int) : a ≤ v.foldl max a := by
  induction v generalizing a with
  | nil => simp
  | cons x t ih => simp only [List.foldl_cons]; have := ih (max a x); omega

theorem foldl_max_ge_mem (a : Int) (v : List Int) : ∀ x ∈ v, x ≤ v.foldl max a := by
  induction v generalizing a with
  | nil => simp
  | cons y t ih =>
    intro x hx
    simp only [List.foldl_cons]
    rcases List.mem_cons.mp hx with rfl | hx
    · have := foldl_max_ge_init (max a x) t; omega
    · exact ih _ x hx

theorem foldl_max_mem_or (a : Int) (v : List Int) : v.foldl max a = a ∨ v.foldl max a ∈ v := by
  induction v generalizing a with
  | nil => simp
  | cons y t ih =>
    simp only [List.foldl_cons]
    rcases ih (max a y) with h | h
    · by_cases hy : a ≤ y
      · right; rw [h]; simp [Int.max_eq_right hy]
      · left; rw [h]; omega
    · right; exact List.mem_cons_of_mem _ h

theorem le_maxLabel (v : List Int) : ∀ x ∈ v, x ≤ maxLabel v := foldl_max_ge_mem (-1) v

theorem maxLabel_mem_or (v : List Int) : maxLabel v = -1 ∨ maxLabel v ∈ v := foldl_max_mem_or (-1) v

/-- below `nLabels` there is always an entry at least as large -/
theorem exists_ge_of_lt_nLabels (v : List Int) (c : Nat) (h : c < nLabels v) :
    ∃ x ∈ v, (c : Int) ≤ x := by
  unfold nLabels at h
  rcases maxLabel_mem_or v with hm | hm
  · rw [hm] at h; simp at h
  · exact ⟨maxLabel v, hm, by omega⟩

theorem lt_nLabels_of_mem (v : List Int) (c : Nat) (h : (c : Int) ∈ v) : c < nLabels v := by
  have := le_maxLabel v _ h
  unfold nLabels; omega

end Maps

namespace Maps

theorem foldl_max_subsetFrom (a : Int) (c : Nat) (v : List Bool) (ha : -1 ≤ a) :
    (subsetFrom c v).foldl max a =
      if v.count true = 0 then a else max a ((c + v.count true : Nat) - 1 : Int) := by
  induction v generalizing a c with
  | nil => simp [subsetFrom]
  | cons b t ih =>
    cases b
    · simp only [subsetFrom, List.foldl_cons]
      rw [Int.max_eq_left ha, ih a c ha]
      simp
    · simp only [subsetFrom, List.foldl_cons, List.count_cons_self]
      rw [ih (max a c) (c + 1) (by omega)]
      split
      · rename_i h; simp [h]
      · rw [if_neg (by omega)]; omega

theorem nLabels_subsetVector (valids : List Bool) :
    nLabels (subsetVector valids) = valids.count true := by
  unfold nLabels maxLabel subsetVector
  rw [foldl_max_subsetFrom (-1) 0 valids (by omega)]
  split <;> omega

/-! ### `np.where(v > -1)` -/

theorem mem_selectedFrom (off : Nat) (v : List Int) (i : Nat) :
    i ∈ selectedFrom off v ↔ off ≤ i ∧ ∃ l, v[i - off]? = some l ∧ -1 < l := by
  induction v generalizing off with
  | nil => simp [selectedFrom]
  | cons x t ih =>
    have step : ∀ i, off + 1 ≤ i → i - off = (i - (off + 1)) + 1 := by intro i h; omega
    unfold selectedFrom
    split
    · rename_i h
      simp only [List.mem_cons, ih]
      constructor
      · rintro (rfl | ⟨h1, l, h2, h3⟩)
        · exact ⟨by omega, x, by simp, h⟩
        · exact ⟨by omega, l, by rw [step i h1]; simpa using h2, h3⟩
      · rintro ⟨h1, l, h2, h3⟩
        by_cases hi : i = off
        · left; exact hi
        · right
          refine ⟨by omega, l, ?_, h3⟩
          rw [step i (by omega)] at h2; simpa using h2
    · rename_i h
      rw [ih]
      constructor
      · rintro ⟨h1, l, h2, h3⟩
        exact ⟨by omega, l, by rw [step i h1]; simpa using h2, h3⟩
      · rintro ⟨h1, l, h2, h3⟩
        by_cases hi : i = off
        · subst hi; simp at h2; subst h2; exact absurd h3 h
        · refine ⟨by omega, l, ?_, h3⟩
          rw [step i (by omega)] at h2; simpa using h2

theorem selectedFrom_sorted (off : Nat) (v : List Int) :
    (selectedFrom off v).Pairwise (· < ·) := by
  induction v generalizing off with
  | nil => simp [selectedFrom]
  | cons x t ih =>
    unfold selectedFrom
    split
    · refine List.pairwise_cons.mpr ⟨?_, ih _⟩
      intro i hi
      have := ((mem_selectedFrom (off + 1) t i).mp hi).1
      omega
    · exact ih _

theorem selectedFrom_subsetFrom_length (off c : Nat) (v : List Bool) :
    (selectedFrom off (subsetFrom c v)).length = v.count true := by
  induction v generalizing off c with
  | nil => simp [subsetFrom, selectedFrom]
  | cons b t ih =>
    cases b
    · simp only [subsetFrom, selectedFrom]
      rw [if_neg (by omega)]
      simpa using ih (off + 1) c
    · simp only [subsetFrom, selectedFrom]
      rw [if_pos (by omega)]
      simp [ih (off + 1) (c + 1)]

/-- the m-th selected position is the cycle whose subset index is m (counted from `c`) -/
theorem selectedFrom_subsetFrom_getElem? (off c : Nat) (v : List Bool) (m k : Nat)
    (h : (selectedFrom off (subsetFrom c v))[m]? = some k) :
    whereFrom ((c + m : Nat) : Int) off (subsetFrom c v) = [k] := by
  induction v generalizing off c m with
  | nil => simp [subsetFrom, selectedFrom] at h
  | cons b t ih =>
    cases b
    · simp only [subsetFrom, selectedFrom] at h ⊢
      rw [if_neg (by omega)] at h
      simp only [whereFrom]
      rw [if_neg (by omega)]
      exact ih (off + 1) c m h
    · simp only [subsetFrom, selectedFrom] at h ⊢
      rw [if_pos (by omega)] at h
      simp only [whereFrom]
      cases m with
      | zero =>
        simp at h; subst h
        rw [if_pos (by simp), whereFrom_subsetFrom_lt (c + 1) (off + 1) t (c + 0) (by omega)]
      | succ m =>
        rw [if_neg (by omega)]
        simp only [List.getElem?_cons_succ] at h
        have := ih (off + 1) (c + 1) m h
        have e : c + 1 + m = c + (m + 1) := by omega
        rw [e] at this; exact this

end Maps

namespace Maps

/-! ### get_chain_vector -/

theorem chainFrom_length (count prev : Nat) (t : List Nat) :
    (chainFrom count prev t).length = t.length := by
  induction t generalizing count prev with
  | nil => simp [chainFrom]
  | cons i t ih =>
    unfold chainFrom
    split
    · simp [ih]
    · split <;> simp [ih]

/-- On strictly increasing cycle indices the chain number stays when the next selected cycle
    is adjacent and goes up by one otherwise (the "difference ≤ 0" branch is never taken). -/
theorem chainFrom_rec (count prev : Nat) (t : List Nat) (hs : (prev :: t).Pairwise (· < ·)) :
    ∀ (m a b : Nat) (x : Int), (prev :: t)[m]? = some a → (prev :: t)[m + 1]? = some b →
      ((count : Int) :: chainFrom count prev t)[m]? = some x →
      ((count : Int) :: chainFrom count prev t)[m + 1]? = some (if b = a + 1 then x else x + 1) := by
  induction t generalizing count prev with
  | nil => intro m a b x _ hb; simp at hb
  | cons i t ih =>
    have hpi : prev < i := (List.pairwise_cons.mp hs).1 i (by simp)
    have hs' : (i :: t).Pairwise (· < ·) := (List.pairwise_cons.mp hs).2
    intro m a b x ha hb hx
    cases m with
    | zero =>
      simp at ha hb hx
      subst ha hb hx
      unfold chainFrom
      by_cases h : i = prev + 1
      · simp [h]
      · rw [if_neg h, if_pos (by omega)]; simp [h]
    | succ m =>
      simp only [List.getElem?_cons_succ] at ha hb hx ⊢
      unfold chainFrom at hx ⊢
      by_cases h : i = prev + 1
      · rw [if_pos h] at hx ⊢
        exact ih count i hs' m a b x ha hb hx
      · rw [if_neg h, if_pos (by omega)] at hx ⊢
        exact ih (count + 1) i hs' m a b x ha hb hx

theorem chainFrom_lb (count prev : Nat) (t : List Nat) (hs : (prev :: t).Pairwise (· < ·)) :
    ∀ x ∈ chainFrom count prev t, (count : Int) ≤ x := by
  induction t generalizing count prev with
  | nil => simp [chainFrom]
  | cons i t ih =>
    have hpi : prev < i := (List.pairwise_cons.mp hs).1 i (by simp)
    have hs' : (i :: t).Pairwise (· < ·) := (List.pairwise_cons.mp hs).2
    intro x hx
    unfold chainFrom at hx
    by_cases h : i = prev + 1
    · rw [if_pos h] at hx
      rcases List.mem_cons.mp hx with rfl | hx
      · omega
      · exact ih count i hs' x hx
    · rw [if_neg h, if_pos (by omega)] at hx
      rcases List.mem_cons.mp hx with rfl | hx
      · omega
      · have := ih (count + 1) i hs' x hx; omega

/-- chain numbers form an initial segment: nothing is skipped -/
theorem chainFrom_closed (count prev : Nat) (t : List Nat) (hs : (prev :: t).Pairwise (· < ·)) :
    ∀ x ∈ (count : Int) :: chainFrom count prev t, ∀ c : Nat, count ≤ c → (c : Int) ≤ x →
      (c : Int) ∈ (count : Int) :: chainFrom count prev t := by
  induction t generalizing count prev with
  | nil =>
    intro x hx c h1 h2
    simp [chainFrom] at hx ⊢
    omega
  | cons i t ih =>
    have hpi : prev < i := (List.pairwise_cons.mp hs).1 i (by simp)
    have hs' : (i :: t).Pairwise (· < ·) := (List.pairwise_cons.mp hs).2
    intro x hx c h1 h2
    unfold chainFrom at hx ⊢
    by_cases h : i = prev + 1
    · rw [if_pos h] at hx ⊢
      rcases List.mem_cons.mp hx with rfl | hx
      · have : c = count := by omega
        subst this; simp
      · exact List.mem_cons_of_mem _ (ih count i hs' x hx c h1 h2)
    · rw [if_neg h, if_pos (by omega)] at hx ⊢
      rcases List.mem_cons.mp hx with rfl | hx
      · have : c = count := by omega
        subst this; simp
      · by_cases hc : c = count
        · subst hc; simp
        · exact List.mem_cons_of_mem _ (ih (count + 1) i hs' x hx c (by omega) h2)

theorem chainVector_length (sv : List Int) : (chainVector sv).length = (selected sv).length := by
  unfold chainVector
  split
  · rename_i h; simp [h]
  · rename_i i t h; simp [h, chainFrom_length]

theorem chainVector_nonneg (sv : List Int) : ∀ x ∈ chainVector sv, 0 ≤ x := by
  unfold chainVector
  split
  · simp
  · rename_i i t h
    have hs : (i :: t).Pairwise (· < ·) := by rw [← h]; exact selectedFrom_sorted 0 sv
    intro x hx
    rcases List.mem_cons.mp hx with rfl | hx
    · omega
    · have := chainFrom_lb 0 i t hs x hx; omega

theorem chainVector_occurs (sv : List Int) (c : Nat) (h : c < nLabels (chainVector sv)) :
    (c : Int) ∈ chainVector sv := by
  obtain ⟨x, hx, hc⟩ := exists_ge_of_lt_nLabels _ c h
  unfold chainVector at hx ⊢
  split at hx
  · simp at hx
  · rename_i i t hsel
    have hs : (i :: t).Pairwise (· < ·) := by rw [← hsel]; exact selectedFrom_sorted 0 sv
    have := chainFrom_closed 0 i t hs x (by simpa using hx) c (by omega) hc
    simpa using this

/-- recurrence characterising the chain vector over the selected cycle indices -/
theorem chainVector_rec (sv : List Int) (m a b : Nat) (x : Int)
    (ha : (selected sv)[m]? = some a) (hb : (selected sv)[m + 1]? = some b)
    (hx : (chainVector sv)[m]? = some x) :
    (chainVector sv)[m + 1]? = some (if b = a + 1 then x else x + 1) := by
  unfold chainVector at hx ⊢
  split at hx
  · simp at hx
  · rename_i i t hsel
    have hs : (i :: t).Pairwise (· < ·) := by rw [← hsel]; exact selectedFrom_sorted 0 sv
    rw [hsel] at ha hb
    exact chainFrom_rec 0 i t hs m a b x ha hb (by simpa using hx)

theorem chainVector_head (sv : List Int) (h : selected sv ≠ []) : (chainVector sv)[0]? = some 0 := by
  unfold chainVector
  split
  · rename_i h'; exact absurd h' h
  · simp

end Maps

namespace Maps

/-- d subset cycles further on, the chain number is unchanged exactly when the cycle index has
    advanced by exactly d (every cycle in between is selected); it never decreases -/
theorem chain_gap (sv : List Int) (m d : Nat) :
    ∀ (a b : Nat) (x y : Int), (selected sv)[m]? = some a → (selected sv)[m + d]? = some b →
      (chainVector sv)[m]? = some x → (chainVector sv)[m + d]? = some y →
      x ≤ y ∧ a + d ≤ b ∧ (y = x ↔ b = a + d) := by
  induction d with
  | zero =>
    intro a b x y ha hb hx hy
    simp only [Nat.add_zero] at hb hy
    rw [ha] at hb; rw [hx] at hy
    injection hb with hb; injection hy with hy
    subst hb hy
    exact ⟨by omega, by omega, by simp⟩
  | succ d ih =>
    intro a b x y ha hb hx hy
    have hlt : m + d + 1 < (selected sv).length := by
      have := (List.getElem?_eq_some_iff.mp hb).1; omega
    have hlt' : m + d < (selected sv).length := by omega
    have hb' := List.getElem?_eq_getElem hlt'
    have hlen := chainVector_length sv
    have hy' := List.getElem?_eq_getElem (show m + d < (chainVector sv).length by omega)
    obtain ⟨h1, h2, h3⟩ := ih a _ x _ ha hb' hx hy'
    have hrec := chainVector_rec sv (m + d) _ b _ hb' hb hy'
    rw [show m + (d + 1) = m + d + 1 by omega] at hy
    rw [hy] at hrec
    injection hrec with hrec
    have hsorted : (selected sv)[m + d] < b := by
      have hp := selectedFrom_sorted 0 sv
      have hb2 : (selected sv)[m + d + 1] = b := by
        have := List.getElem?_eq_getElem hlt
        rw [show m + (d + 1) = m + d + 1 by omega, this] at hb
        injection hb
      rw [← hb2]
      exact List.pairwise_iff_getElem.mp hp (m + d) (m + d + 1) hlt' hlt (by omega)
    by_cases hadj : b = (selected sv)[m + d] + 1
    · rw [if_pos hadj] at hrec
      refine ⟨by omega, by omega, ?_⟩
      rw [hrec]; constructor
      · intro h; have := h3.mp h; omega
      · intro h; exact h3.mpr (by omega)
    · rw [if_neg hadj] at hrec
      refine ⟨by omega, by omega, ?_⟩
      constructor
      · intro h; omega
      · intro h; omega

end Maps
