/-
  Helper lemmas for C05 — odd-reflection padding (`padOddOnce`, `padOdd`, `padEdge`, `padLoop`).
-/
import EmdModel.Extrema

namespace Extrema

/-- an order-like relation that odd reflection `v ↦ c - v` reverses:
    instances are `<` and "at least `d` apart" -/
structure ReflRel (R : Rat → Rat → Prop) : Prop where
  trans : ∀ {a b c : Rat}, R a b → R b c → R a c
  flip : ∀ {a b : Rat} (c : Rat), R a b → R (c - b) (c - a)

theorem reflRel_lt : ReflRel (· < ·) where
  trans := fun h1 h2 => by grind
  flip := fun c h => by grind

theorem reflRel_sep (d : Rat) (hd : 0 ≤ d) : ReflRel (fun a b => a + d ≤ b) where
  trans := fun h1 h2 => by grind
  flip := fun c h => by grind

variable {R : Rat → Rat → Prop}

theorem leftRefl_pairwise (hR : ReflRel R) (c : Nat) {l : List Rat} (h : l.Pairwise R) :
    (leftRefl c l).Pairwise R := by
  cases l with
  | nil => exact List.Pairwise.nil
  | cons a t =>
    unfold leftRefl
    rw [List.pairwise_map, List.pairwise_reverse]
    have ht : (t.take c).Pairwise R := (List.pairwise_cons.mp h).2.sublist (List.take_sublist c t)
    exact ht.imp fun hxy => hR.flip (2 * a) hxy

theorem leftRefl_lt_all (hR : ReflRel R) (c : Nat) {l : List Rat} (h : l.Pairwise R) :
    ∀ u ∈ leftRefl c l, ∀ v ∈ l, R u v := by
  cases l with
  | nil => intro u hu; simp [leftRefl] at hu
  | cons a t =>
    intro u hu v hv
    have hat := (List.pairwise_cons.mp h).1
    simp only [leftRefl, List.mem_map, List.mem_reverse] at hu
    obtain ⟨y, hy, rfl⟩ := hu
    have hyt : y ∈ t := List.mem_of_mem_take hy
    have h1 : R (2 * a - y) (2 * a - a) := hR.flip (2 * a) (hat y hyt)
    have h2 : 2 * a - a = a := by grind
    rw [h2] at h1
    rcases List.mem_cons.mp hv with rfl | hv
    · exact h1
    · exact hR.trans h1 (hat v hv)

theorem rightRefl_pairwise (hR : ReflRel R) (c : Nat) {l : List Rat} (h : l.Pairwise R) :
    (rightRefl c l).Pairwise R := by
  unfold rightRefl
  have hrev : l.reverse.Pairwise (fun a b => R b a) := List.pairwise_reverse.mpr h
  split
  · exact List.Pairwise.nil
  · rename_i z r heq
    rw [heq] at hrev
    rw [List.pairwise_map]
    have hr : (r.take c).Pairwise (fun a b => R b a) :=
      (List.pairwise_cons.mp hrev).2.sublist (List.take_sublist c r)
    exact hr.imp fun hxy => hR.flip (2 * z) hxy

theorem rightRefl_gt_all (hR : ReflRel R) (c : Nat) {l : List Rat} (h : l.Pairwise R) :
    ∀ v ∈ l, ∀ u ∈ rightRefl c l, R v u := by
  unfold rightRefl
  have hrev : l.reverse.Pairwise (fun a b => R b a) := List.pairwise_reverse.mpr h
  split
  · intro v _ u hu; simp at hu
  · rename_i z r heq
    rw [heq] at hrev
    have hzr := (List.pairwise_cons.mp hrev).1
    intro v hv u hu
    simp only [List.mem_map] at hu
    obtain ⟨y, hy, rfl⟩ := hu
    have hyr : y ∈ r := List.mem_of_mem_take hy
    have h1 : R (2 * z - z) (2 * z - y) := hR.flip (2 * z) (hzr y hyr)
    have h2 : 2 * z - z = z := by grind
    rw [h2] at h1
    have hv' : v ∈ l.reverse := List.mem_reverse.mpr hv
    rw [heq] at hv'
    rcases List.mem_cons.mp hv' with rfl | hv'
    · exact h1
    · exact hR.trans (hzr v hv') h1

/-- one reflection chunk keeps the locations ordered (for `<` and for "at least d apart") -/
theorem padOddOnce_pairwise (hR : ReflRel R) (c : Nat) {l : List Rat} (h : l.Pairwise R) :
    (padOddOnce c l).Pairwise R := by
  unfold padOddOnce
  rw [List.pairwise_append, List.pairwise_append]
  refine ⟨⟨leftRefl_pairwise hR c h, h, leftRefl_lt_all hR c h⟩, rightRefl_pairwise hR c h, ?_⟩
  intro u hu w hw
  rcases List.mem_append.mp hu with hu | hu
  · cases l with
    | nil => simp [leftRefl] at hu
    | cons a t =>
      have ha : a ∈ a :: t := List.mem_cons_self
      exact hR.trans (leftRefl_lt_all hR c h u hu a ha) (rightRefl_gt_all hR c h a ha w hw)
  · exact rightRefl_gt_all hR c h u hu w hw

theorem leftRefl_length (c : Nat) (l : List Rat) : (leftRefl c l).length = min c (l.length - 1) := by
  cases l with
  | nil => simp [leftRefl]
  | cons a t => simp [leftRefl]

theorem rightRefl_length (c : Nat) (l : List Rat) : (rightRefl c l).length = min c (l.length - 1) := by
  unfold rightRefl
  split
  · rename_i heq
    have : l = [] := by simpa using heq
    simp [this]
  · rename_i z r heq
    have : l.length = r.length + 1 := by
      have := congrArg List.length heq
      simpa using this
    simp [this]

/-! ### index form of one reflection chunk -/

theorem padOddOnce_mid (c : Nat) (l : List Rat) (hc : c < l.length) (i : Nat) (hi : i < l.length) :
    (padOddOnce c l)[c + i]? = l[i]? := by
  unfold padOddOnce
  have hL : (leftRefl c l).length = c := by rw [leftRefl_length]; omega
  rw [List.append_assoc, List.getElem?_append_right (by omega), hL, Nat.add_sub_cancel_left,
    List.getElem?_append_left hi]

theorem padOddOnce_left (c : Nat) (l : List Rat) (hc : c < l.length) (k : Nat) (hk1 : 1 ≤ k) (hk : k ≤ c) :
    (padOddOnce c l)[c - k]? = some (2 * at' l 0 - at' l k) := by
  unfold padOddOnce
  have hL : (leftRefl c l).length = c := by rw [leftRefl_length]; omega
  rw [List.append_assoc, List.getElem?_append_left (by omega)]
  cases l with
  | nil => simp at hc
  | cons a t =>
    simp only [List.length_cons] at hc
    have hkt : k - 1 < t.length := by omega
    simp only [leftRefl, List.getElem?_map]
    rw [List.getElem?_reverse (by simp; omega)]
    have e : (List.take c t).length - 1 - (c - k) = k - 1 := by simp; omega
    rw [e, List.getElem?_take_of_lt (by omega), List.getElem?_eq_getElem hkt]
    have h0 : at' (a :: t) 0 = a := by simp [at']
    have hk' : at' (a :: t) k = t[k - 1] := by
      obtain ⟨k', rfl⟩ : ∃ k', k = k' + 1 := ⟨k - 1, by omega⟩
      have hk'' : k' < t.length := by omega
      simp [at', List.getD, List.getElem?_eq_getElem hk'']
    simp [h0, hk']

theorem padOddOnce_right (c : Nat) (l : List Rat) (hc : c < l.length) (k : Nat) (hk1 : 1 ≤ k) (hk : k ≤ c) :
    (padOddOnce c l)[c + l.length - 1 + k]? = some (2 * at' l (l.length - 1) - at' l (l.length - 1 - k)) := by
  unfold padOddOnce
  have hL : (leftRefl c l).length = c := by rw [leftRefl_length]; omega
  rw [List.getElem?_append_right (by simp [hL]; omega)]
  have e : c + l.length - 1 + k - (leftRefl c l ++ l).length = k - 1 := by simp [hL]; omega
  rw [e]
  unfold rightRefl
  split
  · rename_i heq
    have : l = [] := by simpa using heq
    simp [this] at hc
  · rename_i z r heq
    have hlen : l.length = r.length + 1 := by
      have := congrArg List.length heq
      simpa using this
    have hl : l = r.reverse ++ [z] := by
      have := congrArg List.reverse heq
      simpa using this
    have hkr : k - 1 < r.length := by omega
    simp only [List.getElem?_map]
    rw [List.getElem?_take_of_lt (by omega), List.getElem?_eq_getElem hkr]
    have hz : at' l (l.length - 1) = z := by
      rw [hl]; simp [at', List.getD]
    have hy : at' l (l.length - 1 - k) = r[k - 1] := by
      rw [hl]
      simp only [at', List.getD, List.length_append, List.length_reverse, List.length_singleton, Nat.add_sub_cancel]
      rw [List.getElem?_append_left (by simp; omega), List.getElem?_reverse (by omega)]
      have : r.length - 1 - (r.length - k) = k - 1 := by omega
      rw [this, List.getElem?_eq_getElem hkr]; rfl
    simp [hz, hy]

/-! ### chains of reflection chunks; numpy's loop -/

/-- `r` is obtained from `l` by a sequence of reflection chunks, each of `1 ≤ c < current length` values -/
inductive PadChain : List Rat → List Rat → Prop
  | refl (l : List Rat) : PadChain l l
  | step {l r : List Rat} (c : Nat) (hc : 1 ≤ c) (hlt : c < r.length) : PadChain l r → PadChain l (padOddOnce c r)

theorem PadChain.trans {a b c : List Rat} (h1 : PadChain a b) (h2 : PadChain b c) : PadChain a c := by
  induction h2 with
  | refl => exact h1
  | step c hc hlt _ ih => exact PadChain.step c hc hlt ih

theorem PadChain.pairwise {R : Rat → Rat → Prop} (hR : ReflRel R) {l r : List Rat} (h : PadChain l r)
    (hl : l.Pairwise R) : r.Pairwise R := by
  induction h with
  | refl => exact hl
  | step c _ _ _ ih => exact padOddOnce_pairwise hR c ih

theorem padOddOnce_length (c : Nat) (l : List Rat) (hc : c < l.length) :
    (padOddOnce c l).length = l.length + 2 * c := by
  unfold padOddOnce
  simp only [List.length_append, leftRefl_length, rightRefl_length]
  omega

/-- numpy's chunk loop: a chain of reflection chunks that adds exactly `rem` values on either side -/
theorem padOddAux_spec (m : Nat) (hm : 2 ≤ m) :
    ∀ (f rem : Nat) (l : List Rat), rem ≤ f → m ≤ l.length →
      PadChain l (padOddAux m f rem l) ∧
      ∃ L Rr, padOddAux m f rem l = L ++ l ++ Rr ∧ L.length = rem ∧ Rr.length = rem := by
  intro f
  induction f with
  | zero =>
    intro rem l hrem _
    have : rem = 0 := by omega
    subst this
    exact ⟨PadChain.refl l, [], [], by simp [padOddAux], rfl, rfl⟩
  | succ f ih =>
    intro rem l hrem hl
    unfold padOddAux
    by_cases h0 : rem = 0
    · subst h0
      exact ⟨by simpa using PadChain.refl l, [], [], by simp, rfl, rfl⟩
    · simp only [h0, if_false]
      have hper1 : m - 1 ≤ (l.length - 1) / (m - 1) * (m - 1) := by
        have : 1 ≤ (l.length - 1) / (m - 1) := (Nat.le_div_iff_mul_le (by omega)).mpr (by omega)
        calc m - 1 = 1 * (m - 1) := by omega
          _ ≤ _ := Nat.mul_le_mul_right _ this
      have hper2 : (l.length - 1) / (m - 1) * (m - 1) ≤ l.length - 1 := Nat.div_mul_le_self _ _
      generalize hc : min ((l.length - 1) / (m - 1) * (m - 1)) rem = c
      have hc1 : 1 ≤ c := by omega
      have hclt : c < l.length := by omega
      have hcrem : c ≤ rem := by omega
      have hlen := padOddOnce_length c l hclt
      obtain ⟨hch, L, Rr, heq, hL, hR⟩ := ih (rem - c) (padOddOnce c l) (by omega) (by omega)
      refine ⟨PadChain.trans (PadChain.step c hc1 hclt (PadChain.refl l)) hch, L ++ leftRefl c l, rightRefl c l ++ Rr, ?_, ?_, ?_⟩
      · rw [heq]; simp [padOddOnce, List.append_assoc]
      · simp [hL, leftRefl_length]; omega
      · simp [hR, rightRefl_length]; omega

theorem padOdd_spec (w : Nat) (l : List Rat) (hl : 2 ≤ l.length) :
    PadChain l (padOdd w l) ∧ ∃ L Rr, padOdd w l = L ++ l ++ Rr ∧ L.length = w ∧ Rr.length = w := by
  match l, hl with
  | a :: b :: t, _ =>
    unfold padOdd
    exact padOddAux_spec _ (by simp) w w _ (Nat.le_refl _) (Nat.le_refl _)

/-- when the width is smaller than the array a single chunk suffices (the usual case) -/
theorem padOdd_eq_once (w : Nat) (l : List Rat) (hw1 : 1 ≤ w) (hw : w < l.length) (hl : 2 ≤ l.length) :
    padOdd w l = padOddOnce w l := by
  match l, hl with
  | a :: b :: t, _ =>
    obtain ⟨w', rfl⟩ : ∃ w', w = w' + 1 := ⟨w - 1, by omega⟩
    have hdiv : ((a :: b :: t).length - 1) / ((a :: b :: t).length - 1) = 1 := Nat.div_self (by simp)
    have hmin : min ((a :: b :: t).length - 1) (w' + 1) = w' + 1 := by omega
    unfold padOdd
    simp only []
    rw [padOddAux]
    simp only [Nat.add_one_ne_zero, if_false, hdiv, Nat.one_mul, hmin, Nat.sub_self]
    cases w' <;> simp [padOddAux]

/-! ### min / max of ordered locations -/

theorem lmin_cons_of_sorted (a : Rat) (t : List Rat) (h : (a :: t).Pairwise (· < ·)) : lmin (a :: t) = a := by
  induction t generalizing a with
  | nil => simp [lmin]
  | cons b t ih =>
    have hb : lmin (b :: t) = b := ih b (List.pairwise_cons.mp h).2
    have hab : a < b := (List.pairwise_cons.mp h).1 b List.mem_cons_self
    rw [lmin, hb]
    · simp [Rat.le_of_lt hab]
    · simp

theorem lmax_of_sorted (l : List Rat) (hne : l ≠ []) (h : l.Pairwise (· < ·)) : lmax l = l.getLast hne := by
  induction l with
  | nil => exact absurd rfl hne
  | cons a t ih =>
    cases t with
    | nil => simp [lmax]
    | cons b t =>
      have hb := ih (by simp) (List.pairwise_cons.mp h).2
      have hlast : a < (b :: t).getLast (by simp) :=
        (List.pairwise_cons.mp h).1 _ (List.getLast_mem _)
      rw [lmax, hb]
      · have : ¬ ((b :: t).getLast (by simp) ≤ a) := Rat.not_le.mpr hlast
        simp [this]
      · simp


/-! ### the re-padding loop -/

theorem padEdge_sandwich (a z : Rat) (e : List Rat) (k w : Nat) (ha : e.head? = some a) (hz : e.getLast? = some z) :
    padEdge w (List.replicate k a ++ e ++ List.replicate k z) =
      List.replicate (k + w) a ++ e ++ List.replicate (k + w) z := by
  have hne : e ≠ [] := by rintro rfl; simp at ha
  have h1 : (List.replicate k a ++ e ++ List.replicate k z).head? = some a := by
    cases k with
    | zero => simp [ha]
    | succ k => simp [List.replicate_succ]
  have h2 : (List.replicate k a ++ e ++ List.replicate k z).getLast? = some z := by
    cases k with
    | zero => simp [hz]
    | succ k =>
      rw [List.replicate_succ' (n := k) (a := z), ← List.append_assoc, List.getLast?_concat]
  unfold padEdge
  rw [h1, h2]
  show List.replicate w a ++ (List.replicate k a ++ e ++ List.replicate k z) ++ List.replicate w z = _
  have e1 : List.replicate w a ++ (List.replicate k a ++ e ++ List.replicate k z) ++ List.replicate w z
      = (List.replicate w a ++ List.replicate k a) ++ e ++ (List.replicate k z ++ List.replicate w z) := by
    simp only [List.append_assoc]
  rw [e1, List.replicate_append_replicate, List.replicate_append_replicate, Nat.add_comm w k]

/-- state of the re-padding loop relative to the unpadded extrema `(l, e)`:
    `k` locations added on either side by a chain of reflection chunks, magnitudes edge-replicated -/
def PadInv (l e : List Rat) (a z : Rat) (l' e' : List Rat) : Prop :=
  ∃ (k : Nat) (L Rr : List Rat), l' = L ++ l ++ Rr ∧ L.length = k ∧ Rr.length = k ∧
    e' = List.replicate k a ++ e ++ List.replicate k z ∧ PadChain l l'

theorem PadInv.step {l e : List Rat} {a z : Rat} {l' e' : List Rat} (w : Nat) (hl : 2 ≤ l.length)
    (ha : e.head? = some a) (hz : e.getLast? = some z) (h : PadInv l e a z l' e') :
    PadInv l e a z (padOdd w l') (padEdge w e') := by
  obtain ⟨k, L, Rr, hl', hL, hR, he', hch⟩ := h
  have hlen : 2 ≤ l'.length := by rw [hl']; simp; omega
  obtain ⟨hch2, L2, R2, heq, hL2, hR2⟩ := padOdd_spec w l' hlen
  refine ⟨k + w, L2 ++ L, Rr ++ R2, ?_, ?_, ?_, ?_, hch.trans hch2⟩
  · rw [heq, hl']; simp [List.append_assoc]
  · simp [hL, hL2]; omega
  · simp [hR, hR2]
  · rw [he']; exact padEdge_sandwich a z e k w ha hz

theorem padLoop_spec {l e : List Rat} {a z : Rat} (w n : Nat) (hl : 2 ≤ l.length)
    (ha : e.head? = some a) (hz : e.getLast? = some z) :
    ∀ (f : Nat) (l' e' : List Rat) (r : List Rat × List Rat), padLoop w n f l' e' = some r →
      PadInv l e a z l' e' → PadInv l e a z r.1 r.2 ∧ needsMore n r.1 = false := by
  intro f
  induction f with
  | zero => intro l' e' r h; simp [padLoop] at h
  | succ f ih =>
    intro l' e' r h hinv
    unfold padLoop at h
    by_cases hm : needsMore n l' = true
    · simp only [hm, if_true] at h
      exact ih _ _ r h (hinv.step w hl ha hz)
    · simp only [hm] at h
      have : r = (l', e') := by simpa using h.symm
      subst this
      exact ⟨hinv, by simpa using hm⟩

/-- one more round of padding moves both ends outwards by at least the minimal spacing 1 -/
theorem padOdd_progress (w : Nat) (hw : 1 ≤ w) (l : List Rat) (hl : 2 ≤ l.length)
    (hs : l.Pairwise (fun a b => a + 1 ≤ b)) :
    (padOdd w l).Pairwise (fun a b => a + 1 ≤ b) ∧ 2 ≤ (padOdd w l).length ∧
      lmin (padOdd w l) + 1 ≤ lmin l ∧ lmax l + 1 ≤ lmax (padOdd w l) := by
  obtain ⟨hch, L, Rr, heq, hL, hR⟩ := padOdd_spec w l hl
  have hs' := hch.pairwise (reflRel_sep 1 (by decide)) hs
  have hlt : ∀ {m : List Rat}, m.Pairwise (fun a b => a + 1 ≤ b) → m.Pairwise (· < ·) :=
    fun h => h.imp (fun {a b} (hab : a + 1 ≤ b) => by grind)
  refine ⟨hs', by rw [heq]; simp; omega, ?_, ?_⟩
  · -- heads
    match L, hL with
    | u :: L', _ =>
      match l, hl with
      | a :: t, _ =>
        rw [lmin_cons_of_sorted a t (hlt hs)]
        have hsu : ((u :: L') ++ (a :: t) ++ Rr).Pairwise (fun a b => a + 1 ≤ b) := heq ▸ hs'
        have : lmin (padOdd w (a :: t)) = u := by
          rw [heq]; exact lmin_cons_of_sorted u _ (hlt hsu)
        rw [this]
        have := List.pairwise_append.mp (List.pairwise_append.mp hsu).1
        exact this.2.2 u List.mem_cons_self a List.mem_cons_self
    | [], h => simp at h; omega
  · have hne : l ≠ [] := by intro h; simp [h] at hl
    have hRne : Rr ≠ [] := by intro h; simp [h] at hR; omega
    have hpne : padOdd w l ≠ [] := by rw [heq]; simp [hne]
    rw [lmax_of_sorted l hne (hlt hs), lmax_of_sorted _ hpne (hlt hs')]
    have hlast : (padOdd w l).getLast hpne = Rr.getLast hRne := by
      simp only [heq]; rw [List.getLast_append_of_ne_nil _ hRne]
    rw [hlast]
    have hsu : (L ++ l ++ Rr).Pairwise (fun a b => a + 1 ≤ b) := heq ▸ hs'
    have := (List.pairwise_append.mp hsu).2.2
    exact this _ (List.mem_append_right _ (List.getLast_mem hne)) _ (List.getLast_mem hRne)

/-- the loop returns before `f+1` rounds are used up when the ends are within `f` of their targets -/
theorem padLoop_terminates (w n : Nat) (hw : 1 ≤ w) :
    ∀ (f : Nat) (l e : List Rat), l.Pairwise (fun a b => a + 1 ≤ b) → 2 ≤ l.length →
      lmin l < (f : Rat) → (n : Rat) ≤ lmax l + (f : Rat) → (padLoop w n (f + 1) l e).isSome := by
  intro f
  induction f with
  | zero =>
    intro l e _ _ h1 h2
    have : needsMore n l = false := by
      simp only [needsMore, Bool.or_eq_false_iff, decide_eq_false_iff_not]
      constructor <;> grind
    simp [padLoop, this]
  | succ f ih =>
    intro l e hs hl h1 h2
    unfold padLoop
    by_cases hm : needsMore n l = true
    · simp only [hm, if_true]
      obtain ⟨hs', hl', hmin, hmax⟩ := padOdd_progress w hw l hl hs
      apply ih _ _ hs' hl'
      · have : ((f + 1 : Nat) : Rat) = (f : Rat) + 1 := by simp [Rat.natCast_add]
        rw [this] at h1; grind
      · have : ((f + 1 : Nat) : Rat) = (f : Rat) + 1 := by simp [Rat.natCast_add]
        rw [this] at h2; grind
    · simp [hm]


end Extrema
