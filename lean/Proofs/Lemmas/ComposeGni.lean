/-
  Cross-model composition: `get_next_imf_mask` (Mask model, C07) over `get_next_imf` (Sift model, C04).
  C07 takes the single-IMF extraction as an abstract total function `X : Sig → Sig × Bool`; `gniX` is
  that function built from `Sift.getNextImf` (envelope oracle `E`, energy oracle `D`, options `o`).
  `get_next_imf` can raise (EMDSiftCovergeError) which `X` cannot express: the composed statements
  carry the hypothesis that the extractions of the masked signals return.
-/
import Proofs.C04
import Proofs.Lemmas.EquivarianceSiftRev
import Proofs.Lemmas.Mask

namespace ComposeGni
open Sift Mask

/-- `get_next_imf` as the extractor of the Mask model (a convergence error, which propagates in the
    code, is mapped to the junk value `([], false)`; the theorems exclude it by hypothesis) -/
def gniX (E : Sig → Env) (D : Sig → Sig → Rat) (o : ImfOpts) : Sig → Sig × Bool := fun y =>
  match getNextImf E D o y with
  | .imf c f => (c, f)
  | .convergeError => ([], false)

theorem gniX_of_imf {E : Sig → Env} {D : Sig → Sig → Rat} {o : ImfOpts} {y c : Sig} {f : Bool}
    (h : getNextImf E D o y = .imf c f) : gniX E D o y = (c, f) := by
  simp [gniX, h]

/-- the fixed-count rule (documented range `max_iters ≥ 1`) never raises: the extraction is total -/
theorem fixed_total (E : Sig → Env) (D : Sig → Sig → Rat) (o : ImfOpts) (hf : o.stop = .fixed)
    (hm : 0 < o.maxIters) (y : Sig) : ∃ c f, getNextImf E D o y = .imf c f := by
  cases hr : getNextImf E D o y with
  | imf c f => exact ⟨c, f, rfl⟩
  | convergeError =>
    exfalso
    have h := C04.fixed_never_convergeError (fun _ => E) o y hf hm
    unfold getNextImf getNextImfIx at hr
    cases hrun : run (fun _ => E) o y with
    | noConverge => exact h hrun
    | stopped k c => rw [hrun] at hr; simp [finish] at hr
    | noExtrema k g => rw [hrun] at hr; simp [finish] at hr

theorem map_range_congr {β : Type} (p : Nat) (f g : Nat → β) (h : ∀ i, i < p → f i = g i) :
    (List.range p).map f = (List.range p).map g :=
  List.map_congr_left fun i hi => h i (List.mem_range.mp hi)

theorem any_range_congr (p : Nat) (f g : Nat → Bool) (h : ∀ i, i < p → f i = g i) :
    (List.range p).any f = (List.range p).any g := by
  have key : ∀ l : List Nat, (∀ i, i ∈ l → f i = g i) → l.any f = l.any g := by
    intro l
    induction l with
    | nil => intro _; rfl
    | cons a t ih =>
      intro hl
      simp only [List.any_cons]
      rw [hl a (by simp), ih (fun i hi => hl i (by simp [hi]))]
  exact key _ fun i hi => h i (List.mem_range.mp hi)

/-- the phase-average rule for the composed pipeline, with the components / flags `get_next_imf`
    returns on the masked signals -/
theorem getNextImfMask_gni (E : Sig → Env) (D : Sig → Sig → Rat) (o : ImfOpts) (mask : Nat → Sig) (p : Nat)
    (x : Sig) (cs : Nat → Sig) (fs : Nat → Bool)
    (h : ∀ i, i < p → getNextImf E D o (Sig.add x (mask i)) = .imf (cs i) (fs i)) :
    getNextImfMask (gniX E D o) mask p x =
      (Ensemble.meanOver x.length ((List.range p).map fun i => Sig.sub (cs i) (mask i)),
       (List.range p).any fs) := by
  rw [getNextImfMask_eq]
  unfold phaseAverage
  congr 1
  · congr 1
    exact map_range_congr p _ _ fun i hi => by rw [gniX_of_imf (h i hi)]
  · exact any_range_congr p _ _ fun i hi => by rw [gniX_of_imf (h i hi)]

/-- without an energy threshold a returned flag is cleared exactly when an envelope of the input is missing -/
theorem flag_false_iff_env (E : Sig → Env) (D : Sig → Sig → Rat) (o : ImfOpts) (he : o.energyThresh = none)
    (hb : 0 < budget o) (y c : Sig) (f : Bool) (h : getNextImf E D o y = .imf c f) :
    f = false ↔ ((E y).1 = none ∨ (E y).2 = none) := by
  constructor
  · intro hf
    subst hf
    exact ((C04.flag_false_iff (fun _ => E) D o y c he hb).mp h).2
  · intro hn
    have := (C04.flag_false_iff (fun _ => E) D o y y he hb).mpr ⟨rfl, hn⟩
    have h' : getNextImfIx (fun _ => E) D o y = .imf c f := h
    rw [this] at h'
    injection h' with _ h2
    exact h2.symm

end ComposeGni
