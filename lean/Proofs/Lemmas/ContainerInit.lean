/- The label vector produced by the all-cycles detection (C12 model) is a well-formed, complete
   container label vector. -/
import Proofs.Lemmas.ContainerInv
import Proofs.Lemmas.Cycles

namespace Container
open Cycles

def runsOf {α : Type} (segs : List (List α × Option Nat)) : List (Int × Nat) :=
  segs.map fun s => (labelInt s.2, s.1.length)

theorem paint_eq_expand {α : Type} (segs : List (List α × Option Nat)) : paint segs = expand (runsOf segs) := by
  simp [paint, expand, runsOf, List.flatMap_map]

theorem runsOf_labelRuns_all {α : Type} (c : Nat) (rs : List (List α)) (hne : ∀ r ∈ rs, r ≠ []) :
    let R := runsOf (labelRuns (fun _ => true) c rs)
    (∀ r ∈ R, 0 < r.2) ∧ AdjDiff R ∧ LabelsFrom c rs.length R ∧ (∀ r ∈ R, (c : Int) ≤ r.1) ∧
      (∀ x, R.head? = some x → x.1 = (c : Int)) := by
  induction rs generalizing c with
  | nil => simp [labelRuns, runsOf, AdjDiff, LabelsFrom]
  | cons r t ih =>
    have hr : r ≠ [] := hne r (by simp)
    have hlen : 0 < r.length := List.length_pos_iff.mpr hr
    have hcons : runsOf (labelRuns (fun _ => true) c (r :: t)) =
        ((c : Int), r.length) :: runsOf (labelRuns (fun _ => true) (c + 1) t) := by
      simp [labelRuns, runsOf, labelInt]
    have ih' := ih (c + 1) (fun x hx => hne x (by simp [hx]))
    simp only [] at ih' ⊢
    rw [hcons]
    generalize runsOf (labelRuns (fun _ => true) (c + 1) t) = R' at ih'
    obtain ⟨h1, h2, h3, h4, h5⟩ := ih'
    refine ⟨?_, ?_, ?_, ?_, ?_⟩
    · intro x hx
      rcases List.mem_cons.mp hx with rfl | hx
      · exact hlen
      · exact h1 x hx
    · cases R' with
      | nil => trivial
      | cons b t' =>
        refine ⟨?_, h2⟩
        have := h5 b (by simp)
        simp only []
        omega
    · simp only [LabelsFrom, List.length_cons, List.range'_succ, List.map_cons] at h3 ⊢
      rw [List.filter_cons_of_pos (by simp)]
      simp only [List.map_cons, h3]
      rfl
    · intro x hx
      rcases List.mem_cons.mp hx with rfl | hx
      · simp
      · have := h4 x hx; omega
    · intro x hx; simp at hx; subst hx; rfl

/-- The container's label vector: well formed with `K = np.max + 1`, and complete whenever K > 0. -/
theorem init_cvOK {α : Type} (w : α → α → Bool) (xs : List α) :
    CvOK (paint (cvSegs w (fun _ => true) xs)) (nLabels (paint (cvSegs w (fun _ => true) xs))) := by
  suffices h : ∃ K, CvOK (paint (cvSegs w (fun _ => true) xs)) K by
    obtain ⟨K, hK⟩ := h
    rw [nLabels_eq hK.1]; exact hK
  unfold cvSegs
  simp only []
  split
  · rename_i hle
    refine ⟨0, ?_, by omega⟩
    cases hrs : runsBy w xs with
    | nil => simp [paint, WF, rle, LabelsFrom]
    | cons r t =>
      have ht : t = [] := by
        rw [hrs] at hle
        cases t with
        | nil => rfl
        | cons y t' => simp at hle
      subst ht
      have hr : r ≠ [] := runsBy_ne_nil w xs r (by simp [hrs])
      have hlen : 0 < r.length := List.length_pos_iff.mpr hr
      have : paint (List.map (fun r => (r, (none : Option Nat))) [r]) = expand [(-1, r.length)] := by
        simp [paint, expand, labelInt]
      rw [this]
      unfold WF
      rw [rle_expand_runs _ (by simpa using hlen) (by simp [AdjDiff])]
      simp [LabelsFrom]
  · obtain ⟨h1, h2, h3, h4, _⟩ := runsOf_labelRuns_all 0 (runsBy w xs) (runsBy_ne_nil w xs)
    refine ⟨(runsBy w xs).length, ?_, ?_⟩
    · unfold WF
      rw [paint_eq_expand, rle_expand_runs _ h1 h2]
      exact h3
    · intro _ l hl
      rw [paint_eq_expand] at hl
      obtain ⟨r, hr, rfl, _⟩ := mem_expand hl
      have := h4 r hr
      simpa using this

end Container
