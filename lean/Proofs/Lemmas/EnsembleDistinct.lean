/-
  Helper lemmas for C08, clause 4 (complete ensemble): column distinctness of the noise matrix through
  `ceemdNoiseStep`, the fan-out trace of `ceemd`, cancellation lemmas for `Sig.add` / `Sig.smul`.
  Core Lean only.
-/
import Proofs.Lemmas.Ensemble

namespace Ensemble
open Pool

/-! ### cancellation -/

theorem smul_injective (c : Rat) (hc : c ≠ 0) : Function.Injective (Sig.smul c) := by
  intro a b h
  unfold Sig.smul at h
  induction a generalizing b with
  | nil => cases b with
    | nil => rfl
    | cons _ _ => simp at h
  | cons u a ih => cases b with
    | nil => simp at h
    | cons v b =>
      simp only [List.map_cons, List.cons.injEq] at h
      have huv : u = v := by
        have h1 := h.1
        have : c * (u - v) = 0 := by grind
        rcases Rat.mul_eq_zero.mp this with h0 | h0
        · exact absurd h0 hc
        · grind
      rw [huv, ih h.2]

theorem smul_smul (c d : Rat) (a : Sig) : Sig.smul c (Sig.smul d a) = Sig.smul (c * d) a := by
  unfold Sig.smul
  rw [List.map_map]
  apply List.map_congr_left
  intro v _
  simp only [Function.comp]
  grind

/-- `x + a = x + b` (sample by sample, truncating to the shorter operand) forces `a = b` when both are as
    long as `x` -/
theorem add_left_cancel (x a b : Sig) (ha : a.length = x.length) (hb : b.length = x.length)
    (h : Sig.add x a = Sig.add x b) : a = b := by
  unfold Sig.add at h
  induction x generalizing a b with
  | nil =>
    cases a with
    | nil => cases b with
      | nil => rfl
      | cons _ _ => simp at hb
    | cons _ _ => simp at ha
  | cons u x ih =>
    cases a with
    | nil => simp at ha
    | cons v a => cases b with
      | nil => simp at hb
      | cons w b =>
        simp only [List.zipWith_cons_cons, List.cons.injEq] at h
        have hvw : v = w := by grind
        rw [hvw, ih a b (by simpa using ha) (by simpa using hb) h.2]

theorem sub_left_cancel (x a b : Sig) (ha : a.length = x.length) (hb : b.length = x.length)
    (h : Sig.sub x a = Sig.sub x b) : a = b := by
  unfold Sig.sub at h
  induction x generalizing a b with
  | nil =>
    cases a with
    | nil => cases b with
      | nil => rfl
      | cons _ _ => simp at hb
    | cons _ _ => simp at ha
  | cons u x ih =>
    cases a with
    | nil => simp at ha
    | cons v a => cases b with
      | nil => simp at hb
      | cons w b =>
        simp only [List.zipWith_cons_cons, List.cons.injEq] at h
        have hvw : v = w := by grind
        rw [hvw, ih a b (by simpa using ha) (by simpa using hb) h.2]

theorem sig_sub_self (a : Sig) : Sig.sub a a = Sig.zeros a.length := by
  unfold Sig.sub Sig.zeros
  rw [List.zipWith_self]
  induction a with
  | nil => rfl
  | cons u a ih =>
    have : u - u = 0 := by grind
    simp [List.replicate_succ, this, ih]

/-! ### distinct columns through the noise step -/

/-- `f` is injective on the elements of `l` -/
def InjOnCols (f : Sig → Sig) (l : List Sig) : Prop := ∀ a, a ∈ l → ∀ b, b ∈ l → f a = f b → a = b

/-- mapping a list keeps it duplicate-free exactly when it is duplicate-free and `f` separates its elements -/
theorem nodup_map_iff (f : Sig → Sig) (l : List Sig) : (l.map f).Nodup ↔ l.Nodup ∧ InjOnCols f l := by
  induction l with
  | nil => simp [InjOnCols]
  | cons a l ih =>
    rw [List.map_cons, List.nodup_cons, List.nodup_cons, ih]
    constructor
    · rintro ⟨hna, hd, hi⟩
      have hal : a ∉ l := fun h => hna (List.mem_map.mpr ⟨a, h, rfl⟩)
      refine ⟨⟨hal, hd⟩, ?_⟩
      intro u hu v hv huv
      rcases List.mem_cons.mp hu with rfl | hu' <;> rcases List.mem_cons.mp hv with rfl | hv'
      · rfl
      · exact absurd (List.mem_map.mpr ⟨v, hv', huv.symm⟩) hna
      · exact absurd (List.mem_map.mpr ⟨u, hu', huv⟩) hna
      · exact hi u hu' v hv' huv
    · rintro ⟨⟨hal, hd⟩, hi⟩
      refine ⟨?_, hd, fun u hu v hv => hi u (List.mem_cons_of_mem _ hu) v (List.mem_cons_of_mem _ hv)⟩
      intro hmem
      obtain ⟨b, hb, hfb⟩ := List.mem_map.mp hmem
      have : b = a := hi b (List.mem_cons_of_mem _ hb) a List.mem_cons_self hfb
      exact hal (this ▸ hb)

theorem residualPow_succ' (Fn : Sig → Sig) (k : Nat) (ν : Sig) :
    residualPow Fn (k + 1) ν = noiseResidual Fn (residualPow Fn k ν) := by
  induction k generalizing ν with
  | zero => rfl
  | succ k ih =>
    show residualPow Fn (k + 1) (noiseResidual Fn ν) = _
    rw [ih]
    rfl

/-- the noise matrix handed to fan-out `k` of `ceemd` (see `C08.ceemd_stage_mean`, `ceemdFanouts_get`) -/
def stageNoise (Fn : Sig → Sig) (scale : Rat) (M : List Sig) (k : Nat) : List Sig :=
  M.map fun m => residualPow Fn k (Sig.smul scale m)

theorem stageNoise_zero (Fn : Sig → Sig) (scale : Rat) (M : List Sig) :
    stageNoise Fn scale M 0 = M.map (Sig.smul scale) := rfl

theorem stageNoise_succ (Fn : Sig → Sig) (scale : Rat) (M : List Sig) (k : Nat) :
    stageNoise Fn scale M (k + 1) = (stageNoise Fn scale M k).map (noiseResidual Fn) := by
  unfold stageNoise
  rw [List.map_map]
  apply List.map_congr_left
  intro m _
  exact residualPow_succ' Fn k _

theorem length_stageNoise (Fn : Sig → Sig) (scale : Rat) (M : List Sig) (k : Nat) :
    (stageNoise Fn scale M k).length = M.length := by simp [stageNoise]

theorem stageNoise_eq_map_residualPow (Fn : Sig → Sig) (scale : Rat) (M : List Sig) (k : Nat) :
    stageNoise Fn scale M k = (M.map (Sig.smul scale)).map (residualPow Fn k) := by
  simp [stageNoise, List.map_map, Function.comp_def]

theorem nodup_stageNoise_zero (scale : Rat) (hs : scale ≠ 0) (Fn : Sig → Sig) (M : List Sig) (hd : M.Nodup) :
    (stageNoise Fn scale M 0).Nodup := by
  rw [stageNoise_zero, nodup_map_iff]
  exact ⟨hd, fun a _ b _ h => smul_injective scale hs h⟩

/-- all stage matrices are duplicate-free  ⇔  the stage-0 matrix is and the residual map separates the
    columns present at every stage -/
theorem nodup_stageNoise_all_iff (Fn : Sig → Sig) (scale : Rat) (M : List Sig) :
    (∀ k, (stageNoise Fn scale M k).Nodup) ↔
      (stageNoise Fn scale M 0).Nodup ∧ ∀ k, InjOnCols (noiseResidual Fn) (stageNoise Fn scale M k) := by
  constructor
  · intro h
    refine ⟨h 0, fun k => ?_⟩
    have := h (k + 1)
    rw [stageNoise_succ, nodup_map_iff] at this
    exact this.2
  · rintro ⟨h0, hi⟩ k
    induction k with
    | zero => exact h0
    | succ k ih =>
      rw [stageNoise_succ, nodup_map_iff]
      exact ⟨ih, hi k⟩

/-! ### non-exhausted columns

  On the real code a noise column that has run out of extrema is its own first IMF, so its residual is the
  zero column and stays zero; several exhausted columns coincide.  The statement that survives: the columns
  that are not (yet) exhausted stay pairwise different, provided the residual map separates the columns
  whose residual is not exhausted. -/

theorem nodup_filter_map_step (f : Sig → Sig) (live : Sig → Bool) (l : List Sig)
    (hdead : ∀ a, a ∈ l → live a = false → live (f a) = false)
    (hinj : ∀ a, a ∈ l → ∀ b, b ∈ l → live (f a) = true → f a = f b → a = b)
    (hd : (l.filter live).Nodup) : ((l.map f).filter live).Nodup := by
  induction l with
  | nil => simp
  | cons a l ih =>
    have hdl : (l.filter live).Nodup := by
      rw [List.filter_cons] at hd
      split at hd
      · exact (List.nodup_cons.mp hd).2
      · exact hd
    have ih' := ih (fun u hu => hdead u (List.mem_cons_of_mem _ hu))
      (fun u hu v hv => hinj u (List.mem_cons_of_mem _ hu) v (List.mem_cons_of_mem _ hv)) hdl
    rw [List.map_cons, List.filter_cons]
    split
    · rename_i hlive
      rw [List.nodup_cons]
      refine ⟨?_, ih'⟩
      intro hmem
      have hm := (List.mem_filter.mp hmem).1
      obtain ⟨b, hb, hfb⟩ := List.mem_map.mp hm
      have hab : a = b := hinj a List.mem_cons_self b (List.mem_cons_of_mem _ hb) hlive hfb.symm
      -- `a` is live (else its image would be dead), so `a ∈ filter live (a :: l)` heads the list and cannot recur
      have ha : live a = true := by
        cases h : live a with
        | true => rfl
        | false => rw [hdead a List.mem_cons_self h] at hlive; cases hlive
      rw [List.filter_cons, if_pos ha, List.nodup_cons] at hd
      exact hd.1 (List.mem_filter.mpr ⟨hab ▸ hb, ha⟩)
    · exact ih'

/-! ### the fan-outs of `ceemd`, recorded

  Same recursion as `ceemdLoop` / `ceemd`, returning for every `_sift_with_noise` fan-out the residual the
  members start from and the members' trace (noise used, [first IMF]).  `ceemd_cols_eq_fanout_means` ties it
  back to `ceemd`: column `k` of the result is the mean over the members recorded for fan-out `k`. -/

def ceemdLoopFanouts (σ : Nat → Schedule) (F Fn : Sig → Sig) (mode : Mode) (x : Sig) :
    Nat → Nat → List Sig → List Sig → List (Sig × List (Sig × List Sig))
  | 0, _, _, _ => []
  | s + 1, c, imf, noise =>
    let proto := Sig.sub x (Sig.vsum x.length imf)
    let next := ceemdImf (σ c) F mode none proto noise
    (proto, ceemdMembers (σ c) F mode none proto noise) ::
      ceemdLoopFanouts σ F Fn mode x s (c + 2) (imf ++ [next]) (ceemdNoiseStep (σ (c + 1)) Fn noise)

def ceemdFanouts (σ : Nat → Schedule) (F Fn : Sig → Sig) (mode : Mode) (scale : Rat) (M : List Sig) (x : Sig)
    (stages : Nat) : List (Sig × List (Sig × List Sig)) :=
  let noise0 := M.map (Sig.smul scale)
  let imf0 := ceemdImf (σ 0) F mode none x noise0
  (x, ceemdMembers (σ 0) F mode none x noise0) ::
    ceemdLoopFanouts σ F Fn mode x stages 2 [imf0] (ceemdNoiseStep (σ 1) Fn noise0)

/-- mean over the members of a recorded fan-out (what `ceemdImf` computes from them) -/
def fanoutMean (fo : Sig × List (Sig × List Sig)) : Sig :=
  meanOver fo.1.length (fo.2.map fun m => colOr fo.1.length m.2 0)

theorem ceemdLoop_cols_eq (σ : Nat → Schedule) (F Fn : Sig → Sig) (mode : Mode) (x : Sig) (s c : Nat)
    (imf noise : List Sig) :
    (ceemdLoop σ F Fn mode x s c imf noise).1 = imf ++ (ceemdLoopFanouts σ F Fn mode x s c imf noise).map fanoutMean := by
  induction s generalizing c imf noise with
  | zero => simp [ceemdLoop, ceemdLoopFanouts]
  | succ s ih =>
    unfold ceemdLoop ceemdLoopFanouts
    simp only []
    rw [ih, List.map_cons, List.append_assoc]
    rfl

theorem length_ceemdLoopFanouts (σ : Nat → Schedule) (F Fn : Sig → Sig) (mode : Mode) (x : Sig) (s c : Nat)
    (imf noise : List Sig) : (ceemdLoopFanouts σ F Fn mode x s c imf noise).length = s := by
  induction s generalizing c imf noise with
  | zero => rfl
  | succ s ih => simp [ceemdLoopFanouts, ih]

/-- fan-out `k` of the loop runs on the `k`-fold residual of the matrix the loop was entered with -/
theorem ceemdLoopFanouts_get (σ : Nat → Schedule) (p : Nat → Nat) (F Fn : Sig → Sig) (mode : Mode) (x : Sig) (N : Nat)
    (hσ : ∀ c, (σ c).Valid N (p c)) (s c : Nat) (imf noise : List Sig) (hn : noise.length = N) (k : Nat) (hk : k < s) :
    ∃ proto, (ceemdLoopFanouts σ F Fn mode x s c imf noise)[k]? =
      some (proto, ceemdMembers (σ (c + 2 * k)) F mode none proto (noise.map (residualPow Fn k))) := by
  induction s generalizing c imf noise k with
  | zero => omega
  | succ s ih =>
    unfold ceemdLoopFanouts
    simp only []
    cases k with
    | zero =>
      refine ⟨Sig.sub x (Sig.vsum x.length imf), ?_⟩
      have : noise.map (residualPow Fn 0) = noise := by simp [residualPow]
      rw [this]
      rfl
    | succ k =>
      rw [List.getElem?_cons_succ, ceemdNoiseStep_eq (σ (c + 1)) (p (c + 1)) Fn noise (hn ▸ hσ (c + 1))]
      obtain ⟨proto, h⟩ := ih (c + 2) _ (noise.map (noiseResidual Fn)) (by simp [hn]) k (by omega)
      refine ⟨proto, ?_⟩
      rw [h, List.map_map]
      have hc : c + 2 + 2 * k = c + 2 * (k + 1) := by omega
      rw [hc]
      rfl

theorem ceemd_cols_eq (σ : Nat → Schedule) (F Fn : Sig → Sig) (mode : Mode) (scale : Rat) (M : List Sig) (x : Sig)
    (stages : Nat) :
    (ceemd σ F Fn mode scale M x stages).1 = (ceemdFanouts σ F Fn mode scale M x stages).map fanoutMean := by
  unfold ceemd ceemdFanouts
  simp only []
  rw [ceemdLoop_cols_eq]
  rfl

theorem length_ceemdFanouts (σ : Nat → Schedule) (F Fn : Sig → Sig) (mode : Mode) (scale : Rat) (M : List Sig) (x : Sig)
    (stages : Nat) : (ceemdFanouts σ F Fn mode scale M x stages).length = stages + 1 := by
  simp [ceemdFanouts, length_ceemdLoopFanouts]

/-- fan-out 0 of `ceemd`: residual `x`, matrix `scale • M`, no further scale -/
theorem ceemdFanouts_zero (σ : Nat → Schedule) (F Fn : Sig → Sig) (mode : Mode) (scale : Rat) (M : List Sig) (x : Sig)
    (stages : Nat) :
    (ceemdFanouts σ F Fn mode scale M x stages)[0]? =
      some (x, ceemdMembers (σ 0) F mode none x (stageNoise Fn scale M 0)) := rfl

/-- fan-out `k+1` of `ceemd`: some residual, matrix = stage-(k+1) noise, no scale -/
theorem ceemdFanouts_succ (σ : Nat → Schedule) (p : Nat → Nat) (F Fn : Sig → Sig) (mode : Mode) (scale : Rat)
    (M : List Sig) (x : Sig) (stages : Nat) (hσ : ∀ c, (σ c).Valid M.length (p c)) (k : Nat) (hk : k < stages) :
    ∃ proto, (ceemdFanouts σ F Fn mode scale M x stages)[k + 1]? =
      some (proto, ceemdMembers (σ (2 * (k + 1))) F mode none proto (stageNoise Fn scale M (k + 1))) := by
  unfold ceemdFanouts
  simp only []
  have hM : (M.map (Sig.smul scale)).length = M.length := by simp
  rw [List.getElem?_cons_succ, ceemdNoiseStep_eq (σ 1) (p 1) Fn _ (hM ▸ hσ 1)]
  obtain ⟨proto, h⟩ := ceemdLoopFanouts_get σ p F Fn mode x M.length hσ stages 2
    [ceemdImf (σ 0) F mode none x (M.map (Sig.smul scale))]
    ((M.map (Sig.smul scale)).map (noiseResidual Fn)) (by simp) k hk
  refine ⟨proto, ?_⟩
  rw [h]
  have hc : 2 + 2 * k = 2 * (k + 1) := by omega
  rw [hc]
  simp only [List.map_map]
  rfl

/-- the columns that are still live stay pairwise different from stage to stage -/
theorem nodup_live_stageNoise (Fn : Sig → Sig) (scale : Rat) (M : List Sig) (live : Sig → Bool)
    (hdead : ∀ k a, a ∈ stageNoise Fn scale M k → live a = false → live (noiseResidual Fn a) = false)
    (hinj : ∀ k a, a ∈ stageNoise Fn scale M k → ∀ b, b ∈ stageNoise Fn scale M k →
      live (noiseResidual Fn a) = true → noiseResidual Fn a = noiseResidual Fn b → a = b)
    (h0 : ((stageNoise Fn scale M 0).filter live).Nodup) (k : Nat) :
    ((stageNoise Fn scale M k).filter live).Nodup := by
  induction k with
  | zero => exact h0
  | succ k ih =>
    rw [stageNoise_succ]
    exact nodup_filter_map_step _ live _ (hdead k) (hinj k) ih

/-! ### a concrete noise sift with an injective residual map (non-vacuity of the C08 hypotheses) -/

def FnHalf : Sig → Sig := fun ν => Sig.smul (1/2) ν
theorem FnHalf_residual_injective : Function.Injective (fun ν => Sig.sub ν (FnHalf ν)) := by
  have h : ∀ ν, Sig.sub ν (FnHalf ν) = Sig.smul (1/2) ν := by
    intro ν
    unfold Sig.sub FnHalf Sig.smul
    rw [List.zipWith_map_right, List.zipWith_self]
    apply List.map_congr_left
    intro v _
    grind
  intro a b hab
  simp only [h] at hab
  exact smul_injective (1/2) (by decide +kernel) hab

end Ensemble
