/-
  Cross-model consistency: the cycle vector stored in the container (C15) is the cycle vector of
  the cycle detector's model (C12, `EmdModel/Cycles.lean`) with all cycles requested, in every state
  reachable from `init`; its `K` is the detector's number of cycles; it is a well-formed cycle vector
  in the sense of the index-map model (C16).
-/
import Proofs.C12
import Proofs.Lemmas.CyclesSlices
import Proofs.Lemmas.MapsCycles
import Proofs.Lemmas.ContainerRun

namespace ComposeContainer
open Container Cycles

/-- for a well-formed cycle vector `np.max + 1` is the number of cycles (index-map model's `WF`) -/
theorem maps_nLabels_of_wf {cv : List Int} {K : Nat} (h : Maps.WF cv K) : Maps.nLabels cv = K := by
  apply Nat.le_antisymm
  · apply Nat.le_of_not_lt
    intro hlt
    obtain ⟨x, hx, hc⟩ := Maps.exists_ge_of_lt_nLabels cv K hlt
    have := (h.range x hx).2
    omega
  · cases K with
    | zero => omega
    | succ k =>
      have := Maps.lt_nLabels_of_mem cv k (h.occurs k (by omega))
      omega

/-- the constructor is the first operation (`compute_cycle_metric('is_good', …)`) on the bare state -/
theorem run_init_eq (F : List Char → Option Rat) (g : GoodCfg) (pstep thr : Rat) (cache : Bool) (ph : List Rat)
    (ops : List Op) :
    run F (init g pstep thr cache ph).1 ops
      = run F (init0 pstep thr cache ph) (.computeMetric isGoodName ph (isGoodF g) .cycle :: ops) := rfl

/-- no operation touches the label vector or the cycle count -/
theorem run_cv (F : List Char → Option Rat) (g : GoodCfg) (pstep thr : Rat) (cache : Bool) (ph : List Rat)
    (ops : List Op) :
    (run F (init g pstep thr cache ph).1 ops).cv = paint (cvSegs (wrapAt pstep) (fun _ => true) ph) ∧
    (run F (init g pstep thr cache ph).1 ops).K = nLabels (paint (cvSegs (wrapAt pstep) (fun _ => true) ph)) := by
  rw [run_init_eq]
  obtain ⟨h1, h2, _⟩ := run_frame F (init0 pstep thr cache ph) (.computeMetric isGoodName ph (isGoodF g) .cycle :: ops)
  exact ⟨h1, h2⟩

/-- the container's `K = cycle_vect.max() + 1` is the detector's number of cycles -/
theorem nLabels_paint {α : Type} (w : α → α → Bool) (acc : List α → Bool) (xs : List α) :
    nLabels (paint (cvSegs w acc xs)) = nCycles (cvSegs w acc xs) :=
  maps_nLabels_of_wf (Maps.paint_cvSegs_wf w acc xs)

/-! ### the container's partition is the public `get_cycle_vector(phase, return_good=False)` -/

/-- **The container's label vector is `get_cycle_vector` with all cycles requested and no mask**
    (model of C12: `getCycleVector g step false phase (all-true mask)`). -/
theorem getCycleVector_all (g : GoodCfg) (step : Rat) (ph : List Rat) :
    getCycleVector g step false ph (List.replicate ph.length true)
      = paint (cvSegs (wrapAt step) (fun _ => true) ph) := by
  rw [getCycleVector_nomask]; rfl

/-! ### the container's `is_good` metric is C13's per-cycle quality flag (`Cycles.containerIsGood`) -/

theorem samplesOf_append (A B : List Int) (va vb : List Rat) (h : A.length = va.length) (k : Int) :
    samplesOf (A ++ B) (va ++ vb) k = samplesOf A va k ++ samplesOf B vb k := by
  simp [samplesOf, List.zip_append h]

theorem samplesOf_of_not_mem (cv : List Int) (vals : List Rat) (k : Int) (h : k ∉ cv) : samplesOf cv vals k = [] := by
  unfold samplesOf
  rw [List.map_eq_nil_iff, List.filter_eq_nil_iff]
  intro p hp
  have := (List.of_mem_zip hp).1
  simp only [decide_eq_true_eq]
  intro e; exact h (e ▸ this)

theorem samplesOf_replicate (r : List Rat) (k : Int) : samplesOf (List.replicate r.length k) r k = r := by
  induction r with
  | nil => rfl
  | cons a t ih =>
    simp only [samplesOf, List.length_cons, List.replicate_succ, List.zip_cons_cons, List.filter_cons,
      decide_true, if_true, List.map_cons] at ih ⊢
    rw [ih]

theorem labelRuns_true_ge {α : Type} (rs : List (List α)) : ∀ (c : Nat),
    ∀ l ∈ paint (labelRuns (fun _ => true) c rs), (c : Int) ≤ l := by
  induction rs with
  | nil => intro c l hl; simp [labelRuns, paint] at hl
  | cons r t ih =>
    intro c l hl
    simp only [labelRuns, if_true, paint_cons, List.mem_append, List.mem_replicate, labelInt] at hl
    rcases hl with ⟨_, rfl⟩ | hl
    · exact Int.le_refl _
    · have := ih (c + 1) l hl; omega

/-- with every run accepted, the samples carrying label `c + j` are exactly run `j` -/
theorem samplesOf_labelRuns (rs : List (List Rat)) : ∀ (c j : Nat) (r : List Rat), rs[j]? = some r →
    samplesOf (paint (labelRuns (fun _ => true) c rs)) rs.flatten ((c + j : Nat) : Int) = r := by
  induction rs with
  | nil => intro c j r h; simp at h
  | cons r0 t ih =>
    intro c j r h
    simp only [labelRuns, if_true, paint_cons, labelInt, List.flatten_cons]
    rw [samplesOf_append _ _ _ _ (by simp)]
    cases j with
    | zero =>
      simp only [List.getElem?_cons_zero, Option.some.injEq] at h
      subst h
      rw [Nat.add_zero, samplesOf_replicate, samplesOf_of_not_mem, List.append_nil]
      intro hm
      have := labelRuns_true_ge t (c + 1) _ hm
      omega
    | succ j =>
      simp only [List.getElem?_cons_succ] at h
      rw [samplesOf_of_not_mem (List.replicate r0.length (c : Int)), List.nil_append]
      · have := ih (c + 1) j r h
        have e : c + 1 + j = c + (j + 1) := by omega
        rw [e] at this
        exact this
      · intro hm
        have := (List.mem_replicate.mp hm).2
        omega

theorem labelRuns_true_filter {α : Type} (rs : List (List α)) (c : Nat) :
    ((labelRuns (fun _ => true) c rs).filter (·.2.isSome)).map (·.1) = rs := by
  induction rs generalizing c with
  | nil => rfl
  | cons r t ih => simp [labelRuns, ih]

theorem labelRuns_true_nCycles {α : Type} (rs : List (List α)) (c : Nat) :
    nCycles (labelRuns (fun _ => true) c rs) = rs.length := by
  induction rs generalizing c with
  | nil => rfl
  | cons r t ih =>
    have := ih (c + 1)
    simp only [nCycles] at this ⊢
    simp [labelRuns, this]

/-- **The quality flags stored by the container's constructor are C13's `containerIsGood`** (as 1.0 / 0.0). -/
theorem isGood_metric (g : GoodCfg) (step : Rat) (ph : List Rat) :
    (List.range (nLabels (paint (cvSegs (wrapAt step) (fun _ => true) ph)))).map
        (fun (k : Nat) => (some (isGoodF g (samplesOf (paint (cvSegs (wrapAt step) (fun _ => true) ph)) ph (k : Int))) : Val))
      = (containerIsGood g step ph).map fun b => some (if b then 1 else 0) := by
  rw [nLabels_paint]
  unfold containerIsGood
  simp only []
  unfold cvSegs
  simp only []
  have hfl := runsBy_flatten (wrapAt step) ph
  split
  · -- no wrap: no cycle, no flag
    simp [nCycles, List.filterMap_map, Function.comp_def, filterMap_const_none, List.filter_map]
  · rw [labelRuns_true_nCycles]
    have hmap : ((labelRuns (fun _ => true) 0 (runsBy (wrapAt step) ph)).filter (·.2.isSome)).map (fun s => isGood g s.1)
        = (runsBy (wrapAt step) ph).map (isGood g) := by
      have := congrArg (List.map (isGood g)) (labelRuns_true_filter (runsBy (wrapAt step) ph) 0)
      rw [List.map_map] at this
      exact this
    rw [hmap, List.map_map]
    apply List.ext_getElem?
    intro j
    by_cases hj : j < (runsBy (wrapAt step) ph).length
    · have hr := List.getElem?_eq_getElem hj
      have := samplesOf_labelRuns (runsBy (wrapAt step) ph) 0 j _ hr
      rw [hfl, Nat.zero_add] at this
      simp [hj, this, isGoodF]
    · simp [hj]

end ComposeContainer
