/-
  Cross-model consistency: the cycle vector stored in the container (C15) is the cycle vector of
  the cycle detector's model (C12, `EmdModel/Cycles.lean`) with all cycles requested, in every state
  reachable from `init`; its `K` is the detector's number of cycles; it is a well-formed cycle vector
  in the sense of the index-map model (C16).
-/
import Proofs.C12
import Proofs.Lemmas.MapsCycles
import Proofs.Lemmas.ContainerRun

namespace ComposeContainer
open Container Cycles

/-- for a well-formed cycle vector `np.max + 1` is the number of cycles (index-map model's `WF`) -/
theorem maps_nLabels_of_wf {cv : List Int} {K : Nat} (h : Maps.WF cv K) : Maps.nLabels cv = K := by
  apply Nat.le_antisymm
  · apply Nat.le_of_not_lt
    intro hlt
    obtain ⟨x, hx, hc⟩ := Maps.exists_ge_of_lt_nLabels cv K hlt
    have := (h.range x hx).2
    omega
  · cases K with
    | zero => omega
    | succ k =>
      have := Maps.lt_nLabels_of_mem cv k (h.occurs k (by omega))
      omega

/-- the constructor is the first operation (`compute_cycle_metric('is_good', …)`) on the bare state -/
theorem run_init_eq (F : List Char → Option Rat) (g : GoodCfg) (pstep thr : Rat) (cache : Bool) (ph : List Rat)
    (ops : List Op) :
    run F (init g pstep thr cache ph).1 ops
      = run F (init0 pstep thr cache ph) (.computeMetric isGoodName ph (isGoodF g) .cycle :: ops) := rfl

/-- no operation touches the label vector or the cycle count -/
theorem run_cv (F : List Char → Option Rat) (g : GoodCfg) (pstep thr : Rat) (cache : Bool) (ph : List Rat)
    (ops : List Op) :
    (run F (init g pstep thr cache ph).1 ops).cv = paint (cvSegs (wrapAt pstep) (fun _ => true) ph) ∧
    (run F (init g pstep thr cache ph).1 ops).K = nLabels (paint (cvSegs (wrapAt pstep) (fun _ => true) ph)) := by
  rw [run_init_eq]
  obtain ⟨h1, h2, _⟩ := run_frame F (init0 pstep thr cache ph) (.computeMetric isGoodName ph (isGoodF g) .cycle :: ops)
  exact ⟨h1, h2⟩

/-- the container's `K = cycle_vect.max() + 1` is the detector's number of cycles -/
theorem nLabels_paint {α : Type} (w : α → α → Bool) (acc : List α → Bool) (xs : List α) :
    nLabels (paint (cvSegs w acc xs)) = nCycles (cvSegs w acc xs) :=
  maps_nLabels_of_wf (Maps.paint_cvSegs_wf w acc xs)

/-! ### the container's partition is the public `get_cycle_vector(phase, return_good=False)` -/

section
variable {α β : Type}

theorem runsBy_map (w : β → β → Bool) (f : α → β) (xs : List α) :
    runsBy w (xs.map f) = (runsBy (fun a b => w (f a) (f b)) xs).map (List.map f) := by
  induction xs with
  | nil => rfl
  | cons a t ih =>
    cases t with
    | nil => rfl
    | cons b t =>
      simp only [List.map_cons] at ih ⊢
      simp only [runsBy]
      split
      · simp [ih]
      · rw [ih]
        cases runsBy (fun a b => w (f a) (f b)) (b :: t) <;> simp

theorem paint_labelRuns_map (f : α → β) (acc : List α → Bool) (acc' : List β → Bool) (rs : List (List α))
    (h : ∀ r ∈ rs, acc' (r.map f) = acc r) : ∀ c,
    paint (labelRuns acc' c (rs.map (List.map f))) = paint (labelRuns acc c rs) := by
  induction rs with
  | nil => intro c; rfl
  | cons r t ih =>
    intro c
    have hr := h r (by simp)
    have ht : ∀ r ∈ t, acc' (r.map f) = acc r := fun r hr => h r (by simp [hr])
    simp only [List.map_cons, labelRuns, hr]
    split <;> simp [paint_cons, ih ht]

theorem paint_cvSegs_map (w : β → β → Bool) (f : α → β) (acc : List α → Bool) (acc' : List β → Bool) (xs : List α)
    (h : ∀ r ∈ runsBy (fun a b => w (f a) (f b)) xs, acc' (r.map f) = acc r) :
    paint (cvSegs w acc' (xs.map f)) = paint (cvSegs (fun a b => w (f a) (f b)) acc xs) := by
  unfold cvSegs
  simp only [runsBy_map, List.length_map]
  split
  · simp [paint, List.flatMap_map]
  · exact paint_labelRuns_map f acc acc' _ h 0

end

theorem zip_replicate_map_fst (ph : List Rat) : (ph.zip (List.replicate ph.length true)).map (·.1) = ph := by
  induction ph with
  | nil => rfl
  | cons a t ih => simp [List.replicate_succ, ih]

/-- **The container's label vector is `get_cycle_vector` with all cycles requested and no mask**
    (model of C12: `getCycleVector g step false phase (all-true mask)`). -/
theorem getCycleVector_all (g : GoodCfg) (step : Rat) (ph : List Rat) :
    getCycleVector g step false ph (List.replicate ph.length true)
      = paint (cvSegs (wrapAt step) (fun _ => true) ph) := by
  unfold getCycleVector
  have hm := zip_replicate_map_fst ph
  have key := paint_cvSegs_map (wrapAt step) (fun (q : Rat × Bool) => q.1) (accept g false) (fun _ => true)
    (ph.zip (List.replicate ph.length true)) (by
      intro r hr
      have hsub : ∀ q ∈ r, q ∈ ph.zip (List.replicate ph.length true) := by
        intro q hq
        have : q ∈ (runsBy (fun a b => wrapAt step a.1 b.1) (ph.zip (List.replicate ph.length true))).flatten :=
          List.mem_flatten.mpr ⟨r, hr, hq⟩
        rwa [runsBy_flatten] at this
      simp only [accept, Bool.not_false, Bool.true_or, Bool.and_true]
      symm
      rw [List.all_eq_true]
      intro q hq
      have := (List.of_mem_zip (hsub q hq)).2
      exact (List.mem_replicate.mp this).2)
  rw [hm] at key
  exact key.symm

end ComposeContainer
