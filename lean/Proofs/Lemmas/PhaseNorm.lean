/- Helper lemmas about EmdModel.Phase: amplitude normalisation and the quadrature mask. -/
import Proofs.Lemmas.Phase

namespace Phase

/-! ### amplitude_normalise -/

theorem zipWith_div_smul {c : Rat} (hc : c ≠ 0) (x env : List Rat) :
    List.zipWith (· / ·) (x.map fun u => c * u) (env.map fun u => c * u)
      = List.zipWith (· / ·) x env := by
  rw [List.zipWith_map_left, List.zipWith_map_right]
  congr 1
  funext a b
  exact mul_div_mul_left a b hc

theorem anLoop_length (E : Nat → List Rat → Option (List Rat)) (thresh : Rat)
    (hE : ∀ k y env, E k y = some env → env.length = y.length) :
    ∀ (fuel k : Nat) (x env : List Rat), env.length = x.length →
      (anLoop E thresh fuel k x env).length = x.length := by
  intro fuel
  induction fuel with
  | zero => intro k x env _; rfl
  | succ n ih =>
    intro k x env hl
    unfold anLoop
    have hx' : (List.zipWith (· / ·) x env).length = x.length := by simp [hl]
    simp only []
    split
    · exact hx'
    · rename_i env' he
      split
      · exact hx'
      · rw [ih (k + 1) _ env' (hE _ _ _ he), hx']

/-- all entries of every envelope are positive -/
def PosEnv (E : Nat → List Rat → Option (List Rat)) : Prop :=
  ∀ k y env, E k y = some env → ∀ e ∈ env, 0 < e

theorem zipWith_div_sign {x env : List Rat} (hl : env.length = x.length) (hp : ∀ e ∈ env, 0 < e)
    (i : Nat) : 0 < getR (List.zipWith (· / ·) x env) i ↔ 0 < getR x i := by
  by_cases hi : i < x.length
  · have hie : i < env.length := by omega
    have : getR (List.zipWith (· / ·) x env) i = getR x i / getR env i := by
      simp [getR, hi, hie]
    rw [this]
    have hpos : 0 < getR env i := by
      rw [getR_of_lt hie]; exact hp _ (List.getElem_mem hie)
    constructor
    · intro h
      by_contra hc
      have : getR x i / getR env i ≤ 0 := div_nonpos_of_nonpos_of_nonneg (not_lt.mp hc) hpos.le
      linarith
    · intro h; exact div_pos h hpos
  · rw [getR_of_ge (by simp; omega), getR_of_ge (by omega)]

theorem anLoop_sign (E : Nat → List Rat → Option (List Rat)) (thresh : Rat)
    (hE : ∀ k y env, E k y = some env → env.length = y.length) (hp : PosEnv E) :
    ∀ (fuel k : Nat) (x env : List Rat), env.length = x.length → (∀ e ∈ env, 0 < e) →
      ∀ i, 0 < getR (anLoop E thresh fuel k x env) i ↔ 0 < getR x i := by
  intro fuel
  induction fuel with
  | zero => intro k x env _ _ i; rfl
  | succ n ih =>
    intro k x env hl hpe i
    unfold anLoop
    have hx' : (List.zipWith (· / ·) x env).length = x.length := by simp [hl]
    simp only []
    split
    · exact zipWith_div_sign hl hpe i
    · rename_i env' he
      split
      · exact zipWith_div_sign hl hpe i
      · rw [ih (k + 1) _ env' (hE _ _ _ he) (hp _ _ _ he) i]
        exact zipWith_div_sign hl hpe i

/-! ### quadrature mask -/

theorem diff_length (x : List Rat) : (diff x).length = x.length - 1 := by
  fun_induction diff x with
  | case1 a b t ih => simp [ih]
  | case2 t h =>
    match t, h with
    | [], _ => rfl
    | [_], _ => rfl
    | a :: b :: t, h => exact absurd rfl (h a b t)

theorem quadMask_length {x : List Rat} (h : 2 ≤ x.length) : (quadMask x).length = x.length := by
  unfold quadMask
  have hd := diff_length x
  simp only []
  split
  · simp [hd]; omega
  · rename_i hnone
    rw [List.getLast?_eq_none_iff] at hnone
    have : ((diff x).map fun v => if 0 < v then (-1 : Rat) else 1).length = 0 := by rw [hnone]; rfl
    simp [hd] at this
    omega

theorem quadMask_values (x : List Rat) : ∀ v ∈ quadMask x, v = -1 ∨ v = 1 := by
  intro v hv
  unfold quadMask at hv
  have hd : ∀ w ∈ (diff x).map (fun v => if 0 < v then (-1 : Rat) else 1), w = -1 ∨ w = 1 := by
    intro w hw
    obtain ⟨d, _, rfl⟩ := List.mem_map.mp hw
    split
    · left; rfl
    · right; rfl
  simp only [] at hv
  split at hv
  · rename_i l hl
    rcases List.mem_append.mp hv with h | h
    · exact hd v h
    · simp only [List.mem_singleton] at h
      subst h
      exact hd _ (List.mem_of_getLast? hl)
  · simp at hv

end Phase
