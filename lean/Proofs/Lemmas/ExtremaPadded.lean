/-
  Helper lemmas for C05 — what `paddedExtrema` (the model of `get_padded_extrema`) can return.
-/
import Proofs.Lemmas.ExtremaPad
import Proofs.Lemmas.ExtremaRefine

namespace Extrema

theorem sep_imp_lt {m : List Rat} (h : m.Pairwise (fun a b => a + 1 ≤ b)) : m.Pairwise (· < ·) :=
  h.imp (fun {a b} (hab : a + 1 ≤ b) => by linarith)

theorem extrema_locs_sep (m : Mode) (parab : Bool) (x : Sig) :
    (extrema m parab x).1.Pairwise (fun a b => a + 1 ≤ b) := by
  rw [extrema_locs]; exact rawExtrema_locs_sep parab _

theorem extrema_locs_bounds (m : Mode) (parab : Bool) (x : Sig) :
    ∀ v ∈ (extrema m parab x).1, 0 < v ∧ v < (x.length : Rat) := by
  rw [extrema_locs]
  have := rawExtrema_locs_bounds parab (modeSig m x)
  rwa [modeSig_length] at this

theorem PadInv.init (l e : List Rat) (a z : Rat) : PadInv l e a z l e :=
  ⟨0, [], [], by simp, rfl, rfl, by simp, PadChain.refl l⟩

/-- everything the model's `get_padded_extrema` can return, relative to the unpadded extrema -/
theorem paddedExtrema_ok (w : Nat) (m : Mode) (parab : Bool) (x : Sig) (locs mags : List Rat)
    (h : paddedExtrema w m parab x = .ok locs mags) :
    2 ≤ (extrema m parab x).1.length ∧
    ∃ a z, (extrema m parab x).2.head? = some a ∧ (extrema m parab x).2.getLast? = some z ∧
      PadInv (extrema m parab x).1 (extrema m parab x).2 a z locs mags ∧
      ((w = 0 ∧ locs = (extrema m parab x).1 ∧ mags = (extrema m parab x).2) ∨
       (1 ≤ w ∧ needsMore x.length locs = false)) := by
  unfold paddedExtrema at h
  simp only [] at h
  by_cases hlen : (extrema m parab x).1.length ≤ 1
  · simp [hlen] at h
  · simp only [hlen, if_false] at h
    have hl2 : 2 ≤ (extrema m parab x).1.length := by omega
    have he2 : 2 ≤ (extrema m parab x).2.length := by rw [extrema_length]; exact hl2
    obtain ⟨a, ha⟩ : ∃ a, (extrema m parab x).2.head? = some a := by
      cases hh : (extrema m parab x).2 with
      | nil => simp [hh] at he2
      | cons a t => exact ⟨a, rfl⟩
    obtain ⟨z, hz⟩ : ∃ z, (extrema m parab x).2.getLast? = some z := by
      cases hh : (extrema m parab x).2.getLast? with
      | none => simp [List.getLast?_eq_none_iff] at hh; simp [hh] at he2
      | some z => exact ⟨z, rfl⟩
    refine ⟨hl2, a, z, ha, hz, ?_⟩
    generalize hw' : (if (extrema m parab x).1.length < w then (extrema m parab x).1.length else w) = w' at h
    by_cases hw0 : w' = 0
    · simp only [hw0, if_true] at h
      have hw : w = 0 := by
        by_cases hc : (extrema m parab x).1.length < w
        · simp [hc] at hw'; omega
        · simp [hc] at hw'; omega
      injection h with h1 h2
      subst h1 h2
      exact ⟨PadInv.init _ _ a z, Or.inl ⟨hw, rfl, rfl⟩⟩
    · simp only [hw0, if_false] at h
      have hw : 1 ≤ w := by
        by_cases hc : (extrema m parab x).1.length < w
        · omega
        · simp [hc] at hw'; omega
      cases hloop : padLoop w' x.length (x.length + 1) (padOdd w' (extrema m parab x).1) (padEdge w' (extrema m parab x).2) with
      | none => simp [hloop] at h
      | some r =>
        simp only [hloop] at h
        injection h with h1 h2
        subst h1 h2
        have := padLoop_spec w' x.length hl2 ha hz _ _ _ r hloop ((PadInv.init _ _ a z).step w' hl2 ha hz)
        exact ⟨this.1, Or.inr ⟨hw, this.2⟩⟩

theorem paddedExtrema_ne_fuel (w : Nat) (m : Mode) (parab : Bool) (x : Sig) :
    paddedExtrema w m parab x ≠ .fuel := by
  unfold paddedExtrema
  simp only []
  by_cases hlen : (extrema m parab x).1.length ≤ 1
  · simp [hlen]
  · simp only [hlen, if_false]
    have hl2 : 2 ≤ (extrema m parab x).1.length := by omega
    generalize hw' : (if (extrema m parab x).1.length < w then (extrema m parab x).1.length else w) = w'
    by_cases hw0 : w' = 0
    · simp [hw0]
    · simp only [hw0, if_false]
      have hsep := extrema_locs_sep m parab x
      have hb := extrema_locs_bounds m parab x
      obtain ⟨hs', hl', hmin, hmax⟩ := padOdd_progress w' (by omega) _ hl2 hsep
      have hne : (extrema m parab x).1 ≠ [] := by intro h; simp [h] at hl2
      -- the unpadded ends lie inside (0, n)
      have hmin0 : lmin (extrema m parab x).1 < (x.length : Rat) := by
        cases hh : (extrema m parab x).1 with
        | nil => exact absurd hh hne
        | cons a t =>
          rw [lmin_cons_of_sorted a t (hh ▸ sep_imp_lt hsep)]
          exact (hb a (by rw [hh]; exact List.mem_cons_self)).2
      have hmax0 : 0 < lmax (extrema m parab x).1 := by
        rw [lmax_of_sorted _ hne (sep_imp_lt hsep)]
        exact (hb _ (List.getLast_mem hne)).1
      have hsome := padLoop_terminates w' x.length (by omega) x.length _ (padEdge w' (extrema m parab x).2) hs' hl'
        (by linarith) (by linarith)
      cases hloop : padLoop w' x.length (x.length + 1) (padOdd w' (extrema m parab x).1) (padEdge w' (extrema m parab x).2) with
      | none => simp [hloop] at hsome
      | some r => simp


end Extrema
