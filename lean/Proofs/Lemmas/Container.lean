/- Helper lemmas about EmdModel.Container: metric store, subset / chain vectors, condition parser,
   the invariant and its preservation. -/
import Proofs.Lemmas.ContainerSlices

namespace Container

/-! ### metric store -/

theorem sget_sset_same (m : Store) (k : Name) (v : List Val) : sget (sset m k v) k = some v := by
  induction m with
  | nil => simp [sset, sget]
  | cons e t ih =>
    obtain ⟨n, w⟩ := e
    by_cases h : n = k <;> simp [sset, sget, h, ih]

theorem sget_sset_other (m : Store) (k n : Name) (v : List Val) (h : n ≠ k) : sget (sset m k v) n = sget m n := by
  induction m with
  | nil => simp [sset, sget, Ne.symm h]
  | cons e t ih =>
    obtain ⟨n', w⟩ := e
    by_cases h1 : n' = k
    · subst h1; simp [sset, sget, Ne.symm h]
    · by_cases h2 : n' = n
      · subst h2; simp [sset, sget, h1]
      · simp [sset, sget, h1, h2, ih]

theorem sget_mem {m : Store} {k : Name} {v : List Val} (h : sget m k = some v) : (k, v) ∈ m := by
  induction m with
  | nil => simp [sget] at h
  | cons e t ih =>
    obtain ⟨n, w⟩ := e
    by_cases hn : n = k
    · simp [sget, hn] at h; simp [hn, h]
    · simp [sget, hn] at h; simp [ih h]

theorem sget_none_iff {m : Store} {k : Name} : sget m k = none ↔ k ∉ m.map (·.1) := by
  induction m with
  | nil => simp [sget]
  | cons e t ih =>
    obtain ⟨n, w⟩ := e
    by_cases hn : n = k
    · simp [sget, hn]
    · simp [sget, hn, ih, Ne.symm hn]

theorem sset_names (m : Store) (k : Name) (v : List Val) :
    (sset m k v).map (·.1) = if k ∈ m.map (·.1) then m.map (·.1) else m.map (·.1) ++ [k] := by
  induction m with
  | nil => simp [sset]
  | cons e t ih =>
    obtain ⟨n, w⟩ := e
    by_cases hn : n = k
    · simp [sset, hn]
    · simp only [sset, hn, ite_false, List.map_cons, ih, List.mem_cons, Ne.symm hn, false_or]
      split <;> simp

theorem sset_nodup (m : Store) (k : Name) (v : List Val) (h : (m.map (·.1)).Nodup) :
    ((sset m k v).map (·.1)).Nodup := by
  rw [sset_names]
  split
  · exact h
  · rename_i hk
    exact List.nodup_append.mpr ⟨h, by simp, by intro a ha b hb; simp at hb; subst hb; intro e; exact hk (e ▸ ha)⟩

theorem sset_lens (m : Store) (k : Name) (v : List Val) (K : Nat) (h : ∀ e ∈ m, e.2.length = K) (hv : v.length = K) :
    ∀ e ∈ sset m k v, e.2.length = K := by
  induction m with
  | nil => simp [sset, hv]
  | cons e t ih =>
    obtain ⟨n, w⟩ := e
    intro e' he'
    by_cases hn : n = k
    · simp only [sset, hn, ite_true, List.mem_cons] at he'
      rcases he' with rfl | he'
      · exact hv
      · exact h e' (by simp [he'])
    · simp only [sset, hn, ite_false, List.mem_cons] at he'
      rcases he' with rfl | he'
      · exact h (n, w) (by simp)
      · exact ih (fun e he => h e (by simp [he])) e' he'

/-! ### subset vector -/

theorem subsetFrom_length (c : Nat) (v : List Bool) : (subsetFrom c v).length = v.length := by
  induction v generalizing c with
  | nil => rfl
  | cons b t ih => cases b <;> simp [subsetFrom, ih]

theorem subsetFrom_support (c : Nat) (v : List Bool) : (subsetFrom c v).map (fun j => decide (0 ≤ j)) = v := by
  induction v generalizing c with
  | nil => rfl
  | cons b t ih =>
    cases b
    · simp [subsetFrom, ih]
    · simp only [subsetFrom, List.map_cons, ih, List.cons.injEq, and_true]
      simp

/-- Entry k of the subset vector: -1 for an unselected cycle, otherwise the counter start plus the
    number of selected cycles before k. -/
theorem subsetFrom_getElem? (c : Nat) (v : List Bool) (k : Nat) (b : Bool) (h : v[k]? = some b) :
    (subsetFrom c v)[k]? = some (if b then ((c + (v.take k).count true : Nat) : Int) else -1) := by
  induction v generalizing c k with
  | nil => simp at h
  | cons x t ih =>
    cases k with
    | zero =>
      simp at h; subst h
      cases x <;> simp [subsetFrom]
    | succ k' =>
      simp only [List.getElem?_cons_succ] at h
      cases x
      · simp [subsetFrom, ih c k' h]
      · simp only [subsetFrom, List.getElem?_cons_succ, ih (c + 1) k' h, List.take_succ_cons, List.count_cons_self]
        congr 2
        omega

/-! ### positions -/

theorem mem_indicesFrom {α : Type} (p : α → Bool) (i : Nat) (l : List α) (j : Nat) :
    j ∈ indicesFrom p i l ↔ ∃ k x, j = i + k ∧ l[k]? = some x ∧ p x = true := by
  induction l generalizing i with
  | nil => simp [indicesFrom]
  | cons a t ih =>
    simp only [indicesFrom]
    constructor
    · intro h
      split at h
      · rename_i hp
        rcases List.mem_cons.mp h with rfl | h
        · exact ⟨0, a, by simp, by simp, hp⟩
        · obtain ⟨k, x, rfl, hx, hpx⟩ := (ih (i + 1)).mp h
          exact ⟨k + 1, x, by omega, by simpa using hx, hpx⟩
      · obtain ⟨k, x, rfl, hx, hpx⟩ := (ih (i + 1)).mp h
        exact ⟨k + 1, x, by omega, by simpa using hx, hpx⟩
    · rintro ⟨k, x, rfl, hx, hpx⟩
      cases k with
      | zero =>
        simp at hx; subst hx
        simp [hpx]
      | succ k' =>
        have : i + (k' + 1) ∈ indicesFrom p (i + 1) t :=
          (ih (i + 1)).mpr ⟨k', x, by omega, by simpa using hx, hpx⟩
        split
        · exact List.mem_cons_of_mem _ this
        · exact this

theorem indicesFrom_ge {α : Type} (p : α → Bool) (i : Nat) (l : List α) : ∀ j ∈ indicesFrom p i l, i ≤ j := by
  intro j hj
  obtain ⟨k, _, rfl, _, _⟩ := (mem_indicesFrom p i l j).mp hj
  omega

theorem indicesFrom_pairwise {α : Type} (p : α → Bool) (i : Nat) (l : List α) : (indicesFrom p i l).Pairwise (· < ·) := by
  induction l generalizing i with
  | nil => simp [indicesFrom]
  | cons a t ih =>
    simp only [indicesFrom]
    split
    · refine List.pairwise_cons.mpr ⟨?_, ih (i + 1)⟩
      intro j hj
      have := indicesFrom_ge p (i + 1) t j hj
      omega
    · exact ih (i + 1)

/-- `np.where(p)[0]` as a filter of the index range -/
theorem indicesFrom_eq_filter {α : Type} (p : α → Bool) (l : List α) :
    indicesFrom p 0 l = (List.range l.length).filter fun k => (l[k]?.map p).getD false := by
  suffices h : ∀ i, indicesFrom p i l = ((List.range l.length).filter fun k => (l[k]?.map p).getD false).map (· + i) by
    simpa using h 0
  induction l with
  | nil => simp [indicesFrom]
  | cons a t ih =>
    intro i
    simp only [indicesFrom, List.length_cons, List.range_succ_eq_map, List.filter_cons, List.getElem?_cons_zero,
      Option.map_some, Option.getD_some, List.filter_map]
    have e : (fun k => (Option.map p (a :: t)[k]?).getD false) ∘ Nat.succ = fun k => (Option.map p t[k]?).getD false := by
      funext k; simp
    rw [e, ih (i + 1)]
    have e2 : ((fun x => x + i) ∘ Nat.succ) = fun x => x + (i + 1) := by funext k; simp; omega
    split <;> simp [e2]

/-! ### chain vector -/

theorem chainFrom_length (p c : Nat) (t : List Nat) : (chainFrom p c t).length = t.length := by
  induction t generalizing p c with
  | nil => rfl
  | cons i t ih => simp only [chainFrom]; split <;> simp [ih]

theorem chainOfSel_length (sel : List Nat) : (chainOfSel sel).length = sel.length := by
  cases sel <;> simp [chainOfSel, chainFrom_length]

theorem inc_ge (p : Nat) (t : List Nat) (h : (p :: t).Pairwise (· < ·)) (j x : Nat) (hx : t[j]? = some x) :
    p + j + 1 ≤ x := by
  induction t generalizing p j with
  | nil => simp at hx
  | cons i t ih =>
    have hp := List.pairwise_cons.mp h
    cases j with
    | zero => simp at hx; subst hx; have := hp.1 i (by simp); omega
    | succ j' =>
      have := ih i hp.2 j' (by simpa using hx)
      have := hp.1 i (by simp)
      omega

/-- relative to a predecessor p in chain c: later chain numbers are ≥ c, and equal to c exactly when
    the selected indices have continued without a gap -/
theorem chainFrom_getElem? (p c : Nat) (t : List Nat) (h : (p :: t).Pairwise (· < ·)) (j x i : Nat)
    (hx : (chainFrom p c t)[j]? = some x) (hi : t[j]? = some i) : c ≤ x ∧ (x = c ↔ i = p + j + 1) := by
  induction t generalizing p c j with
  | nil => simp at hi
  | cons i0 t ih =>
    have hp := List.pairwise_cons.mp h
    have hi0 : p < i0 := hp.1 i0 (by simp)
    cases j with
    | zero =>
      simp at hi; subst hi
      simp only [chainFrom] at hx
      split at hx <;> simp at hx <;> omega
    | succ j' =>
      simp only [List.getElem?_cons_succ] at hi
      have hge := inc_ge i0 t hp.2 j' i hi
      simp only [chainFrom] at hx
      split at hx
      · rename_i e
        have := ih i0 c hp.2 j' (by simpa using hx) hi
        omega
      · have := ih i0 (c + 1) hp.2 j' (by simpa using hx) hi
        omega

theorem chainFrom_drop (p c : Nat) (t : List Nat) (j x i : Nat)
    (hx : (chainFrom p c t)[j]? = some x) (hi : t[j]? = some i) :
    (chainFrom p c t).drop j = x :: chainFrom i x (t.drop (j + 1)) := by
  induction t generalizing p c j with
  | nil => simp at hi
  | cons i0 t ih =>
    cases j with
    | zero =>
      simp at hi; subst hi
      simp only [chainFrom] at hx ⊢
      split at hx <;> simp at hx <;> subst hx <;> simp [*]
    | succ j' =>
      simp only [List.getElem?_cons_succ] at hi
      simp only [chainFrom] at hx ⊢
      split at hx
      · rename_i e
        rw [if_pos e, List.drop_succ_cons]
        exact ih i0 c j' (by simpa using hx) hi
      · rename_i e
        rw [if_neg e, List.drop_succ_cons]
        exact ih i0 (c + 1) j' (by simpa using hx) hi

theorem chainOfSel_drop (sel : List Nat) (a ia ca : Nat) (hia : sel[a]? = some ia) (hca : (chainOfSel sel)[a]? = some ca) :
    (chainOfSel sel).drop a = ca :: chainFrom ia ca (sel.drop (a + 1)) := by
  cases sel with
  | nil => simp at hia
  | cons i t =>
    cases a with
    | zero => simp [chainOfSel] at hia hca ⊢; subst hia hca; simp
    | succ a' =>
      simp only [chainOfSel, List.getElem?_cons_succ, List.drop_succ_cons] at hia hca ⊢
      exact chainFrom_drop i 0 t a' ca ia hca hia

/-- Chains are the maximal runs of consecutive selected cycles: chain numbers never decrease along the
    selection, and two selected cycles share a chain exactly when every cycle between them is selected
    (the selected indices advance by one each). -/
theorem chainOfSel_same_iff (sel : List Nat) (h : sel.Pairwise (· < ·)) (a b ia ib ca cb : Nat) (hab : a ≤ b)
    (hia : sel[a]? = some ia) (hib : sel[b]? = some ib)
    (hca : (chainOfSel sel)[a]? = some ca) (hcb : (chainOfSel sel)[b]? = some cb) :
    ca ≤ cb ∧ (ca = cb ↔ ib = ia + (b - a)) := by
  obtain ⟨d, rfl⟩ : ∃ d, b = a + d := ⟨b - a, by omega⟩
  cases d with
  | zero =>
    simp at hib hcb
    rw [hia] at hib; rw [hca] at hcb
    simp at hib hcb
    omega
  | succ d' =>
    have hd := chainOfSel_drop sel a ia ca hia hca
    have h1 : (chainFrom ia ca (sel.drop (a + 1)))[d']? = some cb := by
      have : ((chainOfSel sel).drop a)[d' + 1]? = some cb := by
        rw [List.getElem?_drop]; exact hcb
      rw [hd] at this
      simpa using this
    have h2 : (sel.drop (a + 1))[d']? = some ib := by
      rw [List.getElem?_drop]
      have : a + 1 + d' = a + (d' + 1) := by omega
      rw [this]; exact hib
    have hpw : (ia :: sel.drop (a + 1)).Pairwise (· < ·) := by
      have hs : sel.drop a = ia :: sel.drop (a + 1) := by
        have ha : a < sel.length := by
          rcases Nat.lt_or_ge a sel.length with h | h
          · exact h
          · rw [List.getElem?_eq_none h] at hia; simp at hia
        rw [List.drop_eq_getElem_cons ha]
        congr 1
        rw [List.getElem?_eq_getElem ha] at hia
        simpa using hia
      rw [← hs]
      exact List.Pairwise.sublist (List.drop_sublist a sel) h
    have := chainFrom_getElem? ia ca (sel.drop (a + 1)) hpw d' cb ib h1 h2
    omega

/-- chain numbering starts at zero and goes up by at most one from one selected cycle to the next -/
theorem chainOfSel_steps (sel : List Nat) :
    (∀ c, (chainOfSel sel)[0]? = some c → c = 0) ∧
    ∀ j x y i i', (chainOfSel sel)[j]? = some x → (chainOfSel sel)[j + 1]? = some y →
      sel[j]? = some i → sel[j + 1]? = some i' → y = if i' = i + 1 then x else x + 1 := by
  constructor
  · intro c hc
    cases sel with
    | nil => simp [chainOfSel] at hc
    | cons i t => simp [chainOfSel] at hc; omega
  · intro j x y i i' hx hy hi hi'
    have hd := chainOfSel_drop sel j i x hi hx
    have h1 : ((chainOfSel sel).drop j)[1]? = some y := by rw [List.getElem?_drop]; exact hy
    have h2 : (sel.drop (j + 1))[0]? = some i' := by rw [List.getElem?_drop]; exact hi'
    rw [hd] at h1
    cases hs : sel.drop (j + 1) with
    | nil => rw [hs] at h2; simp at h2
    | cons i0 t =>
      rw [hs] at h1 h2
      simp at h2; subst h2
      simp only [chainFrom, List.getElem?_cons_succ] at h1
      split at h1 <;> simp at h1 <;> simp [*]

theorem foldl_max_nat_ge_init (l : List Nat) (a : Nat) : a ≤ l.foldl max a := by
  induction l generalizing a with
  | nil => simp
  | cons x t ih => simp only [List.foldl_cons]; have := ih (max a x); omega

theorem foldl_max_nat_ge_mem (l : List Nat) (a : Nat) : ∀ x ∈ l, x ≤ l.foldl max a := by
  induction l generalizing a with
  | nil => simp
  | cons y t ih =>
    intro x hx
    simp only [List.foldl_cons]
    rcases List.mem_cons.mp hx with rfl | hx
    · have := foldl_max_nat_ge_init t (max a x); omega
    · exact ih _ x hx

theorem lt_nChains (chain : List Nat) : ∀ c ∈ chain, c < nChains chain := by
  intro c hc
  cases chain with
  | nil => simp at hc
  | cons c0 t =>
    simp only [nChains]
    rcases List.mem_cons.mp hc with rfl | hc
    · have := foldl_max_nat_ge_init t c; omega
    · have := foldl_max_nat_ge_mem t c0 c hc; omega

/-- the `chain_ind` metric: the chain number of every selected cycle, -1 for the others -/
theorem chainInd_getElem? (subset : List Int) (chain : List Nat) (k : Nat) (j : Int) (h : subset[k]? = some j) :
    (chainInd subset chain)[k]? = some (some (if 0 ≤ j then
        (match chain[j.toNat]? with | some c => (c : Rat) | none => -1) else -1)) := by
  simp only [chainInd, nanToMinusOne, projChainToCycles, projSubsetToCycles, projChainToSubset, List.getElem?_map, h,
    Option.map_some]
  by_cases h0 : 0 ≤ j
  · simp only [h0, ite_true]
    cases hc : chain[j.toNat]? with
    | none => simp
    | some c =>
      have hlt : c < nChains chain := lt_nChains chain c (List.mem_of_getElem? hc)
      simp [List.getElem?_range hlt]
  · simp [h0]

theorem chainInd_length (subset : List Int) (chain : List Nat) : (chainInd subset chain).length = subset.length := by
  simp [chainInd, nanToMinusOne, projChainToCycles, projSubsetToCycles]

end Container
