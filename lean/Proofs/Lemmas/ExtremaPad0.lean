/-
  Helper lemmas for C05 — pad width 0: the unpadded extrema lie strictly inside the signal, so the
  evaluation grid misses sample 0 and `interp_envelope` rejects the input.
-/
import Proofs.Lemmas.ExtremaEnv

namespace Extrema

/-- integers from a start `c ≥ 1`, kept in `[0, n)`, are fewer than `n` -/
theorem arange_filter_length_lt (c : Int) (z : Rat) (n : Nat) (hc : 1 ≤ c) (hn : 1 ≤ n) :
    ((arange (c : Rat) z).filter (onSamples n)).length < n := by
  unfold arange
  generalize (z - (c : Rat)).ceil.toNat = N
  by_cases hN : N ≤ n - 1
  · calc _ ≤ ((List.range N).map fun (k : Nat) => (c : Rat) + (k : Rat)).length := List.length_filter_le _ _
      _ = N := by simp
      _ < n := by omega
  · obtain ⟨r, rfl⟩ : ∃ r, N = (n - 1) + r := ⟨N - (n - 1), by omega⟩
    rw [List.range_add]
    simp only [List.map_append, List.filter_append, List.map_map, List.length_append]
    have e2 : List.filter (onSamples n)
        (List.map ((fun (k : Nat) => (c : Rat) + (k : Rat)) ∘ fun x => n - 1 + x) (List.range r)) = [] := by
      rw [List.filter_eq_nil_iff]
      intro t ht
      simp only [List.mem_map, List.mem_range, Function.comp] at ht
      obtain ⟨k, _, rfl⟩ := ht
      rw [onSamples_iff]
      intro h
      have h1 : ((1 : Int) : Rat) ≤ (c : Rat) := by exact_mod_cast hc
      have h2 : ((n - 1 + k : Nat) : Rat) = (n : Rat) - 1 + (k : Rat) := by
        have : n - 1 + k + 1 = n + k := by omega
        have h3 : ((n - 1 + k + 1 : Nat) : Rat) = ((n + k : Nat) : Rat) := by rw [this]
        push_cast at h3 ⊢; linarith
      have h4 : (0 : Rat) ≤ (k : Rat) := by exact_mod_cast Nat.zero_le k
      rw [h2] at h
      push_cast at h1
      linarith [h.2]
    rw [e2]
    have h5 := List.length_filter_le (onSamples n) ((List.range (n - 1)).map fun (k : Nat) => (c : Rat) + (k : Rat))
    simp only [List.length_map, List.length_range] at h5
    simp only [List.length_nil, Nat.add_zero]
    omega

/-- a grid that starts at a positive location has fewer than `n` points -/
theorem envGrid_length_lt (locs : List Rat) (n : Nat) (a : Rat) (ha : locs.head? = some a) (h0 : 0 < a) (hn : 1 ≤ n) :
    (envGrid locs n).length < n := by
  unfold envGrid
  rw [ha]
  cases hz : locs.getLast? with
  | none => simp; omega
  | some z =>
    simp only []
    apply arange_filter_length_lt _ z n _ hn
    have : (0 : Int) < a.ceil := by
      by_contra hc
      have h1 : a.ceil ≤ 0 := by omega
      have h2 : a ≤ ((0 : Int) : Rat) := Rat.ceil_le_iff.mp h1
      simp at h2; linarith
    omega

/-- `get_padded_extrema(pad_width=0)` returns the detected extrema unpadded (None below two extrema) -/
theorem paddedExtrema_zero (m : Mode) (parab : Bool) (x : Sig) :
    paddedExtrema 0 m parab x =
      if (extrema m parab x).1.length ≤ 1 then .none else .ok (extrema m parab x).1 (extrema m parab x).2 := by
  unfold paddedExtrema
  simp

/-- pad width 0: `interp_envelope` either returns None (fewer than two extrema) or rejects the input -/
theorem interpEnvelope_zero (I : Interp) (em : EMode) (parab : Bool) (x : Sig) :
    interpEnvelope I em 0 parab x =
      if (extrema em.toMode parab x).1.length ≤ 1 then .none else .valueError := by
  unfold interpEnvelope
  rw [paddedExtrema_zero]
  by_cases hlen : (extrema em.toMode parab x).1.length ≤ 1
  · simp [hlen]
  · simp only [hlen, if_false]
    have hb := extrema_locs_bounds em.toMode parab x
    cases hl : (extrema em.toMode parab x).1 with
    | nil => simp [hl] at hlen
    | cons a t =>
      have ha := hb a (by rw [hl]; exact List.mem_cons_self)
      have hn : 1 ≤ x.length := by
        by_contra hc
        have : x.length = 0 := by omega
        rw [this] at ha; simp at ha; linarith [ha.1, ha.2]
      have hlt := envGrid_length_lt (a :: t) x.length a rfl ha.1 hn
      have : ¬ (envGrid (a :: t) x.length).length = x.length := by omega
      simp [this]

end Extrema
