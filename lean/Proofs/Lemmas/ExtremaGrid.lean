/-
  Helper lemmas for C05 — the evaluation grid of `interp_envelope`.
-/
import EmdModel.Extrema
import Mathlib.Tactic.Linarith
import Mathlib.Tactic.Ring
import Mathlib.Algebra.Order.Field.Rat

namespace Extrema

theorem onSamples_iff (n : Nat) (t : Rat) : onSamples n t = true ↔ 0 ≤ t ∧ t < (n : Rat) := by
  simp [onSamples]

/-- integers from a start `c ≤ 0` up to a stop `z ≥ n`, kept in `[0, n)`, are exactly `0, …, n-1` -/
theorem arange_filter_eq_range (c : Int) (z : Rat) (n : Nat) (hc : c ≤ 0) (hz : (n : Rat) ≤ z) :
    (arange (c : Rat) z).filter (onSamples n) = (List.range n).map (fun (k : Nat) => (k : Rat)) := by
  obtain ⟨a, rfl⟩ : ∃ a : Nat, c = -(a : Int) := ⟨(-c).toNat, by omega⟩
  have hN : (n + a : Nat) ≤ (z - ((-(a : Int) : Int) : Rat)).ceil.toNat := by
    have h1 : z - ((-(a : Int) : Int) : Rat) ≤ ((z - ((-(a : Int) : Int) : Rat)).ceil : Rat) := Rat.le_ceil
    have h2 : ((n + a : Nat) : Rat) ≤ ((z - ((-(a : Int) : Int) : Rat)).ceil : Rat) := by
      push_cast at h1 ⊢; linarith
    have h3 : ((n + a : Nat) : Int) ≤ (z - ((-(a : Int) : Int) : Rat)).ceil := by exact_mod_cast h2
    omega
  obtain ⟨r, hr⟩ : ∃ r, (z - ((-(a : Int) : Int) : Rat)).ceil.toNat = a + (n + r) := ⟨(z - ((-(a : Int) : Int) : Rat)).ceil.toNat - (n + a), by omega⟩
  unfold arange
  rw [hr, List.range_add, List.range_add]
  simp only [List.map_append, List.filter_append, List.map_map]
  have e1 : List.filter (onSamples n) (List.map (fun (k : Nat) => ((-(a : Int) : Int) : Rat) + (k : Rat)) (List.range a)) = [] := by
    rw [List.filter_eq_nil_iff]
    intro t ht
    simp only [List.mem_map, List.mem_range] at ht
    obtain ⟨k, hk, rfl⟩ := ht
    rw [onSamples_iff]
    have : (k : Rat) < (a : Rat) := by exact_mod_cast hk
    push_cast; intro h; linarith [h.1]
  have e3 : List.filter (onSamples n) (List.map ((fun (k : Nat) => ((-(a : Int) : Int) : Rat) + (k : Rat)) ∘ (fun x => a + x) ∘ fun x => n + x) (List.range r)) = [] := by
    rw [List.filter_eq_nil_iff]
    intro t ht
    simp only [List.mem_map, List.mem_range, Function.comp] at ht
    obtain ⟨k, hk, rfl⟩ := ht
    rw [onSamples_iff]
    push_cast; intro h
    have : (0 : Rat) ≤ (k : Rat) := by exact_mod_cast Nat.zero_le k
    linarith [h.2]
  have e2 : List.filter (onSamples n) (List.map ((fun (k : Nat) => ((-(a : Int) : Int) : Rat) + (k : Rat)) ∘ fun x => a + x) (List.range n))
      = (List.range n).map (fun (k : Nat) => (k : Rat)) := by
    have hmap : List.map ((fun (k : Nat) => ((-(a : Int) : Int) : Rat) + (k : Rat)) ∘ fun x => a + x) (List.range n)
        = (List.range n).map (fun (k : Nat) => (k : Rat)) := by
      apply List.map_congr_left
      intro k _
      simp only [Function.comp]; push_cast; ring
    rw [hmap, List.filter_eq_self]
    intro t ht
    simp only [List.mem_map, List.mem_range] at ht
    obtain ⟨k, hk, rfl⟩ := ht
    rw [onSamples_iff]
    exact ⟨by exact_mod_cast Nat.zero_le k, by exact_mod_cast hk⟩
  rw [e1, e2, e3]; simp



theorem envGrid_eq_range' (locs : List Rat) (n : Nat) (a z : Rat) (ha : locs.head? = some a)
    (hz : locs.getLast? = some z) (h0 : a ≤ 0) (hn : (n : Rat) ≤ z) :
    envGrid locs n = (List.range n).map (fun (k : Nat) => (k : Rat)) := by
  unfold envGrid
  rw [ha, hz]
  exact arange_filter_eq_range a.ceil z n (Rat.ceil_le_iff.mpr (by simpa using h0)) hn

theorem envGridPinned_eq_range' (locs : List Rat) (n : Nat) (c : Int) (z : Rat) (ha : locs.head? = some (c : Rat))
    (hz : locs.getLast? = some z) (h0 : c ≤ 0) (hn : (n : Rat) ≤ z) :
    envGridPinned locs n = (List.range n).map (fun (k : Nat) => (k : Rat)) := by
  unfold envGridPinned
  rw [ha, hz]
  exact arange_filter_eq_range c z n h0 hn

theorem envGridPinned_offsets' (locs : List Rat) (n : Nat) (a : Rat) (ha : locs.head? = some a) :
    ∀ t ∈ envGridPinned locs n, ∃ k : Nat, t = a + (k : Rat) := by
  intro t ht
  unfold envGridPinned at ht
  rw [ha] at ht
  cases hz : locs.getLast? with
  | none => simp [hz] at ht
  | some z =>
    simp only [hz, arange, List.mem_filter, List.mem_map] at ht
    obtain ⟨⟨k, _, rfl⟩, _⟩ := ht
    exact ⟨k, rfl⟩


end Extrema
