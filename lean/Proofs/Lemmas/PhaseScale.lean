/- Helper lemmas about EmdModel.Phase: rescaling the input of the frequency transform
   (reductions of the scale law to contracts of the library oracles). -/
import Proofs.Lemmas.PhaseNorm

namespace Phase

/-- `c • x` on a column -/
abbrev smul (c : Rat) (x : List Rat) : List Rat := x.map fun v => c * v

/-- `c • a` on an amplitude column (NaN stays NaN) -/
abbrev smulAmp (c : Rat) (a : List (Option Rat)) : List (Option Rat) :=
  a.map fun v => v.map fun w => c * w

/-- If rescaling the IMF by `c` leaves the oracle's phase unchanged and scales its amplitude,
    then phase and frequency returned by the frequency transform are unchanged and the
    amplitude scales with `c`. -/
theorem frequencyTransform_scale_of_oracle (H : List Rat → List Rat × List (Option Rat))
    (halfPi twoPi sr c : Rat) (x : List Rat)
    (hH : H (smul c x) = ((H x).1, smulAmp c (H x).2)) :
    frequencyTransform H halfPi twoPi sr (smul c x)
      = ((frequencyTransform H halfPi twoPi sr x).1, (frequencyTransform H halfPi twoPi sr x).2.1,
         smulAmp c (frequencyTransform H halfPi twoPi sr x).2.2) := by
  simp [frequencyTransform, hH]

/-- The amplitude column built from the upper envelope scales with a homogeneous envelope
    (same `None`-ness, values times `c`). -/
theorem ampOfEnv_scale (envU : List Rat → Option (List Rat)) (c : Rat) (x : List Rat)
    (henv : envU (smul c x) = (envU x).map (smul c)) :
    ampOfEnv (smul c x).length (envU (smul c x)) = smulAmp c (ampOfEnv x.length (envU x)) := by
  rw [henv]
  cases envU x <;> simp [ampOfEnv, List.map_map, Function.comp_def]

/-- `hilbert` branch: linearity of the Hilbert transform, scale invariance of `angle` and
    homogeneity of `abs` give the oracle-scale hypothesis. -/
theorem hilbertH_scale (O : Analytic) (c : Rat) (x : List Rat)
    (hlin : O.hilbert (smul c x) = (O.hilbert x).map fun z => (c * z.1, c * z.2))
    (hang : ∀ z, O.angle (c * z.1, c * z.2) = O.angle z)
    (habs : ∀ z, O.abs (c * z.1, c * z.2) = c * O.abs z) :
    O.hilbertH (smul c x) = ((O.hilbertH x).1, smulAmp c (O.hilbertH x).2) := by
  simp [Analytic.hilbertH, hlin, List.map_map, Function.comp_def, hang, habs]

/-- `nht` branch, from scale-freeness of the normalisation and homogeneity of the envelope. -/
theorem nhtH_scale (O : Analytic) (norm : List Rat → List Rat) (envU : List Rat → Option (List Rat))
    (c : Rat) (x : List Rat) (hnorm : norm (smul c x) = norm x)
    (henv : envU (smul c x) = (envU x).map (smul c)) :
    O.nhtH norm envU (smul c x) = ((O.nhtH norm envU x).1, smulAmp c (O.nhtH norm envU x).2) := by
  simp only [Analytic.nhtH, hnorm, ampOfEnv_scale envU c x henv]

/-- `nht` branch when the normalisation is the identity on both inputs (no combined envelope):
    the phase is that of the Hilbert transform of the raw column. -/
theorem nhtH_scale_raw (O : Analytic) (norm : List Rat → List Rat) (envU : List Rat → Option (List Rat))
    (c : Rat) (x : List Rat) (hn : norm x = x) (hnc : norm (smul c x) = smul c x)
    (hlin : O.hilbert (smul c x) = (O.hilbert x).map fun z => (c * z.1, c * z.2))
    (hang : ∀ z, O.angle (c * z.1, c * z.2) = O.angle z)
    (henv : envU (smul c x) = (envU x).map (smul c)) :
    O.nhtH norm envU (smul c x) = ((O.nhtH norm envU x).1, smulAmp c (O.nhtH norm envU x).2) := by
  simp only [Analytic.nhtH, hn, hnc, hlin, ampOfEnv_scale envU c x henv, List.map_map,
    Function.comp_def, hang]

/-- `quad` branch: the quadrature signal is built from the normalised IMF only. -/
theorem quadH_scale (O : Analytic) (norm : List Rat → List Rat) (envU : List Rat → Option (List Rat))
    (sqrtT : List Rat → List Rat) (c : Rat) (x : List Rat) (hnorm : norm (smul c x) = norm x)
    (henv : envU (smul c x) = (envU x).map (smul c)) :
    O.quadH norm envU sqrtT (smul c x)
      = ((O.quadH norm envU sqrtT x).1, smulAmp c (O.quadH norm envU sqrtT x).2) := by
  simp only [Analytic.quadH, hnorm, ampOfEnv_scale envU c x henv]

theorem ampOfEnv_length (n : Nat) (e : Option (List Rat)) (h : ∀ v, e = some v → v.length = n) :
    (ampOfEnv n e).length = n := by
  cases e with
  | none => simp [ampOfEnv]
  | some v => simpa [ampOfEnv] using h v rfl

end Phase

/-! ### concrete oracles for witnesses and non-vacuity examples -/

namespace Phase.Witness

theorem absR_mul_pos {c : Rat} (hc : 0 < c) (a : Rat) : absR (c * a) = c * absR a := by
  unfold absR
  by_cases h : a < 0
  · have : c * a < 0 := mul_neg_of_pos_of_neg hc h
    simp [h, this]
  · have : ¬ c * a < 0 := not_lt.mpr (mul_nonneg hc.le (not_lt.mp h))
    simp [h, this]

/-- a toy analytic-signal library meeting all three contracts for every `c > 0`:
    real part the sample, imaginary part the time-reversed sample; a two-valued `angle`
    (is the imaginary part zero?); the 1-norm as `abs`; no phase post-processing -/
def O : Analytic where
  hilbert := fun x => List.zipWith Prod.mk x x.reverse
  angle := fun z => if z.2 = 0 then 0 else 1
  abs := fun z => absR z.1 + absR z.2
  post := id

theorem O_hilbert_linear (c : Rat) (x : List Rat) :
    O.hilbert (smul c x) = (O.hilbert x).map fun z => (c * z.1, c * z.2) := by
  simp [O, smul, List.zipWith_map_left, List.zipWith_map_right, List.map_zipWith, ← List.map_reverse]

theorem O_angle_scale {c : Rat} (hc : 0 < c) (z : Rat × Rat) : O.angle (c * z.1, c * z.2) = O.angle z := by
  simp [O, ne_of_gt hc]

theorem O_abs_scale {c : Rat} (hc : 0 < c) (z : Rat × Rat) : O.abs (c * z.1, c * z.2) = c * O.abs z := by
  simp only [O, absR_mul_pos hc]; ring

/-- homogeneous envelope oracle: constant envelope at the level of the largest |sample| … here
    simply of the first sample's modulus; `None` on fewer than 3 samples -/
def E : Nat → List Rat → Option (List Rat) := fun _ y =>
  if y.length < 3 then none else some (y.map fun _ => absR (y.headD 0))

theorem E_homogeneous {c : Rat} (hc : 0 < c) (k : Nat) (y : List Rat) :
    E k (smul c y) = (E k y).map (smul c) := by
  unfold E
  by_cases h : y.length < 3
  · simp [h]
  · cases y with
    | nil => simp at h
    | cons a t =>
      have h' : ¬ t.length + 1 < 3 := by simpa using h
      simp [h', absR_mul_pos hc, List.map_map, Function.comp_def]

/-- an envelope oracle that never finds enough extrema -/
def noEnv : List Rat → Option (List Rat) := fun _ => none

/-- sqrt-table stand-in `1 − v²` (no contract on it enters the scale theorems) -/
def sq : List Rat → List Rat := fun nX => nX.map fun v => 1 - v * v

end Phase.Witness
