/-
  Cross-model consistency: the container's label-lookup statistic (C15) is the per-cycle statistic
  of the CycleStats model (C14); both models of np.digitize (C10, C14) are the same function.
-/
import Proofs.C14
import EmdModel.Container
import EmdModel.Spectra

namespace ComposeStats

theorem nLabels_agree (cv : List Int) : Container.nLabels cv = Maps.nLabels cv := rfl

theorem samplesOf_agree (cv : List Int) (vals : List Rat) (k : Nat) :
    Container.samplesOf cv vals (k : Int) = CycleStats.valuesWithLabel vals cv k := by
  unfold Container.samplesOf CycleStats.valuesWithLabel
  induction cv generalizing vals with
  | nil => cases vals <;> simp
  | cons c t ih =>
    cases vals with
    | nil => simp
    | cons v vt =>
      simp only [List.zip_cons_cons, List.filter_cons]
      by_cases h : c = (k : Int)
      · simp [h, ih vt]
      · simp [h, ih vt]

/-- The container's `get_cycle_stat_from_samples` route computes the C14 per-cycle statistic. -/
theorem lookupStat_eq_cycleStat (f : List Rat → Rat) (cv : List Int) (vals : List Rat) :
    Container.lookupStat f cv vals = (CycleStats.cycleStat f vals cv).map some := by
  obtain ⟨hlen, hget⟩ := C14.cycleStat_spec f vals cv
  apply List.ext_getElem?
  intro i
  unfold Container.lookupStat
  rw [nLabels_agree]
  by_cases hi : i < Maps.nLabels cv
  · simp [List.getElem?_map, hget i hi, List.getElem?_range hi, samplesOf_agree]
  · have h1 : (List.range (Maps.nLabels cv)).length ≤ i := by simp; omega
    have h2 : (CycleStats.cycleStat f vals cv).length ≤ i := by omega
    simp [List.getElem?_map, List.getElem?_eq_none h1, List.getElem?_eq_none h2]

/-- one model of `np.digitize` (increasing bins, right=False) -/
theorem digitize_agree (e : List Rat) (v : Rat) : Spectra.digitize e v = CycleStats.digitize e v := rfl

end ComposeStats
