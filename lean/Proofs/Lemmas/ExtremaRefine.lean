/-
  Helper lemmas for C05 — parabolic refinement and the shape of the raw extrema lists.
  (field arithmetic: uses Mathlib's `field_simp`, `ring`, `linarith` on core `Rat`)
-/
import Proofs.Lemmas.ExtremaPeaks
import Mathlib.Tactic.Linarith
import Mathlib.Tactic.FieldSimp
import Mathlib.Tactic.Ring
import Mathlib.Algebra.Order.Field.Rat
import Mathlib.Algebra.Order.Field.Basic

namespace Extrema

theorem parabolic_offset (y0 y1 y2 : Rat) (h0 : y0 < y1) (h2 : y2 < y1) :
    (parabolic y0 y1 y2).1 = (y0 - y2) / (2 * (y0 - 2 * y1 + y2)) := by
  have hd : y0 - 2 * y1 + y2 < 0 := by linarith
  have hd' : y0 - 2 * y1 + y2 ≠ 0 := ne_of_lt hd
  have ha : y0 / 2 - y1 + y2 / 2 ≠ 0 := by
    intro h; apply hd'; linarith
  simp only [parabolic]
  field_simp
  ring

theorem parabolic_within_half' (y0 y1 y2 : Rat) (h0 : y0 < y1) (h2 : y2 < y1) :
    -(1 / 2) < (parabolic y0 y1 y2).1 ∧ (parabolic y0 y1 y2).1 < 1 / 2 := by
  rw [parabolic_offset y0 y1 y2 h0 h2]
  have hd : 2 * (y0 - 2 * y1 + y2) < 0 := by linarith
  constructor
  · rw [lt_div_iff_of_neg hd]; linarith
  · rw [div_lt_iff_of_neg hd]; linarith

theorem parabolic_height' (y0 y1 y2 : Rat) (h0 : y0 < y1) (h2 : y2 < y1) :
    y1 ≤ (parabolic y0 y1 y2).2 := by
  have hd : y0 - 2 * y1 + y2 < 0 := by linarith
  have ha : y0 / 2 - y1 + y2 / 2 < 0 := by linarith
  have ha' : y0 / 2 - y1 + y2 / 2 ≠ 0 := ne_of_lt ha
  have key : (parabolic y0 y1 y2).2 - y1 = (y0 - y2) ^ 2 / (-(8 * (y0 - 2 * y1 + y2))) := by
    have hd' : y0 - 2 * y1 + y2 ≠ 0 := ne_of_lt hd
    simp only [parabolic]
    field_simp
    ring
  have : 0 ≤ (y0 - y2) ^ 2 / (-(8 * (y0 - 2 * y1 + y2))) :=
    div_nonneg (sq_nonneg _) (by linarith)
  linarith

theorem parabolic_height_eq (y0 y1 y2 : Rat) (h0 : y0 < y1) (h2 : y2 < y1) :
    (parabolic y0 y1 y2).2 = y1 - (y0 - y2) ^ 2 / (8 * (y0 - 2 * y1 + y2)) := by
  have hd : y0 - 2 * y1 + y2 < 0 := by linarith
  have hd' : y0 - 2 * y1 + y2 ≠ 0 := ne_of_lt hd
  have ha' : y0 / 2 - y1 + y2 / 2 ≠ 0 := by intro h; apply hd'; linarith
  simp only [parabolic]
  field_simp
  ring

/-- a strict extremum is moved (location and height) exactly when its neighbours differ — at any amplitude -/
theorem parabolic_moves_iff (y0 y1 y2 : Rat) (h0 : y0 < y1) (h2 : y2 < y1) :
    ((parabolic y0 y1 y2).1 = 0 ↔ y0 = y2) ∧ ((parabolic y0 y1 y2).2 = y1 ↔ y0 = y2) := by
  have hd : y0 - 2 * y1 + y2 < 0 := by linarith
  have hd' : y0 - 2 * y1 + y2 ≠ 0 := ne_of_lt hd
  constructor
  · rw [parabolic_offset y0 y1 y2 h0 h2, div_eq_zero_iff]
    constructor
    · rintro (h | h)
      · linarith
      · exfalso; apply hd'; linarith
    · intro h; left; linarith
  · rw [parabolic_height_eq y0 y1 y2 h0 h2]
    constructor
    · intro h
      have h1 : (y0 - y2) ^ 2 / (8 * (y0 - 2 * y1 + y2)) = 0 := by linarith
      rw [div_eq_zero_iff] at h1
      rcases h1 with h1 | h1
      · have := pow_eq_zero_iff (n := 2) (by norm_num) |>.mp h1
        linarith
      · exfalso; apply hd'; linarith
    · intro h
      rw [h]; simp

/-! ### shape of the raw extrema lists -/

/-- the signal whose strict maxima the mode looks for -/
def modeSig : Mode → Sig → Sig
  | .peaks, x => x
  | .troughs, x => Sig.neg x
  | .absPeaks, x => x.map Rat.abs'

theorem modeSig_length (m : Mode) (x : Sig) : (modeSig m x).length = x.length := by
  cases m <;> simp [modeSig, Sig.neg]

theorem extrema_locs (m : Mode) (parab : Bool) (x : Sig) :
    (extrema m parab x).1 = (rawExtrema parab (modeSig m x)).1 := by
  cases m <;> rfl

theorem rawExtrema_length (parab : Bool) (y : Sig) :
    (rawExtrema parab y).1.length = (findPeaks y).length ∧ (rawExtrema parab y).2.length = (findPeaks y).length := by
  cases parab <;> simp [rawExtrema]

theorem extrema_length (m : Mode) (parab : Bool) (x : Sig) :
    (extrema m parab x).2.length = (extrema m parab x).1.length := by
  cases m <;> simp [extrema, Sig.neg, rawExtrema_length]

theorem refinedLoc_near (y : Sig) (i : Nat) (hi : i ∈ findPeaks y) :
    (i : Rat) - 1 / 2 < refinedLoc y i ∧ refinedLoc y i < (i : Rat) + 1 / 2 := by
  obtain ⟨_, _, h1, h2⟩ := (mem_findPeaks_at' y i).mp hi
  have := parabolic_within_half' _ _ _ h1 h2
  unfold refinedLoc
  constructor <;> linarith [this.1, this.2]

theorem rawExtrema_locs_sep (parab : Bool) (y : Sig) :
    (rawExtrema parab y).1.Pairwise (fun a b => a + 1 ≤ b) := by
  have hp := findPeaks_not_adjacent' y
  cases parab
  · simp only [rawExtrema, Bool.false_eq_true, if_false]
    rw [List.pairwise_map]
    refine hp.imp ?_
    intro i j hij
    have : ((i + 2 : Nat) : Rat) ≤ (j : Rat) := by exact_mod_cast hij
    push_cast at this; linarith
  · simp only [rawExtrema, if_true]
    rw [List.pairwise_map]
    refine List.Pairwise.imp_of_mem ?_ hp
    intro i j hi hj hij
    have h1 := refinedLoc_near y i hi
    have h2 := refinedLoc_near y j hj
    have : ((i + 2 : Nat) : Rat) ≤ (j : Rat) := by exact_mod_cast hij
    push_cast at this; linarith [h1.2, h2.1]

theorem rawExtrema_locs_bounds (parab : Bool) (y : Sig) :
    ∀ v ∈ (rawExtrema parab y).1, 0 < v ∧ v < (y.length : Rat) := by
  intro v hv
  cases parab
  · simp only [rawExtrema, Bool.false_eq_true, if_false, List.mem_map] at hv
    obtain ⟨i, hi, rfl⟩ := hv
    obtain ⟨h0, hn, _, _⟩ := (mem_findPeaks_at' y i).mp hi
    constructor
    · exact_mod_cast h0
    · have : i < y.length := by omega
      exact_mod_cast this
  · simp only [rawExtrema, if_true, List.mem_map] at hv
    obtain ⟨i, hi, rfl⟩ := hv
    obtain ⟨h0, hn, _, _⟩ := (mem_findPeaks_at' y i).mp hi
    have h := refinedLoc_near y i hi
    have h0' : (1 : Rat) ≤ (i : Rat) := by exact_mod_cast h0
    have hn' : ((i + 1 : Nat) : Rat) < (y.length : Rat) := by exact_mod_cast hn
    push_cast at hn'
    constructor <;> linarith [h.1, h.2]


end Extrema
