/- Helper lemmas about EmdModel.Cycles (runs, sequential labelling, painting). -/
import EmdModel.Cycles

namespace Cycles
variable {α : Type}

/-- no wrap between neighbours -/
def NoWrap (w : α → α → Bool) : List α → Prop
  | a :: b :: t => w a b = false ∧ NoWrap w (b :: t)
  | _ => True

/-- every pair of consecutive runs is separated by a wrap (last of the first, head of the second) -/
def WrapBetween (w : α → α → Bool) : List (List α) → Prop
  | r1 :: r2 :: t => (∃ a b, r1.getLast? = some a ∧ r2.head? = some b ∧ w a b = true) ∧ WrapBetween w (r2 :: t)
  | _ => True

theorem runsBy_flatten (w : α → α → Bool) (xs : List α) : (runsBy w xs).flatten = xs := by
  fun_induction runsBy w xs <;> simp_all

theorem runsBy_ne_nil (w : α → α → Bool) (xs : List α) : ∀ r ∈ runsBy w xs, r ≠ [] := by
  fun_induction runsBy w xs <;> simp_all

theorem runsBy_head (w : α → α → Bool) (a : α) (t : List α) :
    ∃ r rs, runsBy w (a :: t) = (a :: r) :: rs := by
  cases t with
  | nil => exact ⟨[], [], rfl⟩
  | cons b t =>
    unfold runsBy
    split
    · exact ⟨[], _, rfl⟩
    · split
      · exact ⟨_, _, rfl⟩
      · exact ⟨[], [], rfl⟩

theorem runsBy_noWrap (w : α → α → Bool) (xs : List α) : ∀ r ∈ runsBy w xs, NoWrap w r := by
  fun_induction runsBy w xs with
  | case1 => simp
  | case2 a => simp [NoWrap]
  | case3 a b t h ih =>
    intro r hr
    simp only [List.mem_cons] at hr
    rcases hr with rfl | hr
    · simp [NoWrap]
    · exact ih r hr
  | case4 a b t h r rs heq ih =>
    intro r' hr'
    simp only [List.mem_cons] at hr'
    obtain ⟨r0, rs0, h0⟩ := runsBy_head w b t
    rw [h0] at heq
    injection heq with h1 h2
    subst h1 h2
    rcases hr' with rfl | hr'
    · have := ih (b :: r0) (by rw [h0]; simp)
      simp only [NoWrap]
      exact ⟨by simpa using h, this⟩
    · exact ih r' (by rw [h0]; simp [hr'])
  | case5 a b t h heq =>
    obtain ⟨r0, rs0, h0⟩ := runsBy_head w b t
    rw [h0] at heq; cases heq

theorem runsBy_wrapBetween (w : α → α → Bool) (xs : List α) : WrapBetween w (runsBy w xs) := by
  fun_induction runsBy w xs with
  | case1 => simp [WrapBetween]
  | case2 a => simp [WrapBetween]
  | case3 a b t h ih =>
    obtain ⟨r0, rs0, h0⟩ := runsBy_head w b t
    rw [h0] at ih ⊢
    exact ⟨⟨a, b, by simp, by simp, h⟩, ih⟩
  | case4 a b t h r rs heq ih =>
    rw [heq] at ih
    cases rs with
    | nil => simp [WrapBetween]
    | cons r2 rs2 =>
      obtain ⟨r0, rs0, h0⟩ := runsBy_head w b t
      rw [h0] at heq
      injection heq with h1 h2
      subst h1
      simp only [WrapBetween] at ih ⊢
      refine ⟨?_, ih.2⟩
      obtain ⟨x, y, hx, hy, hxy⟩ := ih.1
      exact ⟨x, y, by simpa [List.getLast?_cons_cons] using hx, hy, hxy⟩
  | case5 a b t h heq => simp [WrapBetween]

theorem filterMap_const_none {β γ : Type} (l : List β) : l.filterMap (fun _ => (none : Option γ)) = [] := by
  induction l <;> simp_all

theorem labelRuns_runs (acc : List α → Bool) (c : Nat) (rs : List (List α)) :
    (labelRuns acc c rs).map (·.1) = rs := by
  induction rs generalizing c with
  | nil => simp [labelRuns]
  | cons r rs ih => unfold labelRuns; split <;> simp [ih]

theorem cvSegs_runs (w : α → α → Bool) (acc : List α → Bool) (xs : List α) :
    (cvSegs w acc xs).map (·.1) = runsBy w xs := by
  unfold cvSegs
  simp only []
  split
  · simp [List.map_map, Function.comp_def]
  · exact labelRuns_runs acc 0 _

theorem labelRuns_labels (acc : List α → Bool) (c : Nat) (rs : List (List α)) :
    (labelRuns acc c rs).filterMap (·.2) =
      List.range' c ((labelRuns acc c rs).filterMap (·.2)).length := by
  induction rs generalizing c with
  | nil => simp [labelRuns]
  | cons r rs ih =>
    unfold labelRuns
    split
    · simp only [List.filterMap_cons, List.length_cons, List.range'_succ]
      rw [← ih (c + 1)]
    · simp only [List.filterMap_cons]
      exact ih c

theorem paint_nil : paint ([] : List (List α × Option Nat)) = [] := rfl

theorem paint_cons (s : List α × Option Nat) (t : List (List α × Option Nat)) :
    paint (s :: t) = List.replicate s.1.length (labelInt s.2) ++ paint t := by
  simp [paint]

theorem paint_append (a b : List (List α × Option Nat)) : paint (a ++ b) = paint a ++ paint b := by
  simp [paint]

theorem paint_length (segs : List (List α × Option Nat)) :
    (paint segs).length = ((segs.map (·.1)).map List.length).sum := by
  induction segs with
  | nil => simp [paint]
  | cons s t ih => simp [paint_cons, ih]

theorem mem_paint {segs : List (List α × Option Nat)} {l : Int} (h : l ∈ paint segs) :
    ∃ s ∈ segs, l = labelInt s.2 := by
  simp only [paint, List.mem_flatMap, List.mem_replicate] at h
  obtain ⟨s, hs, _, rfl⟩ := h
  exact ⟨s, hs, rfl⟩

theorem labelRuns_all (c : Nat) (rs : List (List α)) :
    ∀ s ∈ labelRuns (fun _ => true) c rs, s.2.isSome := by
  induction rs generalizing c with
  | nil => simp [labelRuns]
  | cons r rs ih =>
    intro s hs
    simp only [labelRuns, ite_true, List.mem_cons] at hs
    rcases hs with rfl | hs
    · simp
    · exact ih _ s hs

theorem cvSegs_all_labelled (w : α → α → Bool) (xs : List α) (hw : 2 ≤ (runsBy w xs).length) :
    ∀ s ∈ cvSegs w (fun _ => true) xs, s.2.isSome := by
  unfold cvSegs
  simp only []
  have : ¬ (runsBy w xs).length ≤ 1 := by omega
  simp only [this, ite_false]
  exact labelRuns_all 0 _

/-- labels produced from counter `c` are all ≥ c -/
theorem labelRuns_ge (acc : List α → Bool) (c : Nat) (rs : List (List α)) :
    ∀ s ∈ labelRuns acc c rs, ∀ k, s.2 = some k → c ≤ k := by
  induction rs generalizing c with
  | nil => simp [labelRuns]
  | cons r rs ih =>
    intro s hs k hk
    unfold labelRuns at hs
    split at hs
    · simp only [List.mem_cons] at hs
      rcases hs with rfl | hs
      · simp at hk; omega
      · have := ih (c + 1) s hs k hk; omega
    · simp only [List.mem_cons] at hs
      rcases hs with rfl | hs
      · simp at hk
      · exact ih c s hs k hk

theorem not_mem_paint_of_labels {segs : List (List α × Option Nat)} {k : Nat}
    (h : ∀ s ∈ segs, s.2 ≠ some k) : (k : Int) ∉ paint segs := by
  intro hk
  obtain ⟨s, hs, hl⟩ := mem_paint hk
  cases h2 : s.2 with
  | none => simp [h2, labelInt] at hl <;> omega
  | some j =>
    simp [h2, labelInt] at hl
    have : j = k := by omega
    subst this
    exact h s hs h2

/-- the run carrying label k (c ≤ k < c + number of labels) splits the labelled list -/
theorem labelRuns_split (acc : List α → Bool) (c : Nat) (rs : List (List α)) (k : Nat)
    (hc : c ≤ k) (hk : k < c + ((labelRuns acc c rs).filterMap (·.2)).length) :
    ∃ pre run post, labelRuns acc c rs = pre ++ (run, some k) :: post ∧ run ∈ rs ∧
      (∀ s ∈ pre, s.2 ≠ some k) ∧ (∀ s ∈ post, s.2 ≠ some k) := by
  induction rs generalizing c with
  | nil => simp [labelRuns] at hk; omega
  | cons r rs ih =>
    unfold labelRuns at hk ⊢
    split
    · rename_i hacc
      simp only [hacc, ite_true, List.filterMap_cons, List.length_cons] at hk
      by_cases hck : c = k
      · subst hck
        refine ⟨[], r, labelRuns acc (c + 1) rs, by simp, by simp, by simp, ?_⟩
        intro s hs h
        have := labelRuns_ge acc (c + 1) rs s hs c h
        omega
      · obtain ⟨pre, run, post, h1, h2, h3, h4⟩ := ih (c + 1) (by omega) (by omega)
        refine ⟨(r, some c) :: pre, run, post, by simp [h1], by simp [h2], ?_, h4⟩
        intro s hs
        simp only [List.mem_cons] at hs
        rcases hs with rfl | hs
        · simp; omega
        · exact h3 s hs
    · rename_i hacc
      simp only [hacc] at hk
      obtain ⟨pre, run, post, h1, h2, h3, h4⟩ := ih c hc (by simpa using hk)
      refine ⟨(r, none) :: pre, run, post, by simp [h1], by simp [h2], ?_, h4⟩
      intro s hs
      simp only [List.mem_cons] at hs
      rcases hs with rfl | hs
      · simp
      · exact h3 s hs

end Cycles

namespace Cycles
variable {α : Type}

theorem labelRuns_label_iff (acc : List α → Bool) (c : Nat) (rs : List (List α)) :
    ∀ s ∈ labelRuns acc c rs, (s.2.isSome ↔ acc s.1 = true) := by
  induction rs generalizing c with
  | nil => simp [labelRuns]
  | cons r rs ih =>
    intro s hs
    unfold labelRuns at hs
    split at hs
    · rename_i h
      simp only [List.mem_cons] at hs
      rcases hs with rfl | hs
      · simp [h]
      · exact ih _ s hs
    · rename_i h
      simp only [List.mem_cons] at hs
      rcases hs with rfl | hs
      · simp [h]
      · exact ih _ s hs

theorem append_cons_eq_range {a b : List Nat} {k n : Nat} (h : a ++ k :: b = List.range n) :
    k = a.length := by
  have h1 : (a ++ k :: b)[a.length]? = some k := by simp
  rw [h] at h1
  have hlt : a.length < n := by
    have := congrArg List.length h
    simp at this; omega
  simp [List.getElem?_range hlt] at h1
  omega

theorem strictInc_iff (l : List Rat) : strictInc l = true ↔ l.Pairwise (· < ·) := by
  induction l with
  | nil => simp [strictInc]
  | cons a t ih =>
    cases t with
    | nil => simp [strictInc]
    | cons b t =>
      simp only [strictInc, Bool.and_eq_true, decide_eq_true_eq, ih]
      constructor
      · rintro ⟨hab, hp⟩
        refine List.pairwise_cons.mpr ⟨?_, hp⟩
        intro x hx
        rcases List.mem_cons.mp hx with rfl | hx
        · exact hab
        · have := (List.pairwise_cons.mp hp).1 x hx; grind
      · intro hp
        have := List.pairwise_cons.mp hp
        exact ⟨this.1 b (by simp), this.2⟩

end Cycles
