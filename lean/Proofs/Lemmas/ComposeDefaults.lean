/-
  Cross-model consistency: the signature-default tables of the option-resolution model
  (`EmdModel/Options.lean`, C06) and the default configuration built by the configuration model
  (`EmdModel/Config.lean`, `getConfig`, C18).  `Options.modelSigs` feeds the Options tables into
  `Config.getConfig`; these lemmas show that what `get_config` stores is exactly what argument
  binding (`Options.resolve` with no keyword supplied) falls back to.
-/
import Proofs.Lemmas.Options

namespace ComposeDefaults
open Config Options

/-- binding with no keywords yields the signature default of every parameter -/
theorem resolve_nil_lookup (sig : Assoc) (p : Key) : (resolve sig .nil).lookup p = sig.lookup p := by
  rw [lookup_resolve]
  cases sig.lookup p <;> simp [Assoc.lookup]

/-- the default configuration of the four variants `get_config` knows, read through key paths -/
theorem getConfig_modelSigs (v : Variant) (hv : v = .sift ∨ v = .ensemble ∨ v = .complete ∨ v = .mask) :
    ∃ c, getConfig modelSigs v.name.toList = .ok c ∧
      c.siftType = .scalar (.str v.name.toList) ∧
      cfgGet c.store (k "imf_opts") = .ok (.dict gniOwn) ∧
      cfgGet c.store (k "envelope_opts") = .ok (.dict envDefaults) ∧
      cfgGet c.store (k "extrema_opts") = .ok (.dict extDefaults) ∧
      cfgGet c.store (k "extrema_opts/loc_pad_opts") = .ok gpeLocLiteral ∧
      cfgGet c.store (k "extrema_opts/mag_pad_opts") = .ok gpeMagLiteral := by
  rcases hv with rfl | rfl | rfl | rfl <;> exact ⟨_, rfl, rfl, rfl, rfl, rfl, rfl, rfl⟩

/-- every top-level default `get_config` stores for a variant is the default its signature binds -/
theorem top_defaults (v : Variant) (hv : v = .sift ∨ v = .ensemble ∨ v = .complete ∨ v = .mask) :
    ∃ sig, modelSigs.variant v.name.toList = some sig ∧
      ∀ p d, sig.lookup p = some d → (resolve sig .nil).lookup p = some d := by
  rcases hv with rfl | rfl | rfl | rfl
  · exact ⟨siftSig, rfl, fun p d h => by rw [resolve_nil_lookup]; exact h⟩
  · exact ⟨ensSig, rfl, fun p d h => by rw [resolve_nil_lookup]; exact h⟩
  · exact ⟨ensSig, rfl, fun p d h => by rw [resolve_nil_lookup]; exact h⟩
  · exact ⟨maskSig, rfl, fun p d h => by rw [resolve_nil_lookup]; exact h⟩

/-- the stored `imf_opts` are the defaults `get_next_imf` binds -/
theorem imf_defaults {p : Key} {d : Tree} (h : gniOwn.lookup p = some d) :
    (resolve gniSig .nil).lookup p = some d := by
  rw [resolve_nil_lookup]; exact gniSig_own h

/-- the stored `envelope_opts` are the defaults `interp_envelope` binds -/
theorem env_defaults {p : Key} {d : Tree} (h : envDefaults.lookup p = some d) :
    (resolve ieSig .nil).lookup p = some d := by
  rw [resolve_nil_lookup]
  have hp := mem_keys_of_lookup h
  have hp' : p = "interp_method".toList := by
    simpa [-String.reduceToList, envDefaults, mk, Assoc.keys] using hp
  subst hp'
  have : envDefaults.lookup "interp_method".toList = some (s "splrep") := by rfl
  rw [this] at h; cases h; rfl

/-- the stored `extrema_opts` are the defaults `get_padded_extrema` binds, the two pad dictionaries
    being spelled out where the signature says `None` — the same effective value after the
    `if not loc_pad_opts` / `if not mag_pad_opts` fallback (`effVal`) -/
theorem ext_defaults {p : Key} {e : Tree} (h : extDefaults.lookup p = some e) :
    ∃ d, (resolve gpeSig .nil).lookup p = some d ∧ effVal p e = effVal p d := by
  have hp := mem_keys_of_lookup h
  have hp' : p = "pad_width".toList ∨ p = "parabolic_extrema".toList ∨ p = "mag_pad_opts".toList ∨ p = "loc_pad_opts".toList := by
    simpa [-String.reduceToList, extDefaults, mk, Assoc.keys] using hp
  have key : ∀ d, gpeOwn.lookup p = some d → ∃ d, (resolve gpeSig .nil).lookup p = some d ∧ effVal p e = effVal p d := by
    intro d hd
    refine ⟨d, by rw [resolve_nil_lookup]; exact gpeSig_own hd, ?_⟩
    have := extDefaults_agree hd
    rw [h] at this
    exact this
  rcases hp' with rfl | rfl | rfl | rfl
  · exact key (i 2) rfl
  · exact key (b false) rfl
  · exact key none' rfl
  · exact key none' rfl

end ComposeDefaults
