/- Helper lemmas about the worker-pool model (EmdModel.Ensemble, namespace Pool). -/
import EmdModel.Ensemble

namespace Pool
variable {S α β : Type}

theorem filterMap_congr' {γ δ : Type} {f g : γ → Option δ} {l : List γ} (h : ∀ x, x ∈ l → f x = g x) :
    l.filterMap f = l.filterMap g := by
  induction l with
  | nil => rfl
  | cons a t ih =>
    have h1 : f a = g a := h a (by simp)
    have h2 : t.filterMap f = t.filterMap g := ih (fun x hx => h x (by simp [hx]))
    simp [List.filterMap_cons, h1, h2]

theorem range_filterMap_getElem? (f : α → β) (args : List α) :
    (List.range args.length).filterMap (fun i => (args[i]?).map f) = args.map f := by
  induction args with
  | nil => rfl
  | cons a as ih =>
    simp [List.range_succ_eq_map, List.filterMap_map, Function.comp_def, ih]

/-- a pure job leaves a log that depends on the order only through the order itself -/
theorem exec_pure (f : α → β) (args : List α) (worker : Nat → Nat) (st : Nat → Unit) (order : List Nat) :
    exec (fun (_ : Unit) a => (f a, ())) args worker st order
      = order.filterMap (fun j => (args[j]?).map fun a => (j, f a)) := by
  induction order generalizing st with
  | nil => rfl
  | cons j rest ih =>
    unfold exec
    cases h : args[j]? with
    | none => simp [h, ih]
    | some a => simp [h, ih]

theorem lookup_pure_log (f : α → β) (args : List α) (order : List Nat) (i : Nat) (hi : i ∈ order) :
    (order.filterMap (fun j => (args[j]?).map fun a => (j, f a))).lookup i = (args[i]?).map f := by
  induction order with
  | nil => cases hi
  | cons j rest ih =>
    by_cases hji : j = i
    · subst hji
      cases h : args[j]? with
      | none =>
        simp only [List.filterMap_cons, h, Option.map_none]
        by_cases hr : j ∈ rest
        · simpa [h] using ih hr
        · clear ih hi
          induction rest with
          | nil => rfl
          | cons k r ih2 =>
            have hk : k ≠ j := fun e => hr (by simp [e])
            have hr' : j ∉ r := fun e => hr (by simp [e])
            cases h2 : args[k]? with
            | none => simpa [h2] using ih2 hr'
            | some b =>
              simp only [List.filterMap_cons, h2, Option.map_some, List.lookup_cons]
              have : (j == k) = false := by simp [Ne.symm hk]
              simp [this, ih2 hr']
      | some a => simp [h, List.lookup_cons]
    · have hr : i ∈ rest := by
        rcases List.mem_cons.mp hi with e | e
        · exact absurd e.symm hji
        · exact e
      cases h : args[j]? with
      | none => simpa [h] using ih hr
      | some a =>
        simp only [List.filterMap_cons, h, Option.map_some, List.lookup_cons]
        have : (i == j) = false := by simp [Ne.symm hji]
        simp [this, ih hr]

theorem collect_eq_map (N : Nat) (done : List (Nat × β)) (v : Nat → β)
    (h : ∀ i, i < N → done.lookup i = some (v i)) : collect N done = (List.range N).map v := by
  unfold collect
  rw [← List.filterMap_eq_map']
  apply filterMap_congr'
  intro i hi
  exact h i (List.mem_range.mp hi)

/-- pure jobs: the pool is `map`, for every order that runs each job at least once -/
theorem runPool_eq_map_of_mem (σ : Schedule) (f : α → β) (args : List α)
    (h : ∀ i, i < args.length → i ∈ σ.order) : runPool σ f args = args.map f := by
  unfold runPool runPoolFork
  rw [exec_pure, ← range_filterMap_getElem? f args]
  unfold collect
  apply filterMap_congr'
  intro i hi
  exact lookup_pure_log f args σ.order i (h i (List.mem_range.mp hi))

theorem Schedule.Valid.mem {σ : Schedule} {N p : Nat} (h : σ.Valid N p) (i : Nat) : i ∈ σ.order ↔ i < N := by
  rw [h.1.mem_iff, List.mem_range]

theorem Schedule.Valid.nodup {σ : Schedule} {N p : Nat} (h : σ.Valid N p) : σ.order.Nodup :=
  h.1.nodup_iff.mpr List.nodup_range

theorem roundRobin_valid (N p : Nat) (hp : 0 < p) : (Schedule.roundRobin N p).Valid N p :=
  ⟨List.Perm.refl _, fun j _ => Nat.mod_lt j hp⟩

/-- `starmap` of a pure job returns `map`, whatever the schedule -/
theorem runPool_eq_map (σ : Schedule) (N p : Nat) (f : α → β) (args : List α) (hN : args.length = N)
    (hσ : σ.Valid N p) : runPool σ f args = args.map f :=
  runPool_eq_map_of_mem σ f args (fun i hi => (hσ.mem i).mpr (hN ▸ hi))

/-! ### forked (stateful) jobs -/

/-- private states of the workers after the jobs of `pre` have run -/
def stateAfter (job : S → α → β × S) (args : List α) (worker : Nat → Nat) : (Nat → S) → List Nat → (Nat → S)
  | st, [] => st
  | st, j :: rest =>
    match args[j]? with
    | none => stateAfter job args worker st rest
    | some a => stateAfter job args worker (upd st (worker j) (job (st (worker j)) a).2) rest

theorem exec_append (job : S → α → β × S) (args : List α) (worker : Nat → Nat) (st : Nat → S) (l1 l2 : List Nat) :
    exec job args worker st (l1 ++ l2)
      = exec job args worker st l1 ++ exec job args worker (stateAfter job args worker st l1) l2 := by
  induction l1 generalizing st with
  | nil => rfl
  | cons j rest ih =>
    simp only [List.cons_append]
    cases h : args[j]? with
    | none => simp only [exec, stateAfter, h, ih]
    | some a => simp only [exec, stateAfter, h, ih, List.cons_append]

theorem lookup_exec_not_mem (job : S → α → β × S) (args : List α) (worker : Nat → Nat) (st : Nat → S)
    (l : List Nat) (j : Nat) (h : j ∉ l) : (exec job args worker st l).lookup j = none := by
  induction l generalizing st with
  | nil => rfl
  | cons k rest ih =>
    have hk : (j == k) = false := by
      have : j ≠ k := fun e => h (by simp [e])
      simp [this]
    have hr : j ∉ rest := fun e => h (by simp [e])
    unfold exec
    cases h2 : args[k]? with
    | none => simpa using ih _ hr
    | some a => simp [List.lookup_cons, hk, ih _ hr]

theorem lookup_append_of_none {γ : Type} (l1 l2 : List (Nat × γ)) (j : Nat) (h : l1.lookup j = none) :
    (l1 ++ l2).lookup j = l2.lookup j := by
  induction l1 with
  | nil => rfl
  | cons e t ih =>
    obtain ⟨k, b⟩ := e
    simp only [List.cons_append, List.lookup_cons] at h ⊢
    cases hk : (j == k) with
    | true => simp [hk] at h
    | false => simp only [hk] at h ⊢; exact ih h

/-- the output of job `j` is computed from the state its worker is in after the jobs executed before `j` -/
theorem lookup_exec_split (job : S → α → β × S) (args : List α) (worker : Nat → Nat) (st : Nat → S)
    (pre post : List Nat) (j : Nat) (a : α) (hpre : j ∉ pre) (ha : args[j]? = some a) :
    (exec job args worker st (pre ++ j :: post)).lookup j
      = some (job (stateAfter job args worker st pre (worker j)) a).1 := by
  rw [exec_append, lookup_append_of_none _ _ _ (lookup_exec_not_mem job args worker st pre j hpre)]
  unfold exec
  simp [ha, List.lookup_cons]

theorem takeWhile_dropWhile_split (l : List Nat) (j : Nat) (h : j ∈ l) :
    l = l.takeWhile (· != j) ++ j :: (l.dropWhile (· != j)).tail ∧ j ∉ l.takeWhile (· != j) := by
  induction l with
  | nil => cases h
  | cons k t ih =>
    by_cases hk : k = j
    · subst hk; simp
    · have ht : j ∈ t := by
        rcases List.mem_cons.mp h with e | e
        · exact absurd e.symm hk
        · exact e
      obtain ⟨h1, h2⟩ := ih ht
      have hne : (k != j) = true := by simp [hk]
      constructor
      · simp only [List.takeWhile_cons, List.dropWhile_cons, hne, ite_true, List.cons_append]
        rw [← h1]
      · simp only [List.takeWhile_cons, hne, ite_true, List.mem_cons, not_or]
        exact ⟨fun e => hk e.symm, h2⟩

end Pool
