/- Helper lemmas about whole operation sequences on the container. -/
import Proofs.Lemmas.ContainerTrack

namespace Container
open Cycles

/-- the outputs of a sequence of operations, in order -/
def runOuts (F : List Char → Option Rat) : State → List Op → List (Except Err Out)
  | _, [] => []
  | s, o :: t => (step F s o).2 :: runOuts F (step F s o).1 t

theorem run_cons (F : List Char → Option Rat) (s : State) (o : Op) (t : List Op) :
    run F s (o :: t) = run F (step F s o).1 t := rfl

theorem run_inv (F : List Char → Option Rat) (s : State) (ops : List Op) (h : Inv s) : Inv (run F s ops) := by
  induction ops generalizing s with
  | nil => exact h
  | cons o t ih => rw [run_cons]; exact ih _ (step_inv F s o h)

theorem run_good (F : List Char → Option Rat) (s : State) (ops : List Op) (h : HasGood s) : HasGood (run F s ops) := by
  induction ops generalizing s with
  | nil => exact h
  | cons o t ih => rw [run_cons]; exact ih _ (step_good F s o h)

theorem run_frame (F : List Char → Option Rat) (s : State) (ops : List Op) : Frame s (run F s ops) := by
  induction ops generalizing s with
  | nil => exact Frame.refl s
  | cons o t ih => rw [run_cons]; exact (step_frame F s o).trans (ih _)

theorem run_setCache (F : List Char → Option Rat) (b : Bool) (s : State) (ops : List Op) (h : Inv s)
    (hv : ∀ op ∈ ops, op.ValsOK s.cv.length) :
    run F (setCache b s) ops = setCache b (run F s ops) ∧ runOuts F (setCache b s) ops = runOuts F s ops := by
  induction ops generalizing s with
  | nil => exact ⟨rfl, rfl⟩
  | cons o t ih =>
    have hs := step_setCache F b s o h (hv o (by simp))
    have hcv : (step F s o).1.cv = s.cv := (step_frame F s o).1
    have := ih (step F s o).1 (step_inv F s o h) (by intro op hop; rw [hcv]; exact hv op (by simp [hop]))
    simp only [run_cons, runOuts, hs, this, and_self]

theorem paint_cvSegs_length {α : Type} (w : α → α → Bool) (acc : List α → Bool) (xs : List α) :
    (paint (cvSegs w acc xs)).length = xs.length := by
  rw [paint_length, cvSegs_runs]
  have := congrArg List.length (runsBy_flatten w xs)
  rw [List.length_flatten] at this
  exact this

/-- the state the constructor starts from, before the `is_good` metric is computed -/
def init0 (pstep thr : Rat) (cache : Bool) (ph : List Rat) : State :=
  let cv := paint (cvSegs (wrapAt pstep) (fun _ => true) ph)
  { cv, K := nLabels cv, phase := ph, thr, cache, metrics := [], sel := none }

theorem init_eq (g : GoodCfg) (pstep thr : Rat) (cache : Bool) (ph : List Rat) :
    init g pstep thr cache ph = computeMetric (init0 pstep thr cache ph) isGoodName ph (isGoodF g) .cycle := rfl

theorem init0_inv (pstep thr : Rat) (cache : Bool) (ph : List Rat) : Inv (init0 pstep thr cache ph) :=
  ⟨init_cvOK _ _, by simp [init0], by simp [init0], by simp [init0]⟩

theorem init0_cv_length (pstep thr : Rat) (cache : Bool) (ph : List Rat) :
    ph.length = (init0 pstep thr cache ph).cv.length := by
  simp [init0, paint_cvSegs_length]

/-! ### a concrete container state for the non-vacuity examples -/

/-- three cycles (samples 0-1, 2-4, 5), an `is_good` metric, cycles 0 and 2 selected as two chains -/
def exState : State :=
  { cv := [0, 0, 1, 1, 1, 2], K := 3, phase := [1/10, 5, 1/10, 3, 6, 1/5], thr := 4, cache := true,
    metrics := [(isGoodName, [some 1, some 0, some 1])],
    sel := some { conds := [], subset := [0, -1, 1], chain := [0, 1] } }

theorem exState_wf : WF [0, 0, 1, 1, 1, 2] 3 := by unfold WF LabelsFrom; decide

theorem exState_inv : Inv exState :=
  ⟨⟨exState_wf, by decide⟩, by decide, by decide, by
    intro sel hsel
    simp only [exState, Option.some.injEq] at hsel
    subst hsel
    exact ⟨by decide, by decide, by decide⟩⟩

end Container
