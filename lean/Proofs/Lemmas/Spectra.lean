/-
  Helper lemmas for C10 / C11 (model: EmdModel/Spectra.lean): the declarative
  specifications (`inBin`, `rowSpec`, `hhtSpec`, …), sums over lists of rationals,
  `digitize` on sorted edges, scatter-add (`toDense`) as a table of per-cell sums.
-/
import EmdModel.Spectra

namespace Spectra

/-! ### declarative specification -/

/-- `edges[b] ≤ f < edges[b+1]` (false for NaN and for a bin that does not exist) -/
def inBin (e : List Rat) (b : Nat) : Freq → Bool
  | none => false
  | some v =>
    match e[b]?, e[b + 1]? with
    | some lo, some hi => decide (lo ≤ v) && decide (v < hi)
    | _, _ => false

/-- `edges[0] ≤ f < edges[last]` -/
def inRange (e : List Rat) : Freq → Bool
  | none => false
  | some v =>
    match e.head?, e.getLast? with
    | some lo, some hi => decide (lo ≤ v) && decide (v < hi)
    | _, _ => false

/-- weight that one time row puts into bin `b`: Σ_j w(a_j)·[f_j ∈ bin b] -/
def rowSpec (e : List Rat) (energy : Bool) (r : HRow) (b : Nat) : Rat :=
  ((List.zip r.1 r.2).map fun fa => if inBin e b fa.1 then weight energy fa.2 else 0).sum

/-- SPEC of the Hilbert-Huang spectrum `[bins × time]` -/
def hhtSpec (e : List Rat) (energy : Bool) (F : List (List Freq)) (A : List (List Rat)) : List (List Rat) :=
  (List.range (e.length - 1)).map fun b => (List.zip F A).map fun r => rowSpec e energy r b

/-- a table -/
def tab {α : Type} (nr nc : Nat) (g : Nat → Nat → α) : List (List α) :=
  (List.range nr).map fun r => (List.range nc).map fun c => g r c

/-- Σ of the entries selected by `p` -/
def sumP (p : Trip → Bool) (ts : List Trip) : Rat := (ts.map fun x => if p x then x.val else 0).sum

/-- Σ of the entries sitting at `(r, c)` -/
def sumIf (ts : List Trip) (r c : Nat) : Rat := sumP (fun x => decide (x.row = r) && decide (x.col = c)) ts

/-! ### sums -/

theorem sum_append (a b : List Rat) : (a ++ b).sum = a.sum + b.sum := by
  induction a with
  | nil => simp [Rat.zero_add]
  | cons x xs ih => simp [ih, Rat.add_assoc]

theorem sum_map_zero {α : Type} (l : List α) : (l.map fun _ => (0 : Rat)).sum = 0 := by
  induction l with
  | nil => rfl
  | cons x xs ih => simp [ih, Rat.zero_add]

theorem sum_map_add {α : Type} (f g : α → Rat) (l : List α) :
    (l.map fun x => f x + g x).sum = (l.map f).sum + (l.map g).sum := by
  induction l with
  | nil => simp [Rat.zero_add]
  | cons x xs ih => simp only [List.map_cons, List.sum_cons, ih]; grind

theorem sum_map_comm {α β : Type} (l : List α) (m : List β) (f : α → β → Rat) :
    (l.map fun x => (m.map fun y => f x y).sum).sum = (m.map fun y => (l.map fun x => f x y).sum).sum := by
  induction l with
  | nil => simp [sum_map_zero]
  | cons x xs ih => simp only [List.map_cons, List.sum_cons, ih, sum_map_add]

theorem sum_map_congr {α : Type} (f g : α → Rat) (l : List α) (h : ∀ x ∈ l, f x = g x) :
    (l.map f).sum = (l.map g).sum := by
  rw [List.map_congr_left h]

theorem sum_map_mul_right {α : Type} (f : α → Rat) (c : Rat) (l : List α) :
    (l.map fun x => f x * c).sum = (l.map f).sum * c := by
  induction l with
  | nil => simp [Rat.zero_mul]
  | cons x xs ih => simp only [List.map_cons, List.sum_cons, ih]; grind

theorem digitize_le_length (e : List Rat) (v : Rat) : digitize e v ≤ e.length := List.countP_le_length

theorem digitize_cons (a : Rat) (t : List Rat) (v : Rat) :
    digitize (a :: t) v = digitize t v + (if a ≤ v then 1 else 0) := by
  simp [digitize, List.countP_cons]

/-- everything after a first element that is already above `v` is above `v` -/
theorem digitize_eq_zero_of_lt (a : Rat) (t : List Rat) (v : Rat)
    (he : (a :: t).Pairwise (· ≤ ·)) (h : v < a) : digitize (a :: t) v = 0 := by
  have h1 : ∀ x ∈ a :: t, ¬ x ≤ v := by
    intro x hx
    rcases List.mem_cons.mp hx with rfl | hx
    · grind
    · have := (List.pairwise_cons.mp he).1 x hx; grind
  unfold digitize
  rw [List.countP_eq_zero]
  intro x hx; simpa using h1 x hx

/-- on non-decreasing edges the edges ≤ v form a prefix: index `i` is among them iff `i < digitize` -/
theorem lt_digitize_iff (e : List Rat) (he : e.Pairwise (· ≤ ·)) (v : Rat) (i : Nat) (hi : i < e.length) :
    i < digitize e v ↔ e[i] ≤ v := by
  induction e generalizing i with
  | nil => simp at hi
  | cons a t ih =>
    by_cases hav : a ≤ v
    · rw [digitize_cons]; simp only [hav, ite_true]
      cases i with
      | zero => simp [hav]
      | succ k =>
        simp only [List.getElem_cons_succ]
        have := ih (List.pairwise_cons.mp he).2 k (by simpa using hi)
        rw [← this]; omega
    · have hz := digitize_eq_zero_of_lt a t v he (by grind)
      rw [hz]
      have hmem : (a :: t)[i] ∈ a :: t := List.getElem_mem hi
      have : a ≤ (a :: t)[i] := by
        rcases List.mem_cons.mp hmem with h | h
        · rw [h]; exact Rat.le_refl
        · exact (List.pairwise_cons.mp he).1 _ h
      constructor
      · omega
      · intro h; exfalso; grind

theorem digitize_spec (e : List Rat) (he : e.Pairwise (· ≤ ·)) (v : Rat) (b : Nat) (hb : b + 1 < e.length) :
    digitize e v = b + 1 ↔ e[b] ≤ v ∧ v < e[b + 1] := by
  have h1 := lt_digitize_iff e he v b (by omega)
  have h2 := lt_digitize_iff e he v (b + 1) hb
  have h3 : v < e[b + 1] ↔ ¬ e[b + 1] ≤ v := by grind
  rw [h3, ← h1, ← h2]; omega

theorem digitizeF_le_length (e : List Rat) (f : Freq) : digitizeF e f ≤ e.length := by
  cases f with
  | none => simp [digitizeF]
  | some v => exact digitize_le_length e v

theorem inBin_lt {e : List Rat} {b : Nat} {f : Freq} (h : inBin e b f = true) : b + 1 < e.length := by
  cases f with
  | none => simp [inBin] at h
  | some v =>
    unfold inBin at h
    cases h1 : e[b + 1]? with
    | none => cases h0 : e[b]? <;> simp [h0, h1] at h
    | some hi => exact (List.getElem?_eq_some_iff.mp h1).1

theorem inBin_some (e : List Rat) (b : Nat) (v : Rat) (hb : b + 1 < e.length) :
    inBin e b (some v) = true ↔ e[b] ≤ v ∧ v < e[b + 1] := by
  have h0 : e[b]? = some e[b] := List.getElem?_eq_getElem (by omega)
  have h1 : e[b + 1]? = some e[b + 1] := List.getElem?_eq_getElem hb
  simp [inBin, h0, h1]

theorem digitizeF_eq_iff (e : List Rat) (he : e.Pairwise (· ≤ ·)) (f : Freq) (b : Nat) (hb : b + 1 < e.length) :
    digitizeF e f = b + 1 ↔ inBin e b f = true := by
  cases f with
  | none => simp [digitizeF, inBin]; omega
  | some v => rw [inBin_some e b v hb]; exact digitize_spec e he v b hb

theorem binIdx_eq_some_iff (e : List Rat) (he : e.Pairwise (· ≤ ·)) (f : Freq) (b : Nat) :
    binIdx e f = some b ↔ inBin e b f = true := by
  by_cases hb : b + 1 < e.length
  · rw [← digitizeF_eq_iff e he f b hb]
    unfold binIdx
    simp only []
    split <;> simp <;> omega
  · constructor
    · intro h
      unfold binIdx at h
      simp only [] at h
      split at h <;> simp at h
      omega
    · intro h; exact absurd (inBin_lt h) hb

theorem binIdx_lt {e : List Rat} {f : Freq} {b : Nat} (h : binIdx e f = some b) : b < e.length - 1 := by
  unfold binIdx at h
  simp only [] at h
  split at h <;> simp at h
  omega

theorem tab_congr {α : Type} (nr nc : Nat) (g h : Nat → Nat → α) (hgh : ∀ r c, r < nr → c < nc → g r c = h r c) :
    tab nr nc g = tab nr nc h := by
  unfold tab
  apply List.map_congr_left
  intro r hr
  apply List.map_congr_left
  intro c hc
  exact hgh r c (List.mem_range.mp hr) (List.mem_range.mp hc)

theorem zerosMat_eq_tab (nr nc : Nat) : zerosMat nr nc = tab nr nc fun _ _ => 0 := by
  unfold zerosMat tab
  apply List.ext_getElem <;> simp
  intro i h1
  apply List.ext_getElem <;> simp

theorem addAt_tab (nr nc : Nat) (g : Nat → Nat → Rat) (x : Trip) :
    addAt (tab nr nc g) x =
      tab nr nc fun r c => g r c + (if decide (x.row = r) && decide (x.col = c) then x.val else 0) := by
  unfold addAt tab
  apply List.ext_getElem
  · simp
  · intro i h1 h2
    simp only [List.length_modify, List.length_map, List.length_range] at h1
    rw [List.getElem_modify]
    simp only [List.getElem_map, List.getElem_range]
    split
    · apply List.ext_getElem
      · simp
      · intro j h3 h4
        simp only [List.length_modify, List.length_map, List.length_range] at h3
        rw [List.getElem_modify]
        simp only [List.getElem_map, List.getElem_range]
        split <;> simp_all [Rat.add_zero]
    · apply List.ext_getElem
      · simp
      · intro j h3 h4
        simp_all [Rat.add_zero]

theorem sumP_nil (p : Trip → Bool) : sumP p [] = 0 := rfl

theorem sumP_cons (p : Trip → Bool) (x : Trip) (ts : List Trip) :
    sumP p (x :: ts) = (if p x then x.val else 0) + sumP p ts := rfl

theorem sumP_append (p : Trip → Bool) (a b : List Trip) : sumP p (a ++ b) = sumP p a + sumP p b := by
  simp [sumP]

theorem foldl_addAt_tab (nr nc : Nat) (ts : List Trip) (g : Nat → Nat → Rat) :
    ts.foldl addAt (tab nr nc g) = tab nr nc fun r c => g r c + sumIf ts r c := by
  induction ts generalizing g with
  | nil => simp [sumIf, sumP_nil, Rat.add_zero]
  | cons x xs ih =>
    rw [List.foldl_cons, addAt_tab, ih]
    apply tab_congr
    intro r c _ _
    simp only [sumIf, sumP_cons, Rat.add_assoc]

/-- scatter-add = table of per-cell sums of the triplets (duplicates accumulate) -/
theorem toDense_eq_tab (nr nc : Nat) (ts : List Trip) : toDense nr nc ts = tab nr nc (sumIf ts) := by
  unfold toDense
  rw [zerosMat_eq_tab, foldl_addAt_tab]
  apply tab_congr
  intro r c _ _
  exact Rat.zero_add _

theorem sumP_eq_zero (p : Trip → Bool) (ts : List Trip) (h : ∀ x ∈ ts, p x = false) : sumP p ts = 0 := by
  induction ts with
  | nil => rfl
  | cons x xs ih =>
    rw [sumP_cons, h x (List.mem_cons_self), ih (fun y hy => h y (List.mem_cons_of_mem _ hy))]
    simp [Rat.add_zero]

/-- The entries selected by `p` all carry the time index `t` in their key `k`, and time row `t'`
    only emits entries with key `t'`: the selected sum only sees time row `t`. -/
theorem sumP_cooFrom {ρ : Type} (mk : Nat → ρ → List Trip) (p : Trip → Bool) (k : Trip → Nat) (t : Nat)
    (hp : ∀ x, p x = true → k x = t) (hmk : ∀ t' r x, x ∈ mk t' r → k x = t') :
    ∀ (t0 : Nat) (rows : List ρ), sumP p (cooFrom mk t0 rows) =
      if t0 ≤ t then ((rows[t - t0]?).map fun r => sumP p (mk t r)).getD 0 else 0 := by
  intro t0 rows
  induction rows generalizing t0 with
  | nil => simp [cooFrom, sumP_nil]
  | cons r rs ih =>
    rw [cooFrom, sumP_append, ih (t0 + 1)]
    by_cases h1 : t0 = t
    · subst h1
      have h2 : ¬ t0 + 1 ≤ t0 := by omega
      simp only [h2, ite_false, Nat.le_refl, ite_true, Nat.sub_self, List.getElem?_cons_zero, Rat.add_zero,
        Option.map_some, Option.getD_some]
    · have hz : sumP p (mk t0 r) = 0 := by
        apply sumP_eq_zero
        intro x hx
        cases hpx : p x with
        | false => rfl
        | true => exact absurd ((hmk t0 r x hx).symm.trans (hp x hpx)) h1
      rw [hz, Rat.zero_add]
      by_cases h2 : t0 + 1 ≤ t
      · have h3 : t0 ≤ t := by omega
        have h4 : t - t0 = (t - (t0 + 1)) + 1 := by omega
        simp only [h2, h3, ite_true]
        rw [h4, List.getElem?_cons_succ]
      · have h3 : ¬ t0 ≤ t := by omega
        simp [h2, h3]

theorem map_range_getElem? {α β : Type} (l : List α) (f : α → β) (d : β) :
    ((List.range l.length).map fun t => ((l[t]?).map f).getD d) = l.map f := by
  apply List.ext_getElem
  · simp
  · intro i h1 h2
    simp at h1
    simp [List.getElem?_eq_getElem h1]

theorem hhtRowTrips_col {bin : Freq → Option Nat} {energy : Bool} {t : Nat} {r : HRow} {x : Trip}
    (h : x ∈ hhtRowTripsWith bin energy t r) : x.col = t := by
  unfold hhtRowTripsWith at h
  obtain ⟨fa, _, h2⟩ := List.mem_filterMap.mp h
  cases hb : bin fa.1 with
  | none => simp [hb] at h2
  | some b => simp [hb] at h2; rw [← h2]

theorem hhtRowTrips_row {e : List Rat} {energy : Bool} {t : Nat} {r : HRow} {x : Trip}
    (h : x ∈ hhtRowTrips e energy t r) : x.row < e.length - 1 := by
  unfold hhtRowTrips hhtRowTripsWith at h
  obtain ⟨fa, _, h2⟩ := List.mem_filterMap.mp h
  cases hb : binIdx e fa.1 with
  | none => simp [hb] at h2
  | some b => simp [hb] at h2; rw [← h2]; exact binIdx_lt hb

/-- the weight one time row sends to cell `(b, t)` is the indicator sum of the spec -/
theorem sumIf_hhtRowTrips (e : List Rat) (he : e.Pairwise (· ≤ ·)) (energy : Bool) (t : Nat) (r : HRow) (b : Nat) :
    sumIf (hhtRowTrips e energy t r) b t = rowSpec e energy r b := by
  unfold hhtRowTrips hhtRowTripsWith rowSpec sumIf
  induction List.zip r.1 r.2 with
  | nil => rfl
  | cons fa rest ih =>
    rw [List.filterMap_cons]
    cases hb : binIdx e fa.1 with
    | none =>
      have : inBin e b fa.1 = false := by
        cases h : inBin e b fa.1 with
        | false => rfl
        | true => rw [(binIdx_eq_some_iff e he fa.1 b).mpr h] at hb; cases hb
      simp only [Option.map_none, List.map_cons, List.sum_cons, this, ih]
      simp [Rat.zero_add]
    | some b' =>
      simp only [Option.map_some, sumP_cons, List.map_cons, List.sum_cons, ih]
      congr 1
      by_cases hbb : b' = b
      · subst hbb
        simp [(binIdx_eq_some_iff e he fa.1 b').mp hb]
      · have : inBin e b fa.1 = false := by
          cases h : inBin e b fa.1 with
          | false => rfl
          | true =>
            rw [(binIdx_eq_some_iff e he fa.1 b).mpr h] at hb
            exact absurd (Option.some.inj hb).symm hbb
        simp [hbb, this]

theorem sumIf_hhtCoo (e : List Rat) (he : e.Pairwise (· ≤ ·)) (energy : Bool) (F : List (List Freq))
    (A : List (List Rat)) (b t : Nat) :
    sumIf (hhtCoo e energy F A) b t =
      (((List.zip F A)[t]?).map fun r => rowSpec e energy r b).getD 0 := by
  unfold hhtCoo sumIf
  rw [sumP_cooFrom (hhtRowTrips e energy) _ (·.col) t (by intro x hx; simp at hx; exact hx.2)
    (fun t' r x hx => hhtRowTrips_col hx) 0 (List.zip F A)]
  simp only [Nat.zero_le, ite_true, Nat.sub_zero]
  cases (List.zip F A)[t]? with
  | none => rfl
  | some r => exact sumIf_hhtRowTrips e he energy t r b

/-- Σ_{j<M} g(l[j]) = Σ_{x∈l} g x  when `l` has at most `M` entries -/
theorem sum_range_getElem? {α : Type} (l : List α) (g : α → Rat) (M : Nat) (h : l.length ≤ M) :
    ((List.range M).map fun j => ((l[j]?).map g).getD 0).sum = (l.map g).sum := by
  induction l generalizing M with
  | nil => simp [sum_map_zero]
  | cons x xs ih =>
    cases M with
    | zero => simp at h
    | succ M' =>
      rw [List.range_succ_eq_map]
      simp only [List.map_cons, List.sum_cons, List.getElem?_cons_zero, List.map_map]
      congr 1
      have := ih M' (by simpa using h)
      rw [← this]
      apply sum_map_congr
      intro j _
      simp

theorem sum_range_ite_eq (n d : Nat) (w : Rat) :
    ((List.range n).map fun b => if d = b + 1 then w else 0).sum = if 1 ≤ d ∧ d ≤ n then w else 0 := by
  induction n with
  | zero => simp; omega
  | succ n ih =>
    rw [List.range_succ, List.map_append, sum_append, ih]
    simp only [List.map_cons, List.map_nil, List.sum_cons, List.sum_nil, Rat.add_zero]
    by_cases h1 : d = n + 1
    · have h3 : ¬ (1 ≤ d ∧ d ≤ n) := by omega
      have h2 : 1 ≤ d ∧ d ≤ n + 1 := by omega
      rw [if_neg h3, if_pos h1, if_pos h2, Rat.zero_add]
    · by_cases h2 : 1 ≤ d ∧ d ≤ n
      · have h3 : 1 ≤ d ∧ d ≤ n + 1 := by omega
        simp [h1, h2, h3, Rat.add_zero]
      · have h3 : ¬ (1 ≤ d ∧ d ≤ n + 1) := by omega
        simp [h1, h2, h3, Rat.add_zero]

theorem sum_range_ite_lt (n k : Nat) (w : Rat) :
    ((List.range n).map fun c => if k = c then w else 0).sum = if k < n then w else 0 := by
  induction n with
  | zero => simp
  | succ n ih =>
    rw [List.range_succ, List.map_append, sum_append, ih]
    simp only [List.map_cons, List.map_nil, List.sum_cons, List.sum_nil, Rat.add_zero]
    by_cases h1 : k = n
    · simp [h1, Rat.zero_add]
    · by_cases h2 : k < n
      · have : k < n + 1 := by omega
        simp [h1, h2, this, Rat.add_zero]
      · have : ¬ k < n + 1 := by omega
        simp [h1, h2, this, Rat.add_zero]

theorem getElem_le_of_sorted (e : List Rat) (he : e.Pairwise (· ≤ ·)) (i j : Nat) (hij : i ≤ j) (hj : j < e.length) :
    e[i] ≤ e[j] := by
  by_cases h : i = j
  · subst h; exact Rat.le_refl
  · exact (List.pairwise_iff_getElem.mp he) i j (by omega) hj (by omega)

theorem head?_eq_getElem (e : List Rat) (h : 0 < e.length) : e.head? = some e[0] := by
  cases e with
  | nil => simp at h
  | cons a t => rfl

theorem getLast?_eq_getElem' (e : List Rat) (h : 0 < e.length) : e.getLast? = some (e[e.length - 1]) := by
  rw [List.getLast?_eq_getElem?, List.getElem?_eq_getElem]

/-- in range ⇔ the digitised index names an existing bin -/
theorem inRange_iff (e : List Rat) (he : e.Pairwise (· ≤ ·)) (f : Freq) :
    inRange e f = true ↔ 1 ≤ digitizeF e f ∧ digitizeF e f ≤ e.length - 1 := by
  cases f with
  | none =>
    simp only [inRange, digitizeF]
    constructor
    · intro h; cases h
    · intro h; cases e <;> simp at h <;> omega
  | some v =>
    by_cases hl : 0 < e.length
    · simp only [inRange, digitizeF, head?_eq_getElem e hl, getLast?_eq_getElem' e hl, Bool.and_eq_true,
        decide_eq_true_eq]
      have h0 := lt_digitize_iff e he v 0 hl
      have h1 := lt_digitize_iff e he v (e.length - 1) (by omega)
      have h2 : v < e[e.length - 1] ↔ ¬ e[e.length - 1] ≤ v := by grind
      rw [h2, ← h0, ← h1]
      omega
    · have : e = [] := by cases e <;> simp_all
      subst this
      simp [inRange, digitizeF, digitize]

/-- each sample is counted in exactly one bin when in range and in none otherwise (weighted form) -/
theorem sum_bins_inBin (e : List Rat) (he : e.Pairwise (· ≤ ·)) (f : Freq) (w : Rat) :
    ((List.range (e.length - 1)).map fun b => if inBin e b f then w else 0).sum =
      if inRange e f then w else 0 := by
  have h1 : ((List.range (e.length - 1)).map fun b => if inBin e b f then w else 0).sum =
      ((List.range (e.length - 1)).map fun b => if digitizeF e f = b + 1 then w else 0).sum := by
    apply sum_map_congr
    intro b hb
    have hb' : b + 1 < e.length := by have := List.mem_range.mp hb; omega
    have := digitizeF_eq_iff e he f b hb'
    by_cases h : inBin e b f = true
    · simp [h, this.mpr h]
    · have h' : ¬ digitizeF e f = b + 1 := fun hd => h (this.mp hd)
      simp [h, h']
  rw [h1, sum_range_ite_eq]
  have := inRange_iff e he f
  by_cases h : inRange e f = true
  · simp [h, this.mp h]
  · have h' : ¬ (1 ≤ digitizeF e f ∧ digitizeF e f ≤ e.length - 1) := fun hd => h (this.mpr hd)
    simp [h, h']

/-- SPEC of one cell of the 1-D spectrum: Σ_t w(a[t][j])·[f[t][j] ∈ bin b] -/
def hht1dSpecCell (e : List Rat) (energy : Bool) (rows : List HRow) (b j : Nat) : Rat :=
  (rows.map fun r =>
    (((List.zip r.1 r.2)[j]?).map fun fa => if inBin e b fa.1 then weight energy fa.2 else 0).getD 0).sum

/-- SPEC of the 1-D spectrum `[bins × IMFs]` -/
def hht1dSpec (e : List Rat) (energy : Bool) (ncols : Nat) (F : List (List Freq)) (A : List (List Rat)) :
    List (List Rat) :=
  (List.range (e.length - 1)).map fun b =>
    (List.range ncols).map fun j => hht1dSpecCell e energy (List.zip F A) b j

/-- NaN-ing the out-of-range samples and digitising selects exactly the samples of the bin -/
theorem digitizeF_nanOut_iff (e : List Rat) (he : e.Pairwise (· ≤ ·)) (f : Freq) (b : Nat) (hb : b + 1 < e.length) :
    digitizeF e (nanOut e f) = b + 1 ↔ inBin e b f = true := by
  cases f with
  | none => simp [nanOut, digitizeF, inBin]; omega
  | some v =>
    have hl : 0 < e.length := by omega
    simp only [nanOut, head?_eq_getElem e hl, getLast?_eq_getElem' e hl]
    split
    · rename_i hout
      have h1 := getElem_le_of_sorted e he 0 b (by omega) (by omega)
      have h2 := getElem_le_of_sorted e he (b + 1) (e.length - 1) (by omega) (by omega)
      rw [inBin_some e b v hb]
      simp only [digitizeF]
      constructor
      · intro h; omega
      · intro h; exfalso; grind
    · exact digitizeF_eq_iff e he (some v) b hb

theorem hht1dCell_eq_spec (e : List Rat) (he : e.Pairwise (· ≤ ·)) (energy : Bool) (rows : List HRow)
    (b j : Nat) (hb : b + 1 < e.length) : hht1dCell e energy rows b j = hht1dSpecCell e energy rows b j := by
  unfold hht1dCell hht1dSpecCell
  apply sum_map_congr
  intro r _
  cases (List.zip r.1 r.2)[j]? with
  | none => rfl
  | some fa =>
    have := digitizeF_nanOut_iff e he fa.1 b hb
    by_cases h : inBin e b fa.1 = true
    · simp [h, this.mpr h]
    · have h' : ¬ digitizeF e (nanOut e fa.1) = b + 1 := fun hd => h (this.mp hd)
      simp [h, h']

theorem mem_cooFrom {ρ : Type} (mk : Nat → ρ → List Trip) (x : Trip) :
    ∀ (t0 : Nat) (rows : List ρ), x ∈ cooFrom mk t0 rows → ∃ i r, rows[i]? = some r ∧ x ∈ mk (t0 + i) r := by
  intro t0 rows
  induction rows generalizing t0 with
  | nil => simp [cooFrom]
  | cons r rs ih =>
    intro h
    rw [cooFrom, List.mem_append] at h
    rcases h with h | h
    · exact ⟨0, r, rfl, by simpa using h⟩
    · obtain ⟨i, r', h1, h2⟩ := ih (t0 + 1) h
      refine ⟨i + 1, r', by simpa using h1, ?_⟩
      have : t0 + (i + 1) = t0 + 1 + i := by omega
      rw [this]; exact h2

theorem cooFrom_map {ρ σ : Type} (mk : Nat → σ → List Trip) (h : ρ → σ) :
    ∀ (t0 : Nat) (rows : List ρ), cooFrom mk t0 (rows.map h) = cooFrom (fun t r => mk t (h r)) t0 rows := by
  intro t0 rows
  induction rows generalizing t0 with
  | nil => rfl
  | cons r rs ih => simp [cooFrom, ih]

theorem cooFrom_congr {ρ : Type} (mk mk' : Nat → ρ → List Trip) (h : ∀ t r, mk t r = mk' t r) :
    ∀ (t0 : Nat) (rows : List ρ), cooFrom mk t0 rows = cooFrom mk' t0 rows := by
  intro t0 rows
  induction rows generalizing t0 with
  | nil => rfl
  | cons r rs ih => simp [cooFrom, ih, h]

/-- total of a table of per-cell sums = total of the entries that lie inside the table -/
theorem sum_tab_sumIf (nr nc : Nat) (ts : List Trip) :
    ((tab nr nc (sumIf ts)).map List.sum).sum =
      (ts.map fun x => if x.row < nr ∧ x.col < nc then x.val else 0).sum := by
  unfold tab sumIf sumP
  simp only [List.map_map, Function.comp_def]
  -- Σ_r Σ_c Σ_x → Σ_x Σ_r Σ_c
  have h1 : ∀ r, ((List.range nc).map fun c =>
        (ts.map fun x => if (decide (x.row = r) && decide (x.col = c)) = true then x.val else 0).sum).sum =
      (ts.map fun x => ((List.range nc).map fun c =>
        if (decide (x.row = r) && decide (x.col = c)) = true then x.val else 0).sum).sum :=
    fun r => sum_map_comm _ _ _
  simp only [h1]
  rw [sum_map_comm]
  apply sum_map_congr
  intro x _
  have h2 : ∀ r, ((List.range nc).map fun c =>
        if (decide (x.row = r) && decide (x.col = c)) = true then x.val else 0).sum =
      if x.row = r then (if x.col < nc then x.val else 0) else 0 := by
    intro r
    by_cases hr : x.row = r
    · simp only [hr, decide_true, Bool.true_and, decide_eq_true_eq, ite_true]
      exact sum_range_ite_lt nc x.col x.val
    · simp [hr, sum_map_zero]
  simp only [h2]
  rw [sum_range_ite_lt]
  by_cases h3 : x.row < nr <;> by_cases h4 : x.col < nc <;> simp [h3, h4]

theorem binIdx_isSome_iff (e : List Rat) (he : e.Pairwise (· ≤ ·)) (f : Freq) :
    (binIdx e f).isSome = inRange e f := by
  have h := inRange_iff e he f
  have : (binIdx e f).isSome = true ↔ inRange e f = true := by
    rw [h]
    unfold binIdx
    simp only []
    split <;> simp <;> omega
  cases h1 : (binIdx e f).isSome <;> cases h2 : inRange e f <;> simp_all

theorem length_cooFrom {ρ : Type} (mk : Nat → ρ → List Trip) (n : ρ → Nat) (h : ∀ t r, (mk t r).length = n r) :
    ∀ (t0 : Nat) (rows : List ρ), (cooFrom mk t0 rows).length = (rows.map n).sum := by
  intro t0 rows
  induction rows generalizing t0 with
  | nil => rfl
  | cons r rs ih => simp [cooFrom, ih, h]

theorem length_hhtRowTrips (e : List Rat) (he : e.Pairwise (· ≤ ·)) (energy : Bool) (t : Nat) (r : HRow) :
    (hhtRowTrips e energy t r).length = (List.zip r.1 r.2).countP fun fa => inRange e fa.1 := by
  unfold hhtRowTrips hhtRowTripsWith
  induction List.zip r.1 r.2 with
  | nil => rfl
  | cons fa rest ih =>
    rw [List.filterMap_cons, List.countP_cons, ← binIdx_isSome_iff e he fa.1]
    cases hb : binIdx e fa.1 with
    | none => simp [ih]
    | some b => simp [ih]

end Spectra
