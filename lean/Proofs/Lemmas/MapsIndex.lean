/- Helper lemmas about the maps and projections of EmdModel.Maps under well-formed inputs. -/
import Proofs.Lemmas.MapsCtor

namespace Maps

/-- A well-formed cycle vector with K cycles: labels -1 or 0..K-1, every label used, labels
    non-decreasing along the recording, each label one contiguous block; -1 gaps anywhere. -/
structure WF (cv : List Int) (K : Nat) : Prop where
  range : ∀ l ∈ cv, -1 ≤ l ∧ l < (K : Int)
  occurs : ∀ k : Nat, k < K → (k : Int) ∈ cv
  ordered : ∀ (i j : Nat) (a b : Int), i ≤ j → cv[i]? = some a → cv[j]? = some b →
    0 ≤ a → 0 ≤ b → a ≤ b
  contiguous : ∀ (i m j : Nat) (a : Int), i ≤ m → m ≤ j → cv[i]? = some a → cv[j]? = some a →
    0 ≤ a → cv[m]? = some a

/-- value carried to an item whose forward map is `r` -/
def valAt (vals : Vals) (r : Option Nat) : Option Rat := r.bind fun k => (vals[k]?).join

/-- the cycle named by subset index j (meaningful when exactly one cycle carries j) -/
def cycleOf (sv : List Int) (j : Nat) : Nat := (whereEq sv j).headD 0

/-! ### subset vector facts in terms of the maps -/

theorem subset_lookup_lt (valids : List Bool) (k j : Nat)
    (h : (subsetVector valids)[k]? = some (j : Int)) : j < valids.count true := by
  rw [← nLabels_subsetVector]
  exact lt_nLabels_of_mem _ j (List.mem_of_getElem? h)

theorem subset_singleton (valids : List Bool) (j : Nat) (hj : j < valids.count true) :
    whereEq (subsetVector valids) j = [cycleOf (subsetVector valids) j] := by
  obtain ⟨k, hk⟩ := whereFrom_subsetFrom_mid 0 0 valids j (by omega) (by omega)
  unfold cycleOf whereEq subsetVector
  rw [hk]; rfl

theorem subset_none_of_ge (valids : List Bool) (j : Nat) (hj : valids.count true ≤ j) :
    whereEq (subsetVector valids) j = [] :=
  whereFrom_subsetFrom_ge 0 0 valids j (by omega)

theorem cycleOf_eq (valids : List Bool) (k j : Nat)
    (h : (subsetVector valids)[k]? = some (j : Int)) : cycleOf (subsetVector valids) j = k := by
  have hj := subset_lookup_lt valids k j h
  have hm : k ∈ whereEq (subsetVector valids) j := (mem_whereEq _ j k).mpr h
  rw [subset_singleton valids j hj] at hm
  simp at hm
  exact hm.symm

theorem subset_cycleOf (valids : List Bool) (j : Nat) (hj : j < valids.count true) :
    (subsetVector valids)[cycleOf (subsetVector valids) j]? = some (j : Int) := by
  have : cycleOf (subsetVector valids) j ∈ whereEq (subsetVector valids) j := by
    rw [subset_singleton valids j hj]; simp
  exact (mem_whereEq _ _ _).mp this

theorem subset_entry (valids : List Bool) (k : Nat) (hk : k < valids.length) :
    (subsetVector valids)[k]? =
      some (if valids[k]! then (((valids.take k).count true : Nat) : Int) else -1) := by
  unfold subsetVector
  rw [subsetFrom_getElem?]
  simp [List.getElem?_eq_getElem hk, getElem!_pos valids k hk]

/-! ### chain vector facts -/

theorem chain_length (valids : List Bool) :
    (chainVector (subsetVector valids)).length = valids.count true := by
  rw [chainVector_length]
  exact selectedFrom_subsetFrom_length 0 0 valids

theorem chain_lookup (sv : List Int) (j : Nat) (c : Int) (h : (chainVector sv)[j]? = some c) :
    0 ≤ c ∧ c.toNat < nLabels (chainVector sv) ∧ j ∈ whereEq (chainVector sv) c.toNat := by
  have hm := List.mem_of_getElem? h
  have h0 := chainVector_nonneg sv c hm
  have hc : ((c.toNat : Nat) : Int) = c := by omega
  refine ⟨h0, lt_nLabels_of_mem _ _ (by rw [hc]; exact hm), ?_⟩
  rw [mem_whereEq, hc]; exact h

/-! ### squeeze / hstack -/

theorem singletons?_map (L : List (List Nat)) (h : ∀ l ∈ L, ∃ k, l = [k]) :
    singletons? L = some (L.map (·.headD 0)) := by
  induction L with
  | nil => rfl
  | cons l t ih =>
    obtain ⟨k, rfl⟩ := h l (by simp)
    simp only [singletons?, ih (fun l hl => h l (List.mem_cons_of_mem _ hl))]
    rfl

theorem collect_map (f : Nat → Except Err (List Nat)) (g : Nat → List Nat) (js : List Nat)
    (h : ∀ j ∈ js, f j = .ok (g j)) : collect (js.map f) = .ok (js.flatMap g) := by
  induction js with
  | nil => rfl
  | cons j t ih =>
    simp only [List.map_cons, h j (by simp), collect, ih (fun j hj => h j (List.mem_cons_of_mem _ hj))]
    simp

/-! ### projections -/

theorem assignAt_length (out : Vals) (inds : List Nat) (v : Option Rat) :
    (assignAt out inds v).length = out.length := by
  unfold assignAt
  induction inds generalizing out with
  | nil => rfl
  | cons i t ih => simp [ih]

theorem assignAt_getElem? (out : Vals) (inds : List Nat) (v : Option Rat) (i : Nat)
    (hi : i < out.length) :
    (assignAt out inds v)[i]? = if i ∈ inds then some v else out[i]? := by
  unfold assignAt
  induction inds generalizing out with
  | nil => simp
  | cons j t ih =>
    simp only [List.foldl_cons]
    rw [ih (out.set j v) (by simpa using hi)]
    by_cases h1 : i ∈ t
    · simp [h1]
    · by_cases h2 : j = i
      · subst h2; simp [h1, hi]
      · have : ¬ i = j := fun h => h2 h.symm
        simp [h1, this, h2]

theorem foldl_assign (v : List Int) (val : Nat → Option Rat) (ks : List Nat) (out : Vals)
    (i : Nat) (l : Int) (hv : v[i]? = some l) (hlen : i < out.length) :
    (ks.foldl (fun o k => assignAt o (whereEq v k) (val k)) out)[i]? =
      if ∃ k ∈ ks, (k : Int) = l then some (val l.toNat) else out[i]? := by
  induction ks generalizing out with
  | nil => simp
  | cons k t ih =>
    simp only [List.foldl_cons]
    rw [ih (assignAt out (whereEq v k) (val k)) (by rw [assignAt_length]; exact hlen)]
    rw [assignAt_getElem? _ _ _ _ hlen]
    by_cases h1 : ∃ k' ∈ t, (k' : Int) = l
    · have : ∃ k' ∈ k :: t, (k' : Int) = l := by
        obtain ⟨k', a, b⟩ := h1; exact ⟨k', List.mem_cons_of_mem _ a, b⟩
      rw [if_pos h1, if_pos this]
    · rw [if_neg h1]
      by_cases h2 : (k : Int) = l
      · have hm : i ∈ whereEq v k := by rw [mem_whereEq, h2]; exact hv
        have : ∃ k' ∈ k :: t, (k' : Int) = l := ⟨k, by simp, h2⟩
        rw [if_pos hm, if_pos this]
        have : l.toNat = k := by omega
        rw [this]
      · have hm : ¬ i ∈ whereEq v k := by
          rw [mem_whereEq, hv]; intro h; injection h with h; exact h2 h.symm
        have : ¬ ∃ k' ∈ k :: t, (k' : Int) = l := by
          rintro ⟨k', a, b⟩
          rcases List.mem_cons.mp a with rfl | a
          · exact h2 b
          · exact h1 ⟨k', a, b⟩
        rw [if_neg hm, if_neg this]

theorem projectLoop_length (lookup : Nat → List Nat) (n : Nat) (vals : Vals) :
    (projectLoop lookup n vals).length = n := by
  unfold projectLoop
  generalize hks : List.range vals.length = ks
  have : ∀ (out : Vals), (ks.foldl (fun out k => assignAt out (lookup k) (vals[k]?).join) out).length
      = out.length := by
    clear hks
    induction ks with
    | nil => intro out; rfl
    | cons k t ih => intro out; simp only [List.foldl_cons]; rw [ih, assignAt_length]
  rw [this]; simp

/-- the projection loop over `np.where(v == k)` puts on item i the value of i's own label,
    and leaves NaN when i has no label or the value vector is too short -/
theorem projectLoop_spec (v : List Int) (vals : Vals) (i : Nat) (l : Int) (hv : v[i]? = some l) :
    (projectLoop (whereEq v) v.length vals)[i]? = some (valAt vals (label? l)) := by
  have hi : i < v.length := (List.getElem?_eq_some_iff.mp hv).1
  unfold projectLoop
  rw [foldl_assign v (fun k => (vals[k]?).join) _ _ i l hv (by simpa using hi)]
  unfold valAt label?
  by_cases h : ∃ k ∈ List.range vals.length, (k : Int) = l
  · rw [if_pos h]
    obtain ⟨k, _, hk⟩ := h
    have : -1 < l := by omega
    simp [this]
  · rw [if_neg h]
    simp only [List.getElem?_replicate, hi, if_true]
    split
    · rename_i hl
      have : ¬ l.toNat < vals.length := by
        intro hlt
        exact h ⟨l.toNat, List.mem_range.mpr hlt, by omega⟩
      simp [List.getElem?_eq_none (Nat.le_of_not_lt this)]
    · simp

theorem projectLoop_none_of_ge (v : List Int) (vals : Vals) (i : Nat) (h : v.length ≤ i) :
    (projectLoop (whereEq v) v.length vals)[i]? = none := by
  apply List.getElem?_eq_none
  rw [projectLoop_length]; exact h

end Maps

namespace Maps

theorem getElem?_eq_some_bang (v : List Int) (i : Nat) (a : Int) (h : v[i]? = some a) :
    i < v.length ∧ v[i]! = a := by
  obtain ⟨hi, he⟩ := List.getElem?_eq_some_iff.mp h
  exact ⟨hi, by rw [getElem!_pos v i hi]; exact he⟩

/-- well-formedness from bounded (decidable) conditions -/
theorem wf_of_bounded (cv : List Int) (K : Nat)
    (h1 : ∀ l ∈ cv, -1 ≤ l ∧ l < (K : Int))
    (h2 : ∀ k < K, (k : Int) ∈ cv)
    (h3 : ∀ i < cv.length, ∀ j < cv.length, i ≤ j → 0 ≤ cv[i]! → 0 ≤ cv[j]! → cv[i]! ≤ cv[j]!)
    (h4 : ∀ i < cv.length, ∀ d < cv.length, ∀ e < cv.length,
      (cv[i]! = cv[i + d + e]! ∧ 0 ≤ cv[i]! ∧ i + d + e < cv.length) → cv[i + d]! = cv[i]!) :
    WF cv K := by
  refine ⟨h1, h2, ?_, ?_⟩
  · intro i j a b hij ha hb h0a h0b
    obtain ⟨hi, rfl⟩ := getElem?_eq_some_bang cv i a ha
    obtain ⟨hj, rfl⟩ := getElem?_eq_some_bang cv j b hb
    exact h3 i hi j hj hij h0a h0b
  · intro i m j a him hmj ha hb h0
    obtain ⟨hi, hia⟩ := getElem?_eq_some_bang cv i a ha
    obtain ⟨hj, hja⟩ := getElem?_eq_some_bang cv j a hb
    have hm : m < cv.length := by omega
    have e1 : i + (m - i) = m := by omega
    have e2 : i + (m - i) + (j - m) = j := by omega
    have := h4 i hi (m - i) (by omega) (j - m) (by omega)
      ⟨by rw [e2, hia, hja], by rw [hia]; exact h0, by omega⟩
    rw [e1] at this
    rw [List.getElem?_eq_getElem hm, ← getElem!_pos cv m hm, this, hia]

theorem mem_iff_getElem?_int (v : List Int) (a : Int) : a ∈ v ↔ ∃ i : Nat, v[i]? = some a :=
  List.mem_iff_getElem?

/-! ### decomposition of the composite forward maps -/

theorem sampleToSubset_some (sv cv : List Int) (i j : Nat) :
    mapSampleToSubset sv cv i = .ok (some j) ↔
      ∃ k : Nat, cv[i]? = some (k : Int) ∧ sv[k]? = some (j : Int) := by
  unfold mapSampleToSubset mapSampleToCycle mapCycleToSubset
  constructor
  · intro h
    split at h
    · cases h
    · cases h
    · rename_i k hk
      exact ⟨k, (lookupLabel_some cv i k).mp hk, (lookupLabel_some sv k j).mp h⟩
  · rintro ⟨k, h1, h2⟩
    rw [(lookupLabel_some cv i k).mpr h1]
    exact (lookupLabel_some sv k j).mpr h2

theorem sampleToSubset_none (sv cv : List Int) (i : Nat) :
    mapSampleToSubset sv cv i = .ok none ↔
      (∃ l, cv[i]? = some l ∧ l ≤ -1) ∨
      (∃ (k : Nat) (s : Int), cv[i]? = some (k : Int) ∧ sv[k]? = some s ∧ s ≤ -1) := by
  unfold mapSampleToSubset mapSampleToCycle mapCycleToSubset
  constructor
  · intro h
    split at h
    · cases h
    · rename_i hk
      obtain ⟨l, h1, h2⟩ := (lookupLabel_ok cv i none).mp hk
      exact Or.inl ⟨l, h1, (label?_eq_none l).mp h2⟩
    · rename_i k hk
      obtain ⟨s, h1, h2⟩ := (lookupLabel_ok sv k none).mp h
      exact Or.inr ⟨k, s, (lookupLabel_some cv i k).mp hk, h1, (label?_eq_none s).mp h2⟩
  · rintro (⟨l, h1, h2⟩ | ⟨k, s, h1, h2, h3⟩)
    · rw [(lookupLabel_ok cv i none).mpr ⟨l, h1, (label?_eq_none l).mpr h2⟩]
    · rw [(lookupLabel_some cv i k).mpr h1]
      exact (lookupLabel_ok sv k none).mpr ⟨s, h2, (label?_eq_none s).mpr h3⟩

theorem cycleToChain_some (ch sv : List Int) (k : Nat) (c : Int) :
    mapCycleToChain ch sv k = .ok (some c) ↔
      ∃ j : Nat, sv[k]? = some (j : Int) ∧ ch[j]? = some c := by
  unfold mapCycleToChain mapCycleToSubset mapSubsetToChain
  constructor
  · intro h
    split at h
    · cases h
    · cases h
    · rename_i j hj
      cases hc : ch[j]? with
      | none => simp [hc] at h
      | some c' =>
        simp [hc] at h
        exact ⟨j, (lookupLabel_some sv k j).mp hj, by rw [← h]; exact hc⟩
  · rintro ⟨j, h1, h2⟩
    rw [(lookupLabel_some sv k j).mpr h1]
    simp [h2]

theorem cycleToChain_none (ch sv : List Int) (k : Nat) :
    mapCycleToChain ch sv k = .ok none ↔ ∃ s, sv[k]? = some s ∧ s ≤ -1 := by
  unfold mapCycleToChain mapCycleToSubset mapSubsetToChain
  constructor
  · intro h
    split at h
    · cases h
    · rename_i hk
      obtain ⟨s, h1, h2⟩ := (lookupLabel_ok sv k none).mp hk
      exact ⟨s, h1, (label?_eq_none s).mp h2⟩
    · rename_i j hj
      cases hc : ch[j]? <;> simp [hc] at h
  · rintro ⟨s, h1, h2⟩
    rw [(lookupLabel_ok sv k none).mpr ⟨s, h1, (label?_eq_none s).mpr h2⟩]

theorem sampleToChain_some (ch sv cv : List Int) (i : Nat) (c : Int) :
    mapSampleToChain ch sv cv i = .ok (some c) ↔
      ∃ k j : Nat, cv[i]? = some (k : Int) ∧ sv[k]? = some (j : Int) ∧ ch[j]? = some c := by
  unfold mapSampleToChain mapSubsetToChain
  constructor
  · intro h
    split at h
    · cases h
    · cases h
    · rename_i j hj
      obtain ⟨k, h1, h2⟩ := (sampleToSubset_some sv cv i j).mp hj
      cases hc : ch[j]? with
      | none => simp [hc] at h
      | some c' =>
        simp [hc] at h
        exact ⟨k, j, h1, h2, by rw [← h]; exact hc⟩
  · rintro ⟨k, j, h1, h2, h3⟩
    rw [(sampleToSubset_some sv cv i j).mpr ⟨k, h1, h2⟩]
    simp [h3]

theorem sampleToChain_none (ch sv cv : List Int) (i : Nat) :
    mapSampleToChain ch sv cv i = .ok none ↔ mapSampleToSubset sv cv i = .ok none := by
  unfold mapSampleToChain mapSubsetToChain
  constructor
  · intro h
    split at h
    · cases h
    · rename_i hk; exact hk
    · rename_i j hj
      cases hc : ch[j]? <;> simp [hc] at h
  · intro h; rw [h]

end Maps

namespace Maps

/-- the m-th selected cycle is the cycle named by subset index m -/
theorem selected_cycleOf (valids : List Bool) (m : Nat) (hm : m < valids.count true) :
    (selected (subsetVector valids))[m]? = some (cycleOf (subsetVector valids) m) := by
  have hlen : (selected (subsetVector valids)).length = valids.count true :=
    selectedFrom_subsetFrom_length 0 0 valids
  have hm' : m < (selected (subsetVector valids)).length := by omega
  have h1 := List.getElem?_eq_getElem hm'
  have h2 := selectedFrom_subsetFrom_getElem? 0 0 valids m _ h1
  rw [h1]
  have : cycleOf (subsetVector valids) m = (selected (subsetVector valids))[m] := by
    unfold cycleOf whereEq subsetVector
    simp only [Nat.zero_add] at h2
    rw [h2]; rfl
  rw [this]

end Maps
