/- Helper lemmas about EmdModel.Container.step: what every operation leaves alone, independence
   from the cache flag, tracking of the derived `chain_ind` metric and of the selection. -/
import Proofs.Lemmas.ContainerInit

namespace Container

/-! ### frames -/

theorem computeMetric_frame (s : State) (name : Name) (vals : List Rat) (f : List Rat → Rat) (mode : Mode) :
    Frame s (computeMetric s name vals f mode).1 :=
  computeMetric_preserves (Frame s) _ _ _ _ _ (Frame.refl s) (fun _ => addMetric_frame _ _ _)

theorem computeChainMetric_frame (s : State) (name : Name) (vals : List Rat) (f : List Rat → Rat) (asInt : Bool) :
    Frame s (computeChainMetric s name vals f asInt).1 := by
  unfold computeChainMetric
  split
  · exact Frame.refl s
  · exact addMetric_frame _ _ _

theorem computePositionInChain_frame (s : State) : Frame s (computePositionInChain s).1 := by
  unfold computePositionInChain
  split <;> exact ⟨rfl, rfl, rfl, rfl, rfl⟩

theorem pickSubset_frame (F : List Char → Option Rat) (s : State) (conds : List Cond) : Frame s (pickSubset F s conds).1 := by
  unfold pickSubset
  split
  · exact Frame.refl s
  · exact Frame.trans ⟨rfl, rfl, rfl, rfl, rfl⟩ (addMetric_frame _ _ _)

theorem step_frame (F : List Char → Option Rat) (s : State) (op : Op) : Frame s (step F s op).1 := by
  cases op with
  | computeMetric name vals f mode => exact computeMetric_frame _ _ _ _ _
  | addMetric name vals => exact addMetric_frame _ _ _
  | addFromInt name src => exact addFromInt_preserves (Frame s) _ _ _ (Frame.refl s) (fun _ => addMetric_frame _ _ _)
  | computeTimings =>
    apply seqOps_frame
    intro o ho s'
    simp only [List.mem_cons, List.not_mem_nil, or_false] at ho
    rcases ho with rfl | rfl | rfl <;> exact computeMetric_frame _ _ _ _ _
  | pickSubset conds => exact pickSubset_frame F s conds
  | computeChainMetric name vals f asInt => exact computeChainMetric_frame _ _ _ _ _
  | computeChainTimings =>
    apply seqOps_frame
    intro o ho s'
    simp only [List.mem_cons, List.not_mem_nil, or_false] at ho
    rcases ho with rfl | rfl | rfl | rfl | rfl
    · exact computeChainMetric_frame _ _ _ _ _
    · exact computeChainMetric_frame _ _ _ _ _
    · exact computeChainMetric_frame _ _ _ _ _
    · exact computeChainMetric_frame _ _ _ _ _
    · exact computePositionInChain_frame _
  | «export» m => simp only [step]; split <;> exact Frame.refl s
  | «matching» conds => simp only [step]; split <;> exact Frame.refl s

/-! ### the `is_good` metric stays -/

theorem sset_good (m : Store) (name : Name) (v : List Val) (h : (sget m isGoodName).isSome = true) :
    (sget (sset m name v) isGoodName).isSome = true := by
  by_cases hn : isGoodName = name
  · subst hn; simp [sget_sset_same]
  · rw [sget_sset_other _ _ _ _ hn]; exact h

theorem computeChainMetric_good (s : State) (name : Name) (vals : List Rat) (f : List Rat → Rat) (asInt : Bool)
    (h : HasGood s) : HasGood (computeChainMetric s name vals f asInt).1 := by
  unfold computeChainMetric
  split
  · exact h
  · exact addMetric_good _ _ _ h

theorem computePositionInChain_good (s : State) (h : HasGood s) : HasGood (computePositionInChain s).1 := by
  unfold computePositionInChain
  split
  · exact h
  · exact sset_good _ _ _ h

theorem step_good (F : List Char → Option Rat) (s : State) (op : Op) (h : HasGood s) : HasGood (step F s op).1 := by
  cases op with
  | computeMetric name vals f mode => exact computeMetric_preserves HasGood _ _ _ _ _ h (fun _ => addMetric_good _ _ _ h)
  | addMetric name vals => exact addMetric_good _ _ _ h
  | addFromInt name src => exact addFromInt_preserves HasGood _ _ _ h (fun _ => addMetric_good _ _ _ h)
  | computeTimings =>
    apply seqOps_preserves HasGood _ _ s h
    intro o ho s' hs'
    simp only [List.mem_cons, List.not_mem_nil, or_false] at ho
    rcases ho with rfl | rfl | rfl <;>
      exact computeMetric_preserves HasGood _ _ _ _ _ hs' (fun _ => addMetric_good _ _ _ hs')
  | pickSubset conds =>
    simp only [step, pickSubset]
    split
    · exact h
    · exact addMetric_good _ _ _ h
  | computeChainMetric name vals f asInt => exact computeChainMetric_good _ _ _ _ _ h
  | computeChainTimings =>
    apply seqOps_preserves HasGood _ _ s h
    intro o ho s' hs'
    simp only [List.mem_cons, List.not_mem_nil, or_false] at ho
    rcases ho with rfl | rfl | rfl | rfl | rfl
    · exact computeChainMetric_good _ _ _ _ _ hs'
    · exact computeChainMetric_good _ _ _ _ _ hs'
    · exact computeChainMetric_good _ _ _ _ _ hs'
    · exact computeChainMetric_good _ _ _ _ _ hs'
    · exact computePositionInChain_good _ hs'
  | «export» m => simp only [step]; split <;> exact h
  | «matching» conds => simp only [step]; split <;> exact h

/-! ### the cache flag -/

theorem inv_setCache (b : Bool) (s : State) (h : Inv s) : Inv (setCache b s) := ⟨h.cv, h.lens, h.names, h.sel⟩

theorem cycleStat_any_cache (b b' : Bool) (mode : Mode) (f : List Rat → Rat) (thr : Rat) (ph : List Rat) {cv : List Int} {K : Nat}
    (h : CvOK cv K) (vals : List Rat) (hv : vals.length = cv.length) :
    cycleStatV b mode f thr ph cv vals = cycleStatV b' mode f thr ph cv vals := by
  have key := cycleStat_cache_irrelevant mode f thr ph h vals hv
  cases b <;> cases b' <;> simp [key]

theorem addMetric_setCache (b : Bool) (s : State) (name : Name) (v : List Val) :
    addMetric (setCache b s) name v = (setCache b (addMetric s name v).1, (addMetric s name v).2) := by
  by_cases hv : v.length = s.K <;> simp [addMetric, setCache, hv]

theorem computeMetric_setCache (b : Bool) (s : State) (h : Inv s) (name : Name) (vals : List Rat) (f : List Rat → Rat)
    (mode : Mode) (hv : vals.length = s.cv.length) :
    computeMetric (setCache b s) name vals f mode =
      (setCache b (computeMetric s name vals f mode).1, (computeMetric s name vals f mode).2) := by
  rw [computeMetric_ok _ (inv_setCache b s h) _ _ _ _ hv, computeMetric_ok _ h _ _ _ _ hv]
  have : cycleStatV (setCache b s).cache mode f (setCache b s).thr (setCache b s).phase (setCache b s).cv vals =
      cycleStatV s.cache mode f s.thr s.phase s.cv vals := cycleStat_any_cache _ _ mode f s.thr s.phase h.cv vals hv
  rw [this]
  rfl

theorem seqOps_setCache (b : Bool) (ops : List (State → State × Except Err Out))
    (hops : ∀ o ∈ ops, ∀ s, Inv s → Inv (o s).1 ∧ o (setCache b s) = (setCache b (o s).1, (o s).2))
    (s : State) (h : Inv s) :
    seqOps (setCache b s) ops = (setCache b (seqOps s ops).1, (seqOps s ops).2) := by
  induction ops generalizing s with
  | nil => rfl
  | cons o t ih =>
    obtain ⟨hi, hc⟩ := hops o (by simp) s h
    simp only [seqOps, hc]
    cases hr : o s with
    | mk s' r =>
      rw [hr] at hi
      cases r with
      | error e => rfl
      | ok x => exact ih (fun o' ho' => hops o' (by simp [ho'])) s' hi

theorem computeChainMetric_setCache (b : Bool) (s : State) (name : Name) (vals : List Rat) (f : List Rat → Rat) (asInt : Bool) :
    computeChainMetric (setCache b s) name vals f asInt =
      (setCache b (computeChainMetric s name vals f asInt).1, (computeChainMetric s name vals f asInt).2) := by
  unfold computeChainMetric
  have e : (setCache b s).sel = s.sel := rfl
  rw [e]
  cases hs : s.sel with
  | none => rfl
  | some sel => exact addMetric_setCache _ _ _ _

theorem computePositionInChain_setCache (b : Bool) (s : State) :
    computePositionInChain (setCache b s) =
      (setCache b (computePositionInChain s).1, (computePositionInChain s).2) := by
  unfold computePositionInChain
  have e : (setCache b s).sel = s.sel := rfl
  rw [e]
  cases hs : s.sel <;> rfl

/-- the per-sample value vector handed to `compute_cycle_metric` has one value per sample (both
    metric modes: the code checks nothing, and the lookup route raises on a short vector) -/
def Op.ValsOK (n : Nat) : Op → Prop
  | .computeMetric _ vals _ _ => vals.length = n
  | _ => True

/-- Setting the cache flag before an operation or after it gives the same state and the same output. -/
theorem step_setCache (F : List Char → Option Rat) (b : Bool) (s : State) (op : Op) (h : Inv s) (hv : op.ValsOK s.cv.length) :
    step F (setCache b s) op = (setCache b (step F s op).1, (step F s op).2) := by
  cases op with
  | computeMetric name vals f mode => exact computeMetric_setCache b s h name vals f mode hv
  | addMetric name vals => exact addMetric_setCache _ _ _ _
  | addFromInt name src =>
    simp only [step, addFromInt]
    have hm : (setCache b s).metrics = s.metrics := rfl
    rw [hm]
    split
    · rfl
    · exact addMetric_setCache _ _ _ _
  | computeTimings =>
    simp only [step, computeTimings]
    apply seqOps_setCache b _ _ s h
    intro o ho s' hs'
    simp only [List.mem_cons, List.not_mem_nil, or_false] at ho
    rcases ho with rfl | rfl | rfl
    · exact ⟨computeMetric_preserves Inv _ _ _ _ _ hs' (fun _ => addMetric_inv _ _ _ hs'), computeMetric_setCache b s' hs' _ _ _ _ (by simp [arange, setCache])⟩
    · exact ⟨computeMetric_preserves Inv _ _ _ _ _ hs' (fun _ => addMetric_inv _ _ _ hs'), computeMetric_setCache b s' hs' _ _ _ _ (by simp [arange, setCache])⟩
    · exact ⟨computeMetric_preserves Inv _ _ _ _ _ hs' (fun _ => addMetric_inv _ _ _ hs'), computeMetric_setCache b s' hs' _ _ _ _ (by simp [cvRat, setCache])⟩
  | pickSubset conds =>
    simp only [step, pickSubset]
    have e : (setCache b s).metrics = s.metrics := rfl
    rw [e]
    cases hm : matching F s.metrics conds with
    | error e => rfl
    | ok valids =>
      exact addMetric_setCache b
        { s with sel := some { conds, subset := subsetVector valids, chain := chainVector (subsetVector valids) } } _ _
  | computeChainMetric name vals f asInt => exact computeChainMetric_setCache _ _ _ _ _ _
  | computeChainTimings =>
    simp only [step, computeChainTimings]
    apply seqOps_setCache b _ _ s h
    intro o ho s' hs'
    simp only [List.mem_cons, List.not_mem_nil, or_false] at ho
    rcases ho with rfl | rfl | rfl | rfl | rfl
    · exact ⟨computeChainMetric_inv _ _ _ _ _ hs', computeChainMetric_setCache _ _ _ _ _ _⟩
    · exact ⟨computeChainMetric_inv _ _ _ _ _ hs', computeChainMetric_setCache _ _ _ _ _ _⟩
    · exact ⟨computeChainMetric_inv _ _ _ _ _ hs', computeChainMetric_setCache _ _ _ _ _ _⟩
    · exact ⟨computeChainMetric_inv _ _ _ _ _ hs', computeChainMetric_setCache _ _ _ _ _ _⟩
    · exact ⟨computePositionInChain_inv _ hs', computePositionInChain_setCache _ _⟩
  | «export» m =>
    simp only [step]
    have : exportTable F (setCache b s) m = exportTable F s m := by cases m <;> rfl
    rw [this]
    cases hm : exportTable F s m <;> rfl
  | «matching» conds =>
    simp only [step]
    have e : (setCache b s).metrics = s.metrics := rfl
    rw [e]
    cases hm : matching F s.metrics conds <;> rfl

end Container
