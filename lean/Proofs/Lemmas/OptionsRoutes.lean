/-
  Helper definitions and lemmas for Proofs/C06.lean: well-formed user input, the user's IMF options per
  variant, which variants have configuration routes, membership form of `Obeys`.
-/
import Proofs.Lemmas.Options

namespace Options
open Config

/-! ### what the user supplied -/

/-- well-formed user input: the three dictionaries are passed as such (not hidden among the other
    keywords), are dictionaries (no repeated key), and option names contain no '/' (they are
    identifiers; needed only by the key-path edits of the configuration routes) -/
structure WF (u : User) : Prop where
  clean : TopClean u.top
  topSlash : ∀ p ∈ u.top.keys, '/' ∉ p
  imfSlash : ∀ p ∈ (optA u.imf).keys, '/' ∉ p
  envSlash : ∀ p ∈ (optA u.env).keys, '/' ∉ p
  extSlash : ∀ p ∈ (optA u.ext).keys, '/' ∉ p
  imfNodup : NodupKeys (optA u.imf)
  envNodup : NodupKeys (optA u.env)
  extNodup : NodupKeys (optA u.ext)

/-- the IMF-extraction options the user gave: `imf_opts`, or — for `get_next_imf` itself — its keywords -/
def userImf : Variant → User → Assoc
  | .nextImf, u => u.top
  | .second v, u => userImf v u
  | _, u => optA u.imf

theorem imfOf_direct : ∀ (v : Variant) (u : User), TopClean u.top →
    ∀ p d, gniOwn.lookup p = some d →
      ((imfOf v (kwargsDirect u)).lookup p).getD d = ((userImf v u).lookup p).getD d
  | .nextImf, u, _, p, d, hp => by
    have h1 : p ≠ "imf_opts".toList := fun e => by
      have : "imf_opts".toList ∉ gniOwn.keys := by decide
      exact this (e ▸ mem_keys_of_lookup hp)
    have h2 : p ≠ "envelope_opts".toList := fun e => not_mem_gniOwn_env (e ▸ mem_keys_of_lookup hp)
    have h3 : p ≠ "extrema_opts".toList := fun e => not_mem_gniOwn_ext (e ▸ mem_keys_of_lookup hp)
    simp only [imfOf, userImf, lookup_direct_own u h1 h2 h3]
  | .second v, u, hc, p, d, hp => imfOf_direct v u hc p d hp
  | .sift, u, hc, _, _, _ => by simp only [imfOf, userImf, (kwArg_direct u hc).1]
  | .ensemble, u, hc, _, _, _ => by simp only [imfOf, userImf, (kwArg_direct u hc).1]
  | .complete, u, hc, _, _, _ => by simp only [imfOf, userImf, (kwArg_direct u hc).1]
  | .mask, u, hc, _, _, _ => by simp only [imfOf, userImf, (kwArg_direct u hc).1]
  | .nextImfMask, u, hc, _, _, _ => by simp only [imfOf, userImf, (kwArg_direct u hc).1]
  | .maskFreqs, u, hc, _, _, _ => by simp only [imfOf, userImf, (kwArg_direct u hc).1]
  | .maskSecond, u, hc, _, _, _ => by simp only [imfOf, userImf, (kwArg_direct u hc).1]

/-- the configuration routes exist for the four variants `get_config` knows -/
def Configurable (v : Variant) : Prop :=
  baseVariant v = .sift ∨ baseVariant v = .ensemble ∨ baseVariant v = .complete ∨ baseVariant v = .mask

theorem imfOf_config : ∀ (v : Variant) (K : Assoc), Configurable v →
    imfOf v K = dictOf (kwArg K "imf_opts") ∧ ∀ u, userImf v u = optA u.imf
  | .second v, K, h => by
    have := imfOf_config v K h
    exact ⟨this.1, fun u => this.2 u⟩
  | .sift, _, _ => ⟨rfl, fun _ => rfl⟩
  | .ensemble, _, _ => ⟨rfl, fun _ => rfl⟩
  | .complete, _, _ => ⟨rfl, fun _ => rfl⟩
  | .mask, _, _ => ⟨rfl, fun _ => rfl⟩
  | .maskSecond, _, _ => ⟨rfl, fun _ => rfl⟩
  | .nextImfMask, _, h => by simp [Configurable, baseVariant] at h
  | .maskFreqs, _, h => by simp [Configurable, baseVariant] at h
  | .nextImf, _, h => by simp [Configurable, baseVariant] at h

theorem base_cases : ∀ v : Variant, Configurable v ∨
    (baseVariant v = .nextImfMask ∨ baseVariant v = .maskFreqs ∨ baseVariant v = .nextImf)
  | .sift => Or.inl (Or.inl rfl)
  | .ensemble => Or.inl (Or.inr (Or.inl rfl))
  | .complete => Or.inl (Or.inr (Or.inr (Or.inl rfl)))
  | .mask => Or.inl (Or.inr (Or.inr (Or.inr rfl)))
  | .nextImfMask => Or.inr (Or.inl rfl)
  | .maskFreqs => Or.inr (Or.inr (Or.inl rfl))
  | .nextImf => Or.inr (Or.inr (Or.inr rfl))
  | .second v => base_cases v
  | .maskSecond => Or.inl (Or.inr (Or.inr (Or.inr rfl)))

theorem not_configurable_error (v : Variant) (u : User) (h : ¬ Configurable v) :
    kwargsConfig (baseVariant v) u = .error .attributeError := by
  rcases base_cases v with hc | hc
  · exact absurd hc h
  · exact cfg_none _ u hc

theorem exists_ne_nil_of_flatten_ne_nil {α : Type} : ∀ (l : List (List α)), l.flatten ≠ [] → ∃ x ∈ l, x ≠ []
  | [], h => absurd rfl h
  | x :: xs, h => by
    cases x with
    | nil =>
      obtain ⟨y, hy, hne⟩ := exists_ne_nil_of_flatten_ne_nil xs (by simpa using h)
      exact ⟨y, by simp [hy], hne⟩
    | cons a as => exact ⟨a :: as, by simp, by simp⟩

/-- the own options of a stage -/
def ownOf : Stage → Assoc
  | .gni => gniOwn
  | .ie => ieOwn
  | .gpe => gpeOwn

theorem obeys_mem {imf env ext : Assoc} {cs : List StageCall} (h : Obeys imf env ext cs) (c : StageCall) (hc : c ∈ cs) :
    ∀ p d, (ownOf c.stage).lookup p = some d →
      (c.args.lookup p).map (effVal p) = some (effVal p (((match c.stage with
        | .gni => imf | .ie => env | .gpe => ext).lookup p).getD d)) := by
  obtain ⟨chains, rfl, hch⟩ := h
  obtain ⟨ch, hm, hcm⟩ := List.mem_flatten.mp hc
  obtain ⟨a, aU, gU, aL, gL, rfl, g1, _, _, g4, _, _, g7⟩ := (hch ch hm).shape
  have noeff : ∀ {st : Assoc} {p : Key} {d : Tree}, st.lookup p = some d →
      "loc_pad_opts".toList ∉ st.keys → "mag_pad_opts".toList ∉ st.keys → ∀ v, effVal p v = v := by
    intro st p d hp h1 h2 v
    have e1 : ¬ p = "loc_pad_opts".toList := fun e => h1 (e ▸ mem_keys_of_lookup hp)
    have e2 : ¬ p = "mag_pad_opts".toList := fun e => h2 (e ▸ mem_keys_of_lookup hp)
    simp [-String.reduceToList, effVal, e1, e2]
  intro p d hp
  simp only [List.mem_cons, List.not_mem_nil, or_false] at hcm
  rcases hcm with rfl | rfl | rfl | rfl | rfl
  · rw [g1 p d hp]
    simp [noeff hp (by decide : "loc_pad_opts".toList ∉ gniOwn.keys) (by decide : "mag_pad_opts".toList ∉ gniOwn.keys)]
  · rw [(g4 p d hp).1]
    simp [noeff hp (by decide : "loc_pad_opts".toList ∉ ieOwn.keys) (by decide : "mag_pad_opts".toList ∉ ieOwn.keys)]
  · exact (g7 p d hp).1
  · rw [(g4 p d hp).2]
    simp [noeff hp (by decide : "loc_pad_opts".toList ∉ ieOwn.keys) (by decide : "mag_pad_opts".toList ∉ ieOwn.keys)]
  · exact (g7 p d hp).2


end Options
