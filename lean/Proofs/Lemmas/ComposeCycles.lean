/-
  Cross-model consistency: the container model (C15) and the index-map model (C16) were written
  independently and each contains its own model of `get_subset_vector` / `get_chain_vector`.
  These lemmas show that they are the same functions, so everything C16 proves about subset and
  chain vectors (rank property, maximal runs, round trips, projections) applies to the vectors
  stored in the container state of C15.
-/
import EmdModel.Container
import EmdModel.Maps

namespace ComposeCycles

theorem subsetFrom_agree (c : Nat) (v : List Bool) : Container.subsetFrom c v = Maps.subsetFrom c v := by
  induction v generalizing c with
  | nil => rfl
  | cons b t ih => cases b <;> simp [Container.subsetFrom, Maps.subsetFrom, ih]

theorem subsetVector_agree (v : List Bool) : Container.subsetVector v = Maps.subsetVector v :=
  subsetFrom_agree 0 v

theorem selectedFrom_agree (off : Nat) (sv : List Int) :
    Container.indicesFrom (fun l => decide (-1 < l)) off sv = Maps.selectedFrom off sv := by
  induction sv generalizing off with
  | nil => rfl
  | cons x t ih => simp [Container.indicesFrom, Maps.selectedFrom, ih]

theorem selected_agree (sv : List Int) : Container.selected sv = Maps.selected sv :=
  selectedFrom_agree 0 sv

/-- the selected indices are strictly increasing and not below the offset -/
theorem selectedFrom_sorted (off : Nat) (sv : List Int) :
    (Maps.selectedFrom off sv).Pairwise (· < ·) ∧ ∀ i ∈ Maps.selectedFrom off sv, off ≤ i := by
  induction sv generalizing off with
  | nil => simp [Maps.selectedFrom]
  | cons x t ih =>
    obtain ⟨h1, h2⟩ := ih (off + 1)
    simp only [Maps.selectedFrom]
    split
    · refine ⟨List.pairwise_cons.mpr ⟨fun i hi => by have := h2 i hi; omega, h1⟩, ?_⟩
      intro i hi
      rcases List.mem_cons.mp hi with rfl | hi
      · omega
      · have := h2 i hi; omega
    · exact ⟨h1, fun i hi => by have := h2 i hi; omega⟩

/-- on strictly increasing indices above `prev` the two chain loops agree (the defensive third
    branch of the Maps loop is never taken) -/
theorem chainFrom_agree (count prev : Nat) (l : List Nat)
    (hs : l.Pairwise (· < ·)) (hp : ∀ i ∈ l, prev < i) :
    (Container.chainFrom prev count l).map (fun (n : Nat) => (n : Int)) = Maps.chainFrom count prev l := by
  induction l generalizing count prev with
  | nil => rfl
  | cons i t ih =>
    have hpi : prev < i := hp i (by simp)
    have hs' := (List.pairwise_cons.mp hs)
    have ht : ∀ j ∈ t, i < j := hs'.1
    simp only [Container.chainFrom, Maps.chainFrom]
    by_cases h : i = prev + 1
    · simp [h, ih count (prev + 1) hs'.2 (by intro j hj; have := ht j hj; omega)]
    · have h2 : prev + 1 < i := by omega
      simp [h, h2, ih (count + 1) i hs'.2 ht]

/-- The container's chain vector of a subset vector built by `get_subset_vector` is the chain
    vector characterised in C16. -/
theorem chainVector_agree (valids : List Bool) :
    (Container.chainVector (Container.subsetVector valids)).map (fun (n : Nat) => (n : Int)) =
      Maps.chainVector (Maps.subsetVector valids) := by
  unfold Container.chainVector Maps.chainVector
  rw [subsetVector_agree, selected_agree]
  obtain ⟨hs, _⟩ := selectedFrom_sorted 0 (Maps.subsetVector valids)
  unfold Maps.selected at *
  cases hsel : Maps.selectedFrom 0 (Maps.subsetVector valids) with
  | nil => simp [Container.chainOfSel]
  | cons i t =>
    rw [hsel] at hs
    have hs' := List.pairwise_cons.mp hs
    simp only [Container.chainOfSel, List.map_cons]
    congr 1
    exact chainFrom_agree 0 i t hs'.2 hs'.1

end ComposeCycles
