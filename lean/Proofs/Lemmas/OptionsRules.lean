/-
  Helper lemmas for C06 (and C01): from the stage-call records of the option model to the rule the Sift model's
  `get_next_imf` evaluates (`Options.imfOptsOf`, `Options.stopRuleOf`).
-/
import Proofs.Lemmas.OptionsRoutes

namespace Options
open Config

theorem arg_congr {a b : Assoc} (p : String) (h : a.lookup p.toList = b.lookup p.toList) : arg a p = arg b p := by
  simp only [arg, h]

/-- the rule depends on the bound arguments only through `get_next_imf`'s six own options -/
theorem imfOptsOf_congr (a b : Assoc) (h : ∀ p ∈ gniOwn.keys, a.lookup p = b.lookup p) :
    stopRuleOf a = stopRuleOf b ∧ imfOptsOf a = imfOptsOf b := by
  have e1 := arg_congr "stop_method" (h _ (by decide))
  have e2 := arg_congr "sd_thresh" (h _ (by decide))
  have e3 := arg_congr "rilling_thresh" (h _ (by decide))
  have e4 := arg_congr "env_step_size" (h _ (by decide))
  have e5 := arg_congr "max_iters" (h _ (by decide))
  have e6 := arg_congr "energy_thresh" (h _ (by decide))
  have hs : stopRuleOf a = stopRuleOf b := by
    unfold stopRuleOf
    rw [e1, e2, e3]
  exact ⟨hs, by unfold imfOptsOf; rw [hs, e4, e5, e6]⟩

/-- a `get_next_imf` record of an obeying emission holds, for each own option, the supplied value or the default -/
theorem obeys_gni_lookup {imf env ext : Assoc} {cs : List StageCall} (h : Obeys imf env ext cs) (c : StageCall)
    (hc : c ∈ cs) (hs : c.stage = .gni) :
    ∀ p d, gniOwn.lookup p = some d → c.args.lookup p = some ((imf.lookup p).getD d) := by
  obtain ⟨chains, rfl, hch⟩ := h
  obtain ⟨ch, hm, hcm⟩ := List.mem_flatten.mp hc
  obtain ⟨a, aU, gU, aL, gL, rfl, g1, _⟩ := (hch ch hm).shape
  simp only [List.mem_cons, List.not_mem_nil, or_false] at hcm
  rcases hcm with rfl | rfl | rfl | rfl | rfl
  · exact g1
  all_goals (simp at hs)

theorem lookup_of_mem_gniOwn {p : Key} (hp : p ∈ gniOwn.keys) : ∃ d, gniOwn.lookup p = some d := by
  have : p = "env_step_size".toList ∨ p = "max_iters".toList ∨ p = "energy_thresh".toList ∨ p = "stop_method".toList ∨
      p = "sd_thresh".toList ∨ p = "rilling_thresh".toList := by
    simpa [-String.reduceToList, gniOwn, mk, Assoc.keys] using hp
  rcases this with rfl | rfl | rfl | rfl | rfl | rfl <;> exact ⟨_, rfl⟩

/-- … i.e. exactly the user's dictionary resolved against the own defaults -/
theorem obeys_gni_eq_resolve {imf env ext : Assoc} {cs : List StageCall} (h : Obeys imf env ext cs) (c : StageCall)
    (hc : c ∈ cs) (hs : c.stage = .gni) :
    ∀ p ∈ gniOwn.keys, c.args.lookup p = (resolve gniOwn imf).lookup p := by
  intro p hp
  obtain ⟨d, hd⟩ := lookup_of_mem_gniOwn hp
  rw [obeys_gni_lookup h c hc hs p d hd, lookup_resolve, hd]
  rfl

theorem arg_resolve_own (imf : Assoc) (name : String) (d : Tree) (h : gniOwn.lookup name.toList = some d) :
    arg (resolve gniOwn imf) name = (imf.lookup name.toList).getD d := by
  simp only [arg, lookup_resolve, h, Option.map_some, Option.getD_some]

end Options

namespace Options
open Config

/-! ### `partial(f, **frozen)(x, **call)` -/

theorem mergeKw_eq_assignA : ∀ (call frozen : Assoc), mergeKw frozen call = assignA frozen call
  | .nil, _ => rfl
  | .cons k v r, frozen => by simp only [mergeKw, assignA]; exact mergeKw_eq_assignA r _

/-- a keyword given at call time wins; a frozen keyword the call does not repeat stays -/
theorem lookup_mergeKw (frozen call : Assoc) (hn : NodupKeys call) (p : Key) :
    (mergeKw frozen call).lookup p = ((call.lookup p).orElse fun _ => frozen.lookup p) := by
  rw [mergeKw_eq_assignA, lookup_assignA call frozen p hn]
  cases call.lookup p <;> rfl

/-- the keyword dictionaries of a user without other keywords -/
theorem kwargsDirect_noTop (imf env ext : Option Assoc) :
    NodupKeys (kwargsDirect { top := .nil, imf := imf, env := env, ext := ext }) ∧
    (kwargsDirect { top := .nil, imf := imf, env := env, ext := ext }).lookup "imf_opts".toList = imf.map .dict ∧
    (kwargsDirect { top := .nil, imf := imf, env := env, ext := ext }).lookup "envelope_opts".toList = env.map .dict ∧
    (kwargsDirect { top := .nil, imf := imf, env := env, ext := ext }).lookup "extrema_opts".toList = ext.map .dict := by
  have n1 : ¬ "imf_opts".toList = "envelope_opts".toList := by decide
  have n2 : ¬ "imf_opts".toList = "extrema_opts".toList := by decide
  have n3 : ¬ "envelope_opts".toList = "extrema_opts".toList := by decide
  have n4 : ¬ "envelope_opts".toList = "imf_opts".toList := by decide
  have n5 : ¬ "extrema_opts".toList = "imf_opts".toList := by decide
  have n6 : ¬ "extrema_opts".toList = "envelope_opts".toList := by decide
  refine ⟨?_, ?_, ?_, ?_⟩ <;> cases imf <;> cases env <;> cases ext <;>
    simp [-String.reduceToList, NodupKeys, kwargsDirect, optEntry, Assoc.append, Assoc.keys, Assoc.lookup,
      n1, n2, n3, n4, n5, n6]

end Options
