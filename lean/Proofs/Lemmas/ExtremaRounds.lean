/-
  Helper lemmas for C05 — the re-padding loop as an iteration: the number of rounds is the least
  one after which both edges are covered, and every round adds exactly the pad width on either side.
-/
import Proofs.Lemmas.ExtremaEnv
import Mathlib.Logic.Function.Iterate

namespace Extrema

/-- the loop returns the `j`-fold padding of its entry state for the LEAST `j` at which the loop
    condition is false -/
theorem padLoop_rounds (w n : Nat) : ∀ (f : Nat) (l m : List Rat) (r : List Rat × List Rat),
    padLoop w n f l m = some r →
    ∃ j, j < f ∧ r = ((padOdd w)^[j] l, (padEdge w)^[j] m) ∧ needsMore n r.1 = false ∧
      ∀ i, i < j → needsMore n ((padOdd w)^[i] l) = true := by
  intro f
  induction f with
  | zero => intro l m r h; simp [padLoop] at h
  | succ f ih =>
    intro l m r h
    unfold padLoop at h
    by_cases hm : needsMore n l = true
    · simp only [hm, if_true] at h
      obtain ⟨j, hj, hr, hn, hall⟩ := ih _ _ r h
      refine ⟨j + 1, by omega, ?_, hn, ?_⟩
      · rw [hr]; simp [Function.iterate_succ_apply]
      · intro i hi
        cases i with
        | zero => simpa using hm
        | succ i => rw [Function.iterate_succ_apply]; exact hall i (by omega)
    · simp only [hm] at h
      have : r = (l, m) := by simpa using h.symm
      subst this
      exact ⟨0, by omega, rfl, by simpa using hm, fun i hi => absurd hi (Nat.not_lt_zero i)⟩

/-- `j` rounds of padding add exactly `j·w` locations on either side of the unchanged block -/
theorem padOdd_iterate (w : Nat) (l : List Rat) (hl : 2 ≤ l.length) :
    ∀ j, ∃ L Rr, (padOdd w)^[j] l = L ++ l ++ Rr ∧ L.length = j * w ∧ Rr.length = j * w := by
  intro j
  induction j with
  | zero => exact ⟨[], [], by simp, by simp, by simp⟩
  | succ j ih =>
    obtain ⟨L, Rr, heq, hL, hR⟩ := ih
    have hlen : 2 ≤ ((padOdd w)^[j] l).length := by rw [heq]; simp; omega
    obtain ⟨_, L2, R2, heq2, hL2, hR2⟩ := padOdd_spec w _ hlen
    refine ⟨L2 ++ L, Rr ++ R2, ?_, ?_, ?_⟩
    · rw [Function.iterate_succ_apply', heq2, heq]; simp [List.append_assoc]
    · simp [hL, hL2, Nat.succ_mul]; omega
    · simp [hR, hR2, Nat.succ_mul]

/-- the loop condition is false exactly when both edges are covered -/
theorem needsMore_false_iff (n : Nat) (l : List Rat) :
    needsMore n l = false ↔ lmin l < 0 ∧ (n : Rat) ≤ lmax l := by
  simp only [needsMore, Bool.or_eq_false_iff, decide_eq_false_iff_not, Rat.not_lt, Rat.not_le]
  exact ⟨fun h => ⟨h.2, h.1⟩, fun h => ⟨h.2, h.1⟩⟩

/-- `get_padded_extrema` with pad width ≥ 1: the result is the `(r+1)`-fold padding (effective width
    `w' = min w #extrema`) for the least number of rounds `r+1 ≥ 1` after which the loop condition is
    false; `(r+1)·w'` values are added on either side. -/
theorem paddedExtrema_rounds' (w : Nat) (hw : 1 ≤ w) (m : Mode) (parab : Bool) (x : Sig) (locs mags : List Rat)
    (h : paddedExtrema w m parab x = .ok locs mags) :
    ∃ r : Nat,
      locs = (padOdd (min w (extrema m parab x).1.length))^[r + 1] (extrema m parab x).1 ∧
      mags = (padEdge (min w (extrema m parab x).1.length))^[r + 1] (extrema m parab x).2 ∧
      needsMore x.length locs = false ∧
      (∀ j, j < r → needsMore x.length ((padOdd (min w (extrema m parab x).1.length))^[j + 1] (extrema m parab x).1) = true) ∧
      r ≤ x.length ∧
      ∃ L Rr, locs = L ++ (extrema m parab x).1 ++ Rr ∧
        L.length = (r + 1) * min w (extrema m parab x).1.length ∧
        Rr.length = (r + 1) * min w (extrema m parab x).1.length := by
  unfold paddedExtrema at h
  simp only [] at h
  by_cases hlen : (extrema m parab x).1.length ≤ 1
  · simp [hlen] at h
  · simp only [hlen, if_false] at h
    have hl2 : 2 ≤ (extrema m parab x).1.length := by omega
    have hw' : (if (extrema m parab x).1.length < w then (extrema m parab x).1.length else w)
        = min w (extrema m parab x).1.length := by
      split <;> omega
    rw [hw'] at h
    have hw0 : ¬ min w (extrema m parab x).1.length = 0 := by omega
    simp only [hw0, if_false] at h
    cases hloop : padLoop (min w (extrema m parab x).1.length) x.length (x.length + 1)
        (padOdd (min w (extrema m parab x).1.length) (extrema m parab x).1)
        (padEdge (min w (extrema m parab x).1.length) (extrema m parab x).2) with
    | none => simp [hloop] at h
    | some r =>
      simp only [hloop] at h
      injection h with h1 h2
      obtain ⟨j, hj, hr, hn, hall⟩ := padLoop_rounds _ _ _ _ _ r hloop
      have e1 : locs = (padOdd (min w (extrema m parab x).1.length))^[j + 1] (extrema m parab x).1 := by
        rw [← h1, hr, Function.iterate_succ_apply]
      refine ⟨j, e1, ?_, by rw [← h1]; exact hn, ?_, by omega, ?_⟩
      · rw [← h2, hr, Function.iterate_succ_apply]
      · intro i hi
        rw [Function.iterate_succ_apply]; exact hall i hi
      · rw [e1]; exact padOdd_iterate _ _ hl2 (j + 1)

end Extrema
