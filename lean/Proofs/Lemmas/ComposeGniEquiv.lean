/-
  Cross-model composition: the extraction oracle `X` of the masked sift (C07 / C02 §9) instantiated with
  `get_next_imf` of the Sift model (`ComposeGni.gniX`) meets C02's equivariance contract `Mask.XSmul`,
  by the scale equivariance of `get_next_imf` itself (C02 §7).
-/
import Proofs.Lemmas.ComposeGni
import Proofs.Lemmas.EquivarianceMask

namespace ComposeGni
open Sift

/-- `get_next_imf` as the masked sift's extractor is scale equivariant whenever its envelope and energy
    oracles are (a convergence error on `y` is a convergence error on `c • y`). -/
theorem gniX_XSmul (c : Rat) (hc : c ≠ 0) (E E' : Sig → Env) (hE : EnvSmul c (fun _ => E) (fun _ => E'))
    (D D' : Sig → Sig → Rat) (hD : EnergySmul c D D') (o : ImfOpts) :
    Mask.XSmul c (gniX E D o) (gniX E' D' o) := by
  intro y
  have h : getNextImf E' D' o (Sig.smul c y) = (getNextImf E D o y).smul c :=
    getNextImfIx_smul c hc _ _ hE D D' hD o y
  unfold gniX
  rw [h]
  cases getNextImf E D o y with
  | imf v f => rfl
  | convergeError => simp [ImfResult.smul, Sig.smul]

end ComposeGni
