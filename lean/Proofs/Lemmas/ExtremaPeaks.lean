/-
  Helper lemmas for C05 — extrema detection (`peaksFrom`, `findPeaks`).
-/
import EmdModel.Extrema

namespace Extrema

theorem mem_peaksFrom (k : Nat) (l : List Rat) (j : Nat) :
    j ∈ peaksFrom k l ↔
      k < j ∧ ∃ a b c, l[j - k - 1]? = some a ∧ l[j - k]? = some b ∧ l[j - k + 1]? = some c ∧ a < b ∧ c < b := by
  fun_induction peaksFrom k l with
  | case1 i a b c t h ih =>
    simp only [List.mem_cons, ih]
    constructor
    · rintro (rfl | ⟨hk, a', b', c', h1, h2, h3, h4, h5⟩)
      · exact ⟨by omega, a, b, c, by simp, by simp, by simp, h.1, h.2⟩
      · refine ⟨by omega, a', b', c', ?_, ?_, ?_, h4, h5⟩
        · have : j - i - 1 = (j - (i + 1) - 1) + 1 := by omega
          rw [this]; simpa using h1
        · have : j - i = (j - (i + 1)) + 1 := by omega
          rw [this]; simpa using h2
        · have : j - i + 1 = (j - (i + 1) + 1) + 1 := by omega
          rw [this]; simpa using h3
    · rintro ⟨hk, a', b', c', h1, h2, h3, h4, h5⟩
      by_cases hj : j = i + 1
      · left; exact hj
      · right
        refine ⟨by omega, a', b', c', ?_, ?_, ?_, h4, h5⟩
        · have : j - i - 1 = (j - (i + 1) - 1) + 1 := by omega
          rw [this] at h1; simpa using h1
        · have : j - i = (j - (i + 1)) + 1 := by omega
          rw [this] at h2; simpa using h2
        · have : j - i + 1 = (j - (i + 1) + 1) + 1 := by omega
          rw [this] at h3; simpa using h3
  | case2 i a b c t h ih =>
    rw [ih]
    constructor
    · rintro ⟨hk, a', b', c', h1, h2, h3, h4, h5⟩
      refine ⟨by omega, a', b', c', ?_, ?_, ?_, h4, h5⟩
      · have : j - i - 1 = (j - (i + 1) - 1) + 1 := by omega
        rw [this]; simpa using h1
      · have : j - i = (j - (i + 1)) + 1 := by omega
        rw [this]; simpa using h2
      · have : j - i + 1 = (j - (i + 1) + 1) + 1 := by omega
        rw [this]; simpa using h3
    · rintro ⟨hk, a', b', c', h1, h2, h3, h4, h5⟩
      have hj : j ≠ i + 1 := by
        rintro rfl
        apply h
        have e1 : i + 1 - i - 1 = 0 := by omega
        have e2 : i + 1 - i = 1 := by omega
        rw [e1] at h1; rw [e2] at h2 h3
        simp at h1 h2 h3
        subst h1 h2 h3
        exact ⟨h4, h5⟩
      refine ⟨by omega, a', b', c', ?_, ?_, ?_, h4, h5⟩
      · have : j - i - 1 = (j - (i + 1) - 1) + 1 := by omega
        rw [this] at h1; simpa using h1
      · have : j - i = (j - (i + 1)) + 1 := by omega
        rw [this] at h2; simpa using h2
      · have : j - i + 1 = (j - (i + 1) + 1) + 1 := by omega
        rw [this] at h3; simpa using h3
  | case3 l i h =>
    simp only [List.not_mem_nil, false_iff]
    rintro ⟨hk, a', b', c', h1, h2, h3, h4, h5⟩
    have hlen : j - i + 1 < l.length := (List.getElem?_eq_some_iff.mp h3).1
    match l, h with
    | [], _ => simp at hlen
    | [x], _ => simp at hlen
    | [x, y], _ => simp at hlen; omega
    | x :: y :: z :: t, h => exact h x y z t rfl

/-- every detected index lies strictly inside the list -/
theorem peaksFrom_bounds {k : Nat} {l : List Rat} {j : Nat} (h : j ∈ peaksFrom k l) :
    k < j ∧ j + 1 < k + l.length := by
  obtain ⟨hk, a, b, c, _, _, h3, _⟩ := (mem_peaksFrom k l j).mp h
  have := (List.getElem?_eq_some_iff.mp h3).1
  omega

theorem peaksFrom_sorted (k : Nat) (l : List Rat) : (peaksFrom k l).Pairwise (· < ·) := by
  fun_induction peaksFrom k l with
  | case1 i a b c t h ih =>
    rw [List.pairwise_cons]
    exact ⟨fun j hj => (peaksFrom_bounds hj).1, ih⟩
  | case2 i a b c t h ih => exact ih
  | case3 => exact List.Pairwise.nil

theorem at'_eq_of_getElem? {x : Sig} {i : Nat} {a : Rat} (h : x[i]? = some a) : at' x i = a := by
  simp [at', List.getD, h]

theorem mem_findPeaks_at' (x : Sig) (i : Nat) :
    i ∈ findPeaks x ↔ 0 < i ∧ i + 1 < x.length ∧ at' x (i - 1) < at' x i ∧ at' x (i + 1) < at' x i := by
  unfold findPeaks
  rw [mem_peaksFrom]
  constructor
  · rintro ⟨hk, a, b, c, h1, h2, h3, h4, h5⟩
    simp only [Nat.sub_zero] at h1 h2 h3
    have hlen := (List.getElem?_eq_some_iff.mp h3).1
    rw [at'_eq_of_getElem? h1, at'_eq_of_getElem? h2, at'_eq_of_getElem? h3]
    exact ⟨hk, hlen, h4, h5⟩
  · rintro ⟨hk, hlen, h4, h5⟩
    refine ⟨hk, x[i - 1], x[i], x[i + 1], ?_, ?_, ?_, ?_, ?_⟩
    · simp only [Nat.sub_zero]; exact List.getElem?_eq_getElem (by omega)
    · simp only [Nat.sub_zero]; exact List.getElem?_eq_getElem (by omega)
    · simp only [Nat.sub_zero]; exact List.getElem?_eq_getElem (by omega)
    · have e1 : at' x (i - 1) = x[i - 1] := at'_eq_of_getElem? (List.getElem?_eq_getElem (by omega))
      have e2 : at' x i = x[i] := at'_eq_of_getElem? (List.getElem?_eq_getElem (by omega))
      rw [← e1, ← e2]; exact h4
    · have e1 : at' x (i + 1) = x[i + 1] := at'_eq_of_getElem? (List.getElem?_eq_getElem (by omega))
      have e2 : at' x i = x[i] := at'_eq_of_getElem? (List.getElem?_eq_getElem (by omega))
      rw [← e1, ← e2]; exact h5

theorem at'_eq_getElem! (x : Sig) (i : Nat) : at' x i = x[i]! := by
  simp [at', List.getD, List.getElem!_eq_getElem?_getD]
  rfl

theorem findPeaks_sorted' (x : Sig) : (findPeaks x).Pairwise (· < ·) := peaksFrom_sorted 0 x

theorem findPeaks_not_adjacent' (x : Sig) : (findPeaks x).Pairwise (fun i j => i + 2 ≤ j) := by
  have hs := findPeaks_sorted' x
  refine List.Pairwise.imp_of_mem ?_ hs
  intro i j hi hj hij
  rcases Nat.lt_or_ge j (i + 2) with hcon | hge
  case inr => exact hge
  have hj' : j = i + 1 := by omega
  subst hj'
  exfalso
  have h1 := ((mem_findPeaks_at' x i).mp hi).2.2.2
  have h2 := ((mem_findPeaks_at' x (i + 1)).mp hj).2.2.1
  simp only [Nat.add_sub_cancel] at h2
  exact absurd h1 (Rat.not_lt.mpr (Rat.le_of_lt h2))

theorem at'_neg (x : Sig) (i : Nat) : at' (Sig.neg x) i = - at' x i := by
  unfold at' Sig.neg
  by_cases h : i < x.length
  · simp [List.getD, List.getElem?_map, List.getElem?_eq_getElem h]
  · have : x[i]? = none := List.getElem?_eq_none (by omega)
    simp [List.getD, List.getElem?_map, this]

theorem at'_abs (x : Sig) (i : Nat) (h : i < x.length) : at' (x.map Rat.abs') i = Rat.abs' (at' x i) := by
  unfold at'
  simp [List.getD, List.getElem?_map, List.getElem?_eq_getElem h]
