/- Helper lemmas about EmdModel.Container: the derived `chain_ind` metric and the selection stay
   current as long as the metrics they are derived from are not overwritten; exports. -/
import Proofs.Lemmas.ContainerStep

namespace Container

/-- the metric names an operation stores under (besides `chain_ind`, which `pickSubset` rewrites itself) -/
def Op.stores : Op → List Name
  | .computeMetric name _ _ _ => [name]
  | .addMetric name _ => [name]
  | .addFromInt name _ => [name]
  | .computeTimings => ["start_sample".toList, "stop_sample".toList, "duration".toList]
  | .computeChainMetric name _ _ _ => [name]
  | .computeChainTimings => ["chain_start".toList, "chain_end".toList, "chain_len_samples".toList,
      "chain_len_cycles".toList, "chain_position".toList]
  | _ => []

/-- the `chain_ind` metric is the projection of the current chains -/
def Tracked (s : State) : Prop :=
  ∀ sel, s.sel = some sel → sget s.metrics chainIndName = some (chainInd sel.subset sel.chain)

/-- the cycles that match the stored conditions now are exactly the selected ones -/
def Synced (F : List Char → Option Rat) (s : State) : Prop :=
  ∀ sel, s.sel = some sel → matching F s.metrics sel.conds = .ok (sel.subset.map fun j => decide (0 ≤ j))

/-- the metric names a list of condition strings refers to -/
def condNames (F : List Char → Option Rat) (conds : List Cond) : List Name :=
  conds.filterMap fun c => match parseCondition F c with | .ok r => some r.1 | .error _ => none

theorem computePositionInChain_eq (s : State) (h : Inv s) :
    computePositionInChain s = match s.sel with
      | none => (s, .error .value)
      | some sel => addMetric s "chain_position".toList
          (nanToMinusOne (projSubsetToCycles ((posInChain sel.chain).map fun (p : Nat) => some (p : Rat)) sel.subset)) := by
  unfold computePositionInChain
  cases hs : s.sel with
  | none => rfl
  | some sel =>
    have hl : (nanToMinusOne (projSubsetToCycles ((posInChain sel.chain).map fun (p : Nat) => some (p : Rat))
        sel.subset)).length = s.K := by
      simp [nanToMinusOne, projSubsetToCycles, (h.sel sel hs).len]
    simp only []
    rw [addMetric_ok _ _ _ hl, hs]

/-! ### chain_ind -/

theorem addMetric_tracked (s : State) (name : Name) (v : List Val) (h : Tracked s) (hn : name ≠ chainIndName) :
    Tracked (addMetric s name v).1 := by
  unfold addMetric
  split
  · intro sel hsel
    simp only [] at hsel ⊢
    rw [sget_sset_other _ _ _ _ (Ne.symm hn)]
    exact h sel hsel
  · exact h

theorem pickSubset_tracked (F : List Char → Option Rat) (s : State) (conds : List Cond) (hI : Inv s) (h : Tracked s) :
    Tracked (pickSubset F s conds).1 := by
  unfold pickSubset
  cases hm : matching F s.metrics conds with
  | error e => exact h
  | ok valids =>
    simp only []
    rw [addMetric_ok]
    · intro sel hsel
      simp only [Option.some.injEq] at hsel
      subst hsel
      exact sget_sset_same _ _ _
    · simp [chainInd_length, subsetVector, subsetFrom_length, matching_valids_length hI hm]

theorem tracked_step (F : List Char → Option Rat) (s : State) (op : Op) (hI : Inv s) (h : Tracked s)
    (hop : chainIndName ∉ op.stores) : Tracked (step F s op).1 := by
  cases op with
  | computeMetric name vals f mode =>
    exact computeMetric_preserves Tracked _ _ _ _ _ h
      (fun _ => addMetric_tracked _ _ _ h (by intro e; exact hop (by simp [Op.stores, e])))
  | addMetric name vals => exact addMetric_tracked _ _ _ h (by intro e; exact hop (by simp [Op.stores, e]))
  | addFromInt name src =>
    exact addFromInt_preserves Tracked _ _ _ h (fun _ => addMetric_tracked _ _ _ h (by intro e; exact hop (by simp [Op.stores, e])))
  | computeTimings =>
    apply seqOps_preserves Tracked _ _ s h
    intro o ho s' hs'
    simp only [List.mem_cons, List.not_mem_nil, or_false] at ho
    rcases ho with rfl | rfl | rfl <;>
      exact computeMetric_preserves Tracked _ _ _ _ _ hs' (fun _ => addMetric_tracked _ _ _ hs' (by decide))
  | pickSubset conds => exact pickSubset_tracked F s conds hI h
  | computeChainMetric name vals f asInt =>
    simp only [step, computeChainMetric]
    split
    · exact h
    · exact addMetric_tracked _ _ _ h (by intro e; exact hop (by simp [Op.stores, e]))
  | computeChainTimings =>
    have := seqOps_preserves (fun s => Inv s ∧ Tracked s)
      [fun s => computeChainMetric s "chain_start".toList (arange s.cv.length) fFirst true,
       fun s => computeChainMetric s "chain_end".toList (arange s.cv.length) fLast true,
       fun s => computeChainMetric s "chain_len_samples".toList (cvRat s.cv) fLen true,
       fun s => computeChainMetric s "chain_len_cycles".toList (cvRat s.cv) fNunique true,
       computePositionInChain] ?_ s ⟨hI, h⟩
    · exact this.2
    · intro o ho s' hs'
      simp only [List.mem_cons, List.not_mem_nil, or_false] at ho
      have hcm : ∀ name vals f, name ≠ chainIndName →
          Inv (computeChainMetric s' name vals f true).1 ∧ Tracked (computeChainMetric s' name vals f true).1 := by
        intro name vals f hne
        refine ⟨computeChainMetric_inv _ _ _ _ _ hs'.1, ?_⟩
        unfold computeChainMetric
        split
        · exact hs'.2
        · exact addMetric_tracked _ _ _ hs'.2 hne
      rcases ho with rfl | rfl | rfl | rfl | rfl
      · exact hcm _ _ _ (by decide)
      · exact hcm _ _ _ (by decide)
      · exact hcm _ _ _ (by decide)
      · exact hcm _ _ _ (by decide)
      · refine ⟨computePositionInChain_inv _ hs'.1, ?_⟩
        rw [computePositionInChain_eq _ hs'.1]
        split
        · exact hs'.2
        · exact addMetric_tracked _ _ _ hs'.2 (by decide)
  | «export» m => simp only [step]; split <;> exact h
  | «matching» conds => simp only [step]; split <;> exact h

/-! ### the selection -/

theorem evalCond_congr (F : List Char → Option Rat) (m m' : Store) (c : Cond)
    (h : ∀ r, parseCondition F c = .ok r → sget m' r.1 = sget m r.1) : evalCond F m' c = evalCond F m c := by
  unfold evalCond
  cases hp : parseCondition F c with
  | error e => rfl
  | ok r =>
    obtain ⟨name, cmp, lit⟩ := r
    simp only []
    rw [h _ hp]

theorem evalConds_congr (F : List Char → Option Rat) (m m' : Store) (conds : List Cond)
    (h : ∀ n ∈ condNames F conds, sget m' n = sget m n) : evalConds F m' conds = evalConds F m conds := by
  induction conds with
  | nil => rfl
  | cons c t ih =>
    have h1 : evalCond F m' c = evalCond F m c := by
      apply evalCond_congr
      intro r hr
      apply h
      simp [condNames, hr]
    have h2 := ih (by
      intro n hn
      apply h
      simp only [condNames, List.filterMap_cons] at hn ⊢
      split <;> simp_all)
    simp only [evalConds, h1, h2]

theorem matching_congr (F : List Char → Option Rat) (m m' : Store) (conds : List Cond)
    (hn : ∀ n ∈ condNames F conds, sget m' n = sget m n)
    (hg : (sget m' isGoodName).map List.length = (sget m isGoodName).map List.length) :
    matching F m' conds = matching F m conds := by
  unfold matching
  rw [evalConds_congr F m m' conds hn]
  cases h1 : sget m' isGoodName <;> cases h2 : sget m isGoodName <;> simp [h1, h2] at hg ⊢
  rw [hg]

theorem matching_ok_good {F : List Char → Option Rat} {m : Store} {conds : List Cond} {v : List Bool}
    (h : matching F m conds = .ok v) : ∃ g, sget m isGoodName = some g := by
  unfold matching at h
  cases hg : sget m isGoodName with
  | none => simp [hg] at h
  | some g => exact ⟨g, rfl⟩

theorem matching_sset (F : List Char → Option Rat) (s : State) (hI : Inv s) (name : Name) (v : List Val) (hv : v.length = s.K)
    (conds : List Cond) (hn : name ∉ condNames F conds) (w : List Bool) (hm : matching F s.metrics conds = .ok w) :
    matching F (sset s.metrics name v) conds = .ok w := by
  rw [matching_congr F s.metrics (sset s.metrics name v) conds, hm]
  · intro n hnn
    exact sget_sset_other _ _ _ _ (by intro e; subst e; exact hn hnn)
  · obtain ⟨g, hg⟩ := matching_ok_good hm
    by_cases he : isGoodName = name
    · subst he
      rw [sget_sset_same, hg]
      simp [hv, hI.lens _ (sget_mem hg)]
    · rw [sget_sset_other _ _ _ _ he]

theorem addMetric_synced (F : List Char → Option Rat) (s : State) (name : Name) (v : List Val) (hI : Inv s) (h : Synced F s)
    (hn : ∀ sel, s.sel = some sel → name ∉ condNames F sel.conds) : Synced F (addMetric s name v).1 := by
  unfold addMetric
  split
  · rename_i hv
    intro sel hsel
    simp only [] at hsel ⊢
    exact matching_sset F s hI name v hv sel.conds (hn sel hsel) _ (h sel hsel)
  · exact h

theorem pickSubset_synced (F : List Char → Option Rat) (s : State) (conds : List Cond) (hI : Inv s) (h : Synced F s)
    (hc : chainIndName ∉ condNames F conds) : Synced F (pickSubset F s conds).1 := by
  unfold pickSubset
  cases hm : matching F s.metrics conds with
  | error e => exact h
  | ok valids =>
    simp only []
    have hl : (chainInd (subsetVector valids) (chainVector (subsetVector valids))).length = s.K := by
      simp [chainInd_length, subsetVector, subsetFrom_length, matching_valids_length hI hm]
    rw [addMetric_ok]
    · intro sel hsel
      simp only [Option.some.injEq] at hsel
      subst hsel
      simp only [subsetVector, subsetFrom_support]
      exact matching_sset F s hI _ _ hl conds hc valids hm
    · exact hl

theorem synced_step (F : List Char → Option Rat) (s : State) (op : Op) (hI : Inv s) (h : Synced F s)
    (hop : ∀ sel, s.sel = some sel → ∀ n ∈ op.stores, n ∉ condNames F sel.conds)
    (hpick : ∀ conds, op = .pickSubset conds → chainIndName ∉ condNames F conds) :
    Synced F (step F s op).1 := by
  -- a sequence of stores under names outside the stored conditions
  have hseq : ∀ ops : List (State → State × Except Err Out),
      (∀ o ∈ ops, ∀ s', (Inv s' ∧ Synced F s' ∧ s'.sel = s.sel) →
        (Inv (o s').1 ∧ Synced F (o s').1 ∧ (o s').1.sel = s.sel)) → Synced F (seqOps s ops).1 := by
    intro ops hops
    exact (seqOps_preserves (fun s' => Inv s' ∧ Synced F s' ∧ s'.sel = s.sel) ops hops s ⟨hI, h, rfl⟩).2.1
  have hadd : ∀ s' name v, (Inv s' ∧ Synced F s' ∧ s'.sel = s.sel) → name ∈ op.stores →
      (Inv (addMetric s' name v).1 ∧ Synced F (addMetric s' name v).1 ∧ (addMetric s' name v).1.sel = s.sel) := by
    intro s' name v hs' hmem
    refine ⟨addMetric_inv _ _ _ hs'.1, addMetric_synced F s' name v hs'.1 hs'.2.1 ?_, by rw [addMetric_sel]; exact hs'.2.2⟩
    intro sel hsel
    exact hop sel (hs'.2.2 ▸ hsel) name hmem
  cases op with
  | computeMetric name vals f mode =>
    exact computeMetric_preserves (Synced F) _ _ _ _ _ h (fun v => (hadd s name v ⟨hI, h, rfl⟩ (by simp [Op.stores])).2.1)
  | addMetric name vals => exact (hadd s name _ ⟨hI, h, rfl⟩ (by simp [Op.stores])).2.1
  | addFromInt name src =>
    exact addFromInt_preserves (Synced F) _ _ _ h (fun _ => (hadd s name _ ⟨hI, h, rfl⟩ (by simp [Op.stores])).2.1)
  | computeTimings =>
    apply hseq
    intro o ho s' hs'
    simp only [List.mem_cons, List.not_mem_nil, or_false] at ho
    rcases ho with rfl | rfl | rfl <;>
      exact computeMetric_preserves (fun t => Inv t ∧ Synced F t ∧ t.sel = s.sel) _ _ _ _ _ hs'
        (fun v => hadd s' _ v hs' (by simp [Op.stores]))
  | pickSubset conds => exact pickSubset_synced F s conds hI h (hpick conds rfl)
  | computeChainMetric name vals f asInt =>
    simp only [step, computeChainMetric]
    split
    · exact h
    · exact (hadd s name _ ⟨hI, h, rfl⟩ (by simp [Op.stores])).2.1
  | computeChainTimings =>
    apply hseq
    intro o ho s' hs'
    simp only [List.mem_cons, List.not_mem_nil, or_false] at ho
    have hcm : ∀ name vals f, name ∈ Op.computeChainTimings.stores →
        (Inv (computeChainMetric s' name vals f true).1 ∧ Synced F (computeChainMetric s' name vals f true).1 ∧
          (computeChainMetric s' name vals f true).1.sel = s.sel) := by
      intro name vals f hmem
      unfold computeChainMetric
      split
      · exact hs'
      · exact hadd s' name _ hs' hmem
    rcases ho with rfl | rfl | rfl | rfl | rfl
    · exact hcm _ _ _ (by simp [Op.stores])
    · exact hcm _ _ _ (by simp [Op.stores])
    · exact hcm _ _ _ (by simp [Op.stores])
    · exact hcm _ _ _ (by simp [Op.stores])
    · rw [computePositionInChain_eq _ hs'.1]
      split
      · exact hs'
      · exact hadd s' _ _ hs' (by simp [Op.stores])
  | «export» m => simp only [step]; split <;> exact h
  | «matching» conds => simp only [step]; split <;> exact h

/-! ### exports -/

theorem filter_range_selected (subset : List Int) :
    ((List.range subset.length).filter fun k => ((subset.map fun j => decide (0 ≤ j))[k]?).getD false) = selected subset := by
  unfold selected
  rw [indicesFrom_eq_filter]
  apply List.filter_congr
  intro k _
  simp only [List.getElem?_map]
  cases subset[k]? with
  | none => rfl
  | some j => simp; omega

theorem filter_range_true (v : List Bool) :
    ((List.range v.length).filter fun k => v[k]?.getD false) = indicesFrom (fun b => b) 0 v := by
  rw [indicesFrom_eq_filter]
  apply List.filter_congr
  intro k _
  cases v[k]? <;> rfl

end Container
