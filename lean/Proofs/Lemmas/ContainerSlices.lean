/- Helper lemmas about EmdModel.Container: run-length encoding of the label vector, the slice
   cache, and its agreement with label lookup. -/
import EmdModel.Container

namespace Container

/-- the label vector described by a list of (label, length) runs -/
def expand (runs : List (Int × Nat)) : List Int := runs.flatMap fun r => List.replicate r.2 r.1

@[simp] theorem expand_nil : expand [] = [] := rfl
@[simp] theorem expand_cons (r : Int × Nat) (t : List (Int × Nat)) :
    expand (r :: t) = List.replicate r.2 r.1 ++ expand t := by simp [expand]

theorem rle_cons (a : Int) (t : List Int) : rle (a :: t) =
    match rle t with
    | (b, n) :: r => if a = b then (b, n + 1) :: r else (a, 1) :: (b, n) :: r
    | [] => [(a, 1)] := by rw [rle]; rfl

theorem rle_expand (cv : List Int) : expand (rle cv) = cv := by
  fun_induction rle cv with
  | case1 => rfl
  | case2 t b n r h ih =>
    rw [h] at ih
    simp only [expand_cons] at ih ⊢
    rw [List.replicate_succ, List.cons_append, ih]
  | case3 a t b n r h hab ih =>
    rw [h] at ih
    simp only [expand_cons] at ih ⊢
    simp [ih]
  | case4 a t h ih =>
    rw [h] at ih
    simp at ih
    simp [← ih]

theorem rle_pos (cv : List Int) : ∀ r ∈ rle cv, 0 < r.2 := by
  fun_induction rle cv with
  | case1 => simp
  | case2 t b n r h ih =>
    rw [h] at ih
    intro x hx
    simp only [List.mem_cons] at hx
    rcases hx with rfl | hx
    · simp
    · exact ih x (by simp [hx])
  | case3 a t b n r h hab ih =>
    rw [h] at ih
    intro x hx
    simp only [List.mem_cons] at hx
    rcases hx with rfl | hx
    · simp
    · exact ih x (by simpa using hx)
  | case4 a t h ih => simp

theorem rle_eq_nil (cv : List Int) : rle cv = [] ↔ cv = [] := by
  constructor
  · intro h
    have := rle_expand cv
    rw [h] at this
    simpa using this.symm
  · rintro rfl; rfl

theorem rle_head (a : Int) (t : List Int) : ∃ n r, rle (a :: t) = (a, n) :: r := by
  rw [rle_cons]
  split
  · rename_i b n r h
    split
    · rename_i hab; subst hab; exact ⟨_, _, rfl⟩
    · exact ⟨_, _, rfl⟩
  · exact ⟨_, _, rfl⟩

theorem rle_replicate_append (l : Int) (n : Nat) (rest : List Int)
    (h : ∀ x, rest.head? = some x → x ≠ l) :
    rle (List.replicate (n + 1) l ++ rest) = (l, n + 1) :: rle rest := by
  induction n with
  | zero =>
    simp only [Nat.zero_add, List.replicate_one, List.singleton_append]
    cases rest with
    | nil => rfl
    | cons x t =>
      obtain ⟨m, r, hr⟩ := rle_head x t
      have hx : x ≠ l := h x (by simp)
      rw [rle_cons l, hr]
      simp [Ne.symm hx]
  | succ n ih =>
    rw [List.replicate_succ, List.cons_append, rle_cons, ih]
    simp

/-- consecutive runs carry different labels -/
def AdjDiff : List (Int × Nat) → Prop
  | a :: b :: t => a.1 ≠ b.1 ∧ AdjDiff (b :: t)
  | _ => True

theorem rle_expand_runs (runs : List (Int × Nat)) (hpos : ∀ r ∈ runs, 0 < r.2) (hadj : AdjDiff runs) :
    rle (expand runs) = runs := by
  induction runs with
  | nil => rfl
  | cons r t ih =>
    obtain ⟨l, n⟩ := r
    have hn : 0 < n := hpos (l, n) (by simp)
    obtain ⟨m, rfl⟩ : ∃ m, n = m + 1 := ⟨n - 1, by omega⟩
    rw [expand_cons]
    simp only []
    rw [rle_replicate_append]
    · rw [ih (fun r hr => hpos r (by simp [hr]))]
      cases t with
      | nil => trivial
      | cons b t' => exact hadj.2
    · intro x hx
      cases t with
      | nil => simp at hx
      | cons b t' =>
        obtain ⟨l2, n2⟩ := b
        have hn2 : 0 < n2 := hpos (l2, n2) (by simp)
        obtain ⟨m2, rfl⟩ : ∃ m2, n2 = m2 + 1 := ⟨n2 - 1, by omega⟩
        simp [List.replicate_succ] at hx
        subst hx
        exact Ne.symm hadj.1

/-! ### positions of a label -/

theorem indicesFrom_append {α : Type} (p : α → Bool) (i : Nat) (a b : List α) :
    indicesFrom p i (a ++ b) = indicesFrom p i a ++ indicesFrom p (i + a.length) b := by
  induction a generalizing i with
  | nil => simp [indicesFrom]
  | cons x t ih =>
    simp only [List.cons_append, indicesFrom, List.length_cons]
    split
    · simp [ih, Nat.add_assoc, Nat.add_comm 1]
    · simp [ih, Nat.add_assoc, Nat.add_comm 1]

theorem indicesFrom_replicate_true {α : Type} (p : α → Bool) (i n : Nat) (x : α) (h : p x = true) :
    indicesFrom p i (List.replicate n x) = List.range' i n := by
  induction n generalizing i with
  | zero => simp [indicesFrom]
  | succ n ih => simp [List.replicate_succ, indicesFrom, h, ih, List.range'_succ]

theorem indicesFrom_none {α : Type} (p : α → Bool) (i : Nat) (l : List α) (h : ∀ x ∈ l, p x = false) :
    indicesFrom p i l = [] := by
  induction l generalizing i with
  | nil => rfl
  | cons x t ih =>
    simp only [indicesFrom, h x (by simp)]
    simpa using ih (i + 1) (fun y hy => h y (by simp [hy]))

theorem mem_expand {runs : List (Int × Nat)} {l : Int} (h : l ∈ expand runs) : ∃ r ∈ runs, r.1 = l ∧ 0 < r.2 := by
  simp only [expand, List.mem_flatMap, List.mem_replicate] at h
  obtain ⟨r, hr, hn, rfl⟩ := h
  exact ⟨r, hr, rfl, by omega⟩

theorem mem_expand_of {runs : List (Int × Nat)} {r : Int × Nat} (hr : r ∈ runs) (hn : 0 < r.2) : r.1 ∈ expand runs := by
  simp only [expand, List.mem_flatMap, List.mem_replicate]
  exact ⟨r, hr, by omega, rfl⟩

/-- the labelled runs carry the labels c, c+1, …, c+m-1 in order -/
def LabelsFrom (c m : Nat) (runs : List (Int × Nat)) : Prop :=
  (runs.filter fun r => decide (0 ≤ r.1)).map (·.1) = (List.range' c m).map Int.ofNat

theorem labelsFrom_cons_neg {c m : Nat} {l : Int} {n : Nat} {t : List (Int × Nat)} (hl : ¬ 0 ≤ l) :
    LabelsFrom c m ((l, n) :: t) ↔ LabelsFrom c m t := by
  simp [LabelsFrom, hl]

theorem labelsFrom_cons_pos {c m : Nat} {l : Int} {n : Nat} {t : List (Int × Nat)} (hl : 0 ≤ l)
    (h : LabelsFrom c m ((l, n) :: t)) : ∃ m', m = m' + 1 ∧ l = (c : Int) ∧ LabelsFrom (c + 1) m' t := by
  simp only [LabelsFrom, List.filter_cons, hl, decide_true, ite_true, List.map_cons] at h
  cases m with
  | zero => simp at h
  | succ m' =>
    simp only [List.range'_succ, List.map_cons, List.cons.injEq] at h
    exact ⟨m', rfl, h.1, h.2⟩

theorem labelsFrom_label_ge {c m : Nat} {runs : List (Int × Nat)} (h : LabelsFrom c m runs) :
    ∀ r ∈ runs, 0 ≤ r.1 → (c : Int) ≤ r.1 ∧ r.1 < (c : Int) + m := by
  intro r hr h0
  have : r.1 ∈ (runs.filter fun r => decide (0 ≤ r.1)).map (·.1) :=
    List.mem_map.mpr ⟨r, List.mem_filter.mpr ⟨hr, by simpa using h0⟩, rfl⟩
  rw [h] at this
  simp only [List.mem_map, List.mem_range'_1] at this
  obtain ⟨k, ⟨hk1, hk2⟩, hk⟩ := this
  have : r.1 = (k : Int) := by rw [← hk]; rfl
  omega

theorem labelsFrom_not_mem {c m : Nat} {t : List (Int × Nat)} (h : LabelsFrom (c + 1) m t) :
    ∀ x ∈ expand t, decide (x = (c : Int)) = false := by
  intro x hx
  obtain ⟨r, hr, rfl, _⟩ := mem_expand hx
  by_cases h0 : 0 ≤ r.1
  · have := (labelsFrom_label_ge h r hr h0).1
    simp; omega
  · simp; omega

/-- Core lemma: under `LabelsFrom`, the j-th slice is exactly the set of positions of label c+j. -/
theorem slice_indices (runs : List (Int × Nat)) (c m off j : Nat) (hpos : ∀ r ∈ runs, 0 < r.2)
    (h : LabelsFrom c m runs) (hj : j < m) :
    ∃ a b, (sliceFrom off runs)[j]? = some (a, b) ∧ a < b ∧ off ≤ a ∧
      b ≤ off + (expand runs).length ∧
      indicesFrom (fun l => decide (l = ((c + j : Nat) : Int))) off (expand runs) = List.range' a (b - a) := by
  induction runs generalizing c m off j with
  | nil =>
    simp [LabelsFrom] at h
    omega
  | cons r t ih =>
    obtain ⟨l, n⟩ := r
    have hn : 0 < n := hpos (l, n) (by simp)
    have hpos' : ∀ r ∈ t, 0 < r.2 := fun r hr => hpos r (by simp [hr])
    by_cases hl : 0 ≤ l
    · obtain ⟨m', rfl, rfl, h'⟩ := labelsFrom_cons_pos hl h
      cases j with
      | zero =>
        refine ⟨off, off + n, by simp [sliceFrom], by omega, by omega, by simp, ?_⟩
        rw [expand_cons, indicesFrom_append]
        simp only []
        rw [indicesFrom_replicate_true _ _ _ _ (by simp), indicesFrom_none _ _ _ (by simpa using labelsFrom_not_mem h')]
        simp
      | succ j' =>
        obtain ⟨a, b, h1, h2, h3, h4, h5⟩ := ih (c + 1) m' (off + n) j' hpos' h' (by omega)
        refine ⟨a, b, by simpa [sliceFrom] using h1, h2, by omega, by simp at h4 ⊢; omega, ?_⟩
        rw [expand_cons, indicesFrom_append]
        simp only [List.length_replicate]
        rw [indicesFrom_none _ _ (List.replicate n _) (by intro x hx; simp at hx; simp [hx.2]; omega)]
        have : c + 1 + j' = c + (j' + 1) := by omega
        rw [this] at h5
        simpa using h5
    · rw [labelsFrom_cons_neg hl] at h
      obtain ⟨a, b, h1, h2, h3, h4, h5⟩ := ih c m (off + n) j hpos' h hj
      refine ⟨a, b, by simpa [sliceFrom, hl] using h1, h2, by omega, by simp at h4 ⊢; omega, ?_⟩
      rw [expand_cons, indicesFrom_append]
      simp only [List.length_replicate]
      rw [indicesFrom_none _ _ (List.replicate n _) (by intro x hx; simp at hx; simp [hx.2]; omega)]
      simpa using h5

theorem sliceFrom_length (runs : List (Int × Nat)) (off : Nat) :
    (sliceFrom off runs).length = (runs.filter fun r => decide (0 ≤ r.1)).length := by
  induction runs generalizing off with
  | nil => rfl
  | cons r t ih =>
    obtain ⟨l, n⟩ := r
    by_cases hl : 0 ≤ l <;> simp [sliceFrom, hl, ih]

/-! ### well-formed label vectors -/

/-- the labelled runs of the vector carry the labels 0 … K-1 in temporal order
    (so every label is one contiguous block); other runs carry negative labels -/
def WF (cv : List Int) (K : Nat) : Prop := LabelsFrom 0 K (rle cv)

/-- what the container's label vector satisfies: well formed, and complete as soon as there is a cycle -/
def CvOK (cv : List Int) (K : Nat) : Prop := WF cv K ∧ (0 < K → ∀ l ∈ cv, 0 ≤ l)

theorem sliceCache_length {cv : List Int} {K : Nat} (h : WF cv K) : (sliceCache cv).length = K := by
  unfold sliceCache
  rw [sliceFrom_length]
  have := congrArg List.length h
  simpa using this

theorem slice_spec {cv : List Int} {K : Nat} (h : WF cv K) (k : Nat) (hk : k < K) :
    ∃ a b, (sliceCache cv)[k]? = some (a, b) ∧ a < b ∧ b ≤ cv.length ∧
      indicesOf cv (k : Int) = List.range' a (b - a) := by
  obtain ⟨a, b, h1, h2, _, h4, h5⟩ := slice_indices (rle cv) 0 K 0 k (rle_pos cv) h hk
  rw [rle_expand] at h4 h5
  refine ⟨a, b, h1, h2, by omega, ?_⟩
  simpa [indicesOf] using h5

theorem foldl_max_ge_init (l : List Int) (a : Int) : a ≤ l.foldl max a := by
  induction l generalizing a with
  | nil => simp
  | cons x t ih => simp only [List.foldl_cons]; have := ih (max a x); omega

theorem foldl_max_ge_mem (l : List Int) (a : Int) : ∀ x ∈ l, x ≤ l.foldl max a := by
  induction l generalizing a with
  | nil => simp
  | cons y t ih =>
    intro x hx
    simp only [List.foldl_cons]
    rcases List.mem_cons.mp hx with rfl | hx
    · have := foldl_max_ge_init t (max a x); omega
    · exact ih _ x hx

theorem foldl_max_le (l : List Int) (a m : Int) (ha : a ≤ m) (h : ∀ x ∈ l, x ≤ m) : l.foldl max a ≤ m := by
  induction l generalizing a with
  | nil => simpa
  | cons y t ih =>
    simp only [List.foldl_cons]
    exact ih _ (by have := h y (by simp); omega) (fun x hx => h x (by simp [hx]))

theorem mem_cv_label {cv : List Int} {K : Nat} (h : WF cv K) {l : Int} (hl : l ∈ cv) (h0 : 0 ≤ l) : l < K := by
  rw [← rle_expand cv] at hl
  obtain ⟨r, hr, rfl, _⟩ := mem_expand hl
  have := (labelsFrom_label_ge h r hr h0).2
  omega

theorem label_mem_cv {cv : List Int} {K : Nat} (h : WF cv K) (k : Nat) (hk : k < K) : (k : Int) ∈ cv := by
  have : (k : Int) ∈ (List.range' 0 K).map Int.ofNat := List.mem_map.mpr ⟨k, by simp; omega, rfl⟩
  rw [← h] at this
  obtain ⟨r, hr, hrk⟩ := List.mem_map.mp this
  have hr' := (List.mem_filter.mp hr).1
  rw [← rle_expand cv, ← hrk]
  exact mem_expand_of hr' (rle_pos cv r hr')

theorem nLabels_eq {cv : List Int} {K : Nat} (h : WF cv K) : nLabels cv = K := by
  have hle : maxLabel cv ≤ (K : Int) - 1 := by
    apply foldl_max_le _ _ _ (by omega)
    intro x hx
    by_cases h0 : 0 ≤ x
    · have := mem_cv_label h hx h0; omega
    · omega
  have hge : (K : Int) - 1 ≤ maxLabel cv := by
    cases K with
    | zero => have := foldl_max_ge_init cv (-1); simpa [maxLabel] using this
    | succ k =>
      have := foldl_max_ge_mem cv (-1) (k : Int) (label_mem_cv h k (by omega))
      simp only [maxLabel]; omega
  unfold nLabels
  omega

/-! ### values through positions -/

theorem samplesOf_eq_aux (p : Int → Bool) (cv : List Int) (vals pre : List Rat) (h : vals.length = cv.length) :
    ((cv.zip vals).filter fun q => p q.1).map (·.2) =
      (indicesFrom p pre.length cv).map fun j => (pre ++ vals)[j]?.getD 0 := by
  induction cv generalizing vals pre with
  | nil => simp [indicesFrom]
  | cons x t ih =>
    cases vals with
    | nil => simp at h
    | cons v vs =>
      have hl : vs.length = t.length := by simpa using h
      have := ih vs (pre ++ [v]) hl
      simp only [List.length_append, List.length_singleton, List.append_assoc, List.singleton_append] at this
      simp only [List.zip_cons_cons, List.filter_cons, indicesFrom]
      by_cases hp : p x
      · simp [hp, this]
      · simp [hp, this]

theorem samplesOf_eq_map (cv : List Int) (vals : List Rat) (k : Int) (h : vals.length = cv.length) :
    samplesOf cv vals k = (indicesOf cv k).map fun j => vals[j]?.getD 0 := by
  have := samplesOf_eq_aux (fun l => decide (l = k)) cv vals [] h
  simpa [samplesOf, indicesOf] using this

theorem sliceVals_eq_map (vals : List Rat) (a b : Nat) (hab : a ≤ b) (hb : b ≤ vals.length) :
    sliceVals vals (a, b) = (List.range' a (b - a)).map fun j => vals[j]?.getD 0 := by
  apply List.ext_getElem
  · simp [sliceVals]; omega
  · intro i h1 h2
    simp [sliceVals] at h1 ⊢
    have : a + i < vals.length := by omega
    simp [List.getElem?_eq_getElem this]

/-- Slice-cache result = label-lookup result, per cycle. -/
theorem slice_eq_samples {cv : List Int} {K : Nat} (h : WF cv K) (vals : List Rat) (hv : vals.length = cv.length)
    (k : Nat) (hk : k < K) :
    ∃ s, (sliceCache cv)[k]? = some s ∧ sliceVals vals s = samplesOf cv vals (k : Int) := by
  obtain ⟨a, b, h1, h2, h3, h4⟩ := slice_spec h k hk
  refine ⟨(a, b), h1, ?_⟩
  rw [samplesOf_eq_map _ _ _ hv, h4, sliceVals_eq_map _ _ _ (by omega) (by omega)]

theorem cycle_cache_eq_lookup (f : List Rat → Rat) {cv : List Int} {K : Nat} (h : WF cv K) (vals : List Rat)
    (hv : vals.length = cv.length) :
    sliceStat f vals ((sliceCache cv).map some) = lookupStat f cv vals := by
  apply List.ext_getElem?
  intro k
  unfold sliceStat lookupStat
  rw [nLabels_eq h]
  by_cases hk : k < K
  · obtain ⟨s, hs, he⟩ := slice_eq_samples h vals hv k hk
    simp [List.getElem?_map, hs, List.getElem?_range hk, he]
  · have h1 : (sliceCache cv).length ≤ k := by rw [sliceCache_length h]; omega
    simp [List.getElem?_map, List.getElem?_eq_none h1, List.getElem?_eq_none (show (List.range K).length ≤ k by simp; omega)]

/-! ### augmented segments -/

theorem augSlices_getElem? (thr : Rat) (ph : List Rat) (prev : Option (Nat × Nat)) (sl : List (Nat × Nat)) (k : Nat)
    (s : Nat × Nat) (hs : sl[k]? = some s) :
    (augSlices thr ph prev sl)[k]? = some
      (match (match k with | 0 => prev | k' + 1 => sl[k']?) with
       | none => none
       | some p => (firstAbove thr ph (List.range' p.1 (p.2 - p.1))).map fun i => (i, s.2)) := by
  induction sl generalizing prev k with
  | nil => simp at hs
  | cons x t ih =>
    cases k with
    | zero =>
      simp only [List.getElem?_cons_zero, Option.some.injEq] at hs
      subst hs
      simp only [augSlices, List.getElem?_cons_zero]
      rfl
    | succ k' =>
      simp only [List.getElem?_cons_succ] at hs
      have := ih (some x) k' hs
      simp only [augSlices, List.getElem?_cons_succ, this]
      cases k' with
      | zero => simp
      | succ k'' => simp

theorem augSlices_length (thr : Rat) (ph : List Rat) (prev : Option (Nat × Nat)) (sl : List (Nat × Nat)) :
    (augSlices thr ph prev sl).length = sl.length := by
  induction sl generalizing prev with
  | nil => rfl
  | cons x t ih => simp [augSlices, ih]

theorem range'_getLast? (a n : Nat) (hn : 0 < n) : (List.range' a n).getLast? = some (a + n - 1) := by
  obtain ⟨m, rfl⟩ : ∃ m, n = m + 1 := ⟨n - 1, by omega⟩
  rw [List.range'_concat]
  simp

/-- The augmented segment found by label lookup is the one stored in the augmented slice cache. -/
theorem aug_eq {cv : List Int} {K : Nat} (h : CvOK cv K) (thr : Rat) (ph : List Rat) (k : Nat) (hk : k < K) :
    (augSlices thr ph none (sliceCache cv))[k]? = some (augInds thr ph cv k) := by
  obtain ⟨a, b, h1, h2, h3, h4⟩ := slice_spec h.1 k hk
  rw [augSlices_getElem? thr ph none (sliceCache cv) k (a, b) h1]
  congr 1
  unfold augInds
  cases k with
  | zero =>
    have : indicesOf cv (-1) = [] := by
      apply indicesFrom_none
      intro x hx
      have := h.2 hk x hx
      simp; omega
    simp [this, firstAbove]
  | succ k' =>
    obtain ⟨a', b', h1', h2', h3', h4'⟩ := slice_spec h.1 k' (by omega)
    have e : ((k' + 1 : Nat) : Int) - 1 = (k' : Int) := by omega
    rw [e, h4', h4, range'_getLast? _ _ (by omega)]
    simp only [h1']
    cases firstAbove thr ph (List.range' a' (b' - a')) with
    | none => rfl
    | some t => simp; omega

theorem aug_cache_eq_lookup (f : List Rat → Rat) {cv : List Int} {K : Nat} (h : CvOK cv K) (thr : Rat) (ph vals : List Rat) :
    sliceStat f vals (augSlices thr ph none (sliceCache cv)) = lookupAugStat f thr ph cv vals := by
  apply List.ext_getElem?
  intro k
  unfold sliceStat lookupAugStat
  rw [nLabels_eq h.1]
  by_cases hk : k < K
  · simp only [List.getElem?_map, aug_eq h thr ph k hk, List.getElem?_range hk, Option.map_some]
  · have h1 : (augSlices thr ph none (sliceCache cv)).length ≤ k := by
      rw [augSlices_length, sliceCache_length h.1]; omega
    simp [List.getElem?_map, List.getElem?_eq_none h1, List.getElem?_eq_none (show (List.range K).length ≤ k by simp; omega)]

/-! ### the code-shaped lookup routes: integer-array indexing raises on a short value vector -/

/-- the vector `cycleStat` returns when it returns: the slice-cache statistic with the cache on, the
    label-lookup statistic with the cache off -/
def cycleStatV (cache : Bool) (mode : Mode) (f : List Rat → Rat) (thr : Rat) (ph : List Rat)
    (cv : List Int) (vals : List Rat) : List Val :=
  match cache, mode with
  | false, .cycle => lookupStat f cv vals
  | true, .cycle => sliceStat f vals ((sliceCache cv).map some)
  | false, .augmented => lookupAugStat f thr ph cv vals
  | true, .augmented => sliceStat f vals (augSlices thr ph none (sliceCache cv))

theorem collect_map_ok {α : Type} (l : List α) (g : α → Val) :
    collect (l.map fun a => (.ok (g a) : Except Err Val)) = .ok (l.map g) := by
  induction l with
  | nil => rfl
  | cons a t ih => simp [collect, ih]

theorem collect_congr_ok {α : Type} (l : List α) (g : α → Except Err Val) (g' : α → Val)
    (h : ∀ a ∈ l, g a = .ok (g' a)) : collect (l.map g) = .ok (l.map g') := by
  rw [← collect_map_ok]
  congr 1
  exact List.map_congr_left h

/-- the loop raises IndexError as soon as one iteration does (no other error kind occurs) -/
theorem collect_index (l : List (Except Err Val)) (hmem : .error .index ∈ l)
    (hall : ∀ x ∈ l, ∀ e, x = .error e → e = .index) : collect l = .error .index := by
  induction l with
  | nil => simp at hmem
  | cons x t ih =>
    cases x with
    | error e =>
      have := hall (.error e) (by simp) e rfl
      subst this; rfl
    | ok v =>
      have ht : Except.error Err.index ∈ t := by simpa using hmem
      have := ih ht (fun x hx => hall x (by simp [hx]))
      simp [collect, this]

theorem fancy_ok (vals : List Rat) (inds : List Nat) (h : ∀ i ∈ inds, i < vals.length) :
    fancy vals inds = .ok (inds.map fun i => vals[i]?.getD 0) := by
  unfold fancy
  rw [if_pos]
  simpa using h

theorem fancy_error (vals : List Rat) (inds : List Nat) (i : Nat) (hi : i ∈ inds) (h : vals.length ≤ i) :
    fancy vals inds = .error .index := by
  unfold fancy
  rw [if_neg]
  simp only [List.all_eq_true, decide_eq_true_eq]
  intro hall
  have := hall i hi
  omega

theorem fancy_error_kind (vals : List Rat) (inds : List Nat) (e : Err) (g : List Rat → Val)
    (h : (fancy vals inds).map g = .error e) : e = .index := by
  unfold fancy at h
  split at h
  · cases h
  · simp [Except.map] at h; exact h.symm

theorem indicesFrom_lt {α : Type} (p : α → Bool) (i : Nat) (l : List α) : ∀ j ∈ indicesFrom p i l, j < i + l.length := by
  induction l generalizing i with
  | nil => simp [indicesFrom]
  | cons a t ih =>
    intro j hj
    simp only [indicesFrom] at hj
    have hrec : ∀ j ∈ indicesFrom p (i + 1) t, j < i + (a :: t).length := by
      intro j hj; have := ih (i + 1) j hj; simp only [List.length_cons]; omega
    split at hj
    · rcases List.mem_cons.mp hj with rfl | hj
      · simp
      · exact hrec j hj
    · exact hrec j hj

theorem indicesOf_lt (cv : List Int) (k : Int) : ∀ i ∈ indicesOf cv k, i < cv.length := by
  intro i hi
  have := indicesFrom_lt _ 0 cv i hi
  omega

/-- With one value per sample the label lookup never raises, and returns `lookupStat`. -/
theorem lookupStatE_ok (f : List Rat → Rat) (cv : List Int) (vals : List Rat) (hv : vals.length = cv.length) :
    lookupStatE f cv vals = .ok (lookupStat f cv vals) := by
  unfold lookupStatE lookupStat
  apply collect_congr_ok
  intro k _
  rw [fancy_ok _ _ (by intro i hi; have := indicesOf_lt cv _ i hi; omega), samplesOf_eq_map _ _ _ hv]
  rfl

theorem fancy_range' (vals : List Rat) (a b : Nat) (hb : b ≤ vals.length) :
    fancy vals (List.range' a (b - a)) = .ok (sliceVals vals (a, b)) := by
  rw [fancy_ok _ _ (by intro i hi; simp [List.mem_range'_1] at hi; omega)]
  by_cases hab : a ≤ b
  · rw [sliceVals_eq_map _ _ _ hab hb]
  · have : b - a = 0 := by omega
    simp [this, sliceVals]

theorem augInds_stop_le (thr : Rat) (ph : List Rat) (cv : List Int) (k : Nat) (s : Nat × Nat)
    (h : augInds thr ph cv k = some s) : s.2 ≤ cv.length := by
  unfold augInds at h
  split at h
  · cases h
  · split at h
    · cases h
    · rename_i e he
      simp only [Option.some.injEq] at h
      subst h
      have := indicesOf_lt cv _ e (List.mem_of_getLast? he)
      simp only []
      omega

/-- With one value per sample the augmented lookup never raises, and returns `lookupAugStat`. -/
theorem lookupAugStatE_ok (f : List Rat → Rat) (thr : Rat) (ph : List Rat) (cv : List Int) (vals : List Rat)
    (hv : vals.length = cv.length) :
    lookupAugStatE f thr ph cv vals = .ok (lookupAugStat f thr ph cv vals) := by
  unfold lookupAugStatE lookupAugStat
  apply collect_congr_ok
  intro k _
  cases h : augInds thr ph cv k with
  | none => rfl
  | some s =>
    have := augInds_stop_le thr ph cv k s h
    simp only []
    rw [fancy_range' _ _ _ (by omega)]
    rfl

/-- With one value per sample no branch of `compute_cycle_metric` raises. -/
theorem cycleStat_eq_ok (cache : Bool) (mode : Mode) (f : List Rat → Rat) (thr : Rat) (ph : List Rat)
    (cv : List Int) (vals : List Rat) (hv : vals.length = cv.length) :
    cycleStat cache mode f thr ph cv vals = .ok (cycleStatV cache mode f thr ph cv vals) := by
  cases cache <;> cases mode <;> simp only [cycleStat, cycleStatV]
  · exact lookupStatE_ok f cv vals hv
  · exact lookupAugStatE_ok f thr ph cv vals hv

/-- The slice-cache branches never raise, whatever the length of the value vector. -/
theorem cycleStat_cache_ok (mode : Mode) (f : List Rat → Rat) (thr : Rat) (ph : List Rat)
    (cv : List Int) (vals : List Rat) :
    cycleStat true mode f thr ph cv vals = .ok (cycleStatV true mode f thr ph cv vals) := by
  cases mode <;> rfl

/-- The lookup branch raises IndexError when some labelled sample has no value. -/
theorem lookupStatE_short (f : List Rat → Rat) (cv : List Int) (vals : List Rat) (i : Nat) (k : Nat)
    (hk : k < nLabels cv) (hi : i ∈ indicesOf cv (k : Int)) (hs : vals.length ≤ i) :
    lookupStatE f cv vals = .error .index := by
  unfold lookupStatE
  apply collect_index
  · refine List.mem_map.mpr ⟨k, by simpa using hk, ?_⟩
    rw [fancy_error vals _ i hi hs]; rfl
  · intro x hx e he
    obtain ⟨k', _, rfl⟩ := List.mem_map.mp hx
    exact fancy_error_kind _ _ e _ he

/-- Every branch of `compute_cycle_metric` gives the same vector with and without the cache. -/
theorem cycleStat_cache_irrelevant (mode : Mode) (f : List Rat → Rat) (thr : Rat) (ph : List Rat) {cv : List Int} {K : Nat}
    (h : CvOK cv K) (vals : List Rat) (hv : vals.length = cv.length) :
    cycleStatV true mode f thr ph cv vals = cycleStatV false mode f thr ph cv vals := by
  cases mode with
  | cycle => exact cycle_cache_eq_lookup f h.1 vals hv
  | augmented => exact aug_cache_eq_lookup f h thr ph vals

theorem cycleStat_length (cache : Bool) (mode : Mode) (f : List Rat → Rat) (thr : Rat) (ph : List Rat) {cv : List Int} {K : Nat}
    (h : WF cv K) (vals : List Rat) : (cycleStatV cache mode f thr ph cv vals).length = K := by
  cases cache <;> cases mode <;>
    simp [cycleStatV, lookupStat, lookupAugStat, sliceStat, nLabels_eq h, sliceCache_length h, augSlices_length]

end Container
