/- Helper lemmas about the cap / counter logic of mask_sift, ensemble_sift, complete_ensemble_sift
   and sift_second_layer in EmdModel.Sift (C03). -/
import Proofs.Lemmas.SiftOuter

namespace Sift

/-! ### mask_sift cap -/

theorem effCap_le_cap (cap : Nat) (nf : Option Nat) : effCap cap nf ≤ cap := by
  unfold effCap; split
  · split <;> omega
  · omega

theorem effCap_le_nfreqs (cap m : Nat) : effCap cap (some m) ≤ m := by
  unfold effCap; simp only []; split <;> omega

theorem effCap_eq_min (cap m : Nat) : effCap cap (some m) = min cap m := by
  unfold effCap; simp only []; split <;> omega

theorem effCap_pos (cap : Nat) (nf : Option Nat) (hc : 0 < cap) (hm : ∀ m, nf = some m → 0 < m) :
    0 < effCap cap nf := by
  unfold effCap; split
  · next m => have := hm m rfl; split <;> omega
  · exact hc

theorem effCap_mono (k K : Nat) (nf : Option Nat) (h : k ≤ K) : effCap k nf ≤ effCap K nf := by
  unfold effCap; split
  · split <;> split <;> omega
  · exact h

/-! ### ensemble averaging -/

theorem maxWidth_foldl_le (members : List (List Sig)) (k : Nat) (h : ∀ m ∈ members, m.length ≤ k) :
    ∀ w, w ≤ k → members.foldl (fun w m => if w < m.length then m.length else w) w ≤ k := by
  induction members with
  | nil => intro w hw; simpa using hw
  | cons m ms ih =>
    intro w hw
    simp only [List.foldl_cons]
    apply ih (fun m' hm' => h m' (by simp [hm']))
    have := h m (by simp)
    split <;> omega

theorem maxWidth_le (members : List (List Sig)) (k : Nat) (h : ∀ m ∈ members, m.length ≤ k) :
    maxWidth members ≤ k :=
  maxWidth_foldl_le members k h 0 (Nat.zero_le k)

theorem maxWidth_foldl_ge (members : List (List Sig)) :
    ∀ w, w ≤ members.foldl (fun w m => if w < m.length then m.length else w) w ∧
      ∀ m ∈ members, m.length ≤ members.foldl (fun w m => if w < m.length then m.length else w) w := by
  induction members with
  | nil => intro w; simp
  | cons m ms ih =>
    intro w
    simp only [List.foldl_cons]
    obtain ⟨h1, h2⟩ := ih (if w < m.length then m.length else w)
    have hw : w ≤ (if w < m.length then m.length else w) ∧ m.length ≤ (if w < m.length then m.length else w) := by
      split <;> omega
    refine ⟨Nat.le_trans hw.1 h1, ?_⟩
    intro m' hm'
    simp only [List.mem_cons] at hm'
    rcases hm' with rfl | hm'
    · exact Nat.le_trans hw.2 h1
    · exact h2 m' hm'

/-- the width is that of the widest member: no member's component is dropped -/
theorem le_maxWidth (members : List (List Sig)) : ∀ m ∈ members, m.length ≤ maxWidth members :=
  (maxWidth_foldl_ge members 0).2

theorem ensembleCols_length (n : Nat) (members : List (List Sig)) :
    (ensembleCols n members).length = maxWidth members := by
  simp [ensembleCols]

theorem colOr_length (n : Nat) (m : List Sig) (j : Nat) (h : ∀ c ∈ m, c.length = n) :
    (colOr n m j).length = n := by
  unfold colOr
  cases hj : m[j]? with
  | none => simp
  | some c => simpa using h c (List.mem_of_getElem? hj)

theorem meanOf_length (n : Nat) (vs : List Sig) (h : ∀ v ∈ vs, v.length = n) : (meanOf n vs).length = n := by
  simp [meanOf, vsum_length n vs h]

/-! ### complete_ensemble_sift counter -/

theorem ceemdLoop_le_cap (Nx : List Sig → Sig → Sig) (thr : Rat) (x : Sig) (k : Nat) :
    ∀ (fuel : Nat) (cols : List Sig), cols.length < k →
      (ceemdLoop Nx thr (some k) x fuel cols).1.length ≤ k := by
  intro fuel
  induction fuel with
  | zero => intro cols h; simp [ceemdLoop]; omega
  | succ fuel ih =>
    intro cols h
    unfold ceemdLoop
    simp only []
    split
    · simp; omega
    · next hc =>
      apply ih
      simp only [Bool.or_eq_true, not_or, Bool.not_eq_true] at hc
      have h2 : ¬ (k = cols.length + 1) := by
        intro hk
        have := hc.1.2
        simp [hk] at this
      simp; omega

theorem ceemdLoop_prefix (Nx : List Sig → Sig → Sig) (thr : Rat) (cap : Option Nat) (x : Sig) :
    ∀ (fuel : Nat) (cols : List Sig), cols <+: (ceemdLoop Nx thr cap x fuel cols).1 := by
  intro fuel
  induction fuel with
  | zero => intro cols; simp [ceemdLoop]
  | succ fuel ih =>
    intro cols
    unfold ceemdLoop
    simp only []
    split
    · exact List.prefix_append _ _
    · exact List.IsPrefix.trans (List.prefix_append _ _) (ih _)

/-- every column of the complete-ensemble loop has the input's length when the ensemble step preserves it -/
theorem ceemdLoop_lengths (Nx : List Sig → Sig → Sig) (thr : Rat) (cap : Option Nat) (x : Sig)
    (hN : ∀ cols p, p.length = x.length → (Nx cols p).length = x.length) :
    ∀ (fuel : Nat) (cols : List Sig), (∀ c ∈ cols, c.length = x.length) →
      ∀ c ∈ (ceemdLoop Nx thr cap x fuel cols).1, c.length = x.length := by
  intro fuel
  induction fuel with
  | zero => intro cols hl; simpa [ceemdLoop] using hl
  | succ fuel ih =>
    intro cols hl
    have hp : (Sig.sub x (Sig.vsum x.length cols)).length = x.length := resid_length x cols hl
    have hl' : ∀ d ∈ cols ++ [Nx cols (Sig.sub x (Sig.vsum x.length cols))], d.length = x.length := by
      intro d hd
      simp only [List.mem_append, List.mem_singleton] at hd
      rcases hd with hd | rfl
      · exact hl d hd
      · exact hN _ _ hp
    unfold ceemdLoop
    simp only []
    split
    · exact hl'
    · exact ih _ hl'

/-! ### second layer -/

theorem padCols_length (n k : Nat) (cols : List Sig) : (padCols n k cols).length = k := by
  simp [padCols]

theorem padCols_col_length (n k : Nat) (cols : List Sig) (h : ∀ c ∈ cols, c.length = n) :
    ∀ c ∈ padCols n k cols, c.length = n := by
  intro c hc
  simp only [padCols, List.mem_map, List.mem_range] at hc
  obtain ⟨j, _, rfl⟩ := hc
  exact colOr_length n cols j h

theorem padCols_getElem (n k : Nat) (cols : List Sig) (j : Nat) (hj : j < cols.length) (hk : j < k) :
    (padCols n k cols)[j]? = cols[j]? := by
  simp [padCols, colOr, hk, List.getElem?_eq_getElem hj]

theorem padCols_zero (n k : Nat) (cols : List Sig) (j : Nat) (hj : cols.length ≤ j) (hk : j < k) :
    (padCols n k cols)[j]? = some (Sig.zeros n) := by
  simp [padCols, colOr, hk, List.getElem?_eq_none hj]

/-! ### mask second layer -/

/-- anatomy of a returning `mask_sift_second_layer` loop started at column index `s` -/
theorem maskSecondLoop_ok (MS : Nat → Nat → Sig → Option (List Sig)) (n k nfreqs : Nat) :
    ∀ (l : List Sig) (s : Nat) (bs : List (List Sig)), maskSecondLoop MS n k nfreqs s l = .ok bs →
      bs.length = l.length ∧ (∀ j, j < l.length → s + j < nfreqs) ∧
      ∀ j col, l[j]? = some col → ∃ cols, MS (s + j) k col = some cols ∧ bs[j]? = some (padCols n k cols) := by
  intro l
  induction l with
  | nil =>
    intro s bs h
    simp only [maskSecondLoop, L2Result.ok.injEq] at h
    subst h
    simp
  | cons col rest ih =>
    intro s bs h
    unfold maskSecondLoop at h
    split at h
    · cases h
    · next hlt =>
      split at h
      · cases h
      · next cols hms =>
        split at h
        · next bs' hrec =>
          simp only [L2Result.ok.injEq] at h
          subst h
          obtain ⟨h1, h2, h3⟩ := ih (s + 1) bs' hrec
          refine ⟨by simp [h1], ?_, ?_⟩
          · intro j hj
            cases j with
            | zero => omega
            | succ j => have := h2 j (by simp at hj; omega); omega
          · intro j c hj
            cases j with
            | zero =>
              simp only [List.getElem?_cons_zero, Option.some.injEq] at hj
              subst hj
              exact ⟨cols, by simpa using hms, by simp⟩
            | succ j =>
              simp only [List.getElem?_cons_succ] at hj
              obtain ⟨cs, e1, e2⟩ := h3 j c hj
              exact ⟨cs, by rw [← e1]; congr 1; omega, by simpa using e2⟩
        · next e hne => exact (hne bs h).elim

/-- the loop returns when enough masks are left for every column and no column's mask sift raises -/
theorem maskSecondLoop_total (MS : Nat → Nat → Sig → Option (List Sig)) (n k nfreqs : Nat) :
    ∀ (l : List Sig) (s : Nat), (∀ j, j < l.length → s + j < nfreqs) →
      (∀ j col, l[j]? = some col → MS (s + j) k col ≠ none) →
      ∃ bs, maskSecondLoop MS n k nfreqs s l = .ok bs := by
  intro l
  induction l with
  | nil => intro s _ _; exact ⟨[], rfl⟩
  | cons col rest ih =>
    intro s hf hm
    have h0 := hf 0 (by simp)
    have hc := hm 0 col (by simp)
    obtain ⟨bs, hb⟩ := ih (s + 1) (fun j hj => by have := hf (j + 1) (by simp; omega); omega)
      (fun j c hj => by have := hm (j + 1) c (by simpa using hj); rwa [show s + (j + 1) = s + 1 + j by omega] at this)
    cases hms : MS s k col with
    | none => exact absurd hms (by simpa using hc)
    | some cols =>
      refine ⟨padCols n k cols :: bs, ?_⟩
      unfold maskSecondLoop
      rw [if_neg (by omega)]
      simp only [hms, hb]

/-- exhausted masks: the first column without a mask raises IndexError, provided the earlier columns' sifts return -/
theorem maskSecondLoop_exhausted (MS : Nat → Nat → Sig → Option (List Sig)) (n k nfreqs : Nat) :
    ∀ (l : List Sig) (s : Nat), s ≤ nfreqs → nfreqs < s + l.length →
      (∀ j col, s + j < nfreqs → l[j]? = some col → MS (s + j) k col ≠ none) →
      maskSecondLoop MS n k nfreqs s l = .indexError nfreqs := by
  intro l
  induction l with
  | nil => intro s h1 h2 _; simp at h2; omega
  | cons col rest ih =>
    intro s h1 h2 hm
    unfold maskSecondLoop
    by_cases hs : nfreqs ≤ s
    · rw [if_pos hs]; congr 1; omega
    · rw [if_neg hs]
      have hc := hm 0 col (by omega) (by simp)
      cases hms : MS s k col with
      | none => exact absurd hms (by simpa using hc)
      | some cols =>
        have := ih (s + 1) (by omega) (by simp at h2; omega)
          (fun j c hj hl => by
            have := hm (j + 1) c (by omega) (by simpa using hl)
            rwa [show s + (j + 1) = s + 1 + j by omega] at this)
        simp only [this]

/-- the columns of `mask_sift` as the inner sift of the second layer: never more than the cap, never more than the
    masks left, all [samples] long -/
theorem maskSiftCol_some (M : Nat → List Sig → Sig → Option (Sig × Bool)) (thr : Rat) (nfreqs fuel ii k : Nat)
    (col : Sig) (cols : List Sig) (h : maskSiftCol M thr nfreqs fuel ii k col = some cols) :
    cols = (maskSift (M ii) thr k (some (nfreqs - ii)) col fuel).1 := by
  unfold maskSiftCol at h
  split at h
  · cases h
  · next c e _ heq => simp only [Option.some.injEq] at h; subst h; rw [heq]

end Sift
