/- Signal algebra used by the masked / ensemble sift proofs: zeros, sums of columns, means (pointwise). -/
import EmdModel.Ensemble

namespace Sig

/-- sample `t` of a signal (0 outside) -/
def sval (s : Sig) (t : Nat) : Rat := (s[t]?).getD 0

theorem getElem?_eq_sval (s : Sig) (t : Nat) (h : t < s.length) : s[t]? = some (sval s t) := by
  simp [Sig.sval, List.getElem?_eq_getElem h]

theorem add_zeros (x : Sig) : Sig.add x (Sig.zeros x.length) = x := by
  unfold Sig.add Sig.zeros
  induction x with
  | nil => rfl
  | cons a t ih => simpa [List.replicate_succ, Rat.add_zero] using ih

theorem sub_zeros (x : Sig) : Sig.sub x (Sig.zeros x.length) = x := by
  unfold Sig.sub Sig.zeros
  induction x with
  | nil => rfl
  | cons a t ih =>
    have : a - 0 = a := by grind
    simpa [List.replicate_succ, this] using ih

theorem smul_zero_eq (u : Sig) : Sig.smul 0 u = Sig.zeros u.length := by
  unfold Sig.smul Sig.zeros
  induction u with
  | nil => rfl
  | cons a t ih => simpa [List.replicate_succ, Rat.zero_mul] using ih

@[simp] theorem length_add (a b : Sig) : (Sig.add a b).length = min a.length b.length := by
  simp [Sig.add]

@[simp] theorem length_sub (a b : Sig) : (Sig.sub a b).length = min a.length b.length := by
  simp [Sig.sub]

@[simp] theorem length_zeros (n : Nat) : (Sig.zeros n).length = n := by simp [Sig.zeros]

theorem sval_zeros (n t : Nat) : sval (Sig.zeros n) t = 0 := by
  unfold Sig.sval Sig.zeros
  by_cases h : t < n
  · simp [h]
  · simp [h]

theorem sval_add (a b : Sig) (t : Nat) (ha : t < a.length) (hb : t < b.length) :
    sval (Sig.add a b) t = sval a t + sval b t := by
  simp [Sig.sval, Sig.add, List.getElem?_zipWith, List.getElem?_eq_getElem ha, List.getElem?_eq_getElem hb]

theorem sval_sub (a b : Sig) (t : Nat) (ha : t < a.length) (hb : t < b.length) :
    sval (Sig.sub a b) t = sval a t - sval b t := by
  simp [Sig.sval, Sig.sub, List.getElem?_zipWith, List.getElem?_eq_getElem ha, List.getElem?_eq_getElem hb]

theorem length_foldl_add (cols : List Sig) (acc : Sig) (n : Nat) (hacc : acc.length = n)
    (hc : ∀ c, c ∈ cols → c.length = n) : (cols.foldl Sig.add acc).length = n := by
  induction cols generalizing acc with
  | nil => simpa using hacc
  | cons c cs ih =>
    simp only [List.foldl_cons]
    apply ih
    · simp [hacc, hc c (by simp)]
    · intro c' h'; exact hc c' (by simp [h'])

theorem sval_foldl_add (cols : List Sig) (acc : Sig) (n t : Nat) (ht : t < n) (hacc : acc.length = n)
    (hc : ∀ c, c ∈ cols → c.length = n) :
    sval (cols.foldl Sig.add acc) t = sval acc t + (cols.map (fun c => sval c t)).sum := by
  induction cols generalizing acc with
  | nil => simp [Rat.add_zero]
  | cons c cs ih =>
    have hcl : c.length = n := hc c (by simp)
    simp only [List.foldl_cons, List.map_cons, List.sum_cons]
    rw [ih (Sig.add acc c) (by simp [hacc, hcl]) (fun c' h' => hc c' (by simp [h'])),
      sval_add acc c t (by omega) (by omega), Rat.add_assoc]

theorem length_vsum (n : Nat) (cols : List Sig) (hc : ∀ c, c ∈ cols → c.length = n) :
    (Sig.vsum n cols).length = n :=
  length_foldl_add cols _ n (by simp) hc

theorem sval_vsum (n t : Nat) (cols : List Sig) (ht : t < n) (hc : ∀ c, c ∈ cols → c.length = n) :
    sval (Sig.vsum n cols) t = (cols.map (fun c => sval c t)).sum := by
  unfold Sig.vsum
  rw [sval_foldl_add cols _ n t ht (by simp) hc, sval_zeros, Rat.zero_add]

theorem ext_sval (a b : Sig) (n : Nat) (ha : a.length = n) (hb : b.length = n)
    (h : ∀ t, t < n → sval a t = sval b t) : a = b := by
  apply List.ext_getElem?
  intro t
  by_cases ht : t < n
  · rw [getElem?_eq_sval a t (by omega), getElem?_eq_sval b t (by omega), h t ht]
  · rw [List.getElem?_eq_none (by omega), List.getElem?_eq_none (by omega)]

theorem sum_replicate (k : Nat) (v : Rat) : (List.replicate k v).sum = (k : Rat) * v := by
  induction k with
  | zero => simp [Rat.zero_mul]
  | succ k ih =>
    simp only [List.replicate_succ, List.sum_cons, ih]
    have : ((k + 1 : Nat) : Rat) = (k : Rat) + 1 := by simp
    rw [this]; grind

end Sig

namespace Ensemble

theorem length_meanOver (n : Nat) (cs : List Sig) (hc : ∀ c, c ∈ cs → c.length = n) :
    (meanOver n cs).length = n := by
  simp [meanOver, Sig.length_vsum n cs hc]

/-- sample `t` of the mean is the mean of the samples `t` -/
theorem sval_meanOver (n t : Nat) (cs : List Sig) (ht : t < n) (hc : ∀ c, c ∈ cs → c.length = n) :
    Sig.sval (meanOver n cs) t = (cs.map (fun c => Sig.sval c t)).sum / (cs.length : Rat) := by
  have hl := Sig.length_vsum n cs hc
  unfold meanOver Sig.sval
  rw [List.getElem?_map, Sig.getElem?_eq_sval _ t (by omega), Sig.sval_vsum n t cs ht hc]
  rfl

/-- the mean of `k ≥ 1` copies of a signal is the signal -/
theorem meanOver_replicate (n k : Nat) (r : Sig) (hk : 0 < k) (hr : r.length = n) :
    meanOver n (List.replicate k r) = r := by
  have hc : ∀ c, c ∈ List.replicate k r → c.length = n := by
    intro c h; rw [(List.mem_replicate.mp h).2]; exact hr
  apply Sig.ext_sval _ _ n (length_meanOver n _ hc) hr
  intro t ht
  rw [sval_meanOver n t _ ht hc]
  simp only [List.map_replicate, List.length_replicate, Sig.sum_replicate]
  have : (k : Rat) ≠ 0 := by
    intro h
    have : k = 0 := by exact_mod_cast h
    omega
  grind

end Ensemble
