/-
  Helper lemmas for C04 — the stopping rules against their documented formulas (ratios instead of
  the cross-multiplied comparisons of the model), and the spec sequence `iter` as an iteration.
-/
import Proofs.Lemmas.SiftEnergy
import Mathlib.Tactic.Linarith
import Mathlib.Algebra.Order.Field.Rat
import Mathlib.Algebra.Order.Field.Basic
import Mathlib.Logic.Function.Iterate

namespace Sift

theorem sumSq_nonneg (a : Sig) : 0 ≤ Sig.sumSq a := by
  unfold Sig.sumSq Sig.sum
  induction a with
  | nil => simp
  | cons v t ih =>
    simp only [List.map_cons, List.foldr_cons]
    have := mul_self_nonneg v
    linarith

theorem abs'_nonneg (v : Rat) : 0 ≤ Rat.abs' v := by
  unfold Rat.abs'; split <;> linarith

theorem abs'_eq_zero_iff (v : Rat) : Rat.abs' v = 0 ↔ v = 0 := by
  unfold Rat.abs'; split <;> constructor <;> intro h <;> linarith

/-- `abs(avg_env)/amp > sd` for one sample, in the model's cross-multiplied form
    (`avg_env = (u+l)/2`, `amp = abs(u-l)/2`) -/
def RillingExceeds (sd u l : Rat) : Prop := sd * (Rat.abs' (u - l) / 2) < Rat.abs' ((u + l) / 2)

instance (sd u l : Rat) : Decidable (RillingExceeds sd u l) := by unfold RillingExceeds; infer_instance

theorem rillingBig_eq (sd : Rat) (U L : Sig) :
    rillingBig sd U L = (List.zip U L).map fun p => decide (RillingExceeds sd p.1 p.2) := by
  unfold rillingBig RillingExceeds
  rw [List.map_zip_eq_zipWith]
  rfl

theorem count_true_map {α : Type} (p : α → Bool) (l : List α) : (l.map p).count true = l.countP p := by
  induction l with
  | nil => rfl
  | cons a t ih => cases h : p a <;> simp [h, ih]

/-- one mean-removal step with a fixed envelope oracle; `none` when an envelope is missing -/
def meanStep (E : Sig → Env) (s : Rat) (h : Sig) : Option Sig :=
  match E h with
  | (some U, some L) => some (Sig.sub h (Sig.smul s (Sig.mean2 U L)))
  | _ => none

theorem iter_succ_bind (E : Sig → Env) (s : Rat) (k : Nat) (x : Sig) :
    iter (fun _ => E) s (k + 1) x = (iter (fun _ => E) s k x).bind (meanStep E s) := by
  simp only [iter]
  cases iter (fun _ => E) s k x with
  | none => rfl
  | some h =>
    simp only [Option.bind_some, meanStep]
    generalize E h = e
    rcases e with ⟨_ | U, _ | L⟩ <;> rfl

theorem iter_eq_iterate' (E : Sig → Env) (s : Rat) (k : Nat) (x : Sig) :
    iter (fun _ => E) s k x = (fun r : Option Sig => r.bind (meanStep E s))^[k] (some x) := by
  induction k with
  | zero => rfl
  | succ k ih => rw [Function.iterate_succ_apply', ← ih, iter_succ_bind]

theorem budget_pos_iff (o : ImfOpts) : 0 < budget o ↔ (o.stop = .fixed → 0 < o.maxIters) := by
  unfold budget
  cases h : o.stop <;> simp

end Sift
